import Tickit.Proof.WinInputSimOps
import Tickit.Proof.WinInputSimFocus
/-
  Delivery under mutation (C14): whatever the handlers do to the windows of a set `A` (closed under descendants),
  the windows outside `A` are offered a key / mouse event in the reference order of the tree as it was when the
  dispatch began.
-/
namespace Tickit
namespace WinInput
open WinTree

/-! ### the offers a step adds to the log -/

/-- The windows offered an event, oldest first. -/
def offWins (l : List LogItem) : List WinTree.Id := (offers l).map (fun p => p.2.1)

/-- Between `st` and `st'` the event was offered to the windows `ws`, in this order. -/
def Off (st st' : St) (ws : List WinTree.Id) : Prop := offWins st'.log = offWins st.log ++ ws

theorem Off.refl (st : St) : Off st st [] := by simp [Off]

theorem Off.of_log {st st' : St} (h : st'.log = st.log) : Off st st' [] := by simp [Off, h]

theorem Off.trans {a b c : St} {xs ys : List WinTree.Id} (h1 : Off a b xs) (h2 : Off b c ys) : Off a c (xs ++ ys) := by
  unfold Off at *
  rw [h2, h1, List.append_assoc]

def NotOffer : LogItem → Prop
  | .offer _ _ _ _ => False
  | _ => True

theorem notOffer_quiet : Quiet NotOffer := ⟨fun _ => trivial, fun _ => trivial⟩

theorem offers_append_notOffer : ∀ (new old : List LogItem), (∀ i ∈ new, NotOffer i) → offers (new ++ old) = offers old := by
  intro new
  induction new with
  | nil => intro old _; rfl
  | cons i rest ih =>
    intro old h
    have hi := h i (List.mem_cons_self ..)
    have hr := ih old (fun j hj => h j (List.mem_cons_of_mem _ hj))
    cases i with
    | offer k w e b => exact absurd hi (by simp [NotOffer])
    | call k w i n r e => simpa [offers] using hr
    | destroyed w => simpa [offers] using hr
    | refused a => simpa [offers] using hr
    | unhandled => simpa [offers] using hr

theorem Off.of_ext {st st' : St} (h : Ext NotOffer st st') : Off st st' [] := by
  obtain ⟨⟨new, e, p⟩, _⟩ := h
  simp [Off, offWins, e, offers_append_notOffer new st.log p]

theorem Off.say_offer (st : St) (k : Kind) (w : WinTree.Id) (e : Ev) (b : Bool) : Off st (st.say (.offer k w e b)) [w] := by
  simp [Off, offWins, St.say, offers]

/-! ### tables whose actions are confined to `A` -/

/-- What `take_focus` from inside a handler needs of the set `A` and the initial store: `A` is a union of whole
    top-level subtrees (the parent of a window of `A` is in `A` or is the root), it does not contain the root, and
    the root's focus pointer points into `A` or nowhere — so that the only focus pointer outside `A` that moves is the
    root's, and it moves within `A`. -/
structure FocusOK (A : Aff) (t0 : Tree) : Prop where
  root : A 0 = false
  top : TopNow A t0
  rootFc : RootFc A t0

/-- An action confined to `A`: `ActConf`, or `take_focus` on a window of `A` under `FocusOK`. -/
def ActConfF (A : Aff) (t0 : Tree) (a : Action) : Prop :=
  ActConf A a ∨ (a.act = .focus ∧ A a.win = true ∧ FocusOK A t0)

def Conf (A : Aff) (t0 : Tree) (binds : Array Binding) : Prop :=
  ∀ (i : Nat) (b : Binding), binds[i]? = some b → ∀ e ∈ b.entries, ∀ a ∈ e.actions, ActConfF A t0 a

theorem Conf.entry {A : Aff} {t0 : Tree} {binds : Array Binding} (hs : Conf A t0 binds) {i : Nat} {b : Binding}
    (h : binds[i]? = some b) : ∀ a ∈ b.entry.actions, ActConfF A t0 a := by
  unfold Binding.entry
  rcases getD_mem_or b.entries (entryIndex b) { ret := false } with hm | hd
  · exact hs i b h _ hm
  · rw [hd]; intro a ha; cases ha

theorem Conf.bump {A : Aff} {t0 : Tree} {binds : Array Binding} (hs : Conf A t0 binds) {i : Nat} {b : Binding}
    (h : binds[i]? = some b) (k : Nat) : Conf A t0 (binds.setIfInBounds i { b with count := k }) := by
  intro j x hx e he
  rw [Array.getElem?_setIfInBounds] at hx
  by_cases hij : i = j
  · subst hij
    simp only [if_true] at hx
    split at hx
    · cases hx; exact hs i b h e he
    · cases hx
  · simp only [hij, if_false] at hx
    exact hs j x hx e he

theorem Conf.fired {A : Aff} {t0 : Tree} {binds : Array Binding} (hs : Conf A t0 binds) {i : Nat} {b : Binding}
    (h : binds[i]? = some b) : Conf A t0 (binds.setIfInBounds i b.fired) := by
  intro j x hx e he
  rw [Array.getElem?_setIfInBounds] at hx
  by_cases hij : i = j
  · subst hij
    simp only [if_true] at hx
    split at hx
    · cases hx; exact hs i b h e he
    · cases hx
  · simp only [hij, if_false] at hx
    exact hs j x hx e he

theorem Sim.back {A : Aff} {t0 t : Tree} (h : Sim A t0 t) {x : WinTree.Id} {w : Win} (hw : t.wins[x]? = some w) :
    ∃ w0, t0.wins[x]? = some w0 := by
  have hlt : x < t.wins.size := (Array.getElem?_eq_some_iff.1 hw).1
  rw [h.size] at hlt
  exact ⟨_, Array.getElem?_eq_getElem hlt⟩

theorem Sim.rel {A : Aff} {t0 t : Tree} (h : Sim A t0 t) {x : WinTree.Id} {w w0 : Win} (hx : A x = false)
    (hw0 : t0.wins[x]? = some w0) (hw : t.wins[x]? = some w) : WinRel A w w0 := by
  obtain ⟨w', hw', r⟩ := h.win x w0 hx hw0
  rw [hw] at hw'; cases hw'; exact r

/-! ### the invariant of a dispatch -/

/-- What holds between the phases of a dispatch: the store and accounting invariant, the store is the initial one
    up to `A`, the tables act on `A` only, the application still owns every window outside `A`. -/
structure DInv (A : Aff) (t0 : Tree) (held : List WinTree.Id) (st : St) : Prop where
  good : Good held st
  sim : Sim A t0 st.tree
  conf : Conf A t0 st.binds
  own : Own A st

theorem safeR_ok {α : Type} {r : Res α} {Q : α → Prop} {a : α} (hs : SafeR r Q) (hr : r = Res.ok a) : Q a := by
  rw [hr] at hs; exact hs

/-- What holds now of the focus side conditions, given that they held in the beginning. -/
theorem focusNow {A : Aff} {t0 t : Tree} (hi0 : TInv t0) (hi : TInv t) (hs : Sim A t0 t) (hfo : FocusOK A t0) :
    TopNow A t ∧ RootFc A t ∧ RootTop t := by
  refine ⟨?_, ?_, ?_⟩
  · intro x w hx hw hf p hp
    cases hAp : A p with
    | true => exact Or.inl rfl
    | false =>
      right
      obtain ⟨pw, hpw, hpf, hm⟩ := hi.parent x p w hw hf hp
      obtain ⟨pw0, hpw0⟩ := hs.back hpw
      obtain ⟨pw', hpw', rel⟩ := hs.win p pw0 hAp hpw0
      rw [hpw] at hpw'; cases hpw'
      have hm0 : x ∈ pw0.children := rel.kids.mem hm
      obtain ⟨xw0, hxw0, hxf0, hxp0⟩ := hi0.child p x pw0 hpw0 (by rw [← rel.freed]; exact hpf) hm0
      rcases hfo.top x xw0 hx hxw0 hxf0 p hxp0 with h | h
      · rw [h] at hAp; cases hAp
      · exact h
  · intro w fc hw hfc
    obtain ⟨w0, hw0⟩ := hs.back hw
    obtain ⟨w', hw', rel⟩ := hs.win 0 w0 hfo.root hw0
    rw [hw] at hw'; cases hw'
    rcases rel.fc with e | ⟨p, _⟩
    · exact hfo.rootFc w0 fc hw0 (by rw [← e]; exact hfc)
    · exact p fc hfc
  · intro w hw
    obtain ⟨w0, hw0, _, hp0⟩ := hi.root
    rw [hw] at hw0; cases hw0; exact hp0

theorem DInv.action {A : Aff} {t0 : Tree} {held : List WinTree.Id} {st st' : St} (hi0 : TInv t0) (h : DInv A t0 held st)
    {a : Action} (hc : ActConfF A t0 a) (hr : doAction st a = Res.ok st') : DInv A t0 held st' ∧ Off st st' [] := by
  obtain ⟨hg', hb⟩ := safeR_ok (doAction_safe h.good.1 (actOK_all a)) hr
  have hoff : Off st st' [] := Off.of_ext (doAction_ext notOffer_quiet hr)
  rcases hc with hc | ⟨hact, hA, hfo⟩
  · obtain ⟨hs, ho⟩ := doAction_sim h.good h.sim.down h.own hc hr
    exact ⟨⟨⟨hg', tableOK_all _⟩, h.sim.trans hs, by rw [hb]; exact h.conf, ho⟩, hoff⟩
  · have key : Sim A st.tree st'.tree ∧ st'.owned = st.owned := by
      unfold doAction at hr
      by_cases hal : allowed st a = true
      · simp only [hal, Bool.not_true, Bool.false_eq_true, if_false, hact] at hr
        obtain ⟨t', ht', hr⟩ := res_bind_eq_ok.1 hr
        simp only [res_pure, Res.ok.injEq] at hr
        subst hr
        obtain ⟨h1, h2, h3⟩ := focusNow hi0 h.good.1.tree h.sim hfo
        exact ⟨takeFocus_sim hfo.root h.sim.down h1 h2 h3 hA ht', rfl⟩
      · simp only [hal, Bool.not_false, if_true, res_pure, Res.ok.injEq] at hr
        subst hr
        exact ⟨Sim.refl h.sim.down, rfl⟩
    refine ⟨⟨⟨hg', tableOK_all _⟩, h.sim.trans key.1, by rw [hb]; exact h.conf, ?_⟩, hoff⟩
    exact Own.of_sim key.1 (fun x _ => by rw [key.2]; exact Nat.le_refl _) h.own

theorem DInv.actions {A : Aff} {t0 : Tree} {held : List WinTree.Id} (hi0 : TInv t0) : ∀ (as : List Action) (st st' : St), DInv A t0 held st →
    (∀ a ∈ as, ActConfF A t0 a) → doActions st as = Res.ok st' → DInv A t0 held st' ∧ Off st st' [] := by
  intro as
  induction as with
  | nil =>
    intro st st' h _ hr
    simp only [doActions, res_pure, Res.ok.injEq] at hr
    subst hr; exact ⟨h, Off.refl _⟩
  | cons a rest ih =>
    intro st st' h hc hr
    simp only [doActions] at hr
    obtain ⟨st1, h1, h2⟩ := res_bind_eq_ok.1 hr
    obtain ⟨d1, o1⟩ := h.action hi0 (hc a (List.mem_cons_self ..)) h1
    obtain ⟨d2, o2⟩ := ih st1 st' d1 (fun b hb => hc b (List.mem_cons_of_mem _ hb)) h2
    exact ⟨d2, by simpa using o1.trans o2⟩

theorem DInv.bindings {A : Aff} {t0 : Tree} {held : List WinTree.Id} (hi0 : TInv t0) (kind : Kind) (win : WinTree.Id) (ev : Ev) :
    ∀ (idxs : List Nat) (st st' : St) (c : Bool), DInv A t0 held st → runBindings st kind win ev idxs = Res.ok (st', c) →
    DInv A t0 held st' ∧ Off st st' [] := by
  intro idxs
  induction idxs with
  | nil =>
    intro st st' c h hr
    simp only [runBindings, res_pure, Res.ok.injEq, Prod.mk.injEq] at hr
    rw [← hr.1]; exact ⟨h, Off.refl _⟩
  | cons bi rest ih =>
    intro st st' c h hr
    unfold runBindings at hr
    cases hb : st.binds[bi]? with
    | none => simp only [hb] at hr; exact ih _ _ _ h hr
    | some b =>
      simp only [hb] at hr
      by_cases hg : b.gone = true
      · simp only [hg, if_true] at hr; exact ih _ _ _ h hr
      simp only [hg, Bool.false_eq_true, if_false] at hr
      obtain ⟨st1, h1, hr⟩ := res_bind_eq_ok.1 hr
      have d0 : DInv A t0 held (({ st with binds := st.binds.setIfInBounds bi b.fired } : St).say
          (.call kind win b.idx (entryIndex b) b.entry.ret ev)) :=
        ⟨⟨⟨h.good.1.tree, h.good.1.drag, h.good.1.size, h.good.1.rc, h.good.1.leaf, h.good.1.held, h.good.1.root, h.good.1.pos⟩,
          tableOK_all _⟩, h.sim, h.conf.fired hb, h.own⟩
      have o0 : Off st (({ st with binds := st.binds.setIfInBounds bi b.fired } : St).say
          (.call kind win b.idx (entryIndex b) b.entry.ret ev)) [] :=
        Off.of_ext (Ext.trans (b := { st with binds := st.binds.setIfInBounds bi b.fired })
          ⟨⟨[], rfl, by simp⟩, BMono.fired hb (by simpa using hg)⟩ (Ext.say _ trivial))
      obtain ⟨d1, o1⟩ := DInv.actions hi0 _ _ _ d0 (h.conf.entry hb) h1
      by_cases hret : b.entry.ret = true
      · simp only [hret, if_true, res_pure, Res.ok.injEq, Prod.mk.injEq] at hr
        rw [← hr.1]; exact ⟨d1, by simpa using o0.trans o1⟩
      · simp only [hret, Bool.false_eq_true, if_false] at hr
        obtain ⟨d2, o2⟩ := ih _ _ _ d1 hr
        exact ⟨d2, by simpa using (o0.trans o1).trans o2⟩

/-- `run_events_whilefalse(win, …)`: one offer, to `win`. -/
theorem DInv.handlers {A : Aff} {t0 : Tree} {held : List WinTree.Id} {kind : Kind} {win : WinTree.Id} {ev : Ev} {st st' : St}
    {c : Bool} (hi0 : TInv t0) (h : DInv A t0 held st) (hr : runHandlers st kind win ev = Res.ok (st', c)) :
    DInv A t0 held st' ∧ Off st st' [win] := by
  unfold runHandlers at hr
  have d0 : DInv A t0 held (st.say (.offer kind win ev (visibleChain st.tree (treeFuel st.tree) win))) :=
    ⟨⟨⟨h.good.1.tree, h.good.1.drag, h.good.1.size, h.good.1.rc, h.good.1.leaf, h.good.1.held, h.good.1.root, h.good.1.pos⟩,
      tableOK_all _⟩, h.sim, h.conf, h.own⟩
  obtain ⟨d1, o1⟩ := DInv.bindings hi0 kind win ev _ _ _ _ d0 hr
  exact ⟨d1, by simpa using (Off.say_offer st kind win ev _).trans o1⟩

/-- Taking a reference. -/
theorem DInv.ref {A : Aff} {t0 : Tree} {held : List WinTree.Id} {st st1 : St} {c : WinTree.Id} (h : DInv A t0 held st)
    (hr : refWin st c = Res.ok st1) : DInv A t0 (c :: held) st1 ∧ Off st st1 [] := by
  obtain ⟨w, hg, e⟩ := refWin_eq_ok hr
  obtain ⟨hw, hf⟩ := get_eq_ok.1 hg
  obtain ⟨st', e', ha, hb⟩ := h.good.1.ref ⟨w, hw, hf⟩
  rw [hr] at e'; cases e'
  refine ⟨⟨⟨ha, tableOK_all _⟩, ?_, by rw [hb]; exact h.conf, ?_⟩, Off.of_log (by rw [e])⟩
  · rw [e]
    exact h.sim.trans (Sim.set h.sim.down hw (fun _ => ⟨rfl, rfl, rfl, rfl, rfl, Kids.refl _ _, FcRel.refl _ _⟩)
      (fun hA => h.sim.down c w hA hw))
  · intro x y hx hy hyf
    rw [e] at hy ⊢
    rcases wins_set_cases hw x y hy with ⟨rfl, rfl⟩ | ⟨_, hy0⟩
    · exact h.own x w hx hw hf
    · exact h.own x y hx hy0 hyf

/-- Dropping a reference the dispatcher holds. -/
theorem DInv.release {A : Aff} {t0 : Tree} {held : List WinTree.Id} {st st' : St} {c : WinTree.Id} (h : DInv A t0 (c :: held) st)
    (hr : unrefLogged st c = Res.ok st') : DInv A t0 held st' ∧ Off st st' [] := by
  obtain ⟨ha, hb⟩ := safeR_ok h.good.1.release hr
  obtain ⟨hs, ho⟩ := unrefLogged_sim h.good h.sim.down h.own hr
  exact ⟨⟨⟨ha, tableOK_all _⟩, h.sim.trans hs, by rw [hb]; exact h.conf, ho⟩, Off.of_ext (unrefLogged_ext notOffer_quiet hr)⟩

theorem DInv.refAll {A : Aff} {t0 : Tree} : ∀ (cs : List WinTree.Id) (held : List WinTree.Id) (st st' : St), DInv A t0 held st →
    WinInput.refAll st cs = Res.ok st' → DInv A t0 (cs.reverse ++ held) st' ∧ Off st st' [] := by
  intro cs
  induction cs with
  | nil =>
    intro held st st' h hr
    simp only [WinInput.refAll, res_pure, Res.ok.injEq] at hr
    subst hr; exact ⟨by simpa using h, Off.refl _⟩
  | cons c rest ih =>
    intro held st st' h hr
    simp only [WinInput.refAll] at hr
    obtain ⟨st1, h1, h2⟩ := res_bind_eq_ok.1 hr
    obtain ⟨d1, o1⟩ := h.ref h1
    obtain ⟨d2, o2⟩ := ih (c :: held) st1 st' d1 h2
    exact ⟨by simpa using d2, by simpa using o1.trans o2⟩

theorem DInv.perm {A : Aff} {t0 : Tree} {held held' : List WinTree.Id} {st : St} (h : DInv A t0 held st) (hp : held.Perm held') :
    DInv A t0 held' st :=
  ⟨⟨h.good.1.perm hp, h.good.2⟩, h.sim, h.conf, h.own⟩

theorem DInv.unrefAll {A : Aff} {t0 : Tree} : ∀ (cs : List WinTree.Id) (held : List WinTree.Id) (st st' : St),
    DInv A t0 (cs ++ held) st → WinInput.unrefAll st cs = Res.ok st' → DInv A t0 held st' ∧ Off st st' [] := by
  intro cs
  induction cs with
  | nil =>
    intro held st st' h hr
    simp only [WinInput.unrefAll, res_pure, Res.ok.injEq] at hr
    subst hr; exact ⟨by simpa using h, Off.refl _⟩
  | cons c rest ih =>
    intro held st st' h hr
    simp only [WinInput.unrefAll] at hr
    obtain ⟨st1, h1, h2⟩ := res_bind_eq_ok.1 hr
    obtain ⟨d1, o1⟩ := DInv.release (held := rest ++ held) (by simpa using h) h1
    obtain ⟨d2, o2⟩ := ih held st1 st' d1 h2
    exact ⟨d2, by simpa using o1.trans o2⟩

/-! ### the side conditions on the set `A` and the initial store -/

/-- `A` is closed under descendants in the (consistent) initial store, and no window outside `A` that steals input
    has a sibling of `A` in front of it as the front-most child (closing that sibling would make the stealing window
    the front-most child, which changes who is offered a key first — delivery to it *is* affected). -/
structure Base (A : Aff) (t0 : Tree) : Prop where
  inv : TInv t0
  down : Down A t0
  stealFront : ∀ (p : WinTree.Id) (w0 : Win) (a : WinTree.Id) (rest : List WinTree.Id), A p = false → t0.wins[p]? = some w0 →
    w0.freed = false → w0.children = a :: rest → A a = true → ∀ c ∈ rest, A c = false → stealAt t0 c = false

theorem Base.up {A : Aff} {t0 : Tree} (hb : Base A t0) {x p : WinTree.Id} {w0 : Win} (hx : A x = false)
    (hw0 : t0.wins[x]? = some w0) (hf : w0.freed = false) (hp : w0.parent = some p) : A p = false := by
  cases hA : A p with
  | false => rfl
  | true =>
    obtain ⟨pw, hpw, _, hm⟩ := hb.inv.parent x p w0 hw0 hf hp
    rw [hb.down p pw hA hpw x hm] at hx; cases hx

/-- Windows outside `A` have the same visible parent chain as in the beginning. -/
theorem visibleChain_sim {A : Aff} {t0 t : Tree} (hb : Base A t0) (h : Sim A t0 t) : ∀ (f : Nat) (x : WinTree.Id), A x = false →
    visibleChain t f x = visibleChain t0 f x := by
  intro f
  induction f with
  | zero => intro x _; rfl
  | succ f ih =>
    intro x hx
    unfold visibleChain
    cases hw0 : t0.wins[x]? with
    | none =>
      cases hw : t.wins[x]? with
      | none => rfl
      | some w => obtain ⟨w0, e⟩ := h.back hw; rw [hw0] at e; cases e
    | some w0 =>
      obtain ⟨w, hw, r⟩ := h.win x w0 hx hw0
      simp only [hw, r.freed, r.visible, r.parent]
      by_cases hfv : (w0.freed || !w0.isVisible) = true
      · simp [hfv]
      · simp only [hfv, Bool.false_eq_true, if_false]
        cases hp : w0.parent with
        | none => rfl
        | some p =>
          simp only
          have hf : w0.freed = false := by
            cases hh : w0.freed with
            | false => rfl
            | true => simp [hh] at hfv
          exact ih p (hb.up hx hw0 hf hp)

/-! ### the reference order, on the initial store -/

/-- The windows outside `A`. -/
def fA (A : Aff) (l : List WinTree.Id) : List WinTree.Id := l.filter (fun x => !A x)

theorem fA_append (A : Aff) (a b : List WinTree.Id) : fA A (a ++ b) = fA A a ++ fA A b := by simp [fA]

theorem fA_nil_of {A : Aff} {l : List WinTree.Id} (h : ∀ x ∈ l, A x = true) : fA A l = [] := by
  simp only [fA, List.filter_eq_nil_iff]
  intro x hx; simp [h x hx]

theorem keyVisits_in {A : Aff} {t0 : Tree} (hb : Base A t0) : ∀ (F : Nat) (win : WinTree.Id) (vs : List WinTree.Id),
    A win = true → keyVisits t0 F win = some vs → ∀ x ∈ vs, A x = true := by
  intro F
  induction F with
  | zero => intro win vs _ hv; simp [keyVisits] at hv
  | succ F ih =>
    intro win vs hA hv
    unfold keyVisits at hv
    cases hw : t0.wins[win]? with
    | none => simp only [hw, Option.some.injEq] at hv; subst hv; intro x hx; cases hx
    | some w0 =>
      simp only [hw] at hv
      by_cases hvis : visibleChain t0 (treeFuel t0) win = true
      · simp only [hvis, Bool.not_true, Bool.false_eq_true, if_false] at hv
        obtain ⟨_, hw', hf0, _⟩ := visibleChain_alive hvis
        rw [hw] at hw'; cases hw'
        have hkid : ∀ c ∈ w0.children, A c = true := hb.down win w0 hA hw
        cases ha : stealVisits t0 (keyVisits t0 F) w0 with
        | none => simp [ha] at hv
        | some a =>
          cases hb' : focusVisits (keyVisits t0 F) w0 with
          | none => simp [ha, hb'] at hv
          | some b =>
            cases hc : restVisits (keyVisits t0 F) w0 with
            | none => simp [ha, hb', hc] at hv
            | some c =>
              simp [ha, hb', hc] at hv
              subst hv
              have pa : ∀ x ∈ a, A x = true := by
                unfold stealVisits at ha
                cases hh : w0.children.head? with
                | none => simp only [hh, Option.some.injEq] at ha; subst ha; intro x hx; cases hx
                | some fc =>
                  simp only [hh] at ha
                  split at ha
                  · exact ih fc a (hkid fc (List.mem_of_mem_head? hh)) ha
                  · simp only [Option.some.injEq] at ha; subst ha; intro x hx; cases hx
              have pb : ∀ x ∈ b, A x = true := by
                unfold focusVisits at hb'
                cases hh : w0.focusedChild with
                | none => simp only [hh, Option.some.injEq] at hb'; subst hb'; intro x hx; cases hx
                | some fc =>
                  simp only [hh] at hb'
                  exact ih fc b (hkid fc (hb.inv.focus win fc w0 hw hf0 hh)) hb'
              have pc : ∀ x ∈ c, A x = true := by
                intro x hx
                unfold restVisits at hc
                obtain ⟨ch, hch, l, hl, hxl⟩ := visitList_mem hc hx
                split at hl
                · simp only [Option.some.injEq] at hl; subst hl; cases hxl
                · exact ih ch l (hkid ch hch) hl x hxl
              intro x hx
              simp only [List.mem_append, List.mem_cons] at hx
              rcases hx with hx | hx | rfl | hx
              · exact pa x hx
              · exact pb x hx
              · exact hA
              · exact pc x hx
      · simp only [hvis, Bool.not_false, if_true, Option.some.injEq] at hv
        subst hv; intro x hx; cases hx

/-- What a phase offered (`ws`) agrees outside `A` with the reference (`vs`): a prefix, all of it unless claimed. -/
def Match (A : Aff) (d : Bool) (ws vs : List WinTree.Id) : Prop := fA A ws <+: fA A vs ∧ (d = false → fA A ws = fA A vs)

theorem Match.nil (A : Aff) (d : Bool) : Match A d [] [] := ⟨List.prefix_refl _, fun _ => rfl⟩

theorem Match.ofA {A : Aff} {d : Bool} {ws vs : List WinTree.Id} (h1 : ∀ x ∈ ws, A x = true) (h2 : ∀ x ∈ vs, A x = true) :
    Match A d ws vs := by
  unfold Match; rw [fA_nil_of h1, fA_nil_of h2]; exact ⟨List.prefix_refl _, fun _ => rfl⟩

theorem Match.claimed {A : Aff} {ws vs : List WinTree.Id} (h : Match A true ws vs) (zs : List WinTree.Id) :
    Match A true ws (vs ++ zs) := by
  refine ⟨?_, fun h => by cases h⟩
  rw [fA_append]; exact h.1.trans (List.prefix_append _ _)

theorem Match.append {A : Aff} {d : Bool} {ws vs ws' vs' : List WinTree.Id} (h1 : Match A false ws vs) (h2 : Match A d ws' vs') :
    Match A d (ws ++ ws') (vs ++ vs') := by
  unfold Match at *
  rw [fA_append, fA_append, h1.2 rfl]
  exact ⟨(List.prefix_append_right_inj _).2 h2.1, fun hd => by rw [h2.2 hd]⟩

theorem Match.skipA {A : Aff} {d : Bool} {ws a b : List WinTree.Id} (ha : ∀ x ∈ a, A x = true) (h : Match A d ws b) :
    Match A d ws (a ++ b) := by
  unfold Match at *
  rw [fA_append, fA_nil_of ha]; exact h

theorem Match.single (A : Aff) (d : Bool) (w : WinTree.Id) : Match A d [w] [w] := ⟨List.prefix_refl _, fun _ => rfl⟩

/-! ### `_handle_key`, phase by phase -/

/-- What a phase that starts in `st` for the window `win` delivers: the invariant, and offers that are inside `A` if
    `win` is, and otherwise agree outside `A` with the phase's part `ref` of the reference order. -/
def PhaseOK (A : Aff) (t0 : Tree) (held : List WinTree.Id) (st st' : St) (d : Bool) (win : WinTree.Id)
    (ref : Nat → Option (List WinTree.Id)) : Prop :=
  DInv A t0 held st' ∧ ∃ ws, Off st st' ws ∧ (A win = true → ∀ x ∈ ws, A x = true) ∧
    (A win = false → ∀ F vs, ref F = some vs → Match A d ws vs)

def KeyRecSim (A : Aff) (t0 : Tree) (rec : KeyRec) : Prop :=
  ∀ (st : St) (win : WinTree.Id) (ev : Ev) (held : List WinTree.Id) (st' : St) (d : Bool), DInv A t0 held st →
    Alive st.tree win → rec st win ev = Out.ok (st', d) → PhaseOK A t0 held st st' d win (fun F => keyVisits t0 F win)

theorem stealVisits_head {t0 : Tree} {g : WinTree.Id → Option (List WinTree.Id)} {w0 : Win} {fc : WinTree.Id}
    {rest : List WinTree.Id} (hc : w0.children = fc :: rest) :
    stealVisits t0 g w0 = if stealAt t0 fc then g fc else some [] := by
  unfold stealVisits; rw [hc]; rfl

theorem stealVisits_inA {A : Aff} {t0 : Tree} (hb : Base A t0) {w0 : Win} {F : Nat} {vs : List WinTree.Id}
    (hh : ∀ fc, w0.children.head? = some fc → A fc = true) (hv : stealVisits t0 (keyVisits t0 F) w0 = some vs) :
    ∀ x ∈ vs, A x = true := by
  unfold stealVisits at hv
  cases hc : w0.children.head? with
  | none => simp only [hc, Option.some.injEq] at hv; subst hv; intro x hx; cases hx
  | some fc =>
    simp only [hc] at hv
    split at hv
    · exact keyVisits_in hb F fc vs (hh fc hc) hv
    · simp only [Option.some.injEq] at hv; subst hv; intro x hx; cases hx

theorem focusVisits_inA {A : Aff} {t0 : Tree} (hb : Base A t0) {w0 : Win} {F : Nat} {vs : List WinTree.Id}
    (hh : ∀ fc, w0.focusedChild = some fc → A fc = true) (hv : focusVisits (keyVisits t0 F) w0 = some vs) :
    ∀ x ∈ vs, A x = true := by
  unfold focusVisits at hv
  cases hc : w0.focusedChild with
  | none => simp only [hc, Option.some.injEq] at hv; subst hv; intro x hx; cases hx
  | some fc => simp only [hc] at hv; exact keyVisits_in hb F fc vs (hh fc hc) hv

theorem stealAt_sim {A : Aff} {t0 t : Tree} (h : Sim A t0 t) {x : WinTree.Id} {w : Win} (hx : A x = false)
    (hw : t.wins[x]? = some w) : stealAt t0 x = w.stealInput := by
  obtain ⟨w0, hw0⟩ := h.back hw
  have r := h.rel hx hw0 hw
  unfold stealAt; rw [hw0]; exact r.steal.symm

theorem keySteal_sim {A : Aff} {t0 : Tree} (hb : Base A t0) {rec : KeyRec} (hrec : KeyRecSim A t0 rec) {st st' : St}
    {win : WinTree.Id} {ev : Ev} {held : List WinTree.Id} {d : Bool} {w0 : Win} (h : DInv A t0 held st)
    (hal : Alive st.tree win) (hw0 : t0.wins[win]? = some w0) (hr : keySteal rec st win ev = Out.ok (st', d)) :
    PhaseOK A t0 held st st' d win (fun F => stealVisits t0 (keyVisits t0 F) w0) := by
  obtain ⟨w, hg, hw, hf⟩ := hal.get
  unfold keySteal at hr
  simp only [hg, lift_ok, out_bind_ok] at hr
  cases hcs : w.children with
  | nil =>
    simp only [hcs, List.head?_nil, out_pure, Out.ok.injEq, Prod.mk.injEq] at hr
    obtain ⟨rfl, rfl⟩ := hr
    refine ⟨h, [], Off.refl _, (fun _ x hx => by cases hx), ?_⟩
    intro hA F vs hv
    dsimp only at hv
    have rel := h.sim.rel hA hw0 hw
    refine Match.ofA (fun x hx => by cases hx) (stealVisits_inA hb ?_ hv)
    intro fc hfc
    cases hAf : A fc with
    | true => rfl
    | false =>
      have := rel.kids.mem_of_not (List.mem_of_mem_head? hfc) hAf
      rw [hcs] at this; cases this
  | cons fc tl =>
    simp only [hcs, List.head?_cons] at hr
    obtain ⟨fw, hfw, hr⟩ := lift_bind_eq_ok.1 hr
    obtain ⟨hfww, hfwf⟩ := get_eq_ok.1 hfw
    have hfcm : fc ∈ w.children := by rw [hcs]; exact List.mem_cons_self ..
    by_cases hst : fw.stealInput = true
    · simp only [hst, if_true] at hr
      obtain ⟨d', ws, off, cA, cN⟩ := hrec st fc ev held st' d h ⟨fw, hfww, hfwf⟩ hr
      refine ⟨d', ws, off, fun hA => cA (h.sim.down win w hA hw fc hfcm), ?_⟩
      intro hA F vs hv
      dsimp only at hv
      have rel := h.sim.rel hA hw0 hw
      have hk := rel.kids
      rw [hcs] at hk
      generalize hcs0 : w0.children = cs0 at hk
      cases hk with
      | keep _ hk' =>
        rw [stealVisits_head hcs0] at hv
        cases hAf : A fc with
        | false =>
          have : stealAt t0 fc = true := by rw [stealAt_sim h.sim hAf hfww]; exact hst
          simp only [this, if_true] at hv
          exact cN hAf F vs hv
        | true =>
          refine Match.ofA (cA hAf) ?_
          split at hv
          · exact keyVisits_in hb F fc vs hAf hv
          · simp only [Option.some.injEq] at hv; subst hv; intro x hx; cases hx
      | @drop a _ _ ha hk' =>
        have vsA : ∀ x ∈ vs, A x = true := by
          refine stealVisits_inA hb ?_ hv
          intro fc0 hh; rw [hcs0] at hh; simp only [List.head?_cons, Option.some.injEq] at hh; subst hh; exact ha
        cases hAf : A fc with
        | true => exact Match.ofA (cA hAf) vsA
        | false =>
          exfalso
          have hst0 : stealAt t0 fc = true := by rw [stealAt_sim h.sim hAf hfww]; exact hst
          have hf0 : w0.freed = false := by rw [← rel.freed]; exact hf
          have := hb.stealFront win w0 a _ hA hw0 hf0 hcs0 ha fc (hk'.mem (List.mem_cons_self ..)) hAf
          rw [hst0] at this; cases this
    · simp only [hst, Bool.false_eq_true, if_false, out_pure, Out.ok.injEq, Prod.mk.injEq] at hr
      obtain ⟨rfl, rfl⟩ := hr
      refine ⟨h, [], Off.refl _, (fun _ x hx => by cases hx), ?_⟩
      intro hA F vs hv
      dsimp only at hv
      refine Match.ofA (fun x hx => by cases hx) ?_
      have rel := h.sim.rel hA hw0 hw
      have hk := rel.kids
      rw [hcs] at hk
      generalize hcs0 : w0.children = cs0 at hk
      cases hk with
      | keep _ hk' =>
        rw [stealVisits_head hcs0] at hv
        cases hAf : A fc with
        | false =>
          have : stealAt t0 fc = false := by rw [stealAt_sim h.sim hAf hfww]; simpa using hst
          simp only [this, Bool.false_eq_true, if_false, Option.some.injEq] at hv
          subst hv; intro x hx; cases hx
        | true =>
          split at hv
          · exact keyVisits_in hb F fc vs hAf hv
          · simp only [Option.some.injEq] at hv; subst hv; intro x hx; cases hx
      | @drop a _ _ ha hk' =>
        refine stealVisits_inA hb ?_ hv
        intro fc0 hh; rw [hcs0] at hh; simp only [List.head?_cons, Option.some.injEq] at hh; subst hh; exact ha

theorem keyFocus_sim {A : Aff} {t0 : Tree} (hb : Base A t0) {rec : KeyRec} (hrec : KeyRecSim A t0 rec) {st st' : St}
    {win : WinTree.Id} {ev : Ev} {held : List WinTree.Id} {d : Bool} {w0 : Win} (h : DInv A t0 held st)
    (hal : Alive st.tree win) (hw0 : t0.wins[win]? = some w0) (hr : keyFocus rec st win ev = Out.ok (st', d)) :
    PhaseOK A t0 held st st' d win (fun F => focusVisits (keyVisits t0 F) w0) := by
  obtain ⟨w, hg, hw, hf⟩ := hal.get
  unfold keyFocus at hr
  simp only [hg, lift_ok, out_bind_ok] at hr
  cases hfc : w.focusedChild with
  | none =>
    simp only [hfc, out_pure, Out.ok.injEq, Prod.mk.injEq] at hr
    obtain ⟨rfl, rfl⟩ := hr
    refine ⟨h, [], Off.refl _, (fun _ x hx => by cases hx), ?_⟩
    intro hA F vs hv
    dsimp only at hv
    have rel := h.sim.rel hA hw0 hw
    refine Match.ofA (fun x hx => by cases hx) (focusVisits_inA hb ?_ hv)
    intro fc0 h0
    rcases rel.fc with e | ⟨_, q⟩
    · rw [hfc, h0] at e; cases e
    · exact q fc0 h0
  | some fc =>
    simp only [hfc] at hr
    have hfcm : fc ∈ w.children := h.good.1.tree.focus win fc w hw hf hfc
    obtain ⟨fw, hfww, hfwf, _⟩ := h.good.1.tree.child win fc w hw hf hfcm
    obtain ⟨d', ws, off, cA, cN⟩ := hrec st fc ev held st' d h ⟨fw, hfww, hfwf⟩ hr
    refine ⟨d', ws, off, fun hA => cA (h.sim.down win w hA hw fc hfcm), ?_⟩
    intro hA F vs hv
    dsimp only at hv
    have rel := h.sim.rel hA hw0 hw
    cases hAf : A fc with
    | false =>
      rcases rel.fc with e | ⟨p, _⟩
      · unfold focusVisits at hv
        rw [← e, hfc] at hv
        exact cN hAf F vs hv
      · rw [p fc hfc] at hAf; cases hAf
    | true =>
      refine Match.ofA (cA hAf) (focusVisits_inA hb ?_ hv)
      intro fc0 h0
      rcases rel.fc with e | ⟨_, q⟩
      · rw [hfc, h0] at e; cases e; exact hAf
      · exact q fc0 h0

theorem treeFuel_sim {A : Aff} {t0 t : Tree} (h : Sim A t0 t) : treeFuel t = treeFuel t0 := by
  unfold treeFuel; rw [h.size]

theorem keyOwn_sim {A : Aff} {t0 : Tree} (hb : Base A t0) {st st' : St} {win : WinTree.Id} {ev : Ev}
    {held : List WinTree.Id} {d : Bool} (h : DInv A t0 held st)
    (hvis0 : A win = false → visibleChain t0 (treeFuel t0) win = true)
    (hr : keyOwn Cfg.repaired st win ev = Out.ok (st', d)) :
    PhaseOK A t0 held st st' d win (fun _ => some [win]) := by
  unfold keyOwn ownVisible at hr
  simp only [Cfg.repaired, if_true] at hr
  obtain ⟨own, hown, hr⟩ := lift_bind_eq_ok.1 hr
  cases own with
  | true =>
    simp only [if_true] at hr
    cases hrh : runHandlers st .key win ev with
    | ub m => rw [hrh] at hr; simp at hr
    | ok p =>
      rw [hrh] at hr
      simp only [lift_ok, Out.ok.injEq] at hr
      subst hr
      obtain ⟨d1, o1⟩ := h.handlers hb.inv hrh
      refine ⟨d1, [win], o1, ?_, ?_⟩
      · intro hA x hx; simp only [List.mem_singleton] at hx; subst hx; exact hA
      · intro _ F vs hv; simp only [Option.some.injEq] at hv; subst hv; exact Match.single A _ win
  | false =>
    simp only [Bool.false_eq_true, if_false, out_pure, Out.ok.injEq, Prod.mk.injEq] at hr
    obtain ⟨rfl, rfl⟩ := hr
    refine ⟨h, [], Off.refl _, (fun _ x hx => by cases hx), ?_⟩
    intro hA
    exfalso
    have h1 := isShown_ok _ _ _ _ hown
    rw [visibleChain_sim hb h.sim _ win hA, treeFuel_sim h.sim, hvis0 hA] at h1
    cases h1

/-- The children loop below a window of `A`: every offer goes to a window of `A`. -/
theorem keySnap_inA {A : Aff} {t0 : Tree} {rec : KeyRec} (hrec : KeyRecSim A t0 rec) (win : WinTree.Id) (ev : Ev)
    (held : List WinTree.Id) : ∀ (cs : List WinTree.Id) (st st' : St) (d : Bool), DInv A t0 held st →
    (∀ c ∈ cs, A c = true) → keySnap rec st win cs ev = Out.ok (st', d) →
    DInv A t0 held st' ∧ ∃ ws, Off st st' ws ∧ ∀ x ∈ ws, A x = true := by
  intro cs
  induction cs with
  | nil =>
    intro st st' d h _ hr
    simp only [keySnap, out_pure, Out.ok.injEq, Prod.mk.injEq] at hr
    obtain ⟨rfl, rfl⟩ := hr
    exact ⟨h, [], Off.refl _, fun x hx => by cases hx⟩
  | cons c rest ih =>
    intro st st' d h hcs hr
    simp only [keySnap] at hr
    obtain ⟨cw, hcw, hr⟩ := lift_bind_eq_ok.1 hr
    obtain ⟨hcww, hcwf⟩ := get_eq_ok.1 hcw
    have hrest : ∀ c' ∈ rest, A c' = true := fun c' hc' => hcs c' (List.mem_cons_of_mem _ hc')
    by_cases hpar : cw.parent = some win
    · simp only [hpar, ne_eq, not_true_eq_false, if_false] at hr
      obtain ⟨w, hw, hr⟩ := lift_bind_eq_ok.1 hr
      by_cases hfc : w.focusedChild = some c
      · simp only [hfc, if_true] at hr; exact ih st st' d h hrest hr
      · simp only [hfc, if_false] at hr
        obtain ⟨⟨st1, d1⟩, hr1, hr⟩ := out_bind_eq_ok.1 hr
        obtain ⟨h1, ws1, o1, cA, _⟩ := hrec st c ev held st1 d1 h ⟨cw, hcww, hcwf⟩ hr1
        cases d1 with
        | true =>
          simp only [if_true, out_pure, Out.ok.injEq, Prod.mk.injEq] at hr
          obtain ⟨rfl, rfl⟩ := hr
          exact ⟨h1, ws1, o1, cA (hcs c (List.mem_cons_self ..))⟩
        | false =>
          simp only [Bool.false_eq_true, if_false] at hr
          obtain ⟨h2, ws2, o2, c2⟩ := ih st1 st' d h1 hrest hr
          refine ⟨h2, ws1 ++ ws2, o1.trans o2, ?_⟩
          intro x hx
          rcases List.mem_append.1 hx with hx | hx
          · exact cA (hcs c (List.mem_cons_self ..)) x hx
          · exact c2 x hx
    · simp only [hpar, ne_eq, not_false_eq_true, if_true] at hr
      exact ih st st' d h hrest hr

/-- The children loop below a window outside `A`, over a snapshot that is the initial children list up to `A`. -/
theorem keySnap_sim {A : Aff} {t0 : Tree} (hb : Base A t0) {rec : KeyRec} (hrec : KeyRecSim A t0 rec) {win : WinTree.Id}
    {ev : Ev} {held : List WinTree.Id} (hA : A win = false) {w0 : Win} (hw0 : t0.wins[win]? = some w0) (hf0 : w0.freed = false)
    {cs cs0 : List WinTree.Id} (hk : Kids A cs cs0) : (∀ c ∈ cs0, c ∈ w0.children) →
    ∀ (st st' : St) (d : Bool), DInv A t0 held st → keySnap rec st win cs ev = Out.ok (st', d) →
    DInv A t0 held st' ∧ ∃ ws, Off st st' ws ∧ ∀ F vs,
      visitList (fun c => if w0.focusedChild = some c then some [] else keyVisits t0 F c) cs0 = some vs → Match A d ws vs := by
  have refA : ∀ (x : WinTree.Id), A x = true → ∀ (F : Nat) (a : List WinTree.Id),
      (if w0.focusedChild = some x then some [] else keyVisits t0 F x) = some a → ∀ y ∈ a, A y = true := by
    intro x hAx F a ha
    split at ha
    · simp only [Option.some.injEq] at ha; subst ha; intro y hy; cases hy
    · exact keyVisits_in hb F x a hAx ha
  induction hk with
  | nil =>
    intro _ st st' d h hr
    simp only [keySnap, out_pure, Out.ok.injEq, Prod.mk.injEq] at hr
    obtain ⟨rfl, rfl⟩ := hr
    refine ⟨h, [], Off.refl _, ?_⟩
    intro F vs hv
    simp only [visitList, Option.some.injEq] at hv
    subst hv; exact Match.nil A _
  | @keep x cs' cs0' hk' ih =>
    intro hsub st st' d h hr
    have hsub' : ∀ c ∈ cs0', c ∈ w0.children := fun c hc => hsub c (List.mem_cons_of_mem _ hc)
    simp only [keySnap] at hr
    obtain ⟨cw, hcw, hr⟩ := lift_bind_eq_ok.1 hr
    obtain ⟨hcww, hcwf⟩ := get_eq_ok.1 hcw
    cases hAx : A x with
    | true =>
      have skip : keySnap rec st win cs' ev = Out.ok (st', d) →
          DInv A t0 held st' ∧ ∃ ws, Off st st' ws ∧ ∀ F vs,
            visitList (fun c => if w0.focusedChild = some c then some [] else keyVisits t0 F c) (x :: cs0') = some vs →
            Match A d ws vs := by
        intro hr'
        obtain ⟨h2, ws, o, m⟩ := ih hsub' st st' d h hr'
        refine ⟨h2, ws, o, ?_⟩
        intro F vs hv
        obtain ⟨a, b, ha, hb', rfl⟩ := visitList_cons_some hv
        exact Match.skipA (refA x hAx F a ha) (m F b hb')
      by_cases hpar : cw.parent = some win
      · simp only [hpar, ne_eq, not_true_eq_false, if_false] at hr
        obtain ⟨w, hw, hr⟩ := lift_bind_eq_ok.1 hr
        by_cases hfc : w.focusedChild = some x
        · simp only [hfc, if_true] at hr; exact skip hr
        · simp only [hfc, if_false] at hr
          obtain ⟨⟨st1, d1⟩, hr1, hr⟩ := out_bind_eq_ok.1 hr
          obtain ⟨h1, ws1, o1, cA, _⟩ := hrec st x ev held st1 d1 h ⟨cw, hcww, hcwf⟩ hr1
          cases d1 with
          | true =>
            simp only [if_true, out_pure, Out.ok.injEq, Prod.mk.injEq] at hr
            obtain ⟨rfl, rfl⟩ := hr
            refine ⟨h1, ws1, o1, ?_⟩
            intro F vs hv
            obtain ⟨a, b, ha, _, rfl⟩ := visitList_cons_some hv
            exact (Match.ofA (cA hAx) (refA x hAx F a ha)).claimed b
          | false =>
            simp only [Bool.false_eq_true, if_false] at hr
            obtain ⟨h2, ws2, o2, m2⟩ := ih hsub' st1 st' d h1 hr
            refine ⟨h2, ws1 ++ ws2, o1.trans o2, ?_⟩
            intro F vs hv
            obtain ⟨a, b, ha, hb', rfl⟩ := visitList_cons_some hv
            exact (Match.ofA (cA hAx) (refA x hAx F a ha)).append (m2 F b hb')
      · simp only [hpar, ne_eq, not_false_eq_true, if_true] at hr
        exact skip hr
    | false =>
      obtain ⟨xw0, hxw0, _, hxp0⟩ := hb.inv.child win x w0 hw0 hf0 (hsub x (List.mem_cons_self ..))
      have xrel := h.sim.rel hAx hxw0 hcww
      have hpar : cw.parent = some win := by rw [xrel.parent]; exact hxp0
      simp only [hpar, ne_eq, not_true_eq_false, if_false] at hr
      obtain ⟨w, hw, hr⟩ := lift_bind_eq_ok.1 hr
      have rel := h.sim.rel hA hw0 (get_eq_ok.1 hw).1
      have hfciff : w.focusedChild = some x ↔ w0.focusedChild = some x := by
        rcases rel.fc with e | ⟨p, q⟩
        · rw [e]
        · constructor
          · intro hh; have := p x hh; rw [hAx] at this; cases this
          · intro hh; have := q x hh; rw [hAx] at this; cases this
      by_cases hfc : w.focusedChild = some x
      · simp only [hfc, if_true] at hr
        obtain ⟨h2, ws, o, m⟩ := ih hsub' st st' d h hr
        refine ⟨h2, ws, o, ?_⟩
        intro F vs hv
        obtain ⟨a, b, ha, hb', rfl⟩ := visitList_cons_some hv
        simp only [hfciff.1 hfc, if_true, Option.some.injEq] at ha
        subst ha
        simpa using m F b hb'
      · simp only [hfc, if_false] at hr
        have hfc0 : ¬ w0.focusedChild = some x := fun hh => hfc (hfciff.2 hh)
        obtain ⟨⟨st1, d1⟩, hr1, hr⟩ := out_bind_eq_ok.1 hr
        obtain ⟨h1, ws1, o1, _, cN⟩ := hrec st x ev held st1 d1 h ⟨cw, hcww, hcwf⟩ hr1
        cases d1 with
        | true =>
          simp only [if_true, out_pure, Out.ok.injEq, Prod.mk.injEq] at hr
          obtain ⟨rfl, rfl⟩ := hr
          refine ⟨h1, ws1, o1, ?_⟩
          intro F vs hv
          obtain ⟨a, b, ha, _, rfl⟩ := visitList_cons_some hv
          simp only [hfc0, if_false] at ha
          exact (cN hAx F a ha).claimed b
        | false =>
          simp only [Bool.false_eq_true, if_false] at hr
          obtain ⟨h2, ws2, o2, m2⟩ := ih hsub' st1 st' d h1 hr
          refine ⟨h2, ws1 ++ ws2, o1.trans o2, ?_⟩
          intro F vs hv
          obtain ⟨a, b, ha, hb', rfl⟩ := visitList_cons_some hv
          simp only [hfc0, if_false] at ha
          exact (cN hAx F a ha).append (m2 F b hb')
  | @drop a cs' cs0' ha hk' ih =>
    intro hsub st st' d h hr
    have hsub' : ∀ c ∈ cs0', c ∈ w0.children := fun c hc => hsub c (List.mem_cons_of_mem _ hc)
    obtain ⟨h2, ws, o, m⟩ := ih hsub' st st' d h hr
    refine ⟨h2, ws, o, ?_⟩
    intro F vs hv
    obtain ⟨a', b, ha', hb', rfl⟩ := visitList_cons_some hv
    exact Match.skipA (refA a ha F a' ha') (m F b hb')

theorem keyChildren_sim {A : Aff} {t0 : Tree} (hb : Base A t0) {rec : KeyRec} (hrec : KeyRecSim A t0 rec) {fuel : Nat}
    {st st' : St} {win : WinTree.Id} {ev : Ev} {held : List WinTree.Id} {d : Bool} {w0 : Win} (h : DInv A t0 held st)
    (hal : Alive st.tree win) (hw0 : t0.wins[win]? = some w0)
    (hr : keyChildren Cfg.repaired rec fuel st win ev = Out.ok (st', d)) :
    PhaseOK A t0 held st st' d win (fun F => restVisits (keyVisits t0 F) w0) := by
  obtain ⟨w, hg, hw, hf⟩ := hal.get
  unfold keyChildren at hr
  simp only [hg, lift_ok, out_bind_ok, Cfg.repaired, if_true] at hr
  obtain ⟨st4, h4, hr⟩ := lift_bind_eq_ok.1 hr
  obtain ⟨⟨st5, d5⟩, h5, hr⟩ := out_bind_eq_ok.1 hr
  obtain ⟨st6, h6, hr⟩ := lift_bind_eq_ok.1 hr
  simp only [out_pure, Out.ok.injEq, Prod.mk.injEq] at hr
  obtain ⟨rfl, rfl⟩ := hr
  obtain ⟨g4, o4⟩ := DInv.refAll _ _ _ _ h h4
  have fin : ∀ (ws : List WinTree.Id), DInv A t0 (w.children.reverse ++ held) st5 → Off st4 st5 ws →
      DInv A t0 held st6 ∧ Off st st6 ws := by
    intro ws g5 o5
    have g5' : DInv A t0 (w.children ++ held) st5 := g5.perm ((List.reverse_perm _).append_right held)
    obtain ⟨g6, o6⟩ := DInv.unrefAll _ _ _ _ g5' h6
    exact ⟨g6, by simpa using (o4.trans o5).trans o6⟩
  cases hA : A win with
  | true =>
    obtain ⟨g5, ws, o5, c5⟩ := keySnap_inA hrec win ev _ _ _ _ _ g4 (h.sim.down win w hA hw) h5
    obtain ⟨g6, o6⟩ := fin ws g5 o5
    exact ⟨g6, ws, o6, fun _ => c5, fun hn => by rw [hA] at hn; cases hn⟩
  | false =>
    have rel := h.sim.rel hA hw0 hw
    have hf0 : w0.freed = false := by rw [← rel.freed]; exact hf
    obtain ⟨g5, ws, o5, m5⟩ := keySnap_sim hb hrec hA hw0 hf0 rel.kids (fun c hc => hc) _ _ _ g4 h5
    obtain ⟨g6, o6⟩ := fin ws g5 o5
    refine ⟨g6, ws, o6, (fun hn => by rw [hA] at hn; cases hn), ?_⟩
    intro _ F vs hv
    exact m5 F vs hv

/-- One level of `_handle_key` (repaired code) under handlers that mutate windows of `A` only. -/
theorem handleKeyBody_sim {A : Aff} {t0 : Tree} (hb : Base A t0) {rec : KeyRec} (hrec : KeyRecSim A t0 rec) (fuel : Nat) :
    KeyRecSim A t0 (handleKeyBody Cfg.repaired rec fuel) := by
  intro st win ev held st' d h hal hr
  unfold handleKeyBody at hr
  obtain ⟨vis, hvis, hr⟩ := lift_bind_eq_ok.1 hr
  have hvis' : isShown st.tree (treeFuel st.tree) win = Res.ok vis := by
    simpa [entryVisible, Cfg.repaired] using hvis
  have hvc := isShown_ok _ _ _ _ hvis'
  obtain ⟨w, hg, hw, hf⟩ := hal.get
  obtain ⟨w0, hw0⟩ := h.sim.back hw
  have hvc0 : A win = false → visibleChain t0 (treeFuel t0) win = vis := by
    intro hA
    rw [← hvc, visibleChain_sim hb h.sim _ win hA, treeFuel_sim h.sim]
  cases vis with
  | false =>
    simp only [Bool.not_false, if_true, out_pure, Out.ok.injEq, Prod.mk.injEq] at hr
    obtain ⟨rfl, rfl⟩ := hr
    refine ⟨h, [], Off.refl _, (fun _ x hx => by cases hx), ?_⟩
    intro hA F vs hv
    dsimp only at hv
    cases F with
    | zero => simp [keyVisits] at hv
    | succ F =>
      unfold keyVisits at hv
      simp only [hw0, hvc0 hA, Bool.not_false, if_true, Option.some.injEq] at hv
      subst hv; exact Match.nil A _
  | true =>
    simp only [Bool.not_true, Bool.false_eq_true, if_false] at hr
    obtain ⟨st1, h1, hr⟩ := lift_bind_eq_ok.1 hr
    obtain ⟨⟨st5, d5⟩, h5, hr⟩ := out_bind_eq_ok.1 hr
    obtain ⟨g1, o1⟩ := h.ref h1
    have alive : ∀ s, DInv A t0 (win :: held) s → Alive s.tree win :=
      fun s g => g.good.1.held win (List.mem_cons_self ..)
    -- the four phases
    have key : DInv A t0 (win :: held) st5 ∧ ∃ ws, Off st1 st5 ws ∧ (A win = true → ∀ x ∈ ws, A x = true) ∧
        (A win = false → ∀ (F : Nat) (a b c : List WinTree.Id), stealVisits t0 (keyVisits t0 F) w0 = some a →
          focusVisits (keyVisits t0 F) w0 = some b → restVisits (keyVisits t0 F) w0 = some c →
          Match A d5 ws (a ++ (b ++ ([win] ++ c)))) := by
      obtain ⟨stA, dA, eA, hcA⟩ := firstClaim_ok h5
      obtain ⟨gA, wsA, oA, aA, nA⟩ := keySteal_sim hb hrec g1 (alive _ g1) hw0 eA
      rcases hcA with ⟨rfl, rfl, rfl⟩ | ⟨rfl, hA'⟩
      · exact ⟨gA, wsA, oA, aA, fun hA F a b c ha _ _ => (nA hA F a ha).claimed _⟩
      obtain ⟨stB, dB, eB, hcB⟩ := firstClaim_ok hA'
      obtain ⟨gB, wsB, oB, aB, nB⟩ := keyFocus_sim hb hrec gA (alive _ gA) hw0 eB
      have mem2 : A win = true → ∀ x ∈ wsA ++ wsB, A x = true := by
        intro hA x hx
        rcases List.mem_append.1 hx with hx | hx
        · exact aA hA x hx
        · exact aB hA x hx
      rcases hcB with ⟨rfl, rfl, rfl⟩ | ⟨rfl, hB'⟩
      · exact ⟨gB, wsA ++ wsB, oA.trans oB, mem2,
          fun hA F a b c ha hb' _ => (nA hA F a ha).append ((nB hA F b hb').claimed _)⟩
      obtain ⟨stC, dC, eC, hcC⟩ := firstClaim_ok hB'
      obtain ⟨gC, wsC, oC, aC, nC⟩ := keyOwn_sim hb gB hvc0 eC
      have mem3 : A win = true → ∀ x ∈ wsA ++ wsB ++ wsC, A x = true := by
        intro hA x hx
        rcases List.mem_append.1 hx with hx | hx
        · exact mem2 hA x hx
        · exact aC hA x hx
      rcases hcC with ⟨rfl, rfl, rfl⟩ | ⟨rfl, hC'⟩
      · refine ⟨gC, wsA ++ wsB ++ wsC, (oA.trans oB).trans oC, mem3, ?_⟩
        intro hA F a b c ha hb' _
        rw [List.append_assoc]
        exact (nA hA F a ha).append ((nB hA F b hb').append ((nC hA F [win] rfl).claimed c))
      obtain ⟨gD, wsD, oD, aD, nD⟩ := keyChildren_sim hb hrec gC (alive _ gC) hw0 hC'
      refine ⟨gD, wsA ++ wsB ++ wsC ++ wsD, ((oA.trans oB).trans oC).trans oD, ?_, ?_⟩
      · intro hA x hx
        rcases List.mem_append.1 hx with hx | hx
        · exact mem3 hA x hx
        · exact aD hA x hx
      · intro hA F a b c ha hb' hc
        rw [List.append_assoc, List.append_assoc]
        exact (nA hA F a ha).append ((nB hA F b hb').append ((nC hA F [win] rfl).append (nD hA F c hc)))
    obtain ⟨g5, ws, o5, a5, n5⟩ := key
    obtain ⟨hu, rfl⟩ := keyDone_ok hr
    obtain ⟨g6, o6⟩ := g5.release hu
    refine ⟨g6, ws, by simpa using (o1.trans o5).trans o6, a5, ?_⟩
    intro hA F vs hv
    dsimp only at hv
    cases F with
    | zero => simp [keyVisits] at hv
    | succ F =>
      unfold keyVisits at hv
      simp only [hw0, hvc0 hA, Bool.not_true, Bool.false_eq_true, if_false] at hv
      cases ha : stealVisits t0 (keyVisits t0 F) w0 with
      | none => simp [ha] at hv
      | some a =>
        cases hb' : focusVisits (keyVisits t0 F) w0 with
        | none => simp [ha, hb'] at hv
        | some b =>
          cases hc : restVisits (keyVisits t0 F) w0 with
          | none => simp [ha, hb', hc] at hv
          | some c =>
            simp [ha, hb', hc] at hv
            subst hv
            have hassoc : a ++ (b ++ win :: c) = a ++ (b ++ ([win] ++ c)) := by simp
            rw [hassoc]
            exact n5 hA F a b c ha hb' hc

/-- `_handle_key` (repaired code) under handlers that mutate windows of `A` only, for every fuel. -/
theorem handleKey_sim {A : Aff} {t0 : Tree} (hb : Base A t0) : ∀ (f : Nat), KeyRecSim A t0 (handleKey Cfg.repaired f) := by
  intro f
  induction f with
  | zero => intro st win ev held st' d _ _ hr; simp [handleKey] at hr
  | succ f ih => exact handleKeyBody_sim hb ih f

/-! ### `_handle_mouse` -/

theorem mouseVisits_in {A : Aff} {t0 : Tree} (hb : Base A t0) : ∀ (F : Nat) (win : WinTree.Id) (ev : Ev)
    (vs : List (WinTree.Id × Ev)), A win = true → mouseVisits t0 F win ev = some vs → ∀ p ∈ vs, A p.1 = true := by
  intro F
  induction F with
  | zero => intro win ev vs _ hv; simp [mouseVisits] at hv
  | succ F ih =>
    intro win ev vs hA hv
    unfold mouseVisits at hv
    cases hw : t0.wins[win]? with
    | none => simp only [hw, Option.some.injEq] at hv; subst hv; intro x hx; cases hx
    | some w0 =>
      simp only [hw] at hv
      by_cases hvis : visibleChain t0 (treeFuel t0) win = true
      · simp only [hvis, Bool.not_true, Bool.false_eq_true, if_false] at hv
        cases hbel : visitList (childVisits t0 (mouseVisits t0 F) ev) w0.children with
        | none => simp [hbel] at hv
        | some below =>
          simp [hbel] at hv
          subst hv
          intro p hp
          rcases List.mem_append.1 hp with hp | hp
          · obtain ⟨c, hc, l, hl, hpl⟩ := visitList_mem hbel hp
            unfold childVisits at hl
            cases hcw : t0.wins[c]? with
            | none => simp only [hcw, Option.some.injEq] at hl; subst hl; cases hpl
            | some cw =>
              simp only [hcw] at hl
              split at hl
              · exact ih c _ l (hb.down win w0 hA hw c hc) hl p hpl
              · simp only [Option.some.injEq] at hl; subst hl; cases hpl
          · simp only [List.mem_singleton] at hp; subst hp; exact hA
      · simp only [hvis, Bool.not_false, if_true, Option.some.injEq] at hv
        subst hv; intro x hx; cases hx

def MouseRecSim (A : Aff) (t0 : Tree) (rec : MouseRec) : Prop :=
  ∀ (st : St) (win : WinTree.Id) (ev : Ev) (held : List WinTree.Id) (st' : St) (r : Option WinTree.Id),
    DInv A t0 held st → Alive st.tree win → rec st win ev = Out.ok (st', r) →
    DInv A t0 (heldR r held) st' ∧ ∃ ws, Off st st' ws ∧ (A win = true → ∀ x ∈ ws, A x = true) ∧
      (A win = false → ∀ F vs, mouseVisits t0 F win ev = some vs → Match A r.isSome ws (vs.map (·.1)))

theorem mouseSnap_inA {A : Aff} {t0 : Tree} {rec : MouseRec} (hrec : MouseRecSim A t0 rec) (win : WinTree.Id)
    (held : List WinTree.Id) : ∀ (cs : List WinTree.Id) (st : St) (ev : Ev) (st' : St) (r : Option WinTree.Id),
    DInv A t0 held st → (∀ c ∈ cs, A c = true) → mouseSnap rec st win cs ev = Out.ok (st', r) →
    DInv A t0 (heldR r held) st' ∧ ∃ ws, Off st st' ws ∧ ∀ x ∈ ws, A x = true := by
  intro cs
  induction cs with
  | nil =>
    intro st ev st' r h _ hr
    simp only [mouseSnap, out_pure, Out.ok.injEq, Prod.mk.injEq] at hr
    obtain ⟨rfl, rfl⟩ := hr
    exact ⟨h, [], Off.refl _, fun x hx => by cases hx⟩
  | cons c rest ih =>
    intro st ev st' r h hcs hr
    simp only [mouseSnap] at hr
    obtain ⟨cw, hcw, hr⟩ := lift_bind_eq_ok.1 hr
    obtain ⟨hcww, hcwf⟩ := get_eq_ok.1 hcw
    have hrest : ∀ c' ∈ rest, A c' = true := fun c' hc' => hcs c' (List.mem_cons_of_mem _ hc')
    by_cases hpar : cw.parent = some win
    · simp only [hpar, ne_eq, not_true_eq_false, if_false] at hr
      by_cases hskip : (!cw.stealInput && outsideChild cw ev.line ev.col) = true
      · simp only [hskip, if_true] at hr; exact ih st ev st' r h hrest hr
      · simp only [hskip, Bool.false_eq_true, if_false] at hr
        obtain ⟨⟨st1, r1⟩, hr1, hr⟩ := out_bind_eq_ok.1 hr
        obtain ⟨h1, ws1, o1, cA, _⟩ := hrec st c _ held st1 r1 h ⟨cw, hcww, hcwf⟩ hr1
        cases r1 with
        | some hh =>
          simp only [out_pure, Out.ok.injEq, Prod.mk.injEq] at hr
          obtain ⟨rfl, rfl⟩ := hr
          exact ⟨h1, ws1, o1, cA (hcs c (List.mem_cons_self ..))⟩
        | none =>
          simp only at hr
          obtain ⟨h2, ws2, o2, c2⟩ := ih st1 ev st' r h1 hrest hr
          refine ⟨h2, ws1 ++ ws2, o1.trans o2, ?_⟩
          intro x hx
          rcases List.mem_append.1 hx with hx | hx
          · exact cA (hcs c (List.mem_cons_self ..)) x hx
          · exact c2 x hx
    · simp only [hpar, ne_eq, not_false_eq_true, if_true] at hr
      exact ih st ev st' r h hrest hr

theorem mouseSnap_sim {A : Aff} {t0 : Tree} (hb : Base A t0) {rec : MouseRec} (hrec : MouseRecSim A t0 rec) {win : WinTree.Id}
    {ev : Ev} {held : List WinTree.Id} (hA : A win = false) {w0 : Win} (hw0 : t0.wins[win]? = some w0) (hf0 : w0.freed = false)
    {cs cs0 : List WinTree.Id} (hk : Kids A cs cs0) : (∀ c ∈ cs0, c ∈ w0.children) →
    ∀ (st st' : St) (r : Option WinTree.Id), DInv A t0 held st → mouseSnap rec st win cs ev = Out.ok (st', r) →
    DInv A t0 (heldR r held) st' ∧ ∃ ws, Off st st' ws ∧ ∀ F vs,
      visitList (childVisits t0 (mouseVisits t0 F) ev) cs0 = some vs → Match A r.isSome ws (vs.map (·.1)) := by
  have refA : ∀ (x : WinTree.Id), A x = true → ∀ (F : Nat) (a : List (WinTree.Id × Ev)),
      childVisits t0 (mouseVisits t0 F) ev x = some a → ∀ y ∈ a.map (·.1), A y = true := by
    intro x hAx F a ha y hy
    obtain ⟨p, hp, rfl⟩ := List.mem_map.1 hy
    unfold childVisits at ha
    cases hcw : t0.wins[x]? with
    | none => simp only [hcw, Option.some.injEq] at ha; subst ha; cases hp
    | some cw =>
      simp only [hcw] at ha
      split at ha
      · exact mouseVisits_in hb F x _ a hAx ha p hp
      · simp only [Option.some.injEq] at ha; subst ha; cases hp
  induction hk with
  | nil =>
    intro _ st st' r h hr
    simp only [mouseSnap, out_pure, Out.ok.injEq, Prod.mk.injEq] at hr
    obtain ⟨rfl, rfl⟩ := hr
    refine ⟨h, [], Off.refl _, ?_⟩
    intro F vs hv
    simp only [visitList, Option.some.injEq] at hv
    subst hv; exact Match.nil A _
  | @keep x cs' cs0' hk' ih =>
    intro hsub st st' r h hr
    have hsub' : ∀ c ∈ cs0', c ∈ w0.children := fun c hc => hsub c (List.mem_cons_of_mem _ hc)
    simp only [mouseSnap] at hr
    obtain ⟨cw, hcw, hr⟩ := lift_bind_eq_ok.1 hr
    obtain ⟨hcww, hcwf⟩ := get_eq_ok.1 hcw
    cases hAx : A x with
    | true =>
      have skip : mouseSnap rec st win cs' ev = Out.ok (st', r) →
          DInv A t0 (heldR r held) st' ∧ ∃ ws, Off st st' ws ∧ ∀ F vs,
            visitList (childVisits t0 (mouseVisits t0 F) ev) (x :: cs0') = some vs → Match A r.isSome ws (vs.map (·.1)) := by
        intro hr'
        obtain ⟨h2, ws, o, m⟩ := ih hsub' st st' r h hr'
        refine ⟨h2, ws, o, ?_⟩
        intro F vs hv
        obtain ⟨a, b, ha, hb', rfl⟩ := visitList_cons_some hv
        rw [List.map_append]
        exact Match.skipA (refA x hAx F a ha) (m F b hb')
      by_cases hpar : cw.parent = some win
      · simp only [hpar, ne_eq, not_true_eq_false, if_false] at hr
        by_cases hskip : (!cw.stealInput && outsideChild cw ev.line ev.col) = true
        · simp only [hskip, if_true] at hr; exact skip hr
        · simp only [hskip, Bool.false_eq_true, if_false] at hr
          obtain ⟨⟨st1, r1⟩, hr1, hr⟩ := out_bind_eq_ok.1 hr
          obtain ⟨h1, ws1, o1, cA, _⟩ := hrec st x _ held st1 r1 h ⟨cw, hcww, hcwf⟩ hr1
          cases r1 with
          | some hh =>
            simp only [out_pure, Out.ok.injEq, Prod.mk.injEq] at hr
            obtain ⟨rfl, rfl⟩ := hr
            refine ⟨h1, ws1, o1, ?_⟩
            intro F vs hv
            obtain ⟨a, b, ha, _, rfl⟩ := visitList_cons_some hv
            rw [List.map_append]
            exact (Match.ofA (cA hAx) (refA x hAx F a ha)).claimed _
          | none =>
            simp only at hr
            obtain ⟨h2, ws2, o2, m2⟩ := ih hsub' st1 st' r h1 hr
            refine ⟨h2, ws1 ++ ws2, o1.trans o2, ?_⟩
            intro F vs hv
            obtain ⟨a, b, ha, hb', rfl⟩ := visitList_cons_some hv
            rw [List.map_append]
            exact (Match.ofA (cA hAx) (refA x hAx F a ha)).append (m2 F b hb')
      · simp only [hpar, ne_eq, not_false_eq_true, if_true] at hr
        exact skip hr
    | false =>
      obtain ⟨xw0, hxw0, _, hxp0⟩ := hb.inv.child win x w0 hw0 hf0 (hsub x (List.mem_cons_self ..))
      have xrel := h.sim.rel hAx hxw0 hcww
      have hpar : cw.parent = some win := by rw [xrel.parent]; exact hxp0
      simp only [hpar, ne_eq, not_true_eq_false, if_false] at hr
      have e1 : outsideChild cw ev.line ev.col = outsideChild xw0 ev.line ev.col := by
        unfold outsideChild; rw [xrel.rect]
      have e2 : ev.toChild cw = ev.toChild xw0 := by unfold Ev.toChild; rw [xrel.rect]
      have cv : ∀ F, childVisits t0 (mouseVisits t0 F) ev x =
          if (!cw.stealInput && outsideChild cw ev.line ev.col) = true then some [] else mouseVisits t0 F x (ev.toChild cw) := by
        intro F
        unfold childVisits inChild
        rw [hxw0]
        simp only [e1, e2, xrel.steal]
        cases hs : xw0.stealInput <;> cases ho : outsideChild xw0 ev.line ev.col <;> simp
      by_cases hskip : (!cw.stealInput && outsideChild cw ev.line ev.col) = true
      · simp only [hskip, if_true] at hr
        obtain ⟨h2, ws, o, m⟩ := ih hsub' st st' r h hr
        refine ⟨h2, ws, o, ?_⟩
        intro F vs hv
        obtain ⟨a, b, ha, hb', rfl⟩ := visitList_cons_some hv
        rw [cv F, if_pos hskip] at ha
        simp only [Option.some.injEq] at ha
        subst ha
        simpa using m F b hb'
      · simp only [hskip, Bool.false_eq_true, if_false] at hr
        obtain ⟨⟨st1, r1⟩, hr1, hr⟩ := out_bind_eq_ok.1 hr
        obtain ⟨h1, ws1, o1, _, cN⟩ := hrec st x _ held st1 r1 h ⟨cw, hcww, hcwf⟩ hr1
        cases r1 with
        | some hh =>
          simp only [out_pure, Out.ok.injEq, Prod.mk.injEq] at hr
          obtain ⟨rfl, rfl⟩ := hr
          refine ⟨h1, ws1, o1, ?_⟩
          intro F vs hv
          obtain ⟨a, b, ha, _, rfl⟩ := visitList_cons_some hv
          rw [cv F, if_neg hskip] at ha
          rw [List.map_append]
          exact (cN hAx F a ha).claimed _
        | none =>
          simp only at hr
          obtain ⟨h2, ws2, o2, m2⟩ := ih hsub' st1 st' r h1 hr
          refine ⟨h2, ws1 ++ ws2, o1.trans o2, ?_⟩
          intro F vs hv
          obtain ⟨a, b, ha, hb', rfl⟩ := visitList_cons_some hv
          rw [cv F, if_neg hskip] at ha
          rw [List.map_append]
          exact (cN hAx F a ha).append (m2 F b hb')
  | @drop a cs' cs0' ha hk' ih =>
    intro hsub st st' r h hr
    have hsub' : ∀ c ∈ cs0', c ∈ w0.children := fun c hc => hsub c (List.mem_cons_of_mem _ hc)
    obtain ⟨h2, ws, o, m⟩ := ih hsub' st st' r h hr
    refine ⟨h2, ws, o, ?_⟩
    intro F vs hv
    obtain ⟨a', b, ha', hb', rfl⟩ := visitList_cons_some hv
    rw [List.map_append]
    exact Match.skipA (refA a ha F a' ha') (m F b hb')

theorem mouseChildren_sim {A : Aff} {t0 : Tree} (hb : Base A t0) {rec : MouseRec} (hrec : MouseRecSim A t0 rec) {fuel : Nat}
    {st st' : St} {win : WinTree.Id} {ev : Ev} {held : List WinTree.Id} {r : Option WinTree.Id} {w0 : Win}
    (h : DInv A t0 held st) (hal : Alive st.tree win) (hw0 : t0.wins[win]? = some w0)
    (hr : mouseChildren Cfg.repaired rec fuel st win ev = Out.ok (st', r)) :
    DInv A t0 (heldR r held) st' ∧ ∃ ws, Off st st' ws ∧ (A win = true → ∀ x ∈ ws, A x = true) ∧
      (A win = false → ∀ F vs, visitList (childVisits t0 (mouseVisits t0 F) ev) w0.children = some vs →
        Match A r.isSome ws (vs.map (·.1))) := by
  obtain ⟨w, hg, hw, hf⟩ := hal.get
  unfold mouseChildren at hr
  simp only [hg, lift_ok, out_bind_ok, Cfg.repaired, if_true] at hr
  obtain ⟨st4, h4, hr⟩ := lift_bind_eq_ok.1 hr
  obtain ⟨⟨st5, r5⟩, h5, hr⟩ := out_bind_eq_ok.1 hr
  obtain ⟨st6, h6, hr⟩ := lift_bind_eq_ok.1 hr
  simp only [out_pure, Out.ok.injEq, Prod.mk.injEq] at hr
  obtain ⟨rfl, rfl⟩ := hr
  obtain ⟨g4, o4⟩ := DInv.refAll _ _ _ _ h h4
  have fin : ∀ (ws : List WinTree.Id), DInv A t0 (heldR r5 (w.children.reverse ++ held)) st5 → Off st4 st5 ws →
      DInv A t0 (heldR r5 held) st6 ∧ Off st st6 ws := by
    intro ws g5 o5
    have g5' : DInv A t0 (w.children ++ heldR r5 held) st5 := by
      cases r5 with
      | none => exact g5.perm ((List.reverse_perm _).append_right held)
      | some hh =>
        exact g5.perm ((((List.reverse_perm _).append_right held).cons hh).trans List.perm_middle.symm)
    obtain ⟨g6, o6⟩ := DInv.unrefAll _ _ _ _ g5' h6
    exact ⟨g6, by simpa using (o4.trans o5).trans o6⟩
  cases hA : A win with
  | true =>
    obtain ⟨g5, ws, o5, c5⟩ := mouseSnap_inA hrec win _ _ _ _ _ _ g4 (h.sim.down win w hA hw) h5
    obtain ⟨g6, o6⟩ := fin ws g5 o5
    exact ⟨g6, ws, o6, fun _ => c5, fun hn => by cases hn⟩
  | false =>
    have rel := h.sim.rel hA hw0 hw
    have hf0 : w0.freed = false := by rw [← rel.freed]; exact hf
    obtain ⟨g5, ws, o5, m5⟩ := mouseSnap_sim hb hrec hA hw0 hf0 rel.kids (fun c hc => hc) _ _ _ g4 h5
    obtain ⟨g6, o6⟩ := fin ws g5 o5
    exact ⟨g6, ws, o6, (fun hn => by cases hn), fun _ F vs hv => m5 F vs hv⟩

theorem mouseOwn_sim {A : Aff} {t0 : Tree} (hb : Base A t0) {st st' : St} {win : WinTree.Id} {ev : Ev}
    {held : List WinTree.Id} {r : Option WinTree.Id} (h : DInv A t0 held st)
    (hvis0 : A win = false → visibleChain t0 (treeFuel t0) win = true)
    (hr : mouseOwn Cfg.repaired st win ev = Out.ok (st', r)) :
    DInv A t0 (heldR r held) st' ∧ ∃ ws, Off st st' ws ∧ (A win = true → ∀ x ∈ ws, A x = true) ∧
      (A win = false → Match A r.isSome ws [win]) := by
  unfold mouseOwn ownVisible at hr
  simp only [Cfg.repaired, if_true] at hr
  obtain ⟨own, hown, hr⟩ := lift_bind_eq_ok.1 hr
  cases own with
  | false =>
    simp only [Bool.not_false, if_true, out_pure, Out.ok.injEq, Prod.mk.injEq] at hr
    obtain ⟨rfl, rfl⟩ := hr
    refine ⟨h, [], Off.refl _, (fun _ x hx => by cases hx), ?_⟩
    intro hA
    exfalso
    have h1 := isShown_ok _ _ _ _ hown
    rw [visibleChain_sim hb h.sim _ win hA, treeFuel_sim h.sim, hvis0 hA] at h1
    cases h1
  | true =>
    simp only [Bool.not_true, Bool.false_eq_true, if_false] at hr
    obtain ⟨⟨st1, done⟩, hrh, hr⟩ := lift_bind_eq_ok.1 hr
    obtain ⟨g1, o1⟩ := h.handlers hb.inv hrh
    have inA : A win = true → ∀ x ∈ [win], A x = true := by
      intro hA x hx; simp only [List.mem_singleton] at hx; subst hx; exact hA
    cases done with
    | false =>
      simp only [Bool.not_false, if_true, out_pure, Out.ok.injEq, Prod.mk.injEq] at hr
      obtain ⟨rfl, rfl⟩ := hr
      exact ⟨g1, [win], o1, inA, fun _ => Match.single A _ win⟩
    | true =>
      simp only [Bool.not_true, Bool.false_eq_true, if_false] at hr
      obtain ⟨st2, h2, hr⟩ := lift_bind_eq_ok.1 hr
      simp only [out_pure, Out.ok.injEq, Prod.mk.injEq] at hr
      obtain ⟨rfl, rfl⟩ := hr
      obtain ⟨g2, o2⟩ := g1.ref h2
      exact ⟨g2, [win], by simpa using o1.trans o2, inA, fun _ => Match.single A _ win⟩

/-- One level of `_handle_mouse` (repaired code) under handlers that mutate windows of `A` only. -/
theorem handleMouseBody_sim {A : Aff} {t0 : Tree} (hb : Base A t0) {rec : MouseRec} (hrec : MouseRecSim A t0 rec)
    (fuel : Nat) : MouseRecSim A t0 (handleMouseBody Cfg.repaired rec fuel) := by
  intro st win ev held st' r h hal hr
  unfold handleMouseBody at hr
  obtain ⟨vis, hvis, hr⟩ := lift_bind_eq_ok.1 hr
  have hvis' : isShown st.tree (treeFuel st.tree) win = Res.ok vis := by
    simpa [entryVisible, Cfg.repaired] using hvis
  have hvc := isShown_ok _ _ _ _ hvis'
  obtain ⟨w, hg, hw, hf⟩ := hal.get
  obtain ⟨w0, hw0⟩ := h.sim.back hw
  have hvc0 : A win = false → visibleChain t0 (treeFuel t0) win = vis := by
    intro hA
    rw [← hvc, visibleChain_sim hb h.sim _ win hA, treeFuel_sim h.sim]
  cases vis with
  | false =>
    simp only [Bool.not_false, if_true, out_pure, Out.ok.injEq, Prod.mk.injEq] at hr
    obtain ⟨rfl, rfl⟩ := hr
    refine ⟨h, [], Off.refl _, (fun _ x hx => by cases hx), ?_⟩
    intro hA F vs hv
    cases F with
    | zero => simp [mouseVisits] at hv
    | succ F =>
      unfold mouseVisits at hv
      simp only [hw0, hvc0 hA, Bool.not_false, if_true, Option.some.injEq] at hv
      subst hv; exact Match.nil A _
  | true =>
    simp only [Bool.not_true, Bool.false_eq_true, if_false] at hr
    obtain ⟨st1, h1, hr⟩ := lift_bind_eq_ok.1 hr
    obtain ⟨⟨st2, r2⟩, h2, hr⟩ := out_bind_eq_ok.1 hr
    obtain ⟨⟨st3, r3⟩, h3, hr⟩ := out_bind_eq_ok.1 hr
    obtain ⟨g1, o1⟩ := h.ref h1
    have hmem : win ∈ win :: held := List.mem_cons_self ..
    obtain ⟨g2, ws2, o2, a2, n2⟩ := mouseChildren_sim hb hrec g1 (g1.good.1.held win hmem) hw0 h2
    -- children, then the window itself
    have key : DInv A t0 (heldR r3 (win :: held)) st3 ∧ ∃ ws, Off st1 st3 ws ∧ (A win = true → ∀ x ∈ ws, A x = true) ∧
        (A win = false → ∀ F below, visitList (childVisits t0 (mouseVisits t0 F) ev) w0.children = some below →
          Match A r3.isSome ws (below.map (·.1) ++ [win])) := by
      unfold mouseSelf at h3
      cases r2 with
      | some hh =>
        simp only [out_pure, Out.ok.injEq, Prod.mk.injEq] at h3
        obtain ⟨rfl, rfl⟩ := h3
        exact ⟨g2, ws2, o2, a2, fun hA F below hbel => (n2 hA F below hbel).claimed _⟩
      | none =>
        simp only at h3
        obtain ⟨g3, ws3, o3, a3, n3⟩ := mouseOwn_sim hb g2 hvc0 h3
        refine ⟨g3, ws2 ++ ws3, o2.trans o3, ?_, ?_⟩
        · intro hA x hx
          rcases List.mem_append.1 hx with hx | hx
          · exact a2 hA x hx
          · exact a3 hA x hx
        · intro hA F below hbel
          exact (n2 hA F below hbel).append (n3 hA)
    obtain ⟨g3, ws, o3, a3, n3⟩ := key
    -- done: unref
    unfold mouseDone at hr
    obtain ⟨w3, _, hr⟩ := lift_bind_eq_ok.1 hr
    simp only [Cfg.repaired, Bool.not_true, Bool.false_and, Bool.false_eq_true, if_false] at hr
    obtain ⟨st4, hu, hr⟩ := lift_bind_eq_ok.1 hr
    simp only [out_pure, Out.ok.injEq, Prod.mk.injEq] at hr
    obtain ⟨rfl, rfl⟩ := hr
    have g3' : DInv A t0 (win :: heldR r3 held) st3 := by
      cases r3 with
      | none => exact g3
      | some hh => exact g3.perm (List.Perm.swap _ _ _)
    obtain ⟨g4, o4⟩ := g3'.release hu
    refine ⟨g4, ws, by simpa using (o1.trans o3).trans o4, a3, ?_⟩
    intro hA F vs hv
    cases F with
    | zero => simp [mouseVisits] at hv
    | succ F =>
      unfold mouseVisits at hv
      simp only [hw0, hvc0 hA, Bool.not_true, Bool.false_eq_true, if_false] at hv
      cases hbel : visitList (childVisits t0 (mouseVisits t0 F) ev) w0.children with
      | none => simp [hbel] at hv
      | some below =>
        simp [hbel] at hv
        subst hv
        have := n3 hA F below hbel
        simpa using this

/-- `_handle_mouse` (repaired code) under handlers that mutate windows of `A` only, for every fuel. -/
theorem handleMouse_sim {A : Aff} {t0 : Tree} (hb : Base A t0) : ∀ (f : Nat), MouseRecSim A t0 (handleMouse Cfg.repaired f) := by
  intro f
  induction f with
  | zero => intro st win ev held st' r _ _ hr; simp [handleMouse] at hr
  | succ f ih => exact handleMouseBody_sim hb ih f

/-! ### first occurrences commute with the restriction to the windows outside `A` -/

theorem firstOccAux_filter (p : WinTree.Id → Bool) : ∀ (l seen : List WinTree.Id),
    firstOccAux (seen.filter p) (l.filter p) = (firstOccAux seen l).filter p := by
  intro l
  induction l with
  | nil => intro seen; rfl
  | cons x xs ih =>
    intro seen
    cases hp : p x with
    | false =>
      simp only [List.filter_cons, hp, Bool.false_eq_true, if_false, firstOccAux]
      by_cases hx : x ∈ seen
      · simp only [hx, if_true]; exact ih seen
      · simp only [hx, if_false, List.filter_cons, hp, Bool.false_eq_true]
        have := ih (x :: seen)
        simp only [List.filter_cons, hp, Bool.false_eq_true, if_false] at this
        exact this
    | true =>
      simp only [List.filter_cons, hp, if_true, firstOccAux]
      have hmem : x ∈ seen.filter p ↔ x ∈ seen := by simp [List.mem_filter, hp]
      by_cases hx : x ∈ seen
      · simp only [hx, hmem.2 hx, if_true]; exact ih seen
      · have hx' : ¬ x ∈ seen.filter p := fun h => hx (hmem.1 h)
        simp only [hx, hx', if_false, List.filter_cons, hp, if_true]
        have := ih (x :: seen)
        simp only [List.filter_cons, hp, if_true] at this
        rw [this]

theorem firstOcc_fA (A : Aff) (l : List WinTree.Id) : firstOcc (fA A l) = fA A (firstOcc l) := by
  unfold firstOcc fA
  exact firstOccAux_filter _ l []

/-! ### the hypotheses of the delivery theorems, and decidable checks for concrete states -/

/-- What the delivery theorems ask of the state in which a dispatch begins and of the set `A`. -/
structure Unaffected (A : Aff) (st : St) : Prop where
  inv : AInv st []
  base : Base A st.tree
  conf : Conf A st.tree st.binds

/-- Outside a dispatch every live window is owned by the application (its count is what the application owns). -/
theorem own_of_ainv (A : Aff) {st : St} (h : AInv st []) : Own A st := by
  intro x w _ hw hf
  have h1 := h.rc x w hw hf
  have h2 := h.pos x w hw hf
  simp only [List.count_nil] at h1
  omega

theorem Unaffected.dinv {A : Aff} {st : St} (h : Unaffected A st) : DInv A st.tree [] st :=
  ⟨⟨h.inv, tableOK_all _⟩, Sim.refl h.base.down, h.conf, own_of_ainv A h.inv⟩

def downCheck (A : Aff) (t : Tree) : Bool :=
  (List.range t.wins.size).all fun x =>
    match t.wins[x]? with
    | some w => !A x || w.children.all A
    | none => true

theorem downCheck_sound {A : Aff} {t : Tree} (h : downCheck A t = true) : Down A t := by
  intro x w hx hw c hc
  unfold downCheck at h
  rw [List.all_eq_true] at h
  have := h x (List.mem_range.2 (Array.getElem?_eq_some_iff.1 hw).1)
  simp only [hw, hx, Bool.not_true, Bool.false_or, List.all_eq_true] at this
  exact this c hc

def stealFrontCheck (A : Aff) (t : Tree) : Bool :=
  (List.range t.wins.size).all fun p =>
    match t.wins[p]? with
    | some w0 => A p || w0.freed ||
      (match w0.children with
        | a :: rest => !A a || rest.all (fun c => A c || !stealAt t c)
        | [] => true)
    | none => true

theorem stealFrontCheck_sound {A : Aff} {t : Tree} (h : stealFrontCheck A t = true) :
    ∀ (p : WinTree.Id) (w0 : Win) (a : WinTree.Id) (rest : List WinTree.Id), A p = false → t.wins[p]? = some w0 →
      w0.freed = false → w0.children = a :: rest → A a = true → ∀ c ∈ rest, A c = false → stealAt t c = false := by
  intro p w0 a rest hp hw hf hc ha c hcm hAc
  unfold stealFrontCheck at h
  rw [List.all_eq_true] at h
  have := h p (List.mem_range.2 (Array.getElem?_eq_some_iff.1 hw).1)
  simp only [hw, hp, hf, hc, ha, Bool.false_or, Bool.not_true, List.all_eq_true] at this
  have := this c hcm
  simpa [hAc] using this

def focusOKCheck (A : Aff) (t : Tree) : Bool :=
  !A 0 &&
  ((List.range t.wins.size).all fun x =>
    match t.wins[x]? with
    | some w => !A x || w.freed || (match w.parent with
      | some p => A p || p == 0
      | none => true)
    | none => true) &&
  (match t.wins[0]? with
    | some w => (match w.focusedChild with
      | some fc => A fc
      | none => true)
    | none => true)

theorem focusOKCheck_sound {A : Aff} {t : Tree} (h : focusOKCheck A t = true) : FocusOK A t := by
  unfold focusOKCheck at h
  simp only [Bool.and_eq_true, List.all_eq_true] at h
  obtain ⟨⟨h1, h2⟩, h3⟩ := h
  refine ⟨by simpa using h1, ?_, ?_⟩
  · intro x w hx hw hf p hp
    have := h2 x (List.mem_range.2 (Array.getElem?_eq_some_iff.1 hw).1)
    simp only [hw, hx, hf, hp, Bool.not_true, Bool.false_or, Bool.or_eq_true, beq_iff_eq] at this
    exact this
  · intro w fc hw hfc
    simpa [hw, hfc] using h3

def confCheck (A : Aff) (t : Tree) (binds : Array Binding) : Bool :=
  binds.toList.all fun b => b.entries.all fun e => e.actions.all fun a =>
    match a.act with
    | .raise | .raiseFront | .lower | .lowerBack | .keep => true
    | .close | .unref | .hide | .unhide | .stealOn | .stealOff | .geom .. => A a.win
    | .focus => A a.win && focusOKCheck A t

theorem confCheck_sound {A : Aff} {t : Tree} {binds : Array Binding} (h : confCheck A t binds = true) : Conf A t binds := by
  intro i b hb e he a ha
  unfold confCheck at h
  rw [List.all_eq_true] at h
  have hm : b ∈ binds.toList := by
    rw [Array.mem_toList_iff]; exact Array.mem_of_getElem? hb
  have := h b hm
  rw [List.all_eq_true] at this
  have := this e he
  rw [List.all_eq_true] at this
  have := this a ha
  unfold ActConfF ActConf
  cases hact : a.act <;> simp only [hact] at this ⊢
  case focus =>
    simp only [Bool.and_eq_true] at this
    exact Or.inr ⟨trivial, this.1, focusOKCheck_sound this.2⟩
  all_goals first | exact Or.inl trivial | exact Or.inl this

def unaffectedCheck (A : Aff) (st : St) : Bool :=
  ainvCheck st && downCheck A st.tree && stealFrontCheck A st.tree && confCheck A st.tree st.binds

theorem unaffectedCheck_sound {A : Aff} {st : St} (h : unaffectedCheck A st = true) : Unaffected A st := by
  unfold unaffectedCheck at h
  simp only [Bool.and_eq_true] at h
  obtain ⟨⟨⟨h1, h2⟩, h3⟩, h4⟩ := h
  have hi := ainvCheck_sound h1
  exact ⟨hi, ⟨hi.tree, downCheck_sound h2, stealFrontCheck_sound h3⟩, confCheck_sound h4⟩

/-! ### the hypotheses persist: `on_term_key`, `on_term_mouse` as a whole -/

theorem Kids.head_inA {A : Aff} {a : WinTree.Id} {rest cs0 : List WinTree.Id} (h : Kids A (a :: rest) cs0) (ha : A a = true) :
    ∃ a0 rest0, cs0 = a0 :: rest0 ∧ A a0 = true ∧ ∀ c ∈ rest, c ∈ rest0 := by
  generalize hcs : a :: rest = cs at h
  cases h with
  | nil => cases hcs
  | keep x hk =>
    cases hcs
    exact ⟨a, _, rfl, ha, fun c hc => hk.mem hc⟩
  | @drop a' _ cs0' ha' hk =>
    subst hcs
    exact ⟨a', cs0', rfl, ha', fun c hc => hk.mem (List.mem_cons_of_mem _ hc)⟩

/-- After a dispatch (no dispatcher reference outstanding) the hypotheses hold again, of the store as it is now. -/
theorem DInv.unaffected {A : Aff} {t0 : Tree} {st : St} (hb : Base A t0) (h : DInv A t0 [] st) : Unaffected A st := by
  refine ⟨h.good.1, ⟨h.good.1.tree, h.sim.down, ?_⟩, ?_⟩
  · intro p w a rest hp hw hf hc ha c hcm hAc
    obtain ⟨w0, hw0⟩ := h.sim.back hw
    have rel := h.sim.rel hp hw0 hw
    have hk := rel.kids
    rw [hc] at hk
    obtain ⟨a0, rest0, hc0, ha0, hsub⟩ := hk.head_inA ha
    have h0 := hb.stealFront p w0 a0 rest0 hp hw0 (by rw [← rel.freed]; exact hf) hc0 ha0 c (hsub c hcm) hAc
    cases hcw : st.tree.wins[c]? with
    | none => unfold stealAt; rw [hcw]
    | some cw =>
      have e1 := stealAt_sim h.sim hAc hcw
      have e2 : stealAt st.tree c = cw.stealInput := by unfold stealAt; rw [hcw]
      rw [e2, ← e1]; exact h0
  · intro i b hbi e he a ha
    rcases h.conf i b hbi e he a ha with hc | ⟨hact, hA, hfo⟩
    · exact Or.inl hc
    · obtain ⟨h1, h2, _⟩ := focusNow hb.inv h.good.1.tree h.sim hfo
      exact Or.inr ⟨hact, hA, hfo.root, h1, h2⟩

theorem Unaffected.say {A : Aff} {st : St} (h : Unaffected A st) (i : LogItem) : Unaffected A (st.say i) :=
  ⟨⟨h.inv.tree, h.inv.drag, h.inv.size, h.inv.rc, h.inv.leaf, h.inv.held, h.inv.root, h.inv.pos⟩, h.base, h.conf⟩

/-- Partial correctness: if the computation returns, the result satisfies `Q`. -/
structure PO {α : Type} (r : Out α) (Q : α → Prop) : Prop where
  run : ∀ a, r = Out.ok a → Q a
structure PR {α : Type} (r : Res α) (Q : α → Prop) : Prop where
  run : ∀ a, r = Res.ok a → Q a

theorem PO.pure {α : Type} {a : α} {Q : α → Prop} (h : Q a) : PO (Pure.pure a : Out α) Q :=
  ⟨fun b hb => by cases hb; exact h⟩

theorem PR.pure {α : Type} {a : α} {Q : α → Prop} (h : Q a) : PR (Pure.pure a : Res α) Q :=
  ⟨fun b hb => by cases hb; exact h⟩

theorem PO.bind {α β : Type} {x : Out α} {f : α → Out β} {Q : α → Prop} {R : β → Prop} (hx : PO x Q)
    (hf : ∀ a, Q a → PO (f a) R) : PO (x >>= f) R := by
  refine ⟨fun b hb => ?_⟩
  obtain ⟨a, ha, hfa⟩ := out_bind_eq_ok.1 hb
  exact (hf a (hx.run a ha)).run b hfa

theorem PR.bind {α β : Type} {x : Res α} {f : α → Res β} {Q : α → Prop} {R : β → Prop} (hx : PR x Q)
    (hf : ∀ a, Q a → PR (f a) R) : PR (x >>= f) R := by
  refine ⟨fun b hb => ?_⟩
  obtain ⟨a, ha, hfa⟩ := res_bind_eq_ok.1 hb
  exact (hf a (hx.run a ha)).run b hfa

theorem PO.lift {α : Type} {x : Res α} {Q : α → Prop} (hx : PR x Q) : PO (liftM x : Out α) Q :=
  ⟨fun a ha => hx.run a (lift_eq_ok.1 ha)⟩

theorem PO.lbind {α β : Type} {x : Res α} {f : α → Out β} {Q : α → Prop} {R : β → Prop} (hx : PR x Q)
    (hf : ∀ a, Q a → PO (f a) R) : PO ((liftM x : Out α) >>= f) R :=
  PO.bind (PO.lift hx) hf

theorem PR.any {α : Type} (x : Res α) : PR x (fun _ => True) := ⟨fun _ _ => trivial⟩

theorem handleMouse_po {A : Aff} {t0 : Tree} (hb : Base A t0) (fuel : Nat) {st : St} {win : WinTree.Id} (ev : Ev)
    {held : List WinTree.Id} (h : DInv A t0 held st) (hal : Alive st.tree win) :
    PO (handleMouse Cfg.repaired fuel st win ev) (fun p => DInv A t0 (heldR p.2 held) p.1) := by
  refine ⟨fun p hr => ?_⟩
  obtain ⟨st', r⟩ := p
  exact (handleMouse_sim hb fuel st win ev held st' r h hal hr).1

theorem DInv.rootFields {A : Aff} {t0 : Tree} {held : List WinTree.Id} {st : St} (h : DInv A t0 held st) (r' : Root)
    (hc : r'.changes = st.tree.root.changes) (hd : r'.dragSource = st.tree.root.dragSource) :
    DInv A t0 held { st with tree := { st.tree with root := r' } } :=
  ⟨h.good.rootFields r' hc hd, h.sim.trans (Sim.of_wins h.sim.down rfl), h.conf, h.own⟩

theorem dropResult_po {A : Aff} {t0 : Tree} {st : St} {held : List WinTree.Id} {r : Option WinTree.Id}
    (h : DInv A t0 (heldR r held) st) : PR (dropResult Cfg.repaired st r) (DInv A t0 held) := by
  unfold dropResult
  cases r with
  | none => exact PR.pure h
  | some x =>
    simp only [Cfg.repaired, if_true]
    exact ⟨fun st' hr => (DInv.release (c := x) h hr).1⟩

theorem dragSourceSet_po {A : Aff} {t0 : Tree} {st : St} {held : List WinTree.Id} {src : Option WinTree.Id}
    (h : DInv A t0 (heldR src held) st) : PR (dragSourceSet Cfg.repaired st src) (DInv A t0 held) := by
  unfold dragSourceSet
  simp only [Cfg.repaired, Bool.not_true, Bool.false_eq_true, if_false]
  cases src with
  | none =>
    refine PR.pure ⟨⟨h.good.1.rootUpdate rfl rfl (fun d hd => by simp at hd), h.good.2⟩,
      h.sim.trans (Sim.of_wins h.sim.down rfl), h.conf, h.own⟩
  | some s =>
    simp only
    have hs : Alive st.tree s := h.good.1.held s (List.mem_cons_self ..)
    have hd : DragOK ({ st.tree with root := { st.tree.root with
        dragSource := if isWithin st.tree (treeFuel st.tree) 0 s = true then some s else none } } : Tree) := by
      intro d hdd
      simp only at hdd
      split at hdd
      · cases hdd; exact hs
      · cases hdd
    have h1 : DInv A t0 (s :: held) ({ st with tree := { st.tree with root := { st.tree.root with
        dragSource := if isWithin st.tree (treeFuel st.tree) 0 s = true then some s else none } } } : St) :=
      ⟨⟨h.good.1.rootUpdate rfl rfl hd, h.good.2⟩, h.sim.trans (Sim.of_wins h.sim.down rfl), h.conf, h.own⟩
    exact ⟨fun st' hr => (h1.release hr).1⟩

theorem toDragSource_po {A : Aff} {t0 : Tree} (hb : Base A t0) {fuel : Nat} {st : St} {src : WinTree.Id} {type : Int} {ev : Ev}
    {held : List WinTree.Id} (h : DInv A t0 held st) (hsrc : Alive st.tree src) :
    PO (toDragSource Cfg.repaired fuel st src type ev) (DInv A t0 held) := by
  unfold toDragSource
  rw [isAlive_of_alive hsrc]
  simp only [Bool.not_true, Bool.false_eq_true, if_false, out_pure, out_bind_ok]
  apply PO.lbind (PR.any _)
  intro geom _
  apply PO.bind (handleMouse_po hb fuel _ h hsrc)
  intro ⟨st1, r⟩ h1
  exact PO.lift (dropResult_po h1)

theorem dragStop_po {A : Aff} {t0 : Tree} (hb : Base A t0) {fuel : Nat} {st : St} {ev : Ev} {held : List WinTree.Id}
    (h : DInv A t0 held st) : PO (dragStop Cfg.repaired fuel st ev) (DInv A t0 held) := by
  unfold dragStop
  cases hs : st.tree.root.dragSource with
  | none => exact PO.pure h
  | some src => exact toDragSource_po hb h (h.good.1.drag src hs)

theorem dragOutside_po {A : Aff} {t0 : Tree} (hb : Base A t0) {fuel : Nat} {st : St} {ev : Ev} {handled : Option WinTree.Id}
    {held : List WinTree.Id} (h : DInv A t0 held st) : PO (dragOutside Cfg.repaired fuel st ev handled) (DInv A t0 held) := by
  unfold dragOutside
  cases hs : st.tree.root.dragSource with
  | none => exact PO.pure h
  | some src =>
    simp only
    split
    · exact toDragSource_po hb h (h.good.1.drag src hs)
    · exact PO.pure h

theorem dragPrelude_po {A : Aff} {t0 : Tree} (hb : Base A t0) {fuel : Nat} {st : St} {ev : Ev} (h : DInv A t0 [0] st) :
    PO (dragPrelude Cfg.repaired fuel st ev) (DInv A t0 [0]) := by
  have h0 : Alive st.tree 0 := h.good.1.held 0 (List.mem_cons_self ..)
  unfold dragPrelude
  dsimp only
  split
  · exact PO.pure (h.rootFields _ rfl rfl)
  · split
    · apply PO.bind (handleMouse_po hb fuel _ h h0)
      intro ⟨st1, src⟩ h1
      apply PO.lbind (dragSourceSet_po h1)
      intro st2 h2
      exact PO.pure (h2.rootFields _ rfl rfl)
    · split
      · apply PO.bind (handleMouse_po hb fuel _ h h0)
        intro ⟨st1, dropped⟩ h1
        apply PO.lbind (dropResult_po h1)
        intro st2 h2
        apply PO.bind (dragStop_po hb h2)
        intro st3 h3
        exact PO.pure (h3.rootFields _ rfl rfl)
      · exact PO.pure h

/-- `on_term_mouse` as a whole (all its dispatches) keeps the invariant of the delivery theorems. -/
theorem onTermMouse_po {A : Aff} {t0 : Tree} (hb : Base A t0) (fuel : Nat) {st : St} (ev : Ev) (h : DInv A t0 [] st) :
    PO (onTermMouse Cfg.repaired fuel st ev) (fun p => DInv A t0 [] p.1) := by
  unfold onTermMouse
  have h0 : Alive st.tree 0 := by
    obtain ⟨w0, hw0, hf0, _⟩ := h.good.1.tree.root
    exact ⟨w0, hw0, hf0⟩
  apply PO.lbind (Q := DInv A t0 [0]) ⟨fun st0 hr => (h.ref hr).1⟩
  intro st0 G0
  apply PO.bind (dragPrelude_po hb G0)
  intro st1 G1
  apply PO.bind (handleMouse_po hb fuel ev G1 (G1.good.1.held 0 (List.mem_cons_self ..)))
  intro ⟨st2, handled⟩ G2
  apply PO.bind (dragOutside_po hb (handled := handled) G2)
  intro st3 G3
  apply PO.lbind (dropResult_po G3)
  intro st4 G4
  apply PO.lbind (Q := DInv A t0 []) ⟨fun st5 hr => (G4.release hr).1⟩
  intro st5 G5
  exact PO.pure G5

end WinInput
end Tickit
