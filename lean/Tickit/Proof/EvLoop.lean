import Tickit.Model.EvLoop
/-
  Helper lemmas for C17 / C18 (engine `evloop`).

  1. `struct timeval` order: `timercmp(a, b, >)` is a strict total order on pairs.
  2. The timer queue invariant `QInv`: addresses are allocated, and the queue is strictly increasing
     in the key (deadline, allocation number) — "deadline order, equal deadlines in registration order".
     The sorted insert of `tickit_watch_timer_at_tv` preserves it.
  3. Framing: everything a callback can do (`runAct`) preserves `QInv`.
  4. Traced versions of the timer loops (which timers fired, in which order) with erasure lemmas.
-/
namespace Tickit.EvLoop

/-! ### 1. timeval order -/

theorem TV.gt_iff (a b : TV) : a.gt b = true ↔ (a.sec > b.sec ∨ (a.sec = b.sec ∧ a.usec > b.usec)) := by
  unfold TV.gt
  simp only [Bool.or_eq_true, Bool.and_eq_true, decide_eq_true_eq, beq_iff_eq]

theorem TV.not_gt_iff (a b : TV) : a.gt b = false ↔ (a.sec < b.sec ∨ (a.sec = b.sec ∧ a.usec ≤ b.usec)) := by
  rw [← Bool.not_eq_true, TV.gt_iff]
  omega

theorem TV.gt_irrefl (a : TV) : a.gt a = false := by
  rw [TV.not_gt_iff]; omega

theorem TV.gt_trans {a b c : TV} (h1 : a.gt b = true) (h2 : b.gt c = true) : a.gt c = true := by
  rw [TV.gt_iff] at *; omega

theorem TV.gt_asymm {a b : TV} (h : a.gt b = true) : b.gt a = false := by
  rw [TV.gt_iff] at h; rw [TV.not_gt_iff]; omega

/-- `¬(a > b)` and `b ≤ c`‑style chaining: `a ≤ b`, `c > b` gives `c > a`. -/
theorem TV.gt_of_gt_of_not_gt {a b c : TV} (h1 : c.gt b = true) (h2 : a.gt b = false) : c.gt a = true := by
  rw [TV.gt_iff] at *; rw [TV.not_gt_iff] at h2; omega

theorem TV.not_gt_trans {a b c : TV} (h1 : a.gt b = false) (h2 : b.gt c = false) : a.gt c = false := by
  rw [TV.not_gt_iff] at *; omega

theorem TV.eq_of_not_gt_not_gt {a b : TV} (h1 : a.gt b = false) (h2 : b.gt a = false) : a = b := by
  rw [TV.not_gt_iff] at *
  cases a; cases b; simp only [TV.mk.injEq] at *; omega

theorem TV.trichotomy (a b : TV) : a.gt b = true ∨ a = b ∨ b.gt a = true := by
  cases h1 : a.gt b
  · cases h2 : b.gt a
    · exact Or.inr (Or.inl (TV.eq_of_not_gt_not_gt h1 h2))
    · exact Or.inr (Or.inr rfl)
  · exact Or.inl rfl

/-! ### heap primitives -/

namespace St

theorem getW_def (st : St) (a : Nat) : st.getW a = st.heap.getD a default := rfl

@[simp] theorem heap_setW (st : St) (a : Nat) (w : Watch) : (st.setW a w).heap = st.heap.set a w := rfl
@[simp] theorem timers_setW (st : St) (a : Nat) (w : Watch) : (st.setW a w).timers = st.timers := rfl
@[simp] theorem status_setW (st : St) (a : Nat) (w : Watch) : (st.setW a w).status = st.status := rfl
@[simp] theorem cfg_setW (st : St) (a : Nat) (w : Watch) : (st.setW a w).cfg = st.cfg := rfl

theorem getW_setW_ne (st : St) (a b : Nat) (w : Watch) (h : a ≠ b) : (st.setW a w).getW b = st.getW b := by
  simp only [getW, setW, List.getD_eq_getElem?_getD, List.getElem?_set, if_neg h]

theorem getW_setW_self (st : St) (a : Nat) (w : Watch) (h : a < st.heap.length) : (st.setW a w).getW a = w := by
  simp only [getW, setW, List.getD_eq_getElem?_getD, List.getElem?_set, if_pos h, if_true, Option.getD_some]

theorem length_setW (st : St) (a : Nat) (w : Watch) : (st.setW a w).heap.length = st.heap.length := by
  simp only [heap_setW, List.length_set]

theorem live_lt {st : St} {a : Nat} (h : st.live a = true) : a < st.heap.length := by
  unfold live at h
  cases hh : st.heap[a]? with
  | none => rw [hh] at h; cases h
  | some w =>
    have := List.getElem?_eq_some_iff.mp hh
    exact this.1

@[simp] theorem timers_emit (st : St) (e : Ev) : (st.emit e).timers = st.timers := rfl
@[simp] theorem heap_emit (st : St) (e : Ev) : (st.emit e).heap = st.heap := rfl
@[simp] theorem status_emit (st : St) (e : Ev) : (st.emit e).status = st.status := rfl
@[simp] theorem cfg_emit (st : St) (e : Ev) : (st.emit e).cfg = st.cfg := rfl
@[simp] theorem getW_emit (st : St) (e : Ev) (a : Nat) : (st.emit e).getW a = st.getW a := rfl
@[simp] theorem live_emit (st : St) (e : Ev) (a : Nat) : (st.emit e).live a = st.live a := rfl
@[simp] theorem isOk_emit (st : St) (e : Ev) : (st.emit e).isOk = st.isOk := rfl

@[simp] theorem timers_fail (st : St) (w : Ub) : (st.fail w).timers = st.timers := by
  unfold fail; split <;> rfl
@[simp] theorem heap_fail (st : St) (w : Ub) : (st.fail w).heap = st.heap := by
  unfold fail; split <;> rfl
@[simp] theorem getW_fail (st : St) (w : Ub) (a : Nat) : (st.fail w).getW a = st.getW a := by
  unfold getW; rw [heap_fail]
@[simp] theorem cfg_fail (st : St) (w : Ub) : (st.fail w).cfg = st.cfg := by
  unfold fail; split <;> rfl
theorem isOk_iff (st : St) : st.isOk = true ↔ st.status = .ok := by
  unfold isOk; simp

theorem isOk_fail (st : St) (w : Ub) : (st.fail w).isOk = false := by
  unfold fail isOk
  split
  · rfl
  · rename_i h; simpa using h

theorem status_fail_ne (st : St) (w : Ub) : (st.fail w).status ≠ .ok := by
  intro h
  have h1 := (isOk_iff _).mpr h
  rw [isOk_fail] at h1
  cases h1

/-- `if(!st.isOk)` was taken, yet the status is `ok`: impossible. -/
theorem not_ok_absurd {st : St} {P : Prop} (h : (!st.isOk) = true) (hok : st.status = .ok) : P := by
  rw [(isOk_iff st).mpr hok] at h
  cases h

end St

/-- Deadline of an address. -/
def dueOf (st : St) (a : Nat) : TV := (st.getW a).due

/-- Strict order on the key (deadline, allocation number): "earlier deadline, or equal deadline and
    registered earlier". -/
def keyLt (st : St) (a b : Nat) : Prop :=
  (dueOf st b).gt (dueOf st a) = true ∨ (dueOf st a = dueOf st b ∧ a < b)

/-- The timer queue invariant. -/
structure QInv (st : St) : Prop where
  alloc : ∀ a ∈ st.timers, a < st.heap.length
  ordered : st.timers.Pairwise (keyLt st)

/-! ### 2. the sorted insert -/

/-- `insTimer` only reads deadlines of queue members. It returns the queue with `new` inserted after
    every member whose deadline is not later than `due`. -/
theorem insTimer_spec (st : St) (new : Nat) (due : TV) :
    ∀ (l l' : List Nat), insTimer st new due l = some l' →
      ∃ pre post, l = pre ++ post ∧ l' = pre ++ new :: post ∧
        (∀ a ∈ pre, (dueOf st a).gt due = false) ∧
        (∀ b, post.head? = some b → (dueOf st b).gt due = true) := by
  intro l
  induction l with
  | nil =>
    intro l' h
    simp only [insTimer, Option.some.injEq] at h
    subst h
    exact ⟨[], [], rfl, rfl, by simp, by simp⟩
  | cons a rest ih =>
    intro l' h
    simp only [insTimer] at h
    split at h
    · cases h
    · split at h
      · rename_i hgt
        simp only [Option.some.injEq] at h
        subst h
        refine ⟨[], a :: rest, rfl, rfl, by simp, ?_⟩
        intro b hb
        simp only [List.head?_cons, Option.some.injEq] at hb
        subst hb
        exact hgt
      · rename_i hgt
        cases hr : insTimer st new due rest with
        | none => rw [hr] at h; cases h
        | some r =>
          rw [hr] at h
          simp only [Option.map_some, Option.some.injEq] at h
          subst h
          obtain ⟨pre, post, h1, h2, h3, h4⟩ := ih r hr
          refine ⟨a :: pre, post, by rw [h1]; rfl, by rw [h2]; rfl, ?_, h4⟩
          intro x hx
          simp only [List.mem_cons] at hx
          cases hx with
          | inl h => subst h; simpa [dueOf] using hgt
          | inr h => exact h3 x h

/-- The sorted insert keeps the queue ordered: the new timer (a fresh, hence largest, address whose
    deadline is `due`) lands after every queued timer with an earlier *or equal* deadline and before
    every one with a later deadline. -/
theorem insTimer_ordered (st : St) (new : Nat) (due : TV) (l l' : List Nat)
    (hnew : dueOf st new = due) (hfresh : ∀ a ∈ l, a < new)
    (hord : l.Pairwise (keyLt st)) (h : insTimer st new due l = some l') :
    l'.Pairwise (keyLt st) := by
  obtain ⟨pre, post, h1, h2, h3, h4⟩ := insTimer_spec st new due l l' h
  subst h1 h2
  rw [List.pairwise_append] at hord ⊢
  obtain ⟨hpre, hpost, hcross⟩ := hord
  refine ⟨hpre, ?_, ?_⟩
  · rw [List.pairwise_cons]
    refine ⟨?_, hpost⟩
    intro b hb
    -- every member of `post` has a deadline later than `due`
    left
    rw [hnew]
    cases post with
    | nil => cases hb
    | cons p ps =>
      have hp : (dueOf st p).gt due = true := h4 p rfl
      simp only [List.mem_cons] at hb
      cases hb with
      | inl h => subst h; exact hp
      | inr h =>
        rw [List.pairwise_cons] at hpost
        have := hpost.1 b h
        cases this with
        | inl hlt => exact TV.gt_trans hlt hp
        | inr heq => rw [← heq.1]; exact hp
  · intro a ha b hb
    simp only [List.mem_cons] at hb
    cases hb with
    | inr hb => exact hcross a ha b hb
    | inl hb =>
      subst hb
      have hle := h3 a ha
      have hlt : a < b := hfresh a (List.mem_append_left _ ha)
      rw [← hnew] at hle
      cases TV.trichotomy (dueOf st b) (dueOf st a) with
      | inl h => exact Or.inl h
      | inr h =>
        cases h with
        | inl h => exact Or.inr ⟨h.symm, hlt⟩
        | inr h => rw [h] at hle; cases hle

theorem insTimer_mem (st : St) (new : Nat) (due : TV) (l l' : List Nat)
    (h : insTimer st new due l = some l') : ∀ x, x ∈ l' ↔ (x = new ∨ x ∈ l) := by
  obtain ⟨pre, post, h1, h2, _, _⟩ := insTimer_spec st new due l l' h
  subst h1 h2
  intro x
  simp only [List.mem_append, List.mem_cons]
  constructor
  · rintro (h | h | h)
    · exact Or.inr (Or.inl h)
    · exact Or.inl h
    · exact Or.inr (Or.inr h)
  · rintro (h | h | h)
    · exact Or.inr (Or.inl h)
    · exact Or.inl h
    · exact Or.inr (Or.inr h)

/-! ### 3. framing: what the steps of a callback do to the heap and to the timer queue -/

/-- The heap only grows, and deadlines of allocated watches never change. -/
structure HeapExt (st st' : St) : Prop where
  len : st.heap.length ≤ st'.heap.length
  due : ∀ a, a < st.heap.length → dueOf st' a = dueOf st a

theorem HeapExt.refl (st : St) : HeapExt st st := ⟨Nat.le_refl _, fun _ _ => rfl⟩

theorem HeapExt.trans {a b c : St} (h1 : HeapExt a b) (h2 : HeapExt b c) : HeapExt a c :=
  ⟨Nat.le_trans h1.len h2.len, fun x hx => by rw [h2.due x (Nat.lt_of_lt_of_le hx h1.len), h1.due x hx]⟩

theorem HeapExt.of_heap_eq {st st' : St} (h : st'.heap = st.heap) : HeapExt st st' :=
  ⟨by rw [h]; exact Nat.le_refl _, fun a _ => by unfold dueOf St.getW; rw [h]⟩

/-- Heap extended, timer queue untouched. -/
structure Grow (st st' : St) : Prop where
  ext : HeapExt st st'
  timers : st'.timers = st.timers

theorem Grow.refl (st : St) : Grow st st := ⟨HeapExt.refl st, rfl⟩
theorem Grow.trans {a b c : St} (h1 : Grow a b) (h2 : Grow b c) : Grow a c :=
  ⟨h1.ext.trans h2.ext, by rw [h2.timers, h1.timers]⟩
theorem Grow.of_eq {st st' : St} (hh : st'.heap = st.heap) (ht : st'.timers = st.timers) : Grow st st' :=
  ⟨HeapExt.of_heap_eq hh, ht⟩

theorem keyLt_ext {st st' : St} (h : HeapExt st st') {a b : Nat} (ha : a < st.heap.length) (hb : b < st.heap.length) :
    keyLt st' a b ↔ keyLt st a b := by
  unfold keyLt
  rw [h.due a ha, h.due b hb]

theorem QInv.of_sublist {st st' : St} (q : QInv st) (h : HeapExt st st') (hs : st'.timers.Sublist st.timers) : QInv st' := by
  have hmem : ∀ a ∈ st'.timers, a ∈ st.timers := fun a ha => hs.subset ha
  refine ⟨fun a ha => Nat.lt_of_lt_of_le (q.alloc a (hmem a ha)) h.len, ?_⟩
  have := List.Pairwise.sublist hs q.ordered
  refine List.Pairwise.imp_of_mem ?_ this
  intro a b ha hb hab
  exact (keyLt_ext h (q.alloc a (hmem a ha)) (q.alloc b (hmem b hb))).mpr hab

theorem QInv.grow {st st' : St} (q : QInv st) (g : Grow st st') : QInv st' :=
  q.of_sublist g.ext (by rw [g.timers]; exact List.Sublist.refl _)

/-! primitives -/

theorem grow_emit (st : St) (e : Ev) : Grow st (st.emit e) := Grow.of_eq rfl rfl
theorem grow_fail (st : St) (w : Ub) : Grow st (st.fail w) := Grow.of_eq (St.heap_fail st w) (St.timers_fail st w)

theorem dueOf_alloc_old (st : St) (w : Watch) (a : Nat) (h : a < st.heap.length) :
    dueOf (st.alloc w).1 a = dueOf st a := by
  simp only [dueOf, St.getW, St.alloc, List.getD_eq_getElem?_getD, List.getElem?_append_left h]

theorem dueOf_alloc_new (st : St) (w : Watch) : dueOf (st.alloc w).1 (st.alloc w).2 = w.due := by
  simp only [dueOf, St.getW, St.alloc, List.getD_eq_getElem?_getD]
  rw [List.getElem?_append_right (Nat.le_refl _)]
  simp

theorem alloc_snd (st : St) (w : Watch) : (st.alloc w).2 = st.heap.length := rfl
theorem alloc_len (st : St) (w : Watch) : (st.alloc w).1.heap.length = st.heap.length + 1 := by
  simp [St.alloc]

theorem grow_alloc (st : St) (w : Watch) : Grow st (st.alloc w).1 :=
  ⟨⟨by rw [alloc_len]; omega, fun a ha => dueOf_alloc_old st w a ha⟩, rfl⟩

/-- Overwriting a watch with one of the same deadline. -/
theorem grow_setW (st : St) (a : Nat) (w : Watch) (hd : w.due = (st.getW a).due) : Grow st (st.setW a w) := by
  refine ⟨⟨by rw [St.length_setW]; exact Nat.le_refl _, ?_⟩, rfl⟩
  intro b hb
  unfold dueOf
  by_cases hab : a = b
  · subst hab
    rw [St.getW_setW_self st a w hb, hd]
  · rw [St.getW_setW_ne st a b w hab]

theorem grow_free (st : St) (a : Nat) : Grow st (st.free a) := by
  unfold St.free
  split
  · exact grow_setW st a _ rfl
  · exact grow_fail st _

theorem grow_sigRecord (st : St) (s : Int) : Grow st (sigRecord st s) := by
  unfold sigRecord
  split <;> first | exact Grow.of_eq rfl rfl | exact Grow.refl _

theorem grow_raiseSig (st : St) (s : Int) : Grow st (raiseSig st s) := by
  unfold raiseSig
  split
  · exact Grow.refl st
  · split
    · exact Grow.of_eq rfl rfl
    · split
      · exact grow_sigRecord st s
      · split
        · exact Grow.of_eq rfl rfl
        · exact Grow.refl st

theorem grow_evloopIo (st : St) (fd : Int) (cond : Nat) (w : Nat) : Grow st (evloopIo st fd cond w).1 := by
  unfold evloopIo
  split <;> exact Grow.of_eq rfl rfl

theorem grow_evloopCancelIo (st : St) (idx : Nat) : Grow st (evloopCancelIo st idx) := Grow.of_eq rfl rfl

theorem grow_evloopSignal (st : St) (s : Int) : Grow st (evloopSignal st s).1 := by
  unfold evloopSignal
  simp only []
  split <;> exact Grow.of_eq rfl rfl

theorem grow_evloopCancelSignal (st : St) (idx : Nat) : Grow st (evloopCancelSignal st idx) := by
  unfold evloopCancelSignal
  simp only []
  split
  · exact Grow.of_eq rfl rfl
  · split
    · split <;> exact Grow.of_eq rfl rfl
    · exact Grow.of_eq rfl rfl

theorem grow_insertWatch (st : St) (l : List Nat) (flags new : Nat) : Grow st (insertWatch st l flags new).1 := by
  unfold insertWatch
  split
  · exact Grow.refl st
  · split
    · exact Grow.refl st
    · exact grow_fail st _

theorem grow_notify (st : St) (a flags : Nat) : Grow st (notify st a flags) := by
  unfold notify
  simp only []
  split
  · exact grow_emit st _
  · exact Grow.refl st

/-! constructors -/

theorem grow_with_laters (st : St) (l : List Nat) : Grow st { st with laters := l } := Grow.of_eq rfl rfl
theorem grow_with_iow (st : St) (l : List Nat) : Grow st { st with iow := l } := Grow.of_eq rfl rfl
theorem grow_with_signals (st : St) (l : List Nat) : Grow st { st with signals := l } := Grow.of_eq rfl rfl
theorem grow_with_procs (st : St) (l : List Nat) : Grow st { st with procs := l } := Grow.of_eq rfl rfl

theorem grow_watchLater (st : St) (flags : Nat) (slot : Int) (puser : Nat) :
    Grow st (watchLater st flags slot puser).1 := by
  unfold watchLater
  exact ((grow_alloc st _).trans (grow_insertWatch _ _ _ _)).trans (grow_with_laters _ _)

theorem grow_setEvi (st : St) (a idx : Nat) : Grow st (st.setW a { st.getW a with evi := idx }) :=
  grow_setW st a _ rfl
theorem grow_setWstatus (st : St) (a : Nat) (ws : Int) : Grow st (st.setW a { st.getW a with wstatus := ws }) :=
  grow_setW st a _ rfl

theorem grow_watchIo (st : St) (fd : Int) (cond flags : Nat) (slot : Int) : Grow st (watchIo st fd cond flags slot).1 := by
  unfold watchIo
  exact ((((grow_alloc st _).trans (grow_evloopIo _ _ _ _)).trans (grow_setEvi _ _ _)).trans
    (grow_insertWatch _ _ _ _)).trans (grow_with_iow _ _)

theorem grow_watchSignalPre (st : St) (signum : Int) (flags : Nat) (slot : Int) :
    Grow st (watchSignalPre st signum flags slot) := by
  unfold watchSignalPre
  exact ((grow_alloc st _).trans (grow_evloopSignal _ _)).trans (grow_setEvi _ _ _)

theorem grow_watchSignal (st : St) (signum : Int) (flags : Nat) (slot : Int) :
    Grow st (watchSignal st signum flags slot).1 := by
  unfold watchSignal
  exact ((grow_watchSignalPre st _ _ _).trans (grow_insertWatch _ _ _ _)).trans (grow_with_signals _ _)

theorem grow_waitpid (st : St) (pid : Int) : Grow st (waitpid st pid).st := by
  unfold waitpid
  split
  · split
    · exact Grow.of_eq rfl rfl
    · split <;> exact Grow.of_eq rfl rfl
  · exact Grow.refl st

theorem grow_ensureSigchld (st : St) : Grow st (ensureSigchld st) := by
  unfold ensureSigchld
  split
  · exact Grow.refl _
  · exact (grow_watchSignal _ _ _ _).trans (Grow.of_eq rfl rfl)

theorem grow_setNotify (st : St) (a : Nat) (n : Option Nat) : Grow st (setNotify st a n) := by
  unfold setNotify
  exact grow_setW st a { st.getW a with notify := n } rfl

theorem grow_linkNotified (r : St × Nat) (a : Nat) (flags : Nat) : Grow r.1 (linkNotified r a flags) := by
  unfold linkNotified
  exact ((grow_setNotify r.1 a (some r.2)).trans (grow_insertWatch _ _ _ _)).trans (grow_with_procs _ _)

theorem grow_clearNotify (st : St) (a : Nat) : Grow st (clearNotify st a) := by
  unfold clearNotify
  split
  · exact grow_setNotify st a none
  · exact Grow.refl _

theorem grow_linkProcess (st : St) (a : Nat) (pid : Int) (flags : Nat) : Grow st (linkProcess st a pid flags) := by
  unfold linkProcess
  simp only []
  split
  · split
    · exact (((grow_waitpid _ _).trans (grow_setWstatus _ _ _)).trans (grow_watchLater _ _ _ _)).trans (grow_linkNotified _ _ _)
    · exact ((grow_waitpid _ _).trans (grow_setWstatus _ _ _)).trans (grow_watchLater _ _ _ _)
  · exact ((grow_waitpid _ _).trans (grow_insertWatch _ _ _ _)).trans (grow_with_procs _ _)

theorem grow_watchProcess (st : St) (pid : Int) (flags : Nat) (slot : Int) :
    Grow st (watchProcess st pid flags slot).1 := by
  unfold watchProcess
  exact ((grow_alloc st _).trans (grow_ensureSigchld _)).trans (grow_linkProcess _ _ _ _)

/-! ### preservation of the queue invariant by everything a callback can do -/

/-- A step that extends the heap and keeps the timer queue invariant. -/
structure Pres (st st' : St) : Prop where
  ext : HeapExt st st'
  qinv : QInv st → QInv st'
  /-- a timer enters the queue only as a freshly allocated address -/
  mem : ∀ a ∈ st'.timers, a ∈ st.timers ∨ st.heap.length ≤ a

theorem Pres.refl (st : St) : Pres st st := ⟨HeapExt.refl st, id, fun _ h => Or.inl h⟩
theorem Pres.trans {a b c : St} (h1 : Pres a b) (h2 : Pres b c) : Pres a c :=
  ⟨h1.ext.trans h2.ext, fun q => h2.qinv (h1.qinv q), fun x hx => by
    cases h2.mem x hx with
    | inl h => exact h1.mem x h
    | inr h => exact Or.inr (Nat.le_trans h1.ext.len h)⟩
theorem Grow.pres {st st' : St} (g : Grow st st') : Pres st st' :=
  ⟨g.ext, fun q => q.grow g, fun a h => Or.inl (by rw [g.timers] at h; exact h)⟩

theorem keyLt_with_timers (st : St) (l : List Nat) (a b : Nat) : keyLt { st with timers := l } a b ↔ keyLt st a b := Iff.rfl

/-- `tickit_watch_timer_at_tv` keeps the queue ordered by (deadline, registration). -/
theorem pres_watchTimerAt (st : St) (due : TV) (flags : Nat) (slot : Int) :
    Pres st (watchTimerAt st due flags slot).1 := by
  unfold watchTimerAt
  simp only []
  have g := grow_alloc st { type := .timer, flags := flags &&& (BIND_UNBIND ||| BIND_DESTROY), slot := slot, due := due }
  have hnew := dueOf_alloc_new st { type := .timer, flags := flags &&& (BIND_UNBIND ||| BIND_DESTROY), slot := slot, due := due }
  have hlen := alloc_len st { type := .timer, flags := flags &&& (BIND_UNBIND ||| BIND_DESTROY), slot := slot, due := due }
  rw [alloc_snd] at hnew
  generalize (st.alloc { type := .timer, flags := flags &&& (BIND_UNBIND ||| BIND_DESTROY), slot := slot, due := due }).1 = s1 at *
  split
  · rename_i l hl
    refine ⟨g.ext.trans (HeapExt.of_heap_eq rfl), ?_, ?_⟩
    · intro q
      have q1 : QInv s1 := q.grow g
      have hfresh : ∀ x ∈ s1.timers, x < st.heap.length := by
        intro x hx; rw [g.timers] at hx; exact q.alloc x hx
      refine ⟨?_, ?_⟩
      · intro x hx
        have := (insTimer_mem s1 _ _ _ _ hl x).mp hx
        show x < s1.heap.length
        rw [hlen]
        cases this with
        | inl h => omega
        | inr h => have := hfresh x h; omega
      · exact insTimer_ordered s1 _ due _ l hnew hfresh q1.ordered hl
    · intro x hx
      have := (insTimer_mem s1 _ _ _ _ hl x).mp hx
      cases this with
      | inl h => exact Or.inr (by omega)
      | inr h => rw [g.timers] at h; exact Or.inl h
  · exact (g.trans (grow_fail _ _)).pres

theorem pres_watchTimerAfterMsec (st : St) (msec : Int) (flags : Nat) (slot : Int) :
    Pres st (watchTimerAfterMsec st msec flags slot).1 := by
  unfold watchTimerAfterMsec
  exact (grow_emit st _).pres.trans (pres_watchTimerAt _ _ _ _)

theorem pres_setListOf_erase (st : St) (t : WType) (l : List Nat) (a : Nat) (hl : l = listOf st t) :
    Pres st (setListOf st t (l.erase a)) := by
  subst hl
  cases t
  case timer =>
    refine ⟨HeapExt.of_heap_eq rfl, fun q => q.of_sublist (HeapExt.of_heap_eq rfl) ?_, ?_⟩
    · exact List.erase_sublist
    · intro x hx
      exact Or.inl ((List.erase_sublist (a := a) (l := st.timers)).subset hx)
  all_goals (refine Grow.pres (Grow.of_eq ?_ ?_) <;> rfl)

theorem grow_cancelHook (st : St) (t : WType) (evi : Nat) : Grow st (cancelHook st t evi) := by
  unfold cancelHook
  split
  · exact grow_evloopCancelIo _ _
  · exact grow_evloopCancelSignal _ _
  · exact Grow.refl _

theorem grow_cancelNotify (st : St) (a : Nat) (w : Watch) : Grow st (cancelNotify st a w) := by
  unfold cancelNotify
  split
  · exact grow_notify _ _ _
  · exact Grow.refl _

theorem grow_cancelRest (st : St) (rest : List Nat) : Grow st (cancelRest st rest) := by
  unfold cancelRest
  split
  · exact Grow.refl _
  · split
    · exact grow_fail _ _
    · exact Grow.refl _

theorem pres_cancelFound (st : St) (a : Nat) (w : Watch) (l : List Nat) (hl : l = listOf st w.type) :
    Pres st (cancelFound st a w l) := by
  unfold cancelFound
  exact (pres_setListOf_erase st w.type l a hl).trans
    ((((grow_cancelNotify _ a w).trans (grow_cancelHook _ w.type w.evi)).trans (grow_free _ a)).trans
      (grow_cancelRest _ _)).pres

theorem grow_cancelDetached (st : St) (a : Nat) : Grow st (cancelDetached st a) := by
  unfold cancelDetached
  exact (grow_cancelNotify st a _).trans (grow_setW _ a _ rfl)

theorem grow_laterPre (st : St) (a : Nat) : Grow st (laterPre st a) := by
  unfold laterPre
  split
  · exact grow_setW _ a _ rfl
  · exact Grow.refl _

theorem pres_watchCancel0 (st : St) (a : Nat) : Pres st (watchCancel0 st a) := by
  unfold watchCancel0
  split
  · exact Pres.refl st
  · split
    · exact (grow_fail st _).pres
    · split
      · exact Pres.refl st
      · split
        · exact (grow_fail st _).pres
        · split
          · split
            · exact (grow_cancelDetached st a).pres
            · exact Pres.refl st
          · exact pres_cancelFound st a _ _ rfl

theorem pres_watchCancel (st : St) (a : Nat) : Pres st (watchCancel st a) := by
  unfold watchCancel
  split
  · split
    · exact (pres_watchCancel0 st a).trans (pres_watchCancel0 _ _)
    · exact pres_watchCancel0 st a
  · exact pres_watchCancel0 st a

/-- For a watch that is not a process watch `tickit_watch_cancel` is `watchCancel0`. -/
theorem watchCancel_eq0 (st : St) (a : Nat) (h : (st.getW a).type ≠ .process) : watchCancel st a = watchCancel0 st a := by
  unfold watchCancel
  rw [if_neg]
  intro hh
  have := hh.2
  unfold cancelFindsProcess at this
  simp only [Bool.and_eq_true, beq_iff_eq] at this
  exact h this.1.2

theorem grow_with_slots (st : St) (l : List SlotRec) : Grow st { st with slots := l } := Grow.of_eq rfl rfl
theorem grow_with_errno (st : St) (e : Int) : Grow st { st with errno := e } := Grow.of_eq rfl rfl
theorem grow_with_children (st : St) (l : List Proc) : Grow st { st with children := l } := Grow.of_eq rfl rfl
theorem grow_with_stillRunning (st : St) (b : Bool) : Grow st { st with stillRunning := b } := Grow.of_eq rfl rfl
theorem grow_with_inRun (st : St) (b : Bool) : Grow st { st with inRun := b } := Grow.of_eq rfl rfl

theorem pres_doRegister (st : St) (k : Int) (reg : St → St × Nat) (h : ∀ s, Pres s (reg s).1) :
    Pres st (doRegister st k reg) := by
  unfold doRegister
  split
  · exact (grow_emit _ _).pres
  · split
    · exact (grow_emit _ _).pres
    · exact (h st).trans (grow_with_slots _ _).pres

theorem grow_with_cancelReq (st : St) (l : List Int) : Grow st { st with cancelReq := l } := Grow.of_eq rfl rfl

theorem pres_doCancel (st : St) (k : Int) : Pres st (doCancel st k) := by
  unfold doCancel
  split
  · exact (grow_emit _ _).pres
  · exact (grow_with_cancelReq _ _).pres.trans (pres_watchCancel _ _)

/-- Everything a callback can do keeps the timer queue ordered. -/
theorem pres_runAct (st : St) (act : Act) : Pres st (runAct st act) := by
  unfold runAct
  split
  · exact Pres.refl _
  · split
    · split
      · exact pres_doRegister _ _ _ (fun s => pres_watchTimerAfterMsec s _ _ _)
      · exact Pres.refl _
    · split
      · exact pres_doRegister _ _ _ (fun s => pres_watchTimerAt s _ _ _)
      · exact Pres.refl _
    · exact pres_doRegister _ _ _ (fun s => (grow_watchLater s _ _ _).pres)
    · exact pres_doRegister _ _ _ (fun s => (grow_watchIo s _ _ _ _).pres)
    · split
      · exact pres_doRegister _ _ _ (fun s => (grow_watchSignal s _ _ _).pres)
      · exact Pres.refl _
    · split
      · exact pres_doRegister _ _ _ (fun s => (grow_watchProcess s _ _ _).pres)
      · exact Pres.refl _
    · exact pres_doCancel _ _
    · exact (grow_with_errno _ _).pres
    · split
      · exact (grow_raiseSig _ _).pres
      · exact Pres.refl _
    · split
      · split
        · exact Pres.refl _
        · exact (grow_with_children _ _).pres
      · exact Pres.refl _
    · exact (grow_with_stillRunning _ _).pres
    · exact Pres.refl _

theorem pres_runActs (acts : List Act) : ∀ st : St,
    Pres st (acts.foldl (fun st act => if st.isOk then runAct (st.emit .a) act else st) st) := by
  induction acts with
  | nil => intro st; exact Pres.refl st
  | cons a rest ih =>
    intro st
    simp only [List.foldl_cons]
    refine Pres.trans ?_ (ih _)
    split
    · exact (grow_emit _ _).pres.trans (pres_runAct _ _)
    · exact Pres.refl _

/-- A callback of the harness keeps the timer queue ordered, whatever its behaviour table says. -/
theorem pres_fireUser (st : St) (k : Int) (flags : Nat) (info : Info) : Pres st (fireUser st k flags info) := by
  unfold fireUser
  simp only []
  split
  · exact (grow_emit _ _).pres
  · split
    · exact (grow_emit _ _).pres.trans (grow_with_slots _ _).pres
    · exact ((grow_emit _ _).pres.trans (grow_with_slots _ _).pres).trans (pres_runActs _ _)

/-! ### 4. the timer loop, traced -/

/-- Key order on fired timers: earlier deadline, or equal deadline and registered (allocated) earlier. -/
def Fired.lt (x y : Fired) : Prop := y.due.gt x.due = true ∨ (x.due = y.due ∧ x.a < y.a)

theorem grow_pop (st : St) (a : Nat) (rest : List Nat) (h : st.timers = a :: rest) :
    Pres st { st with timers := rest } := by
  refine ⟨HeapExt.of_heap_eq rfl, fun q => q.of_sublist (HeapExt.of_heap_eq rfl) ?_, ?_⟩
  · show rest.Sublist st.timers
    rw [h]; exact List.sublist_cons_self a rest
  · intro x hx
    left
    show x ∈ st.timers
    rw [h]; exact List.mem_cons_of_mem a hx

theorem grow_with_status (st : St) (x : Status) : Grow st { st with status := x } := Grow.of_eq rfl rfl

/-- The repaired loop keeps the queue ordered (and only fresh addresses enter it). -/
theorem pres_timerLoopPopT (fuel : Nat) : ∀ (st : St) (now : TV), Pres st (timerLoopPopT fuel st now).1 := by
  induction fuel with
  | zero =>
    intro st now
    unfold timerLoopPopT
    split
    · exact (grow_with_status _ _).pres
    · exact Pres.refl _
  | succ n ih =>
    intro st now
    unfold timerLoopPopT
    split
    · exact Pres.refl _
    · split
      · exact Pres.refl _
      · rename_i a rest hq
        split
        · exact (grow_fail _ _).pres
        · split
          · exact Pres.refl _
          · have h1 := (grow_pop st a rest hq).trans (pres_fireUser { st with timers := rest } (st.getW a).slot (EV_FIRE ||| EV_UNBIND) .none)
            simp only []
            split
            · exact h1
            · split
              · exact h1.trans (grow_fail _ _).pres
              · exact (h1.trans (grow_free _ a).pres).trans (ih _ _)

theorem QInv.head_min {st : St} (q : QInv st) {a : Nat} {rest : List Nat} (h : st.timers = a :: rest) :
    ∀ b ∈ rest, keyLt st a b := by
  have := q.ordered
  rw [h, List.pairwise_cons] at this
  exact this.1

/-- never_early, traced: every timer the repaired loop invokes has a deadline that is not later than `now`. -/
theorem timerLoopPopT_never_early (fuel : Nat) : ∀ (st : St) (now : TV),
    ∀ f ∈ (timerLoopPopT fuel st now).2, f.due.gt now = false := by
  induction fuel with
  | zero => intro st now f hf; simp [timerLoopPopT] at hf
  | succ n ih =>
    intro st now f hf
    unfold timerLoopPopT at hf
    split at hf
    · cases hf
    · split at hf
      · cases hf
      · rename_i a rest hq
        split at hf
        · cases hf
        · split at hf
          · cases hf
          · rename_i hdue
            simp only [] at hf
            have hd : ((st.getW a).due.gt now) = false := by simpa using hdue
            split at hf
            · simp only [List.mem_singleton] at hf; subst hf; exact hd
            · split at hf
              · simp only [List.mem_singleton] at hf; subst hf; exact hd
              · simp only [List.mem_cons] at hf
                cases hf with
                | inl h => subst h; exact hd
                | inr h => exact ih _ _ f h

/-- never_early for the loop as shipped. -/
theorem timerLoopT_never_early (fuel : Nat) : ∀ (st : St) (now : TV) (this : Option Nat),
    ∀ f ∈ (timerLoopT fuel st now this).2.2, f.due.gt now = false := by
  induction fuel with
  | zero => intro st now this f hf; simp [timerLoopT] at hf
  | succ n ih =>
    intro st now this f hf
    unfold timerLoopT at hf
    split at hf
    · cases hf
    · split at hf
      · cases hf
      · rename_i a
        split at hf
        · cases hf
        · split at hf
          · cases hf
          · rename_i hdue
            simp only [] at hf
            have hd : ((st.getW a).due.gt now) = false := by simpa using hdue
            split at hf
            · simp only [List.mem_singleton] at hf; subst hf; exact hd
            · split at hf
              · simp only [List.mem_singleton] at hf; subst hf; exact hd
              · simp only [List.mem_cons] at hf
                cases hf with
                | inl h => subst h; exact hd
                | inr h => exact ih _ _ _ f h

/-- When the repaired loop returns normally no queued timer is due any more. -/
theorem timerLoopPopT_none_due (fuel : Nat) : ∀ (st : St) (now : TV), QInv st →
    (timerLoopPopT fuel st now).1.status = .ok →
    ∀ b ∈ (timerLoopPopT fuel st now).1.timers, (dueOf (timerLoopPopT fuel st now).1 b).gt now = true := by
  induction fuel with
  | zero =>
    intro st now _ hok
    unfold timerLoopPopT at hok
    simp only [] at hok
    split at hok
    · cases hok
    · rename_i h
      exact absurd ((St.isOk_iff st).mpr hok) h
  | succ n ih =>
    intro st now q
    unfold timerLoopPopT
    split
    · rename_i h
      intro hok
      exact St.not_ok_absurd h hok
    · split
      · rename_i hq
        intro _ b hb; rw [hq] at hb; cases hb
      · rename_i a rest hq
        split
        · intro hok
          exact absurd hok (St.status_fail_ne _ _)
        · split
          · rename_i hgt
            intro _ b hb
            rw [hq] at hb
            simp only [List.mem_cons] at hb
            cases hb with
            | inl h => subst h; exact hgt
            | inr h =>
              have := q.head_min hq b h
              cases this with
              | inl hlt => exact TV.gt_trans hlt hgt
              | inr heq => unfold dueOf at heq ⊢; rw [← heq.1]; exact hgt
          · have h1 := (grow_pop st a rest hq).trans (pres_fireUser { st with timers := rest } (st.getW a).slot (EV_FIRE ||| EV_UNBIND) .none)
            simp only []
            split
            · rename_i hbad
              intro hok
              exact St.not_ok_absurd hbad hok
            · split
              · intro hok
                exact absurd hok (St.status_fail_ne _ _)
              · exact ih _ _ ((h1.trans (grow_free _ a).pres).qinv q)

/-- The trace of the repaired loop, relative to the queue `st.timers` at its start:
    * every invoked timer was in that queue or was allocated later (registered by a callback);
    * for those that were in the queue, the recorded deadline is the one they were registered with;
    * whenever `x` is invoked before `y` and `y` was already queued at the start, `x` has the smaller key
      (earlier deadline, or equal deadline and registered earlier). -/
theorem timerLoopPopT_trace (fuel : Nat) : ∀ (st : St) (now : TV), QInv st →
    (∀ f ∈ (timerLoopPopT fuel st now).2, f.a ∈ st.timers ∨ st.heap.length ≤ f.a) ∧
    (∀ f ∈ (timerLoopPopT fuel st now).2, f.a ∈ st.timers → f.due = dueOf st f.a) ∧
    (timerLoopPopT fuel st now).2.Pairwise (fun x y => y.a ∈ st.timers → Fired.lt x y) := by
  induction fuel with
  | zero => intro st now _; simp [timerLoopPopT]
  | succ n ih =>
    intro st now q
    unfold timerLoopPopT
    split
    · simp
    · split
      · simp
      · rename_i a rest hq
        have ha : a ∈ st.timers := by rw [hq]; exact List.mem_cons_self
        split
        · simp
        · split
          · simp
          · simp only []
            have hsingle :
                (∀ f ∈ [(⟨a, (st.getW a).slot, (st.getW a).due⟩ : Fired)], f.a ∈ st.timers ∨ st.heap.length ≤ f.a) ∧
                (∀ f ∈ [(⟨a, (st.getW a).slot, (st.getW a).due⟩ : Fired)], f.a ∈ st.timers → f.due = dueOf st f.a) ∧
                [(⟨a, (st.getW a).slot, (st.getW a).due⟩ : Fired)].Pairwise (fun x y => y.a ∈ st.timers → Fired.lt x y) := by
              refine ⟨?_, ?_, List.pairwise_singleton _ _⟩
              · intro f hf; simp only [List.mem_singleton] at hf; subst hf; exact Or.inl ha
              · intro f hf _; simp only [List.mem_singleton] at hf; subst hf; rfl
            split
            · exact hsingle
            · split
              · exact hsingle
              · -- the recursive case
                have p0 : Pres { st with timers := rest }
                    ((fireUser { st with timers := rest } (st.getW a).slot (EV_FIRE ||| EV_UNBIND) .none).free a) :=
                  (pres_fireUser _ _ _ _).trans (grow_free _ a).pres
                have p : Pres st ((fireUser { st with timers := rest } (st.getW a).slot (EV_FIRE ||| EV_UNBIND) .none).free a) :=
                  (grow_pop st a rest hq).trans p0
                generalize ((fireUser { st with timers := rest } (st.getW a).slot (EV_FIRE ||| EV_UNBIND) .none).free a) = s2 at p0 p ⊢
                obtain ⟨hC, hD, hB⟩ := ih s2 now (p.qinv q)
                -- a timer of the initial queue that is invoked later is still queued in `s2`
                have still : ∀ f ∈ (timerLoopPopT n s2 now).2, f.a ∈ st.timers → f.a ∈ s2.timers ∧ f.a ∈ rest := by
                  intro f hf hin
                  have hlt : f.a < st.heap.length := q.alloc _ hin
                  have h2 : f.a ∈ s2.timers := by
                    cases hC f hf with
                    | inl h => exact h
                    | inr h => have := p.ext.len; omega
                  refine ⟨h2, ?_⟩
                  cases p0.mem _ h2 with
                  | inl h => exact h
                  | inr h => have : st.heap.length ≤ f.a := h; omega
                refine ⟨?_, ?_, ?_⟩
                · intro f hf
                  simp only [List.mem_cons] at hf
                  cases hf with
                  | inl h => subst h; exact Or.inl ha
                  | inr h =>
                    cases hC f h with
                    | inl h2 => exact p.mem _ h2
                    | inr h2 => exact Or.inr (Nat.le_trans p.ext.len h2)
                · intro f hf hin
                  simp only [List.mem_cons] at hf
                  cases hf with
                  | inl h => subst h; rfl
                  | inr h =>
                    rw [hD f h (still f h hin).1]
                    exact p.ext.due _ (q.alloc _ hin)
                · rw [List.pairwise_cons]
                  refine ⟨?_, ?_⟩
                  · intro y hy hin
                    have hrest := (still y hy hin).2
                    have hk := q.head_min hq y.a hrest
                    have hdue : y.due = dueOf st y.a := by
                      rw [hD y hy (still y hy hin).1]
                      exact p.ext.due _ (q.alloc _ hin)
                    unfold Fired.lt
                    unfold keyLt at hk
                    rw [hdue]
                    exact hk
                  · refine List.Pairwise.imp_of_mem ?_ hB
                    intro x y _ hy hxy hin
                    exact hxy (still y hy hin).1

/-! ### 5. the invariant holds in every reachable state -/

theorem getW_setListOf (st : St) (t : WType) (l : List Nat) (a : Nat) : (setListOf st t l).getW a = st.getW a := by
  cases t <;> rfl

theorem pres_unlinkOneshot (st : St) (a : Nat) : Pres st (unlinkOneshot st a) := by
  unfold unlinkOneshot
  split
  · exact (grow_fail _ _).pres
  · split
    · exact Pres.refl _
    · split
      · exact (grow_fail _ _).pres
      · split
        · exact Pres.refl _
        · refine (pres_setListOf_erase st (st.getW a).type _ a rfl).trans ?_
          refine (Grow.trans (grow_setW _ a _ ?_) (grow_free _ a)).pres
          rw [getW_setListOf]

theorem pres_unlinkOneshotSaved (st : St) (a : Nat) (t : WType) : Pres st (unlinkOneshotSaved st a t) := by
  unfold unlinkOneshotSaved
  split
  · exact Pres.refl _
  · split
    · exact (grow_fail _ _).pres
    · split
      · exact Pres.refl _
      · refine (pres_setListOf_erase st t _ a rfl).trans ?_
        refine (Grow.trans (grow_setW _ a _ ?_) (grow_free _ a)).pres
        rw [getW_setListOf]

theorem pres_fireIf (st : St) (c : Prop) [Decidable c] (k : Int) (flags : Nat) (info : Info) :
    Pres st (if c then fireUser st k flags info else st) := by
  split
  · exact pres_fireUser _ _ _ _
  · exact Pres.refl _

theorem pres_invokeWatch (st : St) (a : Nat) (flags : Nat) (info : Info) : Pres st (invokeWatch st a flags info) := by
  unfold invokeWatch
  have hf := pres_fireIf st ((st.getW a).slot ≥ 0) (st.getW a).slot flags info
  generalize (if (st.getW a).slot ≥ 0 then fireUser st (st.getW a).slot flags info else st) = s1 at hf ⊢
  split
  · exact Pres.refl _
  · split
    · exact (grow_fail _ _).pres
    · split
      · exact hf
      · split
        · exact hf.trans (pres_unlinkOneshotSaved _ a _)
        · exact hf.trans (pres_unlinkOneshot _ a)

theorem grow_waitpidV (st : St) (pid : Int) : Grow st (waitpidV st pid).st := by
  unfold waitpidV
  split
  · exact grow_waitpid _ _
  · exact Grow.refl _

theorem pres_procStep (st : St) (a : Nat) : Pres st (procStep st a) := by
  unfold procStep
  split
  · exact (grow_waitpidV _ _).pres
  · exact (grow_waitpidV _ _).pres.trans (pres_invokeWatch _ _ _ _)

theorem pres_outOfFuel (st : St) : Pres st (if st.isOk then { st with status := .outOfFuel } else st) := by
  split
  · exact (grow_with_status _ _).pres
  · exact Pres.refl _

theorem pres_onSigchld (fuel : Nat) : ∀ (st : St) (this : Option Nat), Pres st (onSigchld fuel st this) := by
  induction fuel with
  | zero => intro st this; unfold onSigchld; exact pres_outOfFuel st
  | succ n ih =>
    intro st this
    unfold onSigchld
    split
    · exact Pres.refl _
    · split
      · exact Pres.refl _
      · split
        · exact (grow_fail _ _).pres
        · exact (pres_procStep _ _).trans (ih _ _)

theorem pres_procSnapLoop (l : List Nat) : ∀ st : St, Pres st (procSnapLoop st l) := by
  induction l with
  | nil => intro st; exact Pres.refl st
  | cons a rest ih =>
    intro st
    unfold procSnapLoop
    split
    · exact Pres.refl _
    · split
      · exact (grow_fail _ _).pres
      · split
        · exact ih _
        · split
          · exact (grow_fail _ _).pres
          · exact (pres_procStep _ _).trans (ih _)

theorem pres_onSigchldAny (fuel : Nat) (st : St) : Pres st (onSigchldAny fuel st) := by
  unfold onSigchldAny
  split
  · split
    · exact (grow_fail _ _).pres
    · exact pres_procSnapLoop _ _
  · exact pres_onSigchld _ _ _

theorem pres_processNotify (st : St) (a : Nat) : Pres st (processNotify st a) := by
  unfold processNotify
  split
  · exact (grow_fail _ _).pres
  · exact (grow_clearNotify _ _).pres.trans (pres_invokeWatch _ _ _ _)

theorem pres_laterCb (st : St) (a : Nat) : Pres st (laterCb st a) := by
  unfold laterCb
  split
  · exact pres_fireUser _ _ _ _
  · split
    · exact pres_processNotify _ _
    · exact Pres.refl _

theorem pres_laterLoopT (l : List Nat) : ∀ st : St, Pres st (laterLoopT st l).1 := by
  induction l with
  | nil => intro st; exact Pres.refl st
  | cons a rest ih =>
    intro st
    unfold laterLoopT
    split
    · exact Pres.refl _
    · split
      · exact (grow_fail _ _).pres
      · split
        · exact (grow_free _ a).pres.trans (ih _)
        · split
          · exact (grow_laterPre st a).pres.trans (pres_laterCb _ a)
          · split
            · exact ((grow_laterPre st a).pres.trans (pres_laterCb _ a)).trans (grow_fail _ _).pres
            · exact (((grow_laterPre st a).pres.trans (pres_laterCb _ a)).trans (grow_free _ a).pres).trans (ih _)

theorem pres_laterLoop (l : List Nat) (st : St) : Pres st (laterLoop st l) := pres_laterLoopT l st

/-- The batch of deferred callbacks that was queued when the iteration began: the loop invokes its members at
    most once each, in queue order (either variant of the source). -/
theorem laterLoopT_sub (l : List Nat) : ∀ st : St, (laterLoopT st l).2.Sublist l := by
  induction l with
  | nil => intro st; exact List.Sublist.refl _
  | cons a rest ih =>
    intro st
    unfold laterLoopT
    split
    · exact List.nil_sublist _
    · split
      · exact List.nil_sublist _
      · split
        · exact (ih _).cons _
        · split
          · exact List.Sublist.cons_cons _ (List.nil_sublist _)
          · split
            · exact List.Sublist.cons_cons _ (List.nil_sublist _)
            · exact List.Sublist.cons_cons _ (ih _)

/-- The loop as shipped. -/
theorem pres_timerLoopT (fuel : Nat) : ∀ (st : St) (now : TV) (this : Option Nat), Pres st (timerLoopT fuel st now this).1 := by
  induction fuel with
  | zero => intro st now this; unfold timerLoopT; exact pres_outOfFuel st
  | succ n ih =>
    intro st now this
    unfold timerLoopT
    split
    · exact Pres.refl _
    · split
      · exact Pres.refl _
      · rename_i a
        split
        · exact (grow_fail _ _).pres
        · split
          · exact Pres.refl _
          · simp only []
            split
            · exact pres_fireUser _ _ _ _
            · split
              · exact (pres_fireUser _ _ _ _).trans (grow_fail _ _).pres
              · exact ((pres_fireUser _ _ _ _).trans (grow_free _ a).pres).trans (ih _ _ _)

theorem suffixFrom_sublist (a : Option Nat) (l : List Nat) : (suffixFrom a l).Sublist l := by
  unfold suffixFrom
  split
  · exact List.nil_sublist _
  · exact (List.dropWhile_suffix _).sublist

theorem pres_with_timers_sublist (st : St) (l : List Nat) (h : l.Sublist st.timers) : Pres st { st with timers := l } :=
  ⟨HeapExt.of_heap_eq rfl, fun q => q.of_sublist (HeapExt.of_heap_eq rfl) h, fun _ hx => Or.inl (h.subset hx)⟩

theorem pres_timerPhaseShipped (fuel : Nat) (st : St) (now : TV) : Pres st (timerPhaseShipped fuel st now) := by
  unfold timerPhaseShipped timerLoop
  simp only []
  split
  · exact (pres_timerLoopT _ _ _ _).trans (pres_with_timers_sublist _ _ (suffixFrom_sublist _ _))
  · exact pres_timerLoopT _ _ _ _

theorem pres_timerPhase (fuel : Nat) (st : St) : Pres st (timerPhase fuel st) := by
  unfold timerPhase
  split
  · exact Pres.refl _
  · split
    · exact (grow_emit _ _).pres.trans (pres_timerLoopPopT _ _ _)
    · exact (grow_emit _ _).pres.trans (pres_timerPhaseShipped _ _ _)

theorem pres_invokeTimers (fuel : Nat) (st : St) : Pres st (invokeTimers fuel st) := by
  unfold invokeTimers
  split
  · exact Pres.refl _
  · exact ((grow_with_laters st []).pres.trans (pres_timerPhase _ _)).trans (pres_laterLoop _ _)

theorem pres_sigCb (fuel : Nat) (st : St) (a : Nat) (s : Int) : Pres st (sigCb fuel st a s) := by
  unfold sigCb
  split
  · split
    · exact pres_fireUser _ _ _ _
    · split
      · exact pres_onSigchldAny _ _
      · split
        · exact (grow_with_stillRunning _ _).pres
        · exact Pres.refl _
  · exact Pres.refl _

theorem pres_sigwatchLoopT (fuel : Nat) : ∀ (st : St) (s : Int) (this : Option Nat), Pres st (sigwatchLoopT fuel st s this).1 := by
  induction fuel with
  | zero => intro st s this; unfold sigwatchLoopT; exact pres_outOfFuel st
  | succ n ih =>
    intro st s this
    unfold sigwatchLoopT
    split
    · exact Pres.refl _
    · split
      · exact Pres.refl _
      · split
        · exact (grow_fail _ _).pres
        · split
          · exact pres_sigCb _ _ _ _
          · split
            · exact (pres_sigCb _ _ _ _).trans (grow_fail _ _).pres
            · exact (pres_sigCb _ _ _ _).trans (ih _ _ _)

theorem pres_sigwatchLoop (fuel : Nat) (st : St) (s : Int) (this : Option Nat) : Pres st (sigwatchLoop fuel st s this) :=
  pres_sigwatchLoopT fuel st s this

theorem pres_sigSnapLoopT (fuel : Nat) (s : Int) (l : List Nat) : ∀ st : St, Pres st (sigSnapLoopT fuel st s l).1 := by
  induction l with
  | nil => intro st; exact Pres.refl st
  | cons a rest ih =>
    intro st
    unfold sigSnapLoopT
    split
    · exact Pres.refl _
    · split
      · exact (grow_fail _ _).pres
      · split
        · exact ih _
        · split
          · exact (grow_fail _ _).pres
          · exact (pres_sigCb _ _ _ _).trans (ih _)

theorem pres_sigDispatch (fuel : Nat) (st : St) (s : Int) : Pres st (sigDispatch fuel st s) := by
  unfold sigDispatch
  split
  · split
    · exact (grow_fail _ _).pres
    · exact pres_sigSnapLoopT _ _ _ _
  · exact pres_sigwatchLoop _ _ _ _

theorem pres_dispatchLoop (fuel : Nat) (pending : List Int) (l : List Int) : ∀ st : St, Pres st (dispatchLoop fuel st pending l) := by
  induction l with
  | nil => intro st; exact Pres.refl st
  | cons s rest ih =>
    intro st
    unfold dispatchLoop
    refine Pres.trans ?_ (ih _)
    split
    · exact pres_sigDispatch _ _ _
    · exact Pres.refl _

theorem grow_with_pendingSig (st : St) (l : List Int) : Grow st { st with pendingSig := l } := Grow.of_eq rfl rfl

theorem pres_dispatchSignals (fuel : Nat) (st : St) : Pres st (dispatchSignals fuel st) := by
  unfold dispatchSignals
  exact (grow_with_pendingSig st []).pres.trans (pres_dispatchLoop _ _ _ _)

theorem pres_ioCb (st : St) (s : PollSlot) : Pres st (ioCb st s) := by
  unfold ioCb
  split
  · split
    · exact (grow_fail _ _).pres
    · exact pres_invokeWatch _ _ _ _
  · exact Pres.refl _

theorem pres_ioLoopT (fuel : Nat) : ∀ (st : St) (idx : Nat), Pres st (ioLoopT fuel st idx).1 := by
  induction fuel with
  | zero => intro st idx; unfold ioLoopT; exact pres_outOfFuel st
  | succ n ih =>
    intro st idx
    unfold ioLoopT
    split
    · exact Pres.refl _
    · split
      · exact Pres.refl _
      · split
        · exact ih _ _
        · split
          · exact ih _ _
          · exact (pres_ioCb _ _).trans (ih _ _)

theorem pres_ioLoop (fuel : Nat) (st : St) (idx : Nat) : Pres st (ioLoop fuel st idx) := pres_ioLoopT fuel st idx

theorem grow_foldl_raiseSig (l : List Int) : ∀ st : St, Grow st (l.foldl raiseSig st) := by
  induction l with
  | nil => intro st; exact Grow.refl st
  | cons s rest ih => intro st; exact (grow_raiseSig st s).trans (ih _)

theorem grow_pollScan (st : St) : Grow st (pollScan st) := Grow.of_eq rfl rfl
theorem grow_with_inpoll (st : St) (l : List Int) : Grow st { st with inpoll := l } := Grow.of_eq rfl rfl

theorem grow_pollRaise (st : St) : Grow st (pollRaise st) := by
  unfold pollRaise
  exact (grow_with_inpoll st []).trans (grow_foldl_raiseSig _ _)

theorem grow_pollTimeout (st : St) (t : Option Int) : Grow st (pollTimeout st t) := by
  unfold pollTimeout
  split
  · exact Grow.of_eq rfl rfl
  · exact Grow.refl _

theorem grow_deliverPending (st : St) : Grow st (deliverPending st) := by
  unfold deliverPending
  split <;> exact Grow.of_eq rfl rfl

theorem grow_ppoll (st : St) (t : Option Int) : Grow st (ppoll st t).1 := by
  unfold ppoll
  split
  · exact (grow_pollScan st).trans (grow_pollRaise _)
  · split
    · exact ((grow_pollScan st).trans (grow_pollRaise _)).trans (grow_emit _ _)
    · split
      · exact ((((grow_pollScan st).trans (grow_pollRaise _)).trans (grow_deliverPending _)).trans (grow_with_errno _ _)).trans (grow_emit _ _)
      · exact (((grow_pollScan st).trans (grow_pollRaise _)).trans (grow_pollTimeout _ _)).trans (grow_emit _ _)

theorem grow_nextTimerMsec (st : St) : Grow st (nextTimerMsec st).1 := by
  unfold nextTimerMsec
  split
  · exact Grow.refl _
  · split
    · exact Grow.refl _
    · split
      · exact (grow_emit _ _).trans (grow_fail _ _)
      · exact grow_emit _ _

theorem pres_tickAfterPoll (fuel : Nat) (st : St) (ret : Option Nat) : Pres st (tickAfterPoll fuel st ret) := by
  unfold tickAfterPoll
  split
  · exact pres_invokeTimers _ _
  · split
    · split
      · exact (pres_invokeTimers _ _).trans (pres_ioLoop _ _ _)
      · exact pres_invokeTimers _ _
    · split
      · exact (pres_invokeTimers _ _).trans (pres_dispatchSignals _ _)
      · exact pres_invokeTimers _ _

theorem pres_tick (fuel : Nat) (st : St) (nohang : Bool) : Pres st (tick fuel st nohang) := by
  unfold tick
  split
  · exact Pres.refl _
  · split
    · exact (grow_nextTimerMsec _).pres
    · split
      · exact ((grow_nextTimerMsec _).trans (grow_ppoll _ _)).pres
      · exact ((grow_nextTimerMsec _).trans (grow_ppoll _ _)).pres.trans (pres_tickAfterPoll _ _ _)

theorem grow_ppollRun (st : St) (t : Option Int) : Grow st (ppollRun st t).1 := by
  unfold ppollRun
  split
  · exact grow_ppoll _ _
  · split
    · exact ((grow_ppoll st t).trans (Grow.of_eq rfl rfl : Grow (ppoll st t).1
        { (ppoll st t).1 with runPolls := (ppoll st t).1.runPolls + 1, stillRunning := false })).trans (grow_emit _ _)
    · exact (grow_ppoll st t).trans (Grow.of_eq rfl rfl : Grow (ppoll st t).1
        { (ppoll st t).1 with runPolls := (ppoll st t).1.runPolls + 1 })

theorem pres_runIter (fuel : Nat) (st : St) : Pres st (runIter fuel st) := by
  unfold runIter
  split
  · exact Pres.refl _
  · split
    · exact (grow_nextTimerMsec _).pres
    · split
      · exact ((grow_nextTimerMsec _).trans (grow_ppollRun _ _)).pres
      · exact ((grow_nextTimerMsec _).trans (grow_ppollRun _ _)).pres.trans (pres_tickAfterPoll _ _ _)

theorem pres_runLoop (fuel : Nat) (n : Nat) : ∀ st : St, Pres st (runLoop fuel n st) := by
  induction n with
  | zero => intro st; unfold runLoop; exact pres_outOfFuel st
  | succ k ih =>
    intro st
    unfold runLoop
    split
    · exact Pres.refl _
    · split
      · exact Pres.refl _
      · exact (pres_runIter _ _).trans (ih _)

theorem grow_run_start (st : St) : Grow st { (watchSignal st 2 0 (-5)).1 with stillRunning := true, inRun := true, runPolls := 0 } :=
  (grow_watchSignal st 2 0 (-5)).trans (Grow.of_eq rfl rfl)

theorem pres_run (fuel : Nat) (st : St) : Pres st (run fuel st) := by
  unfold run
  split
  · exact Pres.refl _
  · split
    · exact (grow_run_start st).pres.trans (pres_runLoop _ _ _)
    · exact (((grow_run_start st).pres.trans (pres_runLoop _ _ _)).trans (grow_with_inRun _ _).pres).trans
        (pres_watchCancel _ _)

theorem grow_destroyNotify (st : St) (a : Nat) : Grow st (destroyNotify st a) := by
  unfold destroyNotify
  split
  · exact grow_notify _ _ _
  · exact Grow.refl _

theorem grow_destroyList (t : WType) (l : List Nat) : ∀ st : St, Grow st (destroyList st t l) := by
  induction l with
  | nil => intro st; exact Grow.refl st
  | cons a rest ih =>
    intro st
    unfold destroyList
    split
    · exact Grow.refl _
    · split
      · exact grow_fail _ _
      · exact (((grow_destroyNotify _ _).trans (grow_cancelHook _ _ _)).trans (grow_free _ a)).trans (ih _)

theorem pres_destroy (st : St) : Pres st (destroy st) := by
  unfold destroy
  split
  · exact Pres.refl _
  · have hc : Pres st (cancelSigchld st) := by
      unfold cancelSigchld
      split
      · exact pres_watchCancel _ _
      · exact Pres.refl _
    have hd : ∀ (t : WType) (s : St), Pres s (destroyOf t s) := fun t s => (grow_destroyList t _ s).pres
    have hf : ∀ s : St, Pres s (destroyFinish s) := by
      intro s
      unfold destroyFinish
      split
      · exact ⟨HeapExt.of_heap_eq rfl, fun q => q.of_sublist (HeapExt.of_heap_eq rfl) (List.nil_sublist _),
          fun _ h => by cases h⟩
      · exact Pres.refl _
    exact (((((hc.trans (hd _ _)).trans (hd _ _)).trans (hd _ _)).trans (hd _ _)).trans (hd _ _)).trans (hf _)

theorem pres_applyOp' (st : St) (op : Op) : Pres st (applyOp' st op) := by
  unfold applyOp'
  split
  · exact Pres.refl _
  · split
    · exact Pres.refl _
    · exact Pres.refl _
    · exact Pres.refl _
    · split
      · exact Pres.refl _
      · split
        · exact Grow.pres (Grow.of_eq rfl rfl)
        · exact pres_runAct _ _
        · exact Grow.pres (Grow.of_eq rfl rfl)
        · exact Grow.pres (Grow.of_eq rfl rfl)
        · exact Grow.pres (Grow.of_eq rfl rfl)
        · exact (grow_with_stillRunning _ _).pres.trans (pres_tick _ _ _)
        · exact (grow_with_stillRunning _ _).pres.trans (pres_tick _ _ _)
        · exact pres_run _ _
        · exact pres_destroy _
        · exact Pres.refl _

theorem pres_applyOp (st : St) (op : Op) : Pres st (applyOp st op) := by
  unfold applyOp
  exact (Pres.trans (Grow.pres (Grow.of_eq rfl rfl : Grow st { st with log := [] })) (pres_applyOp' _ _))

theorem grow_with_log (st : St) (l : List Ev) : Grow st { st with log := l } := Grow.of_eq rfl rfl

theorem qinv_build (cfg : Config) : QInv (build cfg) := by
  have h0 : QInv (build0 cfg) := ⟨fun a h => (by cases h), List.Pairwise.nil⟩
  unfold build
  exact (((grow_watchIo _ _ _ _ _).trans (grow_watchSignal _ _ _ _)).trans (grow_with_log _ _)).pres.qinv h0

/-- In every state any history can reach — under any variant of the source — the timer queue is
    ordered by (deadline, registration). -/
theorem qinv_runOps (cfg : Config) (ops : List Op) : QInv (runOps cfg ops) := by
  unfold runOps
  have : ∀ (l : List Op) (st : St), QInv st → QInv (l.foldl applyOp st) := by
    intro l
    induction l with
    | nil => intro st h; exact h
    | cons o rest ih => intro st h; exact ih _ ((pres_applyOp st o).qinv h)
  exact this ops _ (qinv_build cfg)

/-! ### 6. destroy_watchlist and tickit_watch_cancel, exactly -/

namespace St
theorem log_fail (st : St) (w : Ub) : (st.fail w).log = st.log := by unfold fail; split <;> rfl
theorem log_setW (st : St) (a : Nat) (w : Watch) : (st.setW a w).log = st.log := rfl

theorem log_free (st : St) (a : Nat) : (st.free a).log = st.log := by
  unfold free; split
  · rfl
  · exact log_fail _ _

theorem getW_free_ne (st : St) (a b : Nat) (h : a ≠ b) : (st.free a).getW b = st.getW b := by
  unfold free; split
  · exact getW_setW_ne _ _ _ _ h
  · exact getW_fail _ _ _

theorem live_setW_ne (st : St) (a b : Nat) (w : Watch) (h : a ≠ b) : (st.setW a w).live b = st.live b := by
  simp only [live, setW, List.getElem?_set, if_neg h]

theorem live_fail (st : St) (w : Ub) (b : Nat) : (st.fail w).live b = st.live b := by
  unfold live; rw [heap_fail]

theorem live_free_ne (st : St) (a b : Nat) (h : a ≠ b) : (st.free a).live b = st.live b := by
  unfold free; split
  · exact live_setW_ne _ _ _ _ h
  · exact live_fail _ _ _

theorem live_free_self (st : St) (a : Nat) (h : st.live a = true) : (st.free a).live a = false := by
  have hlt := live_lt h
  unfold free
  rw [if_pos h]
  simp only [live, setW, List.getElem?_set, if_true, if_pos hlt]
  rfl

theorem status_free_of_live (st : St) (a : Nat) (h : st.live a = true) : (st.free a).status = st.status := by
  unfold free; rw [if_pos h]; rfl
end St

theorem heap_cancelHook (st : St) (t : WType) (evi : Nat) : (cancelHook st t evi).heap = st.heap := by
  unfold cancelHook
  split
  · rfl
  · unfold evloopCancelSignal
    simp only []
    split
    · rfl
    · split
      · split <;> rfl
      · rfl
  · rfl

theorem log_cancelHook (st : St) (t : WType) (evi : Nat) : (cancelHook st t evi).log = st.log := by
  unfold cancelHook
  split
  · rfl
  · unfold evloopCancelSignal
    simp only []
    split
    · rfl
    · split
      · split <;> rfl
      · rfl
  · rfl

theorem getW_of_heap_eq {st st' : St} (h : st'.heap = st.heap) (a : Nat) : st'.getW a = st.getW a := by
  unfold St.getW; rw [h]
theorem live_of_heap_eq {st st' : St} (h : st'.heap = st.heap) (a : Nat) : st'.live a = st.live a := by
  unfold St.live; rw [h]

theorem heap_notify (st : St) (a flags : Nat) : (notify st a flags).heap = st.heap := by
  unfold notify; simp only []; split <;> rfl

theorem filterMap_congr' {α β : Type} (f g : α → Option β) : ∀ (l : List α), (∀ x ∈ l, f x = g x) → l.filterMap f = l.filterMap g := by
  intro l
  induction l with
  | nil => intro _; rfl
  | cons a r ih =>
    intro h
    simp only [List.filterMap_cons]
    rw [h a List.mem_cons_self, ih (fun x hx => h x (List.mem_cons_of_mem a hx))]

/-- The notification `destroy_watchlist` owes the watch at `a`. -/
def destroyNote (st : St) (a : Nat) : Option Ev :=
  if (st.getW a).flags &&& (BIND_UNBIND ||| BIND_DESTROY) ≠ 0 ∧ (st.getW a).slot ≥ 0 then
    some (.cb (st.getW a).slot (EV_UNBIND ||| EV_DESTROY) .none)
  else none

theorem log_destroyNotify (st : St) (a : Nat) :
    (destroyNotify st a).log = (match destroyNote st a with | some e => [e] | none => []) ++ st.log := by
  unfold destroyNotify destroyNote notify
  by_cases h1 : (st.getW a).flags &&& (BIND_UNBIND ||| BIND_DESTROY) ≠ 0
  · by_cases h2 : (st.getW a).slot ≥ 0
    · simp [h1, h2, St.emit]
    · simp [h1, h2]
  · simp [h1]

theorem heap_destroyNotify (st : St) (a : Nat) : (destroyNotify st a).heap = st.heap := by
  unfold destroyNotify; split
  · exact heap_notify _ _ _
  · rfl

/-- `destroy_watchlist` over a list of distinct live watches: when it runs to completion, the log gains
    exactly one UNBIND|DESTROY notification for every watch whose stored flags ask for one, in list
    order, and nothing else. -/
theorem destroyList_log (t : WType) : ∀ (l : List Nat) (st : St), l.Nodup → st.allLive l = true →
    (destroyList st t l).status = .ok →
    (destroyList st t l).log = (l.filterMap (destroyNote st)).reverse ++ st.log := by
  intro l
  induction l with
  | nil => intro st _ _ _; simp [destroyList]
  | cons a rest ih =>
    intro st hnd hlive hok
    rw [List.nodup_cons] at hnd
    simp only [St.allLive, List.all_cons, Bool.and_eq_true] at hlive
    unfold destroyList at hok ⊢
    split
    · rename_i h; exact St.not_ok_absurd h (by
        rw [if_pos h] at hok; exact hok)
    · rename_i hst
      rw [if_neg hst] at hok
      split
      · rename_i h; rw [hlive.1] at h; cases h
      · rename_i hl
        rw [if_neg hl] at hok
        -- the state after this element
        have hheap : ((cancelHook (destroyNotify st a) t (st.getW a).evi)).heap = st.heap := by
          rw [heap_cancelHook, heap_destroyNotify]
        have hlv : (cancelHook (destroyNotify st a) t (st.getW a).evi).live a = true := by
          rw [live_of_heap_eq hheap]; exact hlive.1
        have hrest : ∀ b ∈ rest, ((cancelHook (destroyNotify st a) t (st.getW a).evi).free a).getW b = st.getW b := by
          intro b hb
          have hne : a ≠ b := fun h => hnd.1 (h ▸ hb)
          rw [St.getW_free_ne _ _ _ hne, getW_of_heap_eq hheap]
        have hrl : ((cancelHook (destroyNotify st a) t (st.getW a).evi).free a).allLive rest = true := by
          simp only [St.allLive, List.all_eq_true] at hlive ⊢
          intro b hb
          have hne : a ≠ b := fun h => hnd.1 (h ▸ hb)
          rw [St.live_free_ne _ _ _ hne, live_of_heap_eq hheap]
          exact hlive.2 b hb
        have hnote : rest.filterMap (destroyNote ((cancelHook (destroyNotify st a) t (st.getW a).evi).free a)) =
            rest.filterMap (destroyNote st) := by
          apply filterMap_congr'
          intro b hb
          unfold destroyNote
          rw [hrest b hb]
        rw [ih _ hnd.2 hrl hok, hnote, St.log_free, log_cancelHook, log_destroyNotify]
        simp only [List.filterMap_cons]
        cases destroyNote st a <;> simp

theorem not_mem_after_first (a : Nat) : ∀ l : List Nat, l.Nodup → a ∉ (l.dropWhile (· ≠ a)).drop 1 := by
  intro l
  induction l with
  | nil => intro _; simp
  | cons x xs ih =>
    intro hnd
    rw [List.nodup_cons] at hnd
    by_cases hx : x = a
    · subst hx
      simp only [List.dropWhile_cons, ne_eq, not_true_eq_false, decide_false, Bool.false_eq_true, if_false,
        List.drop_succ_cons, List.drop_zero]
      exact hnd.1
    · simp only [List.dropWhile_cons, ne_eq, hx, not_false_eq_true, decide_true, if_true]
      exact ih hnd.2

theorem lists_free (st : St) (a : Nat) (t : WType) : listOf (st.free a) t = listOf st t := by
  unfold St.free
  split
  · cases t <;> rfl
  · unfold St.fail; split <;> (cases t <;> rfl)

theorem listOf_setListOf (st : St) (t : WType) (l : List Nat) (h : t ≠ .none) : listOf (setListOf st t l) t = l := by
  cases t <;> first | rfl | exact absurd rfl h

/-- `tickit_watch_cancel` on a live timer or deferred callback that is linked in its list (distinct live
    watches): the watch leaves the list, is freed, and the log gains exactly the UNBIND notification it
    asked for — one if its flags contain UNBIND, none otherwise. -/
theorem watchCancel_exact (st : St) (a : Nat) (hok : st.status = .ok) (hl : st.live a = true)
    (ht : (st.getW a).type = .timer ∨ (st.getW a).type = .later)
    (hall : st.allLive (listOf st (st.getW a).type) = true) (hnd : (listOf st (st.getW a).type).Nodup)
    (hin : a ∈ listOf st (st.getW a).type) :
    (watchCancel st a).status = .ok ∧ (watchCancel st a).live a = false ∧
    listOf (watchCancel st a) (st.getW a).type = (listOf st (st.getW a).type).erase a ∧
    (watchCancel st a).log = (if (st.getW a).flags &&& BIND_UNBIND ≠ 0 ∧ (st.getW a).slot ≥ 0
               then [Ev.cb (st.getW a).slot EV_UNBIND .none] else []) ++ st.log := by
  have hisok : st.isOk = true := (St.isOk_iff st).mpr hok
  have htn : (st.getW a).type ≠ .none := by
    cases ht with
    | inl h => rw [h]; decide
    | inr h => rw [h]; decide
  have hpre : st.allLive ((listOf st (st.getW a).type).takeWhile (· ≠ a)) = true := by
    simp only [St.allLive, List.all_eq_true] at hall ⊢
    intro b hb
    exact hall b ((List.takeWhile_sublist _).subset hb)
  have hcont : (listOf st (st.getW a).type).contains a = true := by
    simp only [List.contains_eq_mem, decide_eq_true_eq]; exact hin
  have hhook : ∀ s : St, cancelHook s (st.getW a).type (st.getW a).evi = s := by
    intro s
    unfold cancelHook
    cases ht with
    | inl h => rw [h]
    | inr h => rw [h]
  -- the state after unlinking and notifying
  have hset_heap : (setListOf st (st.getW a).type ((listOf st (st.getW a).type).erase a)).heap = st.heap := by
    cases (st.getW a).type <;> rfl
  have hset_log : (setListOf st (st.getW a).type ((listOf st (st.getW a).type).erase a)).log = st.log := by
    cases (st.getW a).type <;> rfl
  have hset_status : (setListOf st (st.getW a).type ((listOf st (st.getW a).type).erase a)).status = .ok := by
    cases (st.getW a).type <;> exact hok
  have hset_list : listOf (setListOf st (st.getW a).type ((listOf st (st.getW a).type).erase a)) (st.getW a).type
      = (listOf st (st.getW a).type).erase a := listOf_setListOf _ _ _ htn
  generalize hs1 : setListOf st (st.getW a).type ((listOf st (st.getW a).type).erase a) = s1 at *
  have hn_heap : (cancelNotify s1 a (st.getW a)).heap = st.heap := by
    unfold cancelNotify; split
    · rw [heap_notify]; exact hset_heap
    · exact hset_heap
  have hn_status : (cancelNotify s1 a (st.getW a)).status = .ok := by
    unfold cancelNotify notify; simp only []
    split
    · split <;> exact hset_status
    · exact hset_status
  have hn_list : listOf (cancelNotify s1 a (st.getW a)) (st.getW a).type = (listOf st (st.getW a).type).erase a := by
    unfold cancelNotify notify; simp only []
    split
    · split
      · rw [← hset_list]; cases (st.getW a).type <;> rfl
      · exact hset_list
    · exact hset_list
  have hn_log : (cancelNotify s1 a (st.getW a)).log =
      (if (st.getW a).flags &&& BIND_UNBIND ≠ 0 ∧ (s1.getW a).slot ≥ 0
               then [Ev.cb (s1.getW a).slot EV_UNBIND .none] else []) ++ st.log := by
    unfold cancelNotify notify; simp only []
    by_cases h1 : (st.getW a).flags &&& BIND_UNBIND ≠ 0
    · by_cases h2 : (s1.getW a).slot ≥ 0
      · simp [h1, h2, St.emit, hset_log]
      · simp [h1, h2, hset_log]
    · simp [h1, hset_log]
  have hgw : s1.getW a = st.getW a := getW_of_heap_eq hset_heap a
  rw [hgw] at hn_log
  generalize hs2 : cancelNotify s1 a (st.getW a) = s2 at *
  have hlive2 : s2.live a = true := by rw [live_of_heap_eq hn_heap]; exact hl
  have hfreeok : (s2.free a).isOk = true := by
    rw [St.isOk_iff, St.status_free_of_live _ _ hlive2]; exact hn_status
  have hrestlive : (s2.free a).allLive (((listOf st (st.getW a).type).dropWhile (· ≠ a)).drop 1) = true := by
    simp only [St.allLive, List.all_eq_true] at hall ⊢
    intro b hb
    have hbl : b ∈ listOf st (st.getW a).type :=
      (List.dropWhile_sublist _).subset ((List.drop_sublist 1 _).subset hb)
    have hab : a ≠ b := by
      intro h; subst h
      exact not_mem_after_first a _ hnd hb
    rw [St.live_free_ne _ _ _ hab, live_of_heap_eq hn_heap]; exact hall b hbl
  have hres : watchCancel st a = s2.free a := by
    rw [watchCancel_eq0 st a (by rcases ht with h | h <;> rw [h] <;> decide)]
    unfold watchCancel0
    simp only [hisok, hl, htn, hpre, hcont, Bool.not_true, Bool.false_eq_true, if_false]
    unfold cancelFound
    rw [hhook, hs1, hs2]
    unfold cancelRest
    simp only [hfreeok, hrestlive, Bool.not_true, Bool.false_eq_true, if_false]
  rw [hres]
  refine ⟨?_, St.live_free_self _ _ hlive2, ?_, ?_⟩
  · exact (St.isOk_iff _).mp hfreeok
  · rw [lists_free]; exact hn_list
  · rw [St.log_free]; exact hn_log

/-! ### 6b. order for the timer loop as shipped -/

theorem succOf_rel {R : Nat → Nat → Prop} (a b : Nat) : ∀ l : List Nat, l.Pairwise R → succOf a l = some b → R a b := by
  intro l
  induction l with
  | nil => intro _ h; simp [succOf] at h
  | cons x rest ih =>
    intro hp h
    rw [List.pairwise_cons] at hp
    simp only [succOf] at h
    split at h
    · rename_i hx
      subst hx
      cases rest with
      | nil => simp at h
      | cons y ys =>
        simp only [List.head?_cons, Option.some.injEq] at h
        subst h
        exact hp.1 y List.mem_cons_self
    · exact ih hp.2 h

theorem succOf_mem (a b : Nat) : ∀ l : List Nat, succOf a l = some b → b ∈ l := by
  intro l
  induction l with
  | nil => intro h; simp [succOf] at h
  | cons x rest ih =>
    intro h
    simp only [succOf] at h
    split at h
    · cases rest with
      | nil => simp at h
      | cons y ys =>
        simp only [List.head?_cons, Option.some.injEq] at h
        subst h
        exact List.mem_cons_of_mem _ List.mem_cons_self
    · exact List.mem_cons_of_mem _ (ih h)

/-- `(d, a)` is not after `f` in key order. -/
def keyLe (d : TV) (a : Nat) (f : Fired) : Prop :=
  (f.a = a ∧ f.due = d) ∨ (f.due.gt d = true ∨ (d = f.due ∧ a < f.a))

theorem lt_of_key_lt_le {x f : Fired} {d : TV} {b : Nat}
    (h1 : d.gt x.due = true ∨ (x.due = d ∧ x.a < b)) (h2 : keyLe d b f) : Fired.lt x f := by
  unfold Fired.lt
  cases h2 with
  | inl h => rw [h.1, h.2]; exact h1
  | inr h =>
    cases h with
    | inl hgt =>
      cases h1 with
      | inl h1 => exact Or.inl (TV.gt_trans hgt h1)
      | inr h1 => rw [h1.1]; exact Or.inl hgt
    | inr heq =>
      cases h1 with
      | inl h1 => rw [← heq.1]; exact Or.inl h1
      | inr h1 => exact Or.inr ⟨h1.1.trans heq.1, Nat.lt_trans h1.2 heq.2⟩

theorem lists_free_timers (st : St) (a : Nat) : (st.free a).timers = st.timers := (grow_free st a).timers

/-- `tickit_evloop_invoke_timers` as shipped: the timers one run invokes are strictly increasing in
    (deadline, registration), whatever the callbacks register or cancel. -/
theorem timerLoopT_ordered (fuel : Nat) : ∀ (st : St) (now : TV) (this : Option Nat), QInv st →
    (∀ b, this = some b → b ∈ st.timers) →
    (timerLoopT fuel st now this).2.2.Pairwise Fired.lt ∧
    ∀ f ∈ (timerLoopT fuel st now this).2.2, ∀ b, this = some b → keyLe (dueOf st b) b f := by
  induction fuel with
  | zero => intro st now this _ _; simp [timerLoopT]
  | succ n ih =>
    intro st now this q hin
    unfold timerLoopT
    split
    · simp
    · split
      · simp
      · rename_i a
        have ha : a ∈ st.timers := hin a rfl
        split
        · simp
        · split
          · simp
          · simp only []
            have hsingle : ∀ f ∈ [(⟨a, (st.getW a).slot, (st.getW a).due⟩ : Fired)], ∀ b, some a = some b → keyLe (dueOf st b) b f := by
              intro f hf b hb
              simp only [List.mem_singleton] at hf
              simp only [Option.some.injEq] at hb
              subst hf hb
              exact Or.inl ⟨rfl, rfl⟩
            split
            · exact ⟨List.pairwise_singleton _ _, hsingle⟩
            · split
              · exact ⟨List.pairwise_singleton _ _, hsingle⟩
              · have p1 := pres_fireUser st (st.getW a).slot (EV_FIRE ||| EV_UNBIND) .none
                generalize fireUser st (st.getW a).slot (EV_FIRE ||| EV_UNBIND) .none = st1 at p1 ⊢
                have q1 : QInv st1 := p1.qinv q
                have p2 := (grow_free st1 a).pres
                have q2 : QInv (st1.free a) := p2.qinv q1
                have hin2 : ∀ b, succOf a st1.timers = some b → b ∈ (st1.free a).timers := by
                  intro b hb; rw [lists_free_timers]; exact succOf_mem a b _ hb
                obtain ⟨hP, hK⟩ := ih (st1.free a) now (succOf a st1.timers) q2 hin2
                -- the first invoked timer is before everything the rest of the run invokes
                have hfirst : ∀ f ∈ (timerLoopT n (st1.free a) now (succOf a st1.timers)).2.2,
                    Fired.lt ⟨a, (st.getW a).slot, (st.getW a).due⟩ f := by
                  intro f hf
                  cases hs : succOf a st1.timers with
                  | none =>
                    rw [hs] at hf
                    cases n with
                    | zero => simp [timerLoopT] at hf
                    | succ m =>
                      unfold timerLoopT at hf
                      split at hf
                      · cases hf
                      · cases hf
                  | some b =>
                    have hk := hK f hf b hs
                    have hrel : keyLt st1 a b := succOf_rel a b _ q1.ordered hs
                    have hb1 : b < st1.heap.length := q1.alloc b (succOf_mem a b _ hs)
                    have hd_b : dueOf (st1.free a) b = dueOf st1 b := p2.ext.due b hb1
                    have hd_a : dueOf st1 a = dueOf st a := p1.ext.due a (q.alloc a ha)
                    rw [hd_b] at hk
                    apply lt_of_key_lt_le (d := dueOf st1 b) (b := b) _ hk
                    unfold keyLt at hrel
                    rw [hd_a] at hrel
                    exact hrel
                refine ⟨?_, ?_⟩
                · rw [List.pairwise_cons]
                  exact ⟨hfirst, hP⟩
                · intro f hf b hb
                  simp only [Option.some.injEq] at hb
                  subst hb
                  simp only [List.mem_cons] at hf
                  cases hf with
                  | inl h => subst h; exact Or.inl ⟨rfl, rfl⟩
                  | inr h =>
                    have := hfirst f h
                    unfold Fired.lt at this
                    exact Or.inr this

/-! ### 7. C18: the wait, errno, poll slots -/

theorem cfg_raiseSig (st : St) (s : Int) : (raiseSig st s).cfg = st.cfg := by
  unfold raiseSig
  split
  · rfl
  · split
    · rfl
    · split
      · unfold sigRecord; split <;> rfl
      · split <;> rfl

/-- Nothing but `evloop_init`/`evloop_destroy` moves `signal_observer`. -/
theorem observer_raiseSig (st : St) (s : Int) : (raiseSig st s).observer = st.observer := by
  unfold raiseSig
  split
  · rfl
  · split
    · rfl
    · split
      · unfold sigRecord; split <;> (rename_i h; simp only [h])
      · split <;> rfl

theorem observer_foldl_raiseSig (l : List Int) : ∀ st : St, (l.foldl raiseSig st).observer = st.observer := by
  induction l with
  | nil => intro st; rfl
  | cons s rest ih => intro st; simp only [List.foldl_cons]; rw [ih, observer_raiseSig]

theorem observer_pollRaise (st : St) : (pollRaise st).observer = st.observer := by
  unfold pollRaise; rw [observer_foldl_raiseSig]

theorem cfg_deliverPending (st : St) : (deliverPending st).cfg = st.cfg := by
  unfold deliverPending; split <;> rfl

theorem kpending_deliverPending (st : St) : (deliverPending st).kpending = [] := by
  unfold deliverPending; split <;> rfl

theorem cfg_foldl_raiseSig (l : List Int) : ∀ st : St, (l.foldl raiseSig st).cfg = st.cfg := by
  induction l with
  | nil => intro st; rfl
  | cons s rest ih => intro st; simp only [List.foldl_cons]; rw [ih, cfg_raiseSig]

theorem cfg_pollRaise (st : St) : (pollRaise st).cfg = st.cfg := by
  unfold pollRaise; rw [cfg_foldl_raiseSig]

theorem cfg_ppoll (st : St) (t : Option Int) : (ppoll st t).1.cfg = st.cfg := by
  unfold ppoll
  split
  · rw [cfg_pollRaise]; rfl
  · split
    · show (pollRaise (pollScan st)).cfg = _; rw [cfg_pollRaise]; rfl
    · split
      · show (deliverPending (pollRaise (pollScan st))).cfg = _; rw [cfg_deliverPending, cfg_pollRaise]; rfl
      · show (pollTimeout (pollRaise (pollScan st)) t).cfg = _
        unfold pollTimeout
        split
        · show (pollRaise (pollScan st)).cfg = _; rw [cfg_pollRaise]; rfl
        · rw [cfg_pollRaise]; rfl

theorem cfg_nextTimerMsec (st : St) : (nextTimerMsec st).1.cfg = st.cfg := by
  unfold nextTimerMsec
  split
  · rfl
  · split
    · rfl
    · split
      · rw [St.cfg_fail]; rfl
      · rfl

theorem observer_nextTimerMsec (st : St) : (nextTimerMsec st).1.observer = st.observer := by
  unfold nextTimerMsec
  split
  · rfl
  · split
    · rfl
    · split
      · unfold St.fail; split <;> rfl
      · rfl

theorem mem_foldl_setInsert (l : List Int) : ∀ (acc : List Int) (s : Int),
    (s ∈ l ∨ s ∈ acc) → s ∈ l.foldl (fun acc s => setInsert s acc) acc := by
  induction l with
  | nil => intro acc s h; cases h with
    | inl h => cases h
    | inr h => exact h
  | cons x rest ih =>
    intro acc s h
    simp only [List.foldl_cons]
    apply ih
    cases h with
    | inl h =>
      simp only [List.mem_cons] at h
      cases h with
      | inl h =>
        subst h; right
        unfold setInsert
        split
        · rename_i hc; simpa using hc
        · exact List.mem_cons_self
      | inr h => exact Or.inl h
    | inr h =>
      right
      unfold setInsert
      split
      · exact h
      · exact List.mem_cons_of_mem _ h

/-- The wait fails with `EINTR` exactly in the third case of the harness's `ppoll`; then `errno` is
    `EINTR` and nothing stays pending in the kernel. -/
theorem ppoll_eintr_errno (st : St) (t : Option Int) (h : (ppoll st t).2 = none) :
    (ppoll st t).1.errno = EINTR ∧ (ppoll st t).1.kpending = [] := by
  unfold ppoll at h ⊢
  split at h
  · cases h
  · split at h
    · cases h
    · split at h
      · rename_i h1 h2 h3
        rw [if_neg h1, if_neg h2, if_pos h3]
        refine ⟨rfl, ?_⟩
        show (deliverPending (pollRaise (pollScan st))).kpending = []
        exact kpending_deliverPending _
      · cases h

/-- … and, when `signal_observer` points at the loop that waits, every signal that was pending has been
    recorded by the handler in this loop's `pending_signals`. -/
theorem ppoll_eintr (st : St) (t : Option Int) (ho : st.observer = .self) (h : (ppoll st t).2 = none) :
    (ppoll st t).1.errno = EINTR ∧ (ppoll st t).1.kpending = [] ∧
    ∀ s ∈ (pollRaise (pollScan st)).kpending, s ∈ (ppoll st t).1.pendingSig := by
  refine ⟨(ppoll_eintr_errno st t h).1, (ppoll_eintr_errno st t h).2, ?_⟩
  unfold ppoll at h ⊢
  split at h
  · cases h
  · split at h
    · cases h
    · split at h
      · rename_i h1 h2 h3
        rw [if_neg h1, if_neg h2, if_pos h3]
        intro s hs
        show s ∈ (deliverPending (pollRaise (pollScan st))).pendingSig
        have hobs : (pollRaise (pollScan st)).observer = .self := by rw [observer_pollRaise]; exact ho
        unfold deliverPending
        rw [hobs]
        exact mem_foldl_setInsert _ _ _ (Or.inl hs)
      · cases h

/-- When `signal_observer` does not point at the loop that waits (another toplevel instance was built
    first, or the observer has been destroyed), an interrupted wait records nothing in this loop. -/
theorem ppoll_eintr_not_observer (st : St) (t : Option Int) (ho : st.observer ≠ .self) (h : (ppoll st t).2 = none) :
    (ppoll st t).1.pendingSig = (pollRaise (pollScan st)).pendingSig := by
  unfold ppoll at h ⊢
  split at h
  · cases h
  · split at h
    · cases h
    · split at h
      · rename_i h1 h2 h3
        rw [if_neg h1, if_neg h2, if_pos h3]
        show (deliverPending (pollRaise (pollScan st))).pendingSig = _
        have hobs : (pollRaise (pollScan st)).observer = st.observer := by rw [observer_pollRaise]; rfl
        unfold deliverPending
        split
        · rename_i hh; rw [hobs] at hh; exact absurd hh ho
        · rfl
        · rfl
      · cases h

/-- With `errno` read right after the wait (the repaired `evloop_run`), an interrupted wait always
    leads to `dispatch_signals`, whatever the timer and deferred callbacks did. -/
theorem tickAfterPoll_eintr_saved (fuel : Nat) (st : St) (hs : st.cfg.errnoSaved = true) (he : st.errno = EINTR)
    (hok : (invokeTimers fuel st).isOk = true) :
    tickAfterPoll fuel st none = dispatchSignals fuel (invokeTimers fuel st) := by
  unfold tickAfterPoll errnoSeen
  simp only [hok, Bool.not_true, Bool.false_eq_true, if_false, hs, if_true, he]

/-- As shipped, it depends on what the callbacks left in `errno`. -/
theorem tickAfterPoll_eintr_shipped (fuel : Nat) (st : St) (hs : st.cfg.errnoSaved = false)
    (hok : (invokeTimers fuel st).isOk = true) :
    tickAfterPoll fuel st none =
      if (invokeTimers fuel st).errno = EINTR then dispatchSignals fuel (invokeTimers fuel st) else invokeTimers fuel st := by
  unfold tickAfterPoll errnoSeen
  simp only [hok, Bool.not_true, Bool.false_eq_true, if_false, hs]

/-- One iteration, repaired: when the wait is interrupted, signals are dispatched. -/
theorem tick_eintr_dispatches (fuel : Nat) (st : St) (nohang : Bool) (hs : st.cfg.errnoSaved = true)
    (hok0 : st.isOk = true) (hok1 : (nextTimerMsec st).1.isOk = true)
    (hok2 : (ppoll (nextTimerMsec st).1 (tickTimeout nohang (nextTimerMsec st).2)).1.isOk = true)
    (hint : (ppoll (nextTimerMsec st).1 (tickTimeout nohang (nextTimerMsec st).2)).2 = none)
    (hok3 : (invokeTimers fuel (ppoll (nextTimerMsec st).1 (tickTimeout nohang (nextTimerMsec st).2)).1).isOk = true) :
    tick fuel st nohang =
      dispatchSignals fuel (invokeTimers fuel (ppoll (nextTimerMsec st).1 (tickTimeout nohang (nextTimerMsec st).2)).1) := by
  unfold tick
  simp only [hok0, hok1, hok2, Bool.not_true, Bool.false_eq_true, if_false]
  rw [hint]
  apply tickAfterPoll_eintr_saved
  · rw [cfg_ppoll, cfg_nextTimerMsec]; exact hs
  · exact (ppoll_eintr_errno _ _ hint).1
  · exact hok3

/-- `evloop_io` with the repair: the slot it hands out has nothing reported. -/
theorem evloopIo_clears (st : St) (fd : Int) (cond : Nat) (w : Nat) (h : st.cfg.reventsCleared = true) :
    ((evloopIo st fd cond w).1.pfd.getD (evloopIo st fd cond w).2 default).revents = some 0 := by
  unfold evloopIo
  split
  · rename_i idx hfree
    have hlt : idx < st.pfd.length := by
      have : ∀ (l : List PollSlot) (i j : Nat), findFreeSlot l i = some j → i ≤ j ∧ j < i + l.length := by
        intro l
        induction l with
        | nil => intro i j hh; simp [findFreeSlot] at hh
        | cons x xs ih =>
          intro i j hh
          simp only [findFreeSlot] at hh
          split at hh
          · cases hh; simp
          · have := ih (i + 1) j hh
            simp only [List.length_cons]; omega
      have := this st.pfd 0 idx hfree
      omega
    simp only [h, if_true, List.getD_eq_getElem?_getD, List.getElem?_set, hlt, Option.getD_some]
  · simp only [h, if_true, List.getD_eq_getElem?_getD]
    rw [List.getElem?_append_right (Nat.le_refl _)]
    simp

/-- The kernel's report: after the scan every entry holds exactly what `pollRevents` computes for it. -/
theorem pollScan_exact (st : St) (idx : Nat) (h : idx < st.pfd.length) :
    ((pollScan st).pfd.getD idx default).revents = some (pollRevents st (st.pfd.getD idx default)) := by
  unfold pollScan
  simp only [List.getD_eq_getElem?_getD, List.getElem?_map]
  have : st.pfd[idx]? = some st.pfd[idx] := List.getElem?_eq_getElem h
  rw [this]
  simp

/-- A cancelled entry (`fd == -1`) is skipped by the descriptor loop. -/
theorem ioLoop_skips_cancelled (fuel : Nat) (st : St) (idx : Nat) (hok : st.isOk = true) (hlt : idx < st.pfd.length)
    (hfd : (st.pfd.getD idx default).fd = -1) : ioLoop (fuel + 1) st idx = ioLoop fuel st (idx + 1) := by
  unfold ioLoop
  rw [ioLoopT]
  simp only [hok, Bool.not_true, Bool.false_eq_true, if_false, hfd, if_true]
  rw [if_neg (by omega)]

/-- An entry with nothing reported is skipped. -/
theorem ioLoop_skips_quiet (fuel : Nat) (st : St) (idx : Nat) (hok : st.isOk = true) (hlt : idx < st.pfd.length)
    (hfd : (st.pfd.getD idx default).fd ≠ -1) (hr : (st.pfd.getD idx default).revents = some 0) :
    ioLoop (fuel + 1) st idx = ioLoop fuel st (idx + 1) := by
  unfold ioLoop
  rw [ioLoopT]
  have : slotRevents (st.pfd.getD idx default) = 0 := by unfold slotRevents; rw [hr]
  simp only [hok, Bool.not_true, Bool.false_eq_true, if_false, hfd, this, if_true]
  rw [if_neg (by omega)]

/-- An entry with something reported has its watch invoked with exactly the translation of what is
    stored in the entry. -/
theorem ioLoop_invokes (fuel : Nat) (st : St) (idx : Nat) (a : Nat) (hok : st.isOk = true) (hlt : idx < st.pfd.length)
    (hfd : (st.pfd.getD idx default).fd ≠ -1) (hr : slotRevents (st.pfd.getD idx default) ≠ 0)
    (hw : (st.pfd.getD idx default).watch = some a) (hl : st.live a = true) :
    ioLoop (fuel + 1) st idx =
      ioLoop fuel (invokeWatch st a EV_FIRE (.io (st.getW a).fd (condOfRevents (slotRevents (st.pfd.getD idx default))))) (idx + 1) := by
  unfold ioLoop
  rw [ioLoopT]
  simp only [hok, Bool.not_true, Bool.false_eq_true, if_false, hfd, hr]
  rw [if_neg (by omega)]
  unfold ioCb
  rw [hw]
  simp only [hl, Bool.not_true, Bool.false_eq_true, if_false]

end Tickit.EvLoop
