import Tickit.Model.InputXlate
/-
  Helper lemmas for C20 (Props/C20.lean): the bit mask as a set, the X10 release loop,
  got_key as a refinement of the specification, the drain loop against the tokenizer.
-/
namespace Tickit.InputXlate

/-! ### bits -/

theorem bit_eq (n : Nat) : bit n = 2 ^ n := Nat.one_shiftLeft n

theorem testBit_bit (n i : Nat) : (bit n).testBit i = decide (n = i) := by
  rw [bit_eq]; exact Nat.testBit_two_pow

theorem testBit_setBit (h n i : Nat) : (setBit h n).testBit i = (h.testBit i || decide (n = i)) := by
  unfold setBit; rw [Nat.testBit_or, testBit_bit]

theorem testBit_clearBit (h n i : Nat) : (clearBit h n).testBit i = (h.testBit i && !decide (n = i)) := by
  unfold clearBit
  rw [Nat.testBit_xor, Nat.testBit_and, testBit_bit]
  cases h.testBit i <;> cases decide (n = i) <;> rfl

theorem hasBit_eq (h n : Nat) : hasBit h n = h.testBit n := by
  unfold hasBit
  cases hb : h.testBit n
  · have : h &&& bit n = 0 := by
      apply Nat.eq_of_testBit_eq
      intro i
      rw [Nat.testBit_and, testBit_bit, Nat.zero_testBit]
      by_cases hi : n = i
      · subst hi; simp [hb]
      · simp [hi]
    simp [this]
  · have : (h &&& bit n).testBit n = true := by
      rw [Nat.testBit_and, testBit_bit, hb]; simp
    have hne : h &&& bit n ≠ 0 := by
      intro h0; rw [h0, Nat.zero_testBit] at this; cases this
    simp [hne]

theorem eq_zero_of_testBit (h : Nat) (hz : ∀ i, h.testBit i = false) : h = 0 := by
  apply Nat.eq_of_testBit_eq
  intro i; rw [hz i, Nat.zero_testBit]

/-- The mask fits a non-negative `int`. -/
def Fits (held : Nat) : Prop := held < 2 ^ INT_SHIFT_LIMIT

theorem Fits.testBit_false {held : Nat} (hf : Fits held) {i : Nat} (hi : INT_SHIFT_LIMIT ≤ i) :
    held.testBit i = false := by
  apply Nat.testBit_lt_two_pow
  exact Nat.lt_of_lt_of_le hf (Nat.pow_le_pow_right (by decide) hi)

theorem fits_of_testBit {held : Nat} (h : ∀ i, INT_SHIFT_LIMIT ≤ i → held.testBit i = false) : Fits held :=
  Nat.lt_pow_two_of_testBit held h

theorem fits_setBit {held n : Nat} (hf : Fits held) (hn : n < INT_SHIFT_LIMIT) : Fits (setBit held n) := by
  apply fits_of_testBit
  intro i hi
  rw [testBit_setBit, hf.testBit_false hi]
  have : n ≠ i := by omega
  simp [this]

theorem fits_clearBit {held n : Nat} (hf : Fits held) : Fits (clearBit held n) := by
  apply fits_of_testBit
  intro i hi
  rw [testBit_clearBit, hf.testBit_false hi]; rfl

theorem fits_zero : Fits 0 := by unfold Fits; exact Nat.two_pow_pos _

/-- The buttons recorded in the mask, ascending. -/
def heldButtons (held : Nat) : List Nat := (List.range' 0 INT_SHIFT_LIMIT).filter (fun i => held.testBit i)

theorem mem_heldButtons {held b : Nat} : b ∈ heldButtons held ↔ b < INT_SHIFT_LIMIT ∧ held.testBit b = true := by
  unfold heldButtons
  simp [List.mem_filter, List.mem_range']

theorem heldButtons_zero : heldButtons 0 = [] := by
  unfold heldButtons
  apply List.filter_eq_nil_iff.2
  intro a _; simp

/-! ### the X10 release loop -/

def releaseEvent (line col mods : Int) (b : Nat) : Event :=
  Event.mouse MOUSEEV_RELEASE (b : Int) line col mods

/-- With enough fuel and no bit below `button` set, the loop reports exactly the set bits from `button`
    upwards, ascending, and leaves the mask empty. -/
theorem releaseLoop_ok (line col mods : Int) :
    ∀ (fuel button held : Nat), Fits held → (∀ i, i < button → held.testBit i = false) →
      button ≤ INT_SHIFT_LIMIT → INT_SHIFT_LIMIT ≤ fuel + button →
      releaseLoop line col mods fuel button held =
        .ok (0, ((List.range' button (INT_SHIFT_LIMIT - button)).filter (fun i => held.testBit i)).map
                  (releaseEvent line col mods)) := by
  intro fuel
  induction fuel with
  | zero =>
    intro button held hf hlow hb hfuel
    have hbe : button = INT_SHIFT_LIMIT := by omega
    have hz : held = 0 := by
      apply eq_zero_of_testBit
      intro i
      by_cases hi : i < button
      · exact hlow i hi
      · exact hf.testBit_false (by omega)
    subst hz
    simp [releaseLoop, hbe]
  | succ fuel ih =>
    intro button held hf hlow hb hfuel
    unfold releaseLoop
    by_cases hz : held = 0
    · subst hz
      simp
    · rw [if_neg hz]
      obtain ⟨j, hj⟩ := Nat.exists_testBit_of_ne_zero hz
      have hjb : button ≤ j := by
        apply Nat.le_of_not_lt
        intro hlt
        rw [hlow j hlt] at hj; cases hj
      have hj31 : j < INT_SHIFT_LIMIT := by
        apply Nat.lt_of_not_le
        intro hge
        rw [hf.testBit_false hge] at hj; cases hj
      have hb31 : button < INT_SHIFT_LIMIT := by omega
      rw [if_neg (by omega)]
      have hrange : List.range' button (INT_SHIFT_LIMIT - button) =
          button :: List.range' (button + 1) (INT_SHIFT_LIMIT - (button + 1)) := by
        have : INT_SHIFT_LIMIT - button = (INT_SHIFT_LIMIT - (button + 1)) + 1 := by omega
        rw [this, List.range'_succ]
      rw [hasBit_eq]
      cases hbit : held.testBit button
      · -- bit clear: go on with the same mask
        simp only [Bool.false_eq_true, if_false]
        rw [ih (button + 1) held hf (by
              intro i hi
              by_cases h' : i = button
              · subst h'; exact hbit
              · exact hlow i (by omega)) (by omega) (by omega)]
        rw [hrange, List.filter_cons, hbit]
        simp
      · simp only [if_true]
        rw [ih (button + 1) (clearBit held button) (fits_clearBit hf) (by
              intro i hi
              rw [testBit_clearBit]
              by_cases h' : i = button
              · subst h'; simp
              · rw [hlow i (by omega)]; rfl) (by omega) (by omega)]
        simp only
        rw [hrange, List.filter_cons, hbit]
        simp only [if_true, List.map_cons]
        have hcongr : (List.range' (button + 1) (INT_SHIFT_LIMIT - (button + 1))).filter
              (fun i => (clearBit held button).testBit i) =
            (List.range' (button + 1) (INT_SHIFT_LIMIT - (button + 1))).filter (fun i => held.testBit i) := by
          apply List.filter_congr
          intro x hx
          rw [testBit_clearBit]
          have : button ≠ x := by
            have := (List.mem_range'_1.1 hx).1
            omega
          simp [this]
        rw [hcongr]
        rfl

/-- If bit 0 of the mask is set the loop can never leave: the mask never becomes empty, and the shift
    count reaches 31.  (`1 ≤ button`: the loop starts at 1 and only counts up.) -/
theorem releaseLoop_bit0_not_ok (line col mods : Int) :
    ∀ (fuel button held : Nat), held.testBit 0 = true → 1 ≤ button →
      ∀ r, releaseLoop line col mods fuel button held ≠ .ok r := by
  intro fuel
  induction fuel with
  | zero =>
    intro button held h0 _ r
    have hz : held ≠ 0 := by
      intro hz; rw [hz, Nat.zero_testBit] at h0; cases h0
    simp [releaseLoop, hz]
  | succ fuel ih =>
    intro button held h0 hb r
    have hz : held ≠ 0 := by
      intro hz; rw [hz, Nat.zero_testBit] at h0; cases h0
    unfold releaseLoop
    rw [if_neg hz]
    split
    · intro h; cases h
    · split
      · have h0' : (clearBit held button).testBit 0 = true := by
          rw [testBit_clearBit, h0]
          have : button ≠ 0 := by omega
          simp [this]
        have := ih (button + 1) (clearBit held button) h0' (by omega)
        split
        · rename_i r' heq
          exact absurd heq (this r')
        · intro h; cases h
        · intro h; cases h
      · exact ih (button + 1) held h0 (by omega) r

/-- … and with the fuel that suffices for every legal mask, what happens is the undefined shift. -/
theorem releaseLoop_bit0_ub (line col mods : Int) :
    ∀ (fuel button held : Nat), held.testBit 0 = true → 1 ≤ button → 1 ≤ fuel →
      INT_SHIFT_LIMIT + 1 ≤ fuel + button →
      ∃ w, releaseLoop line col mods fuel button held = .ub w := by
  intro fuel
  induction fuel with
  | zero => intro _ _ _ _ h; omega
  | succ fuel ih =>
    intro button held h0 hb _ hfuel
    have hz : held ≠ 0 := by
      intro hz; rw [hz, Nat.zero_testBit] at h0; cases h0
    unfold releaseLoop
    rw [if_neg hz]
    by_cases hge : INT_SHIFT_LIMIT ≤ button
    · rw [if_pos hge]; exact ⟨_, rfl⟩
    · rw [if_neg hge]
      have hf1 : 1 ≤ fuel := by omega
      split
      · have h0' : (clearBit held button).testBit 0 = true := by
          rw [testBit_clearBit, h0]
          have : button ≠ 0 := by omega
          simp [this]
        obtain ⟨w, hw⟩ := ih (button + 1) (clearBit held button) h0' (by omega) hf1 (by omega)
        rw [hw]; exact ⟨_, rfl⟩
      · exact ih (button + 1) held h0 (by omega) hf1 (by omega)

/-! ### the mask refines the set of held buttons -/

theorem insert_of_all_gt {b : Nat} {l : List Nat} (h : ∀ x ∈ l, b < x) : Spec.insert b l = b :: l := by
  cases l with
  | nil => rfl
  | cons x xs =>
    have : b < x := h x (by simp)
    simp [Spec.insert, this]

theorem insert_filter_range' (p : Nat → Bool) (b : Nat) :
    ∀ (n s : Nat), s ≤ b → b < s + n →
      Spec.insert b ((List.range' s n).filter p) = (List.range' s n).filter (fun i => p i || decide (b = i)) := by
  intro n
  induction n with
  | zero => intro s h1 h2; omega
  | succ n ih =>
    intro s h1 h2
    rw [List.range'_succ, List.filter_cons, List.filter_cons]
    by_cases hs : s = b
    · subst hs
      have hrest : (List.range' (s + 1) n).filter (fun i => p i || decide (s = i)) = (List.range' (s + 1) n).filter p := by
        apply List.filter_congr
        intro x hx
        have : s ≠ x := by
          have := (List.mem_range'_1.1 hx).1
          omega
        simp [this]
      simp only [decide_true, Bool.or_true, if_true]
      rw [hrest]
      cases hp : p s
      · simp only [Bool.false_eq_true, if_false]
        apply insert_of_all_gt
        intro x hx
        have := (List.mem_range'_1.1 (List.mem_filter.1 hx).1).1
        omega
      · simp [Spec.insert]
    · have hlt : s < b := by omega
      have hbs : ¬ b = s := by omega
      simp only [hbs, decide_false, Bool.or_false]
      cases hp : p s
      · simp only [Bool.false_eq_true, if_false]
        exact ih (s + 1) (by omega) (by omega)
      · simp only [if_true]
        rw [← ih (s + 1) (by omega) (by omega)]
        have h1 : ¬ b < s := by omega
        simp [Spec.insert, h1, hbs]

theorem heldButtons_setBit {held b : Nat} (hb : b < INT_SHIFT_LIMIT) :
    heldButtons (setBit held b) = Spec.insert b (heldButtons held) := by
  unfold heldButtons
  rw [insert_filter_range' _ b INT_SHIFT_LIMIT 0 (by omega) (by omega)]
  apply List.filter_congr
  intro x _
  rw [testBit_setBit]

theorem heldButtons_clearBit {held b : Nat} :
    heldButtons (clearBit held b) = Spec.erase b (heldButtons held) := by
  unfold heldButtons Spec.erase
  rw [List.filter_filter]
  apply List.filter_congr
  intro x _
  rw [testBit_clearBit]
  by_cases h : b = x
  · subst h; simp
  · have : x ≠ b := fun h' => h h'.symm
    simp [h, this]

/-- What every mask reachable from a fresh terminal satisfies: it fits an `int` and bit 0 is clear. -/
def MaskInv (held : Nat) : Prop := Fits held ∧ held.testBit 0 = false

theorem maskInv_zero : MaskInv 0 := ⟨fits_zero, Nat.zero_testBit 0⟩

/-- Mouse reports the tokenizer could classify. -/
def Key.KnownKind : Key → Prop
  | .mouse ev _ _ _ _ => ev = TERMKEY_MOUSE_PRESS ∨ ev = TERMKEY_MOUSE_DRAG ∨ ev = TERMKEY_MOUSE_RELEASE
  | _ => True

instance (k : Key) : Decidable k.KnownKind := by
  cases k <;> unfold Key.KnownKind <;> infer_instance

theorem heldButtons_eq_tail {held : Nat} (h0 : held.testBit 0 = false) :
    heldButtons held = (List.range' 1 (INT_SHIFT_LIMIT - 1)).filter (fun i => held.testBit i) := by
  unfold heldButtons
  have : List.range' 0 INT_SHIFT_LIMIT = 0 :: List.range' 1 (INT_SHIFT_LIMIT - 1) := by decide
  rw [this, List.filter_cons, h0]
  simp

/-- `got_key` on a mouse report, case by case (the shape `gotKey` reduces to). -/
theorem gotKey_mouse_press (cfg : Cfg) (fuel held : Nat) (button line col mods : Int)
    (h0 : 0 ≤ button) (h4 : button < WHEEL_FIRST_BUTTON) :
    gotKey cfg fuel held (.mouse TERMKEY_MOUSE_PRESS button line col mods) =
      .ok (setBit held button.toNat, [Event.mouse MOUSEEV_PRESS button (line - 1) (col - 1) mods]) := by
  have hs : shiftOk button = true := by
    unfold shiftOk WHEEL_FIRST_BUTTON INT_SHIFT_LIMIT at *
    simp only [Bool.and_eq_true, decide_eq_true_eq]; omega
  have hw : ¬ (button ≥ WHEEL_FIRST_BUTTON) := by omega
  simp [gotKey, mouseType, TERMKEY_MOUSE_PRESS, MOUSEEV_PRESS, MOUSEEV_DRAG, hw, hs]

theorem gotKey_mouse_wheel (cfg : Cfg) (fuel held : Nat) (button line col mods : Int)
    (h4 : WHEEL_FIRST_BUTTON ≤ button) :
    gotKey cfg fuel held (.mouse TERMKEY_MOUSE_PRESS button line col mods) =
      .ok (held, [Event.mouse MOUSEEV_WHEEL (button - 3) (line - 1) (col - 1) mods]) := by
  have hw : button ≥ WHEEL_FIRST_BUTTON := h4
  simp [gotKey, mouseType, TERMKEY_MOUSE_PRESS, MOUSEEV_PRESS, MOUSEEV_DRAG, MOUSEEV_WHEEL, MOUSEEV_RELEASE,
    MOUSEWHEEL_UP, hw]
  simp [WHEEL_FIRST_BUTTON]

theorem gotKey_mouse_drag (cfg : Cfg) (fuel held : Nat) (button line col mods : Int)
    (h0 : 0 ≤ button) (h31 : button < 31) :
    gotKey cfg fuel held (.mouse TERMKEY_MOUSE_DRAG button line col mods) =
      .ok (setBit held button.toNat, [Event.mouse MOUSEEV_DRAG button (line - 1) (col - 1) mods]) := by
  have hs : shiftOk button = true := by
    unfold shiftOk INT_SHIFT_LIMIT
    simp only [Bool.and_eq_true, decide_eq_true_eq]; omega
  simp [gotKey, mouseType, TERMKEY_MOUSE_PRESS, TERMKEY_MOUSE_DRAG, MOUSEEV_PRESS, MOUSEEV_DRAG, hs]

theorem gotKey_mouse_release_button (cfg : Cfg) (fuel held : Nat) (button line col mods : Int)
    (h0 : 0 < button) (h31 : button < 31) :
    gotKey cfg fuel held (.mouse TERMKEY_MOUSE_RELEASE button line col mods) =
      .ok (clearBit held button.toNat, [Event.mouse MOUSEEV_RELEASE button (line - 1) (col - 1) mods]) := by
  have hs : shiftOk button = true := by
    unfold shiftOk INT_SHIFT_LIMIT
    simp only [Bool.and_eq_true, decide_eq_true_eq]; omega
  have hne : button ≠ 0 := by omega
  simp [gotKey, mouseType, TERMKEY_MOUSE_PRESS, TERMKEY_MOUSE_DRAG, TERMKEY_MOUSE_RELEASE, MOUSEEV_PRESS,
    MOUSEEV_DRAG, MOUSEEV_RELEASE, hs, hne]

theorem gotKey_mouse_release_all (cfg : Cfg) (fuel held : Nat) (line col mods : Int) :
    gotKey cfg fuel held (.mouse TERMKEY_MOUSE_RELEASE 0 line col mods) =
      releaseLoop (line - 1) (col - 1) mods fuel RELEASE_LOOP_START held := by
  simp [gotKey, mouseType, TERMKEY_MOUSE_PRESS, TERMKEY_MOUSE_DRAG, TERMKEY_MOUSE_RELEASE, MOUSEEV_PRESS,
    MOUSEEV_DRAG, MOUSEEV_RELEASE]

theorem gotKey_mouse_unknown (cfg : Cfg) (fuel held : Nat) (ev button line col mods : Int)
    (h1 : ev ≠ TERMKEY_MOUSE_PRESS) (h2 : ev ≠ TERMKEY_MOUSE_DRAG) (h3 : ev ≠ TERMKEY_MOUSE_RELEASE) :
    gotKey cfg fuel held (.mouse ev button line col mods) =
      if cfg.dropUnknownMouse then .ok (held, [])
      else .ok (held, [Event.mouse (-1) button (line - 1) (col - 1) mods]) := by
  unfold TERMKEY_MOUSE_PRESS TERMKEY_MOUSE_DRAG TERMKEY_MOUSE_RELEASE at *
  cases hd : cfg.dropUnknownMouse <;>
    simp [gotKey, mouseType, TERMKEY_MOUSE_PRESS, TERMKEY_MOUSE_DRAG, TERMKEY_MOUSE_RELEASE, MOUSEEV_PRESS,
      MOUSEEV_DRAG, MOUSEEV_RELEASE, MOUSEEV_WHEEL, h1, h2, h3, hd]

/-- One key: `got_key` keeps the invariant and records exactly the specification's set of held buttons;
    and it emits exactly the specification's events unless the key is a mouse report of a kind the
    specification does not know and the `default:` arm is the unrepaired one.  Hypotheses: the mask
    invariant, what the property trusts of the tokenizer (`WF`), the two driver callbacks present, and
    fuel for the 30 possible iterations of the X10 loop. -/
theorem gotKey_refines (cfg : Cfg) (fuel : Nat) (hfuel : INT_SHIFT_LIMIT ≤ fuel + 1) (held : Nat)
    (hinv : MaskInv held) (k : Key) (hwf : k.WF)
    (hcb : cfg.onModereport = true ∧ cfg.onDecrqss = true) :
    ∃ held' evs, gotKey cfg fuel held k = .ok (held', evs) ∧
      MaskInv held' ∧ heldButtons held' = (Spec.keyEvents (heldButtons held) k).1 ∧
      ((cfg.dropUnknownMouse = true ∨ k.KnownKind) → evs = (Spec.keyEvents (heldButtons held) k).2) := by
  obtain ⟨hfit, hbit0⟩ := hinv
  cases k with
  | mouse ev button line col mods =>
    obtain ⟨hb0, hb31, hbpos⟩ := hwf
    by_cases hp : ev = TERMKEY_MOUSE_PRESS
    · subst hp
      by_cases hw : WHEEL_FIRST_BUTTON ≤ button
      · have h4 : button ≥ 4 := hw
        exact ⟨held, _, gotKey_mouse_wheel cfg fuel held button line col mods hw, ⟨hfit, hbit0⟩,
          by simp [Spec.keyEvents, h4], fun _ => by simp [Spec.keyEvents, h4]⟩
      · have hlt : button < WHEEL_FIRST_BUTTON := by omega
        have hlt4 : ¬ button ≥ 4 := by unfold WHEEL_FIRST_BUTTON at hlt; omega
        have h1 : 1 ≤ button := hbpos (Or.inl rfl)
        have hnat : button.toNat < INT_SHIFT_LIMIT := by unfold INT_SHIFT_LIMIT; omega
        refine ⟨setBit held button.toNat, _, gotKey_mouse_press cfg fuel held button line col mods hb0 hlt,
          ⟨fits_setBit hfit hnat, ?_⟩, ?_, fun _ => by simp [Spec.keyEvents, hlt4]⟩
        · rw [testBit_setBit, hbit0]
          have : button.toNat ≠ 0 := by omega
          simp [this]
        · rw [heldButtons_setBit hnat]
          simp [Spec.keyEvents, hlt4]
    · by_cases hd : ev = TERMKEY_MOUSE_DRAG
      · subst hd
        have h1 : 1 ≤ button := hbpos (Or.inr rfl)
        have hnat : button.toNat < INT_SHIFT_LIMIT := by unfold INT_SHIFT_LIMIT; omega
        refine ⟨setBit held button.toNat, _, gotKey_mouse_drag cfg fuel held button line col mods hb0 hb31,
          ⟨fits_setBit hfit hnat, ?_⟩, ?_,
          fun _ => by simp [Spec.keyEvents, TERMKEY_MOUSE_DRAG, TERMKEY_MOUSE_PRESS]⟩
        · rw [testBit_setBit, hbit0]
          have : button.toNat ≠ 0 := by omega
          simp [this]
        · rw [heldButtons_setBit hnat]
          simp [Spec.keyEvents, TERMKEY_MOUSE_DRAG, TERMKEY_MOUSE_PRESS]
      · by_cases hr : ev = TERMKEY_MOUSE_RELEASE
        · subst hr
          by_cases hz : button = 0
          · subst hz
            refine ⟨0, _, ?_, maskInv_zero, ?_, fun _ => rfl⟩
            · rw [gotKey_mouse_release_all,
                releaseLoop_ok (line - 1) (col - 1) mods fuel RELEASE_LOOP_START held hfit
                  (by intro i hi; have : i = 0 := by unfold RELEASE_LOOP_START at hi; omega
                      subst this; exact hbit0)
                  (by decide) (by unfold RELEASE_LOOP_START; omega)]
              rw [heldButtons_eq_tail hbit0]
              simp [Spec.keyEvents, TERMKEY_MOUSE_RELEASE, TERMKEY_MOUSE_PRESS, TERMKEY_MOUSE_DRAG,
                RELEASE_LOOP_START, releaseEvent]
            · rw [heldButtons_zero]
              simp [Spec.keyEvents, TERMKEY_MOUSE_RELEASE, TERMKEY_MOUSE_PRESS, TERMKEY_MOUSE_DRAG]
          · have hpos : 0 < button := by omega
            refine ⟨clearBit held button.toNat, _,
              gotKey_mouse_release_button cfg fuel held button line col mods hpos hb31,
              ⟨fits_clearBit hfit, ?_⟩, ?_,
              fun _ => by simp [Spec.keyEvents, TERMKEY_MOUSE_RELEASE, TERMKEY_MOUSE_PRESS, TERMKEY_MOUSE_DRAG, hz]⟩
            · rw [testBit_clearBit, hbit0]; rfl
            · rw [heldButtons_clearBit]
              simp [Spec.keyEvents, TERMKEY_MOUSE_RELEASE, TERMKEY_MOUSE_PRESS, TERMKEY_MOUSE_DRAG, hz]
        · -- a report the tokenizer could not classify: the mask is untouched either way
          cases hdm : cfg.dropUnknownMouse
          · refine ⟨held, [Event.mouse (-1) button (line - 1) (col - 1) mods], ?_, ⟨hfit, hbit0⟩,
              by simp [Spec.keyEvents, hp, hd, hr], ?_⟩
            · rw [gotKey_mouse_unknown cfg fuel held ev button line col mods hp hd hr, hdm]; rfl
            · intro hknown
              exfalso
              rcases hknown with h | h
              · cases h
              · rcases h with h | h | h
                · exact hp h
                · exact hd h
                · exact hr h
          · refine ⟨held, [], ?_, ⟨hfit, hbit0⟩, by simp [Spec.keyEvents, hp, hd, hr],
              fun _ => by simp [Spec.keyEvents, hp, hd, hr]⟩
            rw [gotKey_mouse_unknown cfg fuel held ev button line col mods hp hd hr, hdm]; rfl
  | unicode mods utf8 name =>
    by_cases hm : mods = 0
    · subst hm
      exact ⟨held, (Spec.keyEvents (heldButtons held) (Key.unicode 0 utf8 name)).2,
        by simp [gotKey, Spec.keyEvents], ⟨hfit, hbit0⟩, by simp [Spec.keyEvents], fun _ => rfl⟩
    · exact ⟨held, (Spec.keyEvents (heldButtons held) (Key.unicode mods utf8 name)).2,
        by simp [gotKey, Spec.keyEvents, hm], ⟨hfit, hbit0⟩, by simp [Spec.keyEvents, hm], fun _ => rfl⟩
  | function mods name =>
    exact ⟨held, (Spec.keyEvents (heldButtons held) (Key.function mods name)).2,
      by simp [gotKey, Spec.keyEvents], ⟨hfit, hbit0⟩, by simp [Spec.keyEvents], fun _ => rfl⟩
  | keysym mods name =>
    exact ⟨held, (Spec.keyEvents (heldButtons held) (Key.keysym mods name)).2,
      by simp [gotKey, Spec.keyEvents], ⟨hfit, hbit0⟩, by simp [Spec.keyEvents], fun _ => rfl⟩
  | modereport i m v =>
    exact ⟨held, (Spec.keyEvents (heldButtons held) (Key.modereport i m v)).2,
      by simp [gotKey, Spec.keyEvents, hcb.1], ⟨hfit, hbit0⟩, by simp [Spec.keyEvents], fun _ => rfl⟩
  | dcs str =>
    cases str with
    | none =>
      exact ⟨held, (Spec.keyEvents (heldButtons held) (Key.dcs none)).2,
        by simp [gotKey, Spec.keyEvents], ⟨hfit, hbit0⟩, by simp [Spec.keyEvents], fun _ => rfl⟩
    | some s =>
      cases hq : isDecrqssOk s
      · exact ⟨held, (Spec.keyEvents (heldButtons held) (Key.dcs (some s))).2,
          by simp [gotKey, Spec.keyEvents, hq], ⟨hfit, hbit0⟩, by simp [Spec.keyEvents, hq], fun _ => rfl⟩
      · exact ⟨held, (Spec.keyEvents (heldButtons held) (Key.dcs (some s))).2,
          by simp [gotKey, Spec.keyEvents, hq, hcb.2], ⟨hfit, hbit0⟩, by simp [Spec.keyEvents, hq], fun _ => rfl⟩
  | other ty =>
    exact ⟨held, (Spec.keyEvents (heldButtons held) (Key.other ty)).2,
      by simp [gotKey, Spec.keyEvents], ⟨hfit, hbit0⟩, by simp [Spec.keyEvents], fun _ => rfl⟩

/-- A whole key sequence. -/
theorem runKeys_refines (cfg : Cfg) (fuel : Nat) (hfuel : INT_SHIFT_LIMIT ≤ fuel + 1)
    (hcb : cfg.onModereport = true ∧ cfg.onDecrqss = true) :
    ∀ (keys : List Key) (held : Nat), MaskInv held → (∀ k ∈ keys, k.WF) →
      ∃ held' evs, runKeys cfg fuel held keys = .ok (held', evs) ∧
        MaskInv held' ∧ heldButtons held' = (Spec.run (heldButtons held) keys).1 ∧
        ((cfg.dropUnknownMouse = true ∨ ∀ k ∈ keys, k.KnownKind) → evs = (Spec.run (heldButtons held) keys).2) := by
  intro keys
  induction keys with
  | nil => intro held hinv _; exact ⟨held, [], rfl, hinv, rfl, fun _ => rfl⟩
  | cons k ks ih =>
    intro held hinv hwf
    obtain ⟨h1, e1, hg, hinv1, hb1, he1⟩ := gotKey_refines cfg fuel hfuel held hinv k (hwf k (by simp)) hcb
    obtain ⟨h2, e2, hr, hinv2, hb2, he2⟩ := ih h1 hinv1 (fun k' hk' => hwf k' (by simp [hk']))
    refine ⟨h2, e1 ++ e2, ?_, hinv2, ?_, ?_⟩
    · simp only [runKeys, hg, hr]
    · simp only [Spec.run, hb2, hb1]
    · intro hknown
      rw [he1 (hknown.imp id (fun h => h k (by simp))),
        he2 (hknown.imp id (fun h k' hk' => h k' (by simp [hk'])))]
      simp only [Spec.run, hb1]

/-! ### positions and kinds of the mouse events -/

theorem releaseLoop_events (line col mods : Int) :
    ∀ (fuel button held : Nat) (r : Nat × List Event),
      releaseLoop line col mods fuel button held = .ok r →
      ∀ e ∈ r.2, ∃ b : Nat, e = Event.mouse MOUSEEV_RELEASE (b : Int) line col mods ∧ button ≤ b ∧
        held.testBit b = true := by
  intro fuel
  induction fuel with
  | zero =>
    intro button held r h e he
    unfold releaseLoop at h
    split at h
    · cases h; cases he
    · cases h
  | succ fuel ih =>
    intro button held r h e he
    unfold releaseLoop at h
    split at h
    · cases h; cases he
    · split at h
      · cases h
      · split at h
        · rename_i hbit
          rw [hasBit_eq] at hbit
          split at h
          · rename_i r' heq
            cases h
            simp only [List.mem_cons] at he
            rcases he with he | he
            · exact ⟨button, he, Nat.le_refl _, hbit⟩
            · obtain ⟨b, hb, hle, htb⟩ := ih (button + 1) (clearBit held button) r' heq e he
              refine ⟨b, hb, by omega, ?_⟩
              rw [testBit_clearBit] at htb
              simp only [Bool.and_eq_true] at htb
              exact htb.1
          · cases h
          · cases h
        · obtain ⟨b, hb, hle, htb⟩ := ih (button + 1) held r h e he
          exact ⟨b, hb, by omega, htb⟩

theorem gotKey_mouse_press_if (cfg : Cfg) (fuel held : Nat) (button line col mods : Int)
    (h4 : button < WHEEL_FIRST_BUTTON) :
    gotKey cfg fuel held (.mouse TERMKEY_MOUSE_PRESS button line col mods) =
      if shiftOk button then
        .ok (setBit held button.toNat, [Event.mouse MOUSEEV_PRESS button (line - 1) (col - 1) mods])
      else .ub "1 << info.button out of range (press/drag)" := by
  have hw : ¬ (button ≥ WHEEL_FIRST_BUTTON) := by omega
  simp [gotKey, mouseType, TERMKEY_MOUSE_PRESS, MOUSEEV_PRESS, MOUSEEV_DRAG, hw]

theorem gotKey_mouse_drag_if (cfg : Cfg) (fuel held : Nat) (button line col mods : Int) :
    gotKey cfg fuel held (.mouse TERMKEY_MOUSE_DRAG button line col mods) =
      if shiftOk button then
        .ok (setBit held button.toNat, [Event.mouse MOUSEEV_DRAG button (line - 1) (col - 1) mods])
      else .ub "1 << info.button out of range (press/drag)" := by
  simp [gotKey, mouseType, TERMKEY_MOUSE_PRESS, TERMKEY_MOUSE_DRAG, MOUSEEV_PRESS, MOUSEEV_DRAG]

theorem gotKey_mouse_release_if (cfg : Cfg) (fuel held : Nat) (button line col mods : Int) (hne : button ≠ 0) :
    gotKey cfg fuel held (.mouse TERMKEY_MOUSE_RELEASE button line col mods) =
      if shiftOk button then
        .ok (clearBit held button.toNat, [Event.mouse MOUSEEV_RELEASE button (line - 1) (col - 1) mods])
      else .ub "1 << info.button out of range (release)" := by
  simp [gotKey, mouseType, TERMKEY_MOUSE_PRESS, TERMKEY_MOUSE_DRAG, TERMKEY_MOUSE_RELEASE, MOUSEEV_PRESS,
    MOUSEEV_DRAG, MOUSEEV_RELEASE, hne]

/-- Every event `got_key` emits for a mouse report carries the report's position minus one and its
    modifiers, and is a press, drag, release or wheel event — except the event of type −1 that the
    unrepaired `default:` arm emits for a report the tokenizer could not classify. -/
theorem gotKey_mouse_events (cfg : Cfg) (fuel held : Nat) (ev button line col mods : Int) (r : Nat × List Event)
    (h : gotKey cfg fuel held (.mouse ev button line col mods) = .ok r) :
    ∀ e ∈ r.2, ∃ t b, e = Event.mouse t b (line - 1) (col - 1) mods ∧
      ((t = MOUSEEV_PRESS ∨ t = MOUSEEV_DRAG ∨ t = MOUSEEV_RELEASE ∨ t = MOUSEEV_WHEEL) ∨
       (t = -1 ∧ cfg.dropUnknownMouse = false ∧
        ev ≠ TERMKEY_MOUSE_PRESS ∧ ev ≠ TERMKEY_MOUSE_DRAG ∧ ev ≠ TERMKEY_MOUSE_RELEASE)) := by
  intro e he
  by_cases hp : ev = TERMKEY_MOUSE_PRESS
  · subst hp
    by_cases hw : WHEEL_FIRST_BUTTON ≤ button
    · rw [gotKey_mouse_wheel cfg fuel held button line col mods hw] at h
      cases h
      simp only [List.mem_singleton] at he
      exact ⟨_, _, he, Or.inl (Or.inr (Or.inr (Or.inr rfl)))⟩
    · rw [gotKey_mouse_press_if cfg fuel held button line col mods (by omega)] at h
      split at h
      · cases h
        simp only [List.mem_singleton] at he
        exact ⟨_, _, he, Or.inl (Or.inl rfl)⟩
      · cases h
  · by_cases hd : ev = TERMKEY_MOUSE_DRAG
    · subst hd
      rw [gotKey_mouse_drag_if] at h
      split at h
      · cases h
        simp only [List.mem_singleton] at he
        exact ⟨_, _, he, Or.inl (Or.inr (Or.inl rfl))⟩
      · cases h
    · by_cases hr : ev = TERMKEY_MOUSE_RELEASE
      · subst hr
        by_cases hz : button = 0
        · subst hz
          rw [gotKey_mouse_release_all] at h
          obtain ⟨b, hb, _, _⟩ := releaseLoop_events (line - 1) (col - 1) mods fuel RELEASE_LOOP_START held r h e he
          exact ⟨_, _, hb, Or.inl (Or.inr (Or.inr (Or.inl rfl)))⟩
        · rw [gotKey_mouse_release_if cfg fuel held button line col mods hz] at h
          split at h
          · cases h
            simp only [List.mem_singleton] at he
            exact ⟨_, _, he, Or.inl (Or.inr (Or.inr (Or.inl rfl)))⟩
          · cases h
      · rw [gotKey_mouse_unknown cfg fuel held ev button line col mods hp hd hr] at h
        cases hdm : cfg.dropUnknownMouse
        · rw [hdm] at h
          simp only [Bool.false_eq_true, if_false] at h
          cases h
          simp only [List.mem_singleton] at he
          exact ⟨_, _, he, Or.inr ⟨rfl, rfl, hp, hd, hr⟩⟩
        · rw [hdm] at h
          simp only [if_true] at h
          cases h
          cases he


/-! ### the drain loop against the tokenizer -/

theorem drainFuel_succ_key (T : Tokenizer) (n : Nat) {s s' : T.σ} {k : Key}
    (h : T.getkey s = (Res.key k, s')) :
    T.drainFuel (n + 1) s =
      match T.drainFuel n s' with
      | some r => some (k :: r.1, r.2.1, r.2.2)
      | none => none := by
  simp only [Tokenizer.drainFuel, h]
  cases T.drainFuel n s' <;> rfl

theorem drainFuel_succ_stop (T : Tokenizer) (n : Nat) {s s' : T.σ} {r : Res}
    (h : T.getkey s = (r, s')) (hr : r.isKey = false) :
    T.drainFuel (n + 1) s = some ([], r, s') := by
  cases r <;> first | (simp [Res.isKey] at hr; done) | simp only [Tokenizer.drainFuel, h]

theorem getKeysLoop_succ_key (T : Tokenizer) (cfg : Cfg) (fuel n held : Nat) {s s' : T.σ} {k : Key}
    (h : T.getkey s = (Res.key k, s')) :
    getKeysLoop T cfg fuel (n + 1) s held =
      match gotKey cfg fuel held k with
      | .ok r =>
        match getKeysLoop T cfg fuel n s' r.1 with
        | .ok r' => .ok (r'.1, r'.2.1, r.2 ++ r'.2.2.1, r'.2.2.2)
        | .ub w => .ub w
        | .outOfFuel => .outOfFuel
      | .ub w => .ub w
      | .outOfFuel => .outOfFuel := by
  simp only [getKeysLoop, h]
  cases gotKey cfg fuel held k with
  | ok r => simp only; cases getKeysLoop T cfg fuel n s' r.1 <;> rfl
  | ub w => rfl
  | outOfFuel => rfl

theorem getKeysLoop_succ_stop (T : Tokenizer) (cfg : Cfg) (fuel n held : Nat) {s s' : T.σ} {r : Res}
    (h : T.getkey s = (r, s')) (hr : r.isKey = false) :
    getKeysLoop T cfg fuel (n + 1) s held = .ok (s', held, [], r) := by
  cases r <;> first | (simp [Res.isKey] at hr; done) | simp only [getKeysLoop, h]

theorem isKey_cases (r : Res) : (∃ k, r = Res.key k) ∨ r.isKey = false := by
  cases r <;> simp [Res.isKey]

theorem drainFuel_mono (T : Tokenizer) :
    ∀ (n : Nat) (s : T.σ) (r : List Key × Res × T.σ), T.drainFuel n s = some r →
      ∀ m, n ≤ m → T.drainFuel m s = some r := by
  intro n
  induction n with
  | zero => intro s r h; simp [Tokenizer.drainFuel] at h
  | succ n ih =>
    intro s r h m hm
    obtain ⟨m', rfl⟩ : ∃ m', m = m' + 1 := ⟨m - 1, by omega⟩
    cases hg : T.getkey s with
    | mk r0 s' =>
      rcases isKey_cases r0 with ⟨k, rfl⟩ | hr
      · rw [drainFuel_succ_key T n hg] at h
        rw [drainFuel_succ_key T m' hg]
        cases hd : T.drainFuel n s' with
        | none => rw [hd] at h; cases h
        | some r' =>
          rw [hd] at h
          rw [ih s' r' hd m' (by omega)]
          exact h
      · rw [drainFuel_succ_stop T n hg hr] at h
        rw [drainFuel_succ_stop T m' hg hr]
        exact h

theorem drainFuel_pending (T : Tokenizer) :
    ∀ (n : Nat) (s : T.σ), T.pending s < n → ∃ r, T.drainFuel n s = some r := by
  intro n
  induction n with
  | zero => intro s h; omega
  | succ n ih =>
    intro s h
    cases hg : T.getkey s with
    | mk r0 s' =>
      rcases isKey_cases r0 with ⟨k, rfl⟩ | hr
      · have := T.getkey_consumes s k s' hg
        obtain ⟨r, hr⟩ := ih s' (by omega)
        rw [drainFuel_succ_key T n hg, hr]; exact ⟨_, rfl⟩
      · rw [drainFuel_succ_stop T n hg hr]; exact ⟨_, rfl⟩

theorem drain_eq_of_drainFuel (T : Tokenizer) (n : Nat) (s : T.σ) (r : List Key × Res × T.σ)
    (h : T.drainFuel n s = some r) : T.drain s = r := by
  unfold Tokenizer.drain
  obtain ⟨r', hr'⟩ := drainFuel_pending T (T.pending s + 1) s (by omega)
  rw [hr']
  have h1 := drainFuel_mono T n s r h (max n (T.pending s + 1)) (Nat.le_max_left _ _)
  have h2 := drainFuel_mono T _ s r' hr' (max n (T.pending s + 1)) (Nat.le_max_right _ _)
  rw [h1] at h2
  cases h2; rfl

/-- The drain loop, one step unfolded. -/
theorem drain_key (T : Tokenizer) (s s' : T.σ) (k : Key) (h : T.getkey s = (Res.key k, s')) :
    T.drain s = (k :: (T.drain s').1, (T.drain s').2.1, (T.drain s').2.2) := by
  obtain ⟨r', hr'⟩ := drainFuel_pending T (T.pending s' + 1) s' (by omega)
  have hd' := drain_eq_of_drainFuel T _ s' r' hr'
  apply drain_eq_of_drainFuel T (T.pending s' + 1 + 1) s
  rw [drainFuel_succ_key T _ h, hr', hd']

theorem drain_stop (T : Tokenizer) (s s' : T.σ) (r : Res) (h : T.getkey s = (r, s')) (hr : r.isKey = false) :
    T.drain s = ([], r, s') := by
  apply drain_eq_of_drainFuel T (0 + 1) s
  exact drainFuel_succ_stop T 0 h hr

/-- `get_keys`' loop is: drain the tokenizer, run `got_key` over what came out. -/
theorem getKeysLoop_eq (T : Tokenizer) (cfg : Cfg) (fuel : Nat) :
    ∀ (n : Nat) (s : T.σ) (held : Nat) (r : List Key × Res × T.σ), T.drainFuel n s = some r →
      getKeysLoop T cfg fuel n s held =
        match runKeys cfg fuel held r.1 with
        | .ok x => .ok (r.2.2, x.1, x.2, r.2.1)
        | .ub w => .ub w
        | .outOfFuel => .outOfFuel := by
  intro n
  induction n with
  | zero => intro s held r h; simp [Tokenizer.drainFuel] at h
  | succ n ih =>
    intro s held r h
    cases hg : T.getkey s with
    | mk r0 s' =>
      rcases isKey_cases r0 with ⟨k, rfl⟩ | hr
      · rw [drainFuel_succ_key T n hg] at h
        rw [getKeysLoop_succ_key T cfg fuel n held hg]
        cases hd : T.drainFuel n s' with
        | none => rw [hd] at h; cases h
        | some r' =>
          rw [hd] at h
          cases h
          simp only [runKeys]
          cases hgk : gotKey cfg fuel held k with
          | ok x =>
            simp only
            rw [ih s' x.1 r' hd]
            cases runKeys cfg fuel x.1 r'.1 <;> rfl
          | ub w => rfl
          | outOfFuel => rfl
      · rw [drainFuel_succ_stop T n hg hr] at h
        cases h
        rw [getKeysLoop_succ_stop T cfg fuel n held hg hr]
        simp [runKeys]

/-- `tickit_term_input_push_bytes` (unchanged tree) in terms of the tokenizer's `feed`. -/
def pushSem (T : Tokenizer) (cfg : Cfg) (fuel : Nat) (now : TimeVal) (tt : Term T) (bytes : List UInt8) :
    Outcome (Term T × List Event) :=
  match runKeys cfg fuel tt.held (T.feed tt.tk bytes).1 with
  | .ok x => .ok ({ tk := (T.feed tt.tk bytes).2.2, held := x.1,
                    timeoutAt := armTimeout tt.timeoutAt now (T.waittime (T.feed tt.tk bytes).2.2)
                      (T.feed tt.tk bytes).2.1 }, x.2)
  | .ub w => .ub w
  | .outOfFuel => .outOfFuel

theorem inputPushBytesOnce_eq (T : Tokenizer) (cfg : Cfg) (fuel : Nat) (now : TimeVal) (tt : Term T)
    (bytes : List UInt8) :
    inputPushBytesOnce T cfg fuel now tt bytes = pushSem T cfg fuel now tt bytes := by
  unfold inputPushBytesOnce getKeys pushSem Tokenizer.feed
  simp only
  obtain ⟨r, hr⟩ := drainFuel_pending T (T.pending (T.push tt.tk bytes).1 + 1) (T.push tt.tk bytes).1 (by omega)
  rw [getKeysLoop_eq T cfg fuel _ _ tt.held r hr, drain_eq_of_drainFuel T _ _ r hr]
  cases runKeys cfg fuel tt.held r.1 <;> rfl

theorem runKeys_append (cfg : Cfg) (fuel : Nat) :
    ∀ (k1 k2 : List Key) (held : Nat),
      runKeys cfg fuel held (k1 ++ k2) =
        match runKeys cfg fuel held k1 with
        | .ok x =>
          match runKeys cfg fuel x.1 k2 with
          | .ok y => .ok (y.1, x.2 ++ y.2)
          | .ub w => .ub w
          | .outOfFuel => .outOfFuel
        | .ub w => .ub w
        | .outOfFuel => .outOfFuel := by
  intro k1
  induction k1 with
  | nil =>
    intro k2 held
    simp only [List.nil_append, runKeys]
    cases runKeys cfg fuel held k2 <;> simp
  | cons k ks ih =>
    intro k2 held
    simp only [List.cons_append, runKeys]
    cases gotKey cfg fuel held k with
    | ok x =>
      simp only
      rw [ih k2 x.1]
      cases runKeys cfg fuel x.1 ks with
      | ok y =>
        simp only
        cases runKeys cfg fuel y.1 k2 <;> simp
      | ub w => rfl
      | outOfFuel => rfl
    | ub w => rfl
    | outOfFuel => rfl

/-! ### chunkings of one byte stream -/

/-- Feed a non-empty list of pieces (`p :: ps`), draining after each: all keys, the last result, the final state. -/
def feedPieces (T : Tokenizer) : T.σ → List UInt8 → List (List UInt8) → List Key × Res × T.σ
  | s, p, [] => T.feed s p
  | s, p, q :: qs =>
    ((T.feed s p).1 ++ (feedPieces T (T.feed s p).2.2 q qs).1,
     (feedPieces T (T.feed s p).2.2 q qs).2.1, (feedPieces T (T.feed s p).2.2 q qs).2.2)

/-- Every push of the run is accepted in full. -/
def AcceptedRun (T : Tokenizer) : T.σ → List UInt8 → List (List UInt8) → Prop
  | s, p, [] => T.Accepts s p
  | s, p, q :: qs => T.Accepts s p ∧ AcceptedRun T (T.feed s p).2.2 q qs

instance decAcceptedRun (T : Tokenizer) : ∀ (qs : List (List UInt8)) (s : T.σ) (p : List UInt8),
    Decidable (AcceptedRun T s p qs)
  | [], s, p => inferInstanceAs (Decidable (T.Accepts s p))
  | q :: qs, s, p =>
    have := decAcceptedRun T qs (T.feed s p).2.2 q
    inferInstanceAs (Decidable (T.Accepts s p ∧ AcceptedRun T (T.feed s p).2.2 q qs))

theorem flatten_eq_nil_of_nonempty {l : List (List UInt8)} (hne : ∀ p ∈ l, p ≠ []) (h : l.flatten = []) : l = [] := by
  cases l with
  | nil => rfl
  | cons x xs =>
    simp only [List.flatten_cons, List.append_eq_nil_iff] at h
    exact absurd h.1 (hne x (by simp))

/-- One step of re-chunking: a first piece `c ++ e` accepted in full may be cut into `c` and `e`. -/
theorem feedPieces_cut (T : Tokenizer) (hI : T.Incremental) (s : T.σ) (c e : List UInt8) (ds : List (List UInt8))
    (hacc : AcceptedRun T s (c ++ e) ds) :
    AcceptedRun T s c (e :: ds) ∧ feedPieces T s (c ++ e) ds = feedPieces T s c (e :: ds) := by
  cases ds with
  | nil =>
    obtain ⟨h1, h2, h3⟩ := hI.split s c e hacc
    exact ⟨⟨h1, h2⟩, by simp only [feedPieces]; exact h3⟩
  | cons d ds =>
    obtain ⟨ha, hrest⟩ := hacc
    obtain ⟨h1, h2, h3⟩ := hI.split s c e ha
    have hst : (T.feed s (c ++ e)).2.2 = (T.feed (T.feed s c).2.2 e).2.2 := by rw [h3]
    refine ⟨⟨h1, h2, ?_⟩, ?_⟩
    · rw [← hst]; exact hrest
    · simp only [feedPieces]
      rw [← hst, h3]
      simp [List.append_assoc]

/-- Two chunkings of the same byte stream into non-empty pieces, every push accepted in full, give the
    same keys, the same final result and the same tokenizer state. -/
theorem chunkings_agree (T : Tokenizer) (hI : T.Incremental) :
    ∀ (n : Nat) (s : T.σ) (c : List UInt8) (cs : List (List UInt8)) (d : List UInt8) (ds : List (List UInt8)),
      cs.length + ds.length < n →
      (c :: cs).flatten = (d :: ds).flatten → (∀ p ∈ c :: cs, p ≠ []) → (∀ p ∈ d :: ds, p ≠ []) →
      AcceptedRun T s c cs → AcceptedRun T s d ds →
      feedPieces T s c cs = feedPieces T s d ds := by
  intro n
  induction n with
  | zero => intro s c cs d ds h; omega
  | succ n ih =>
    intro s c cs d ds hlen hflat hnc hnd hac had
    simp only [List.flatten_cons] at hflat
    -- same first piece: continue with the tails
    have same : ∀ (cs ds : List (List UInt8)), cs.length + ds.length < n + 1 →
        cs.flatten = ds.flatten → (∀ p ∈ c :: cs, p ≠ []) → (∀ p ∈ c :: ds, p ≠ []) →
        AcceptedRun T s c cs → AcceptedRun T s c ds → feedPieces T s c cs = feedPieces T s c ds := by
      intro cs ds hlen hfl hnc hnd hac had
      cases cs with
      | nil =>
        have : ds = [] := flatten_eq_nil_of_nonempty (fun p hp => hnd p (by simp [hp])) (by simpa using hfl.symm)
        subst this; rfl
      | cons c' cs' =>
        cases ds with
        | nil =>
          have : c' :: cs' = [] := flatten_eq_nil_of_nonempty (fun p hp => hnc p (List.mem_cons_of_mem _ hp)) (by simpa using hfl)
          cases this
        | cons d' ds' =>
          simp only [feedPieces]
          have := ih (T.feed s c).2.2 c' cs' d' ds' (by simp only [List.length_cons] at hlen; omega) hfl
            (fun p hp => hnc p (List.mem_cons_of_mem _ hp)) (fun p hp => hnd p (List.mem_cons_of_mem _ hp)) hac.2 had.2
          rw [this]
    rcases List.append_eq_append_iff.1 hflat with ⟨e, hd, hcs⟩ | ⟨e, hc, hds⟩
    · -- d = c ++ e
      subst hd
      by_cases he : e = []
      · subst he
        simp only [List.append_nil] at hnd had ⊢
        exact same cs ds hlen (by simpa using hcs) hnc hnd hac had
      · obtain ⟨hacc', heq⟩ := feedPieces_cut T hI s c e ds had
        rw [heq]
        have hc_ne : c ≠ [] := hnc c (by simp)
        cases cs with
        | nil => simp at hcs; exact absurd hcs.1 he
        | cons c' cs' =>
          simp only [feedPieces]
          have := ih (T.feed s c).2.2 c' cs' e ds (by simp only [List.length_cons] at hlen; omega)
            (by simpa using hcs) (fun p hp => hnc p (List.mem_cons_of_mem _ hp))
            (fun p hp => by
              simp only [List.mem_cons] at hp
              rcases hp with rfl | hp
              · exact he
              · exact hnd p (List.mem_cons_of_mem _ hp)) hac.2 hacc'.2
          rw [this]
    · -- c = d ++ e
      subst hc
      by_cases he : e = []
      · subst he
        simp only [List.append_nil] at hnc hac same ⊢
        exact same cs ds hlen (by simpa using hds.symm) hnc hnd hac had
      · obtain ⟨hacc', heq⟩ := feedPieces_cut T hI s d e cs hac
        rw [heq]
        cases ds with
        | nil => simp at hds; exact absurd hds.1 he
        | cons d' ds' =>
          simp only [feedPieces]
          have := ih (T.feed s d).2.2 e cs d' ds' (by simp only [List.length_cons] at hlen; omega)
            (by simpa using hds.symm)
            (fun p hp => by
              simp only [List.mem_cons] at hp
              rcases hp with rfl | hp
              · exact he
              · exact hnc p (List.mem_cons_of_mem _ hp))
            (fun p hp => hnd p (List.mem_cons_of_mem _ hp)) hacc'.2 had.2
          rw [this]

/-! ### pushes of the unchanged tree in terms of `feedPieces` -/

theorem armTimeout_armed (t now : TimeVal) (w : Int) (res : Res) (hnow : 0 ≤ now.sec) :
    decide ((armTimeout t now w res).sec ≠ -1) = decide (res = Res.again) := by
  unfold armTimeout
  by_cases h : res = Res.again
  · simp only [h, if_true]
    split <;> simp <;> omega
  · simp [h]

/-- The clock-independent observation of a run of pushes, from the tokenizer's point of view. -/
def semObs (T : Tokenizer) (cfg : Cfg) (fuel : Nat) (tt : Term T) (f : List Key × Res × T.σ) :
    Outcome (T.σ × Nat × Bool × List Event) :=
  match runKeys cfg fuel tt.held f.1 with
  | .ok x => .ok (f.2.2, x.1, decide (f.2.1 = Res.again), x.2)
  | .ub w => .ub w
  | .outOfFuel => .outOfFuel

theorem pushSem_obs (T : Tokenizer) (cfg : Cfg) (fuel : Nat) (now : TimeVal) (hnow : 0 ≤ now.sec) (tt : Term T)
    (bytes : List UInt8) :
    (pushSem T cfg fuel now tt bytes).map pushObs = semObs T cfg fuel tt (T.feed tt.tk bytes) := by
  unfold pushSem semObs
  cases runKeys cfg fuel tt.held (T.feed tt.tk bytes).1 with
  | ok x => simp only [Outcome.map, pushObs]; rw [armTimeout_armed _ _ _ _ hnow]
  | ub w => rfl
  | outOfFuel => rfl

/-- `pushPieces` with every piece pushed by the unchanged `tickit_term_input_push_bytes` (whatever
    `cfg.pushLoops` says). -/
def pushPiecesOnce (T : Tokenizer) (cfg : Cfg) (fuel : Nat) (now : TimeVal) :
    Term T → List (List UInt8) → Outcome (Term T × List Event)
  | tt, [] => .ok (tt, [])
  | tt, p :: ps =>
    match inputPushBytesOnce T cfg fuel now tt p with
    | .ok r =>
      match pushPiecesOnce T cfg fuel now r.1 ps with
      | .ok r' => .ok (r'.1, r.2 ++ r'.2)
      | .ub w => .ub w
      | .outOfFuel => .outOfFuel
    | .ub w => .ub w
    | .outOfFuel => .outOfFuel

theorem pushPieces_eq_once (T : Tokenizer) (cfg : Cfg) (hc : cfg.pushLoops = false) (fuel : Nat) (now : TimeVal) :
    ∀ (ps : List (List UInt8)) (tt : Term T),
      pushPieces T cfg fuel now tt ps = pushPiecesOnce T cfg fuel now tt ps := by
  intro ps
  induction ps with
  | nil => intro tt; rfl
  | cons p ps ih =>
    intro tt
    simp only [pushPieces, pushPiecesOnce, inputPushBytes, hc, Bool.false_eq_true, if_false]
    cases inputPushBytesOnce T cfg fuel now tt p with
    | ok r => simp only; rw [ih r.1]; cases pushPiecesOnce T cfg fuel now r.1 ps <;> rfl
    | ub w => rfl
    | outOfFuel => rfl

theorem pushPiecesOnce_cons (T : Tokenizer) (cfg : Cfg) (fuel : Nat) (now : TimeVal)
    (tt : Term T) (p : List UInt8) (ps : List (List UInt8)) :
    pushPiecesOnce T cfg fuel now tt (p :: ps) =
      match pushSem T cfg fuel now tt p with
      | .ok r =>
        match pushPiecesOnce T cfg fuel now r.1 ps with
        | .ok r' => .ok (r'.1, r.2 ++ r'.2)
        | .ub w => .ub w
        | .outOfFuel => .outOfFuel
      | .ub w => .ub w
      | .outOfFuel => .outOfFuel := by
  simp only [pushPiecesOnce, inputPushBytesOnce_eq]

theorem pushPiecesOnce_obs (T : Tokenizer) (cfg : Cfg) (fuel : Nat) (now : TimeVal)
    (hnow : 0 ≤ now.sec) :
    ∀ (ps : List (List UInt8)) (p : List UInt8) (tt : Term T),
      (pushPiecesOnce T cfg fuel now tt (p :: ps)).map pushObs = semObs T cfg fuel tt (feedPieces T tt.tk p ps) := by
  intro ps
  induction ps with
  | nil =>
    intro p tt
    have h := pushSem_obs T cfg fuel now hnow tt p
    rw [pushPiecesOnce_cons T cfg]
    simp only [feedPieces]
    rw [← h]
    cases pushSem T cfg fuel now tt p with
    | ok r => simp [Outcome.map, pushObs, pushPiecesOnce]
    | ub w => rfl
    | outOfFuel => rfl
  | cons q qs ih =>
    intro p tt
    rw [pushPiecesOnce_cons T cfg]
    simp only [feedPieces]
    unfold semObs
    simp only
    rw [runKeys_append]
    unfold pushSem
    cases hr : runKeys cfg fuel tt.held (T.feed tt.tk p).1 with
    | ok x =>
      simp only
      generalize htt1 : (⟨(T.feed tt.tk p).2.2, x.1,
          armTimeout tt.timeoutAt now (T.waittime (T.feed tt.tk p).2.2) (T.feed tt.tk p).2.1⟩ : Term T) = tt1
      have := ih q tt1
      have htk : tt1.tk = (T.feed tt.tk p).2.2 := by rw [← htt1]
      have hh : tt1.held = x.1 := by rw [← htt1]
      unfold semObs at this
      rw [htk, hh] at this
      cases hp : pushPiecesOnce T cfg fuel now tt1 (q :: qs) with
      | ok r' =>
        rw [hp] at this
        cases hr2 : runKeys cfg fuel x.1 (feedPieces T (T.feed tt.tk p).2.2 q qs).1 with
        | ok y =>
          rw [hr2] at this
          simp only [Outcome.map, pushObs, Outcome.ok.injEq, Prod.mk.injEq] at this ⊢
          obtain ⟨h1, h2, h3, h4⟩ := this
          exact ⟨h1, h2, h3, by rw [h4]⟩
        | ub w => rw [hr2] at this; cases this
        | outOfFuel => rw [hr2] at this; cases this
      | ub w =>
        rw [hp] at this
        cases hr2 : runKeys cfg fuel x.1 (feedPieces T (T.feed tt.tk p).2.2 q qs).1 with
        | ok y => rw [hr2] at this; cases this
        | ub w' => rw [hr2] at this; simp only [Outcome.map] at this ⊢; exact this
        | outOfFuel => rw [hr2] at this; cases this
      | outOfFuel =>
        rw [hp] at this
        cases hr2 : runKeys cfg fuel x.1 (feedPieces T (T.feed tt.tk p).2.2 q qs).1 with
        | ok y => rw [hr2] at this; cases this
        | ub w' => rw [hr2] at this; cases this
        | outOfFuel => rfl
    | ub w => rfl
    | outOfFuel => rfl

theorem pushPieces_obs (T : Tokenizer) (cfg : Cfg) (hc : cfg.pushLoops = false) (fuel : Nat) (now : TimeVal)
    (hnow : 0 ≤ now.sec) (ps : List (List UInt8)) (p : List UInt8) (tt : Term T) :
    (pushPieces T cfg fuel now tt (p :: ps)).map pushObs = semObs T cfg fuel tt (feedPieces T tt.tk p ps) := by
  rw [pushPieces_eq_once T cfg hc]
  exact pushPiecesOnce_obs T cfg fuel now hnow ps p tt

/-! ### the repaired push loop as a chunking -/

/-- The chunks one call of the repaired `tickit_term_input_push_bytes` hands to the tokenizer, and the
    tokenizer state afterwards; `none`: the loop stalled (the tokenizer took nothing although bytes were
    left — its buffer is full of an unfinished sequence — and the rest was dropped). -/
def loopChunks (T : Tokenizer) : Nat → T.σ → List UInt8 → Option (List (List UInt8) × T.σ)
  | 0, _, _ => none
  | n + 1, s, bytes =>
    if bytes.length - min (T.push s bytes).2 bytes.length = 0 then
      some ([bytes], (T.drain (T.push s bytes).1).2.2)
    else if min (T.push s bytes).2 bytes.length = 0 then none
    else
      match loopChunks T n (T.drain (T.push s bytes).1).2.2 (bytes.drop (min (T.push s bytes).2 bytes.length)) with
      | some r => some (bytes.take (min (T.push s bytes).2 bytes.length) :: r.1, r.2)
      | none => none

/-- … of a sequence of calls. -/
def runChunks (T : Tokenizer) : T.σ → List (List UInt8) → Option (List (List UInt8) × T.σ)
  | s, [] => some ([], s)
  | s, p :: ps =>
    match loopChunks T (p.length + 1) s p with
    | some r =>
      match runChunks T r.2 ps with
      | some r' => some (r.1 ++ r'.1, r'.2)
      | none => none
    | none => none

def AcceptedList (T : Tokenizer) : T.σ → List (List UInt8) → Prop
  | _, [] => True
  | s, p :: ps => T.Accepts s p ∧ AcceptedList T (T.feed s p).2.2 ps

def endState (T : Tokenizer) : T.σ → List (List UInt8) → T.σ
  | s, [] => s
  | s, p :: ps => endState T (T.feed s p).2.2 ps

theorem acceptedRun_iff (T : Tokenizer) : ∀ (ps : List (List UInt8)) (s : T.σ) (p : List UInt8),
    AcceptedRun T s p ps ↔ AcceptedList T s (p :: ps) := by
  intro ps
  induction ps with
  | nil => intro s p; simp [AcceptedRun, AcceptedList]
  | cons q qs ih => intro s p; simp only [AcceptedRun, AcceptedList, ih]

theorem acceptedList_append (T : Tokenizer) : ∀ (a b : List (List UInt8)) (s : T.σ),
    AcceptedList T s (a ++ b) ↔ AcceptedList T s a ∧ AcceptedList T (endState T s a) b := by
  intro a
  induction a with
  | nil => intro b s; simp [AcceptedList, endState]
  | cons x xs ih => intro b s; simp only [List.cons_append, AcceptedList, endState, ih, and_assoc]

theorem endState_append (T : Tokenizer) : ∀ (a b : List (List UInt8)) (s : T.σ),
    endState T s (a ++ b) = endState T (endState T s a) b := by
  intro a
  induction a with
  | nil => intro b s; rfl
  | cons x xs ih => intro b s; simp only [List.cons_append, endState, ih]

/-- What `loopChunks` returns: a chunking of the bytes into pieces that are each accepted in full,
    non-empty if the bytes are, and the state after feeding them. -/
theorem loopChunks_spec (T : Tokenizer) (hP : T.PartialPush) :
    ∀ (n : Nat) (s : T.σ) (bytes : List UInt8) (cs : List (List UInt8)) (e : T.σ),
      loopChunks T n s bytes = some (cs, e) →
      cs.flatten = bytes ∧ cs ≠ [] ∧ (bytes ≠ [] → ∀ c ∈ cs, c ≠ []) ∧ AcceptedList T s cs ∧ e = endState T s cs := by
  intro n
  induction n with
  | zero => intro s bytes cs e h; simp [loopChunks] at h
  | succ n ih =>
    intro s bytes cs e h
    have hle := hP.le s bytes
    have hmin : min (T.push s bytes).2 bytes.length = (T.push s bytes).2 := Nat.min_eq_left hle
    unfold loopChunks at h
    rw [hmin] at h
    split at h
    · rename_i hall
      cases h
      have hfull : (T.push s bytes).2 = bytes.length := by omega
      refine ⟨by simp, by simp, ?_, ?_, ?_⟩
      · intro hne c hc
        simp only [List.mem_singleton] at hc
        subst hc; exact hne
      · exact ⟨hfull, trivial⟩
      · simp [endState, Tokenizer.feed]
    · rename_i hnall
      split at h
      · cases h
      · rename_i hpos
        cases hr : loopChunks T n (T.drain (T.push s bytes).1).2.2 (bytes.drop (T.push s bytes).2) with
        | none => rw [hr] at h; cases h
        | some r =>
          rw [hr] at h
          cases h
          obtain ⟨hflat, _, hne', hacc, hend⟩ := ih _ _ r.1 r.2 (by rw [hr])
          have htake := hP.take s bytes
          have hfeed : (T.feed s (bytes.take (T.push s bytes).2)).2.2 = (T.drain (T.push s bytes).1).2.2 := by
            unfold Tokenizer.feed; rw [htake]
          have hacc1 : T.Accepts s (bytes.take (T.push s bytes).2) := by
            unfold Tokenizer.Accepts
            rw [htake, List.length_take]
            omega
          refine ⟨?_, by simp, ?_, ?_, ?_⟩
          · simp only [List.flatten_cons, hflat, List.take_append_drop]
          · intro _ c hc
            simp only [List.mem_cons] at hc
            rcases hc with rfl | hc
            · intro h0
              have := congrArg List.length h0
              simp only [List.length_take, List.length_nil] at this
              omega
            · apply hne' _ c hc
              intro h0
              have := congrArg List.length h0
              simp only [List.length_drop, List.length_nil] at this
              omega
          · exact ⟨hacc1, by rw [hfeed]; exact hacc⟩
          · simp only [endState, hfeed]; exact hend

theorem runChunks_spec (T : Tokenizer) (hP : T.PartialPush) :
    ∀ (ps : List (List UInt8)) (s : T.σ) (cs : List (List UInt8)) (e : T.σ),
      runChunks T s ps = some (cs, e) →
      cs.flatten = ps.flatten ∧ ((∀ p ∈ ps, p ≠ []) → ∀ c ∈ cs, c ≠ []) ∧ (ps ≠ [] → cs ≠ []) ∧
        AcceptedList T s cs ∧ e = endState T s cs := by
  intro ps
  induction ps with
  | nil => intro s cs e h; simp [runChunks] at h; obtain ⟨rfl, rfl⟩ := h; simp [AcceptedList, endState]
  | cons p ps ih =>
    intro s cs e h
    unfold runChunks at h
    cases hl : loopChunks T (p.length + 1) s p with
    | none => rw [hl] at h; cases h
    | some r =>
      rw [hl] at h
      simp only at h
      cases hr : runChunks T r.2 ps with
      | none => rw [hr] at h; cases h
      | some r' =>
        rw [hr] at h
        cases h
        obtain ⟨hf1, hne1, hnn1, ha1, he1⟩ := loopChunks_spec T hP _ s p r.1 r.2 (by rw [hl])
        obtain ⟨hf2, hnn2, _, ha2, he2⟩ := ih r.2 r'.1 r'.2 (by rw [hr])
        refine ⟨by simp [hf1, hf2], ?_, ?_, ?_, ?_⟩
        · intro hall c hc
          simp only [List.mem_append] at hc
          rcases hc with hc | hc
          · exact hnn1 (hall p (by simp)) c hc
          · exact hnn2 (fun q hq => hall q (by simp [hq])) c hc
        · intro _ h0
          simp only [List.append_eq_nil_iff] at h0
          exact hne1 h0.1
        · rw [acceptedList_append]; exact ⟨ha1, by rw [← he1]; exact ha2⟩
        · rw [endState_append, ← he1]; exact he2

theorem inputPushBytesOnce_tk (T : Tokenizer) (cfg : Cfg) (fuel : Nat) (now : TimeVal) (tt : Term T)
    (b : List UInt8) (r : Term T × List Event) (h : inputPushBytesOnce T cfg fuel now tt b = .ok r) :
    r.1.tk = (T.feed tt.tk b).2.2 := by
  rw [inputPushBytesOnce_eq] at h
  unfold pushSem at h
  cases hr : runKeys cfg fuel tt.held (T.feed tt.tk b).1 with
  | ok x => rw [hr] at h; cases h; rfl
  | ub w => rw [hr] at h; cases h
  | outOfFuel => rw [hr] at h; cases h

/-- One call of the repaired push = the unchanged push applied to each chunk in turn. -/
theorem inputPushBytesLoop_eq (T : Tokenizer) (hP : T.PartialPush) (cfg : Cfg) (fuel : Nat) (now : TimeVal) :
    ∀ (n : Nat) (tt : Term T) (bytes : List UInt8) (cs : List (List UInt8)) (e : T.σ),
      loopChunks T n tt.tk bytes = some (cs, e) →
      inputPushBytesLoop T cfg fuel now n tt bytes = pushPiecesOnce T cfg fuel now tt cs := by
  intro n
  induction n with
  | zero => intro tt bytes cs e h; simp [loopChunks] at h
  | succ n ih =>
    intro tt bytes cs e h
    have hle := hP.le tt.tk bytes
    have hmin : min (T.push tt.tk bytes).2 bytes.length = (T.push tt.tk bytes).2 := Nat.min_eq_left hle
    unfold loopChunks at h
    unfold inputPushBytesLoop
    simp only
    rw [hmin] at h ⊢
    split at h
    · rename_i hall
      cases h
      have hfull : (T.push tt.tk bytes).2 = bytes.length := by omega
      have : getKeys T cfg fuel now { tt with tk := (T.push tt.tk bytes).1 } =
          inputPushBytesOnce T cfg fuel now tt bytes := rfl
      rw [this]
      simp only [pushPiecesOnce]
      cases inputPushBytesOnce T cfg fuel now tt bytes with
      | ok r => simp [hall]
      | ub w => rfl
      | outOfFuel => rfl
    · rename_i hnall
      split at h
      · cases h
      · rename_i hpos
        cases hr : loopChunks T n (T.drain (T.push tt.tk bytes).1).2.2 (bytes.drop (T.push tt.tk bytes).2) with
        | none => rw [hr] at h; cases h
        | some r =>
          rw [hr] at h
          cases h
          have htake := hP.take tt.tk bytes
          have hstep : getKeys T cfg fuel now { tt with tk := (T.push tt.tk bytes).1 } =
              inputPushBytesOnce T cfg fuel now tt (bytes.take (T.push tt.tk bytes).2) := by
            unfold inputPushBytesOnce; rw [htake]
          rw [hstep]
          simp only [pushPiecesOnce]
          cases hk : inputPushBytesOnce T cfg fuel now tt (bytes.take (T.push tt.tk bytes).2) with
          | ok x =>
            simp only
            have htk := inputPushBytesOnce_tk T cfg fuel now tt _ x hk
            have hfeed : (T.feed tt.tk (bytes.take (T.push tt.tk bytes).2)).2.2 = (T.drain (T.push tt.tk bytes).1).2.2 := by
              unfold Tokenizer.feed; rw [htake]
            rw [if_neg (by omega)]
            rw [ih x.1 _ r.1 r.2 (by rw [htk, hfeed, hr])]
            cases pushPiecesOnce T cfg fuel now x.1 r.1 <;> rfl
          | ub w => rfl
          | outOfFuel => rfl

theorem pushPiecesOnce_append (T : Tokenizer) (cfg : Cfg) (fuel : Nat) (now : TimeVal) :
    ∀ (a b : List (List UInt8)) (tt : Term T),
      pushPiecesOnce T cfg fuel now tt (a ++ b) =
        match pushPiecesOnce T cfg fuel now tt a with
        | .ok r =>
          match pushPiecesOnce T cfg fuel now r.1 b with
          | .ok r' => .ok (r'.1, r.2 ++ r'.2)
          | .ub w => .ub w
          | .outOfFuel => .outOfFuel
        | .ub w => .ub w
        | .outOfFuel => .outOfFuel := by
  intro a
  induction a with
  | nil =>
    intro b tt
    simp only [List.nil_append, pushPiecesOnce]
    cases pushPiecesOnce T cfg fuel now tt b <;> simp
  | cons x xs ih =>
    intro b tt
    simp only [List.cons_append, pushPiecesOnce]
    cases inputPushBytesOnce T cfg fuel now tt x with
    | ok r =>
      simp only
      rw [ih b r.1]
      cases pushPiecesOnce T cfg fuel now r.1 xs with
      | ok r' =>
        simp only
        cases pushPiecesOnce T cfg fuel now r'.1 b <;> simp
      | ub w => rfl
      | outOfFuel => rfl
    | ub w => rfl
    | outOfFuel => rfl

theorem pushPiecesOnce_tk (T : Tokenizer) (cfg : Cfg) (fuel : Nat) (now : TimeVal) :
    ∀ (cs : List (List UInt8)) (tt : Term T) (r : Term T × List Event),
      pushPiecesOnce T cfg fuel now tt cs = .ok r → r.1.tk = endState T tt.tk cs := by
  intro cs
  induction cs with
  | nil => intro tt r h; simp only [pushPiecesOnce] at h; cases h; rfl
  | cons c cs ih =>
    intro tt r h
    simp only [pushPiecesOnce] at h
    cases hk : inputPushBytesOnce T cfg fuel now tt c with
    | ok x =>
      rw [hk] at h
      simp only at h
      cases hr : pushPiecesOnce T cfg fuel now x.1 cs with
      | ok y =>
        rw [hr] at h
        cases h
        simp only [endState]
        rw [← inputPushBytesOnce_tk T cfg fuel now tt c x hk]
        exact ih x.1 y hr
      | ub w => rw [hr] at h; cases h
      | outOfFuel => rw [hr] at h; cases h
    | ub w => rw [hk] at h; cases h
    | outOfFuel => rw [hk] at h; cases h

/-- A sequence of calls of the repaired push = the unchanged push applied to every chunk of every call. -/
theorem pushPieces_loop_eq (T : Tokenizer) (hP : T.PartialPush) (cfg : Cfg) (hc : cfg.pushLoops = true)
    (fuel : Nat) (now : TimeVal) :
    ∀ (ps : List (List UInt8)) (tt : Term T) (cs : List (List UInt8)) (e : T.σ),
      runChunks T tt.tk ps = some (cs, e) →
      pushPieces T cfg fuel now tt ps = pushPiecesOnce T cfg fuel now tt cs := by
  intro ps
  induction ps with
  | nil => intro tt cs e h; simp [runChunks] at h; obtain ⟨rfl, rfl⟩ := h; rfl
  | cons p ps ih =>
    intro tt cs e h
    unfold runChunks at h
    cases hl : loopChunks T (p.length + 1) tt.tk p with
    | none => rw [hl] at h; cases h
    | some r =>
      rw [hl] at h
      simp only at h
      cases hr : runChunks T r.2 ps with
      | none => rw [hr] at h; cases h
      | some r' =>
        rw [hr] at h
        cases h
        simp only [pushPieces, inputPushBytes, hc, if_true]
        rw [inputPushBytesLoop_eq T hP cfg fuel now _ tt p r.1 r.2 (by rw [hl]), pushPiecesOnce_append]
        obtain ⟨_, _, _, _, hend⟩ := loopChunks_spec T hP _ tt.tk p r.1 r.2 (by rw [hl])
        cases hk : pushPiecesOnce T cfg fuel now tt r.1 with
        | ok x =>
          simp only
          have htk := pushPiecesOnce_tk T cfg fuel now r.1 tt x hk
          rw [ih x.1 r'.1 r'.2 (by rw [htk, ← hend, hr])]
          cases pushPiecesOnce T cfg fuel now x.1 r'.1 <;> rfl
        | ub w => rfl
        | outOfFuel => rfl

/-! ### buffer tokenizers: a lexer over the pending bytes, with a fixed capacity (what libtermkey is) -/

/-- A lexer looks at the pending bytes: `some (k, n)` — they start with key `k` occupying `n` bytes;
    `none` — nothing yet (empty, or an incomplete sequence).  Its decisions are stable under more input. -/
structure Lexer where
  peek : List UInt8 → Option (Key × Nat)
  peek_pos : ∀ buf k n, peek buf = some (k, n) → 0 < n ∧ n ≤ buf.length
  peek_stable : ∀ buf k n more, peek buf = some (k, n) → peek (buf ++ more) = some (k, n)

/-- The tokenizer with a buffer of `cap` bytes: `push` takes what fits (`termkey_push_bytes`), `getkey`
    removes the first key from the front (`termkey_getkey`). -/
@[reducible] def Lexer.tokenizer (L : Lexer) (cap : Nat) : Tokenizer where
  σ := List UInt8
  push s b := (s ++ b.take (cap - s.length), min b.length (cap - s.length))
  getkey s := match L.peek s with
    | some r => (Res.key r.1, s.drop r.2)
    | none => (if s.isEmpty then Res.none else Res.again, s)
  getkeyForce s := (Res.none, s)
  waittime _ := 50
  pending s := s.length
  getkey_consumes := by
    intro s k s' h
    cases hp : L.peek s with
    | none =>
      simp only [hp] at h
      have h1 := congrArg Prod.fst h
      simp only at h1
      split at h1 <;> cases h1
    | some r =>
      simp only [hp] at h
      have h2 := congrArg Prod.snd h
      simp only at h2
      subst h2
      obtain ⟨h0, hle⟩ := L.peek_pos s r.1 r.2 hp
      simp only [List.length_drop]
      omega

theorem Lexer.getkey_some (L : Lexer) (cap : Nat) (s : List UInt8) (k : Key) (n : Nat) (h : L.peek s = some (k, n)) :
    (L.tokenizer cap).getkey s = (Res.key k, s.drop n) := by
  simp [Lexer.tokenizer, h]

theorem Lexer.getkey_none (L : Lexer) (cap : Nat) (s : List UInt8) (h : L.peek s = none) :
    ∃ r, (L.tokenizer cap).getkey s = (r, s) ∧ r.isKey = false := by
  refine ⟨if s.isEmpty then Res.none else Res.again, by simp [Lexer.tokenizer, h], ?_⟩
  split <;> rfl

theorem Lexer.drain_length_le (L : Lexer) (cap : Nat) :
    ∀ (n : Nat) (buf : List UInt8), buf.length < n →
      ((L.tokenizer cap).drain buf).2.2.length ≤ buf.length := by
  intro n
  induction n with
  | zero => intro buf h; omega
  | succ n ih =>
    intro buf hlen
    cases hp : L.peek buf with
    | none =>
      obtain ⟨r, hg, hr⟩ := L.getkey_none cap buf hp
      rw [drain_stop (L.tokenizer cap) buf buf r hg hr]
      exact Nat.le_refl _
    | some x =>
      obtain ⟨k, m⟩ := x
      obtain ⟨h0, hle⟩ := L.peek_pos buf k m hp
      rw [drain_key (L.tokenizer cap) buf (buf.drop m) k (L.getkey_some cap buf k m hp)]
      have := ih (buf.drop m) (by simp only [List.length_drop]; omega)
      simp only [List.length_drop] at this ⊢
      omega

/-- Draining commutes with more input arriving. -/
theorem Lexer.drain_append (L : Lexer) (cap : Nat) :
    ∀ (n : Nat) (buf more : List UInt8), buf.length < n →
      (L.tokenizer cap).drain (buf ++ more) =
        (((L.tokenizer cap).drain buf).1 ++ ((L.tokenizer cap).drain (((L.tokenizer cap).drain buf).2.2 ++ more)).1,
         ((L.tokenizer cap).drain (((L.tokenizer cap).drain buf).2.2 ++ more)).2.1,
         ((L.tokenizer cap).drain (((L.tokenizer cap).drain buf).2.2 ++ more)).2.2) := by
  intro n
  induction n with
  | zero => intro buf more h; omega
  | succ n ih =>
    intro buf more hlen
    cases hp : L.peek buf with
    | none =>
      obtain ⟨r, hg, hr⟩ := L.getkey_none cap buf hp
      rw [drain_stop (L.tokenizer cap) buf buf r hg hr]
      simp
    | some x =>
      obtain ⟨k, m⟩ := x
      obtain ⟨h0, hle⟩ := L.peek_pos buf k m hp
      have hp' := L.peek_stable buf k m more hp
      rw [drain_key (L.tokenizer cap) buf (buf.drop m) k (L.getkey_some cap buf k m hp)]
      have hdrop : (buf ++ more).drop m = buf.drop m ++ more := List.drop_append_of_le_length hle
      rw [drain_key (L.tokenizer cap) (buf ++ more) (buf.drop m ++ more) k (by rw [← hdrop]; exact L.getkey_some cap (buf ++ more) k m hp')]
      rw [ih (buf.drop m) more (by simp only [List.length_drop]; omega)]
      simp

theorem Lexer.accepts_iff (L : Lexer) (cap : Nat) (s b : List UInt8) :
    (L.tokenizer cap).Accepts s b ↔ b.length ≤ cap - s.length := by
  unfold Tokenizer.Accepts
  simp only [Lexer.tokenizer]
  omega

theorem Lexer.feed_of_accepts (L : Lexer) (cap : Nat) (s b : List UInt8) (h : b.length ≤ cap - s.length) :
    (L.tokenizer cap).feed s b = (L.tokenizer cap).drain (s ++ b) := by
  unfold Tokenizer.feed
  have : ((L.tokenizer cap).push s b).1 = s ++ b := by
    simp only [Lexer.tokenizer]
    rw [List.take_of_length_le h]
  rw [this]

/-- Every buffer tokenizer takes a prefix. -/
theorem Lexer.partialPush (L : Lexer) (cap : Nat) : (L.tokenizer cap).PartialPush where
  le := by intro s b; show min b.length (cap - s.length) ≤ b.length; omega
  take := by
    intro s b
    simp only [List.take_take, List.length_take]
    have h2 : min (cap - s.length) (min b.length (cap - s.length)) = min b.length (cap - s.length) := by omega
    have h3 : min (min (min b.length (cap - s.length)) b.length) (cap - s.length) = min b.length (cap - s.length) := by
      omega
    rw [h2, h3]
    have h4 : List.take (min b.length (cap - s.length)) b = List.take (cap - s.length) b := by
      by_cases h : b.length ≤ cap - s.length
      · rw [Nat.min_eq_left h, List.take_of_length_le (Nat.le_refl _), List.take_of_length_le h]
      · rw [Nat.min_eq_right (by omega)]
    rw [h4]

/-- Every buffer tokenizer obeys the law. -/
theorem Lexer.incremental (L : Lexer) (cap : Nat) : (L.tokenizer cap).Incremental where
  split := by
    intro s a b hacc
    rw [Lexer.accepts_iff] at hacc
    simp only [List.length_append] at hacc
    have ha : a.length ≤ cap - s.length := by omega
    have hrest := L.drain_length_le cap (s ++ a).length.succ (s ++ a) (Nat.lt_succ_self _)
    simp only [List.length_append] at hrest
    rw [Lexer.accepts_iff, Lexer.accepts_iff, L.feed_of_accepts cap s a ha]
    have hb : b.length ≤ cap - (((L.tokenizer cap).drain (s ++ a)).2.2).length := by omega
    refine ⟨ha, hb, ?_⟩
    rw [L.feed_of_accepts cap _ b hb, L.feed_of_accepts cap s (a ++ b) (by simp only [List.length_append]; omega)]
    rw [← List.append_assoc]
    exact L.drain_append cap (s ++ a).length.succ (s ++ a) b (Nat.lt_succ_self _)

/-! ### a small concrete lexer: text bytes, ESC, CSI sequences, SGR-1006 mouse reports -/

namespace Csi

def isParamByte (b : UInt8) : Bool := decide (0x30 ≤ b) && decide (b ≤ 0x3f)

/-- After `ESC [`: parameter bytes (0x30..0x3f), then one final byte.  `none`: not finished. -/
def scan : List UInt8 → Option (List UInt8 × UInt8)
  | [] => none
  | b :: rest =>
    if isParamByte b then
      match scan rest with
      | some r => some (b :: r.1, r.2)
      | none => none
    else some ([], b)

/-- Decimal numbers separated by `;` (any other byte is skipped). -/
def nums : List UInt8 → Nat → List Nat
  | [], acc => [acc]
  | b :: rest, acc =>
    if b = 0x3b then acc :: nums rest 0
    else if decide (0x30 ≤ b) && decide (b ≤ 0x39) then nums rest (acc * 10 + (b.toNat - 0x30))
    else nums rest acc

/-- What `termkey_interpret_mouse` makes of an SGR button code. -/
def mouseKey (code x y : Nat) (release : Bool) : Key :=
  let mods := (code / 4) % 8
  let drag := (code / 32) % 2 = 1
  let c := code % 4 + (code / 64) * 64
  let evb : Int × Int :=
    if c < 3 then (if drag then TERMKEY_MOUSE_DRAG else TERMKEY_MOUSE_PRESS, (c : Int) + 1)
    else if c = 3 then (TERMKEY_MOUSE_RELEASE, 0)
    else if c = 64 ∨ c = 65 then (if drag then TERMKEY_MOUSE_DRAG else TERMKEY_MOUSE_PRESS, (c : Int) - 60)
    else (TERMKEY_MOUSE_UNKNOWN, 0)
  Key.mouse (if release then TERMKEY_MOUSE_RELEASE else evb.1) evb.2 y x mods

def csiKey (params : List UInt8) (final : UInt8) : Key :=
  match params with
  | 0x3c :: rest =>
    if final = 0x4d ∨ final = 0x6d then
      match nums rest 0 with
      | [code, x, y] => mouseKey code x y (final = 0x6d)
      | _ => Key.other (-1)
    else Key.other (-1)
  | _ => Key.keysym 0 (params ++ [final])

def escapeKey : Key := Key.keysym 0 [0x45, 0x73, 0x63]

def peek (buf : List UInt8) : Option (Key × Nat) :=
  match buf with
  | [] => none
  | b0 :: rest0 =>
    if b0 ≠ 0x1b then some (Key.unicode 0 [b0] [b0], 1)
    else
      match rest0 with
      | [] => none
      | b1 :: rest1 =>
        if b1 ≠ 0x5b then some (escapeKey, 1)
        else
          match scan rest1 with
          | some r => some (csiKey r.1 r.2, r.1.length + 3)
          | none => none

theorem scan_length : ∀ (l : List UInt8) (r : List UInt8 × UInt8), scan l = some r → r.1.length + 1 ≤ l.length := by
  intro l
  induction l with
  | nil => intro r h; simp [scan] at h
  | cons b rest ih =>
    intro r h
    unfold scan at h
    split at h
    · cases hs : scan rest with
      | none => rw [hs] at h; cases h
      | some r' =>
        rw [hs] at h
        cases h
        have := ih r' hs
        simp only [List.length_cons]
        omega
    · cases h; simp

theorem scan_stable : ∀ (l more : List UInt8) (r : List UInt8 × UInt8), scan l = some r → scan (l ++ more) = some r := by
  intro l
  induction l with
  | nil => intro more r h; simp [scan] at h
  | cons b rest ih =>
    intro more r h
    simp only [List.cons_append]
    unfold scan at h ⊢
    split at h
    · rename_i hb
      rw [if_pos hb]
      cases hs : scan rest with
      | none => rw [hs] at h; cases h
      | some r' =>
        rw [hs] at h
        rw [ih more r' hs]
        exact h
    · rename_i hb
      rw [if_neg hb]
      exact h

/-- The lexer: its decisions need at most the bytes they consume, and survive more input. -/
def lexer : Lexer where
  peek := peek
  peek_pos := by
    intro buf k n h
    unfold peek at h
    split at h
    · cases h
    · rename_i b0 rest0
      split at h
      · cases h; simp
      · split at h
        · cases h
        · rename_i b1 rest1
          split at h
          · cases h; simp
          · cases hs : scan rest1 with
            | none => rw [hs] at h; cases h
            | some r =>
              rw [hs] at h
              cases h
              have := scan_length rest1 r hs
              simp only [List.length_cons]
              omega
  peek_stable := by
    intro buf k n more h
    unfold peek at h ⊢
    split at h
    · cases h
    · rename_i b0 rest0
      simp only [List.cons_append]
      split at h
      · rename_i hb
        rw [if_pos hb]; exact h
      · rename_i hb
        rw [if_neg hb]
        split at h
        · cases h
        · rename_i b1 rest1
          simp only [List.cons_append]
          split at h
          · rename_i hb1
            rw [if_pos hb1]; exact h
          · rename_i hb1
            rw [if_neg hb1]
            cases hs : scan rest1 with
            | none => rw [hs] at h; cases h
            | some r =>
              rw [hs] at h
              rw [scan_stable rest1 more r hs]
              exact h

end Csi

end Tickit.InputXlate
