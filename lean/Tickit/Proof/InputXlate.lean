import Tickit.Model.InputXlate
/-
  Helper lemmas for C20 (Props/C20.lean): the bit mask as a set, the X10 release loop,
  got_key as a refinement of the specification, the drain loop against the tokenizer.
-/
namespace Tickit.InputXlate

/-! ### bits -/

theorem bit_eq (n : Nat) : bit n = 2 ^ n := Nat.one_shiftLeft n

theorem testBit_bit (n i : Nat) : (bit n).testBit i = decide (n = i) := by
  rw [bit_eq]; exact Nat.testBit_two_pow

theorem testBit_setBit (h n i : Nat) : (setBit h n).testBit i = (h.testBit i || decide (n = i)) := by
  unfold setBit; rw [Nat.testBit_or, testBit_bit]

theorem testBit_clearBit (h n i : Nat) : (clearBit h n).testBit i = (h.testBit i && !decide (n = i)) := by
  unfold clearBit
  rw [Nat.testBit_xor, Nat.testBit_and, testBit_bit]
  cases h.testBit i <;> cases decide (n = i) <;> rfl

theorem hasBit_eq (h n : Nat) : hasBit h n = h.testBit n := by
  unfold hasBit
  cases hb : h.testBit n
  · have : h &&& bit n = 0 := by
      apply Nat.eq_of_testBit_eq
      intro i
      rw [Nat.testBit_and, testBit_bit, Nat.zero_testBit]
      by_cases hi : n = i
      · subst hi; simp [hb]
      · simp [hi]
    simp [this]
  · have : (h &&& bit n).testBit n = true := by
      rw [Nat.testBit_and, testBit_bit, hb]; simp
    have hne : h &&& bit n ≠ 0 := by
      intro h0; rw [h0, Nat.zero_testBit] at this; cases this
    simp [hne]

theorem eq_zero_of_testBit (h : Nat) (hz : ∀ i, h.testBit i = false) : h = 0 := by
  apply Nat.eq_of_testBit_eq
  intro i; rw [hz i, Nat.zero_testBit]

/-- The mask fits a non-negative `int`. -/
def Fits (held : Nat) : Prop := held < 2 ^ INT_SHIFT_LIMIT

theorem Fits.testBit_false {held : Nat} (hf : Fits held) {i : Nat} (hi : INT_SHIFT_LIMIT ≤ i) :
    held.testBit i = false := by
  apply Nat.testBit_lt_two_pow
  exact Nat.lt_of_lt_of_le hf (Nat.pow_le_pow_right (by decide) hi)

theorem fits_of_testBit {held : Nat} (h : ∀ i, INT_SHIFT_LIMIT ≤ i → held.testBit i = false) : Fits held :=
  Nat.lt_pow_two_of_testBit held h

theorem fits_setBit {held n : Nat} (hf : Fits held) (hn : n < INT_SHIFT_LIMIT) : Fits (setBit held n) := by
  apply fits_of_testBit
  intro i hi
  rw [testBit_setBit, hf.testBit_false hi]
  have : n ≠ i := by omega
  simp [this]

theorem fits_clearBit {held n : Nat} (hf : Fits held) : Fits (clearBit held n) := by
  apply fits_of_testBit
  intro i hi
  rw [testBit_clearBit, hf.testBit_false hi]; rfl

theorem fits_zero : Fits 0 := by unfold Fits; exact Nat.two_pow_pos _

/-- The buttons recorded in the mask, ascending. -/
def heldButtons (held : Nat) : List Nat := (List.range' 0 INT_SHIFT_LIMIT).filter (fun i => held.testBit i)

theorem mem_heldButtons {held b : Nat} : b ∈ heldButtons held ↔ b < INT_SHIFT_LIMIT ∧ held.testBit b = true := by
  unfold heldButtons
  simp [List.mem_filter, List.mem_range']

theorem heldButtons_zero : heldButtons 0 = [] := by
  unfold heldButtons
  apply List.filter_eq_nil_iff.2
  intro a _; simp

/-! ### the X10 release loop -/

def releaseEvent (line col mods : Int) (b : Nat) : Event :=
  Event.mouse MOUSEEV_RELEASE (b : Int) line col mods

/-- With enough fuel and no bit below `button` set, the loop reports exactly the set bits from `button`
    upwards, ascending, and leaves the mask empty. -/
theorem releaseLoop_ok (line col mods : Int) :
    ∀ (fuel button held : Nat), Fits held → (∀ i, i < button → held.testBit i = false) →
      button ≤ INT_SHIFT_LIMIT → INT_SHIFT_LIMIT ≤ fuel + button →
      releaseLoop line col mods fuel button held =
        .ok (0, ((List.range' button (INT_SHIFT_LIMIT - button)).filter (fun i => held.testBit i)).map
                  (releaseEvent line col mods)) := by
  intro fuel
  induction fuel with
  | zero =>
    intro button held hf hlow hb hfuel
    have hbe : button = INT_SHIFT_LIMIT := by omega
    have hz : held = 0 := by
      apply eq_zero_of_testBit
      intro i
      by_cases hi : i < button
      · exact hlow i hi
      · exact hf.testBit_false (by omega)
    subst hz
    simp [releaseLoop, hbe]
  | succ fuel ih =>
    intro button held hf hlow hb hfuel
    unfold releaseLoop
    by_cases hz : held = 0
    · subst hz
      simp
    · rw [if_neg hz]
      obtain ⟨j, hj⟩ := Nat.exists_testBit_of_ne_zero hz
      have hjb : button ≤ j := by
        apply Nat.le_of_not_lt
        intro hlt
        rw [hlow j hlt] at hj; cases hj
      have hj31 : j < INT_SHIFT_LIMIT := by
        apply Nat.lt_of_not_le
        intro hge
        rw [hf.testBit_false hge] at hj; cases hj
      have hb31 : button < INT_SHIFT_LIMIT := by omega
      rw [if_neg (by omega)]
      have hrange : List.range' button (INT_SHIFT_LIMIT - button) =
          button :: List.range' (button + 1) (INT_SHIFT_LIMIT - (button + 1)) := by
        have : INT_SHIFT_LIMIT - button = (INT_SHIFT_LIMIT - (button + 1)) + 1 := by omega
        rw [this, List.range'_succ]
      rw [hasBit_eq]
      cases hbit : held.testBit button
      · -- bit clear: go on with the same mask
        simp only [Bool.false_eq_true, if_false]
        rw [ih (button + 1) held hf (by
              intro i hi
              by_cases h' : i = button
              · subst h'; exact hbit
              · exact hlow i (by omega)) (by omega) (by omega)]
        rw [hrange, List.filter_cons, hbit]
        simp
      · simp only [if_true]
        rw [ih (button + 1) (clearBit held button) (fits_clearBit hf) (by
              intro i hi
              rw [testBit_clearBit]
              by_cases h' : i = button
              · subst h'; simp
              · rw [hlow i (by omega)]; rfl) (by omega) (by omega)]
        simp only
        rw [hrange, List.filter_cons, hbit]
        simp only [if_true, List.map_cons]
        have hcongr : (List.range' (button + 1) (INT_SHIFT_LIMIT - (button + 1))).filter
              (fun i => (clearBit held button).testBit i) =
            (List.range' (button + 1) (INT_SHIFT_LIMIT - (button + 1))).filter (fun i => held.testBit i) := by
          apply List.filter_congr
          intro x hx
          rw [testBit_clearBit]
          have : button ≠ x := by
            have := (List.mem_range'_1.1 hx).1
            omega
          simp [this]
        rw [hcongr]
        rfl

/-- If bit 0 of the mask is set the loop can never leave: the mask never becomes empty, and the shift
    count reaches 31.  (`1 ≤ button`: the loop starts at 1 and only counts up.) -/
theorem releaseLoop_bit0_not_ok (line col mods : Int) :
    ∀ (fuel button held : Nat), held.testBit 0 = true → 1 ≤ button →
      ∀ r, releaseLoop line col mods fuel button held ≠ .ok r := by
  intro fuel
  induction fuel with
  | zero =>
    intro button held h0 _ r
    have hz : held ≠ 0 := by
      intro hz; rw [hz, Nat.zero_testBit] at h0; cases h0
    simp [releaseLoop, hz]
  | succ fuel ih =>
    intro button held h0 hb r
    have hz : held ≠ 0 := by
      intro hz; rw [hz, Nat.zero_testBit] at h0; cases h0
    unfold releaseLoop
    rw [if_neg hz]
    split
    · intro h; cases h
    · split
      · have h0' : (clearBit held button).testBit 0 = true := by
          rw [testBit_clearBit, h0]
          have : button ≠ 0 := by omega
          simp [this]
        have := ih (button + 1) (clearBit held button) h0' (by omega)
        split
        · rename_i r' heq
          exact absurd heq (this r')
        · intro h; cases h
        · intro h; cases h
      · exact ih (button + 1) held h0 (by omega) r

/-- … and with the fuel that suffices for every legal mask, what happens is the undefined shift. -/
theorem releaseLoop_bit0_ub (line col mods : Int) :
    ∀ (fuel button held : Nat), held.testBit 0 = true → 1 ≤ button → 1 ≤ fuel →
      INT_SHIFT_LIMIT + 1 ≤ fuel + button →
      ∃ w, releaseLoop line col mods fuel button held = .ub w := by
  intro fuel
  induction fuel with
  | zero => intro _ _ _ _ h; omega
  | succ fuel ih =>
    intro button held h0 hb _ hfuel
    have hz : held ≠ 0 := by
      intro hz; rw [hz, Nat.zero_testBit] at h0; cases h0
    unfold releaseLoop
    rw [if_neg hz]
    by_cases hge : INT_SHIFT_LIMIT ≤ button
    · rw [if_pos hge]; exact ⟨_, rfl⟩
    · rw [if_neg hge]
      have hf1 : 1 ≤ fuel := by omega
      split
      · have h0' : (clearBit held button).testBit 0 = true := by
          rw [testBit_clearBit, h0]
          have : button ≠ 0 := by omega
          simp [this]
        obtain ⟨w, hw⟩ := ih (button + 1) (clearBit held button) h0' (by omega) hf1 (by omega)
        rw [hw]; exact ⟨_, rfl⟩
      · exact ih (button + 1) held h0 (by omega) hf1 (by omega)

/-! ### the mask refines the set of held buttons -/

theorem insert_of_all_gt {b : Nat} {l : List Nat} (h : ∀ x ∈ l, b < x) : Spec.insert b l = b :: l := by
  cases l with
  | nil => rfl
  | cons x xs =>
    have : b < x := h x (by simp)
    simp [Spec.insert, this]

theorem insert_filter_range' (p : Nat → Bool) (b : Nat) :
    ∀ (n s : Nat), s ≤ b → b < s + n →
      Spec.insert b ((List.range' s n).filter p) = (List.range' s n).filter (fun i => p i || decide (b = i)) := by
  intro n
  induction n with
  | zero => intro s h1 h2; omega
  | succ n ih =>
    intro s h1 h2
    rw [List.range'_succ, List.filter_cons, List.filter_cons]
    by_cases hs : s = b
    · subst hs
      have hrest : (List.range' (s + 1) n).filter (fun i => p i || decide (s = i)) = (List.range' (s + 1) n).filter p := by
        apply List.filter_congr
        intro x hx
        have : s ≠ x := by
          have := (List.mem_range'_1.1 hx).1
          omega
        simp [this]
      simp only [decide_true, Bool.or_true, if_true]
      rw [hrest]
      cases hp : p s
      · simp only [Bool.false_eq_true, if_false]
        apply insert_of_all_gt
        intro x hx
        have := (List.mem_range'_1.1 (List.mem_filter.1 hx).1).1
        omega
      · simp [Spec.insert]
    · have hlt : s < b := by omega
      have hbs : ¬ b = s := by omega
      simp only [hbs, decide_false, Bool.or_false]
      cases hp : p s
      · simp only [Bool.false_eq_true, if_false]
        exact ih (s + 1) (by omega) (by omega)
      · simp only [if_true]
        rw [← ih (s + 1) (by omega) (by omega)]
        have h1 : ¬ b < s := by omega
        simp [Spec.insert, h1, hbs]

theorem heldButtons_setBit {held b : Nat} (hb : b < INT_SHIFT_LIMIT) :
    heldButtons (setBit held b) = Spec.insert b (heldButtons held) := by
  unfold heldButtons
  rw [insert_filter_range' _ b INT_SHIFT_LIMIT 0 (by omega) (by omega)]
  apply List.filter_congr
  intro x _
  rw [testBit_setBit]

theorem heldButtons_clearBit {held b : Nat} :
    heldButtons (clearBit held b) = Spec.erase b (heldButtons held) := by
  unfold heldButtons Spec.erase
  rw [List.filter_filter]
  apply List.filter_congr
  intro x _
  rw [testBit_clearBit]
  by_cases h : b = x
  · subst h; simp
  · have : x ≠ b := fun h' => h h'.symm
    simp [h, this]

/-- What every mask reachable from a fresh terminal satisfies: it fits an `int` and bit 0 is clear. -/
def MaskInv (held : Nat) : Prop := Fits held ∧ held.testBit 0 = false

theorem maskInv_zero : MaskInv 0 := ⟨fits_zero, Nat.zero_testBit 0⟩

/-- Mouse reports the tokenizer could classify. -/
def Key.KnownKind : Key → Prop
  | .mouse ev _ _ _ _ => ev = TERMKEY_MOUSE_PRESS ∨ ev = TERMKEY_MOUSE_DRAG ∨ ev = TERMKEY_MOUSE_RELEASE
  | _ => True

instance (k : Key) : Decidable k.KnownKind := by
  cases k <;> unfold Key.KnownKind <;> infer_instance

theorem heldButtons_eq_tail {held : Nat} (h0 : held.testBit 0 = false) :
    heldButtons held = (List.range' 1 (INT_SHIFT_LIMIT - 1)).filter (fun i => held.testBit i) := by
  unfold heldButtons
  have : List.range' 0 INT_SHIFT_LIMIT = 0 :: List.range' 1 (INT_SHIFT_LIMIT - 1) := by decide
  rw [this, List.filter_cons, h0]
  simp

/-- `got_key` on a mouse report, case by case (the shape `gotKey` reduces to). -/
theorem gotKey_mouse_press (cfg : Cfg) (fuel held : Nat) (button line col mods : Int)
    (h0 : 0 ≤ button) (h4 : button < WHEEL_FIRST_BUTTON) :
    gotKey cfg fuel held (.mouse TERMKEY_MOUSE_PRESS button line col mods) =
      .ok (setBit held button.toNat, [Event.mouse MOUSEEV_PRESS button (line - 1) (col - 1) mods]) := by
  have hs : shiftOk button = true := by
    unfold shiftOk WHEEL_FIRST_BUTTON INT_SHIFT_LIMIT at *
    simp only [Bool.and_eq_true, decide_eq_true_eq]; omega
  have hw : ¬ (button ≥ WHEEL_FIRST_BUTTON) := by omega
  simp [gotKey, mouseType, TERMKEY_MOUSE_PRESS, MOUSEEV_PRESS, MOUSEEV_DRAG, hw, hs]

theorem gotKey_mouse_wheel (cfg : Cfg) (fuel held : Nat) (button line col mods : Int)
    (h4 : WHEEL_FIRST_BUTTON ≤ button) :
    gotKey cfg fuel held (.mouse TERMKEY_MOUSE_PRESS button line col mods) =
      .ok (held, [Event.mouse MOUSEEV_WHEEL (button - 3) (line - 1) (col - 1) mods]) := by
  have hw : button ≥ WHEEL_FIRST_BUTTON := h4
  simp [gotKey, mouseType, TERMKEY_MOUSE_PRESS, MOUSEEV_PRESS, MOUSEEV_DRAG, MOUSEEV_WHEEL, MOUSEEV_RELEASE,
    MOUSEWHEEL_UP, hw]
  simp [WHEEL_FIRST_BUTTON]

theorem gotKey_mouse_drag (cfg : Cfg) (fuel held : Nat) (button line col mods : Int)
    (h0 : 0 ≤ button) (h31 : button < 31) :
    gotKey cfg fuel held (.mouse TERMKEY_MOUSE_DRAG button line col mods) =
      .ok (setBit held button.toNat, [Event.mouse MOUSEEV_DRAG button (line - 1) (col - 1) mods]) := by
  have hs : shiftOk button = true := by
    unfold shiftOk INT_SHIFT_LIMIT
    simp only [Bool.and_eq_true, decide_eq_true_eq]; omega
  simp [gotKey, mouseType, TERMKEY_MOUSE_PRESS, TERMKEY_MOUSE_DRAG, MOUSEEV_PRESS, MOUSEEV_DRAG, hs]

theorem gotKey_mouse_release_button (cfg : Cfg) (fuel held : Nat) (button line col mods : Int)
    (h0 : 0 < button) (h31 : button < 31) :
    gotKey cfg fuel held (.mouse TERMKEY_MOUSE_RELEASE button line col mods) =
      .ok (clearBit held button.toNat, [Event.mouse MOUSEEV_RELEASE button (line - 1) (col - 1) mods]) := by
  have hs : shiftOk button = true := by
    unfold shiftOk INT_SHIFT_LIMIT
    simp only [Bool.and_eq_true, decide_eq_true_eq]; omega
  have hne : button ≠ 0 := by omega
  simp [gotKey, mouseType, TERMKEY_MOUSE_PRESS, TERMKEY_MOUSE_DRAG, TERMKEY_MOUSE_RELEASE, MOUSEEV_PRESS,
    MOUSEEV_DRAG, MOUSEEV_RELEASE, hs, hne]

theorem gotKey_mouse_release_all (cfg : Cfg) (fuel held : Nat) (line col mods : Int) :
    gotKey cfg fuel held (.mouse TERMKEY_MOUSE_RELEASE 0 line col mods) =
      releaseLoop (line - 1) (col - 1) mods fuel RELEASE_LOOP_START held := by
  simp [gotKey, mouseType, TERMKEY_MOUSE_PRESS, TERMKEY_MOUSE_DRAG, TERMKEY_MOUSE_RELEASE, MOUSEEV_PRESS,
    MOUSEEV_DRAG, MOUSEEV_RELEASE]

theorem gotKey_mouse_unknown (cfg : Cfg) (fuel held : Nat) (ev button line col mods : Int)
    (h1 : ev ≠ TERMKEY_MOUSE_PRESS) (h2 : ev ≠ TERMKEY_MOUSE_DRAG) (h3 : ev ≠ TERMKEY_MOUSE_RELEASE) :
    gotKey cfg fuel held (.mouse ev button line col mods) =
      if cfg.dropUnknownMouse then .ok (held, [])
      else .ok (held, [Event.mouse (-1) button (line - 1) (col - 1) mods]) := by
  unfold TERMKEY_MOUSE_PRESS TERMKEY_MOUSE_DRAG TERMKEY_MOUSE_RELEASE at *
  cases hd : cfg.dropUnknownMouse <;>
    simp [gotKey, mouseType, TERMKEY_MOUSE_PRESS, TERMKEY_MOUSE_DRAG, TERMKEY_MOUSE_RELEASE, MOUSEEV_PRESS,
      MOUSEEV_DRAG, MOUSEEV_RELEASE, MOUSEEV_WHEEL, h1, h2, h3, hd]

/-- One key: `got_key` does what the specification says, and keeps the invariant.  Hypotheses: the mask
    invariant, what the property trusts of the tokenizer (`WF`), a mouse report of a kind the
    specification knows (or the repaired `default:` arm), the two driver callbacks present, and fuel for
    the 30 possible iterations of the X10 loop. -/
theorem gotKey_refines (cfg : Cfg) (fuel : Nat) (hfuel : INT_SHIFT_LIMIT ≤ fuel + 1) (held : Nat)
    (hinv : MaskInv held) (k : Key) (hwf : k.WF) (hknown : cfg.dropUnknownMouse = true ∨ k.KnownKind)
    (hcb : cfg.onModereport = true ∧ cfg.onDecrqss = true) :
    ∃ held', gotKey cfg fuel held k = .ok (held', (Spec.keyEvents (heldButtons held) k).2) ∧
      MaskInv held' ∧ heldButtons held' = (Spec.keyEvents (heldButtons held) k).1 := by
  obtain ⟨hfit, hbit0⟩ := hinv
  cases k with
  | mouse ev button line col mods =>
    obtain ⟨hb0, hb31, hbpos⟩ := hwf
    by_cases hp : ev = TERMKEY_MOUSE_PRESS
    · subst hp
      by_cases hw : WHEEL_FIRST_BUTTON ≤ button
      · refine ⟨held, ?_, ⟨hfit, hbit0⟩, ?_⟩
        · rw [gotKey_mouse_wheel cfg fuel held button line col mods hw]
          have : button ≥ 4 := hw
          simp [Spec.keyEvents, this]
        · have : button ≥ 4 := hw
          simp [Spec.keyEvents, this]
      · have hlt : button < WHEEL_FIRST_BUTTON := by omega
        have hlt4 : ¬ button ≥ 4 := by unfold WHEEL_FIRST_BUTTON at hlt; omega
        have h1 : 1 ≤ button := hbpos (Or.inl rfl)
        have hnat : button.toNat < INT_SHIFT_LIMIT := by unfold INT_SHIFT_LIMIT; omega
        refine ⟨setBit held button.toNat, ?_, ⟨fits_setBit hfit hnat, ?_⟩, ?_⟩
        · rw [gotKey_mouse_press cfg fuel held button line col mods hb0 hlt]
          simp [Spec.keyEvents, hlt4]
        · rw [testBit_setBit, hbit0]
          have : button.toNat ≠ 0 := by omega
          simp [this]
        · rw [heldButtons_setBit hnat]
          simp [Spec.keyEvents, hlt4]
    · by_cases hd : ev = TERMKEY_MOUSE_DRAG
      · subst hd
        have h1 : 1 ≤ button := hbpos (Or.inr rfl)
        have hnat : button.toNat < INT_SHIFT_LIMIT := by unfold INT_SHIFT_LIMIT; omega
        refine ⟨setBit held button.toNat, ?_, ⟨fits_setBit hfit hnat, ?_⟩, ?_⟩
        · rw [gotKey_mouse_drag cfg fuel held button line col mods hb0 hb31]
          simp [Spec.keyEvents, TERMKEY_MOUSE_DRAG, TERMKEY_MOUSE_PRESS]
        · rw [testBit_setBit, hbit0]
          have : button.toNat ≠ 0 := by omega
          simp [this]
        · rw [heldButtons_setBit hnat]
          simp [Spec.keyEvents, TERMKEY_MOUSE_DRAG, TERMKEY_MOUSE_PRESS]
      · by_cases hr : ev = TERMKEY_MOUSE_RELEASE
        · subst hr
          by_cases hz : button = 0
          · subst hz
            refine ⟨0, ?_, maskInv_zero, ?_⟩
            · rw [gotKey_mouse_release_all,
                releaseLoop_ok (line - 1) (col - 1) mods fuel RELEASE_LOOP_START held hfit
                  (by intro i hi; have : i = 0 := by unfold RELEASE_LOOP_START at hi; omega
                      subst this; exact hbit0)
                  (by decide) (by unfold RELEASE_LOOP_START; omega)]
              rw [heldButtons_eq_tail hbit0]
              simp [Spec.keyEvents, TERMKEY_MOUSE_RELEASE, TERMKEY_MOUSE_PRESS, TERMKEY_MOUSE_DRAG,
                RELEASE_LOOP_START, releaseEvent]
            · rw [heldButtons_zero]
              simp [Spec.keyEvents, TERMKEY_MOUSE_RELEASE, TERMKEY_MOUSE_PRESS, TERMKEY_MOUSE_DRAG]
          · have hpos : 0 < button := by omega
            refine ⟨clearBit held button.toNat, ?_, ⟨fits_clearBit hfit, ?_⟩, ?_⟩
            · rw [gotKey_mouse_release_button cfg fuel held button line col mods hpos hb31]
              simp [Spec.keyEvents, TERMKEY_MOUSE_RELEASE, TERMKEY_MOUSE_PRESS, TERMKEY_MOUSE_DRAG, hz]
            · rw [testBit_clearBit, hbit0]; rfl
            · rw [heldButtons_clearBit]
              simp [Spec.keyEvents, TERMKEY_MOUSE_RELEASE, TERMKEY_MOUSE_PRESS, TERMKEY_MOUSE_DRAG, hz]
        · -- a report the tokenizer could not classify: only with the repaired default arm
          have hdrop : cfg.dropUnknownMouse = true := by
            rcases hknown with h | h
            · exact h
            · rcases h with h | h | h
              · exact absurd h hp
              · exact absurd h hd
              · exact absurd h hr
          refine ⟨held, ?_, ⟨hfit, hbit0⟩, ?_⟩
          · rw [gotKey_mouse_unknown cfg fuel held ev button line col mods hp hd hr, hdrop]
            simp [Spec.keyEvents, hp, hd, hr]
          · simp [Spec.keyEvents, hp, hd, hr]
  | unicode mods utf8 name =>
    refine ⟨held, ?_, ⟨hfit, hbit0⟩, ?_⟩
    · by_cases hm : mods = 0
      · subst hm; simp [gotKey, Spec.keyEvents]
      · simp [gotKey, Spec.keyEvents, hm]
    · by_cases hm : mods = 0 <;> simp [Spec.keyEvents, hm]
  | function mods name => exact ⟨held, by simp [gotKey, Spec.keyEvents], ⟨hfit, hbit0⟩, by simp [Spec.keyEvents]⟩
  | keysym mods name => exact ⟨held, by simp [gotKey, Spec.keyEvents], ⟨hfit, hbit0⟩, by simp [Spec.keyEvents]⟩
  | modereport i m v =>
    exact ⟨held, by simp [gotKey, Spec.keyEvents, hcb.1], ⟨hfit, hbit0⟩, by simp [Spec.keyEvents]⟩
  | dcs str =>
    cases str with
    | none => exact ⟨held, by simp [gotKey, Spec.keyEvents], ⟨hfit, hbit0⟩, by simp [Spec.keyEvents]⟩
    | some s =>
      refine ⟨held, ?_, ⟨hfit, hbit0⟩, ?_⟩
      · cases hq : isDecrqssOk s <;> simp [gotKey, Spec.keyEvents, hq, hcb.2]
      · cases hq : isDecrqssOk s <;> simp [Spec.keyEvents, hq]
  | other ty => exact ⟨held, by simp [gotKey, Spec.keyEvents], ⟨hfit, hbit0⟩, by simp [Spec.keyEvents]⟩

/-- A whole key sequence. -/
theorem runKeys_refines (cfg : Cfg) (fuel : Nat) (hfuel : INT_SHIFT_LIMIT ≤ fuel + 1)
    (hcb : cfg.onModereport = true ∧ cfg.onDecrqss = true) :
    ∀ (keys : List Key) (held : Nat), MaskInv held → (∀ k ∈ keys, k.WF) →
      (cfg.dropUnknownMouse = true ∨ ∀ k ∈ keys, k.KnownKind) →
      ∃ held', runKeys cfg fuel held keys = .ok (held', (Spec.run (heldButtons held) keys).2) ∧
        MaskInv held' ∧ heldButtons held' = (Spec.run (heldButtons held) keys).1 := by
  intro keys
  induction keys with
  | nil => intro held hinv _ _; exact ⟨held, rfl, hinv, rfl⟩
  | cons k ks ih =>
    intro held hinv hwf hknown
    obtain ⟨h1, hg, hinv1, hb1⟩ := gotKey_refines cfg fuel hfuel held hinv k (hwf k (by simp))
      (hknown.imp id (fun h => h k (by simp))) hcb
    obtain ⟨h2, hr, hinv2, hb2⟩ := ih h1 hinv1 (fun k' hk' => hwf k' (by simp [hk']))
      (hknown.imp id (fun h k' hk' => h k' (by simp [hk'])))
    refine ⟨h2, ?_, hinv2, ?_⟩
    · simp only [runKeys, hg, hr, Spec.run, hb1]
    · simp only [Spec.run, hb2, hb1]

end Tickit.InputXlate
