import Tickit.Proof.LifeTop
/-
  C08 proofs, part 13: the operation `end` at the layer of `Model/LifeTop.lean` - the application drops every reference
  it holds (windows, pens, strings, buffers, the terminal), then its references to the toplevel instance, then the
  further terminals - leaves nothing allocated.
-/
namespace Tickit.Life
open WinTree (Id Win Req Change Tree)

/-! ## `end` keeps the window handlers what they are -/

theorem dropW_keeps {cfg : Cfg} (i : Nat) : ∀ (n : Nat) {st st' : St}, KeepingHandlers st → dropAll.dropW cfg n st i = .ok st' →
    KeepingHandlers st'
  | 0, st, st', H, h => by unfold dropAll.dropW at h; simp only [pure_ok, Out.ok.injEq] at h; rw [← h]; exact H
  | n + 1, st, st', H, h => by
    unfold dropAll.dropW at h
    split at h
    · simp only [bind_eq_ok] at h
      obtain ⟨st1, h1, h2⟩ := h
      have H0 : KeepingHandlers (setX st i { getX st i with appRefs := (getX st i).appRefs - 1 }) :=
        H.setX i _ (fun b hb => ⟨b, hb, rfl⟩)
      exact dropW_keeps i n (unrefW_keeps H0 h1) h2
    · simp only [pure_ok, Out.ok.injEq] at h; rw [← h]; exact H

theorem dropP_keeps (k : Nat) : ∀ (n : Nat) {st st' : St}, KeepingHandlers st → dropAll.dropP n st k = .ok st' → KeepingHandlers st'
  | 0, st, st', H, h => by unfold dropAll.dropP at h; simp only [pure_ok, Out.ok.injEq] at h; rw [← h]; exact H
  | n + 1, st, st', H, h => by
    unfold dropAll.dropP at h
    split at h
    · simp only [bind_eq_ok] at h
      obtain ⟨st1, h1, h2⟩ := h
      have hwx := penUnref_wx h1
      exact dropP_keeps k n (H.of_wx (show st1.wx = st.wx from hwx)) h2
    · simp only [pure_ok, Out.ok.injEq] at h; rw [← h]; exact H

theorem dropS_keeps (k : Nat) : ∀ (n : Nat) {st st' : St}, KeepingHandlers st → dropAll.dropS n st k = .ok st' → KeepingHandlers st'
  | 0, st, st', H, h => by unfold dropAll.dropS at h; simp only [pure_ok, Out.ok.injEq] at h; rw [← h]; exact H
  | n + 1, st, st', H, h => by
    unfold dropAll.dropS at h
    split at h
    · simp only [bind_eq_ok] at h
      obtain ⟨st1, h1, h2⟩ := h
      have hwx := strUnref_wx h1
      exact dropS_keeps k n (H.of_wx (show st1.wx = st.wx from hwx)) h2
    · simp only [pure_ok, Out.ok.injEq] at h; rw [← h]; exact H

theorem dropB_keeps (k : Nat) : ∀ (n : Nat) {st st' : St}, KeepingHandlers st → dropAll.dropB n st k = .ok st' → KeepingHandlers st'
  | 0, st, st', H, h => by unfold dropAll.dropB at h; simp only [pure_ok, Out.ok.injEq] at h; rw [← h]; exact H
  | n + 1, st, st', H, h => by
    unfold dropAll.dropB at h
    split at h
    · simp only [bind_eq_ok] at h
      obtain ⟨st1, h1, h2⟩ := h
      have hwx := rbUnref_wx h1
      exact dropB_keeps k n (H.of_wx (show st1.wx = st.wx from hwx)) h2
    · simp only [pure_ok, Out.ok.injEq] at h; rw [← h]; exact H

theorem dropT_keeps : ∀ (n : Nat) {st st' : St}, KeepingHandlers st → dropAll.dropT n st = .ok st' → KeepingHandlers st'
  | 0, st, st', H, h => by unfold dropAll.dropT at h; simp only [pure_ok, Out.ok.injEq] at h; rw [← h]; exact H
  | n + 1, st, st', H, h => by
    unfold dropAll.dropT at h
    split at h
    · simp only [bind_eq_ok] at h
      obtain ⟨st1, h1, h2⟩ := h
      have hwx := termUnref_wx h1
      exact dropT_keeps n (H.of_wx (show st1.wx = st.wx from hwx)) h2
    · simp only [pure_ok, Out.ok.injEq] at h; rw [← h]; exact H

theorem foldlM_keeps {α : Type} (f : St → α → Out St) (hf : ∀ (st st' : St) (a : α), KeepingHandlers st → f st a = .ok st' → KeepingHandlers st') :
    ∀ (l : List α) {st st' : St}, KeepingHandlers st → l.foldlM f st = .ok st' → KeepingHandlers st'
  | [], st, st', H, h => by simp only [List.foldlM_nil, pure_ok, Out.ok.injEq] at h; rw [← h]; exact H
  | a :: rest, st, st', H, h => by
    simp only [List.foldlM_cons, bind_eq_ok] at h
    obtain ⟨st1, h1, h2⟩ := h
    exact foldlM_keeps f hf rest (hf st st1 a H h1) h2

theorem dropAll_keeps {cfg : Cfg} {st st' : St} (H : KeepingHandlers st) (h : dropAll cfg st = .ok st') : KeepingHandlers st' := by
  unfold dropAll at h
  simp only [bind_eq_ok] at h
  obtain ⟨s1, h1, s2, h2, s3, h3, s4, h4, h5⟩ := h
  have H1 := foldlM_keeps _ (fun st st' i H h => dropW_keeps i _ H h) _ H h1
  have H2 := foldlM_keeps _ (fun st st' k H h => dropP_keeps k _ H h) _ H1 h2
  have H3 := foldlM_keeps _ (fun st st' k H h => dropS_keeps k _ H h) _ H2 h3
  have H4 := foldlM_keeps _ (fun st st' k H h => dropB_keeps k _ H h) _ H3 h4
  exact dropT_keeps _ H4 h5

/-! ## the application's references to the toplevel instance go -/

theorem instLoop_ok {tc : TCfg} (R : Repaired tc.base) (hrf : tc.rootForgetsTickit = true) {α : Type} :
    ∀ (l : List α) (top : Top), TopPre top → NoneHeld top.st →
      (∀ i, top.inst = some i → i.freed = false → i.appRefs ≤ l.length) →
      ∃ top', l.foldlM (fun top _ => if instHeld top then instUnref tc top else pure top) top = .ok top' ∧ TopPre top' ∧
        NoneHeld top'.st ∧ SwSame top top' ∧ (∀ j, top'.inst = some j → j.freed = true)
  | [], top, P, H, hle => by
    refine ⟨top, rfl, P, H, SwSame.refl top, ?_⟩
    intro j hj
    cases hf : j.freed with
    | true => rfl
    | false =>
      have h1 := P.inst.live j hj hf
      have h2 := hle j hj hf
      simp only [List.length_nil] at h2
      omega
  | a :: rest, top, P, H, hle => by
    simp only [List.foldlM_cons]
    by_cases hh : instHeld top = true
    · rw [if_pos hh]
      obtain ⟨top1, h1, P1, S1, hcnt, E1, ⟨j1, hj1⟩⟩ := instUnref_ok R hrf P hh
      simp only [h1, bind_ok]
      obtain ⟨i, hi, hfi, _⟩ := instHeld_spec hh
      obtain ⟨top', h', P', H', S', hfr⟩ := instLoop_ok R hrf rest top1 P1 (E1.noneHeld H) (by
        intro j hj hfj
        have := (hcnt i j hi hj).1
        have h2 := hle i hi hfi
        simp only [List.length_cons] at h2
        omega)
      exact ⟨top', h', P', H', ⟨S'.sw.trans S1.sw, S'.first.trans S1.first, S'.handler.trans S1.handler, S'.xterms.trans S1.xterms,
        S'.fail.trans S1.fail⟩, hfr⟩
    · rw [if_neg hh]
      simp only [pure_ok, bind_ok]
      refine instLoop_ok R hrf rest top P H ?_
      intro i hi hfi
      exfalso
      have h1 := P.inst.live i hi hfi
      apply hh
      unfold instHeld
      rw [hi]
      simp only [hfi, Bool.not_false, Bool.true_and, decide_eq_true_eq]
      omega

/-! ## the further terminals go -/

/-- What `xUnref` does to the further terminals when nothing fails. -/
theorem xUnref_xterms {tc : TCfg} (hc : tc.sigwinchClearsNext = true) {top : Top} (h : SwOk top) {k : Nat} {x : XTerm}
    (hx : top.xterms[k]? = some x) :
    (xUnref tc top k).xterms = top.xterms.setIfInBounds k
      (if x.appRefs > 1 then { x with appRefs := x.appRefs - 1 } else { x with appRefs := 0, freed := true }) := by
  unfold xUnref
  rw [hx]
  simp only
  by_cases h1 : x.appRefs > 1
  · rw [if_pos h1, if_pos h1]
  · rw [if_neg h1, if_neg h1]
    obtain ⟨hok, _, hxt, _⟩ := swOk_unobserve hc h (k + 1)
    have : ¬ (swUnobserve tc top (k + 1)).fail.isSome = true := by rw [hok.1]; simp
    rw [if_neg this]
    show (swUnobserve tc top (k + 1)).xterms.setIfInBounds k _ = _
    rw [hxt]

/-- One pass of the inner loop of `end` over the further terminal `k`. -/
def dropX (tc : TCfg) (k : Nat) (top : Top) : Top := if top.fail.isSome || !heldX top k then top else xUnref tc top k

theorem dropX_ok {tc : TCfg} (hc : tc.sigwinchClearsNext = true) {top : Top} (h : SwOk top) (k : Nat) :
    SwOk (dropX tc k top) ∧ NonSw top (dropX tc k top) ∧ (dropX tc k top).xterms.size = top.xterms.size ∧
    (∀ j, j ≠ k → (dropX tc k top).xterms[j]? = top.xterms[j]?) ∧
    (∀ x, top.xterms[k]? = some x → ∃ x', (dropX tc k top).xterms[k]? = some x' ∧
      ((x.freed = true ∧ x' = x) ∨ (x.freed = false ∧ ((x'.freed = true) ∨ (x'.freed = false ∧ x'.appRefs + 1 = x.appRefs))))) := by
  unfold dropX
  by_cases hcnd : (top.fail.isSome || !heldX top k) = true
  · rw [if_pos hcnd]
    refine ⟨h, NonSw.refl top, rfl, fun _ _ => rfl, ?_⟩
    intro x hx
    refine ⟨x, hx, ?_⟩
    cases hf : x.freed with
    | true => exact .inl ⟨rfl, rfl⟩
    | false =>
      exfalso
      -- a live terminal is held
      obtain ⟨hfail, l, inv, _⟩ := h
      have hpos := inv.xapp k x hx hf
      have : heldX top k = true := by
        unfold heldX; rw [hx]; simp only [hf, Bool.not_false, Bool.true_and, decide_eq_true_eq]; omega
      rw [hfail, this] at hcnd
      simp at hcnd
  · rw [if_neg hcnd]
    have hh : heldX top k = true := by
      cases hh : heldX top k
      · rw [hh] at hcnd; simp at hcnd
      · rfl
    obtain ⟨x, hx, hf⟩ := heldX_spec hh
    have hxt := xUnref_xterms (tc := tc) hc h hx
    refine ⟨(swOk_xUnref hc h k).1, nonSw_xUnref tc top k, by rw [hxt]; simp, ?_, ?_⟩
    · intro j hj
      rw [hxt, Array.getElem?_setIfInBounds]
      rw [if_neg (fun e => hj e.symm)]
    · intro y hy
      rw [hx] at hy; cases hy
      have hlt := heldX_lt hh
      have hget : (xUnref tc top k).xterms[k]? = some (if x.appRefs > 1 then { x with appRefs := x.appRefs - 1 } else { x with appRefs := 0, freed := true }) := by
        rw [hxt, Array.getElem?_setIfInBounds, if_pos rfl, if_pos hlt]
      refine ⟨_, hget, .inr ⟨hf, ?_⟩⟩
      by_cases h1 : x.appRefs > 1
      · rw [if_pos h1]
        exact .inr ⟨hf, by show x.appRefs - 1 + 1 = x.appRefs; omega⟩
      · rw [if_neg h1]
        exact .inl rfl

/-- The inner loop: as many passes as the terminal has references. -/
theorem dropXs_ok {tc : TCfg} (hc : tc.sigwinchClearsNext = true) (k : Nat) {β : Type} : ∀ (l : List β) (top : Top), SwOk top →
    (∀ x, top.xterms[k]? = some x → x.freed = false → x.appRefs ≤ l.length) →
    SwOk (l.foldl (fun top _ => dropX tc k top) top) ∧ NonSw top (l.foldl (fun top _ => dropX tc k top) top) ∧
    (l.foldl (fun top _ => dropX tc k top) top).xterms.size = top.xterms.size ∧
    (∀ j, j ≠ k → (l.foldl (fun top _ => dropX tc k top) top).xterms[j]? = top.xterms[j]?) ∧
    (∀ x, (l.foldl (fun top _ => dropX tc k top) top).xterms[k]? = some x → x.freed = true)
  | [], top, h, hle => by
    refine ⟨h, NonSw.refl top, rfl, fun _ _ => rfl, ?_⟩
    intro x hx
    cases hf : x.freed with
    | true => rfl
    | false =>
      obtain ⟨_, l, inv, _⟩ := h
      have h1 := inv.xapp k x hx hf
      have h2 := hle x hx hf
      simp only [List.length_nil] at h2
      omega
  | a :: rest, top, h, hle => by
    simp only [List.foldl_cons]
    obtain ⟨h1, n1, s1, o1, k1⟩ := dropX_ok hc h k
    obtain ⟨h2, n2, s2, o2, k2⟩ := dropXs_ok hc k rest (dropX tc k top) h1 (by
      intro x' hx' hf'
      cases hx : top.xterms[k]? with
      | none =>
        have : (dropX tc k top).xterms[k]? = none := by
          apply Array.getElem?_eq_none
          rw [s1]
          apply Classical.byContradiction
          intro hlt
          have := Array.getElem?_eq_getElem (xs := top.xterms) (i := k) (by omega)
          rw [hx] at this; cases this
        rw [this] at hx'; cases hx'
      | some x =>
        obtain ⟨y, hy, hcase⟩ := k1 x hx
        rw [hy] at hx'; cases hx'
        rcases hcase with ⟨hxf, he⟩ | ⟨hxf, hcase⟩
        · rw [he, hxf] at hf'; cases hf'
        · rcases hcase with hyf | ⟨_, hcnt⟩
          · rw [hyf] at hf'; cases hf'
          · have := hle x hx hxf
            simp only [List.length_cons] at this
            omega)
    exact ⟨h2, n1.trans n2, s2.trans s1, fun j hj => (o2 j hj).trans (o1 j hj), k2⟩

/-- The outer loop of `end` over the further terminals. -/
def dropXAll (tc : TCfg) (top : Top) (k : Nat) : Top :=
  (List.range (((top.xterms[k]?).map (fun (x : XTerm) => x.appRefs)).getD 0)).foldl (fun top _ => dropX tc k top) top

theorem dropXAll_ok {tc : TCfg} (hc : tc.sigwinchClearsNext = true) : ∀ (ks : List Nat) (top : Top), SwOk top →
    SwOk (ks.foldl (dropXAll tc) top) ∧ NonSw top (ks.foldl (dropXAll tc) top) ∧
    (ks.foldl (dropXAll tc) top).xterms.size = top.xterms.size ∧
    (∀ j, (∀ x, top.xterms[j]? = some x → x.freed = true) ∨ j ∈ ks →
      ∀ x, (ks.foldl (dropXAll tc) top).xterms[j]? = some x → x.freed = true)
  | [], top, h => ⟨h, NonSw.refl top, rfl, fun j hj x hx => by
      rcases hj with hj | hj
      · exact hj x hx
      · cases hj⟩
  | k :: rest, top, h => by
    simp only [List.foldl_cons]
    have hstep := dropXs_ok hc k (List.range (((top.xterms[k]?).map (fun (x : XTerm) => x.appRefs)).getD 0)) top h (by
      intro x hx _
      rw [hx]; simp)
    obtain ⟨h1, n1, s1, o1, k1⟩ := hstep
    obtain ⟨h2, n2, s2, f2⟩ := dropXAll_ok hc rest (dropXAll tc top k) h1
    refine ⟨h2, n1.trans n2, s2.trans s1, ?_⟩
    intro j hj
    apply f2 j
    by_cases hjk : j = k
    · subst hjk
      exact .inl k1
    · rcases hj with hj | hj
      · left
        intro x hx
        have : (dropXAll tc top k).xterms[j]? = top.xterms[j]? := o1 j hjk
        rw [this] at hx
        exact hj x hx
      · simp only [List.mem_cons] at hj
        rcases hj with hj | hj
        · exact absurd hj hjk
        · exact .inr hj

/-! ## `end` -/

theorem end_eq (tc : TCfg) (top : Top) : xstepCore tc top (.base .«end») = (do
    let (st, r) ← step tc.base top.st .«end»
    let top1 := (({ top with st := st } : Top).sync).swSync tc
    let n := match top1.inst with | some i => i.appRefs | none => 0
    let top2 ← (List.range n).foldlM (fun top _ => if instHeld top then instUnref tc top else pure top) top1
    let top3 := top2.swSync tc
    pure ((List.range top3.xterms.size).foldl (dropXAll tc) top3, r)) := rfl

theorem topInv_swSync {tc : TCfg} (hc : tc.sigwinchClearsNext = true) {top : Top} (P : TopPre top) :
    TopInv (top.swSync tc) ∧ NonSw top (top.swSync tc) ∧ (top.swSync tc).xterms = top.xterms := by
  obtain ⟨ok, _, hx⟩ := swSync_ok hc P.sw
  have ns := nonSw_swSync tc top
  refine ⟨⟨?_, ok, P.inst.of_rel (InstRel.of_eq ns.inst), by rw [ns.dangling]; exact P.dangling⟩, ns, hx⟩
  rw [ghost_of_inst (InstRel.of_eq ns.inst)]
  exact P.f.of_fields ns.st ns.tbinds

theorem any_false_of_all {α : Type} (p : α → Bool) (xs : Array α) (h : ∀ (k : Nat) (x : α), xs[k]? = some x → p x = false) :
    xs.any p = false := by
  rw [Array.any_eq_false]
  intro i hi
  have := h i xs[i] (Array.getElem?_eq_getElem hi)
  simp [this]

/-- **`end`**: the application drops every reference it holds - windows from the highest handle down to the root
    window, pens, strings, buffers, the terminal; then its references to the toplevel instance (the last one runs
    `tickit_destroy`, which gives back the instance's references to the root window and the terminal); then the further
    terminals.  Nothing fails and nothing is left. -/
theorem end_ok {tc : TCfg} (R : TRepaired tc) {top : Top} (T : TopInv top) :
    ∃ top' r, xstep tc top (.base .«end») = .ok (top', r) ∧ top'.anythingLeft = false ∧ top'.fail = none ∧ SwOk top' := by
  -- the lower layers
  obtain ⟨s1, hd, inv1, H1⟩ := dropAll_ok R.base T.f.inv
  have K1 : KeepingHandlers s1 := dropAll_keeps T.f.keep hd
  have hstep : step tc.base top.st .«end» = .ok (s1, "end") := by
    unfold step
    simp only [hd, bind_ok, pure_ok]
  obtain ⟨F1, Rs1, hst1⟩ := sync_ok (top := { top with st := s1 }) inv1 K1 T.f.ids
  have P1 : TopPre ({ top with st := s1 } : Top).sync := T.pre_of_rest (Rest.trans (by rest_rfl) Rs1) F1
  obtain ⟨T1, ns1, _⟩ := topInv_swSync R.sigwinch P1
  -- the toplevel instance
  have Hn1 : NoneHeld ((({ top with st := s1 } : Top).sync).swSync tc).st := by rw [ns1.st, hst1]; exact H1
  obtain ⟨top2, h2, P2, Hn2, S2, hfr2⟩ := instLoop_ok R.base R.rootForgets
    (List.range (match ((({ top with st := s1 } : Top).sync).swSync tc).inst with | some i => i.appRefs | none => 0))
    _ T1.pre Hn1 (by
      intro i hi _
      rw [hi]; simp)
  obtain ⟨T3, ns3, _⟩ := topInv_swSync R.sigwinch P2
  -- the further terminals
  obtain ⟨ok4, ns4, sz4, fr4⟩ := dropXAll_ok R.sigwinch (List.range (top2.swSync tc).xterms.size) (top2.swSync tc) T3.sw
  let top4 := (List.range (top2.swSync tc).xterms.size).foldl (dropXAll tc) (top2.swSync tc)
  have hcore : xstepCore tc top (.base .«end») = .ok (top4, "end") := by
    rw [end_eq, hstep]
    simp only [bind_ok]
    rw [h2]
    rfl
  -- what is left
  have hinst4 : top4.inst = top2.inst := ns4.inst.trans ns3.inst
  have hst4 : top4.st = top2.st := ns4.st.trans ns3.st
  have hgh : (top2.swSync tc).ghost = Ghost.none := by
    unfold Top.ghost
    rw [ns3.inst]
    cases hi : top2.inst with
    | none => rfl
    | some j => simp [hfr2 j hi]
  have inv3 : SInv Ghost.none top2.st := by
    have := T3.f.inv
    rw [hgh, ns3.st] at this
    exact this
  have hleft : anythingLeft top2.st = false := nothing_left inv3 Hn2 rfl (fun _ => rfl)
  have htf : top2.st.term.freed = true := by
    unfold anythingLeft at hleft
    simp only [Bool.or_eq_false_iff, Bool.not_eq_false'] at hleft
    exact hleft.1.2
  have hxall : ∀ (k : Nat) (x : XTerm), top4.xterms[k]? = some x → x.freed = true := by
    intro k x hx
    have sz4' : top4.xterms.size = (top2.swSync tc).xterms.size := sz4
    have hlt : k < (top2.swSync tc).xterms.size := by
      rw [← sz4']
      apply Classical.byContradiction
      intro hn
      have : top4.xterms[k]? = none := Array.getElem?_eq_none (by omega)
      rw [this] at hx; cases hx
    exact fr4 k (.inr (by simp [hlt])) x hx
  -- the observer list is empty
  obtain ⟨hfail4, l, sinv, h0⟩ := ok4
  have hl : l = [] := by
    cases l with
    | nil => rfl
    | cons c r =>
      exfalso
      by_cases hc0 : c = 0
      · subst hc0
        exact h0 (by rw [hst4]; exact htf) (by simp)
      · have hlive := sinv.live c (by simp) hc0
        have hlt : c < top4.sw.size := (sinv.mem c (by simp)).1
        have hs : top4.sw.size = top4.xterms.size + 1 := sinv.size
        unfold swFreed at hlive
        simp only [hc0, if_false] at hlive
        have hget : top4.xterms[c - 1]? = some (top4.xterms[c - 1]'(by omega)) := Array.getElem?_eq_getElem (by omega)
        rw [hget] at hlive
        simp only [Option.map_some, Option.getD_some] at hlive
        have := hxall (c - 1) _ hget
        rw [this] at hlive; cases hlive
  subst hl
  have hfirst : top4.swFirst = none := ChainF.nil_iff.1 sinv.chain
  have hhandler : top4.swHandler = false := by rw [sinv.handler, hfirst]; rfl
  have hobs0 : (swNode top4 0).obs = false := (sinv.out 0 (by simp)).2
  have hsync : top4.swSync tc = top4 := by
    unfold Top.swSync
    rw [hfail4]
    simp only [Option.isSome_none, Bool.false_eq_true, if_false, hobs0, Bool.and_false]
  refine ⟨top4, "end", ?_, ?_, hfail4, ⟨hfail4, [], sinv, h0⟩⟩
  · unfold xstep
    rw [hcore]
    simp only [bind_ok, pure_ok, hsync]
  · unfold Top.anythingLeft
    rw [hst4, hleft, hinst4, hfirst, hhandler, any_false_of_all _ _ (fun k x hx => by rw [hxall k x hx]; rfl)]
    cases hi : top2.inst with
    | none => rfl
    | some j =>
      have hj3 : (top2.swSync tc).inst = some j := by rw [ns3.inst]; exact hi
      obtain ⟨hl1, hl2, _⟩ := T3.inst.dead j hj3 (hfr2 j hi)
      simp [hfr2 j hi, hl1, hl2]

theorem xrunOps_append (tc : TCfg) : ∀ (ops1 ops2 : List XOp) (t0 t1 : Top), xrunOps tc t0 ops1 = .ok t1 →
    xrunOps tc t0 (ops1 ++ ops2) = xrunOps tc t1 ops2
  | [], ops2, t0, t1, h => by simp only [xrunOps, Out.ok.injEq] at h; subst h; rfl
  | o :: rest, ops2, t0, t1, h => by
    rw [List.cons_append, xrunOps]
    rw [xrunOps] at h
    cases hs : xstep tc t0 o with
    | ok p =>
      simp only [hs] at h ⊢
      exact xrunOps_append tc rest ops2 p.1 t1 h
    | ub k w => simp only [hs] at h; cases h
    | fuel => simp only [hs] at h; cases h

/-- A whole history: a start, covered operations, `end`. -/
theorem xrun_end {tc : TCfg} (R : TRepaired tc) (start : XOp) (hstart : start.isNew = true) (ops : List XOp)
    (h : ∀ op ∈ ops, op.covered) :
    ∃ top, xrunOps tc {} (start :: ops ++ [.base .«end»]) = .ok top ∧ top.anythingLeft = false ∧ top.fail = none := by
  obtain ⟨top1, hr, T1⟩ := xrun_from_start R start hstart ops h
  obtain ⟨top2, r, he, hleft, hfail, _⟩ := end_ok R T1
  refine ⟨top2, ?_, hleft, hfail⟩
  rw [show start :: ops ++ [XOp.base .«end»] = (start :: ops) ++ [XOp.base .«end»] from rfl]
  rw [xrunOps_append tc (start :: ops) [.base .«end»] {} top1 hr]
  unfold xrunOps
  rw [he]
  rfl

end Tickit.Life
