import Tickit.Proof.LifeTop
/-
  C08 proofs, part 13: the operation `end` at the layer of `Model/LifeTop.lean` - the application drops every reference
  it holds (windows, pens, strings, buffers, the terminal), then its references to the toplevel instance, then the
  further terminals - leaves nothing allocated.
-/
namespace Tickit.Life
open WinTree (Id Win Req Change Tree)

/-! ## `end` keeps the window handlers what they are -/

theorem dropW_keeps {cfg : Cfg} (i : Nat) : ∀ (n : Nat) {st st' : St}, KeepingHandlers st → dropAll.dropW cfg n st i = .ok st' →
    KeepingHandlers st'
  | 0, st, st', H, h => by unfold dropAll.dropW at h; simp only [pure_ok, Out.ok.injEq] at h; rw [← h]; exact H
  | n + 1, st, st', H, h => by
    unfold dropAll.dropW at h
    split at h
    · simp only [bind_eq_ok] at h
      obtain ⟨st1, h1, h2⟩ := h
      have H0 : KeepingHandlers (setX st i { getX st i with appRefs := (getX st i).appRefs - 1 }) :=
        H.setX i _ (fun b hb => ⟨b, hb, rfl⟩)
      exact dropW_keeps i n (unrefW_keeps H0 h1) h2
    · simp only [pure_ok, Out.ok.injEq] at h; rw [← h]; exact H

theorem dropP_keeps (k : Nat) : ∀ (n : Nat) {st st' : St}, KeepingHandlers st → dropAll.dropP n st k = .ok st' → KeepingHandlers st'
  | 0, st, st', H, h => by unfold dropAll.dropP at h; simp only [pure_ok, Out.ok.injEq] at h; rw [← h]; exact H
  | n + 1, st, st', H, h => by
    unfold dropAll.dropP at h
    split at h
    · simp only [bind_eq_ok] at h
      obtain ⟨st1, h1, h2⟩ := h
      have hwx := penUnref_wx h1
      exact dropP_keeps k n (H.of_wx (show st1.wx = st.wx from hwx)) h2
    · simp only [pure_ok, Out.ok.injEq] at h; rw [← h]; exact H

theorem dropS_keeps (k : Nat) : ∀ (n : Nat) {st st' : St}, KeepingHandlers st → dropAll.dropS n st k = .ok st' → KeepingHandlers st'
  | 0, st, st', H, h => by unfold dropAll.dropS at h; simp only [pure_ok, Out.ok.injEq] at h; rw [← h]; exact H
  | n + 1, st, st', H, h => by
    unfold dropAll.dropS at h
    split at h
    · simp only [bind_eq_ok] at h
      obtain ⟨st1, h1, h2⟩ := h
      have hwx := strUnref_wx h1
      exact dropS_keeps k n (H.of_wx (show st1.wx = st.wx from hwx)) h2
    · simp only [pure_ok, Out.ok.injEq] at h; rw [← h]; exact H

theorem dropB_keeps (k : Nat) : ∀ (n : Nat) {st st' : St}, KeepingHandlers st → dropAll.dropB n st k = .ok st' → KeepingHandlers st'
  | 0, st, st', H, h => by unfold dropAll.dropB at h; simp only [pure_ok, Out.ok.injEq] at h; rw [← h]; exact H
  | n + 1, st, st', H, h => by
    unfold dropAll.dropB at h
    split at h
    · simp only [bind_eq_ok] at h
      obtain ⟨st1, h1, h2⟩ := h
      have hwx := rbUnref_wx h1
      exact dropB_keeps k n (H.of_wx (show st1.wx = st.wx from hwx)) h2
    · simp only [pure_ok, Out.ok.injEq] at h; rw [← h]; exact H

theorem dropT_keeps : ∀ (n : Nat) {st st' : St}, KeepingHandlers st → dropAll.dropT n st = .ok st' → KeepingHandlers st'
  | 0, st, st', H, h => by unfold dropAll.dropT at h; simp only [pure_ok, Out.ok.injEq] at h; rw [← h]; exact H
  | n + 1, st, st', H, h => by
    unfold dropAll.dropT at h
    split at h
    · simp only [bind_eq_ok] at h
      obtain ⟨st1, h1, h2⟩ := h
      have hwx := termUnref_wx h1
      exact dropT_keeps n (H.of_wx (show st1.wx = st.wx from hwx)) h2
    · simp only [pure_ok, Out.ok.injEq] at h; rw [← h]; exact H

theorem foldlM_keeps {α : Type} (f : St → α → Out St) (hf : ∀ (st st' : St) (a : α), KeepingHandlers st → f st a = .ok st' → KeepingHandlers st') :
    ∀ (l : List α) {st st' : St}, KeepingHandlers st → l.foldlM f st = .ok st' → KeepingHandlers st'
  | [], st, st', H, h => by simp only [List.foldlM_nil, pure_ok, Out.ok.injEq] at h; rw [← h]; exact H
  | a :: rest, st, st', H, h => by
    simp only [List.foldlM_cons, bind_eq_ok] at h
    obtain ⟨st1, h1, h2⟩ := h
    exact foldlM_keeps f hf rest (hf st st1 a H h1) h2

theorem dropAll_keeps {cfg : Cfg} {st st' : St} (H : KeepingHandlers st) (h : dropAll cfg st = .ok st') : KeepingHandlers st' := by
  unfold dropAll at h
  simp only [bind_eq_ok] at h
  obtain ⟨s1, h1, s2, h2, s3, h3, s4, h4, h5⟩ := h
  have H1 := foldlM_keeps _ (fun st st' i H h => dropW_keeps i _ H h) _ H h1
  have H2 := foldlM_keeps _ (fun st st' k H h => dropP_keeps k _ H h) _ H1 h2
  have H3 := foldlM_keeps _ (fun st st' k H h => dropS_keeps k _ H h) _ H2 h3
  have H4 := foldlM_keeps _ (fun st st' k H h => dropB_keeps k _ H h) _ H3 h4
  exact dropT_keeps _ H4 h5

end Tickit.Life
