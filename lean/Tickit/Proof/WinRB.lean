import Tickit.Model.WinRB
import Tickit.Props.C06
/-
  Lemmas about the abstract render buffer (`Model/WinRB.lean`): how clip / mask / save / restore change the set of
  writable cells, and confinement of every drawing operation to that set.
-/
namespace Tickit
namespace WinRB
open Tickit.Rect

theorem memb_translate (r : Rect) (d k l c : Int) :
    (r.translate d k).memb l c = r.memb (l - d) (c - k) := by
  apply Bool.eq_iff_iff.mpr
  rw [Rect.memb_iff, Rect.memb_iff]
  simp only [Rect.Mem, Rect.translate, Rect.bottom, Rect.right]
  omega

theorem memb_true_iff (r : Rect) (l c : Int) : r.memb l c = true ↔ r.Mem l c := Rect.memb_iff r l c

theorem memb_false_iff (r : Rect) (l c : Int) : r.memb l c = false ↔ ¬ r.Mem l c := by
  rw [← memb_true_iff]; cases r.memb l c <;> simp

/-! ### the writable set -/

@[simp] theorem writable_translate (rb : RB) (d r : Int) (L C : Int) :
    (rb.translate d r).writable L C = rb.writable L C := rfl

@[simp] theorem writable_save (rb : RB) (L C : Int) : rb.save.writable L C = rb.writable L C := rfl

@[simp] theorem writable_setpen (rb : RB) (p : Option Pen) (L C : Int) : (rb.setpen p).writable L C = rb.writable L C := rfl

theorem writable_clipTo (rb : RB) (r : Rect) (L C : Int) :
    (rb.clipTo r).writable L C = (rb.writable L C && (r.translate rb.xl rb.xc).memb L C) := by
  unfold RB.clipTo
  cases h : Rect.intersect rb.clip (r.translate rb.xl rb.xc) with
  | none =>
    have hn := Props.C06.intersect_none _ _ h L C
    simp only [RB.writable, RB.inClip, RB.masked]
    apply Bool.eq_iff_iff.mpr
    simp only [Bool.and_eq_true, bne_iff_ne, ne_eq, Bool.not_eq_true', memb_true_iff]
    constructor
    · intro hh; exact (hh.1.1 trivial).elim
    · intro hh; exact absurd ⟨hh.1.1.2, hh.2⟩ hn
  | some c =>
    have hs := Props.C06.intersect_some _ _ _ h
    simp only [RB.writable, RB.inClip, RB.masked]
    apply Bool.eq_iff_iff.mpr
    simp only [Bool.and_eq_true, bne_iff_ne, ne_eq, Bool.not_eq_true', memb_true_iff]
    constructor
    · intro hh
      have := (hs.2 L C).1 hh.1.2
      refine ⟨⟨⟨?_, this.1⟩, hh.2⟩, this.2⟩
      have := this.1
      unfold Rect.Mem Rect.bottom at this
      omega
    · intro hh
      refine ⟨⟨?_, (hs.2 L C).2 ⟨hh.1.1.2, hh.2⟩⟩, hh.1.2⟩
      have := hs.1
      unfold Rect.Nonempty at this
      omega

theorem writable_mask (rb : RB) (r : Rect) (L C : Int) :
    (rb.mask r).writable L C = (rb.writable L C && !(r.translate rb.xl rb.xc).memb L C) := by
  simp only [RB.writable, RB.mask, RB.inClip, RB.masked, List.any_cons]
  cases (rb.clip.lines != 0 && rb.clip.memb L C) <;> cases (r.translate rb.xl rb.xc).memb L C <;> simp

/-! ### control state -/

@[simp] theorem clipTo_xl (rb : RB) (r : Rect) : (rb.clipTo r).xl = rb.xl := by unfold RB.clipTo; split <;> rfl
@[simp] theorem clipTo_xc (rb : RB) (r : Rect) : (rb.clipTo r).xc = rb.xc := by unfold RB.clipTo; split <;> rfl
@[simp] theorem clipTo_stack (rb : RB) (r : Rect) : (rb.clipTo r).stack = rb.stack := by unfold RB.clipTo; split <;> rfl
@[simp] theorem clipTo_masks (rb : RB) (r : Rect) : (rb.clipTo r).masks = rb.masks := by unfold RB.clipTo; split <;> rfl
@[simp] theorem clipTo_cells (rb : RB) (r : Rect) : (rb.clipTo r).cells = rb.cells := by unfold RB.clipTo; split <;> rfl
@[simp] theorem clipTo_pen (rb : RB) (r : Rect) : (rb.clipTo r).pen = rb.pen := by unfold RB.clipTo; split <;> rfl
@[simp] theorem clipTo_lines (rb : RB) (r : Rect) : (rb.clipTo r).lines = rb.lines := by unfold RB.clipTo; split <;> rfl
@[simp] theorem clipTo_cols (rb : RB) (r : Rect) : (rb.clipTo r).cols = rb.cols := by unfold RB.clipTo; split <;> rfl

/-- The part of a buffer's state a handler's drawing program cannot change. -/
structure SameFrame (a b : RB) : Prop where
  stack : b.stack = a.stack
  masks : b.masks = a.masks
  lines : b.lines = a.lines
  cols : b.cols = a.cols

theorem SameFrame.refl (a : RB) : SameFrame a a := ⟨rfl, rfl, rfl, rfl⟩

theorem SameFrame.trans {a b c : RB} (h1 : SameFrame a b) (h2 : SameFrame b c) : SameFrame a c :=
  ⟨h2.stack.trans h1.stack, h2.masks.trans h1.masks, h2.lines.trans h1.lines, h2.cols.trans h1.cols⟩

/-- Every mask was made at a depth not exceeding the current one. -/
def MasksLe (rb : RB) : Prop := ∀ m ∈ rb.masks, m.2 ≤ rb.stack.length

theorem inClip_clipTo (rb : RB) (r : Rect) (L C : Int) :
    (rb.clipTo r).inClip L C = (rb.inClip L C && (r.translate rb.xl rb.xc).memb L C) := by
  have h := writable_clipTo rb r L C
  simp only [RB.writable, RB.masked, clipTo_masks] at h
  cases hm : (rb.masks.any fun m => m.1.memb L C)
  · simpa [hm] using h
  · -- a masked cell: decide directly
    unfold RB.clipTo
    cases hi : Rect.intersect rb.clip (r.translate rb.xl rb.xc) with
    | none =>
      have hn := Props.C06.intersect_none _ _ hi L C
      simp only [RB.inClip]
      apply Bool.eq_iff_iff.mpr
      simp only [Bool.and_eq_true, bne_iff_ne, ne_eq, memb_true_iff]
      constructor
      · intro hh; exact (hh.1 trivial).elim
      · intro hh; exact absurd ⟨hh.1.2, hh.2⟩ hn
    | some c =>
      have hs := Props.C06.intersect_some _ _ _ hi
      simp only [RB.inClip]
      apply Bool.eq_iff_iff.mpr
      simp only [Bool.and_eq_true, bne_iff_ne, ne_eq, memb_true_iff]
      constructor
      · intro hh
        have := (hs.2 L C).1 hh.2
        refine ⟨⟨?_, this.1⟩, this.2⟩
        have := this.1
        unfold Rect.Mem Rect.bottom at this
        omega
      · intro hh
        refine ⟨?_, (hs.2 L C).2 ⟨hh.1.2, hh.2⟩⟩
        have := hs.1
        unfold Rect.Nonempty at this
        omega

/-! ### confinement of the drawing operations (what C03 calls `confined`) -/

theorem putRun_cells_of_not_writable (rb : RB) (line col n : Int) (f : Int → Option CellV) (L C : Int)
    (h : rb.writable L C = false) : (rb.putRun line col n f).cells L C = rb.cells L C := by
  simp only [RB.putRun]
  rw [if_neg]
  intro hh
  rw [h] at hh
  exact absurd hh.2.2.2 (by simp)

theorem putRect_cells_of_not_writable (rb : RB) (rect : Rect) (v : Option CellV) (L C : Int)
    (h : rb.writable L C = false) : (rb.putRect rect v).cells L C = rb.cells L C := by
  simp only [RB.putRect]
  rw [if_neg]
  intro hh
  rw [h] at hh
  exact absurd hh.2 (by simp)

/-- `b` is `a` after drawing: the frame (stack, masks, size, clip) is the same and only cells `a` lets a drawing
    operation touch can differ. -/
structure Paints (a b : RB) : Prop where
  stack : b.stack = a.stack
  masks : b.masks = a.masks
  lines : b.lines = a.lines
  cols : b.cols = a.cols
  clip : b.clip = a.clip
  cells : ∀ L C, a.writable L C = false → b.cells L C = a.cells L C

theorem Paints.refl (a : RB) : Paints a a := ⟨rfl, rfl, rfl, rfl, rfl, fun _ _ _ => rfl⟩

theorem Paints.writable {a b : RB} (h : Paints a b) (L C : Int) : b.writable L C = a.writable L C := by
  simp only [RB.writable, RB.inClip, RB.masked, h.clip, h.masks]

theorem Paints.trans {a b c : RB} (h1 : Paints a b) (h2 : Paints b c) : Paints a c :=
  ⟨h2.stack.trans h1.stack, h2.masks.trans h1.masks, h2.lines.trans h1.lines, h2.cols.trans h1.cols,
   h2.clip.trans h1.clip, fun L C h => by
     rw [h2.cells L C (by rw [h1.writable]; exact h), h1.cells L C h]⟩

theorem paints_putRun (rb : RB) (line col n : Int) (f : Int → Option CellV) : Paints rb (rb.putRun line col n f) :=
  ⟨rfl, rfl, rfl, rfl, rfl, fun L C h => putRun_cells_of_not_writable rb line col n f L C h⟩

theorem paints_putRect (rb : RB) (rect : Rect) (v : Option CellV) : Paints rb (rb.putRect rect v) :=
  ⟨rfl, rfl, rfl, rfl, rfl, fun L C h => putRect_cells_of_not_writable rb rect v L C h⟩

theorem paints_textAt (rb : RB) (l c : Int) (s : List Nat) : Paints rb (rb.textAt l c s) := by
  unfold RB.textAt
  split
  · exact paints_putRun rb l c _ _
  · have := paints_putRun rb l c (textCols s) (fun k => some (CellV.text rb.nextId rb.pen s k))
    exact ⟨this.stack, this.masks, this.lines, this.cols, this.clip, this.cells⟩

theorem paints_linecell (rb : RB) (line col : Int) (bits : Nat) : Paints rb (rb.linecell line col bits) := by
  unfold RB.linecell
  simp only
  split
  · rename_i hw
    refine ⟨rfl, rfl, rfl, rfl, rfl, ?_⟩
    intro L C h
    simp only
    rw [if_neg]
    rintro ⟨h1, h2⟩
    rw [h1, h2, hw] at h
    exact absurd h (by simp)
  · exact Paints.refl rb

theorem paints_foldl {α : Type} (f : RB → α → RB) (hf : ∀ rb x, Paints rb (f rb x)) :
    ∀ (xs : List α) (rb : RB), Paints rb (xs.foldl f rb) := by
  intro xs
  induction xs with
  | nil => intro rb; exact Paints.refl rb
  | cons x rest ih => intro rb; exact (hf rb x).trans (ih (f rb x))

theorem paints_hlineAt (rb : RB) (line c0 c1 : Int) (style caps : Nat) : Paints rb (rb.hlineAt line c0 c1 style caps) := by
  unfold RB.hlineAt
  exact paints_foldl (fun rb (x : Int × Nat) => rb.linecell line x.1 x.2) (fun rb x => paints_linecell rb line x.1 x.2) _ rb

theorem paints_vlineAt (rb : RB) (l0 l1 col : Int) (style caps : Nat) : Paints rb (rb.vlineAt l0 l1 col style caps) := by
  unfold RB.vlineAt
  exact paints_foldl (fun rb (x : Int × Nat) => rb.linecell x.1 col x.2) (fun rb x => paints_linecell rb x.1 col x.2) _ rb

theorem paints_copyRect (rb : RB) (dest src : Rect) : Paints rb (rb.copyRect dest src) := by
  unfold RB.copyRect
  simp only
  split
  · exact Paints.refl rb
  · split
    · exact Paints.refl rb
    · refine ⟨rfl, rfl, rfl, rfl, rfl, ?_⟩
      intro L C h
      simp only
      rw [if_neg]
      intro hh
      rw [h] at hh
      exact absurd hh.2 (by simp)

theorem paints_moveRect (rb : RB) (dest src : Rect) : Paints rb (rb.moveRect dest src) := by
  unfold RB.moveRect
  simp only
  split
  · exact Paints.refl rb
  · split
    · exact Paints.refl rb
    · have h1 := paints_copyRect rb dest src
      refine h1.trans ⟨rfl, rfl, rfl, rfl, rfl, ?_⟩
      intro L C h
      simp only
      rw [if_neg]
      intro hh
      rw [h] at hh
      exact absurd hh.2.2 (by simp)

/-- `b` is `a` after a drawing operation that may also narrow the clip. -/
structure Draws (a b : RB) : Prop where
  stack : b.stack = a.stack
  masks : b.masks = a.masks
  lines : b.lines = a.lines
  cols : b.cols = a.cols
  clip : ∀ L C, b.inClip L C = true → a.inClip L C = true
  cells : ∀ L C, a.writable L C = false → b.cells L C = a.cells L C

theorem Paints.draws {a b : RB} (h : Paints a b) : Draws a b :=
  ⟨h.stack, h.masks, h.lines, h.cols, fun L C hh => by simpa [RB.inClip, h.clip] using hh, h.cells⟩

theorem Draws.writable {a b : RB} (h : Draws a b) (L C : Int) (hw : b.writable L C = true) : a.writable L C = true := by
  simp only [RB.writable, RB.masked, h.masks, Bool.and_eq_true] at hw ⊢
  exact ⟨h.clip L C hw.1, hw.2⟩

/-- A drawing operation that is not `save` / `savepen` / `restore`. -/
def DrawOp.isStack : DrawOp → Bool
  | .save => true
  | .savepen => true
  | .restore => true
  | _ => false

theorem draw_draws (rb : RB) (op : DrawOp) (hns : op.isStack = false) : Draws rb (rb.draw op) := by
  cases op with
  | eraseRect r => exact (paints_putRect rb r _).draws
  | skipRect r => exact (paints_putRect rb r _).draws
  | textAt l c s => exact (paints_textAt rb l c s).draws
  | charAt l c cp => exact (paints_putRun rb l c 1 (fun _ => some (.plain (Cell.ofPen rb.pen cp)))).draws
  | clear => exact (paints_putRect rb _ _).draws
  | setPen p => exact (Paints.draws ⟨rfl, rfl, rfl, rfl, rfl, fun _ _ _ => rfl⟩)
  | translate d r => exact (Paints.draws ⟨rfl, rfl, rfl, rfl, rfl, fun _ _ _ => rfl⟩)
  | clip r =>
    refine ⟨by simp [RB.draw], by simp [RB.draw], by simp [RB.draw], by simp [RB.draw], ?_, by simp [RB.draw]⟩
    intro L C h
    simp only [RB.draw, inClip_clipTo, Bool.and_eq_true] at h
    exact h.1
  | hline l c0 c1 st caps => exact (paints_hlineAt rb l c0 c1 st caps).draws
  | vline l0 l1 c st caps => exact (paints_vlineAt rb l0 l1 c st caps).draws
  | copyRect d s => exact (paints_copyRect rb d s).draws
  | moveRect d s => exact (paints_moveRect rb d s).draws
  | save => cases hns
  | savepen => cases hns
  | restore => cases hns

/-- The cells a saved clip lets through. -/
def clipHas (clip : Rect) (L C : Int) : Bool := clip.lines != 0 && clip.memb L C

/-- The buffer in the middle of a handler's program: `n` frames of the handler's own on top of the stack the handler
    found (`rb0`), each of whose clips lies inside the clip the handler found; masks untouched; nothing outside what
    `rb0` lets the handler touch has changed. -/
structure Mid (rb0 : RB) (n : Nat) (rb : RB) : Prop where
  stack : ∃ extra, rb.stack = extra ++ rb0.stack ∧ extra.length = n ∧
    ∀ f ∈ extra, f.penOnly = false → ∀ L C, clipHas f.clip L C = true → rb0.inClip L C = true
  masks : rb.masks = rb0.masks
  lines : rb.lines = rb0.lines
  cols : rb.cols = rb0.cols
  clip : ∀ L C, rb.inClip L C = true → rb0.inClip L C = true
  cells : ∀ L C, rb0.writable L C = false → rb.cells L C = rb0.cells L C

theorem Mid.start (rb0 : RB) : Mid rb0 0 rb0 :=
  ⟨⟨[], rfl, rfl, fun _ h => by cases h⟩, rfl, rfl, rfl, fun _ _ h => h, fun _ _ _ => rfl⟩

theorem Mid.writable {rb0 rb : RB} {n : Nat} (h : Mid rb0 n rb) (L C : Int) (hw : rb.writable L C = true) :
    rb0.writable L C = true := by
  simp only [RB.writable, RB.masked, h.masks, Bool.and_eq_true] at hw ⊢
  exact ⟨h.clip L C hw.1, hw.2⟩

theorem Mid.draw {rb0 rb rb' : RB} {n : Nat} (h : Mid rb0 n rb) (hd : Draws rb rb') : Mid rb0 n rb' := by
  refine ⟨?_, hd.masks.trans h.masks, hd.lines.trans h.lines, hd.cols.trans h.cols,
    fun L C hh => h.clip L C (hd.clip L C hh), ?_⟩
  · obtain ⟨extra, he, hl, hc⟩ := h.stack
    exact ⟨extra, by rw [hd.stack, he], hl, hc⟩
  · intro L C hw
    have : rb.writable L C = false := by
      cases hh : rb.writable L C with
      | false => rfl
      | true => rw [h.writable L C hh] at hw; exact absurd hw (by simp)
    rw [hd.cells L C this, h.cells L C hw]

theorem Mid.save {rb0 rb : RB} {n : Nat} (h : Mid rb0 n rb) : Mid rb0 (n + 1) rb.save := by
  obtain ⟨extra, he, hl, hc⟩ := h.stack
  refine ⟨⟨{ xl := rb.xl, xc := rb.xc, clip := rb.clip, pen := rb.pen, penOnly := false } :: extra,
    by simp [RB.save, he], by simp [hl], ?_⟩, h.masks, h.lines, h.cols, h.clip, h.cells⟩
  intro f hf hp L C hh
  rcases List.mem_cons.1 hf with rfl | hf
  · exact h.clip L C hh
  · exact hc f hf hp L C hh

theorem Mid.savepen {rb0 rb : RB} {n : Nat} (h : Mid rb0 n rb) : Mid rb0 (n + 1) rb.savepen := by
  obtain ⟨extra, he, hl, hc⟩ := h.stack
  refine ⟨⟨{ xl := rb.xl, xc := rb.xc, clip := rb.clip, pen := rb.pen, penOnly := true } :: extra,
    by simp [RB.savepen, he], by simp [hl], ?_⟩, h.masks, h.lines, h.cols, h.clip, h.cells⟩
  intro f hf hp L C hh
  rcases List.mem_cons.1 hf with rfl | hf
  · exact h.clip L C hh
  · exact hc f hf hp L C hh

theorem Mid.restore {rb0 rb : RB} {n : Nat} (hm : MasksLe rb0) (h : Mid rb0 (n + 1) rb) : Mid rb0 n rb.restore := by
  obtain ⟨extra, he, hl, hc⟩ := h.stack
  cases extra with
  | nil => simp at hl
  | cons f extra' =>
    have hstack : rb.stack = f :: (extra' ++ rb0.stack) := by simpa using he
    have hmasks : rb.masks.filter (fun m => decide (m.2 ≤ (extra' ++ rb0.stack).length)) = rb0.masks := by
      rw [h.masks]
      apply List.filter_eq_self.mpr
      intro m hmm
      have := hm m hmm
      simp only [List.length_append, decide_eq_true_eq]
      omega
    have hc' : ∀ g ∈ extra', g.penOnly = false → ∀ L C, clipHas g.clip L C = true → rb0.inClip L C = true :=
      fun g hg => hc g (List.mem_cons_of_mem _ hg)
    unfold RB.restore
    rw [hstack]
    simp only
    cases hp : f.penOnly with
    | true =>
      simp only [if_true]
      exact ⟨⟨extra', rfl, by simpa using hl, hc'⟩, hmasks, h.lines, h.cols, h.clip, h.cells⟩
    | false =>
      simp only [Bool.false_eq_true, if_false]
      refine ⟨⟨extra', rfl, by simpa using hl, hc'⟩, hmasks, h.lines, h.cols, ?_, h.cells⟩
      intro L C hh
      exact hc f (List.mem_cons_self ..) hp L C hh

theorem Mid.unwind (rb0 : RB) (hm : MasksLe rb0) : ∀ (n : Nat) (rb : RB), Mid rb0 n rb → Mid rb0 0 (RB.unwind n rb) := by
  intro n
  induction n with
  | zero => intro rb h; exact h
  | succ n ih => intro rb h; exact ih rb.restore (h.restore hm)

theorem Mid.runAux (rb0 : RB) (hm : MasksLe rb0) :
    ∀ (prog : List DrawOp) (n : Nat) (rb : RB), Mid rb0 n rb → Mid rb0 0 (RB.runAux n rb prog) := by
  intro prog
  induction prog with
  | nil => intro n rb h; exact Mid.unwind rb0 hm n rb h
  | cons op rest ih =>
    intro n rb h
    cases op with
    | save => exact ih (n + 1) rb.save h.save
    | savepen => exact ih (n + 1) rb.savepen h.savepen
    | restore =>
      cases n with
      | zero => exact ih 0 rb h
      | succ n => exact ih n rb.restore (h.restore hm)
    | eraseRect r => exact ih n _ (h.draw (draw_draws rb _ rfl))
    | skipRect r => exact ih n _ (h.draw (draw_draws rb _ rfl))
    | textAt l c s => exact ih n _ (h.draw (draw_draws rb _ rfl))
    | charAt l c cp => exact ih n _ (h.draw (draw_draws rb _ rfl))
    | clear => exact ih n _ (h.draw (draw_draws rb _ rfl))
    | setPen p => exact ih n _ (h.draw (draw_draws rb _ rfl))
    | translate d r => exact ih n _ (h.draw (draw_draws rb _ rfl))
    | clip r => exact ih n _ (h.draw (draw_draws rb _ rfl))
    | hline l c0 c1 st caps => exact ih n _ (h.draw (draw_draws rb _ rfl))
    | vline l0 l1 c st caps => exact ih n _ (h.draw (draw_draws rb _ rfl))
    | copyRect d s => exact ih n _ (h.draw (draw_draws rb _ rfl))
    | moveRect d s => exact ih n _ (h.draw (draw_draws rb _ rfl))

theorem unwind_stack : ∀ (n : Nat) (rb : RB) (extra base : List Frame), rb.stack = extra ++ base → extra.length = n →
    (RB.unwind n rb).stack = base := by
  intro n
  induction n with
  | zero =>
    intro rb extra base he hl
    have : extra = [] := List.eq_nil_of_length_eq_zero hl
    subst this
    show rb.stack = base
    simpa using he
  | succ n ih =>
    intro rb extra base he hl
    cases extra with
    | nil => simp at hl
    | cons f extra' =>
      refine ih rb.restore extra' base ?_ (by simpa using hl)
      unfold RB.restore
      rw [he]
      simp

theorem runAux_stack : ∀ (prog : List DrawOp) (n : Nat) (rb : RB) (extra base : List Frame),
    rb.stack = extra ++ base → extra.length = n → (RB.runAux n rb prog).stack = base := by
  intro prog
  induction prog with
  | nil => intro n rb extra base he hl; exact unwind_stack n rb extra base he hl
  | cons op rest ih =>
    intro n rb extra base he hl
    have hdraw : ∀ o : DrawOp, o.isStack = false → (RB.runAux n (rb.draw o) rest).stack = base :=
      fun o ho => ih n _ extra base (by rw [(draw_draws rb o ho).stack, he]) hl
    cases op with
    | save =>
      exact ih (n + 1) rb.save ({ xl := rb.xl, xc := rb.xc, clip := rb.clip, pen := rb.pen, penOnly := false } :: extra) base
        (by simp [RB.save, he]) (by simp [hl])
    | savepen =>
      exact ih (n + 1) rb.savepen ({ xl := rb.xl, xc := rb.xc, clip := rb.clip, pen := rb.pen, penOnly := true } :: extra) base
        (by simp [RB.savepen, he]) (by simp [hl])
    | restore =>
      cases n with
      | zero => exact ih 0 rb extra base he hl
      | succ n =>
        cases extra with
        | nil => simp at hl
        | cons f extra' =>
          refine ih n rb.restore extra' base ?_ (by simpa using hl)
          unfold RB.restore
          rw [he]
          simp
    | eraseRect r => exact hdraw _ rfl
    | skipRect r => exact hdraw _ rfl
    | textAt l c s => exact hdraw _ rfl
    | charAt l c cp => exact hdraw _ rfl
    | clear => exact hdraw _ rfl
    | setPen p => exact hdraw _ rfl
    | translate d r => exact hdraw _ rfl
    | clip r => exact hdraw _ rfl
    | hline l c0 c1 st caps => exact hdraw _ rfl
    | vline l0 l1 c st caps => exact hdraw _ rfl
    | copyRect d s => exact hdraw _ rfl
    | moveRect d s => exact hdraw _ rfl

/-- A handler's program leaves the save/restore stack as it found it (no assumption on the masks). -/
theorem run_stack (prog : List DrawOp) (rb : RB) : (rb.run prog).stack = rb.stack :=
  runAux_stack prog 0 rb [] rb.stack rfl rfl

theorem run_mid (prog : List DrawOp) (rb : RB) (hm : MasksLe rb) : Mid rb 0 (rb.run prog) :=
  Mid.runAux rb hm prog 0 rb (Mid.start rb)

/-- A handler's program leaves the frame as it found it — whatever it saves and restores in between. -/
theorem run_sameFrame (prog : List DrawOp) (rb : RB) (hm : MasksLe rb) : SameFrame rb (rb.run prog) := by
  have h := run_mid prog rb hm
  obtain ⟨extra, he, hl, _⟩ := h.stack
  have : extra = [] := List.eq_nil_of_length_eq_zero hl
  subst this
  exact ⟨by simpa using he, h.masks, h.lines, h.cols⟩

theorem run_writable_sub (prog : List DrawOp) (rb : RB) (hm : MasksLe rb) (L C : Int) :
    (rb.run prog).writable L C = true → rb.writable L C = true :=
  (run_mid prog rb hm).writable L C

/-- **Confinement of a drawing program**: whatever the program — texts, erases, characters, line segments, copies and
    moves of rectangles, at any coordinates, under any clip, translation and pen it sets up, saved and restored in any
    nesting — a cell the buffer does not let it touch keeps its value. -/
theorem run_cells_of_not_writable (prog : List DrawOp) (rb : RB) (hm : MasksLe rb) (L C : Int) :
    rb.writable L C = false → (rb.run prog).cells L C = rb.cells L C :=
  (run_mid prog rb hm).cells L C

/-! ### what the flush sends -/

theorem resolve_none {rb : RB} {L C : Int} (h : rb.cells L C = none) : rb.resolve L C = none := by
  simp [RB.resolve, h]

theorem resolve_plain {rb : RB} {L C : Int} {x : Cell} (h : rb.cells L C = some (.plain x)) : rb.resolve L C = some x := by
  simp [RB.resolve, h]

/-! ### save / restore -/

theorem restore_of_save_frame (rb0 rb : RB) (rest : List Frame)
    (hs : rb.stack = { xl := rb0.xl, xc := rb0.xc, clip := rb0.clip, pen := rb0.pen, penOnly := false } :: rest) :
    rb.restore.xl = rb0.xl ∧ rb.restore.xc = rb0.xc ∧ rb.restore.clip = rb0.clip ∧ rb.restore.pen = rb0.pen ∧
    rb.restore.stack = rest ∧ rb.restore.cells = rb.cells ∧ rb.restore.lines = rb.lines ∧ rb.restore.cols = rb.cols ∧
    rb.restore.masks = rb.masks.filter (fun m => m.2 ≤ rest.length) := by
  unfold RB.restore
  rw [hs]
  simp

end WinRB
end Tickit
