import Tickit.Model.WinRB
import Tickit.Props.C06
/-
  Lemmas about the abstract render buffer (`Model/WinRB.lean`): how clip / mask / save / restore change the set of
  writable cells, and confinement of every drawing operation to that set.
-/
namespace Tickit
namespace WinRB
open Tickit.Rect

theorem memb_translate (r : Rect) (d k l c : Int) :
    (r.translate d k).memb l c = r.memb (l - d) (c - k) := by
  apply Bool.eq_iff_iff.mpr
  rw [Rect.memb_iff, Rect.memb_iff]
  simp only [Rect.Mem, Rect.translate, Rect.bottom, Rect.right]
  omega

theorem memb_true_iff (r : Rect) (l c : Int) : r.memb l c = true ↔ r.Mem l c := Rect.memb_iff r l c

theorem memb_false_iff (r : Rect) (l c : Int) : r.memb l c = false ↔ ¬ r.Mem l c := by
  rw [← memb_true_iff]; cases r.memb l c <;> simp

/-! ### the writable set -/

@[simp] theorem writable_translate (rb : RB) (d r : Int) (L C : Int) :
    (rb.translate d r).writable L C = rb.writable L C := rfl

@[simp] theorem writable_save (rb : RB) (L C : Int) : rb.save.writable L C = rb.writable L C := rfl

@[simp] theorem writable_setpen (rb : RB) (p : Option Pen) (L C : Int) : (rb.setpen p).writable L C = rb.writable L C := rfl

theorem writable_clipTo (rb : RB) (r : Rect) (L C : Int) :
    (rb.clipTo r).writable L C = (rb.writable L C && (r.translate rb.xl rb.xc).memb L C) := by
  unfold RB.clipTo
  cases h : Rect.intersect rb.clip (r.translate rb.xl rb.xc) with
  | none =>
    have hn := Props.C06.intersect_none _ _ h L C
    simp only [RB.writable, RB.inClip, RB.masked]
    apply Bool.eq_iff_iff.mpr
    simp only [Bool.and_eq_true, bne_iff_ne, ne_eq, Bool.not_eq_true', memb_true_iff]
    constructor
    · intro hh; exact (hh.1.1 trivial).elim
    · intro hh; exact absurd ⟨hh.1.1.2, hh.2⟩ hn
  | some c =>
    have hs := Props.C06.intersect_some _ _ _ h
    simp only [RB.writable, RB.inClip, RB.masked]
    apply Bool.eq_iff_iff.mpr
    simp only [Bool.and_eq_true, bne_iff_ne, ne_eq, Bool.not_eq_true', memb_true_iff]
    constructor
    · intro hh
      have := (hs.2 L C).1 hh.1.2
      refine ⟨⟨⟨?_, this.1⟩, hh.2⟩, this.2⟩
      have := this.1
      unfold Rect.Mem Rect.bottom at this
      omega
    · intro hh
      refine ⟨⟨?_, (hs.2 L C).2 ⟨hh.1.1.2, hh.2⟩⟩, hh.1.2⟩
      have := hs.1
      unfold Rect.Nonempty at this
      omega

theorem writable_mask (rb : RB) (r : Rect) (L C : Int) :
    (rb.mask r).writable L C = (rb.writable L C && !(r.translate rb.xl rb.xc).memb L C) := by
  simp only [RB.writable, RB.mask, RB.inClip, RB.masked, List.any_cons]
  cases (rb.clip.lines != 0 && rb.clip.memb L C) <;> cases (r.translate rb.xl rb.xc).memb L C <;> simp

/-! ### control state -/

@[simp] theorem clipTo_xl (rb : RB) (r : Rect) : (rb.clipTo r).xl = rb.xl := by unfold RB.clipTo; split <;> rfl
@[simp] theorem clipTo_xc (rb : RB) (r : Rect) : (rb.clipTo r).xc = rb.xc := by unfold RB.clipTo; split <;> rfl
@[simp] theorem clipTo_stack (rb : RB) (r : Rect) : (rb.clipTo r).stack = rb.stack := by unfold RB.clipTo; split <;> rfl
@[simp] theorem clipTo_masks (rb : RB) (r : Rect) : (rb.clipTo r).masks = rb.masks := by unfold RB.clipTo; split <;> rfl
@[simp] theorem clipTo_cells (rb : RB) (r : Rect) : (rb.clipTo r).cells = rb.cells := by unfold RB.clipTo; split <;> rfl
@[simp] theorem clipTo_pen (rb : RB) (r : Rect) : (rb.clipTo r).pen = rb.pen := by unfold RB.clipTo; split <;> rfl
@[simp] theorem clipTo_lines (rb : RB) (r : Rect) : (rb.clipTo r).lines = rb.lines := by unfold RB.clipTo; split <;> rfl
@[simp] theorem clipTo_cols (rb : RB) (r : Rect) : (rb.clipTo r).cols = rb.cols := by unfold RB.clipTo; split <;> rfl

/-- The part of a buffer's state a handler's drawing program cannot change. -/
structure SameFrame (a b : RB) : Prop where
  stack : b.stack = a.stack
  masks : b.masks = a.masks
  lines : b.lines = a.lines
  cols : b.cols = a.cols

theorem SameFrame.refl (a : RB) : SameFrame a a := ⟨rfl, rfl, rfl, rfl⟩

theorem SameFrame.trans {a b c : RB} (h1 : SameFrame a b) (h2 : SameFrame b c) : SameFrame a c :=
  ⟨h2.stack.trans h1.stack, h2.masks.trans h1.masks, h2.lines.trans h1.lines, h2.cols.trans h1.cols⟩

/-! ### confinement of the drawing operations (what C03 calls `confined`) -/

theorem putRun_cells_of_not_writable (rb : RB) (line col n : Int) (f : Int → Option CellV) (L C : Int)
    (h : rb.writable L C = false) : (rb.putRun line col n f).cells L C = rb.cells L C := by
  simp only [RB.putRun]
  rw [if_neg]
  intro hh
  rw [h] at hh
  exact absurd hh.2.2.2 (by simp)

theorem putRect_cells_of_not_writable (rb : RB) (rect : Rect) (v : Option CellV) (L C : Int)
    (h : rb.writable L C = false) : (rb.putRect rect v).cells L C = rb.cells L C := by
  simp only [RB.putRect]
  rw [if_neg]
  intro hh
  rw [h] at hh
  exact absurd hh.2 (by simp)

theorem draw_cells_of_not_writable (rb : RB) (op : DrawOp) (L C : Int)
    (h : rb.writable L C = false) : (rb.draw op).cells L C = rb.cells L C := by
  cases op with
  | eraseRect r => exact putRect_cells_of_not_writable rb r _ L C h
  | skipRect r => exact putRect_cells_of_not_writable rb r _ L C h
  | textAt l c s =>
    simp only [RB.draw, RB.textAt]
    split
    · exact putRun_cells_of_not_writable rb l c _ _ L C h
    · show (rb.putRun l c (textCols s) fun k => some (CellV.text rb.nextId rb.pen s k)).cells L C = rb.cells L C
      exact putRun_cells_of_not_writable rb l c _ _ L C h
  | charAt l c cp => simp only [RB.draw, RB.charAt]; exact putRun_cells_of_not_writable rb l c _ _ L C h
  | clear => exact putRect_cells_of_not_writable rb _ _ L C h
  | setPen p => rfl
  | translate d r => rfl
  | clip r => simp [RB.draw]

/-- No drawing operation enlarges the writable set. -/
theorem draw_writable_sub (rb : RB) (op : DrawOp) (L C : Int)
    (h : (rb.draw op).writable L C = true) : rb.writable L C = true := by
  cases op with
  | eraseRect r => exact h
  | skipRect r => exact h
  | textAt l c s =>
    simp only [RB.draw, RB.textAt] at h
    split at h <;> exact h
  | charAt l c cp => exact h
  | clear => exact h
  | setPen p => exact h
  | translate d r => exact h
  | clip r =>
    simp only [RB.draw, writable_clipTo, Bool.and_eq_true] at h
    exact h.1

theorem draw_sameFrame (rb : RB) (op : DrawOp) : SameFrame rb (rb.draw op) := by
  cases op with
  | textAt l c s => simp only [RB.draw, RB.textAt]; split <;> exact ⟨rfl, rfl, rfl, rfl⟩
  | clip r => simp only [RB.draw]; exact ⟨by simp, by simp, by simp, by simp⟩
  | _ => exact ⟨rfl, rfl, rfl, rfl⟩

theorem run_sameFrame (prog : List DrawOp) : ∀ rb : RB, SameFrame rb (rb.run prog) := by
  induction prog with
  | nil => intro rb; exact SameFrame.refl rb
  | cons op rest ih =>
    intro rb
    exact (draw_sameFrame rb op).trans (ih (rb.draw op))

theorem run_writable_sub (prog : List DrawOp) : ∀ (rb : RB) (L C : Int),
    (rb.run prog).writable L C = true → rb.writable L C = true := by
  induction prog with
  | nil => intro rb L C h; exact h
  | cons op rest ih =>
    intro rb L C h
    exact draw_writable_sub rb op L C (ih (rb.draw op) L C h)

/-- **Confinement of a drawing program**: whatever the program, a cell the buffer does not let it touch keeps its
    value. -/
theorem run_cells_of_not_writable (prog : List DrawOp) : ∀ (rb : RB) (L C : Int),
    rb.writable L C = false → (rb.run prog).cells L C = rb.cells L C := by
  induction prog with
  | nil => intro rb L C _; rfl
  | cons op rest ih =>
    intro rb L C h
    have h1 : (rb.draw op).writable L C = false := by
      cases hh : (rb.draw op).writable L C with
      | false => rfl
      | true => rw [draw_writable_sub rb op L C hh] at h; exact absurd h (by simp)
    show ((rb.draw op).run rest).cells L C = rb.cells L C
    rw [ih (rb.draw op) L C h1, draw_cells_of_not_writable rb op L C h]

/-! ### what the flush sends -/

theorem resolve_none {rb : RB} {L C : Int} (h : rb.cells L C = none) : rb.resolve L C = none := by
  simp [RB.resolve, h]

theorem resolve_plain {rb : RB} {L C : Int} {x : Cell} (h : rb.cells L C = some (.plain x)) : rb.resolve L C = some x := by
  simp [RB.resolve, h]

/-! ### save / restore -/

theorem restore_of_save_frame (rb0 rb : RB) (rest : List Frame)
    (hs : rb.stack = { xl := rb0.xl, xc := rb0.xc, clip := rb0.clip, pen := rb0.pen, penOnly := false } :: rest) :
    rb.restore.xl = rb0.xl ∧ rb.restore.xc = rb0.xc ∧ rb.restore.clip = rb0.clip ∧ rb.restore.pen = rb0.pen ∧
    rb.restore.stack = rest ∧ rb.restore.cells = rb.cells ∧ rb.restore.lines = rb.lines ∧ rb.restore.cols = rb.cols ∧
    rb.restore.masks = rb.masks.filter (fun m => m.2 ≤ rest.length) := by
  unfold RB.restore
  rw [hs]
  simp

end WinRB
end Tickit
