import Tickit.Proof.EvLoopFbLog
import Tickit.Proof.EvLoopWF
/-
  The self-pipe configuration (Model/EvLoopFb.lean): the bookkeeping invariant of tickit.c's signal fallback,
  the analogue of `KInv` (Proof/EvLoopKInv.lean) for the default loop.

  `FInv N p st`: `t->signal.pipewatch` is the watch `p`, one of the `N` watches `tickit_build` made; it is live, its
  callback is `on_sigpipe_readable`, its poll entry still names the read end of the pipe with `POLLIN`; a recorded
  signal has its wake-up byte in the pipe (`pendingSig ≠ [] → pipeBytes > 0`).  What keeps this true while callbacks
  run: nothing a callback can reach — the timer queue, the deferred callbacks, the process watches, the harness's
  handles, `process.notify` pointers — names one of the first `N` watches, and no io watch made later shares the
  pipe watch's poll entry (the terminal's input watch, descriptor -1, *does*: `evloop_io` takes an entry whose
  `fd == -1` for free; it is one of the first `N` and is never cancelled before `tickit_destroy`).

  `FStep m N p st st'`: the step from `st` to `st'` keeps `FInv`, does not touch the first `N` watches, never
  changes a poll index, only clears a watch type; with `m = true` (everything a callback can do) it also leaves the
  pipe watch's poll entry alone and only adds to `t->signal.pending`.  `m = false`: steps that contain the wait
  (which rewrites `revents`) or `on_sigpipe_readable` (which empties `pending`).
-/
namespace Tickit.EvLoop.Fb
open Tickit.EvLoop

/-! ### the components the invariant reads -/

structure Same (st st' : St) : Prop where
  heap : st'.heap = st.heap
  timers : st'.timers = st.timers
  laters : st'.laters = st.laters
  procs : st'.procs = st.procs
  slots : st'.slots = st.slots
  pfd : st'.pfd = st.pfd
  pipewatch : st'.pipewatch = st.pipewatch
  pendingSig : st'.pendingSig = st.pendingSig
  pipeBytes : st'.pipeBytes = st.pipeBytes
  pipesMade : st'.pipesMade = st.pipesMade
  alive : st'.alive = st.alive
  cfg : st'.cfg = st.cfg

macro "same_rfl" : tactic => `(tactic| exact ⟨rfl, rfl, rfl, rfl, rfl, rfl, rfl, rfl, rfl, rfl, rfl, rfl⟩)

theorem Same.refl (st : St) : Same st st := by same_rfl

theorem same_fail (st : St) (w : Ub) : Same st (st.fail w) := by
  unfold St.fail; split
  · same_rfl
  · same_rfl

structure FInv (N p : Nat) (st : St) : Prop where
  pw : st.pipewatch = some p
  plt : p < N
  nle : N ≤ st.heap.length
  plive : st.live p = true
  pslot : (st.getW p).slot = -6
  pidx : (st.getW p).evi < st.pfd.length
  pfd_fd : (st.pfd.getD (st.getW p).evi default).fd = 90
  pfd_ev : (st.pfd.getD (st.getW p).evi default).events = POLLIN
  pfd_w : (st.pfd.getD (st.getW p).evi default).watch = some p
  made : st.pipesMade = 1
  n1 : ∀ x ∈ st.timers, N ≤ x
  n2 : ∀ x ∈ st.laters, N ≤ x
  n3 : ∀ x ∈ st.procs, N ≤ x
  n4 : ∀ r ∈ st.slots, N ≤ r.handle
  n5 : ∀ a l, (st.getW a).notify = some l → N ≤ l
  r5 : ∀ a, N ≤ a → a < st.heap.length → (st.getW a).type = .io → (st.getW a).evi ≠ (st.getW p).evi
  bytes : st.pendingSig ≠ [] → st.pipeBytes > 0

/-- What a step does to the heap: it grows; the first `N` watches keep callback, poll index, type and liveness;
    no poll index changes; a type is only ever cleared. -/
structure HExtP (N : Nat) (st st' : St) : Prop where
  len : st.heap.length ≤ st'.heap.length
  low : ∀ x, x < N → (st'.getW x).slot = (st.getW x).slot ∧ (st'.getW x).evi = (st.getW x).evi ∧
    (st'.getW x).type = (st.getW x).type ∧ st'.live x = st.live x
  evi : ∀ x, x < st.heap.length → (st'.getW x).evi = (st.getW x).evi
  ty : ∀ x, x < st.heap.length → (st'.getW x).type = (st.getW x).type ∨ (st'.getW x).type = .none

theorem HExtP.refl (N : Nat) (st : St) : HExtP N st st :=
  ⟨Nat.le_refl _, fun _ _ => ⟨rfl, rfl, rfl, rfl⟩, fun _ _ => rfl, fun _ _ => Or.inl rfl⟩

theorem HExtP.trans {N : Nat} {a b c : St} (h1 : HExtP N a b) (h2 : HExtP N b c) : HExtP N a c := by
  refine ⟨Nat.le_trans h1.len h2.len, ?_, ?_, ?_⟩
  · intro x hx
    obtain ⟨a1, a2, a3, a4⟩ := h1.low x hx
    obtain ⟨b1, b2, b3, b4⟩ := h2.low x hx
    exact ⟨b1.trans a1, b2.trans a2, b3.trans a3, b4.trans a4⟩
  · intro x hx
    exact (h2.evi x (Nat.lt_of_lt_of_le hx h1.len)).trans (h1.evi x hx)
  · intro x hx
    cases h2.ty x (Nat.lt_of_lt_of_le hx h1.len) with
    | inl h => rw [h]; exact h1.ty x hx
    | inr h => exact Or.inr h

theorem HExtP.of_heap_eq {N : Nat} {st st' : St} (h : st'.heap = st.heap) : HExtP N st st' :=
  ⟨by rw [h]; exact Nat.le_refl _,
   fun x _ => by rw [getW_of_heap_eq h, live_of_heap_eq h]; exact ⟨rfl, rfl, rfl, rfl⟩,
   fun x _ => by rw [getW_of_heap_eq h],
   fun x _ => by rw [getW_of_heap_eq h]; exact Or.inl rfl⟩

structure FFacts (m : Bool) (N p : Nat) (st st' : St) : Prop where
  inv : FInv N p st'
  ext : HExtP N st st'
  alive : st'.alive = st.alive
  cfg : st'.cfg = st.cfg
  slotp : m = true → st'.pfd.getD (st.getW p).evi default = st.pfd.getD (st.getW p).evi default
  pend : m = true → ∀ s ∈ st.pendingSig, s ∈ st'.pendingSig

def FStep (m : Bool) (N p : Nat) (st st' : St) : Prop := FInv N p st → FFacts m N p st st'

theorem FStep.refl (m : Bool) (N p : Nat) (st : St) : FStep m N p st st :=
  fun i => ⟨i, HExtP.refl N st, rfl, rfl, fun _ => rfl, fun _ _ h => h⟩

theorem FInv.evi_p {N p : Nat} {st st' : St} (i : FInv N p st) (x : HExtP N st st') : (st'.getW p).evi = (st.getW p).evi :=
  (x.low p i.plt).2.1

theorem FStep.trans {m : Bool} {N p : Nat} {a b c : St} (h1 : FStep m N p a b) (h2 : FStep m N p b c) : FStep m N p a c := by
  intro ia
  have f1 := h1 ia
  have f2 := h2 f1.inv
  have he : (b.getW p).evi = (a.getW p).evi := ia.evi_p f1.ext
  refine ⟨f2.inv, f1.ext.trans f2.ext, f2.alive.trans f1.alive, f2.cfg.trans f1.cfg, ?_, ?_⟩
  · intro hm
    have := f2.slotp hm
    rw [he] at this
    exact this.trans (f1.slotp hm)
  · intro hm s hs
    exact f2.pend hm s (f1.pend hm s hs)

theorem FStep.weaken {m : Bool} {N p : Nat} {st st' : St} (h : FStep true N p st st') : FStep m N p st st' :=
  fun i => ⟨(h i).inv, (h i).ext, (h i).alive, (h i).cfg, fun _ => (h i).slotp rfl, fun _ => (h i).pend rfl⟩

/-- The invariant after a step, from the pieces: `r5` and everything about the pipe watch follow from `HExtP`. -/
theorem FInv.of_ext {N p : Nat} {st st' : St} (i : FInv N p st) (x : HExtP N st st')
    (hpw : st'.pipewatch = st.pipewatch) (hmade : st'.pipesMade = st.pipesMade)
    (hlen : st.pfd.length ≤ st'.pfd.length)
    (hfd : (st'.pfd.getD (st.getW p).evi default).fd = (st.pfd.getD (st.getW p).evi default).fd)
    (hev : (st'.pfd.getD (st.getW p).evi default).events = (st.pfd.getD (st.getW p).evi default).events)
    (hwa : (st'.pfd.getD (st.getW p).evi default).watch = (st.pfd.getD (st.getW p).evi default).watch)
    (h1 : ∀ y ∈ st'.timers, N ≤ y) (h2 : ∀ y ∈ st'.laters, N ≤ y) (h3 : ∀ y ∈ st'.procs, N ≤ y)
    (h4 : ∀ r ∈ st'.slots, N ≤ r.handle)
    (h5 : ∀ a l, (st'.getW a).notify = some l → N ≤ l)
    (hnew : ∀ a, st.heap.length ≤ a → a < st'.heap.length → (st'.getW a).type = .io → (st'.getW a).evi ≠ (st.getW p).evi)
    (hb : st'.pendingSig ≠ [] → st'.pipeBytes > 0) : FInv N p st' := by
  have he : (st'.getW p).evi = (st.getW p).evi := i.evi_p x
  obtain ⟨l1, _, _, l4⟩ := x.low p i.plt
  refine ⟨hpw.trans i.pw, i.plt, Nat.le_trans i.nle x.len, l4.trans i.plive, l1.trans i.pslot, ?_, ?_, ?_, ?_,
    hmade.trans i.made, h1, h2, h3, h4, h5, ?_, hb⟩
  · rw [he]; exact Nat.lt_of_lt_of_le i.pidx hlen
  · rw [he, hfd]; exact i.pfd_fd
  · rw [he, hev]; exact i.pfd_ev
  · rw [he, hwa]; exact i.pfd_w
  · intro a hN ha ht
    rw [he]
    by_cases hlt : a < st.heap.length
    · rw [x.evi a hlt]
      cases x.ty a hlt with
      | inl h => rw [h] at ht; exact i.r5 a hN hlt ht
      | inr h => rw [h] at ht; cases ht
    · exact hnew a (Nat.le_of_not_lt hlt) ha ht

theorem FInv.of_same {N p : Nat} {st st' : St} (h : Same st st') (i : FInv N p st) : FInv N p st' := by
  have hg : ∀ x, st'.getW x = st.getW x := fun x => getW_of_heap_eq h.heap x
  refine i.of_ext (HExtP.of_heap_eq h.heap) h.pipewatch h.pipesMade (by rw [h.pfd]; exact Nat.le_refl _)
    (by rw [h.pfd]) (by rw [h.pfd]) (by rw [h.pfd]) (by rw [h.timers]; exact i.n1) (by rw [h.laters]; exact i.n2)
    (by rw [h.procs]; exact i.n3) (by rw [h.slots]; exact i.n4) ?_ ?_ ?_
  · intro a l hl; rw [hg] at hl; exact i.n5 a l hl
  · intro a h1 h2; rw [h.heap] at h2; omega
  · rw [h.pendingSig, h.pipeBytes]; exact i.bytes

/-- A step that leaves every component the invariant reads. -/
theorem Same.step {m : Bool} {N p : Nat} {st st' : St} (h : Same st st') : FStep m N p st st' :=
  fun i => ⟨i.of_same h, HExtP.of_heap_eq h.heap, h.alive, h.cfg, fun _ => by rw [h.pfd], fun _ s hs => by rw [h.pendingSig]; exact hs⟩

theorem f_emit {m : Bool} {N p : Nat} (st : St) (e : Ev) : FStep m N p st (st.emit e) := Same.step (by same_rfl)
theorem f_fail {m : Bool} {N p : Nat} (st : St) (w : Ub) : FStep m N p st (st.fail w) := (same_fail st w).step

/-! ### primitives -/

theorem getW_oob (st : St) (a : Nat) (h : st.heap.length ≤ a) : st.getW a = default := by
  simp only [St.getW, List.getD_eq_getElem?_getD]
  rw [List.getElem?_eq_none h]; rfl

theorem notify_alloc (st : St) (w : Watch) (a l : Nat) (hw : w.notify = none)
    (h : ((st.alloc w).1.getW a).notify = some l) : (st.getW a).notify = some l := by
  by_cases hlt : a < st.heap.length
  · rw [getW_alloc_old st w a hlt] at h; exact h
  · exfalso
    by_cases he : a = st.heap.length
    · subst he; rw [getW_alloc_new] at h; rw [hw] at h; cases h
    · rw [getW_oob _ a (by rw [alloc_len]; omega)] at h; cases h

theorem hextp_alloc {N : Nat} (st : St) (w : Watch) (hN : N ≤ st.heap.length) : HExtP N st (st.alloc w).1 :=
  ⟨by rw [alloc_len]; omega,
   fun x hx => by
     have := Nat.lt_of_lt_of_le hx hN
     rw [getW_alloc_old st w x this, live_alloc_old st w x this]; exact ⟨rfl, rfl, rfl, rfl⟩,
   fun x hx => by rw [getW_alloc_old st w x hx],
   fun x hx => by rw [getW_alloc_old st w x hx]; exact Or.inl rfl⟩

/-- Allocating a watch that is not an io watch. -/
theorem f_alloc {m : Bool} {N p : Nat} (st : St) (w : Watch) (ht : w.type ≠ .io) (hn : w.notify = none) :
    FStep m N p st (st.alloc w).1 := by
  intro i
  have hx := hextp_alloc (N := N) st w i.nle
  refine ⟨i.of_ext hx rfl rfl (Nat.le_refl _) rfl rfl rfl i.n1 i.n2 i.n3 i.n4 ?_ ?_ i.bytes, hx, rfl, rfl, fun _ => rfl, fun _ _ h => h⟩
  · intro a l hl; exact i.n5 a l (notify_alloc st w a l hn hl)
  · intro a h1 h2 h3
    rw [alloc_len] at h2
    have : a = st.heap.length := by omega
    subst this; rw [getW_alloc_new] at h3; exact absurd h3 ht

/-- Overwriting a watch: callback and poll index stay; the type may be cleared, the watch freed, only outside
    the first `N`; a `process.notify` pointer it gains points outside the first `N`. -/
theorem f_setW {m : Bool} {N p : Nat} (st : St) (a : Nat) (w' : Watch) (hs : w'.slot = (st.getW a).slot)
    (he : w'.evi = (st.getW a).evi) (ht : w'.type = (st.getW a).type ∨ (w'.type = .none ∧ N ≤ a))
    (hf : w'.freed = (st.getW a).freed ∨ N ≤ a)
    (hn : ∀ l, w'.notify = some l → (st.getW a).notify = some l ∨ N ≤ l) : FStep m N p st (st.setW a w') := by
  by_cases ha : a < st.heap.length
  · intro i
    have hx : HExtP N st (st.setW a w') := by
      refine ⟨by rw [St.length_setW]; exact Nat.le_refl _, ?_, ?_, ?_⟩
      · intro x hx
        by_cases hax : a = x
        · subst hax
          have hlt' : a < (st.setW a w').heap.length := by rw [St.length_setW]; exact ha
          rw [St.getW_setW_self st a w' ha, live_eq_not_freed _ _ hlt', live_eq_not_freed _ _ ha, St.getW_setW_self st a w' ha]
          refine ⟨hs, he, ?_, ?_⟩
          · cases ht with
            | inl h => exact h
            | inr h => omega
          · cases hf with
            | inl h => rw [h]
            | inr h => omega
        · rw [St.getW_setW_ne st a x w' hax, St.live_setW_ne _ _ _ _ hax]; exact ⟨rfl, rfl, rfl, rfl⟩
      · intro x hx
        by_cases hax : a = x
        · subst hax; rw [St.getW_setW_self st a w' ha]; exact he
        · rw [St.getW_setW_ne st a x w' hax]
      · intro x hx
        by_cases hax : a = x
        · subst hax; rw [St.getW_setW_self st a w' ha]
          cases ht with
          | inl h => exact Or.inl h
          | inr h => exact Or.inr h.1
        · rw [St.getW_setW_ne st a x w' hax]; exact Or.inl rfl
    refine ⟨i.of_ext hx rfl rfl (Nat.le_refl _) rfl rfl rfl i.n1 i.n2 i.n3 i.n4 ?_ ?_ i.bytes, hx, rfl, rfl, fun _ => rfl, fun _ _ h => h⟩
    · intro b l hl
      by_cases hab : a = b
      · subst hab
        rw [St.getW_setW_self st a w' ha] at hl
        cases hn l hl with
        | inl h => exact i.n5 a l h
        | inr h => exact h
      · rw [St.getW_setW_ne st a b w' hab] at hl; exact i.n5 b l hl
    · intro b h1 h2
      rw [St.length_setW] at h2; omega
  · have hh : (st.setW a w').heap = st.heap := by
      simp only [St.heap_setW]
      exact List.set_eq_of_length_le (Nat.le_of_not_lt ha)
    exact Same.step ⟨hh, rfl, rfl, rfl, rfl, rfl, rfl, rfl, rfl, rfl, rfl, rfl⟩

theorem f_free {m : Bool} {N p : Nat} (st : St) (a : Nat) (hN : N ≤ a) : FStep m N p st (st.free a) := by
  unfold St.free
  split
  · exact f_setW st a _ rfl rfl (Or.inl rfl) (Or.inr hN) (fun l h => Or.inl h)
  · exact f_fail _ _

/-- A step that leaves the heap, the poll table and the pipe's bookkeeping, and whose lists stay outside the first `N`. -/
theorem f_lists {m : Bool} {N p : Nat} {st st' : St} (hh : st'.heap = st.heap) (hpfd : st'.pfd = st.pfd)
    (hpw : st'.pipewatch = st.pipewatch) (hps : st'.pendingSig = st.pendingSig) (hpb : st'.pipeBytes = st.pipeBytes)
    (hpm : st'.pipesMade = st.pipesMade) (hal : st'.alive = st.alive) (hcfg : st'.cfg = st.cfg)
    (h1 : (∀ y ∈ st.timers, N ≤ y) → ∀ y ∈ st'.timers, N ≤ y) (h2 : (∀ y ∈ st.laters, N ≤ y) → ∀ y ∈ st'.laters, N ≤ y)
    (h3 : (∀ y ∈ st.procs, N ≤ y) → ∀ y ∈ st'.procs, N ≤ y)
    (h4 : (∀ r ∈ st.slots, N ≤ r.handle) → ∀ r ∈ st'.slots, N ≤ r.handle) : FStep m N p st st' := by
  intro i
  have hg : ∀ x, st'.getW x = st.getW x := fun x => getW_of_heap_eq hh x
  refine ⟨i.of_ext (HExtP.of_heap_eq hh) hpw hpm (by rw [hpfd]; exact Nat.le_refl _) (by rw [hpfd]) (by rw [hpfd]) (by rw [hpfd])
    (h1 i.n1) (h2 i.n2) (h3 i.n3) (h4 i.n4) ?_ ?_ ?_, HExtP.of_heap_eq hh, hal, hcfg, fun _ => by rw [hpfd], fun _ s hs => by rw [hps]; exact hs⟩
  · intro a l hl; rw [hg] at hl; exact i.n5 a l hl
  · intro a h1 h2; rw [hh] at h2; omega
  · rw [hps, hpb]; exact i.bytes

theorem f_with_timers {m : Bool} {N p : Nat} (st : St) (l : List Nat) (h : ∀ y ∈ l, N ≤ y) : FStep m N p st { st with timers := l } :=
  f_lists rfl rfl rfl rfl rfl rfl rfl rfl (fun _ => h) id id id
theorem f_with_laters {m : Bool} {N p : Nat} (st : St) (l : List Nat) (h : ∀ y ∈ l, N ≤ y) : FStep m N p st { st with laters := l } :=
  f_lists rfl rfl rfl rfl rfl rfl rfl rfl id (fun _ => h) id id
theorem f_with_procs {m : Bool} {N p : Nat} (st : St) (l : List Nat) (h : ∀ y ∈ l, N ≤ y) : FStep m N p st { st with procs := l } :=
  f_lists rfl rfl rfl rfl rfl rfl rfl rfl id id (fun _ => h) id
theorem f_with_slots {m : Bool} {N p : Nat} (st : St) (l : List SlotRec) (h : (∀ r ∈ st.slots, N ≤ r.handle) → ∀ r ∈ l, N ≤ r.handle) :
    FStep m N p st { st with slots := l } :=
  f_lists rfl rfl rfl rfl rfl rfl rfl rfl id id id h

/-- Unlinking a watch from the list of its type. -/
theorem f_setListOf_erase {m : Bool} {N p : Nat} (st : St) (t : WType) (a : Nat) :
    FStep m N p st (setListOf st t ((listOf st t).erase a)) := by
  cases t
  · exact FStep.refl _ _ _ _
  · exact Same.step (by same_rfl)
  · exact f_lists rfl rfl rfl rfl rfl rfl rfl rfl (fun h y hy => h y (List.erase_subset hy)) id id id
  · exact f_lists rfl rfl rfl rfl rfl rfl rfl rfl id (fun h y hy => h y (List.erase_subset hy)) id id
  · exact Same.step (by same_rfl)
  · exact f_lists rfl rfl rfl rfl rfl rfl rfl rfl id id (fun h y hy => h y (List.erase_subset hy)) id

theorem getD_set_ne_slot (l : List PollSlot) (i j : Nat) (v : PollSlot) (h : i ≠ j) : (l.set i v).getD j default = l.getD j default := by
  rw [getD_set_slot]; simp [h]

/-- `evloop_cancel_io` of an entry other than the pipe watch's. -/
theorem f_evloopCancelIo {m : Bool} {N p : Nat} (st : St) (e : Nat) (he : e ≠ (st.getW p).evi) : FStep m N p st (evloopCancelIo st e) := by
  intro i
  unfold evloopCancelIo
  have hg : ∀ v : PollSlot, (st.pfd.set e v).getD (st.getW p).evi default = st.pfd.getD (st.getW p).evi default :=
    fun v => getD_set_ne_slot _ _ _ v he
  refine ⟨i.of_ext (HExtP.of_heap_eq rfl) rfl rfl (by simp) (by simp only [hg]) (by simp only [hg]) (by simp only [hg])
    i.n1 i.n2 i.n3 i.n4 i.n5 (fun a h1 (h2 : a < st.heap.length) _ => absurd h2 (by omega)) i.bytes,
    HExtP.of_heap_eq rfl, rfl, rfl, fun _ => hg _, fun _ _ h => h⟩

theorem mem_setInsert_of_mem {s x : Int} {l : List Int} (h : x ∈ l) : x ∈ setInsert s l := by
  unfold setInsert; split
  · exact h
  · exact List.mem_cons_of_mem _ h

/-- `sighandler`: the signal is recorded and a byte is written to the pipe. -/
theorem f_sigRecord {m : Bool} {N p : Nat} (st : St) (s : Int) : FStep m N p st (sigRecord st s) := by
  unfold sigRecord
  split
  · intro i
    refine ⟨i.of_ext (HExtP.of_heap_eq rfl) rfl rfl (Nat.le_refl _) rfl rfl rfl i.n1 i.n2 i.n3 i.n4 i.n5
      (fun a h1 (h2 : a < st.heap.length) _ => absurd h2 (by omega)) (fun _ => Nat.succ_pos _),
      HExtP.of_heap_eq rfl, rfl, rfl, fun _ => rfl, fun _ x hx => mem_setInsert_of_mem hx⟩
  · exact FStep.refl _ _ _ _

theorem f_raiseSig {m : Bool} {N p : Nat} (st : St) (s : Int) : FStep m N p st (raiseSig st s) := by
  unfold raiseSig
  split
  · exact FStep.refl _ _ _ _
  · split
    · exact f_sigRecord _ _
    · split
      · exact Same.step (by same_rfl)
      · exact FStep.refl _ _ _ _

theorem same_insertWatch (st : St) (l : List Nat) (flags new : Nat) : Same st (insertWatch st l flags new).1 := by
  unfold insertWatch
  split
  · exact Same.refl _
  · split
    · exact Same.refl _
    · exact same_fail _ _

theorem mem_insertWatch (st : St) (l : List Nat) (flags new : Nat) (x : Nat) (h : x ∈ (insertWatch st l flags new).2) :
    x = new ∨ x ∈ l := by
  unfold insertWatch at h
  split at h
  · simp only [List.mem_cons] at h; exact h
  · split at h
    · simp only [List.mem_append, List.mem_singleton] at h; exact h.symm
    · exact Or.inr h

/-! ### constructors -/

theorem findFreeSlot_fd : ∀ (l : List PollSlot) (i j : Nat), findFreeSlot l i = some j → (l.getD (j - i) default).fd = -1 := by
  intro l
  induction l with
  | nil => intro i j hh; simp [findFreeSlot] at hh
  | cons x xs ih =>
    intro i j hh
    simp only [findFreeSlot] at hh
    split at hh
    · rename_i hx
      cases hh
      simp only [Nat.sub_self, List.getD_cons_zero]; exact hx
    · have h1 := ih (i + 1) j hh
      have h2 := findFreeSlot_lt xs (i + 1) j hh
      have : j - i = (j - (i + 1)) + 1 := by omega
      rw [this, List.getD_cons_succ]; exact h1

/-- Allocating a watch, giving the loop a new poll table that keeps the pipe watch's entry, and filling in the new
    watch: it does not take the pipe watch's poll index. -/
theorem f_allocSet {m : Bool} {N p : Nat} (st : St) (w w' : Watch) (pfd' : List PollSlot)
    (hw : w'.type = .io → w'.evi ≠ (st.getW p).evi) (hn : w'.notify = none) (hlen : st.pfd.length ≤ pfd'.length)
    (hsame : pfd'.getD (st.getW p).evi default = st.pfd.getD (st.getW p).evi default) :
    FStep m N p st (({ (st.alloc w).1 with pfd := pfd' } : St).setW st.heap.length w') := by
  intro i
  have hnew : st.heap.length < ({ (st.alloc w).1 with pfd := pfd' } : St).heap.length := by
    show st.heap.length < (st.alloc w).1.heap.length
    rw [alloc_len]; omega
  have hold : ∀ x, x < st.heap.length →
      (({ (st.alloc w).1 with pfd := pfd' } : St).setW st.heap.length w').getW x = st.getW x := by
    intro x hx
    rw [St.getW_setW_ne _ _ x w' (by omega)]
    exact getW_alloc_old st w x hx
  have holdl : ∀ x, x < st.heap.length →
      (({ (st.alloc w).1 with pfd := pfd' } : St).setW st.heap.length w').live x = st.live x := by
    intro x hx
    rw [St.live_setW_ne _ _ x w' (by omega)]
    exact live_alloc_old st w x hx
  have hlen' : (({ (st.alloc w).1 with pfd := pfd' } : St).setW st.heap.length w').heap.length = st.heap.length + 1 := by
    rw [St.length_setW]; exact alloc_len st w
  have hx : HExtP N st (({ (st.alloc w).1 with pfd := pfd' } : St).setW st.heap.length w') := by
    refine ⟨by rw [hlen']; omega, ?_, ?_, ?_⟩
    · intro x hx
      have := Nat.lt_of_lt_of_le hx i.nle
      rw [hold x this, holdl x this]; exact ⟨rfl, rfl, rfl, rfl⟩
    · intro x hx; rw [hold x hx]
    · intro x hx; rw [hold x hx]; exact Or.inl rfl
  refine ⟨i.of_ext hx rfl rfl hlen (congrArg PollSlot.fd hsame) (congrArg PollSlot.events hsame) (congrArg PollSlot.watch hsame) i.n1 i.n2 i.n3 i.n4 ?_ ?_ i.bytes,
    hx, rfl, rfl, fun _ => hsame, fun _ _ h => h⟩
  · intro a l hl
    by_cases hlt : a < st.heap.length
    · rw [hold a hlt] at hl; exact i.n5 a l hl
    · exfalso
      by_cases he : a = st.heap.length
      · subst he; rw [St.getW_setW_self _ _ w' hnew, hn] at hl; cases hl
      · rw [getW_oob _ a (by rw [hlen']; omega)] at hl; cases hl
  · intro a h1 h2 h3
    rw [hlen'] at h2
    have : a = st.heap.length := by omega
    subst this
    rw [St.getW_setW_self _ _ w' hnew] at h3 ⊢
    exact hw h3

theorem f_watchIo {m : Bool} {N p : Nat} (st : St) (fd : Int) (cond flags : Nat) (slot : Int) :
    FStep m N p st (watchIo st fd cond flags slot).1 := by
  intro i
  unfold watchIo
  simp only []
  refine (FStep.trans ?_ ((same_insertWatch _ _ _ _).step.trans (Same.step (by same_rfl)))) i
  unfold evloopIo
  simp only []
  split
  · rename_i idx hfree
    have hlt := findFreeSlot_lt _ 0 idx hfree
    have hfd := findFreeSlot_fd _ 0 idx hfree
    have hne : idx ≠ (st.getW p).evi := by
      intro h
      rw [Nat.sub_zero, h] at hfd
      have := i.pfd_fd
      change (st.pfd.getD (st.getW p).evi default).fd = -1 at hfd
      rw [this] at hfd; cases hfd
    refine f_allocSet st _ _ _ (fun _ => ?_) ?_ (by rw [List.length_set]; exact Nat.le_refl _) (getD_set_ne_slot _ _ _ _ hne)
    · exact hne
    · show ((st.alloc _).1.getW st.heap.length).notify = none
      rw [getW_alloc_new]
  · refine f_allocSet st _ _ _ (fun _ => ?_) ?_ (by rw [List.length_append]; exact Nat.le_add_right _ _) ?_
    · show st.pfd.length ≠ (st.getW p).evi
      have := i.pidx; omega
    · show ((st.alloc _).1.getW st.heap.length).notify = none
      rw [getW_alloc_new]
    · show (st.pfd ++ _).getD (st.getW p).evi default = _
      simp only [List.getD_eq_getElem?_getD, List.getElem?_append_left i.pidx]

theorem f_watchTimerAt {m : Bool} {N p : Nat} (st : St) (due : TV) (flags : Nat) (slot : Int) :
    FStep m N p st (watchTimerAt st due flags slot).1 := by
  intro i
  unfold watchTimerAt
  simp only []
  split
  · rename_i l hl
    refine ((f_alloc st _ (by intro h; cases h) rfl).trans (f_with_timers _ l ?_)) i
    intro y hy
    cases (insTimer_mem _ _ _ _ _ hl y).mp hy with
    | inl h => rw [h]; exact i.nle
    | inr h => exact i.n1 y h
  · exact ((f_alloc st _ (by intro h; cases h) rfl).trans (f_fail _ _)) i

theorem f_watchTimerAfterMsec {m : Bool} {N p : Nat} (st : St) (msec : Int) (flags : Nat) (slot : Int) :
    FStep m N p st (watchTimerAfterMsec st msec flags slot).1 := by
  unfold watchTimerAfterMsec
  exact (f_emit st _).trans (f_watchTimerAt _ _ _ _)

theorem f_watchLater {m : Bool} {N p : Nat} (st : St) (flags : Nat) (slot : Int) (puser : Nat) :
    FStep m N p st (watchLater st flags slot puser).1 := by
  intro i
  unfold watchLater
  simp only []
  refine (((f_alloc st _ (by intro h; cases h) rfl).trans (same_insertWatch _ _ _ _).step).trans (f_with_laters _ _ ?_)) i
  intro y hy
  cases mem_insertWatch _ _ _ _ y hy with
  | inl h => rw [h]; exact i.nle
  | inr h => exact i.n2 y h

theorem f_ensurePipe {m : Bool} {N p : Nat} (st : St) : FStep m N p st (ensurePipe st) := by
  intro i
  unfold ensurePipe
  rw [i.pw]
  exact FStep.refl _ _ _ _ i

theorem f_installHandler {m : Bool} {N p : Nat} (st : St) (signum : Int) : FStep m N p st (installHandler st signum) := by
  unfold installHandler
  split
  · exact FStep.refl _ _ _ _
  · exact Same.step (by same_rfl)

theorem f_watchSignal {m : Bool} {N p : Nat} (st : St) (signum : Int) (flags : Nat) (slot : Int) :
    FStep m N p st (watchSignal st signum flags slot).1 := by
  unfold watchSignal
  simp only []
  have h1 : FStep m N p st (st.alloc { type := .signal, flags := flags &&& (BIND_UNBIND ||| BIND_DESTROY), slot := slot, signum := signum }).1 :=
    f_alloc st _ (by intro h; cases h) rfl
  exact (((h1.trans (f_ensurePipe _)).trans (f_installHandler _ _)).trans
    (same_insertWatch _ _ _ _).step).trans (Same.step (by same_rfl))

theorem f_ensureSigchld {m : Bool} {N p : Nat} (st : St) : FStep m N p st (ensureSigchld st) := by
  unfold ensureSigchld
  split
  · exact FStep.refl _ _ _ _
  · exact (f_watchSignal _ _ _ _).trans (Same.step (by same_rfl))

theorem same_waitpid (st : St) (pid : Int) : Same st (waitpid st pid).st := by
  unfold waitpid
  split
  · split
    · same_rfl
    · split
      · same_rfl
      · same_rfl
  · exact Same.refl _

theorem same_waitpidV (st : St) (pid : Int) : Same st (waitpidV st pid).st := by
  unfold waitpidV
  split
  · exact same_waitpid _ _
  · exact Same.refl _

theorem f_setWstatus {m : Bool} {N p : Nat} (st : St) (a : Nat) (ws : Int) :
    FStep m N p st (st.setW a { st.getW a with wstatus := ws }) :=
  f_setW st a _ rfl rfl (Or.inl rfl) (Or.inl rfl) (fun _ h => Or.inl h)

theorem f_setNotify {m : Bool} {N p : Nat} (st : St) (a : Nat) (n : Option Nat) (h : ∀ l, n = some l → N ≤ l) :
    FStep m N p st (setNotify st a n) := by
  unfold setNotify
  exact f_setW st a _ rfl rfl (Or.inl rfl) (Or.inl rfl) (fun l hl => Or.inr (h l hl))

theorem f_clearNotify {m : Bool} {N p : Nat} (st : St) (a : Nat) : FStep m N p st (clearNotify st a) := by
  unfold clearNotify
  split
  · exact f_setNotify st a none (fun l h => by cases h)
  · exact FStep.refl _ _ _ _

/-- The tail of `tickit_watch_process`; `a` is the process watch just allocated. -/
theorem f_linkProcess {m : Bool} {N p : Nat} (st : St) (a : Nat) (pid : Int) (flags : Nat) (ha : N ≤ a) :
    FStep m N p st (linkProcess st a pid flags) := by
  intro i
  unfold linkProcess
  simp only []
  have hw := (same_waitpid st pid).step (m := m) (N := N) (p := p)
  have iw := (hw i).inv
  split
  · have hl : FStep m N p st (watchLater ((waitpid st pid).st.setW a { (waitpid st pid).st.getW a with wstatus := (waitpid st pid).wstatus }) 0 (-4) a).1 :=
      (hw.trans (f_setWstatus _ a _)).trans (f_watchLater _ 0 (-4) a)
    have il := (hl i).inv
    have hnew : N ≤ (watchLater ((waitpid st pid).st.setW a { (waitpid st pid).st.getW a with wstatus := (waitpid st pid).wstatus }) 0 (-4) a).2 := by
      show N ≤ ((waitpid st pid).st.setW a _).heap.length
      rw [St.length_setW]; exact iw.nle
    split
    · unfold linkNotified
      refine ((hl.trans (f_setNotify _ a _ (fun l h => by cases h; exact hnew))).trans
        ((same_insertWatch _ _ _ _).step.trans (f_with_procs _ _ ?_))) i
      intro y hy
      cases mem_insertWatch _ _ _ _ y hy with
      | inl h => rw [h]; exact ha
      | inr h =>
        have : y ∈ (watchLater ((waitpid st pid).st.setW a { (waitpid st pid).st.getW a with wstatus := (waitpid st pid).wstatus }) 0 (-4) a).1.procs := h
        exact il.n3 y this
    · exact hl i
  · refine (hw.trans ((same_insertWatch _ _ _ _).step.trans (f_with_procs _ _ ?_))) i
    intro y hy
    cases mem_insertWatch _ _ _ _ y hy with
    | inl h => rw [h]; exact ha
    | inr h => exact iw.n3 y h

theorem f_watchProcess {m : Bool} {N p : Nat} (st : St) (pid : Int) (flags : Nat) (slot : Int) :
    FStep m N p st (watchProcess st pid flags slot).1 := by
  intro i
  unfold watchProcess
  exact (((f_alloc st _ (by intro h; cases h) rfl).trans (f_ensureSigchld _)).trans (f_linkProcess _ _ _ _ i.nle)) i

/-! ### cancel -/

theorem same_notify (st : St) (a flags : Nat) : Same st (notify st a flags) := by
  unfold notify
  simp only []
  split
  · same_rfl
  · exact Same.refl _

theorem same_cancelNotify (st : St) (a : Nat) (w : Watch) : Same st (cancelNotify st a w) := by
  unfold cancelNotify
  split
  · exact same_notify _ _ _
  · exact Same.refl _

theorem same_cancelRest (st : St) (rest : List Nat) : Same st (cancelRest st rest) := by
  unfold cancelRest
  split
  · exact Same.refl _
  · split
    · exact same_fail _ _
    · exact Same.refl _

theorem same_unwatchSignal (st : St) (signum : Int) : Same st (unwatchSignal st signum) := by
  unfold unwatchSignal
  split
  · exact same_fail _ _
  · split
    · exact Same.refl _
    · same_rfl

theorem f_cancelHook {m : Bool} {N p : Nat} (st : St) (w : Watch) (h : w.type = .io → w.evi ≠ (st.getW p).evi) :
    FStep m N p st (cancelHook st w) := by
  unfold cancelHook
  split
  · rename_i ht; exact f_evloopCancelIo _ _ (h ht)
  · exact (same_unwatchSignal _ _).step
  · exact FStep.refl _ _ _ _

/-- `tickit_watch_cancel` once the watch is found: a watch outside the first `N`. -/
theorem f_cancelFound {m : Bool} {N p : Nat} (st : St) (a : Nat) (hN : N ≤ a) (ha : a < st.heap.length) :
    FStep m N p st (cancelFound st a (st.getW a) (listOf st (st.getW a).type)) := by
  intro i
  unfold cancelFound
  have h1 : FStep m N p st (cancelNotify (setListOf st (st.getW a).type ((listOf st (st.getW a).type).erase a)) a (st.getW a)) :=
    (f_setListOf_erase st _ a).trans (same_cancelNotify _ _ _).step
  have he := i.evi_p (h1 i).ext
  refine (((h1.trans (f_cancelHook _ _ ?_)).trans (f_free _ a hN)).trans (same_cancelRest _ _).step) i
  intro ht
  rw [he]
  exact i.r5 a hN ha ht

theorem f_cancelDetached {m : Bool} {N p : Nat} (st : St) (a : Nat) (hN : N ≤ a) : FStep m N p st (cancelDetached st a) := by
  unfold cancelDetached
  exact (same_cancelNotify st a _).step.trans (f_setW _ a _ rfl rfl (Or.inr ⟨rfl, hN⟩) (Or.inl rfl) (fun _ h => Or.inl h))

theorem f_watchCancel0 {m : Bool} {N p : Nat} (st : St) (a : Nat) (hN : N ≤ a) : FStep m N p st (watchCancel0 st a) := by
  unfold watchCancel0
  split
  · exact FStep.refl _ _ _ _
  · split
    · exact f_fail _ _
    · rename_i hl
      split
      · exact FStep.refl _ _ _ _
      · split
        · exact f_fail _ _
        · split
          · split
            · exact f_cancelDetached _ _ hN
            · exact FStep.refl _ _ _ _
          · exact f_cancelFound st a hN (St.live_lt (by simpa using hl))

theorem f_watchCancel {m : Bool} {N p : Nat} (st : St) (a : Nat) (hN : N ≤ a) : FStep m N p st (watchCancel st a) := by
  intro i
  unfold watchCancel
  split
  · split
    · rename_i l hl
      exact ((f_watchCancel0 st a hN).trans (f_watchCancel0 _ l (i.n5 a l hl))) i
    · exact f_watchCancel0 st a hN i
  · exact f_watchCancel0 st a hN i

theorem f_doRegister {m : Bool} {N p : Nat} (st : St) (k : Int) (reg : St → St × Nat) (h : ∀ s, FStep m N p s (reg s).1)
    (h2 : ∀ s, (reg s).2 = s.heap.length) : FStep m N p st (doRegister st k reg) := by
  intro i
  unfold doRegister
  split
  · exact f_emit _ _ i
  · split
    · exact f_emit _ _ i
    · simp only []
      refine ((h st).trans (f_with_slots _ _ ?_)) i
      intro hs r hr
      simp only [List.mem_append, List.mem_singleton] at hr
      cases hr with
      | inl hr => exact hs r hr
      | inr hr => rw [hr]; show N ≤ (reg st).2; rw [h2]; exact i.nle

theorem mem_of_findSlot {st : St} {k : Int} {r : SlotRec} (h : findSlot st k = some r) : r ∈ st.slots := by
  unfold findSlot at h
  exact List.mem_of_find?_eq_some h

theorem f_doCancel {m : Bool} {N p : Nat} (st : St) (k : Int) : FStep m N p st (doCancel st k) := by
  intro i
  unfold doCancel
  split
  · exact f_emit _ _ i
  · rename_i r hr
    exact ((Same.step (by same_rfl) : FStep m N p st { st with cancelReq := k :: st.cancelReq }).trans
      (f_watchCancel _ _ (i.n4 r (mem_of_findSlot hr)))) i

theorem watchTimerAt_snd (st : St) (due : TV) (flags : Nat) (slot : Int) : (watchTimerAt st due flags slot).2 = st.heap.length := by
  unfold watchTimerAt
  simp only []
  split <;> rfl

theorem watchTimerAfterMsec_snd (st : St) (msec : Int) (flags : Nat) (slot : Int) :
    (watchTimerAfterMsec st msec flags slot).2 = st.heap.length := by
  unfold watchTimerAfterMsec
  simp only []
  exact watchTimerAt_snd _ _ _ _

/-- Everything a callback can do. -/
theorem f_runAct {m : Bool} {N p : Nat} (st : St) (act : Act) : FStep m N p st (runAct st act) := by
  unfold runAct
  split
  · exact FStep.refl _ _ _ _
  · split
    · split
      · exact f_doRegister _ _ _ (fun s => f_watchTimerAfterMsec s _ _ _) (fun _ => watchTimerAfterMsec_snd _ _ _ _)
      · exact FStep.refl _ _ _ _
    · split
      · exact f_doRegister _ _ _ (fun s => f_watchTimerAt s _ _ _) (fun _ => watchTimerAt_snd _ _ _ _)
      · exact FStep.refl _ _ _ _
    · exact f_doRegister _ _ _ (fun s => f_watchLater s _ _ _) (fun _ => rfl)
    · exact f_doRegister _ _ _ (fun s => f_watchIo s _ _ _ _) (fun _ => rfl)
    · split
      · exact f_doRegister _ _ _ (fun s => f_watchSignal s _ _ _) (fun _ => rfl)
      · exact FStep.refl _ _ _ _
    · split
      · exact f_doRegister _ _ _ (fun s => f_watchProcess s _ _ _) (fun _ => rfl)
      · exact FStep.refl _ _ _ _
    · exact f_doCancel _ _
    · exact Same.step (by same_rfl)
    · split
      · exact f_raiseSig _ _
      · exact FStep.refl _ _ _ _
    · split
      · split
        · exact FStep.refl _ _ _ _
        · exact Same.step (by same_rfl)
      · exact FStep.refl _ _ _ _
    · exact Same.step (by same_rfl)
    · exact FStep.refl _ _ _ _

theorem f_runActs {m : Bool} {N p : Nat} (acts : List Act) : ∀ st : St,
    FStep m N p st (acts.foldl (fun st act => if st.isOk then runAct (st.emit .a) act else st) st) := by
  induction acts with
  | nil => intro st; exact FStep.refl _ _ _ st
  | cons a rest ih =>
    intro st
    simp only [List.foldl_cons]
    refine FStep.trans ?_ (ih _)
    split
    · exact (f_emit _ _).trans (f_runAct _ _)
    · exact FStep.refl _ _ _ _

theorem f_fireUser {m : Bool} {N p : Nat} (st : St) (k : Int) (flags : Nat) (info : Info) : FStep m N p st (fireUser st k flags info) := by
  unfold fireUser
  simp only []
  have hs : ∀ s : St, FStep m N p s { s with slots := s.slots.map fun (r : SlotRec) => if r.k = k then { r with fires := r.fires + 1 } else r } := by
    intro s
    refine f_with_slots _ _ ?_
    intro h r hr
    simp only [List.mem_map] at hr
    obtain ⟨r0, hr0, he⟩ := hr
    have := h r0 hr0
    split at he <;> (rw [← he]; exact this)
  split
  · exact f_emit _ _
  · split
    · exact (f_emit _ _).trans (hs _)
    · exact ((f_emit _ _).trans (hs _)).trans (f_runActs _ _)

/-! ### invoke_watch, the loops of `tickit_evloop_invoke_timers`, the signal walks -/

variable {m : Bool} {N p : Nat}

theorem mem_listOf_ge {st : St} (i : FInv N p st) (t : WType) (a : Nat) (ht : (¬t = .none ∧ ¬t = .io) ∧ ¬t = .signal)
    (ha : a ∈ listOf st t) : N ≤ a := by
  cases t
  · exact absurd rfl ht.1.1
  · exact absurd rfl ht.1.2
  · exact i.n1 a ha
  · exact i.n2 a ha
  · exact absurd rfl ht.2
  · exact i.n3 a ha

/-- Unlink a one-shot watch found in the list of type `t`, clear its type, free it. -/
theorem f_unlinkFound (st : St) (a : Nat) (t : WType) (hN : N ≤ a) :
    FStep m N p st (((setListOf st t ((listOf st t).erase a)).setW a { st.getW a with type := .none }).free a) :=
  ((f_setListOf_erase st t a).trans
    (f_setW _ a _ (by rw [getW_setListOf]) (by rw [getW_setListOf]) (Or.inr ⟨rfl, hN⟩) (Or.inr hN)
      (fun l h => Or.inl (by rw [getW_setListOf]; exact h)))).trans (f_free _ a hN)

theorem f_unlinkOneshotSaved (st : St) (a : Nat) (t : WType) : FStep m N p st (unlinkOneshotSaved st a t) := by
  intro i
  unfold unlinkOneshotSaved
  split
  · exact FStep.refl _ _ _ _ i
  · rename_i hty
    split
    · exact f_fail _ _ i
    · split
      · exact FStep.refl _ _ _ _ i
      · rename_i hc
        have hN : N ≤ a := mem_listOf_ge i t a (by simpa using hty) (by simpa using hc)
        exact f_unlinkFound st a t hN i

theorem f_unlinkOneshot (st : St) (a : Nat) : FStep m N p st (unlinkOneshot st a) := by
  intro i
  unfold unlinkOneshot
  split
  · exact f_fail _ _ i
  · split
    · exact FStep.refl _ _ _ _ i
    · rename_i hty
      split
      · exact f_fail _ _ i
      · split
        · exact FStep.refl _ _ _ _ i
        · rename_i hc
          have hN : N ≤ a := mem_listOf_ge i _ a (by simpa using hty) (by simpa using hc)
          exact f_unlinkFound st a _ hN i

theorem f_fireIf (st : St) (c : Prop) [Decidable c] (k : Int) (flags : Nat) (info : Info) :
    FStep m N p st (if c then fireUser st k flags info else st) := by
  split
  · exact f_fireUser _ _ _ _
  · exact FStep.refl _ _ _ _

theorem f_invokeWatch (st : St) (a : Nat) (flags : Nat) (info : Info) : FStep m N p st (invokeWatch st a flags info) := by
  unfold invokeWatch
  have hf := f_fireIf (m := m) (N := N) (p := p) st ((st.getW a).slot ≥ 0) (st.getW a).slot flags info
  generalize (if (st.getW a).slot ≥ 0 then fireUser st (st.getW a).slot flags info else st) = s1 at hf ⊢
  split
  · exact FStep.refl _ _ _ _
  · split
    · exact f_fail _ _
    · split
      · exact hf
      · split
        · exact hf.trans (f_unlinkOneshotSaved _ a _)
        · exact hf.trans (f_unlinkOneshot _ a)

theorem f_procStep (st : St) (a : Nat) : FStep m N p st (procStep st a) := by
  unfold procStep
  split
  · exact (same_waitpidV _ _).step
  · exact (same_waitpidV _ _).step.trans (f_invokeWatch _ _ _ _)

theorem f_outOfFuel (st : St) : FStep m N p st (if st.isOk then { st with status := .outOfFuel } else st) := by
  split
  · exact Same.step (by same_rfl)
  · exact FStep.refl _ _ _ _

theorem f_onSigchld (fuel : Nat) : ∀ (st : St) (this : Option Nat), FStep m N p st (onSigchld fuel st this) := by
  induction fuel with
  | zero => intro st this; unfold onSigchld; exact f_outOfFuel st
  | succ n ih =>
    intro st this
    unfold onSigchld
    split
    · exact FStep.refl _ _ _ _
    · split
      · exact FStep.refl _ _ _ _
      · split
        · exact f_fail _ _
        · exact (f_procStep _ _).trans (ih _ _)

theorem f_procSnapLoop (l : List Nat) : ∀ st : St, FStep m N p st (procSnapLoop st l) := by
  induction l with
  | nil => intro st; exact FStep.refl _ _ _ st
  | cons a rest ih =>
    intro st
    unfold procSnapLoop
    split
    · exact FStep.refl _ _ _ _
    · split
      · exact f_fail _ _
      · split
        · exact ih _
        · split
          · exact f_fail _ _
          · exact (f_procStep _ _).trans (ih _)

theorem f_onSigchldAny (fuel : Nat) (st : St) : FStep m N p st (onSigchldAny fuel st) := by
  unfold onSigchldAny
  split
  · split
    · exact f_fail _ _
    · exact f_procSnapLoop _ _
  · exact f_onSigchld _ _ _

theorem f_sigCb (fuel : Nat) (st : St) (a : Nat) (s : Int) : FStep m N p st (sigCb fuel st a s) := by
  unfold sigCb
  split
  · split
    · exact f_fireUser _ _ _ _
    · split
      · exact f_onSigchldAny _ _
      · split
        · exact Same.step (by same_rfl)
        · exact FStep.refl _ _ _ _
  · exact FStep.refl _ _ _ _

theorem f_sigwatchLoopT (fuel : Nat) : ∀ (st : St) (s : Int) (this : Option Nat), FStep m N p st (sigwatchLoopT fuel st s this).1 := by
  induction fuel with
  | zero => intro st s this; unfold sigwatchLoopT; exact f_outOfFuel st
  | succ n ih =>
    intro st s this
    unfold sigwatchLoopT
    split
    · exact FStep.refl _ _ _ _
    · split
      · exact FStep.refl _ _ _ _
      · split
        · exact f_fail _ _
        · split
          · exact f_sigCb _ _ _ _
          · split
            · exact (f_sigCb _ _ _ _).trans (f_fail _ _)
            · exact (f_sigCb _ _ _ _).trans (ih _ _ _)

theorem fG_sigSnapLoop (cb : St → Nat → St) (hcb : ∀ st a, FStep m N p st (cb st a)) (l : List Nat) :
    ∀ st : St, FStep m N p st (sigSnapLoopG cb st l).1 := by
  induction l with
  | nil => intro st; exact FStep.refl _ _ _ st
  | cons a rest ih =>
    intro st
    unfold sigSnapLoopG
    split
    · exact FStep.refl _ _ _ _
    · split
      · exact f_fail _ _
      · split
        · exact ih _
        · split
          · exact f_fail _ _
          · exact (hcb _ _).trans (ih _)

theorem f_sigSnapLoopT (fuel : Nat) (s : Int) (l : List Nat) (st : St) : FStep m N p st (sigSnapLoopT fuel st s l).1 := by
  unfold sigSnapLoopT
  exact fG_sigSnapLoop _ (fun st a => f_sigCb fuel st a s) l st

theorem f_sigDispatch (fuel : Nat) (st : St) (s : Int) : FStep m N p st (sigDispatch fuel st s) := by
  unfold sigDispatch
  split
  · split
    · exact f_fail _ _
    · exact f_sigSnapLoopT _ _ _ _
  · exact f_sigwatchLoopT _ _ _ _

theorem f_processNotify (st : St) (a : Nat) : FStep m N p st (processNotify st a) := by
  unfold processNotify
  split
  · exact f_fail _ _
  · exact (f_clearNotify _ _).trans (f_invokeWatch _ _ _ _)

theorem f_laterCb (st : St) (a : Nat) : FStep m N p st (laterCb st a) := by
  unfold laterCb
  split
  · exact f_fireUser _ _ _ _
  · split
    · exact f_processNotify _ _
    · exact FStep.refl _ _ _ _

theorem f_laterPre (st : St) (a : Nat) : FStep m N p st (laterPre st a) := by
  unfold laterPre
  split
  · exact f_setW _ a _ rfl rfl (Or.inl rfl) (Or.inl rfl) (fun _ h => Or.inl h)
  · exact FStep.refl _ _ _ _

theorem f_laterLoop (l : List Nat) (hl : ∀ x ∈ l, N ≤ x) : ∀ st : St, FStep m N p st (laterLoop st l) := by
  induction l with
  | nil => intro st; exact FStep.refl _ _ _ st
  | cons a rest ih =>
    have hN : N ≤ a := hl a List.mem_cons_self
    have ih := ih (fun x hx => hl x (List.mem_cons_of_mem _ hx))
    intro st
    unfold laterLoop
    split
    · exact FStep.refl _ _ _ _
    · split
      · exact f_fail _ _
      · split
        · exact (f_free _ a hN).trans (ih _)
        · split
          · exact (f_laterPre st a).trans (f_laterCb _ a)
          · split
            · exact ((f_laterPre st a).trans (f_laterCb _ a)).trans (f_fail _ _)
            · exact (((f_laterPre st a).trans (f_laterCb _ a)).trans (f_free _ a hN)).trans (ih _)

theorem timers_free (st : St) (a : Nat) : (st.free a).timers = st.timers := by
  unfold St.free
  split
  · rfl
  · exact St.timers_fail _ _

theorem f_timerLoop (fuel : Nat) : ∀ (st : St) (now : TV) (this : Option Nat), (∀ a, this = some a → a ∈ st.timers) →
    FStep m N p st (timerLoop fuel st now this).1 := by
  induction fuel with
  | zero => intro st now this _; unfold timerLoop; exact f_outOfFuel st
  | succ n ih =>
    intro st now this hthis i
    unfold timerLoop
    split
    · exact FStep.refl _ _ _ _ i
    · split
      · exact FStep.refl _ _ _ _ i
      · rename_i a
        have hN : N ≤ a := i.n1 a (hthis a rfl)
        split
        · exact f_fail _ _ i
        · split
          · exact FStep.refl _ _ _ _ i
          · split
            · exact f_fireUser _ _ _ _ i
            · split
              · exact ((f_fireUser _ _ _ _).trans (f_fail _ _)) i
              · refine (((f_fireUser _ _ _ _).trans (f_free _ a hN)).trans (ih _ _ _ ?_)) i
                intro b hb
                rw [timers_free]
                exact succOf_mem a b _ hb

theorem f_timerLoopPop (fuel : Nat) : ∀ (st : St) (now : TV), FStep m N p st (timerLoopPop fuel st now) := by
  induction fuel with
  | zero => intro st now; unfold timerLoopPop; exact f_outOfFuel st
  | succ n ih =>
    intro st now i
    unfold timerLoopPop
    split
    · exact FStep.refl _ _ _ _ i
    · split
      · exact FStep.refl _ _ _ _ i
      · rename_i a rest hq
        have hN : N ≤ a := i.n1 a (by rw [hq]; exact List.mem_cons_self)
        have hrest : ∀ y ∈ rest, N ≤ y := fun y hy => i.n1 y (by rw [hq]; exact List.mem_cons_of_mem _ hy)
        split
        · exact f_fail _ _ i
        · split
          · exact FStep.refl _ _ _ _ i
          · have h1 := (f_with_timers (m := m) (N := N) (p := p) st rest hrest).trans
              (f_fireUser { st with timers := rest } (st.getW a).slot (EV_FIRE ||| EV_UNBIND) .none)
            split
            · exact h1 i
            · split
              · exact (h1.trans (f_fail _ _)) i
              · exact ((h1.trans (f_free _ a hN)).trans (ih _ _)) i

theorem f_timerPhaseShipped (fuel : Nat) (st : St) (now : TV) : FStep m N p st (timerPhaseShipped fuel st now) := by
  have h0 : FStep m N p st (timerLoop fuel st now st.timers.head?).1 :=
    f_timerLoop fuel st now _ (fun a ha => List.mem_of_mem_head? ha)
  unfold timerPhaseShipped
  split
  · exact h0.trans (f_lists rfl rfl rfl rfl rfl rfl rfl rfl
      (fun h y hy => h y ((suffixFrom_sublist _ _).subset hy)) id id id)
  · exact h0

theorem f_timerPhase (fuel : Nat) (st : St) : FStep m N p st (timerPhase fuel st) := by
  unfold timerPhase
  split
  · exact FStep.refl _ _ _ _
  · split
    · exact (f_emit _ _).trans (f_timerLoopPop _ _ _)
    · exact (f_emit _ _).trans (f_timerPhaseShipped _ _ _)

theorem f_invokeTimers (fuel : Nat) (st : St) : FStep m N p st (invokeTimers fuel st) := by
  intro i
  unfold invokeTimers
  split
  · exact FStep.refl _ _ _ _ i
  · exact (((f_with_laters st [] (fun y hy => by cases hy)).trans (f_timerPhase _ _)).trans (f_laterLoop _ i.n2 _)) i

/-! ### the wait, `on_sigpipe_readable`, one iteration, `tickit_run` (`m = false`) -/

theorem f_sigpipeLoop (fuel : Nat) : ∀ (st : St) (pending : List Int) (this : Option Nat),
    FStep m N p st (sigpipeLoop fuel st pending this) := by
  induction fuel with
  | zero => intro st pending this; unfold sigpipeLoop; exact f_outOfFuel st
  | succ n ih =>
    intro st pending this
    unfold sigpipeLoop
    split
    · exact FStep.refl _ _ _ _
    · split
      · exact FStep.refl _ _ _ _
      · split
        · exact f_fail _ _
        · split
          · exact ih _ _ _
          · split
            · exact f_sigCb _ _ _ _
            · split
              · exact (f_sigCb _ _ _ _).trans (f_fail _ _)
              · exact (f_sigCb _ _ _ _).trans (ih _ _ _)

theorem f_sigpipeInvoke (fuel : Nat) (pending : List Int) (l : List Int) : ∀ st : St, FStep m N p st (sigpipeInvoke fuel st pending l) := by
  induction l with
  | nil => intro st; exact FStep.refl _ _ _ st
  | cons s rest ih =>
    intro st
    unfold sigpipeInvoke
    refine FStep.trans ?_ (ih _)
    split
    · exact f_sigDispatch _ _ _
    · exact FStep.refl _ _ _ _

/-- `on_sigpipe_readable` begins by reading one byte and emptying `t->signal.pending`. -/
theorem f_takePending (st : St) : FStep false N p st { st with pipeBytes := st.pipeBytes - 1, pendingSig := [] } := by
  intro i
  exact ⟨i.of_ext (HExtP.of_heap_eq rfl) rfl rfl (Nat.le_refl _) rfl rfl rfl i.n1 i.n2 i.n3 i.n4 i.n5
    (fun a h1 (h2 : a < st.heap.length) _ => absurd h2 (by omega)) (fun h => absurd rfl h),
    HExtP.of_heap_eq rfl, rfl, rfl, (fun h => absurd h (by decide)), (fun h => absurd h (by decide))⟩

theorem f_onSigpipeReadable (fuel : Nat) (st : St) : FStep false N p st (onSigpipeReadable fuel st) := by
  unfold onSigpipeReadable
  split
  · exact (f_takePending st).trans (f_sigpipeInvoke _ _ _ _)
  · exact (f_takePending st).trans (f_sigpipeLoop _ _ _ _)

theorem f_ioCb (fuel : Nat) (st : St) (s : PollSlot) : FStep false N p st (ioCb fuel st s) := by
  unfold ioCb
  split
  · split
    · exact f_fail _ _
    · split
      · exact f_onSigpipeReadable _ _
      · exact f_invokeWatch _ _ _ _
  · exact FStep.refl _ _ _ _

theorem f_ioLoop (fuel : Nat) : ∀ (st : St) (idx : Nat), FStep false N p st (ioLoop fuel st idx) := by
  induction fuel with
  | zero => intro st idx; unfold ioLoop; exact f_outOfFuel st
  | succ n ih =>
    intro st idx
    unfold ioLoop
    split
    · exact FStep.refl _ _ _ _
    · split
      · exact FStep.refl _ _ _ _
      · split
        · exact ih _ _
        · split
          · exact ih _ _
          · exact (f_ioCb _ _ _).trans (ih _ _)

theorem getD_map_slot (l : List PollSlot) (f : PollSlot → PollSlot) (e : Nat) (h : e < l.length) :
    (l.map f).getD e default = f (l.getD e default) := by
  simp only [List.getD_eq_getElem?_getD, List.getElem?_map, List.getElem?_eq_getElem h, Option.map_some, Option.getD_some]

/-- The kernel writes `revents` of every entry (nothing else). -/
theorem f_pollScan (st : St) : FStep false N p st (pollScan st) := by
  intro i
  unfold pollScan
  have hg := getD_map_slot st.pfd (fun s => { s with revents := some (pollRevents st s) }) _ i.pidx
  exact ⟨i.of_ext (HExtP.of_heap_eq rfl) rfl rfl (by simp) (by rw [hg]) (by rw [hg]) (by rw [hg]) i.n1 i.n2 i.n3 i.n4 i.n5
    (fun a h1 (h2 : a < st.heap.length) _ => absurd h2 (by omega)) i.bytes,
    HExtP.of_heap_eq rfl, rfl, rfl, (fun h => absurd h (by decide)), (fun h => absurd h (by decide))⟩

theorem f_foldl_raiseSig (l : List Int) : ∀ st : St, FStep m N p st (l.foldl raiseSig st) := by
  induction l with
  | nil => intro st; exact FStep.refl _ _ _ st
  | cons s rest ih => intro st; exact (f_raiseSig st s).trans (ih _)

theorem f_pollRaise (st : St) : FStep m N p st (pollRaise st) := by
  unfold pollRaise
  exact (Same.step (by same_rfl) : FStep m N p st { st with inpoll := [] }).trans (f_foldl_raiseSig _ _)

theorem same_pollTimeout (st : St) (t : Option Int) : Same st (pollTimeout st t) := by
  unfold pollTimeout
  split
  · same_rfl
  · exact Same.refl _

theorem f_ppoll (st : St) (t : Option Int) : FStep false N p st (ppoll st t).1 := by
  unfold ppoll
  split
  · exact (f_pollScan st).trans (f_pollRaise _)
  · split
    · exact ((f_pollScan st).trans (f_pollRaise _)).trans (f_emit _ _)
    · split
      · exact (((f_pollScan st).trans (f_pollRaise _)).trans (Same.step (by same_rfl))).trans (f_emit _ _)
      · exact (((f_pollScan st).trans (f_pollRaise _)).trans (same_pollTimeout _ _).step).trans (f_emit _ _)

theorem f_nextTimerMsec (st : St) : FStep m N p st (nextTimerMsec st).1 := by
  unfold nextTimerMsec
  split
  · exact FStep.refl _ _ _ _
  · split
    · exact FStep.refl _ _ _ _
    · split
      · exact (f_emit _ _).trans (f_fail _ _)
      · exact f_emit _ _

theorem f_tickAfterPoll (fuel : Nat) (st : St) (ret : Option Nat) : FStep false N p st (tickAfterPoll fuel st ret) := by
  unfold tickAfterPoll
  split
  · exact f_invokeTimers _ _
  · split
    · split
      · exact (f_invokeTimers _ _).trans (f_ioLoop _ _ _)
      · exact f_invokeTimers _ _
    · unfold dispatchSignals
      split
      · exact f_invokeTimers _ _
      · exact f_invokeTimers _ _

theorem f_tick (fuel : Nat) (st : St) (nohang : Bool) : FStep false N p st (tick fuel st nohang) := by
  unfold tick
  split
  · exact FStep.refl _ _ _ _
  · split
    · exact f_nextTimerMsec _
    · split
      · exact (f_nextTimerMsec _).trans (f_ppoll _ _)
      · exact ((f_nextTimerMsec _).trans (f_ppoll _ _)).trans (f_tickAfterPoll _ _ _)

theorem f_ppollRun (st : St) (t : Option Int) : FStep false N p st (ppollRun st t).1 := by
  unfold ppollRun
  split
  · exact f_ppoll _ _
  · split
    · exact ((f_ppoll st t).trans (Same.step (by same_rfl) : FStep false N p (ppoll st t).1
        { (ppoll st t).1 with runPolls := (ppoll st t).1.runPolls + 1, stillRunning := false })).trans (f_emit _ _)
    · exact (f_ppoll st t).trans (Same.step (by same_rfl) : FStep false N p (ppoll st t).1
        { (ppoll st t).1 with runPolls := (ppoll st t).1.runPolls + 1 })

theorem f_runIter (fuel : Nat) (st : St) : FStep false N p st (runIter fuel st) := by
  unfold runIter
  split
  · exact FStep.refl _ _ _ _
  · split
    · exact f_nextTimerMsec _
    · split
      · exact (f_nextTimerMsec _).trans (f_ppollRun _ _)
      · exact ((f_nextTimerMsec _).trans (f_ppollRun _ _)).trans (f_tickAfterPoll _ _ _)

theorem f_runLoop (fuel : Nat) (n : Nat) : ∀ st : St, FStep false N p st (runLoop fuel n st) := by
  induction n with
  | zero => intro st; unfold runLoop; exact f_outOfFuel st
  | succ k ih =>
    intro st
    unfold runLoop
    split
    · exact FStep.refl _ _ _ _
    · split
      · exact FStep.refl _ _ _ _
      · exact (f_runIter _ _).trans (ih _)

theorem f_run (fuel : Nat) (st : St) : FStep false N p st (run fuel st) := by
  intro i
  have h0 : FStep false N p st { (watchSignal st 2 0 (-5)).1 with stillRunning := true, inRun := true, runPolls := 0 } :=
    (f_watchSignal st 2 0 (-5)).trans (Same.step (by same_rfl))
  unfold run
  split
  · exact FStep.refl _ _ _ _ i
  · split
    · exact (h0.trans (f_runLoop _ _ _)) i
    · exact (((h0.trans (f_runLoop _ _ _)).trans (Same.step (by same_rfl))).trans (f_watchCancel _ _ i.nle)) i

/-! ### every reachable state -/

theorem destroy_ok_not_alive (st : St) (h : (destroy st).isOk = true) (h0 : st.isOk = true) : (destroy st).alive = false := by
  unfold destroy at h ⊢
  rw [h0] at h ⊢
  simp only [Bool.not_true, Bool.false_eq_true, if_false] at h ⊢
  unfold destroyFinish at h ⊢
  split
  · rfl
  · rename_i hn
    rw [if_neg hn] at h
    exact absurd h hn

/-- The invariant in the form that survives every operation: it holds while the instance is alive and defined
    (and the variant of the source stays what the history began with). -/
def FReach (c : Config) (N p : Nat) (st : St) : Prop := st.isOk = true → st.alive = true → FInv N p st ∧ st.cfg = c

theorem freach_applyOp (c : Config) (st : St) (op : Op) (r : FReach c N p st) : FReach c N p (applyOp st op) := by
  unfold applyOp
  have r0 : FReach c N p { st with log := [] } := fun h1 h2 => ⟨(r h1 h2).1.of_same (by same_rfl), (r h1 h2).2⟩
  generalize ({ st with log := [] } : St) = s0 at r0 ⊢
  unfold applyOp'
  split
  · exact r0
  · rename_i hok
    have hok' : s0.isOk = true := by simpa using hok
    split
    · exact r0
    · exact r0
    · exact r0
    · split
      · exact r0
      · rename_i hal
        have hal' : s0.alive = true := by simpa using hal
        obtain ⟨i0, hc0⟩ := r0 hok' hal'
        have fin : ∀ s' : St, FStep false N p s0 s' → FReach c N p s' :=
          fun s' h _ _ => ⟨(h i0).inv, (h i0).cfg.trans hc0⟩
        split
        · exact fin _ (Same.step (by same_rfl))
        · exact fin _ (f_runAct _ _)
        · exact fin _ (Same.step (by same_rfl))
        · exact fin _ (Same.step (by same_rfl))
        · exact fin _ (Same.step (by same_rfl))
        · exact fin _ ((Same.step (by same_rfl) : FStep false N p s0 { s0 with stillRunning := true }).trans (f_tick _ _ _))
        · exact fin _ ((Same.step (by same_rfl) : FStep false N p s0 { s0 with stillRunning := true }).trans (f_tick _ _ _))
        · exact fin _ (f_run _ _)
        · intro h1 h2
          rw [destroy_ok_not_alive s0 h1 hok'] at h2
          cases h2
        · exact r0

set_option maxHeartbeats 4000000 in
/-- `tickit_build` with these hooks makes three watches: the terminal's input watch (0), the SIGWINCH watch (1) and
    the pipe watch (2), which takes the poll entry the terminal's watch (descriptor -1) left free. -/
theorem build_facts (cfg : Config) : (build cfg).pipewatch = some 2 ∧ (build cfg).heap.length = 3 ∧ (build cfg).live 2 = true ∧
    ((build cfg).getW 2).slot = -6 ∧ ((build cfg).getW 2).evi = 0 ∧ (build cfg).pfd.length = 1 ∧
    ((build cfg).pfd.getD 0 default).fd = 90 ∧ ((build cfg).pfd.getD 0 default).events = POLLIN ∧
    ((build cfg).pfd.getD 0 default).watch = some 2 ∧ (build cfg).pipesMade = 1 ∧ (build cfg).timers = [] ∧
    (build cfg).laters = [] ∧ (build cfg).procs = [] ∧ (build cfg).slots = [] ∧ (build cfg).pendingSig = [] ∧
    ((build cfg).getW 0).notify = none ∧ ((build cfg).getW 1).notify = none ∧ ((build cfg).getW 2).notify = none := by
  refine ⟨?_, ?_, ?_, ?_, ?_, ?_, ?_, ?_, ?_, ?_, ?_, ?_, ?_, ?_, ?_, ?_, ?_, ?_⟩ <;> rfl

theorem finv_of_facts (s : St) (h : s.pipewatch = some 2 ∧ s.heap.length = 3 ∧ s.live 2 = true ∧
    (s.getW 2).slot = -6 ∧ (s.getW 2).evi = 0 ∧ s.pfd.length = 1 ∧
    (s.pfd.getD 0 default).fd = 90 ∧ (s.pfd.getD 0 default).events = POLLIN ∧
    (s.pfd.getD 0 default).watch = some 2 ∧ s.pipesMade = 1 ∧ s.timers = [] ∧
    s.laters = [] ∧ s.procs = [] ∧ s.slots = [] ∧ s.pendingSig = [] ∧
    (s.getW 0).notify = none ∧ (s.getW 1).notify = none ∧ (s.getW 2).notify = none) : FInv 3 2 s := by
  obtain ⟨b1, b2, b3, b4, b5, b6, b7, b8, b9, b10, b11, b12, b13, b14, b15, b16, b17, b18⟩ := h
  refine ⟨b1, by decide, by rw [b2]; exact Nat.le_refl 3, b3, b4, by rw [b5, b6]; exact Nat.lt_succ_self 0, by rw [b5]; exact b7,
    by rw [b5]; exact b8, by rw [b5]; exact b9, b10, ?_, ?_, ?_, ?_, ?_, ?_, ?_⟩
  · intro x hx; rw [b11] at hx; cases hx
  · intro x hx; rw [b12] at hx; cases hx
  · intro x hx; rw [b13] at hx; cases hx
  · intro x hx; rw [b14] at hx; cases hx
  · intro a l hl
    match a, hl with
    | 0, hl => rw [b16] at hl; cases hl
    | 1, hl => rw [b17] at hl; cases hl
    | 2, hl => rw [b18] at hl; cases hl
    | n + 3, hl => rw [getW_oob _ _ (by rw [b2]; omega)] at hl; cases hl
  · intro a h1 h2; rw [b2] at h2; omega
  · intro h; exact absurd b15 h

theorem finv_build (cfg : Config) : FInv 3 2 (build cfg) := finv_of_facts _ (build_facts cfg)

theorem cfg_build (cfg : Config) : (build cfg).cfg = cfg := rfl

/-- In every state a history reaches, while the instance is alive and defined. -/
theorem freach_runOps (cfg : Config) (ops : List Op) : FReach cfg 3 2 (runOps cfg ops) := by
  unfold runOps
  have : ∀ (l : List Op) (st : St), FReach cfg 3 2 st → FReach cfg 3 2 (l.foldl applyOp st) := by
    intro l
    induction l with
    | nil => intro st h; exact h
    | cons o rest ih => intro st h; exact ih _ (freach_applyOp cfg st o h)
  exact this ops _ (fun _ _ => ⟨finv_build cfg, cfg_build cfg⟩)

end Tickit.EvLoop.Fb
