import Tickit.Model.WinFlush
import Tickit.Proof.RectSet
import Tickit.Proof.RectSetInv
import Tickit.Props.C06
/-
  Towards the scroll step (`Props.C01.scroll_step_full`): the rebuilding of the pending damage in `_scrollrectset`
  (`WinFlush.shiftDamage`) is exact — the damage outside the scrolled rectangle stays, the damage inside moves with the
  scroll and is cut to the rectangle — and keeps the invariant of the rectangle set.
-/
namespace Tickit
namespace WinFlush
open WinTree WinRB

/-- What one pending damage rectangle `rj` contributes after a scroll of `rect` by `(d, r)`. -/
def ShiftedMem (rect : Rect) (d r : Int) (rj : Rect) (L C : Int) : Prop :=
  (rj.Mem L C ∧ ¬ rect.Mem L C) ∨ (rect.Mem L C ∧ rj.Mem (L + d) (C + r) ∧ rect.Mem (L + d) (C + r))

theorem rsAdd_ok {s : List Rect} {r : Rect} {s' : List Rect} (h : rsAdd s r = .ok s') : RectSet.add rsFuel s r = some s' := by
  unfold rsAdd at h
  split at h
  · rename_i x hx; cases h; exact hx
  · cases h

theorem rsAddMany_ok {s rs s' : List Rect} (h : rsAddMany s rs = .ok s') : RectSet.addMany rsFuel s rs = some s' := by
  unfold rsAddMany at h
  split at h
  · rename_i x hx; cases h; exact hx
  · cases h

theorem shiftDamage_spec (rect : Rect) (d r : Int) (hrect : rect.Nonempty) :
    ∀ (dmg acc acc' : List Rect), shiftDamage rect d r dmg acc = .ok acc' →
      (∀ x ∈ dmg, x.Nonempty) → RectSet.InvS acc →
      RectSet.InvS acc' ∧
      ∀ L C, Covered acc' L C ↔ (Covered acc L C ∨ ∃ rj ∈ dmg, ShiftedMem rect d r rj L C) := by
  intro dmg
  induction dmg with
  | nil =>
    intro acc acc' h _ hinv
    simp only [shiftDamage] at h
    cases h
    exact ⟨hinv, fun L C => ⟨Or.inl, fun hh => hh.elim id (fun ⟨_, hx, _⟩ => by cases hx)⟩⟩
  | cons rj rest ih =>
    intro acc acc' h hne hinv
    simp only [shiftDamage, bind, Bind.bind] at h
    have hrj : rj.Nonempty := hne rj List.mem_cons_self
    -- the accumulator after `rj`
    have step : ∀ acc1, RectSet.InvS acc1 → (∀ L C, Covered acc1 L C ↔ (Covered acc L C ∨ ShiftedMem rect d r rj L C)) →
        shiftDamage rect d r rest acc1 = .ok acc' →
        RectSet.InvS acc' ∧ ∀ L C, Covered acc' L C ↔ (Covered acc L C ∨ ∃ rj' ∈ rj :: rest, ShiftedMem rect d r rj' L C) := by
      intro acc1 hinv1 hcov1 hrest
      obtain ⟨hi, hc⟩ := ih acc1 acc' hrest (fun x hx => hne x (List.mem_cons_of_mem _ hx)) hinv1
      refine ⟨hi, fun L C => ?_⟩
      rw [hc L C, hcov1 L C]
      constructor
      · rintro ((h1 | h2) | ⟨rj', hr', hs⟩)
        · exact Or.inl h1
        · exact Or.inr ⟨rj, List.mem_cons_self, h2⟩
        · exact Or.inr ⟨rj', List.mem_cons_of_mem _ hr', hs⟩
      · rintro (h1 | ⟨rj', hr', hs⟩)
        · exact Or.inl (Or.inl h1)
        · rcases List.mem_cons.1 hr' with rfl | hr'
          · exact Or.inl (Or.inr hs)
          · exact Or.inr ⟨rj', hr', hs⟩
    by_cases hfar : rj.bottom < rect.top ∨ rj.top > rect.bottom ∨ rj.right < rect.left ∨ rj.left > rect.right
    · simp only [hfar, if_true] at h
      cases ha : rsAdd acc rj with
      | ub e => rw [ha] at h; cases h
      | ok acc1 =>
        rw [ha] at h
        simp only at h
        have ha' := rsAdd_ok ha
        obtain ⟨_, hcov⟩ := RectSet.add_region ha' hrj hinv.1
        refine step acc1 (RectSet.add_invS ha' hrj hinv) (fun L C => ?_) h
        rw [hcov L C]
        apply or_congr Iff.rfl
        unfold ShiftedMem
        simp only [Rect.Mem, Rect.bottom, Rect.right, Rect.Nonempty] at *
        constructor
        · intro hm; left; exact ⟨hm, by omega⟩
        · rintro (⟨hm, _⟩ | ⟨h1, h2, h3⟩)
          · exact hm
          · omega
    · simp only [hfar, if_false] at h
      cases ha : rsAddMany acc (Rect.subtract rj rect) with
      | ub e => rw [ha] at h; cases h
      | ok acc1 =>
        rw [ha] at h
        simp only at h
        have ha' := rsAddMany_ok ha
        obtain ⟨_, hsne, _, hscov⟩ := Props.C06.subtract_spec rj rect hrj hrect
        obtain ⟨_, hcov1⟩ := RectSet.addMany_region ha' hsne hinv.1
        have hinv1 := RectSet.addMany_invS ha' hsne hinv
        cases hi : Rect.intersect rj rect with
        | none =>
          rw [hi] at h
          simp only [pure, Pure.pure] at h
          have hdis := Props.C06.intersect_none _ _ hi
          refine step acc1 hinv1 (fun L C => ?_) h
          rw [hcov1 L C, hscov L C]
          apply or_congr Iff.rfl
          unfold ShiftedMem
          constructor
          · intro hm; exact Or.inl hm
          · rintro (hm | ⟨_, h2, h3⟩)
            · exact hm
            · exact absurd ⟨h2, h3⟩ (hdis _ _)
        | some inside =>
          rw [hi] at h
          simp only at h
          have hins := Props.C06.intersect_some _ _ _ hi
          cases hi2 : Rect.intersect (inside.translate (-d) (-r)) rect with
          | none =>
            rw [hi2] at h
            simp only [pure, Pure.pure] at h
            have hdis := Props.C06.intersect_none _ _ hi2
            refine step acc1 hinv1 (fun L C => ?_) h
            rw [hcov1 L C, hscov L C]
            apply or_congr Iff.rfl
            unfold ShiftedMem
            constructor
            · intro hm; exact Or.inl hm
            · rintro (hm | ⟨h1, h2, h3⟩)
              · exact hm
              · have hin : inside.Mem (L + d) (C + r) := (hins.2 _ _).2 ⟨h2, h3⟩
                have : (inside.translate (-d) (-r)).Mem L C := by
                  simp only [Rect.Mem, Rect.translate, Rect.bottom, Rect.right] at hin ⊢; omega
                exact absurd ⟨this, h1⟩ (hdis _ _)
          | some moved =>
            rw [hi2] at h
            simp only at h
            have hmv := Props.C06.intersect_some _ _ _ hi2
            cases ha2 : rsAdd acc1 moved with
            | ub e => rw [ha2] at h; cases h
            | ok acc2 =>
              rw [ha2] at h
              simp only at h
              have ha2' := rsAdd_ok ha2
              obtain ⟨_, hcov2⟩ := RectSet.add_region ha2' hmv.1 hinv1.1
              refine step acc2 (RectSet.add_invS ha2' hmv.1 hinv1) (fun L C => ?_) h
              rw [hcov2 L C, hcov1 L C, hscov L C, hmv.2 L C]
              unfold ShiftedMem
              constructor
              · rintro ((h1 | h2) | ⟨h3, h4⟩)
                · exact Or.inl h1
                · exact Or.inr (Or.inl h2)
                · right; right
                  have : inside.Mem (L + d) (C + r) := by
                    simp only [Rect.Mem, Rect.translate, Rect.bottom, Rect.right] at h3 ⊢; omega
                  have := (hins.2 _ _).1 this
                  exact ⟨h4, this.1, this.2⟩
              · rintro (h1 | h2 | ⟨h3, h4, h5⟩)
                · exact Or.inl (Or.inl h1)
                · exact Or.inl (Or.inr h2)
                · right
                  have hin : inside.Mem (L + d) (C + r) := (hins.2 _ _).2 ⟨h4, h5⟩
                  refine ⟨?_, h3⟩
                  simp only [Rect.Mem, Rect.translate, Rect.bottom, Rect.right] at hin ⊢; omega

end WinFlush
end Tickit
