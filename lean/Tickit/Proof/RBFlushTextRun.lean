import Tickit.Proof.RBFlushCount
import Tickit.Proof.RBFlushSpec
/-
  C04: the TEXT case of the flush.  Graphemes and columns of a character list, the terminal's rendering of a printed
  slice, and `TextRunOK` for every run inside an accepted text — including runs that begin or end inside a
  double-width character.
-/
namespace Tickit.RBFlush
open Tickit.RB Tickit.RB.Utf8

/-! ## Graphemes and columns -/

/-- Σ width of graphemes. -/
def gCols : List Grapheme → Int
  | [] => 0
  | g :: gs => g.width + gCols gs

/-- Empty, or starting with a character of width > 0 (a grapheme boundary). -/
def BaseHead (B : List Ch) : Prop := ∀ b rest, B = b :: rest → b.width > 0

theorem graphemesAux_nil (cur : Option Grapheme) : graphemesAux [] cur = cur.toList := by
  cases cur <;> rfl

theorem graphemesAux_cons_zero (c : Ch) (cs : List Ch) (g : Grapheme) (h : c.width = 0) :
    graphemesAux (c :: cs) (some g) = graphemesAux cs (some { g with bytes := g.bytes ++ c.bytes }) := by
  simp [graphemesAux, h]

theorem graphemesAux_cons_zero_none (c : Ch) (cs : List Ch) (h : c.width = 0) :
    graphemesAux (c :: cs) none = graphemesAux cs none := by
  simp [graphemesAux, h]

theorem graphemesAux_cons_base (c : Ch) (cs : List Ch) (cur : Option Grapheme) (h : c.width ≠ 0) :
    graphemesAux (c :: cs) cur = cur.toList ++ graphemesAux cs (some ⟨c.bytes, c.width⟩) := by
  cases cur <;> simp [graphemesAux, h]

theorem graphemesAux_append (A B : List Ch) (hB : BaseHead B) : ∀ cur,
    graphemesAux (A ++ B) cur = graphemesAux A cur ++ graphemesAux B none := by
  induction A with
  | nil =>
    intro cur
    cases B with
    | nil => simp [graphemesAux_nil]
    | cons b B' =>
      have hb := hB b B' rfl
      simp only [List.nil_append]
      rw [graphemesAux_cons_base b B' cur (by omega), graphemesAux_cons_base b B' none (by omega), graphemesAux_nil]
      simp
  | cons a A ih =>
    intro cur
    simp only [List.cons_append]
    by_cases ha : a.width = 0
    · cases cur with
      | none => rw [graphemesAux_cons_zero_none _ _ ha, graphemesAux_cons_zero_none _ _ ha]; exact ih none
      | some g => rw [graphemesAux_cons_zero _ _ _ ha, graphemesAux_cons_zero _ _ _ ha]; exact ih _
    · rw [graphemesAux_cons_base _ _ _ ha, graphemesAux_cons_base _ _ _ ha, ih, List.append_assoc]

theorem gCols_append (X Y : List Grapheme) : gCols (X ++ Y) = gCols X + gCols Y := by
  induction X with
  | nil => simp [gCols]
  | cons g X ih => simp only [List.cons_append, gCols, ih]; omega

theorem gCols_graphemesAux (cs : List Ch) : ∀ cur : Option Grapheme,
    gCols (graphemesAux cs cur) = gCols cur.toList + chCols cs := by
  induction cs with
  | nil => intro cur; rw [graphemesAux_nil]; simp [chCols]
  | cons c cs ih =>
    intro cur
    by_cases hc : c.width = 0
    · cases cur with
      | none => rw [graphemesAux_cons_zero_none _ _ hc, ih]; simp [chCols, hc]
      | some g => rw [graphemesAux_cons_zero _ _ _ hc, ih]; simp [chCols, hc, gCols]
    · rw [graphemesAux_cons_base _ _ _ hc, gCols_append, ih]
      simp only [Option.toList_some, gCols, chCols]
      omega

theorem graphemesAux_width_pos (cs : List Ch) (hw : ∀ c ∈ cs, 0 ≤ c.width) : ∀ cur : Option Grapheme,
    (∀ g ∈ cur.toList, 1 ≤ g.width) → ∀ g ∈ graphemesAux cs cur, 1 ≤ g.width := by
  induction cs with
  | nil => intro cur hcur g hg; rw [graphemesAux_nil] at hg; exact hcur g hg
  | cons c cs ih =>
    intro cur hcur g hg
    have hc0 := hw c (by simp)
    have hw' : ∀ c' ∈ cs, 0 ≤ c'.width := fun c' hc' => hw c' (by simp [hc'])
    by_cases hc : c.width = 0
    · cases cur with
      | none => rw [graphemesAux_cons_zero_none _ _ hc] at hg; exact ih hw' none (by simp) g hg
      | some g0 =>
        rw [graphemesAux_cons_zero _ _ _ hc] at hg
        exact ih hw' _ (by intro g' hg'; simp at hg'; subst hg'; exact hcur g0 (by simp)) g hg
    · rw [graphemesAux_cons_base _ _ _ hc, List.mem_append] at hg
      cases hg with
      | inl h => exact hcur g h
      | inr h => exact ih hw' _ (by intro g' hg'; simp at hg'; subst hg'; simp only; omega) g h

theorem gCols_nonneg (X : List Grapheme) (hX : ∀ g ∈ X, 1 ≤ g.width) : 0 ≤ gCols X := by
  induction X with
  | nil => simp [gCols]
  | cons g X ih =>
    have := hX g (by simp)
    have := ih (fun g' h => hX g' (by simp [h]))
    simp only [gCols]; omega

/-! ## `colGlyph` -/

theorem colGlyph_cons_skip (g : Grapheme) (gs : List Grapheme) (c k : Int) (hg : 1 ≤ g.width)
    (h : c + g.width ≤ k) : colGlyph (g :: gs) c k = colGlyph gs (c + g.width) k := by
  simp only [colGlyph]
  rw [if_neg (by omega), if_neg (by omega), if_neg (by omega)]

theorem colGlyph_cons_first (g : Grapheme) (gs : List Grapheme) (c k : Int) (h1 : c ≤ k) (h2 : k < c + g.width) :
    colGlyph (g :: gs) c k = some (if k = c then .chars g.bytes else .wcont, c, g.width) := by
  simp only [colGlyph]
  rw [if_neg (by omega)]
  by_cases hk : k = c
  · rw [if_pos hk, if_pos hk]
  · rw [if_neg hk, if_pos h2, if_neg hk]

theorem colGlyph_append (X Y : List Grapheme) (hX : ∀ g ∈ X, 1 ≤ g.width) : ∀ (c k : Int), c ≤ k →
    colGlyph (X ++ Y) c k = if k < c + gCols X then colGlyph X c k else colGlyph Y (c + gCols X) k := by
  induction X with
  | nil => intro c k hk; simp [gCols]; intro h; omega
  | cons g X ih =>
    intro c k hk
    have hg := hX g (by simp)
    have hX' : ∀ g' ∈ X, 1 ≤ g'.width := fun g' h => hX g' (by simp [h])
    have hgc : 0 ≤ gCols X := gCols_nonneg X hX'
    have hgX : gCols (g :: X) = g.width + gCols X := rfl
    rw [hgX, List.cons_append]
    by_cases h2 : k < c + g.width
    · rw [if_pos (by omega), colGlyph_cons_first _ _ _ _ hk h2, colGlyph_cons_first _ _ _ _ hk h2]
    · rw [colGlyph_cons_skip _ _ _ _ hg (by omega), ih hX' (c + g.width) k (by omega)]
      by_cases h3 : k < c + g.width + gCols X
      · rw [if_pos h3, if_pos (by omega), colGlyph_cons_skip _ _ _ _ hg (by omega)]
      · rw [if_neg h3, if_neg (by omega)]
        congr 1
        omega

theorem colGlyph_bounds (gs : List Grapheme) (hpos : ∀ g ∈ gs, 1 ≤ g.width) : ∀ (c k : Int) (g : Glyph) (c0 w : Int),
    colGlyph gs c k = some (g, c0, w) → c ≤ c0 ∧ c0 ≤ k ∧ k < c0 + w ∧ c0 + w ≤ c + gCols gs := by
  induction gs with
  | nil => intro c k g c0 w h; simp [colGlyph] at h
  | cons g0 gs ih =>
    intro c k g c0 w h
    have hg := hpos g0 (by simp)
    have hrest := gCols_nonneg gs (fun g' h' => hpos g' (by simp [h']))
    simp only [colGlyph, gCols] at h ⊢
    by_cases h0 : k < c
    · rw [if_pos h0] at h; cases h
    · rw [if_neg h0] at h
      by_cases h1 : k = c
      · rw [if_pos h1] at h
        simp only [Option.some.injEq, Prod.mk.injEq] at h
        obtain ⟨_, hc0, hw⟩ := h
        omega
      · rw [if_neg h1] at h
        by_cases h2 : k < c + g0.width
        · rw [if_pos h2] at h
          simp only [Option.some.injEq, Prod.mk.injEq] at h
          obtain ⟨_, hc0, hw⟩ := h
          omega
        · rw [if_neg h2] at h
          have := ih (fun g' h' => hpos g' (by simp [h'])) (c + g0.width) k g c0 w h
          omega

theorem colGlyph_shift (gs : List Grapheme) (δ : Int) : ∀ (c k : Int),
    colGlyph gs (c + δ) (k + δ) = (colGlyph gs c k).map fun x => (x.1, x.2.1 + δ, x.2.2) := by
  induction gs with
  | nil => intro c k; rfl
  | cons g gs ih =>
    intro c k
    simp only [colGlyph]
    by_cases h0 : k < c
    · rw [if_pos h0, if_pos (by omega)]; rfl
    · rw [if_neg h0, if_neg (by omega)]
      by_cases h1 : k = c
      · rw [if_pos h1, if_pos (by omega)]; rfl
      · rw [if_neg h1, if_neg (by omega)]
        by_cases h2 : k < c + g.width
        · rw [if_pos h2, if_pos (by omega)]; rfl
        · rw [if_neg h2, if_neg (by omega)]
          rw [show c + δ + g.width = c + g.width + δ by omega]
          exact ih (c + g.width) k

theorem colGlyph_isSome (gs : List Grapheme) (hpos : ∀ g ∈ gs, 1 ≤ g.width) : ∀ (c k : Int),
    c ≤ k → k < c + gCols gs → ∃ x, colGlyph gs c k = some x := by
  induction gs with
  | nil => intro c k h1 h2; simp [gCols] at h2; omega
  | cons g gs ih =>
    intro c k h1 h2
    simp only [colGlyph, gCols] at h2 ⊢
    rw [if_neg (by omega)]
    by_cases hk : k = c
    · rw [if_pos hk]; exact ⟨_, rfl⟩
    · rw [if_neg hk]
      by_cases hk2 : k < c + g.width
      · rw [if_pos hk2]; exact ⟨_, rfl⟩
      · rw [if_neg hk2]
        exact ih (fun g' h' => hpos g' (by simp [h'])) (c + g.width) k (by omega) (by omega)

/-! ## The terminal's rendering of a printed slice -/

/-- The grapheme `g` is the last thing on the terminal: its cells end at the cursor and `last` points at its first. -/
structure CurInv (t : GridTerm) (line : Int) (g : Grapheme) : Prop where
  line_eq : t.line = line
  last : t.last = some (line, t.col - g.width)
  wpos : 1 ≤ g.width
  head : (t.cells line (t.col - g.width)).glyph = .chars g.bytes
  tail : ∀ k, t.col - g.width < k → k < t.col → (t.cells line k).glyph = .wcont
  pen : ∀ k, t.col - g.width ≤ k → k < t.col → (t.cells line k).pen = t.pen

theorem chCols_nonneg (cs : List Ch) (hw : ∀ c ∈ cs, 0 ≤ c.width) : 0 ≤ chCols cs := by
  induction cs with
  | nil => simp [chCols]
  | cons c cs ih =>
    have := hw c (by simp)
    have := ih (fun c' h => hw c' (by simp [h]))
    simp only [chCols]; omega

theorem addZeroWidth_eq (t : GridTerm) (bs : List UInt8) (line c0 : Int) (g : List UInt8)
    (hl : t.last = some (line, c0)) (hg : (t.cells line c0).glyph = .chars g) :
    (t.addZeroWidth bs).cells line c0 = { t.cells line c0 with glyph := .chars (g ++ bs) } ∧
    (∀ l c, ¬ (l = line ∧ c = c0) → (t.addZeroWidth bs).cells l c = t.cells l c) ∧
    (t.addZeroWidth bs).line = t.line ∧ (t.addZeroWidth bs).col = t.col ∧ (t.addZeroWidth bs).pen = t.pen ∧
    (t.addZeroWidth bs).last = t.last ∧ (t.addZeroWidth bs).cols = t.cols := by
  unfold GridTerm.addZeroWidth
  rw [hl]
  refine ⟨?_, ?_, rfl, rfl, rfl, by simp [hl], rfl⟩
  · simp only [and_self, if_true]
    rw [hg]
  · intro l c h
    simp only
    rw [if_neg h]

theorem putChs_cons (t : GridTerm) (c : Ch) (cs : List Ch) : t.putChs (c :: cs) = (t.putCh c).putChs cs := rfl

/-- Printing characters after a grapheme that is already on the terminal: the cells from the start of that grapheme to
    the cursor show the graphemes of the characters, column by column. -/
theorem putChs_gs (cs : List Ch) (hw : ∀ c ∈ cs, 0 ≤ c.width) :
    ∀ (t : GridTerm) (line : Int) (g : Grapheme), CurInv t line g → t.col + chCols cs ≤ t.cols →
      (t.putChs cs).line = line ∧ (t.putChs cs).cols = t.cols ∧
      (t.putChs cs).col = t.col - g.width + gCols (graphemesAux cs (some g)) ∧
      (t.putChs cs).pen = t.pen ∧
      (∀ l k, ¬ (l = line ∧ t.col - g.width ≤ k ∧ k < (t.putChs cs).col) → (t.putChs cs).cells l k = t.cells l k) ∧
      (∀ k, t.col - g.width ≤ k → k < (t.putChs cs).col →
        ∃ x, colGlyph (graphemesAux cs (some g)) (t.col - g.width) k = some x ∧
          ((t.putChs cs).cells line k).glyph = x.1 ∧ ((t.putChs cs).cells line k).pen = t.pen ∧
          ((t.putChs cs).cells line k).writes = (t.cells line k).writes + (if k < t.col then 0 else 1)) := by
  induction cs with
  | nil =>
    intro t line g hi _
    have hp : t.putChs [] = t := rfl
    have hgs : graphemesAux [] (some g) = [g] := rfl
    rw [hp, hgs]
    refine ⟨hi.line_eq, rfl, by simp only [gCols]; omega, rfl, fun _ _ _ => rfl, ?_⟩
    intro k h1 h2
    refine ⟨_, colGlyph_cons_first g [] _ k h1 (by omega), ?_, hi.pen k h1 h2, by rw [if_pos h2]; omega⟩
    simp only
    by_cases hk : k = t.col - g.width
    · rw [if_pos hk, hk]; exact hi.head
    · rw [if_neg hk]; exact hi.tail k (by omega) h2
  | cons c cs ih =>
    intro t line g hi hfit
    have hc0 : 0 ≤ c.width := hw c (by simp)
    have hw' : ∀ c' ∈ cs, 0 ≤ c'.width := fun c' h => hw c' (by simp [h])
    have hwp := hi.wpos
    have hcsn := chCols_nonneg cs hw'
    simp only [chCols] at hfit
    rw [putChs_cons]
    by_cases hc : c.width = 0
    · -- a zero-width character joins the grapheme
      obtain ⟨e0, e1, e2, e3, e4, e5, e6⟩ := addZeroWidth_eq t c.bytes line (t.col - g.width) g.bytes hi.last hi.head
      have hput : t.putCh c = t.addZeroWidth c.bytes := by simp [GridTerm.putCh, hc]
      rw [hput, graphemesAux_cons_zero _ _ _ hc]
      have hi' : CurInv (t.addZeroWidth c.bytes) line { g with bytes := g.bytes ++ c.bytes } := by
        refine ⟨by rw [e2]; exact hi.line_eq, by rw [e5, e3]; exact hi.last, hwp, ?_, ?_, ?_⟩
        · rw [e3]; simp only; rw [e0]
        · intro k h1 h2
          rw [e3] at h1 h2
          simp only at h1
          rw [e1 line k (by omega)]
          exact hi.tail k h1 h2
        · intro k h1 h2
          rw [e3] at h1 h2
          simp only at h1
          rw [e4]
          by_cases hk : k = t.col - g.width
          · rw [hk, e0]; exact hi.pen _ (by omega) (by omega)
          · rw [e1 line k (by omega)]; exact hi.pen k h1 h2
      obtain ⟨r1, r0, r2, r3, r4, r5⟩ := ih hw' (t.addZeroWidth c.bytes) line _ hi' (by rw [e3, e6]; omega)
      simp only at r2 r4 r5
      rw [e3] at r2 r4 r5
      rw [e4] at r3 r5
      have hge : t.col - g.width + 1 ≤ ((t.addZeroWidth c.bytes).putChs cs).col := by
        rw [r2, gCols_graphemesAux]
        simp only [Option.toList_some, gCols]
        omega
      refine ⟨r1, by rw [r0, e6], r2, r3, ?_, ?_⟩
      · intro l k hn
        rw [r4 l k hn, e1 l k (by omega)]
      · intro k h1 h2
        obtain ⟨x, x1, x2, x3, x4⟩ := r5 k h1 h2
        refine ⟨x, x1, x2, x3, ?_⟩
        rw [x4]
        by_cases hk : k = t.col - g.width
        · rw [hk, e0]
        · rw [e1 line k (by omega)]
    · -- a character of width > 0 starts the next grapheme at the cursor
      have hput : t.putCh c = t.putGlyphRaw c.bytes c.width := by
        simp only [GridTerm.putCh, hc, if_false]
        exact GridTerm.putGlyph_fit _ _ _ (by omega)
      rw [hput, graphemesAux_cons_base _ _ _ hc]
      have p1 : (t.putGlyphRaw c.bytes c.width).line = t.line := rfl
      have p2 : (t.putGlyphRaw c.bytes c.width).col = t.col + c.width := rfl
      have p3 : (t.putGlyphRaw c.bytes c.width).pen = t.pen := rfl
      have p4 : (t.putGlyphRaw c.bytes c.width).last = some (t.line, t.col) := rfl
      have p6 : (t.putGlyphRaw c.bytes c.width).cols = t.cols := rfl
      have p5 : ∀ l k, (t.putGlyphRaw c.bytes c.width).cells l k =
          if l = t.line ∧ t.col ≤ k ∧ k < t.col + c.width then
            { glyph := if k = t.col then .chars c.bytes else .wcont, pen := t.pen, writes := (t.cells l k).writes + 1 }
          else t.cells l k := fun _ _ => rfl
      have hl := hi.line_eq
      have hi' : CurInv (t.putGlyphRaw c.bytes c.width) line ⟨c.bytes, c.width⟩ := by
        refine ⟨by rw [p1]; exact hl, by rw [p4, p2, hl]; simp, by simp only; omega, ?_, ?_, ?_⟩
        · rw [p2, p5]; simp only
          rw [if_pos (by omega)]; simp
        · intro k h1 h2
          rw [p2] at h1 h2; simp only at h1
          rw [p5, if_pos (by omega)]; simp only
          rw [if_neg (by omega)]
        · intro k h1 h2
          rw [p2] at h1 h2; simp only at h1
          rw [p5, if_pos (by omega), p3]
      obtain ⟨r1, r0, r2, r3, r4, r5⟩ := ih hw' (t.putGlyphRaw c.bytes c.width) line _ hi' (by rw [p2, p6]; omega)
      simp only at r2 r4 r5
      have hcol1 : (t.putGlyphRaw c.bytes c.width).col - c.width = t.col := by rw [p2]; omega
      rw [hcol1] at r2 r4 r5
      rw [p3] at r3 r5
      have hgs2 : c.width ≤ gCols (graphemesAux cs (some ⟨c.bytes, c.width⟩)) := by
        rw [gCols_graphemesAux]
        simp only [Option.toList_some, gCols]
        omega
      simp only [Option.toList_some, List.singleton_append, gCols]
      refine ⟨r1, by rw [r0, p6], by rw [r2]; omega, r3, ?_, ?_⟩
      · intro l k hn
        rw [r4 l k (fun h => hn ⟨h.1, by omega, h.2.2⟩), p5,
          if_neg (fun h => hn ⟨by rw [h.1, hl], by omega, by rw [r2]; omega⟩)]
      · intro k h1 h2
        by_cases hk : k < t.col
        · refine ⟨_, colGlyph_cons_first g _ _ k h1 (by omega), ?_, ?_, ?_⟩
          · rw [r4 line k (by omega), p5, if_neg (by omega)]
            simp only
            by_cases hk0 : k = t.col - g.width
            · rw [if_pos hk0, hk0]; exact hi.head
            · rw [if_neg hk0]; exact hi.tail k (by omega) hk
          · rw [r4 line k (by omega), p5, if_neg (by omega)]
            exact hi.pen k h1 hk
          · rw [r4 line k (by omega), p5, if_neg (by omega), if_pos hk]; omega
        · obtain ⟨x, x1, x2, x3, x4⟩ := r5 k (by omega) h2
          refine ⟨x, ?_, x2, x3, ?_⟩
          · rw [colGlyph_cons_skip g _ _ k hwp (by omega), show t.col - g.width + g.width = t.col by omega]
            exact x1
          · rw [x4, p5, if_neg hk, p2]
            by_cases hk2 : k < t.col + c.width
            · rw [if_pos (by omega), if_pos hk2]
            · rw [if_neg (by omega), if_neg hk2]

/-! ## Where the counter stops -/

theorem within_limitColumns (L : Int) (p : StrPos) (h : p.columns ≤ L) : Within (limitColumns L) p := by
  unfold Within limitColumns; exact ⟨Or.inl rfl, Or.inr h⟩

/-- The counter with a column limit `L ≥ 0`: the consumed prefix stays within `L`; what follows is nothing, or a
    character of width > 0 that does not fit. -/
theorem col_limit_props (cs : List Ch) (hw : ∀ c ∈ cs, 0 ≤ c.width) (p : StrPos) (L : Int) (hL : 0 ≤ L)
    (hp : p.columns ≤ L) :
    p.columns + chCols (cs.take (prefixLen (limitColumns L) p cs)) ≤ L ∧
    BaseHead (cs.drop (prefixLen (limitColumns L) p cs)) ∧
    (∀ b rest, cs.drop (prefixLen (limitColumns L) p cs) = b :: rest →
      p.columns + chCols (cs.take (prefixLen (limitColumns L) p cs)) + b.width > L) := by
  obtain ⟨h1, h2⟩ := prefix_props (limitColumns L) cs p (within_limitColumns L p hp) hw
  have e1 : (limitColumns L).graphemes = -1 := rfl
  have e2 : (limitColumns L).columns = L := rfl
  have hcols : (advance p (cs.take (prefixLen (limitColumns L) p cs))).columns =
      p.columns + chCols (cs.take (prefixLen (limitColumns L) p cs)) := advance_columns _ _
  refine ⟨?_, ?_, ?_⟩
  · unfold Within at h1
    rw [e2, hcols] at h1
    cases h1.2 with
    | inl h => omega
    | inr h => exact h
  · intro b rest hb
    cases h2 with
    | inl h => rw [h] at hb; cases hb
    | inr h =>
      obtain ⟨b', rest', hb', _, hpos⟩ := h
      rw [hb'] at hb
      cases hb
      exact hpos
  · intro b rest hb
    cases h2 with
    | inl h => rw [h] at hb; cases hb
    | inr h =>
      obtain ⟨b', rest', hb', hst, _⟩ := h
      rw [hb'] at hb
      cases hb
      unfold stops at hst
      rw [e1, e2, hcols] at hst
      simp only [ne_eq, not_true_eq_false, decide_false, Bool.false_and, Bool.false_or, Bool.and_eq_true,
        decide_eq_true_eq] at hst
      exact hst.2

/-- The number of leading zero-width characters. -/
def zlen : List Ch → Nat
  | [] => 0
  | c :: cs => if c.width > 0 then 0 else 1 + zlen cs

theorem zlen_props (cs : List Ch) (hw : ∀ c ∈ cs, 0 ≤ c.width) :
    chCols (cs.take (zlen cs)) = 0 ∧ BaseHead (cs.drop (zlen cs)) ∧ zlen cs ≤ cs.length := by
  induction cs with
  | nil => exact ⟨rfl, fun b rest h => by simp at h, by simp [zlen]⟩
  | cons c cs ih =>
    have hc := hw c (by simp)
    obtain ⟨i1, i2, i3⟩ := ih (fun c' h => hw c' (by simp [h]))
    unfold zlen
    by_cases hp : c.width > 0
    · rw [if_pos hp]
      refine ⟨rfl, ?_, by simp⟩
      intro b rest h
      simp only [List.drop_zero, List.cons.injEq] at h
      rw [← h.1]; exact hp
    · rw [if_neg hp, show 1 + zlen cs = zlen cs + 1 by omega]
      simp only [List.take_succ_cons, List.drop_succ_cons, chCols, List.length_cons]
      exact ⟨by omega, i2, by omega⟩

/-- At the grapheme limit the counter consumes exactly the zero-width characters. -/
theorem prefixLen_at_glimit (G : Int) (hG : G ≠ -1) : ∀ (cs : List Ch) (p : StrPos), p.graphemes = G →
    prefixLen (limitGraphemes G) p cs = zlen cs := by
  intro cs
  induction cs with
  | nil => intro p _; rfl
  | cons c cs ih =>
    intro p hp
    have e1 : (limitGraphemes G).graphemes = G := rfl
    have e2 : (limitGraphemes G).columns = -1 := rfl
    by_cases hw : c.width > 0
    · have hst : stops (limitGraphemes G) p c = true := by
        unfold stops isG
        rw [e1, e2, if_pos hw]
        simp only [ne_eq, hG, not_false_eq_true, decide_true, Bool.true_and, not_true_eq_false, decide_false,
          Bool.false_and, Bool.or_false, decide_eq_true_eq]
        omega
      simp only [prefixLen, zlen, hst, if_true, if_pos hw]
    · have hst : stops (limitGraphemes G) p c = false := by
        unfold stops isG
        rw [e1, e2, if_neg hw]
        simp only [ne_eq, not_true_eq_false, decide_false, Bool.false_and, Bool.or_false, Bool.and_eq_false_imp,
          decide_eq_true_eq, decide_eq_false_iff_not]
        intro _; omega
      simp only [prefixLen, zlen, hst, Bool.false_eq_true, if_false, if_neg hw]
      congr 1
      apply ih
      simp only [stepPos, isG, if_neg hw]
      omega

/-- The counter with the grapheme limit "one more" at a character of width > 0: that character and the zero-width
    characters after it. -/
theorem glimit_props (w : Ch) (rest : List Ch) (hww : w.width > 0) (p : StrPos) (hp : 0 ≤ p.graphemes) :
    prefixLen (limitGraphemes (p.graphemes + 1)) p (w :: rest) = 1 + zlen rest := by
  have hG : p.graphemes + 1 ≠ -1 := by omega
  have e1 : (limitGraphemes (p.graphemes + 1)).graphemes = p.graphemes + 1 := rfl
  have e2 : (limitGraphemes (p.graphemes + 1)).columns = -1 := rfl
  have hst : stops (limitGraphemes (p.graphemes + 1)) p w = false := by
    unfold stops isG
    rw [e1, e2, if_pos hww]
    simp only [ne_eq, not_true_eq_false, decide_false, Bool.false_and, Bool.or_false, Bool.and_eq_false_imp,
      decide_eq_true_eq, decide_eq_false_iff_not]
    intro _; omega
  simp only [prefixLen, hst, Bool.false_eq_true, if_false]
  congr 1
  apply prefixLen_at_glimit _ hG
  simp only [stepPos, isG, if_pos hww]

/-! ## The head grapheme -/

/-- Whatever follows, the grapheme under construction occupies its columns. -/
theorem colGlyph_head (cs : List Ch) : ∀ (g : Grapheme) (c k : Int), c ≤ k → k < c + g.width →
    ∃ gl, colGlyph (graphemesAux cs (some g)) c k = some (gl, c, g.width) := by
  induction cs with
  | nil =>
    intro g c k h1 h2
    exact ⟨_, colGlyph_cons_first g [] c k h1 h2⟩
  | cons a cs ih =>
    intro g c k h1 h2
    by_cases ha : a.width = 0
    · rw [graphemesAux_cons_zero _ _ _ ha]
      exact ih _ c k h1 h2
    · rw [graphemesAux_cons_base _ _ _ ha]
      exact ⟨_, colGlyph_cons_first g _ c k h1 h2⟩

theorem graphemesAux_base_none (b : Ch) (cs : List Ch) (hb : b.width > 0) :
    graphemesAux (b :: cs) none = graphemesAux cs (some ⟨b.bytes, b.width⟩) := by
  rw [graphemesAux_cons_base _ _ _ (by omega)]; rfl

/-! ## Splitting a text at a grapheme boundary -/

theorem chCols_append (a b : List Ch) : chCols (a ++ b) = chCols a + chCols b := by
  induction a with
  | nil => simp [chCols]
  | cons c a ih => simp only [List.cons_append, chCols, ih]; omega

theorem chCols_take_drop (cs : List Ch) (k : Nat) : chCols cs = chCols (cs.take k) + chCols (cs.drop k) := by
  rw [← chCols_append, List.take_append_drop]

theorem advance_graphemes_nonneg (cs : List Ch) : ∀ p : StrPos, 0 ≤ p.graphemes → 0 ≤ (advance p cs).graphemes := by
  induction cs with
  | nil => intro p h; exact h
  | cons c cs ih =>
    intro p h
    simp only [advance]
    apply ih
    simp only [stepPos, isG]
    split <;> omega

theorem widths_take {cs : List Ch} (hw : ∀ c ∈ cs, 0 ≤ c.width) (k : Nat) : ∀ c ∈ cs.take k, 0 ≤ c.width :=
  fun c h => hw c (List.mem_of_mem_take h)

theorem widths_drop {cs : List Ch} (hw : ∀ c ∈ cs, 0 ≤ c.width) (k : Nat) : ∀ c ∈ cs.drop k, 0 ≤ c.width :=
  fun c h => hw c (List.mem_of_mem_drop h)

/-- The columns of a text split at a grapheme boundary: left part, then right part. -/
theorem split_colGlyph (cs : List Ch) (hw : ∀ c ∈ cs, 0 ≤ c.width) (k : Nat) (hb : BaseHead (cs.drop k))
    (q : Int) (h0 : 0 ≤ q) :
    colGlyph (graphemesAux cs none) 0 q =
      if q < chCols (cs.take k) then colGlyph (graphemesAux (cs.take k) none) 0 q
      else colGlyph (graphemesAux (cs.drop k) none) (chCols (cs.take k)) q := by
  have h1 : graphemesAux cs none = graphemesAux (cs.take k) none ++ graphemesAux (cs.drop k) none := by
    rw [← graphemesAux_append _ _ hb, List.take_append_drop]
  have hpos : ∀ g ∈ graphemesAux (cs.take k) none, 1 ≤ g.width :=
    graphemesAux_width_pos _ (widths_take hw k) none (by simp)
  have hg : gCols (graphemesAux (cs.take k) none) = chCols (cs.take k) := by
    rw [gCols_graphemesAux]; simp [gCols]
  rw [h1, colGlyph_append _ _ hpos 0 q h0, hg, Int.zero_add]

/-! ## Where the slice of a TEXT run starts and ends -/

theorem zero_columns : ({} : StrPos).columns = 0 := rfl
theorem zero_graphemes : ({} : StrPos).graphemes = 0 := rfl

theorem widths_nonneg_of_012 {cs : List Ch} (h : ∀ c ∈ cs, c.width = 0 ∨ c.width = 1 ∨ c.width = 2) :
    ∀ c ∈ cs, 0 ≤ c.width := fun c hc => by have := h c hc; omega

/-- `start` of the (repaired) TEXT case: the end of the characters that lie before column `offs`, stepping over a
    double-width character that straddles it. -/
theorem text_start_split (cell : Cell) (cs : List Ch) (hdec : decode cell.text = some cs)
    (hw : ∀ c ∈ cs, c.width = 0 ∨ c.width = 1 ∨ c.width = 2)
    (h0 : 0 ≤ cell.offs) (hn : 1 ≤ cell.cols) (htot : cell.offs + cell.cols ≤ chCols cs) :
    ∃ ks, ks ≤ cs.length ∧ textStart cell = advance {} (cs.take ks) ∧ BaseHead (cs.drop ks) ∧
      (chCols (cs.take ks) = cell.offs ∨
       (chCols (cs.take ks) = cell.offs + 1 ∧
        ∃ gl, colGlyph (graphemesAux cs none) 0 cell.offs = some (gl, cell.offs - 1, 2))) := by
  have hw0 := widths_nonneg_of_012 hw
  -- the first count: column limit `offs`
  have hs0 := ncountmore_spec cell.text cs hdec (limitColumns cell.offs) rfl rfl 0 (by omega)
    (within_limitColumns _ _ (by simpa [advance, zero_columns] using h0))
  simp only [List.take_zero, advance, List.drop_zero] at hs0
  obtain ⟨c1, c2, c3⟩ := col_limit_props cs hw0 {} cell.offs h0 (by rw [zero_columns]; exact h0)
  rw [zero_columns, Int.zero_add] at c1 c3
  generalize hk0 : prefixLen (limitColumns cell.offs) {} cs = k0 at hs0 c1 c2 c3
  have hk0le : k0 ≤ cs.length ∨ cs.length < k0 := by omega
  have hs0c : (advance {} (cs.take k0)).columns = chCols (cs.take k0) := by
    rw [advance_columns, zero_columns, Int.zero_add]
  unfold textStart
  have hts0 : textStart0 cell = advance {} (cs.take k0) := hs0
  simp only [hts0, hs0c]
  by_cases hlt : chCols (cs.take k0) < cell.offs
  · -- a double-width character straddles column `offs`
    rw [if_pos hlt]
    have hsplit := chCols_take_drop cs k0
    have hne : cs.drop k0 ≠ [] := by
      intro he
      rw [he] at hsplit
      simp only [chCols] at hsplit
      omega
    obtain ⟨w, rest, hwr⟩ := List.exists_cons_of_ne_nil hne
    have hwpos := c2 w rest hwr
    have hwfit := c3 w rest hwr
    have hwmem : w ∈ cs := List.mem_of_mem_drop (by rw [hwr]; simp)
    have hw2 : w.width = 2 ∧ chCols (cs.take k0) = cell.offs - 1 := by
      have := hw w hwmem; omega
    have hk0' : k0 < cs.length := by
      by_cases h : k0 < cs.length
      · exact h
      · exfalso; exact hne (List.drop_eq_nil_of_le (by omega))
    have hg0 : 0 ≤ (advance {} (cs.take k0)).graphemes := advance_graphemes_nonneg _ _ (by rw [zero_graphemes]; omega)
    have hwithin : Within (limitGraphemes ((advance {} (cs.take k0)).graphemes + 1)) (advance {} (cs.take k0)) := by
      unfold Within limitGraphemes; exact ⟨Or.inr (by simp only; omega), Or.inl rfl⟩
    have hs1 := ncountmore_spec cell.text cs hdec (limitGraphemes ((advance {} (cs.take k0)).graphemes + 1)) rfl rfl
      k0 (by omega) hwithin
    rw [hs1, hwr, glimit_props w rest hwpos _ hg0]
    have hrest0 : ∀ c ∈ rest, 0 ≤ c.width := fun c hc => hw0 c (List.mem_of_mem_drop (by rw [hwr]; simp [hc]))
    obtain ⟨z1, z2, z3⟩ := zlen_props rest hrest0
    refine ⟨k0 + (1 + zlen rest), ?_, ?_, ?_, Or.inr ⟨?_, ?_⟩⟩
    · have : (cs.drop k0).length = cs.length - k0 := List.length_drop
      rw [hwr] at this
      simp only [List.length_cons] at this
      omega
    · rw [← advance_append]
      conv => rhs; rw [List.take_add, hwr]
    · rw [← List.drop_drop, hwr, show 1 + zlen rest = zlen rest + 1 by omega, List.drop_succ_cons]
      exact z2
    · rw [List.take_add, chCols_append, hwr, show 1 + zlen rest = zlen rest + 1 by omega, List.take_succ_cons]
      simp only [chCols]
      omega
    · rw [split_colGlyph cs hw0 k0 c2 cell.offs h0, if_neg (by omega), hwr, graphemesAux_base_none w rest hwpos,
        hw2.2]
      obtain ⟨gl, hgl⟩ := colGlyph_head rest ⟨w.bytes, w.width⟩ (cell.offs - 1) cell.offs (by omega)
        (by simp only; omega)
      refine ⟨gl, ?_⟩
      rw [hgl]
      simp only [hw2.1]
  · rw [if_neg hlt]
    have hk0' : k0 ≤ cs.length ∨ cs.take k0 = cs := by
      by_cases h : k0 ≤ cs.length
      · exact Or.inl h
      · exact Or.inr (List.take_of_length_le (by omega))
    cases hk0' with
    | inl h => exact ⟨k0, h, rfl, c2, Or.inl (by omega)⟩
    | inr h =>
      refine ⟨cs.length, by omega, by rw [List.take_length, h], ?_, Or.inl ?_⟩
      · intro b rest hb; simp at hb
      · rw [List.take_length]; rw [h] at c1 hlt; omega

/-- `end` of the (repaired) TEXT case: the end of the characters that lie before column `offs + cols`; a double-width
    character may straddle that column. -/
theorem text_end_split (cell : Cell) (cs : List Ch) (hdec : decode cell.text = some cs)
    (hw : ∀ c ∈ cs, c.width = 0 ∨ c.width = 1 ∨ c.width = 2)
    (h0 : 0 ≤ cell.offs) (hn : 1 ≤ cell.cols) (htot : cell.offs + cell.cols ≤ chCols cs)
    (ks : Nat) (hks : ks ≤ cs.length) (hstart : textStart cell = advance {} (cs.take ks))
    (hbs : BaseHead (cs.drop ks))
    (hsc : chCols (cs.take ks) = cell.offs ∨ chCols (cs.take ks) = cell.offs + 1) :
    ∃ ke, ks ≤ ke ∧ ke ≤ cs.length ∧ textEnd cell = advance {} (cs.take ke) ∧ BaseHead (cs.drop ke) ∧
      chCols (cs.take ke) = chCols (cs.take ks) + chCols ((cs.drop ks).take (ke - ks)) ∧
      (chCols (cs.take ke) = cell.offs + cell.cols ∨
       (chCols (cs.take ke) = cell.offs + cell.cols - 1 ∧
        ∃ gl, colGlyph (graphemesAux cs none) 0 (cell.offs + cell.cols - 1) =
          some (gl, cell.offs + cell.cols - 1, 2))) := by
  have hw0 := widths_nonneg_of_012 hw
  have hscol : (advance {} (cs.take ks)).columns = chCols (cs.take ks) := by
    rw [advance_columns, zero_columns, Int.zero_add]
  unfold textEnd
  simp only [hstart, hscol]
  by_cases hlt : chCols (cs.take ks) < cell.offs + cell.cols
  · rw [if_pos hlt]
    have hwithin : Within (limitColumns (cell.offs + cell.cols)) (advance {} (cs.take ks)) :=
      within_limitColumns _ _ (by rw [hscol]; omega)
    have he := ncountmore_spec cell.text cs hdec (limitColumns (cell.offs + cell.cols)) rfl rfl ks hks hwithin
    obtain ⟨c1, c2, c3⟩ := col_limit_props (cs.drop ks) (widths_drop hw0 ks) (advance {} (cs.take ks))
      (cell.offs + cell.cols) (by omega) (by rw [hscol]; omega)
    rw [hscol] at c1 c3
    generalize hkm : prefixLen (limitColumns (cell.offs + cell.cols)) (advance {} (cs.take ks)) (cs.drop ks) = km
      at he c1 c2 c3
    -- clamp `km` to the length of the rest
    have hdl : (cs.drop ks).length = cs.length - ks := List.length_drop
    by_cases hkm' : km ≤ cs.length - ks
    · refine ⟨ks + km, by omega, by omega, ?_, ?_, ?_, ?_⟩
      · rw [he, ← advance_append, List.take_add]
      · rw [← List.drop_drop]; exact c2
      · rw [List.take_add, chCols_append, show ks + km - ks = km by omega]
      · have hcke : chCols (cs.take (ks + km)) = chCols (cs.take ks) + chCols ((cs.drop ks).take km) := by
          rw [List.take_add, chCols_append]
        by_cases hfull : chCols (cs.take (ks + km)) = cell.offs + cell.cols
        · exact Or.inl hfull
        · right
          have hsplit := chCols_take_drop cs (ks + km)
          have hne : cs.drop (ks + km) ≠ [] := by
            intro hnil
            rw [hnil] at hsplit
            simp only [chCols] at hsplit
            omega
          obtain ⟨b, rest, hbr⟩ := List.exists_cons_of_ne_nil hne
          have hbr' : (cs.drop ks).drop km = b :: rest := by rw [List.drop_drop]; exact hbr
          have hbpos := c2 b rest hbr'
          have hbfit := c3 b rest hbr'
          have hbmem : b ∈ cs := List.mem_of_mem_drop (by rw [hbr]; simp)
          have hb2 : b.width = 2 ∧ chCols (cs.take (ks + km)) = cell.offs + cell.cols - 1 := by
            have := hw b hbmem; omega
          refine ⟨hb2.2, ?_⟩
          have hbase : BaseHead (cs.drop (ks + km)) := by rw [← List.drop_drop]; exact c2
          rw [split_colGlyph cs hw0 (ks + km) hbase _ (by omega), if_neg (by omega), hbr,
            graphemesAux_base_none b rest hbpos, hb2.2]
          obtain ⟨gl, hgl⟩ := colGlyph_head rest ⟨b.bytes, b.width⟩ (cell.offs + cell.cols - 1)
            (cell.offs + cell.cols - 1) (by omega) (by simp only; omega)
          refine ⟨gl, ?_⟩
          rw [hgl]
          simp only [hb2.1]
    · -- the counter cannot consume more characters than there are
      exfalso
      have : prefixLen (limitColumns (cell.offs + cell.cols)) (advance {} (cs.take ks)) (cs.drop ks) ≤
          (cs.drop ks).length := by
        generalize (cs.drop ks) = ds
        generalize (advance ({} : StrPos) (cs.take ks)) = p
        induction ds generalizing p with
        | nil => simp [prefixLen]
        | cons d ds ih =>
          simp only [prefixLen]
          split
          · omega
          · have := ih (stepPos p d)
            simp only [List.length_cons]; omega
      omega
  · rw [if_neg hlt]
    refine ⟨ks, by omega, hks, rfl, hbs, ?_, Or.inl (by omega)⟩
    rw [Nat.sub_self, List.take_zero]
    simp only [chCols]
    omega

/-! ## The stages of the TEXT case on the terminal -/

/-- An optional `erasech(k, YES)` for `k ∈ {0, 1}` (the blank for half of a double-width character), with room for it
    on the line. -/
theorem erase_opt (t : GridTerm) (k : Int) (hk : k = 0 ∨ k = 1) (hfit : t.col + k ≤ t.cols) :
    (t.run (if k > 0 then [.erasech k .yes] else [])).line = t.line ∧
    (t.run (if k > 0 then [.erasech k .yes] else [])).cols = t.cols ∧
    (t.col + k < t.cols ∨ k = 0 → (t.run (if k > 0 then [.erasech k .yes] else [])).col = t.col + k) ∧
    (t.run (if k > 0 then [.erasech k .yes] else [])).pen = t.pen ∧
    (∀ l c, ¬ (l = t.line ∧ t.col ≤ c ∧ c < t.col + k) →
      (t.run (if k > 0 then [.erasech k .yes] else [])).cells l c = t.cells l c) ∧
    (∀ c, t.col ≤ c → c < t.col + k →
      (t.run (if k > 0 then [.erasech k .yes] else [])).cells t.line c =
        { glyph := .blank, pen := t.pen, writes := (t.cells t.line c).writes + 1 }) := by
  cases hk with
  | inl h0 =>
    subst h0
    have : (if (0 : Int) > 0 then [Req.erasech 0 MaybeBool.yes] else []) = [] := by simp
    rw [this]
    exact ⟨rfl, rfl, fun _ => by simp [GridTerm.run], rfl, fun _ _ _ => rfl, fun c h1 h2 => by omega⟩
  | inr h1 =>
    subst h1
    simp only [gt_iff_lt, Int.zero_lt_one, if_true, GridTerm.run, GridTerm.step]
    refine ⟨GridTerm.erasech_line _ _ _, GridTerm.erasech_cols _ _ _, ?_, GridTerm.erasech_pen _ _ _, ?_, ?_⟩
    · intro h
      exact GridTerm.erasech_col_yes _ _ (by omega) (by omega)
    · intro l c hn
      rw [GridTerm.erasech_cells _ _ _ (by omega) hfit, if_neg hn]
    · intro c h1 h2
      rw [GridTerm.erasech_cells _ _ _ (by omega) hfit, if_pos ⟨rfl, h1, h2⟩]

theorem curInv_putGlyph (t : GridTerm) (b : Ch) (hb : b.width > 0) :
    CurInv (t.putGlyphRaw b.bytes b.width) t.line ⟨b.bytes, b.width⟩ := by
  have p2 : (t.putGlyphRaw b.bytes b.width).col = t.col + b.width := rfl
  have p5 : ∀ l k, (t.putGlyphRaw b.bytes b.width).cells l k =
      if l = t.line ∧ t.col ≤ k ∧ k < t.col + b.width then
        { glyph := if k = t.col then .chars b.bytes else .wcont, pen := t.pen, writes := (t.cells l k).writes + 1 }
      else t.cells l k := fun _ _ => rfl
  have p4 : (t.putGlyphRaw b.bytes b.width).last = some (t.line, t.col) := rfl
  refine ⟨rfl, by rw [p4, p2]; simp, by simp only; omega, ?_, ?_, ?_⟩
  · have e : (t.putGlyphRaw b.bytes b.width).col - (⟨b.bytes, b.width⟩ : Grapheme).width = t.col := by
      rw [p2]; simp only; omega
    rw [e, p5, if_pos ⟨rfl, by omega, by omega⟩]; simp
  · intro k h1 h2
    rw [p2] at h1 h2; simp only at h1
    rw [p5, if_pos ⟨rfl, by omega, by omega⟩]; simp only
    rw [if_neg (by omega)]
  · intro k h1 h2
    rw [p2] at h1 h2; simp only at h1
    rw [p5, if_pos ⟨rfl, by omega, by omega⟩]
    rfl

/-- Printing characters that begin with a character of width > 0, at the cursor, with room for them on the line. -/
theorem putChs_text (M : List Ch) (hw : ∀ c ∈ M, 0 ≤ c.width) (hb : BaseHead M) (hne : M ≠ []) (t : GridTerm)
    (hfit : t.col + chCols M ≤ t.cols) :
    (t.putChs M).line = t.line ∧ (t.putChs M).cols = t.cols ∧ (t.putChs M).col = t.col + chCols M ∧
    (t.putChs M).pen = t.pen ∧
    (∀ l k, ¬ (l = t.line ∧ t.col ≤ k ∧ k < t.col + chCols M) → (t.putChs M).cells l k = t.cells l k) ∧
    (∀ k, t.col ≤ k → k < t.col + chCols M →
      ∃ x, colGlyph (graphemesAux M none) t.col k = some x ∧ ((t.putChs M).cells t.line k).glyph = x.1 ∧
        ((t.putChs M).cells t.line k).pen = t.pen ∧
        ((t.putChs M).cells t.line k).writes = (t.cells t.line k).writes + 1) := by
  obtain ⟨b, M', rfl⟩ := List.exists_cons_of_ne_nil hne
  have hbw := hb b M' rfl
  have hw' : ∀ c ∈ M', 0 ≤ c.width := fun c h => hw c (by simp [h])
  have hM' := chCols_nonneg M' hw'
  simp only [chCols] at hfit
  rw [putChs_cons]
  have hput : t.putCh b = t.putGlyphRaw b.bytes b.width := by
    simp only [GridTerm.putCh]
    rw [if_neg (by omega)]
    exact GridTerm.putGlyph_fit _ _ _ (by omega)
  rw [hput, graphemesAux_base_none b M' hbw]
  have p2 : (t.putGlyphRaw b.bytes b.width).col = t.col + b.width := rfl
  have p3 : (t.putGlyphRaw b.bytes b.width).pen = t.pen := rfl
  have p6 : (t.putGlyphRaw b.bytes b.width).cols = t.cols := rfl
  have p5 : ∀ l k, (t.putGlyphRaw b.bytes b.width).cells l k =
      if l = t.line ∧ t.col ≤ k ∧ k < t.col + b.width then
        { glyph := if k = t.col then .chars b.bytes else .wcont, pen := t.pen, writes := (t.cells l k).writes + 1 }
      else t.cells l k := fun _ _ => rfl
  obtain ⟨r1, r0, r2, r3, r4, r5⟩ := putChs_gs M' hw' (t.putGlyphRaw b.bytes b.width) t.line _
    (curInv_putGlyph t b hbw) (by rw [p2, p6]; omega)
  simp only at r2 r4 r5
  have hc1 : (t.putGlyphRaw b.bytes b.width).col - b.width = t.col := by rw [p2]; omega
  rw [hc1] at r2 r4 r5
  rw [p3] at r3 r5
  have hcols : gCols (graphemesAux M' (some ⟨b.bytes, b.width⟩)) = chCols (b :: M') := by
    rw [gCols_graphemesAux]; simp [gCols, chCols]
  rw [hcols] at r2
  refine ⟨r1, by rw [r0, p6], r2, r3, ?_, ?_⟩
  · intro l k hn
    rw [r4 l k (by rw [r2]; exact hn), p5, if_neg (by simp only [chCols] at hn; omega)]
  · intro k h1 h2
    obtain ⟨x, x1, x2, x3, x4⟩ := r5 k h1 (by rw [r2]; exact h2)
    refine ⟨x, x1, x2, x3, ?_⟩
    rw [x4, p5, p2]
    by_cases hk : k < t.col + b.width
    · rw [if_pos ⟨rfl, h1, hk⟩, if_pos hk]
    · rw [if_neg (by omega), if_neg hk]

theorem bytesLen_append (a b : List Ch) : bytesLen (a ++ b) = bytesLen a + bytesLen b := by
  induction a with
  | nil => simp [bytesLen]
  | cons c a ih => simp only [List.cons_append, bytesLen, ih]; omega

theorem bytesLen_pos (M : List Ch) (hsd : ∀ c ∈ M, SelfDec c) (hne : M ≠ []) : 0 < bytesLen M := by
  obtain ⟨b, M', rfl⟩ := List.exists_cons_of_ne_nil hne
  have := (hsd b (by simp)).length_pos
  simp only [bytesLen]; omega

/-- The terminal reads the bytes of decoded characters back as those characters. -/
theorem printBytes_chars (M : List Ch)
    (hp : ∀ c ∈ M, SelfDec c ∧ c.width = wcwidth c.cp ∧ (c.width = 0 ∨ c.width = 1 ∨ c.width = 2)) (t : GridTerm) :
    t.printBytes (M.flatMap (·.bytes)) = t.putChs M := by
  unfold GridTerm.printBytes
  have hsd : ∀ c ∈ M, SelfDec c := fun c hc => (hp c hc).1
  have hlen := flatMap_bytes_length_ge M hsd
  have := termDecode_flatten M hsd [] ((M.flatMap (·.bytes)).length + 1) (by omega)
  simp only [List.nil_append, List.length_nil] at this
  rw [this]
  have hmap : (M.map fun c => (⟨c.bytes, c.cp, termWidth c.cp⟩ : Ch)) = M := by
    have : ∀ c ∈ M, (⟨c.bytes, c.cp, termWidth c.cp⟩ : Ch) = c := by
      intro c hc
      obtain ⟨_, h2, h3⟩ := hp c hc
      have : termWidth c.cp = c.width := by
        unfold termWidth
        rw [← h2]
        rw [if_neg (by omega)]
      rw [this]
    rw [List.map_congr_left this, List.map_id']
  rw [hmap]

/-- The print request of the TEXT case delivers the characters of the slice. -/
theorem print_slice (cell : Cell) (cs : List Ch) (hdec : decode cell.text = some cs)
    (hp : ∀ c ∈ cs, SelfDec c ∧ c.width = wcwidth c.cp ∧ (c.width = 0 ∨ c.width = 1 ∨ c.width = 2))
    (ks ke : Nat) (h1 : ks ≤ ke) (h2 : ke ≤ cs.length)
    (hstart : textStart cell = advance {} (cs.take ks)) (hend : textEnd cell = advance {} (cs.take ke))
    (t : GridTerm) :
    ((textEnd cell).bytes > (textStart cell).bytes ↔ (cs.drop ks).take (ke - ks) ≠ []) ∧
    ((cs.drop ks).take (ke - ks) ≠ [] →
      t.step (.print cell.text (textStart cell).bytes.toNat ((textEnd cell).bytes - (textStart cell).bytes).toNat) =
        t.putChs ((cs.drop ks).take (ke - ks))) := by
  have hsplit : cs.take ke = cs.take ks ++ (cs.drop ks).take (ke - ks) := by
    rw [show ke = ks + (ke - ks) by omega, List.take_add]
    simp
  have hsb : (textStart cell).bytes = (bytesLen (cs.take ks) : Int) := by
    rw [hstart, advance_bytes]; simp
  have heb : (textEnd cell).bytes = (bytesLen (cs.take ks) : Int) + (bytesLen ((cs.drop ks).take (ke - ks)) : Int) := by
    rw [hend, advance_bytes, hsplit, bytesLen_append]; simp
  have hpM : ∀ c ∈ (cs.drop ks).take (ke - ks), SelfDec c ∧ c.width = wcwidth c.cp ∧
      (c.width = 0 ∨ c.width = 1 ∨ c.width = 2) :=
    fun c hc => hp c (List.mem_of_mem_drop (List.mem_of_mem_take hc))
  refine ⟨?_, ?_⟩
  · rw [hsb, heb]
    constructor
    · intro h hnil
      rw [hnil] at h
      simp [bytesLen] at h
    · intro hne
      have := bytesLen_pos _ (fun c hc => (hpM c hc).1) hne
      omega
  · intro hne
    have hpos := bytesLen_pos _ (fun c hc => (hpM c hc).1) hne
    simp only [GridTerm.step]
    rw [hsb, heb, Int.toNat_natCast, show ((bytesLen (cs.take ks) : Int) + (bytesLen ((cs.drop ks).take (ke - ks)) : Int) -
      (bytesLen (cs.take ks) : Int)).toNat = bytesLen ((cs.drop ks).take (ke - ks)) by omega]
    have hreq : GridTerm.reqBytes t.viaWriteStr cell.text (bytesLen (cs.take ks))
        (bytesLen ((cs.drop ks).take (ke - ks))) = ((cs.drop ks).take (ke - ks)).flatMap (·.bytes) := by
      unfold GridTerm.reqBytes
      have : bytesLen ((cs.drop ks).take (ke - ks)) ≠ 0 := by omega
      simp only [this, decide_false, Bool.false_and, Bool.false_eq_true, if_false, beq_iff_eq]
      have hsuf := decodeFrom_suffix cell.text ks cs (cell.text.length + 1) 0 hdec (by omega)
      rw [Nat.zero_add] at hsuf
      exact decodeFrom_bytes cell.text (ke - ks) (cs.drop ks) _ _ hsuf
    rw [hreq, printBytes_chars _ hpM]

theorem split_colGlyph_at (cs : List Ch) (hw : ∀ c ∈ cs, 0 ≤ c.width) (k : Nat) (hb : BaseHead (cs.drop k))
    (c q : Int) (h0 : c ≤ q) :
    colGlyph (graphemesAux cs none) c q =
      if q < c + chCols (cs.take k) then colGlyph (graphemesAux (cs.take k) none) c q
      else colGlyph (graphemesAux (cs.drop k) none) (c + chCols (cs.take k)) q := by
  have h1 : graphemesAux cs none = graphemesAux (cs.take k) none ++ graphemesAux (cs.drop k) none := by
    rw [← graphemesAux_append _ _ hb, List.take_append_drop]
  have hpos : ∀ g ∈ graphemesAux (cs.take k) none, 1 ≤ g.width :=
    graphemesAux_width_pos _ (widths_take hw k) none (by simp)
  have hg : gCols (graphemesAux (cs.take k) none) = chCols (cs.take k) := by
    rw [gCols_graphemesAux]; simp [gCols]
  rw [h1, colGlyph_append _ _ hpos c q h0, hg]

/-- The print stage, whether or not there is anything to print. -/
theorem print_opt (M : List Ch) (hw : ∀ c ∈ M, 0 ≤ c.width) (hb : BaseHead M) (t t' : GridTerm)
    (hfit : t.col + chCols M ≤ t.cols)
    (h : (M = [] ∧ t' = t) ∨ (M ≠ [] ∧ t' = t.putChs M)) :
    t'.line = t.line ∧ t'.cols = t.cols ∧ t'.col = t.col + chCols M ∧ t'.pen = t.pen ∧
    (∀ l k, ¬ (l = t.line ∧ t.col ≤ k ∧ k < t.col + chCols M) → t'.cells l k = t.cells l k) ∧
    (∀ k, t.col ≤ k → k < t.col + chCols M →
      ∃ x, colGlyph (graphemesAux M none) t.col k = some x ∧ (t'.cells t.line k).glyph = x.1 ∧
        (t'.cells t.line k).pen = t.pen ∧ (t'.cells t.line k).writes = (t.cells t.line k).writes + 1) := by
  cases h with
  | inl h =>
    obtain ⟨hM, ht⟩ := h
    subst hM; subst ht
    have hz : chCols [] = 0 := rfl
    rw [hz]
    exact ⟨rfl, rfl, by omega, rfl, fun _ _ _ => rfl, fun k h1 h2 => by omega⟩
  | inr h =>
    obtain ⟨hM, ht⟩ := h
    subst ht
    exact putChs_text M hw hb hM t hfit

/-! ## The TEXT case -/

theorem graphemes_of_decode {s : List UInt8} {cs : List Ch} (h : decode s = some cs) :
    graphemes s = some (graphemesAux cs none) := by
  unfold graphemes; rw [h]; rfl

theorem text_run {rb : RB} {line col : Int} (hl : 0 ≤ line ∧ line < rb.lines) (h0 : 0 ≤ col)
    (hr : RunAt rb line col) (hs : (rb.cell line col).state = .text) : TextRunOK rb line col := by
  intro t hcw ht
  obtain ⟨cs, hdec, hoffs, htot⟩ := hr.text hs
  have hn := hr.pos
  have hrfit := hr.fits
  have hp := decodeFrom_props (rb.cell line col).text cs _ 0 hdec
  have hw012 : ∀ c ∈ cs, c.width = 0 ∨ c.width = 1 ∨ c.width = 2 := fun c hc => (hp c hc).2.2
  have hw0 := widths_nonneg_of_012 hw012
  obtain ⟨ks, hks, hstart, hbs, hsc⟩ := text_start_split _ cs hdec hw012 hoffs hn htot
  have hsc' : chCols (cs.take ks) = (rb.cell line col).offs ∨ chCols (cs.take ks) = (rb.cell line col).offs + 1 := by
    cases hsc with
    | inl h => exact Or.inl h
    | inr h => exact Or.inr h.1
  obtain ⟨ke, hke1, hke2, hend, hbe, hcke, htr⟩ := text_end_split _ cs hdec hw012 hoffs hn htot ks hks hstart hbs hsc'
  obtain ⟨hbytes, hprint⟩ := print_slice _ cs hdec hp ks ke hke1 hke2 hstart hend
    ((t.setpen (rb.cell line col).pen).run
      (if textLead (rb.cell line col) > 0 then [.erasech (textLead (rb.cell line col)) .yes] else []))
  -- the slice
  generalize hM : (cs.drop ks).take (ke - ks) = M at hcke hbytes hprint
  have hMw : ∀ c ∈ M, 0 ≤ c.width := by
    rw [← hM]; exact widths_take (widths_drop hw0 ks) _
  have hMb : BaseHead M := by
    intro b rest hbr
    have : ∃ rest', cs.drop ks = b :: rest' := by
      rw [← hM] at hbr
      cases hd : cs.drop ks with
      | nil => rw [hd] at hbr; simp at hbr
      | cons d ds =>
        rw [hd] at hbr
        cases hk : ke - ks with
        | zero => rw [hk] at hbr; simp at hbr
        | succ j =>
          rw [hk, List.take_succ_cons] at hbr
          simp only [List.cons.injEq] at hbr
          exact ⟨ds, by rw [hbr.1]⟩
    obtain ⟨rest', hr'⟩ := this
    exact hbs b rest' hr'
  have hMcols := chCols_nonneg M hMw
  -- lead and trail
  have hlead : textLead (rb.cell line col) = chCols (cs.take ks) - (rb.cell line col).offs := by
    unfold textLead; rw [hstart, advance_columns, zero_columns, Int.zero_add]
  have htrail : textTrail (rb.cell line col) =
      (rb.cell line col).offs + (rb.cell line col).cols - chCols (cs.take ke) := by
    unfold textTrail; rw [hend, advance_columns, zero_columns, Int.zero_add]
  have hlead01 : textLead (rb.cell line col) = 0 ∨ textLead (rb.cell line col) = 1 := by
    rw [hlead]; omega
  have htrail01 : textTrail (rb.cell line col) = 0 ∨ textTrail (rb.cell line col) = 1 := by
    rw [htrail]
    cases htr with
    | inl h => left; omega
    | inr h => right; omega
  -- the stages
  unfold textReqs
  rw [GridTerm.run_append, GridTerm.run_append, GridTerm.run_append]
  have e1 : (t.run [.setpen (rb.cell line col).pen]).line = line := ht.1
  have e2 : (t.run [.setpen (rb.cell line col).pen]).col = col := ht.2
  have e3 : (t.run [.setpen (rb.cell line col).pen]).cells = t.cells := rfl
  have e4 : (t.run [.setpen (rb.cell line col).pen]).pen = termSetpen t.pen (rb.cell line col).pen := rfl
  have e6 : (t.run [.setpen (rb.cell line col).pen]).cols = t.cols := rfl
  have e5 : t.run [.setpen (rb.cell line col).pen] = t.setpen (rb.cell line col).pen := rfl
  rw [e5] at e1 e2 e3 e4 e6
  rw [e5]
  generalize t.setpen (rb.cell line col).pen = t1 at e1 e2 e3 e4 e6 hprint ⊢
  have hsum0 : textLead (rb.cell line col) + chCols M + textTrail (rb.cell line col) = (rb.cell line col).cols := by
    rw [hlead, htrail, hcke]; omega
  have htr0 : 0 ≤ textTrail (rb.cell line col) := by omega
  obtain ⟨a1, a0, a2, a3, a4, a5⟩ := erase_opt t1 (textLead (rb.cell line col)) hlead01 (by rw [e2, e6]; omega)
  generalize hA : t1.run (if textLead (rb.cell line col) > 0 then
    [Req.erasech (textLead (rb.cell line col)) MaybeBool.yes] else []) = tA at a1 a0 a2 a3 a4 a5 hprint ⊢
  -- the one situation in which the cursor is clamped at the right edge: a one-column run at the terminal's last
  -- column holding the right half of a double-width character
  by_cases hedge : col + textLead (rb.cell line col) < t.cols ∨ textLead (rb.cell line col) = 0
  case neg =>
    have hl1 : textLead (rb.cell line col) = 1 := by omega
    have hM0 : chCols M = 0 := by omega
    have ht0 : textTrail (rb.cell line col) = 0 := by omega
    have hn1 : (rb.cell line col).cols = 1 := by omega
    have hMnil : M = [] := by
      cases hMM : M with
      | nil => rfl
      | cons b rest =>
        exfalso
        have hb := hMb b rest hMM
        have := chCols_nonneg rest (fun c hc => hMw c (by rw [hMM]; simp [hc]))
        rw [hMM] at hM0
        simp only [chCols] at hM0
        omega
    have hnb : ¬ ((textEnd (rb.cell line col)).bytes > (textStart (rb.cell line col)).bytes) :=
      fun hgt => (hbytes.mp hgt) hMnil
    rw [if_neg hnb, ht0]
    simp only [Int.lt_irrefl, gt_iff_lt, if_false, GridTerm.run]
    have hgr := graphemes_of_decode hdec
    refine ⟨⟨?_, ?_, by rw [a1, e1], by rw [a0, e6]⟩, fun h => by omega⟩
    · intro c hc1 hc2
      have hcc : c = col := by omega
      subst hcc
      rw [want_of_run hl h0 hr c hc1 hc2]
      unfold wantOf
      simp only [hs, hgr, Option.bind_some]
      have hhalf : ∃ gl, colGlyph (graphemesAux cs none) 0 (rb.cell line c).offs =
          some (gl, (rb.cell line c).offs - 1, 2) := by
        cases hsc with
        | inl h => rw [hlead] at hl1; omega
        | inr h => exact h.2
      obtain ⟨gl, hgl⟩ := hhalf
      rw [show (rb.cell line c).offs + (c - c) = (rb.cell line c).offs by omega, hgl]
      simp only
      rw [if_neg (by omega)]
      have := a5 c (by rw [e2]; omega) (by rw [e2]; omega)
      rw [e1] at this
      rw [this, e3, e4]
      exact cellOK_glyph _ _ _ _
    · intro l c hout
      rw [a4 l c (by rw [e1, e2]; omega), e3]
  have a2' := a2 (by rw [e2, e6]; exact hedge)
  have hB : (M = [] ∧ tA.run (if (textEnd (rb.cell line col)).bytes > (textStart (rb.cell line col)).bytes then
        [Req.print (rb.cell line col).text (textStart (rb.cell line col)).bytes.toNat
          ((textEnd (rb.cell line col)).bytes - (textStart (rb.cell line col)).bytes).toNat] else []) = tA) ∨
      (M ≠ [] ∧ tA.run (if (textEnd (rb.cell line col)).bytes > (textStart (rb.cell line col)).bytes then
        [Req.print (rb.cell line col).text (textStart (rb.cell line col)).bytes.toNat
          ((textEnd (rb.cell line col)).bytes - (textStart (rb.cell line col)).bytes).toNat] else []) = tA.putChs M) := by
    by_cases hne : M = []
    · left
      refine ⟨hne, ?_⟩
      rw [if_neg (fun hgt => (hbytes.mp hgt) hne)]
      rfl
    · right
      refine ⟨hne, ?_⟩
      rw [if_pos (hbytes.mpr hne)]
      exact hprint hne
  have hAcol : tA.col = col + textLead (rb.cell line col) := by rw [a2', e2]
  obtain ⟨b1, b0, b2, b3, b4, b5⟩ := print_opt M hMw hMb tA _ (by rw [hAcol, a0, e6]; omega) hB
  generalize tA.run (if (textEnd (rb.cell line col)).bytes > (textStart (rb.cell line col)).bytes then
        [Req.print (rb.cell line col).text (textStart (rb.cell line col)).bytes.toNat
          ((textEnd (rb.cell line col)).bytes - (textStart (rb.cell line col)).bytes).toNat] else []) = tB
    at b1 b0 b2 b3 b4 b5 ⊢
  -- column arithmetic
  have hBcol : tB.col = col + textLead (rb.cell line col) + chCols M := by rw [b2, hAcol]
  have hsum := hsum0
  obtain ⟨c1, c0, c2, c3, c4, c5⟩ := erase_opt tB (textTrail (rb.cell line col)) htrail01
    (by rw [hBcol, b0, a0, e6]; omega)
  generalize tB.run (if textTrail (rb.cell line col) > 0 then
    [Req.erasech (textTrail (rb.cell line col)) MaybeBool.yes] else []) = tC at c1 c0 c2 c3 c4 c5 ⊢
  have hAline : tA.line = line := by rw [a1, e1]
  have hBline : tB.line = line := by rw [b1, hAline]
  have hgr := graphemes_of_decode hdec
  refine ⟨⟨?_, ?_, by rw [c1, hBline], by rw [c0, b0, a0, e6]⟩,
    fun hlt => by rw [c2 (Or.inl (by rw [hBcol, b0, a0, e6]; omega)), hBcol]; omega⟩
  · -- inside the run
    intro c hc1 hc2
    rw [want_of_run hl h0 hr c hc1 hc2]
    unfold wantOf
    simp only [hs, hgr, Option.bind_some]
    by_cases hreg1 : c < col + textLead (rb.cell line col)
    · -- the right half of a double-width character that starts before the run
      have hl1 : textLead (rb.cell line col) = 1 := by omega
      have hcc : c = col := by omega
      subst hcc
      have hhalf : ∃ gl, colGlyph (graphemesAux cs none) 0 (rb.cell line c).offs =
          some (gl, (rb.cell line c).offs - 1, 2) := by
        cases hsc with
        | inl h => rw [hlead] at hl1; omega
        | inr h => exact h.2
      obtain ⟨gl, hgl⟩ := hhalf
      rw [show (rb.cell line c).offs + (c - c) = (rb.cell line c).offs by omega, hgl]
      simp only
      rw [if_neg (by omega)]
      rw [c4 line c (by rw [hBline, hBcol]; omega), b4 line c (by rw [hAline, hAcol]; omega)]
      have := a5 c (by rw [e2]; omega) (by rw [e2]; omega)
      rw [e1] at this
      rw [this, e3, e4]
      exact cellOK_glyph _ _ _ _
    · by_cases hreg2 : c < col + textLead (rb.cell line col) + chCols M
      · -- a cell of the printed slice
        obtain ⟨x, x1, x2, x3, x4⟩ := b5 c (by rw [hAcol]; omega) (by rw [hAcol]; exact hreg2)
        rw [hAline] at x2 x3 x4
        have hq : (0 : Int) ≤ (rb.cell line col).offs + (c - col) := by omega
        have hleadcol : chCols (cs.take ks) = (rb.cell line col).offs + textLead (rb.cell line col) := by
          rw [hlead]; omega
        -- the specification's glyph, by splitting the text at `ks` and at `ke`
        have hspec : colGlyph (graphemesAux cs none) 0 ((rb.cell line col).offs + (c - col)) =
            colGlyph (graphemesAux M none) (chCols (cs.take ks)) ((rb.cell line col).offs + (c - col)) := by
          rw [split_colGlyph cs hw0 ks hbs _ hq, if_neg (by omega)]
          have hbe' : BaseHead ((cs.drop ks).drop (ke - ks)) := by
            rw [List.drop_drop, show ks + (ke - ks) = ke by omega]; exact hbe
          rw [split_colGlyph_at (cs.drop ks) (widths_drop hw0 ks) (ke - ks) hbe' _ _ (by omega), hM,
            if_pos (by omega)]
        have hshift := colGlyph_shift (graphemesAux M none) (col - (rb.cell line col).offs) (chCols (cs.take ks))
          ((rb.cell line col).offs + (c - col))
        rw [show chCols (cs.take ks) + (col - (rb.cell line col).offs) = tA.col by rw [hAcol, hleadcol]; omega,
          show (rb.cell line col).offs + (c - col) + (col - (rb.cell line col).offs) = c by omega, x1] at hshift
        cases hy : colGlyph (graphemesAux M none) (chCols (cs.take ks)) ((rb.cell line col).offs + (c - col)) with
        | none => rw [hy] at hshift; simp at hshift
        | some y =>
          rw [hy] at hshift
          simp only [Option.map_some, Option.some.injEq] at hshift
          obtain ⟨yg, yc, yw⟩ := y
          have hMpos : ∀ g ∈ graphemesAux M none, 1 ≤ g.width := graphemesAux_width_pos M hMw none (by simp)
          obtain ⟨y1, _, _, y4⟩ := colGlyph_bounds _ hMpos _ _ _ _ _ hy
          have hgM : gCols (graphemesAux M none) = chCols M := by rw [gCols_graphemesAux]; simp [gCols]
          rw [hgM] at y4
          rw [hspec, hy]
          simp only
          rw [if_pos ⟨by omega, by rw [hcke] at *; omega⟩]
          have hxg : x.1 = yg := by rw [hshift]
          rw [c4 line c (by rw [hBline, hBcol]; omega)]
          have hpen : penSame (tB.cells line c).pen (rb.cell line col).pen = true := by
            rw [x3, a3, e4]; exact penSame_termSetpen _ _
          have hwr : (tB.cells line c).writes = (t.cells line c).writes + 1 := by
            rw [x4, a4 line c (by rw [e1, e2]; omega), e3]
          simp only [cellOK, x2, hxg, hpen, hwr, beq_self_eq_true, Bool.and_self]
      · -- the left half of a double-width character that ends after the run
        have ht1 : textTrail (rb.cell line col) = 1 := by omega
        have hcc : c = col + (rb.cell line col).cols - 1 := by omega
        have hhalf : ∃ gl, colGlyph (graphemesAux cs none) 0 ((rb.cell line col).offs + (rb.cell line col).cols - 1) =
            some (gl, (rb.cell line col).offs + (rb.cell line col).cols - 1, 2) := by
          cases htr with
          | inl h => rw [htrail] at ht1; omega
          | inr h => exact h.2
        obtain ⟨gl, hgl⟩ := hhalf
        rw [show (rb.cell line col).offs + (c - col) = (rb.cell line col).offs + (rb.cell line col).cols - 1 by omega,
          hgl]
        simp only
        rw [if_neg (by omega)]
        have := c5 c (by rw [hBcol]; omega) (by rw [hBcol]; omega)
        rw [hBline] at this
        rw [this, b3, a3, e4, b4 line c (by rw [hAline, hAcol]; omega), a4 line c (by rw [e1, e2]; omega), e3]
        exact cellOK_glyph _ _ _ _
  · -- outside the run
    intro l c hout
    rw [c4 l c (by rw [hBline, hBcol]; omega), b4 l c (by rw [hAline, hAcol]; omega),
      a4 l c (by rw [e1, e2]; omega), e3]

/-! ## The columns of a whole text -/

theorem addZeroWidth_col (t : GridTerm) (bs : List UInt8) : (t.addZeroWidth bs).col = t.col := by
  unfold GridTerm.addZeroWidth
  cases t.last <;> rfl

theorem putChs_col (cs : List Ch) (hw : ∀ c ∈ cs, 0 ≤ c.width) : ∀ t : GridTerm, t.col + chCols cs ≤ t.cols →
    (t.putChs cs).col = t.col + chCols cs := by
  induction cs with
  | nil => intro t _; simp [GridTerm.putChs, chCols]
  | cons c cs ih =>
    intro t hfit
    have hc0 := hw c (by simp)
    have hw' : ∀ c' ∈ cs, 0 ≤ c'.width := fun c' h => hw c' (by simp [h])
    have hn := chCols_nonneg cs hw'
    simp only [chCols] at hfit
    rw [putChs_cons]
    simp only [chCols, GridTerm.putCh]
    by_cases hc : c.width = 0
    · rw [if_pos hc]
      have hcols : (t.addZeroWidth c.bytes).cols = t.cols := by
        unfold GridTerm.addZeroWidth; cases t.last <;> rfl
      rw [ih hw' _ (by rw [addZeroWidth_col, hcols]; omega), addZeroWidth_col]; omega
    · rw [if_neg hc, GridTerm.putGlyph_fit _ _ _ (by omega)]
      have h1 : (t.putGlyphRaw c.bytes c.width).col = t.col + c.width := rfl
      have h2 : (t.putGlyphRaw c.bytes c.width).cols = t.cols := rfl
      rw [ih hw' _ (by rw [h1, h2]; omega), h1]; omega

/-- Without any limit the counter consumes everything. -/
theorem prefixLen_nolimit : ∀ (cs : List Ch) (p : StrPos), prefixLen ⟨-1, -1, -1, -1⟩ p cs = cs.length := by
  intro cs
  induction cs with
  | nil => intro p; rfl
  | cons c cs ih =>
    intro p
    have : stops ⟨-1, -1, -1, -1⟩ p c = false := by simp [stops]
    simp only [prefixLen, this, Bool.false_eq_true, if_false, ih, List.length_cons]
    omega

end Tickit.RBFlush
