import Tickit.Proof.RBFlushCount
import Tickit.Proof.RBFlushSpec
/-
  C04: the TEXT case of the flush.  Graphemes and columns of a character list, the terminal's rendering of a printed
  slice, and `TextRunOK` for every run inside an accepted text — including runs that begin or end inside a
  double-width character.
-/
namespace Tickit.RBFlush
open Tickit.RB Tickit.RB.Utf8

/-! ## Graphemes and columns -/

/-- Σ width of graphemes. -/
def gCols : List Grapheme → Int
  | [] => 0
  | g :: gs => g.width + gCols gs

/-- Empty, or starting with a character of width > 0 (a grapheme boundary). -/
def BaseHead (B : List Ch) : Prop := ∀ b rest, B = b :: rest → b.width > 0

theorem graphemesAux_nil (cur : Option Grapheme) : graphemesAux [] cur = cur.toList := by
  cases cur <;> rfl

theorem graphemesAux_cons_zero (c : Ch) (cs : List Ch) (g : Grapheme) (h : c.width = 0) :
    graphemesAux (c :: cs) (some g) = graphemesAux cs (some { g with bytes := g.bytes ++ c.bytes }) := by
  simp [graphemesAux, h]

theorem graphemesAux_cons_zero_none (c : Ch) (cs : List Ch) (h : c.width = 0) :
    graphemesAux (c :: cs) none = graphemesAux cs none := by
  simp [graphemesAux, h]

theorem graphemesAux_cons_base (c : Ch) (cs : List Ch) (cur : Option Grapheme) (h : c.width ≠ 0) :
    graphemesAux (c :: cs) cur = cur.toList ++ graphemesAux cs (some ⟨c.bytes, c.width⟩) := by
  cases cur <;> simp [graphemesAux, h]

theorem graphemesAux_append (A B : List Ch) (hB : BaseHead B) : ∀ cur,
    graphemesAux (A ++ B) cur = graphemesAux A cur ++ graphemesAux B none := by
  induction A with
  | nil =>
    intro cur
    cases B with
    | nil => simp [graphemesAux_nil]
    | cons b B' =>
      have hb := hB b B' rfl
      simp only [List.nil_append]
      rw [graphemesAux_cons_base b B' cur (by omega), graphemesAux_cons_base b B' none (by omega), graphemesAux_nil]
      simp
  | cons a A ih =>
    intro cur
    simp only [List.cons_append]
    by_cases ha : a.width = 0
    · cases cur with
      | none => rw [graphemesAux_cons_zero_none _ _ ha, graphemesAux_cons_zero_none _ _ ha]; exact ih none
      | some g => rw [graphemesAux_cons_zero _ _ _ ha, graphemesAux_cons_zero _ _ _ ha]; exact ih _
    · rw [graphemesAux_cons_base _ _ _ ha, graphemesAux_cons_base _ _ _ ha, ih, List.append_assoc]

theorem gCols_append (X Y : List Grapheme) : gCols (X ++ Y) = gCols X + gCols Y := by
  induction X with
  | nil => simp [gCols]
  | cons g X ih => simp only [List.cons_append, gCols, ih]; omega

theorem gCols_graphemesAux (cs : List Ch) : ∀ cur : Option Grapheme,
    gCols (graphemesAux cs cur) = gCols cur.toList + chCols cs := by
  induction cs with
  | nil => intro cur; rw [graphemesAux_nil]; simp [chCols]
  | cons c cs ih =>
    intro cur
    by_cases hc : c.width = 0
    · cases cur with
      | none => rw [graphemesAux_cons_zero_none _ _ hc, ih]; simp [chCols, hc]
      | some g => rw [graphemesAux_cons_zero _ _ _ hc, ih]; simp [chCols, hc, gCols]
    · rw [graphemesAux_cons_base _ _ _ hc, gCols_append, ih]
      simp only [Option.toList_some, gCols, chCols]
      omega

theorem graphemesAux_width_pos (cs : List Ch) (hw : ∀ c ∈ cs, 0 ≤ c.width) : ∀ cur : Option Grapheme,
    (∀ g ∈ cur.toList, 1 ≤ g.width) → ∀ g ∈ graphemesAux cs cur, 1 ≤ g.width := by
  induction cs with
  | nil => intro cur hcur g hg; rw [graphemesAux_nil] at hg; exact hcur g hg
  | cons c cs ih =>
    intro cur hcur g hg
    have hc0 := hw c (by simp)
    have hw' : ∀ c' ∈ cs, 0 ≤ c'.width := fun c' hc' => hw c' (by simp [hc'])
    by_cases hc : c.width = 0
    · cases cur with
      | none => rw [graphemesAux_cons_zero_none _ _ hc] at hg; exact ih hw' none (by simp) g hg
      | some g0 =>
        rw [graphemesAux_cons_zero _ _ _ hc] at hg
        exact ih hw' _ (by intro g' hg'; simp at hg'; subst hg'; exact hcur g0 (by simp)) g hg
    · rw [graphemesAux_cons_base _ _ _ hc, List.mem_append] at hg
      cases hg with
      | inl h => exact hcur g h
      | inr h => exact ih hw' _ (by intro g' hg'; simp at hg'; subst hg'; simp only; omega) g h

theorem gCols_nonneg (X : List Grapheme) (hX : ∀ g ∈ X, 1 ≤ g.width) : 0 ≤ gCols X := by
  induction X with
  | nil => simp [gCols]
  | cons g X ih =>
    have := hX g (by simp)
    have := ih (fun g' h => hX g' (by simp [h]))
    simp only [gCols]; omega

/-! ## `colGlyph` -/

theorem colGlyph_cons_skip (g : Grapheme) (gs : List Grapheme) (c k : Int) (hg : 1 ≤ g.width)
    (h : c + g.width ≤ k) : colGlyph (g :: gs) c k = colGlyph gs (c + g.width) k := by
  simp only [colGlyph]
  rw [if_neg (by omega), if_neg (by omega), if_neg (by omega)]

theorem colGlyph_cons_first (g : Grapheme) (gs : List Grapheme) (c k : Int) (h1 : c ≤ k) (h2 : k < c + g.width) :
    colGlyph (g :: gs) c k = some (if k = c then .chars g.bytes else .wcont, c, g.width) := by
  simp only [colGlyph]
  rw [if_neg (by omega)]
  by_cases hk : k = c
  · rw [if_pos hk, if_pos hk]
  · rw [if_neg hk, if_pos h2, if_neg hk]

theorem colGlyph_append (X Y : List Grapheme) (hX : ∀ g ∈ X, 1 ≤ g.width) : ∀ (c k : Int), c ≤ k →
    colGlyph (X ++ Y) c k = if k < c + gCols X then colGlyph X c k else colGlyph Y (c + gCols X) k := by
  induction X with
  | nil => intro c k hk; simp [gCols]; intro h; omega
  | cons g X ih =>
    intro c k hk
    have hg := hX g (by simp)
    have hX' : ∀ g' ∈ X, 1 ≤ g'.width := fun g' h => hX g' (by simp [h])
    have hgc : 0 ≤ gCols X := gCols_nonneg X hX'
    have hgX : gCols (g :: X) = g.width + gCols X := rfl
    rw [hgX, List.cons_append]
    by_cases h2 : k < c + g.width
    · rw [if_pos (by omega), colGlyph_cons_first _ _ _ _ hk h2, colGlyph_cons_first _ _ _ _ hk h2]
    · rw [colGlyph_cons_skip _ _ _ _ hg (by omega), ih hX' (c + g.width) k (by omega)]
      by_cases h3 : k < c + g.width + gCols X
      · rw [if_pos h3, if_pos (by omega), colGlyph_cons_skip _ _ _ _ hg (by omega)]
      · rw [if_neg h3, if_neg (by omega)]
        congr 1
        omega

theorem colGlyph_bounds (gs : List Grapheme) (hpos : ∀ g ∈ gs, 1 ≤ g.width) : ∀ (c k : Int) (g : Glyph) (c0 w : Int),
    colGlyph gs c k = some (g, c0, w) → c ≤ c0 ∧ c0 ≤ k ∧ k < c0 + w ∧ c0 + w ≤ c + gCols gs := by
  induction gs with
  | nil => intro c k g c0 w h; simp [colGlyph] at h
  | cons g0 gs ih =>
    intro c k g c0 w h
    have hg := hpos g0 (by simp)
    have hrest := gCols_nonneg gs (fun g' h' => hpos g' (by simp [h']))
    simp only [colGlyph, gCols] at h ⊢
    by_cases h0 : k < c
    · rw [if_pos h0] at h; cases h
    · rw [if_neg h0] at h
      by_cases h1 : k = c
      · rw [if_pos h1] at h
        simp only [Option.some.injEq, Prod.mk.injEq] at h
        obtain ⟨_, hc0, hw⟩ := h
        omega
      · rw [if_neg h1] at h
        by_cases h2 : k < c + g0.width
        · rw [if_pos h2] at h
          simp only [Option.some.injEq, Prod.mk.injEq] at h
          obtain ⟨_, hc0, hw⟩ := h
          omega
        · rw [if_neg h2] at h
          have := ih (fun g' h' => hpos g' (by simp [h'])) (c + g0.width) k g c0 w h
          omega

theorem colGlyph_shift (gs : List Grapheme) (δ : Int) : ∀ (c k : Int),
    colGlyph gs (c + δ) (k + δ) = (colGlyph gs c k).map fun x => (x.1, x.2.1 + δ, x.2.2) := by
  induction gs with
  | nil => intro c k; rfl
  | cons g gs ih =>
    intro c k
    simp only [colGlyph]
    by_cases h0 : k < c
    · rw [if_pos h0, if_pos (by omega)]; rfl
    · rw [if_neg h0, if_neg (by omega)]
      by_cases h1 : k = c
      · rw [if_pos h1, if_pos (by omega)]; rfl
      · rw [if_neg h1, if_neg (by omega)]
        by_cases h2 : k < c + g.width
        · rw [if_pos h2, if_pos (by omega)]; rfl
        · rw [if_neg h2, if_neg (by omega)]
          rw [show c + δ + g.width = c + g.width + δ by omega]
          exact ih (c + g.width) k

theorem colGlyph_isSome (gs : List Grapheme) (hpos : ∀ g ∈ gs, 1 ≤ g.width) : ∀ (c k : Int),
    c ≤ k → k < c + gCols gs → ∃ x, colGlyph gs c k = some x := by
  induction gs with
  | nil => intro c k h1 h2; simp [gCols] at h2; omega
  | cons g gs ih =>
    intro c k h1 h2
    simp only [colGlyph, gCols] at h2 ⊢
    rw [if_neg (by omega)]
    by_cases hk : k = c
    · rw [if_pos hk]; exact ⟨_, rfl⟩
    · rw [if_neg hk]
      by_cases hk2 : k < c + g.width
      · rw [if_pos hk2]; exact ⟨_, rfl⟩
      · rw [if_neg hk2]
        exact ih (fun g' h' => hpos g' (by simp [h'])) (c + g.width) k (by omega) (by omega)

/-! ## The terminal's rendering of a printed slice -/

/-- The grapheme `g` is the last thing on the terminal: its cells end at the cursor and `last` points at its first. -/
structure CurInv (t : GridTerm) (line : Int) (g : Grapheme) : Prop where
  line_eq : t.line = line
  last : t.last = some (line, t.col - g.width)
  wpos : 1 ≤ g.width
  head : (t.cells line (t.col - g.width)).glyph = .chars g.bytes
  tail : ∀ k, t.col - g.width < k → k < t.col → (t.cells line k).glyph = .wcont
  pen : ∀ k, t.col - g.width ≤ k → k < t.col → (t.cells line k).pen = t.pen

theorem chCols_nonneg (cs : List Ch) (hw : ∀ c ∈ cs, 0 ≤ c.width) : 0 ≤ chCols cs := by
  induction cs with
  | nil => simp [chCols]
  | cons c cs ih =>
    have := hw c (by simp)
    have := ih (fun c' h => hw c' (by simp [h]))
    simp only [chCols]; omega

theorem addZeroWidth_eq (t : GridTerm) (bs : List UInt8) (line c0 : Int) (g : List UInt8)
    (hl : t.last = some (line, c0)) (hg : (t.cells line c0).glyph = .chars g) :
    (t.addZeroWidth bs).cells line c0 = { t.cells line c0 with glyph := .chars (g ++ bs) } ∧
    (∀ l c, ¬ (l = line ∧ c = c0) → (t.addZeroWidth bs).cells l c = t.cells l c) ∧
    (t.addZeroWidth bs).line = t.line ∧ (t.addZeroWidth bs).col = t.col ∧ (t.addZeroWidth bs).pen = t.pen ∧
    (t.addZeroWidth bs).last = t.last := by
  unfold GridTerm.addZeroWidth
  rw [hl]
  refine ⟨?_, ?_, rfl, rfl, rfl, by simp [hl]⟩
  · simp only [and_self, if_true]
    rw [hg]
  · intro l c h
    simp only
    rw [if_neg h]

theorem putChs_cons (t : GridTerm) (c : Ch) (cs : List Ch) : t.putChs (c :: cs) = (t.putCh c).putChs cs := rfl

/-- Printing characters after a grapheme that is already on the terminal: the cells from the start of that grapheme to
    the cursor show the graphemes of the characters, column by column. -/
theorem putChs_gs (cs : List Ch) (hw : ∀ c ∈ cs, 0 ≤ c.width) :
    ∀ (t : GridTerm) (line : Int) (g : Grapheme), CurInv t line g →
      (t.putChs cs).line = line ∧
      (t.putChs cs).col = t.col - g.width + gCols (graphemesAux cs (some g)) ∧
      (t.putChs cs).pen = t.pen ∧
      (∀ l k, ¬ (l = line ∧ t.col - g.width ≤ k ∧ k < (t.putChs cs).col) → (t.putChs cs).cells l k = t.cells l k) ∧
      (∀ k, t.col - g.width ≤ k → k < (t.putChs cs).col →
        ∃ x, colGlyph (graphemesAux cs (some g)) (t.col - g.width) k = some x ∧
          ((t.putChs cs).cells line k).glyph = x.1 ∧ ((t.putChs cs).cells line k).pen = t.pen ∧
          ((t.putChs cs).cells line k).writes = (t.cells line k).writes + (if k < t.col then 0 else 1)) := by
  induction cs with
  | nil =>
    intro t line g hi
    have hp : t.putChs [] = t := rfl
    have hgs : graphemesAux [] (some g) = [g] := rfl
    rw [hp, hgs]
    refine ⟨hi.line_eq, by simp only [gCols]; omega, rfl, fun _ _ _ => rfl, ?_⟩
    intro k h1 h2
    refine ⟨_, colGlyph_cons_first g [] _ k h1 (by omega), ?_, hi.pen k h1 h2, by rw [if_pos h2]; omega⟩
    simp only
    by_cases hk : k = t.col - g.width
    · rw [if_pos hk, hk]; exact hi.head
    · rw [if_neg hk]; exact hi.tail k (by omega) h2
  | cons c cs ih =>
    intro t line g hi
    have hc0 : 0 ≤ c.width := hw c (by simp)
    have hw' : ∀ c' ∈ cs, 0 ≤ c'.width := fun c' h => hw c' (by simp [h])
    have hwp := hi.wpos
    rw [putChs_cons]
    by_cases hc : c.width = 0
    · -- a zero-width character joins the grapheme
      obtain ⟨e0, e1, e2, e3, e4, e5⟩ := addZeroWidth_eq t c.bytes line (t.col - g.width) g.bytes hi.last hi.head
      have hput : t.putCh c = t.addZeroWidth c.bytes := by simp [GridTerm.putCh, hc]
      rw [hput, graphemesAux_cons_zero _ _ _ hc]
      have hi' : CurInv (t.addZeroWidth c.bytes) line { g with bytes := g.bytes ++ c.bytes } := by
        refine ⟨by rw [e2]; exact hi.line_eq, by rw [e5, e3]; exact hi.last, hwp, ?_, ?_, ?_⟩
        · rw [e3]; simp only; rw [e0]
        · intro k h1 h2
          rw [e3] at h1 h2
          simp only at h1
          rw [e1 line k (by omega)]
          exact hi.tail k h1 h2
        · intro k h1 h2
          rw [e3] at h1 h2
          simp only at h1
          rw [e4]
          by_cases hk : k = t.col - g.width
          · rw [hk, e0]; exact hi.pen _ (by omega) (by omega)
          · rw [e1 line k (by omega)]; exact hi.pen k h1 h2
      obtain ⟨r1, r2, r3, r4, r5⟩ := ih hw' (t.addZeroWidth c.bytes) line _ hi'
      simp only at r2 r4 r5
      rw [e3] at r2 r4 r5
      rw [e4] at r3 r5
      have hge : t.col - g.width + 1 ≤ ((t.addZeroWidth c.bytes).putChs cs).col := by
        rw [r2, gCols_graphemesAux]
        have := chCols_nonneg cs hw'
        simp only [Option.toList_some, gCols]
        omega
      refine ⟨r1, r2, r3, ?_, ?_⟩
      · intro l k hn
        rw [r4 l k hn, e1 l k (by omega)]
      · intro k h1 h2
        obtain ⟨x, x1, x2, x3, x4⟩ := r5 k h1 h2
        refine ⟨x, x1, x2, x3, ?_⟩
        rw [x4]
        by_cases hk : k = t.col - g.width
        · rw [hk, e0]
        · rw [e1 line k (by omega)]
    · -- a character of width > 0 starts the next grapheme at the cursor
      have hput : t.putCh c = t.putGlyph c.bytes c.width := by simp [GridTerm.putCh, hc]
      rw [hput, graphemesAux_cons_base _ _ _ hc]
      have p1 : (t.putGlyph c.bytes c.width).line = t.line := rfl
      have p2 : (t.putGlyph c.bytes c.width).col = t.col + c.width := rfl
      have p3 : (t.putGlyph c.bytes c.width).pen = t.pen := rfl
      have p4 : (t.putGlyph c.bytes c.width).last = some (t.line, t.col) := rfl
      have p5 : ∀ l k, (t.putGlyph c.bytes c.width).cells l k =
          if l = t.line ∧ t.col ≤ k ∧ k < t.col + c.width then
            { glyph := if k = t.col then .chars c.bytes else .wcont, pen := t.pen, writes := (t.cells l k).writes + 1 }
          else t.cells l k := fun _ _ => rfl
      have hl := hi.line_eq
      have hi' : CurInv (t.putGlyph c.bytes c.width) line ⟨c.bytes, c.width⟩ := by
        refine ⟨by rw [p1]; exact hl, by rw [p4, p2, hl]; simp, by simp only; omega, ?_, ?_, ?_⟩
        · rw [p2, p5]; simp only
          rw [if_pos (by omega)]; simp
        · intro k h1 h2
          rw [p2] at h1 h2; simp only at h1
          rw [p5, if_pos (by omega)]; simp only
          rw [if_neg (by omega)]
        · intro k h1 h2
          rw [p2] at h1 h2; simp only at h1
          rw [p5, if_pos (by omega), p3]
      obtain ⟨r1, r2, r3, r4, r5⟩ := ih hw' (t.putGlyph c.bytes c.width) line _ hi'
      simp only at r2 r4 r5
      have hcol1 : (t.putGlyph c.bytes c.width).col - c.width = t.col := by rw [p2]; omega
      rw [hcol1] at r2 r4 r5
      rw [p3] at r3 r5
      have hgs2 : c.width ≤ gCols (graphemesAux cs (some ⟨c.bytes, c.width⟩)) := by
        rw [gCols_graphemesAux]
        have := chCols_nonneg cs hw'
        simp only [Option.toList_some, gCols]
        omega
      simp only [Option.toList_some, List.singleton_append, gCols]
      refine ⟨r1, by rw [r2]; omega, r3, ?_, ?_⟩
      · intro l k hn
        rw [r4 l k (fun h => hn ⟨h.1, by omega, h.2.2⟩), p5,
          if_neg (fun h => hn ⟨by rw [h.1, hl], by omega, by rw [r2]; omega⟩)]
      · intro k h1 h2
        by_cases hk : k < t.col
        · refine ⟨_, colGlyph_cons_first g _ _ k h1 (by omega), ?_, ?_, ?_⟩
          · rw [r4 line k (by omega), p5, if_neg (by omega)]
            simp only
            by_cases hk0 : k = t.col - g.width
            · rw [if_pos hk0, hk0]; exact hi.head
            · rw [if_neg hk0]; exact hi.tail k (by omega) hk
          · rw [r4 line k (by omega), p5, if_neg (by omega)]
            exact hi.pen k h1 hk
          · rw [r4 line k (by omega), p5, if_neg (by omega), if_pos hk]; omega
        · obtain ⟨x, x1, x2, x3, x4⟩ := r5 k (by omega) h2
          refine ⟨x, ?_, x2, x3, ?_⟩
          · rw [colGlyph_cons_skip g _ _ k hwp (by omega), show t.col - g.width + g.width = t.col by omega]
            exact x1
          · rw [x4, p5, if_neg hk, p2]
            by_cases hk2 : k < t.col + c.width
            · rw [if_pos (by omega), if_pos hk2]
            · rw [if_neg (by omega), if_neg hk2]

end Tickit.RBFlush
