import Tickit.Proof.WinInputSimOps
/-
  `tickit_window_take_focus` on a window of `A`, when `A` is a union of whole top-level subtrees and the root's focus
  pointer points into `A` (or nowhere): the focus pointers that change belong to windows of `A` — or to the root, whose
  pointer moves within `A`.  (C14, delivery under mutation.)
-/
namespace Tickit
namespace WinInput
open WinTree

/-- The parent of a live window of `A` is in `A` or is the root window. -/
def TopNow (A : Aff) (t : Tree) : Prop :=
  ∀ (x : WinTree.Id) (w : Win), A x = true → t.wins[x]? = some w → w.freed = false → ∀ p, w.parent = some p → A p = true ∨ p = 0

/-- The root window's focus pointer points into `A` (or nowhere). -/
def RootFc (A : Aff) (t : Tree) : Prop :=
  ∀ (w : Win) (fc : WinTree.Id), t.wins[0]? = some w → w.focusedChild = some fc → A fc = true

/-- The root window has no parent. -/
def RootTop (t : Tree) : Prop := ∀ (w : Win), t.wins[0]? = some w → w.parent = none

/-- Only focus flags and focus pointers changed; the pointers of windows outside `A` as `FcRel` allows. -/
structure FocusOnly (A : Aff) (t t' : Tree) : Prop where
  size : t'.wins.size = t.wins.size
  win : ∀ (x : WinTree.Id) (w : Win), t.wins[x]? = some w → ∃ w', t'.wins[x]? = some w' ∧ w'.parent = w.parent ∧
    w'.children = w.children ∧ w'.freed = w.freed ∧ w'.isVisible = w.isVisible ∧ w'.stealInput = w.stealInput ∧
    w'.rect = w.rect ∧ (A x = false → FcRel A w'.focusedChild w.focusedChild)

theorem FocusOnly.refl (A : Aff) (t : Tree) : FocusOnly A t t :=
  ⟨rfl, fun _ w hw => ⟨w, hw, rfl, rfl, rfl, rfl, rfl, rfl, fun _ => FcRel.refl A _⟩⟩

theorem FocusOnly.trans {A : Aff} {a b c : Tree} (h1 : FocusOnly A a b) (h2 : FocusOnly A b c) : FocusOnly A a c := by
  refine ⟨h2.size.trans h1.size, ?_⟩
  intro x w hw
  obtain ⟨w1, hw1, p1, c1, f1, v1, s1, r1, fc1⟩ := h1.win x w hw
  obtain ⟨w2, hw2, p2, c2, f2, v2, s2, r2, fc2⟩ := h2.win x w1 hw1
  exact ⟨w2, hw2, p2.trans p1, c2.trans c1, f2.trans f1, v2.trans v1, s2.trans s1, r2.trans r1,
    fun hx => (fc2 hx).trans (fc1 hx)⟩

theorem FocusOnly.of_wins {A : Aff} {t t' : Tree} (h : t'.wins = t.wins) : FocusOnly A t t' :=
  ⟨by rw [h], fun _ w hw => ⟨w, by rw [h]; exact hw, rfl, rfl, rfl, rfl, rfl, rfl, fun _ => FcRel.refl A _⟩⟩

theorem FocusOnly.set {A : Aff} {t : Tree} {i : WinTree.Id} {w w' : Win} (hw : t.wins[i]? = some w) (hp : w'.parent = w.parent)
    (hc : w'.children = w.children) (hf : w'.freed = w.freed) (hv : w'.isVisible = w.isVisible)
    (hs : w'.stealInput = w.stealInput) (hr : w'.rect = w.rect) (hfc : A i = false → FcRel A w'.focusedChild w.focusedChild) :
    FocusOnly A t (WinTree.set t i w') := by
  refine ⟨by simp, ?_⟩
  intro x y hy
  by_cases hix : i = x
  · subst hix
    rw [hw] at hy; cases hy
    exact ⟨w', wins_set_self hw, hp, hc, hf, hv, hs, hr, hfc⟩
  · exact ⟨y, by rw [wins_set_ne hix]; exact hy, rfl, rfl, rfl, rfl, rfl, rfl, fun _ => FcRel.refl A _⟩

theorem FocusOnly.sim {A : Aff} {t t' : Tree} (h : FocusOnly A t t') (hd : Down A t) : Sim A t t' := by
  refine ⟨h.size, ?_, ?_⟩
  · intro x w0 hx hw0
    obtain ⟨w', hw', p, c, f, v, s, r, fc⟩ := h.win x w0 hw0
    exact ⟨w', hw', f, v, s, p, r, by rw [c]; exact Kids.refl A _, fc hx⟩
  · intro x w' hx hw' c hc
    have hlt : x < t'.wins.size := (Array.getElem?_eq_some_iff.1 hw').1
    rw [h.size] at hlt
    obtain ⟨w'', hw'', _, cc, _⟩ := h.win x _ (Array.getElem?_eq_getElem hlt)
    rw [hw'] at hw''; cases hw''
    exact hd x _ hx (Array.getElem?_eq_getElem hlt) c (by rw [← cc]; exact hc)

theorem FocusOnly.topNow {A : Aff} {t t' : Tree} (h : FocusOnly A t t') (ht : TopNow A t) : TopNow A t' := by
  intro x w' hx hw' hf' p hp
  have hlt : x < t'.wins.size := (Array.getElem?_eq_some_iff.1 hw').1
  rw [h.size] at hlt
  obtain ⟨w'', hw'', pp, _, ff, _⟩ := h.win x _ (Array.getElem?_eq_getElem hlt)
  rw [hw'] at hw''; cases hw''
  exact ht x _ hx (Array.getElem?_eq_getElem hlt) (by rw [← ff]; exact hf') p (by rw [← pp]; exact hp)

theorem FocusOnly.rootFc {A : Aff} {t t' : Tree} (h : FocusOnly A t t') (h0 : A 0 = false) (hr : RootFc A t) : RootFc A t' := by
  intro w' fc hw' hfc
  have hlt : 0 < t'.wins.size := (Array.getElem?_eq_some_iff.1 hw').1
  rw [h.size] at hlt
  obtain ⟨w'', hw'', _, _, _, _, _, _, rel⟩ := h.win 0 _ (Array.getElem?_eq_getElem hlt)
  rw [hw'] at hw''; cases hw''
  rcases rel h0 with e | ⟨p, _⟩
  · exact hr _ fc (Array.getElem?_eq_getElem hlt) (by rw [← e]; exact hfc)
  · exact p fc hfc

theorem FocusOnly.rootTop {A : Aff} {t t' : Tree} (h : FocusOnly A t t') (hr : RootTop t) : RootTop t' := by
  intro w' hw'
  have hlt : 0 < t'.wins.size := (Array.getElem?_eq_some_iff.1 hw').1
  rw [h.size] at hlt
  obtain ⟨w'', hw'', pp, _⟩ := h.win 0 _ (Array.getElem?_eq_getElem hlt)
  rw [hw'] at hw''; cases hw''
  rw [pp]; exact hr _ (Array.getElem?_eq_getElem hlt)

/-! ### `_focus_lost` and `_focus_gained` -/

theorem flTail_focusOnly {A : Aff} {t t' : Tree} {win : WinTree.Id} (h : flTail win t = Res.ok t') : FocusOnly A t t' := by
  unfold flTail at h
  obtain ⟨w, hg, h⟩ := res_bind_eq_ok.1 h
  obtain ⟨hw, _⟩ := get_eq_ok.1 hg
  simp only [res_pure, Res.ok.injEq] at h
  subst h
  split
  · exact FocusOnly.set hw rfl rfl rfl rfl rfl rfl (fun _ => FcRel.refl A _)
  · exact FocusOnly.refl A t

theorem focusLost_focusOnly {A : Aff} : ∀ (f : Nat) (t t' : Tree) (win : WinTree.Id), focusLost f t win = Res.ok t' →
    FocusOnly A t t' := by
  intro f
  induction f with
  | zero => intro t t' win h; simp [focusLost] at h
  | succ f ih =>
    intro t t' win h
    unfold focusLost at h
    obtain ⟨w, hg, h⟩ := res_bind_eq_ok.1 h
    cases hfc : w.focusedChild with
    | none =>
      simp only [hfc, res_pure, res_bind_ok] at h
      exact flTail_focusOnly h
    | some fc =>
      simp only [hfc] at h
      obtain ⟨t1, h1, h⟩ := res_bind_eq_ok.1 h
      exact (ih t t1 fc h1).trans (flTail_focusOnly h)

theorem fgFinal_focusOnly {A : Aff} {t t' : Tree} {win : WinTree.Id} {child : Option WinTree.Id} (h0 : A 0 = false)
    (hr : RootFc A t) (hwin : A win = true ∨ win = 0) (hch : ∀ c, child = some c → A c = true)
    (h : fgFinal win child t = Res.ok t') : FocusOnly A t t' := by
  unfold fgFinal at h
  obtain ⟨w, hg, h⟩ := res_bind_eq_ok.1 h
  obtain ⟨hw, _⟩ := get_eq_ok.1 hg
  simp only [res_pure, Res.ok.injEq] at h
  subst h
  have fc : A win = false → FcRel A child w.focusedChild := by
    intro hA
    rcases hwin with hA' | rfl
    · rw [hA'] at hA; cases hA
    · exact Or.inr ⟨hch, fun x hx => hr w x hw hx⟩
  split
  · exact FocusOnly.set hw rfl rfl rfl rfl rfl rfl fc
  · exact FocusOnly.set hw rfl rfl rfl rfl rfl rfl fc

def FgRecFocus (A : Aff) (rec : Tree → WinTree.Id → Option WinTree.Id → Res Tree) : Prop :=
  ∀ (t t' : Tree) (win : WinTree.Id) (child : Option WinTree.Id), TopNow A t → RootFc A t → RootTop t → (A win = true ∨ win = 0) →
    (∀ c, child = some c → A c = true) → rec t win child = Res.ok t' → FocusOnly A t t'

theorem fgMid_focusOnly {A : Aff} (h0 : A 0 = false) {rec : Tree → WinTree.Id → Option WinTree.Id → Res Tree}
    (hrec : FgRecFocus A rec) (f : Nat) {t t' : Tree} {win : WinTree.Id} {child : Option WinTree.Id} (ht : TopNow A t)
    (hr : RootFc A t) (hrt : RootTop t) (hwin : A win = true ∨ win = 0) (hch : ∀ c, child = some c → A c = true)
    (h : fgMid rec f win child t = Res.ok t') : FocusOnly A t t' := by
  unfold fgMid at h
  obtain ⟨w1, hg1, h⟩ := res_bind_eq_ok.1 h
  obtain ⟨hw1, hf1⟩ := get_eq_ok.1 hg1
  -- a focused ancestor loses `is_focused`
  have step2 : ∃ t2, (if (child.isSome && w1.isFocused) = true then WinTree.set t win { w1 with isFocused := false } else t) = t2 ∧
      FocusOnly A t t2 := by
    split
    · exact ⟨_, rfl, FocusOnly.set hw1 rfl rfl rfl rfl rfl rfl (fun _ => FcRel.refl A _)⟩
    · exact ⟨_, rfl, FocusOnly.refl A t⟩
  obtain ⟨t2, e2, fo2⟩ := step2
  simp only [e2] at h
  obtain ⟨w2, hg2, h⟩ := res_bind_eq_ok.1 h
  obtain ⟨hw2, hf2⟩ := get_eq_ok.1 hg2
  have ht2 := fo2.topNow ht
  have hr2 := fo2.rootFc h0 hr
  have hrt2 := fo2.rootTop hrt
  have fin : ∀ t3, FocusOnly A t2 t3 → fgFinal win child t3 = Res.ok t' → FocusOnly A t t' := by
    intro t3 fo3 hfin
    exact (fo2.trans fo3).trans (fgFinal_focusOnly h0 (fo3.rootFc h0 hr2) hwin hch hfin)
  cases hp : w2.parent with
  | some p =>
    simp only [hp] at h
    by_cases hv : w2.isVisible = true
    · simp only [hv, if_true] at h
      obtain ⟨t3, h3, h⟩ := res_bind_eq_ok.1 h
      have hA : A win = true := by
        rcases hwin with hA | rfl
        · exact hA
        · rw [hrt2 w2 hw2] at hp; cases hp
      exact fin t3 (hrec t2 t3 p (some win) ht2 hr2 hrt2 (ht2 win w2 hA hw2 hf2 p hp) (fun c hc => by cases hc; exact hA) h3) h
    · simp only [hv, Bool.false_eq_true, if_false, res_pure, res_bind_ok] at h
      exact fin t2 (FocusOnly.refl A t2) h
  | none =>
    simp only [hp] at h
    obtain ⟨_, _, h⟩ := res_bind_eq_ok.1 h
    simp only [res_pure, res_bind_ok] at h
    exact fin { t2 with root := { t2.root with needsRestore := true, needsLater := true } } (FocusOnly.of_wins rfl) h

theorem focusGained_focusOnly {A : Aff} (h0 : A 0 = false) : ∀ (f : Nat), FgRecFocus A (focusGained f) := by
  intro f
  induction f with
  | zero => intro t t' win child _ _ _ _ _ h; simp [focusGained] at h
  | succ f ih =>
    intro t t' win child ht hr hrt hwin hch h
    unfold focusGained at h
    obtain ⟨w, hg, h⟩ := res_bind_eq_ok.1 h
    have same : ∀ t1, FocusOnly A t t1 → fgMid (focusGained f) f win child t1 = Res.ok t' → FocusOnly A t t' := by
      intro t1 fo1 hm
      exact fo1.trans (fgMid_focusOnly h0 ih f (fo1.topNow ht) (fo1.rootFc h0 hr) (fo1.rootTop hrt) hwin hch hm)
    cases hfc : w.focusedChild with
    | none =>
      simp only [hfc, res_pure, res_bind_ok] at h
      exact same t (FocusOnly.refl A t) h
    | some fc =>
      simp only [hfc] at h
      by_cases hne : some fc ≠ child
      · simp only [hne, ne_eq, not_false_eq_true, if_true] at h
        obtain ⟨t1, h1, h⟩ := res_bind_eq_ok.1 h
        exact same t1 (focusLost_focusOnly _ _ _ _ h1) h
      · simp only [hne, if_false, res_pure, res_bind_ok] at h
        exact same t (FocusOnly.refl A t) h

/-- `tickit_window_take_focus` on a window of `A`. -/
theorem takeFocus_sim {A : Aff} {t t' : Tree} {win : WinTree.Id} (h0 : A 0 = false) (hd : Down A t) (ht : TopNow A t)
    (hr : RootFc A t) (hrt : RootTop t) (hA : A win = true) (h : takeFocus t win = Res.ok t') : Sim A t t' :=
  (focusGained_focusOnly h0 _ t t' win none ht hr hrt (Or.inl hA) (fun c hc => by cases hc) h).sim hd

end WinInput
end Tickit
