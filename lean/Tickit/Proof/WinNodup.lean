import Tickit.Proof.WinScrollStep
import Tickit.Proof.WinHanded
/-
  In every reachable store no window occurs twice in the traversal from the root (`visitIds`): the hypothesis of C02's
  `handed_rects_disjoint` is an invariant.  From `TreeOk` (a child's parent pointer names the window that lists it, child
  lists without repetition), `Ordered` and `ParentListed`.
-/
namespace Tickit
namespace WinFlush
open WinTree WinRB WinSpec

theorem visit_anc (t : Tree) (hwf : WFp t) : ∀ (n : Nat) (a x : Id), x ∈ visitIds t n a → Anc t a x := by
  intro n
  induction n with
  | zero => intro a x h; simp [visitIds] at h
  | succ m ih =>
    intro a x h
    simp only [visitIds, List.mem_cons] at h
    rcases h with rfl | h
    · exact Anc.refl _
    · cases hw : t.wins[a]? with
      | none => rw [hw] at h; cases h
      | some w =>
        rw [hw] at h
        simp only [List.mem_flatMap] at h
        obtain ⟨ch, hch, hx⟩ := h
        obtain ⟨cw, hcw, hcp, _⟩ := hwf.child a w hw ch hch
        exact (ih ch x hx).parent_up hcw hcp

theorem visitIds_nodup (t : Tree) (hok : TreeOk t) (ho : Ordered t) (hpl : ParentListed t) :
    ∀ (n : Nat) (a : Id), (visitIds t n a).Nodup := by
  intro n
  induction n with
  | zero => intro a; simp [visitIds]
  | succ m ih =>
    intro a
    simp only [visitIds]
    cases hw : t.wins[a]? with
    | none => simp
    | some w =>
      simp only
      refine List.nodup_cons.2 ⟨?_, ?_⟩
      · intro hm
        obtain ⟨ch, hch, hx⟩ := List.mem_flatMap.1 hm
        have h1 := anc_le t ho hpl (visit_anc t hok.wf m ch a hx)
        have h2 : @LT.lt Nat _ a ch := ho a w hw ch hch
        omega
      · show List.Pairwise (· ≠ ·) _
        rw [List.pairwise_flatMap]
        refine ⟨fun ch _ => ih ch, ?_⟩
        refine List.Pairwise.imp_of_mem ?_ (hok.nodup a w hw)
        intro c1 c2 hc1 hc2 hne x hx1 y hx2 hxy
        subst hxy
        obtain ⟨w1, hw1, hp1, _⟩ := hok.wf.child a w hw c1 hc1
        obtain ⟨w2, hw2, hp2, _⟩ := hok.wf.child a w hw c2 hc2
        exact hne (anc_unique t ho hpl (visit_anc t hok.wf m c1 x hx1) (visit_anc t hok.wf m c2 x hx2) hw1 hw2 hp1 hp2)

/-- A flush is nothing at all, or the queue loop followed by the rendering of a tree that satisfies the invariants. -/
theorem flush_decompose (beh : Id → Rect → List DrawOp) (content : Id → Int → Int → Cell) (st st' : St) (shots : List Shot)
    (h : WinFlush.flush beh st = .ok (st', shots)) (hg : GoodQ content st) :
    shots = [] ∨ ∃ t, flushRender beh st t = .ok (st', shots) ∧ TInv content st.screen t := by
  have hI := hg.tinv
  obtain ⟨root, hr, hf, hrr, hrp, _, _⟩ := hI.ok.rootWin.ex
  unfold WinFlush.flush at h
  have hget : WinTree.get st.tree 0 = .ok root := by
    unfold WinTree.get; rw [hr]; simp [hf]
  rw [hget] at h
  simp only [bind, Bind.bind, hrp, Option.isSome_none] at h
  cases hnl : st.tree.root.needsLater with
  | false =>
    simp only [hnl, pure, Pure.pure] at h
    simp at h
    exact Or.inl h.2
  | true =>
    simp only [hnl, Bool.false_eq_true, if_false, Bool.not_true] at h
    right
    generalize ht0 : ({ st.tree with root := { st.tree.root with needsLater := false, changes := [] } } : Tree) = t0
    have hfq : flushQueue st = applyChanges (t0.wins.size + 1) t0 st.tree.root.changes := by
      unfold flushQueue
      rw [← ht0]
      rfl
    have h0w : t0.wins = st.tree.wins := by rw [← ht0]
    have h0d : t0.root.damage = st.tree.root.damage := by rw [← ht0]
    have hcore0 : ∀ x : Id, (t0.wins[x]?).map core = (st.tree.wins[x]?).map core := by intro x; rw [h0w]
    have hI0 : TInv content st.screen t0 :=
      ⟨treeOk_congr_core hcore0 hI.ok, ordered_congr h0w hI.ord, rootOk_congr_core (hcore0 0) hI.root,
        rootsPositive_congr_core hcore0 hI.pos, by rw [h0d]; exact hI.nonempty, by rw [h0d]; exact hI.dinv, by
          intro L C w l c ho
          rw [ownerAt_congr t0 st.tree h0w] at ho
          rw [h0d]
          exact hI.inv L C w l c ho⟩
    cases hq : flushQueue st with
    | ub e => rw [hq] at h; cases h
    | ok t =>
      rw [hq] at h
      simp only at h
      rw [hfq] at hq
      obtain ⟨a1, _⟩ := applyChanges_step content st.screen st.tree.root.changes t0 t hg.queue hI0 hq
      exact ⟨t, h, a1⟩

end WinFlush
end Tickit
