import Tickit.Proof.WinScrollStep
import Tickit.Proof.WinHanded
/-
  In every reachable store no window occurs twice in the traversal from the root (`visitIds`): the hypothesis of C02's
  `handed_rects_disjoint` is an invariant.  From `TreeOk` (a child's parent pointer names the window that lists it, child
  lists without repetition), `Ordered` and `ParentListed`.
-/
namespace Tickit
namespace WinFlush
open WinTree WinRB WinSpec

theorem visit_anc (t : Tree) (hwf : WFp t) : ∀ (n : Nat) (a x : Id), x ∈ visitIds t n a → Anc t a x := by
  intro n
  induction n with
  | zero => intro a x h; simp [visitIds] at h
  | succ m ih =>
    intro a x h
    simp only [visitIds, List.mem_cons] at h
    rcases h with rfl | h
    · exact Anc.refl _
    · cases hw : t.wins[a]? with
      | none => rw [hw] at h; cases h
      | some w =>
        rw [hw] at h
        simp only [List.mem_flatMap] at h
        obtain ⟨ch, hch, hx⟩ := h
        obtain ⟨cw, hcw, hcp, _⟩ := hwf.child a w hw ch hch
        exact (ih ch x hx).parent_up hcw hcp

theorem visitIds_nodup (t : Tree) (hok : TreeOk t) (ho : Ordered t) (hpl : ParentListed t) :
    ∀ (n : Nat) (a : Id), (visitIds t n a).Nodup := by
  intro n
  induction n with
  | zero => intro a; simp [visitIds]
  | succ m ih =>
    intro a
    simp only [visitIds]
    cases hw : t.wins[a]? with
    | none => simp
    | some w =>
      simp only
      refine List.nodup_cons.2 ⟨?_, ?_⟩
      · intro hm
        obtain ⟨ch, hch, hx⟩ := List.mem_flatMap.1 hm
        have h1 := anc_le t ho hpl (visit_anc t hok.wf m ch a hx)
        have h2 : @LT.lt Nat _ a ch := ho a w hw ch hch
        omega
      · show List.Pairwise (· ≠ ·) _
        rw [List.pairwise_flatMap]
        refine ⟨fun ch _ => ih ch, ?_⟩
        refine List.Pairwise.imp_of_mem ?_ (hok.nodup a w hw)
        intro c1 c2 hc1 hc2 hne x hx1 y hx2 hxy
        subst hxy
        obtain ⟨w1, hw1, hp1, _⟩ := hok.wf.child a w hw c1 hc1
        obtain ⟨w2, hw2, hp2, _⟩ := hok.wf.child a w hw c2 hc2
        exact hne (anc_unique t ho hpl (visit_anc t hok.wf m c1 x hx1) (visit_anc t hok.wf m c2 x hx2) hw1 hw2 hp1 hp2)

/-- A flush is nothing at all, or the queue loop followed by the rendering of a tree that satisfies the invariants. -/
theorem flush_decompose (beh : Id → Rect → List DrawOp) (content : Id → Int → Int → Cell) (st st' : St) (shots : List Shot)
    (h : WinFlush.flush beh st = .ok (st', shots)) (hg : GoodQ content st) :
    (st' = st ∧ shots = []) ∨
      ∃ t, flushRender beh st t = .ok (st', shots) ∧ TInv content st.screen t ∧ t.wins.size = st.tree.wins.size := by
  have hI := hg.tinv
  obtain ⟨root, hr, hf, hrr, hrp, _, _⟩ := hI.ok.rootWin.ex
  unfold WinFlush.flush at h
  have hget : WinTree.get st.tree 0 = .ok root := by
    unfold WinTree.get; rw [hr]; simp [hf]
  rw [hget] at h
  simp only [bind, Bind.bind, hrp, Option.isSome_none] at h
  cases hnl : st.tree.root.needsLater with
  | false =>
    simp only [hnl, pure, Pure.pure] at h
    simp at h
    exact Or.inl ⟨h.1.symm, h.2⟩
  | true =>
    simp only [hnl, Bool.false_eq_true, if_false, Bool.not_true] at h
    right
    generalize ht0 : ({ st.tree with root := { st.tree.root with needsLater := false, changes := [] } } : Tree) = t0
    have hfq : flushQueue st = applyChanges (t0.wins.size + 1) t0 st.tree.root.changes := by
      unfold flushQueue
      rw [← ht0]
      rfl
    have h0w : t0.wins = st.tree.wins := by rw [← ht0]
    have h0d : t0.root.damage = st.tree.root.damage := by rw [← ht0]
    have hcore0 : ∀ x : Id, (t0.wins[x]?).map core = (st.tree.wins[x]?).map core := by intro x; rw [h0w]
    have hI0 : TInv content st.screen t0 :=
      ⟨treeOk_congr_core hcore0 hI.ok, ordered_congr h0w hI.ord,
        rootsPositive_congr_core hcore0 hI.pos, by rw [h0d]; exact hI.nonempty, by rw [h0d]; exact hI.dinv, by
          intro L C w l c ho
          rw [ownerAt_congr t0 st.tree h0w] at ho
          rw [h0d]
          exact hI.inv L C w l c ho⟩
    cases hq : flushQueue st with
    | ub e => rw [hq] at h; cases h
    | ok t =>
      rw [hq] at h
      simp only at h
      rw [hfq] at hq
      obtain ⟨a1, _, a3, _⟩ := applyChanges_step content st.screen st.tree.root.changes t0 t hg.queue hI0 hq
      exact ⟨t, h, a1, by rw [a3, h0w]⟩

/-! ### handlers that call `tickit_window_expose` while the flush runs (`flushX`) -/

theorem applyExposes_good (content : Id → Int → Int → Cell) (st : St) :
    ∀ (l : List (Id × Option Rect)) (t t' : Tree), applyExposes (t.wins.size + 1) t l = .ok t' →
    GoodQ content { st with tree := t } → GoodQ content { st with tree := t' } ∧ t'.wins = t.wins := by
  intro l
  induction l with
  | nil => intro t t' h hg; simp only [applyExposes] at h; cases h; exact ⟨hg, rfl⟩
  | cons x rest ih =>
    intro t t' h hg
    obtain ⟨w, e⟩ := x
    simp only [applyExposes, bind, Bind.bind] at h
    cases he : expose t (t.wins.size + 1) w e with
    | ub err => rw [he] at h; cases h
    | ok t1 =>
      rw [he] at h
      simp only at h
      have hg1 : GoodQ content { st with tree := t1 } := goodQ_expose content { st with tree := t } w e t1 he hg
      have hw1 : t1.wins = t.wins := (expose_wins_root _ t w e t1 he).1
      rw [← hw1] at h
      obtain ⟨a, b⟩ := ih t1 t' h hg1
      exact ⟨a, b.trans hw1⟩

/-- **A flush whose handlers also expose** (`flushX`: the exposes are for the *next* flush): the invariant is kept and the
    screen is exact for the tree as flushed. -/
theorem goodQ_flushX_at (beh : Id → Rect → List DrawOp) (behExp : Id → Rect → List (Id × Option Rect))
    (content : Id → Int → Int → Cell) (st st' : St) (shots : List Shot)
    (h : flushX beh behExp st = .ok (st', shots)) (hrep : ∀ sh ∈ shots, RepaintsAt content beh sh) (hg : GoodQ content st) :
    GoodQ content st' ∧ ExactC content st'.tree st'.screen := by
  unfold flushX at h
  simp only [bind, Bind.bind] at h
  cases hf : WinFlush.flush beh st with
  | ub e => rw [hf] at h; cases h
  | ok r =>
    rw [hf] at h
    simp only at h
    have hrep' : ∀ sh ∈ r.2, RepaintsAt content beh sh := by
      cases ha : applyExposes st.fuel r.1.tree (r.2.flatMap fun sh => behExp sh.win sh.rect) with
      | ub e => rw [ha] at h; cases h
      | ok t' =>
        rw [ha] at h
        simp only [pure, Pure.pure, Res.ok.injEq, Prod.mk.injEq] at h
        rw [h.2]; exact hrep
    obtain ⟨g1, hex, _, _⟩ := goodQ_flush_at beh content st r.1 r.2 hf hrep' hg
    have hsz : r.1.tree.wins.size = st.tree.wins.size := by
      rcases flush_decompose beh content st r.1 r.2 hf hg with ⟨e1, _⟩ | ⟨t, hr, _, hs⟩
      · rw [e1]
      · rw [(flushRender_tree beh st r.1 t r.2 hr).1, hs]
    cases ha : applyExposes st.fuel r.1.tree (r.2.flatMap fun sh => behExp sh.win sh.rect) with
    | ub e => rw [ha] at h; cases h
    | ok t' =>
      rw [ha] at h
      simp only [pure, Pure.pure, Res.ok.injEq, Prod.mk.injEq] at h
      obtain ⟨h1, _⟩ := h
      subst h1
      have ha' : applyExposes (r.1.tree.wins.size + 1) r.1.tree (r.2.flatMap fun sh => behExp sh.win sh.rect) = .ok t' := by
        rw [hsz]; exact ha
      obtain ⟨g2, hw⟩ := applyExposes_good content r.1 _ r.1.tree t' ha' g1
      refine ⟨g2, ?_⟩
      intro L C w l c ho
      rw [ownerAt_congr t' r.1.tree hw] at ho
      exact hex L C w l c ho

theorem goodQ_flushX (beh : Id → Rect → List DrawOp) (behExp : Id → Rect → List (Id × Option Rect))
    (content : Id → Int → Int → Cell) (st st' : St) (shots : List Shot)
    (h : flushX beh behExp st = .ok (st', shots)) (hrep : Repaints content beh) (hg : GoodQ content st) :
    GoodQ content st' ∧ ExactC content st'.tree st'.screen :=
  goodQ_flushX_at beh behExp content st st' shots h (fun sh _ => repaintsAt_of_repaints hrep sh) hg

end WinFlush
end Tickit
