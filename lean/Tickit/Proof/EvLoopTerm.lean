import Tickit.Model.EvLoopTerm
/-
  `tickit_term_observe_sigwinch` next to the default event loop (Model/EvLoopTerm.lean): the function leaves the
  signal mask as it found it; while the loop keeps SIGWINCH blocked (it watches it) and other terminals keep
  observing, a terminal that joins or leaves the observers changes nothing the loop can see.
-/
namespace Tickit.EvLoop

theorem blocked_sigRecord (st : St) (s : Int) : (sigRecord st s).blocked = st.blocked := by
  unfold sigRecord; cases st.observer <;> rfl

theorem blocked_raiseSig (st : St) (s : Int) : (raiseSig st s).blocked = st.blocked := by
  unfold raiseSig
  split
  · rfl
  · split
    · rfl
    · split
      · exact blocked_sigRecord st s
      · split <;> rfl

theorem blocked_restoreFold (l : List Int) : ∀ (st : St),
    (l.foldl (fun st s => raiseSig { st with kpending := setErase s st.kpending } s) st).blocked = st.blocked := by
  induction l with
  | nil => intro st; rfl
  | cons s l ih =>
    intro st
    rw [List.foldl_cons, ih, blocked_raiseSig]

/-- `sigprocmask(SIG_SETMASK, &oldset, NULL)` leaves exactly the old mask. -/
theorem blocked_restoreMask (st : St) (old : List Int) : (restoreMask st old).blocked = old := by
  unfold restoreMask
  rw [blocked_restoreFold]

theorem blocked_termObserveBody (obs : List Nat) (st : St) (tt : Nat) (observe : Bool) :
    (termObserveBody obs st tt observe).2.blocked = st.blocked := by
  unfold termObserveBody
  split
  · dsimp only; split <;> rfl
  · split
    · dsimp only; split <;> rfl
    · rfl

/-- Whatever the observer list, the terminal and the direction: the mask after `tickit_term_observe_sigwinch` is the
    mask before it — a signal the loop keeps blocked outside its wait stays blocked. -/
theorem termObserve_restores_mask (obs : List Nat) (st : St) (tt : Nat) (observe : Bool) :
    (termObserve obs st tt observe).2.blocked = st.blocked := by
  unfold termObserve
  exact blocked_restoreMask _ _

theorem setInsert_of_contains (s : Int) (l : List Int) (h : l.contains s = true) : setInsert s l = l := by
  unfold setInsert; rw [if_pos h]

theorem restoreMask_same (st : St) (hp : ∀ s ∈ st.kpending, st.blocked.contains s = true) :
    restoreMask st st.blocked = st := by
  unfold restoreMask
  have : (st.kpending.filter fun s => !st.blocked.contains s) = [] := by
    rw [List.filter_eq_nil_iff]
    intro s hs
    have := hp s hs
    simpa using this
  rw [this]
  rfl

/-- While the loop keeps SIGWINCH blocked, what is pending in the kernel is blocked, and the observer list stays
    non-empty, `tickit_term_observe_sigwinch` leaves the whole process state as it was: every statement about the
    following iterations (signal_reaches_watchers_end_to_end …) applies unchanged. -/
theorem termObserve_transparent (obs : List Nat) (st : St) (tt : Nat) (observe : Bool)
    (hb : st.blocked.contains SIGWINCH = true) (hp : ∀ s ∈ st.kpending, st.blocked.contains s = true)
    (h1 : obs.isEmpty = false) (h2 : (obs.erase tt).isEmpty = false) :
    (termObserve obs st tt observe).2 = st := by
  have e : ({ st with blocked := setInsert SIGWINCH st.blocked } : St) = st := by
    rw [setInsert_of_contains _ _ hb]
  unfold termObserve
  rw [e]
  have b : (termObserveBody obs st tt observe).2 = st := by
    unfold termObserveBody
    split
    · dsimp only; rw [h1]; rfl
    · split
      · dsimp only; rw [h2]; rfl
      · rfl
  rw [b]
  exact restoreMask_same st hp

end Tickit.EvLoop
