import Tickit.Proof.EvLoopMH
/-
  C17, "exactly once" across the iterations of a history (continued from Proof/EvLoopOnce.lean): the functions
  that invoke callbacks preserve the bundle `B` — lists well formed, `K` (the table of slots), `Once` (at most one
  invocation, none while allocated), `Listed` (an allocated timer / deferred callback is queued) and `Gone` (one
  that is gone without a cancel request has been invoked) — by the same inductions as the `l_*` family of
  Proof/EvLoopWF.lean.  Result: `b_runOps`.
-/
namespace Tickit.EvLoop

/-! ### the bundle that every function of the loop preserves -/

/-- The repaired source. -/
def Rep (cfg : Config) : Prop :=
  cfg.timersPop = true ∧ cfg.invokeTypeSaved = true ∧ cfg.sigSnapshot = true ∧ cfg.procSnapshot = true

structure B (st : St) : Prop where
  rep : Rep st.cfg
  wf : WF st
  k : K st
  o : Once none st

def BStep (st st' : St) : Prop := B st → B st'

theorem BStep.refl (st : St) : BStep st st := fun b => b
theorem BStep.trans {a b c : St} (h1 : BStep a b) (h2 : BStep b c) : BStep a c := fun x => h2 (h1 x)

/-- A step that is both a quiet step (`Q`) and a list step (`LStep`). -/
theorem BStep.of_q {st st' : St} (q : Q st st') (l : LStep st st') : BStep st st' := by
  intro b
  have f := l b.rep.1 b.wf
  exact ⟨by rw [f.cfg]; exact b.rep, f.wf, K.of_q q b.k, Once.none_of_q q b.k b.o⟩

theorem BStep.of_q0 {st st' : St} (q : Q0 st st') (l : LStep st st') : BStep st st' := BStep.of_q (Q.of_q0 q) l

theorem b_fail (st : St) (w : Ub) : BStep st (st.fail w) := BStep.of_q0 (q0_fail _ _) (g4_fail _ _).lstep
theorem b_emit (st : St) (e : Ev) : BStep st (st.emit e) := BStep.of_q0 (q0_emit _ _) (g4_emit _ _).lstep
theorem b_outOfFuel (st : St) : BStep st (if st.isOk then { st with status := .outOfFuel } else st) := by
  split
  · exact BStep.of_q0 (q0_with_status _ _ (by intro h; cases h)) (g4_with_status _ _).lstep
  · exact BStep.refl _

theorem isOk_of_not_not {st : St} (h : ¬(!st.isOk) = true) : st.isOk = true := by
  cases hh : st.isOk with
  | true => rfl
  | false => rw [hh] at h; exact absurd rfl h

/-- Invoking the harness's callback of a watch that is not a timer / deferred callback. -/
theorem b_fire_other (st : St) (c : Nat) (flags : Nat) (info : Info) (hc : c < st.heap.length)
    (ht : isOneShot (st.getW c).type = false) (hk : (st.getW c).slot ≥ 0) (hok : st.isOk = true) :
    BStep st (fireUser st (st.getW c).slot flags info) := by
  intro b
  have f := fire_spec st c flags info b.k b.o hc hk hok (fun h => by rw [ht] at h; cases h)
  have l := l_fireUser st (st.getW c).slot flags info b.rep.1 b.wf
  exact ⟨by rw [l.cfg]; exact b.rep, l.wf, f.k, f.o.release_other (f.h.notOneShot hc ht)⟩

theorem b_invokeWatch (st : St) (a : Nat) (flags : Nat) (info : Info) (ha : a < st.heap.length)
    (ht : isOneShot (st.getW a).type = false) : BStep st (invokeWatch st a flags info) := by
  unfold invokeWatch
  split
  · exact BStep.refl _
  · rename_i hok
    have hok' := isOk_of_not_not hok
    have hX : BStep st (if (st.getW a).slot ≥ 0 then fireUser st (st.getW a).slot flags info else st) := by
      split
      · rename_i hk; exact b_fire_other st a flags info ha ht hk hok'
      · exact BStep.refl _
    generalize (if (st.getW a).slot ≥ 0 then fireUser st (st.getW a).slot flags info else st) = X at hX ⊢
    split
    · exact b_fail _ _
    · split
      · exact hX
      · split
        · exact hX.trans (BStep.of_q0 (q0_unlinkOneshotSaved _ _ _) (l_unlinkOneshotSaved _ a _))
        · exact hX.trans (BStep.of_q0 (q0_unlinkOneshot _ _) (l_unlinkOneshot _ a))

theorem b_procStep (st : St) (a : Nat) (ha : a < st.heap.length) (ht : isOneShot (st.getW a).type = false) :
    BStep st (procStep st a) := by
  unfold procStep
  have q := q0_waitpidV st (st.getW a).pid
  have hw : BStep st (waitpidV st (st.getW a).pid).st := BStep.of_q0 q (g4_waitpidV _ _).lstep
  split
  · exact hw
  · exact hw.trans (b_invokeWatch _ a _ _ (Nat.lt_of_lt_of_le ha q.b.h.len) (q.b.h.notOneShot ha ht))

theorem b_procSnapLoop (l : List Nat) : ∀ st : St, BStep st (procSnapLoop st l) := by
  induction l with
  | nil => intro st; exact BStep.refl st
  | cons a rest ih =>
    intro st
    unfold procSnapLoop
    split
    · exact BStep.refl _
    · split
      · exact b_fail _ _
      · split
        · exact ih _
        · rename_i hin
          split
          · exact b_fail _ _
          · intro b
            have hmem : a ∈ listOf st .process := by
              have : st.procs.contains a = true := by
                cases hh : st.procs.contains a with
                | true => rfl
                | false => rw [hh] at hin; exact absurd rfl hin
              show a ∈ st.procs
              simpa using this
            have hty := b.wf.typ .process a hmem
            exact ih _ (b_procStep st a (b.wf.alloc hmem) (by rw [hty]; rfl) b)

theorem b_onSigchldAny (fuel : Nat) (st : St) : BStep st (onSigchldAny fuel st) := by
  intro b
  unfold onSigchldAny
  rw [if_pos b.rep.2.2.2]
  split
  · exact b_fail _ _ b
  · exact b_procSnapLoop _ _ b

theorem b_processNotify (st : St) (a : Nat) (ha : a < st.heap.length) (hs : (st.getW a).slot = -4) :
    BStep st (processNotify st a) := by
  intro b
  unfold processNotify
  obtain ⟨h1, h2⟩ := b.k.p2 a ha hs
  split
  · exact b_fail _ _ b
  · exact b_invokeWatch _ _ _ _ h1 h2 b

/-- What the callback of a deferred callback `a` leaves behind: everything but `Once`, which holds with `a`
    as the running watch (the harness's callback) or outright (an internal one). -/
structure After (st' : St) (a : Nat) : Prop where
  rep : Rep st'.cfg
  wf : WF st'
  k : K st'
  o : Once (some a) st' ∨ Once none st'

theorem After.of_b {st' : St} {a : Nat} (b : B st') : After st' a := ⟨b.rep, b.wf, b.k, Or.inr b.o⟩

/-- … and once the watch is gone — freed, or the history has left defined behaviour — the bundle is back. -/
theorem After.b_of_not_ok {st' : St} {a : Nat} (x : After st' a) (h : st'.isOk = false) : B st' :=
  ⟨x.rep, x.wf, x.k, x.o.elim (fun o => o.of_not_ok h) (fun o => o)⟩

theorem After.b_of_dead {st' : St} {a : Nat} (x : After st' a) (h : st'.live a = false) : B st' :=
  ⟨x.rep, x.wf, x.k, x.o.elim (fun o => o.release h) (fun o => o)⟩

/-- A quiet step after the callback. -/
theorem After.step {s1 s2 : St} {a : Nat} (x : After s1 a) (ha : a < s1.heap.length) (q : Q0 s1 s2) (l : LStep s1 s2) : After s2 a := by
  have f := l x.rep.1 x.wf
  exact ⟨by rw [f.cfg]; exact x.rep, f.wf, K.of_q (Q.of_q0 q) x.k,
    x.o.elim (fun o => Or.inl (Once.of_q (Q.of_q0 q) x.k (fun y hy => by cases hy; exact ha) o))
             (fun o => Or.inr (Once.none_of_q (Q.of_q0 q) x.k o))⟩

theorem after_fire (st : St) (a : Nat) (flags : Nat) (info : Info) (b : B st) (ha : a < st.heap.length)
    (hk : (st.getW a).slot ≥ 0) (hok : st.isOk = true) (hl : st.live a = true) :
    After (fireUser st (st.getW a).slot flags info) a := by
  have f := fire_spec st a flags info b.k b.o ha hk hok (fun _ => hl)
  have l := l_fireUser st (st.getW a).slot flags info b.rep.1 b.wf
  exact ⟨by rw [l.cfg]; exact b.rep, l.wf, f.k, Or.inl f.o⟩

theorem after_laterCb (st : St) (a : Nat) (b : B st) (ha : a < st.heap.length) (hok : st.isOk = true) (hl : st.live a = true) :
    After (laterCb st a) a := by
  unfold laterCb
  split
  · rename_i hk; exact after_fire st a _ _ b ha hk hok hl
  · split
    · rename_i hs; exact After.of_b (b_processNotify st a ha hs b)
    · exact After.of_b b

theorem not_of_not_eq_true {b : Bool} (h : ¬(!b) = true) : b = true := by
  cases b with
  | true => rfl
  | false => exact absurd rfl h

theorem eq_false_of_not {b : Bool} (h : (!b) = true) : b = false := by
  cases b with
  | true => cases h
  | false => rfl

/-- The loop over the detached batch of deferred callbacks. -/
theorem b_laterLoopT (l : List Nat) : ∀ st : St, (∀ a ∈ l, a < st.heap.length ∧ ∀ t, a ∉ listOf st t) →
    BStep st (laterLoopT st l).1 := by
  induction l with
  | nil => intro st _; exact BStep.refl st
  | cons a rest ih =>
    intro st hl b
    unfold laterLoopT
    split
    · exact b
    · rename_i hok
      split
      · exact b_fail _ _ b
      · rename_i hlive
        have ha := hl a List.mem_cons_self
        have x := after_laterCb st a b ha.1 (not_of_not_eq_true hok) (not_of_not_eq_true hlive)
        have f1 := l_laterCb st a b.rep.1 b.wf
        split
        · rename_i hbad; exact x.b_of_not_ok (eq_false_of_not hbad)
        · split
          · rename_i hdead; exact b_fail _ _ (x.b_of_dead (eq_false_of_not hdead))
          · rename_i hl2
            have hl2' := not_of_not_eq_true hl2
            have hun1 := unlisted_after f1 ha.1 ha.2
            have x2 := x.step (St.live_lt hl2') (q0_free _ a) (lstep_free_unlisted (laterCb st a) a hun1)
            have b2 : B ((laterCb st a).free a) := x2.b_of_dead (St.live_free_self _ _ hl2')
            have f12 : LFacts st ((laterCb st a).free a) :=
              (LStep.trans (fun _ _ => f1) (lstep_free_unlisted (laterCb st a) a hun1)) b.rep.1 b.wf
            have hrest : ∀ c ∈ rest, c < ((laterCb st a).free a).heap.length ∧ ∀ t, c ∉ listOf ((laterCb st a).free a) t := by
              intro c hc
              have hc' := hl c (List.mem_cons_of_mem _ hc)
              exact ⟨Nat.lt_of_lt_of_le hc'.1 f12.len, unlisted_after f12 hc'.1 hc'.2⟩
            exact ih _ hrest b2

theorem b_timerLoopPopT (fuel : Nat) : ∀ (st : St) (now : TV), BStep st (timerLoopPopT fuel st now).1 := by
  induction fuel with
  | zero => intro st now; unfold timerLoopPopT; exact b_outOfFuel st
  | succ n ih =>
    intro st now b
    unfold timerLoopPopT
    split
    · exact b
    · rename_i hok
      split
      · exact b
      · rename_i a rest hq
        split
        · exact b_fail _ _ b
        · rename_i hlive
          split
          · exact b
          · have hok' := not_of_not_eq_true hok
            have hlive' := not_of_not_eq_true hlive
            have ha : a ∈ listOf st .timer := by show a ∈ st.timers; rw [hq]; exact List.mem_cons_self
            obtain ⟨fE, hun⟩ := lfacts_erase st a .timer b.wf ha
            rw [← pop_is_erase st a rest hq] at fE hun
            have halt : a < st.heap.length := b.wf.alloc ha
            -- the queue without its head
            have b0 : B ({ st with timers := rest } : St) :=
              ⟨b.rep, fE.wf, K.of_q (Q.of_q0 (q0_with_timers st rest)) b.k, Once.none_of_q (Q.of_q0 (q0_with_timers st rest)) b.k b.o⟩
            have f1' := l_fireUser { st with timers := rest } (st.getW a).slot (EV_FIRE ||| EV_UNBIND) .none b.rep.1 fE.wf
            have hun1 := unlisted_after f1' (show a < ({ st with timers := rest } : St).heap.length from halt) hun
            -- the callback
            have x : After (fireUser { st with timers := rest } (st.getW a).slot (EV_FIRE ||| EV_UNBIND) .none) a := by
              by_cases hk : (st.getW a).slot ≥ 0
              · exact after_fire { st with timers := rest } a _ _ b0 halt hk hok' hlive'
              · rw [fireUser_neg _ _ _ _ b0.k (by omega)]
                exact After.of_b (b_emit _ _ b0)
            simp only []
            split
            · rename_i hbad; exact x.b_of_not_ok (eq_false_of_not hbad)
            · split
              · rename_i hdead; exact b_fail _ _ (x.b_of_dead (eq_false_of_not hdead))
              · rename_i hl2
                have hl2' := not_of_not_eq_true hl2
                have x2 := x.step (St.live_lt hl2') (q0_free _ a) (lstep_free_unlisted _ a hun1)
                exact ih _ _ (x2.b_of_dead (St.live_free_self _ _ hl2'))

theorem b_timerPhase (fuel : Nat) (st : St) : BStep st (timerPhase fuel st) := by
  intro b
  unfold timerPhase
  split
  · exact b
  · rw [if_pos b.rep.1]
    exact b_timerLoopPopT _ _ _ (b_emit _ _ b)

theorem b_invokeTimers (fuel : Nat) (st : St) : BStep st (invokeTimers fuel st) := by
  intro b
  unfold invokeTimers
  split
  · exact b
  · have w := b.wf
    have hc := b.rep.1
    -- detaching the later queue (as in `l_invokeTimers`)
    have f0 : LFacts st { st with laters := [] } := by
      have hsub : ∀ t, (listOf ({ st with laters := [] } : St) t).Sublist (listOf st t) := by
        intro t; cases t <;> first | exact List.Sublist.refl _ | exact List.nil_sublist _
      exact ⟨⟨fun t => (w.nodup t).sublist (hsub t), fun t b hb => w.live t b ((hsub t).subset hb),
        fun t b hb => w.typ t b ((hsub t).subset hb)⟩, Nat.le_refl _, fun t x hx => Or.inl ((hsub t).subset hx), rfl⟩
    have hdet : ∀ a ∈ st.laters, a < ({ st with laters := [] } : St).heap.length ∧ ∀ t, a ∉ listOf ({ st with laters := [] } : St) t := by
      intro a ha
      have ha' : a ∈ listOf st .later := ha
      refine ⟨w.alloc ha', ?_⟩
      intro t h
      have hsub : (listOf ({ st with laters := [] } : St) t).Sublist (listOf st t) := by
        cases t <;> first | exact List.Sublist.refl _ | exact List.nil_sublist _
      have h' := hsub.subset h
      by_cases ht : t = .later
      · subst ht; cases h
      · have h1 := w.typ t a h'
        have h2 := w.typ .later a ha'
        exact ht (h1.symm.trans h2)
    have b0 : B ({ st with laters := [] } : St) :=
      ⟨b.rep, f0.wf, K.of_q (Q.of_q0 (q0_with_laters st [])) b.k, Once.none_of_q (Q.of_q0 (q0_with_laters st [])) b.k b.o⟩
    have f1' := l_timerPhase fuel { st with laters := [] } hc f0.wf
    have hdet1 : ∀ a ∈ st.laters, a < (timerPhase fuel { st with laters := [] }).heap.length ∧
        ∀ t, a ∉ listOf (timerPhase fuel { st with laters := [] }) t :=
      fun a ha => ⟨Nat.lt_of_lt_of_le (hdet a ha).1 f1'.len, unlisted_after f1' (hdet a ha).1 (hdet a ha).2⟩
    exact b_laterLoopT st.laters _ hdet1 (b_timerPhase _ _ b0)

/-! signals -/

theorem b_sigCb (fuel : Nat) (st : St) (a : Nat) (s : Int) (ha : a < st.heap.length) (ht : isOneShot (st.getW a).type = false)
    (hok : st.isOk = true) : BStep st (sigCb fuel st a s) := by
  unfold sigCb
  split
  · split
    · rename_i hk; exact b_fire_other st a _ _ ha ht hk hok
    · split
      · exact b_onSigchldAny _ _
      · split
        · exact BStep.of_q0 (q0_with_stillRunning _ _) (g4_with_stillRunning _ _).lstep
        · exact BStep.refl _
  · exact BStep.refl _

theorem b_sigSnapLoopT (fuel : Nat) (s : Int) (l : List Nat) : ∀ st : St, BStep st (sigSnapLoopT fuel st s l).1 := by
  induction l with
  | nil => intro st; exact BStep.refl st
  | cons a rest ih =>
    intro st
    unfold sigSnapLoopT
    split
    · exact BStep.refl _
    · rename_i hok
      split
      · exact b_fail _ _
      · split
        · exact ih _
        · rename_i hin
          split
          · exact b_fail _ _
          · intro b
            have hmem : a ∈ listOf st .signal := by
              have : st.signals.contains a = true := not_of_not_eq_true hin
              show a ∈ st.signals
              simpa using this
            have hty := b.wf.typ .signal a hmem
            exact ih _ (b_sigCb fuel st a s (b.wf.alloc hmem) (by rw [hty]; rfl) (not_of_not_eq_true hok) b)

theorem b_sigDispatch (fuel : Nat) (st : St) (s : Int) : BStep st (sigDispatch fuel st s) := by
  intro b
  unfold sigDispatch
  rw [if_pos b.rep.2.2.1]
  split
  · exact b_fail _ _ b
  · exact b_sigSnapLoopT _ _ _ _ b

theorem b_dispatchLoop (fuel : Nat) (pending : List Int) (l : List Int) : ∀ st : St, BStep st (dispatchLoop fuel st pending l) := by
  induction l with
  | nil => intro st; exact BStep.refl st
  | cons s rest ih =>
    intro st
    unfold dispatchLoop
    refine BStep.trans ?_ (ih _)
    split
    · exact b_sigDispatch _ _ _
    · exact BStep.refl _

theorem b_dispatchSignals (fuel : Nat) (st : St) : BStep st (dispatchSignals fuel st) := by
  unfold dispatchSignals
  exact (BStep.of_q0 (q0_with_pendingSig st []) (g4_with_pendingSig st []).lstep).trans (b_dispatchLoop _ _ _ _)

/-! descriptors -/

theorem b_ioCb (st : St) (s : PollSlot) (hs : s ∈ st.pfd) : BStep st (ioCb st s) := by
  intro b
  unfold ioCb
  split
  · rename_i a hw
    obtain ⟨h1, h2⟩ := b.k.p1 s hs a hw
    split
    · exact b_fail _ _ b
    · exact b_invokeWatch _ _ _ _ h1 h2 b
  · exact b

theorem getD_mem_pfd {l : List PollSlot} {i : Nat} (h : i < l.length) : l.getD i default ∈ l := by
  rw [List.getD_eq_getElem?_getD, List.getElem?_eq_getElem h]
  exact List.getElem_mem h

theorem b_ioLoopT (fuel : Nat) : ∀ (st : St) (idx : Nat), BStep st (ioLoopT fuel st idx).1 := by
  induction fuel with
  | zero => intro st idx; unfold ioLoopT; exact b_outOfFuel st
  | succ n ih =>
    intro st idx
    unfold ioLoopT
    split
    · exact BStep.refl _
    · split
      · exact BStep.refl _
      · rename_i hidx
        split
        · exact ih _ _
        · split
          · exact ih _ _
          · exact (b_ioCb _ _ (getD_mem_pfd (by omega))).trans (ih _ _)

theorem b_ioLoop (fuel : Nat) (st : St) (idx : Nat) : BStep st (ioLoop fuel st idx) := b_ioLoopT fuel st idx

/-! the wait -/

theorem q0_foldl_raiseSig (l : List Int) : ∀ st : St, Q0 st (l.foldl raiseSig st) := by
  induction l with
  | nil => intro st; exact Q0.refl st
  | cons s rest ih => intro st; exact (q0_raiseSig st s).trans (ih _)

theorem q0_pollScan (st : St) : Q0 st (pollScan st) :=
  Q0.of_eq rfl rfl rfl (by unfold pollScan; simp [List.map_map, Function.comp_def])

theorem q0_pollRaise (st : St) : Q0 st (pollRaise st) := by
  unfold pollRaise
  exact (q0_with_inpoll st []).trans (q0_foldl_raiseSig _ _)

theorem q0_pollTimeout (st : St) (t : Option Int) : Q0 st (pollTimeout st t) := by
  unfold pollTimeout
  split
  · exact Q0.of_eq rfl rfl rfl rfl
  · exact Q0.refl _

theorem q0_deliverPending (st : St) : Q0 st (deliverPending st) := by
  unfold deliverPending
  split <;> exact Q0.of_eq rfl rfl rfl rfl

theorem q0_ppoll (st : St) (t : Option Int) : Q0 st (ppoll st t).1 := by
  unfold ppoll
  split
  · exact (q0_pollScan st).trans (q0_pollRaise _)
  · split
    · exact ((q0_pollScan st).trans (q0_pollRaise _)).trans (q0_emit _ _)
    · split
      · exact ((((q0_pollScan st).trans (q0_pollRaise _)).trans (q0_deliverPending _)).trans (q0_with_errno _ _)).trans (q0_emit _ _)
      · exact (((q0_pollScan st).trans (q0_pollRaise _)).trans (q0_pollTimeout _ _)).trans (q0_emit _ _)

theorem q0_nextTimerMsec (st : St) : Q0 st (nextTimerMsec st).1 := by
  unfold nextTimerMsec
  split
  · exact Q0.refl _
  · split
    · exact Q0.refl _
    · split
      · exact (q0_emit _ _).trans (q0_fail _ _)
      · exact q0_emit _ _

theorem b_tickAfterPoll (fuel : Nat) (st : St) (ret : Option Nat) : BStep st (tickAfterPoll fuel st ret) := by
  unfold tickAfterPoll
  split
  · exact b_invokeTimers _ _
  · split
    · split
      · exact (b_invokeTimers _ _).trans (b_ioLoop _ _ _)
      · exact b_invokeTimers _ _
    · split
      · exact (b_invokeTimers _ _).trans (b_dispatchSignals _ _)
      · exact b_invokeTimers _ _

theorem b_tick (fuel : Nat) (st : St) (nohang : Bool) : BStep st (tick fuel st nohang) := by
  unfold tick
  split
  · exact BStep.refl _
  · split
    · exact BStep.of_q0 (q0_nextTimerMsec _) (g4_nextTimerMsec _).lstep
    · split
      · exact BStep.of_q0 ((q0_nextTimerMsec _).trans (q0_ppoll _ _)) ((g4_nextTimerMsec _).trans (g4_ppoll _ _)).lstep
      · exact (BStep.of_q0 ((q0_nextTimerMsec _).trans (q0_ppoll _ _)) ((g4_nextTimerMsec _).trans (g4_ppoll _ _)).lstep).trans
          (b_tickAfterPoll _ _ _)

theorem q0_ppollRun (st : St) (t : Option Int) : Q0 st (ppollRun st t).1 := by
  unfold ppollRun
  split
  · exact q0_ppoll _ _
  · split
    · exact ((q0_ppoll st t).trans (Q0.of_eq rfl rfl rfl rfl : Q0 (ppoll st t).1
        { (ppoll st t).1 with runPolls := (ppoll st t).1.runPolls + 1, stillRunning := false })).trans (q0_emit _ _)
    · exact (q0_ppoll st t).trans (Q0.of_eq rfl rfl rfl rfl : Q0 (ppoll st t).1
        { (ppoll st t).1 with runPolls := (ppoll st t).1.runPolls + 1 })

theorem b_runIter (fuel : Nat) (st : St) : BStep st (runIter fuel st) := by
  unfold runIter
  split
  · exact BStep.refl _
  · split
    · exact BStep.of_q0 (q0_nextTimerMsec _) (g4_nextTimerMsec _).lstep
    · split
      · exact BStep.of_q0 ((q0_nextTimerMsec _).trans (q0_ppollRun _ _)) ((g4_nextTimerMsec _).trans (g4_ppollRun _ _)).lstep
      · exact (BStep.of_q0 ((q0_nextTimerMsec _).trans (q0_ppollRun _ _)) ((g4_nextTimerMsec _).trans (g4_ppollRun _ _)).lstep).trans
          (b_tickAfterPoll _ _ _)

theorem b_runLoop (fuel : Nat) (n : Nat) : ∀ st : St, BStep st (runLoop fuel n st) := by
  induction n with
  | zero => intro st; unfold runLoop; exact b_outOfFuel st
  | succ k ih =>
    intro st
    unfold runLoop
    split
    · exact BStep.refl _
    · split
      · exact BStep.refl _
      · exact (b_runIter _ _).trans (ih _)

theorem q0_with_inRun (st : St) (b : Bool) : Q0 st { st with inRun := b } := Q0.of_eq rfl rfl rfl rfl
theorem b_with_inRun (st : St) (b : Bool) : BStep st { st with inRun := b } := BStep.of_q0 (q0_with_inRun st b) (g4_with_inRun st b).lstep
theorem b_watchCancel (st : St) (a : Nat) : BStep st (watchCancel st a) := BStep.of_q0 (q0_watchCancel st a) (l_watchCancel st a)

theorem b_run (fuel : Nat) (st : St) : BStep st (run fuel st) := by
  have h0 : BStep st { (watchSignal st 2 0 (-5)).1 with stillRunning := true, inRun := true, runPolls := 0 } :=
    BStep.of_q0 (((reg_watchSignal st 2 0 (-5) (by decide)).q0 (by decide)).trans (Q0.of_eq rfl rfl rfl rfl))
      ((lstep_watchSignal st 2 0 (-5)).trans (g4_run_flags _).lstep)
  unfold run
  split
  · exact BStep.refl _
  · split
    · exact h0.trans (b_runLoop _ _ _)
    · intro b
      exact b_watchCancel _ _ (b_with_inRun _ _ (b_runLoop _ _ _ (h0 b)))

/-! ### destruction, whole operations, histories -/

theorem q0_destroyNotify (st : St) (a : Nat) : Q0 st (destroyNotify st a) := by
  unfold destroyNotify
  split
  · exact q0_notify _ _ _
  · exact Q0.refl _

theorem q0_destroyList (t : WType) (l : List Nat) : ∀ st : St, Q0 st (destroyList st t l) := by
  induction l with
  | nil => intro st; exact Q0.refl st
  | cons a rest ih =>
    intro st
    unfold destroyList
    split
    · exact Q0.refl _
    · split
      · exact q0_fail _ _
      · exact (((q0_destroyNotify _ _).trans (q0_cancelHook _ _ _)).trans (q0_free _ a)).trans (ih _)

theorem q0_destroyOf (t : WType) (st : St) : Q0 st (destroyOf t st) := q0_destroyList _ _ _

theorem q0_cancelSigchld (st : St) : Q0 st (cancelSigchld st) := by
  unfold cancelSigchld
  split
  · exact q0_watchCancel _ _
  · exact Q0.refl _

theorem q0_destroyFinish (st : St) : Q0 st (destroyFinish st) := by
  unfold destroyFinish
  split
  · exact Q0.of_eq rfl rfl rfl rfl
  · exact Q0.refl _

theorem q0_destroy (st : St) : Q0 st (destroy st) := by
  unfold destroy
  split
  · exact Q0.refl _
  · exact ((((((q0_cancelSigchld st).trans (q0_destroyOf _ _)).trans (q0_destroyOf _ _)).trans (q0_destroyOf _ _)).trans
      (q0_destroyOf _ _)).trans (q0_destroyOf _ _)).trans (q0_destroyFinish _)

/-- `K` and `Once` after one operation of the harness. -/
theorem ko_applyOp (st : St) (op : Op) (b : B st) : K (applyOp st op) ∧ Once none (applyOp st op) := by
  unfold applyOp
  have b0 : B ({ st with log := [] } : St) :=
    BStep.of_q0 (Q0.of_eq rfl rfl rfl rfl : Q0 st { st with log := [] }) (G4.of_eq rfl rfl rfl rfl rfl rfl rfl : G4 st { st with log := [] }).lstep b
  generalize ({ st with log := [] } : St) = s0 at b0
  have qk : ∀ s1, Q0 s0 s1 → K s1 ∧ Once none s1 := fun s1 q => ⟨K.of_q (Q.of_q0 q) b0.k, Once.none_of_q (Q.of_q0 q) b0.k b0.o⟩
  have bk : ∀ s1, B s1 → K s1 ∧ Once none s1 := fun s1 x => ⟨x.k, x.o⟩
  unfold applyOp'
  split
  · exact bk _ b0
  · split
    · exact bk _ b0
    · exact bk _ b0
    · exact bk _ b0
    · split
      · exact bk _ b0
      · split
        · exact qk _ (Q0.of_eq rfl rfl rfl rfl)
        · exact bk _ (BStep.of_q (q_runAct s0 _) (l_runAct s0 _) b0)
        · exact qk _ (Q0.of_eq rfl rfl rfl rfl)
        · exact qk _ (Q0.of_eq rfl rfl rfl rfl)
        · exact qk _ (Q0.of_eq rfl rfl rfl rfl)
        · exact bk _ (b_tick _ _ _ (BStep.of_q0 (q0_with_stillRunning s0 true) (g4_with_stillRunning s0 true).lstep b0))
        · exact bk _ (b_tick _ _ _ (BStep.of_q0 (q0_with_stillRunning s0 true) (g4_with_stillRunning s0 true).lstep b0))
        · exact bk _ (b_run _ _ b0)
        · exact qk _ (q0_destroy _)
        · exact bk _ b0

theorem b_applyOp (st : St) (op : Op) (b : B st) (hok : (applyOp st op).status = .ok) : B (applyOp st op) := by
  obtain ⟨w, hc⟩ := cfg_applyOp_eq st op b.rep.1 b.wf hok
  obtain ⟨k, o⟩ := ko_applyOp st op b
  exact ⟨by rw [hc]; exact b.rep, w, k, o⟩

theorem b_build (cfg : Config) (hr : Rep cfg) : B (build cfg) := by
  obtain ⟨w, hc⟩ := wf_build cfg hr.1
  have k0 : K (build0 cfg) :=
    ⟨fun a ha => (by cases ha), List.nodup_nil, fun r hr => (by cases hr), fun s hs => (by cases hs), fun l hl => (by cases hl),
     fun r hr => (by cases hr)⟩
  have o0 : Once none (build0 cfg) := fun r hr => by cases hr
  have q : Q0 (build0 cfg) (build cfg) := by
    unfold build
    exact (((reg_watchIo (build0 cfg) (-1) IO_IN 0 (-1) (by decide)).q0 (by decide)).trans
      ((reg_watchSignal _ SIGWINCH 0 (-2) (by decide)).q0 (by decide))).trans (Q0.of_eq rfl rfl rfl rfl)
  exact ⟨by rw [hc]; exact hr, w, K.of_q (Q.of_q0 q) k0, Once.none_of_q (Q.of_q0 q) k0 o0⟩

/-- Every state a history reaches under the repaired source, if its status is ok, has the bundle. -/
theorem b_runOps (cfg : Config) (hr : Rep cfg) (ops : List Op) (hok : (runOps cfg ops).status = .ok) : B (runOps cfg ops) := by
  unfold runOps at hok ⊢
  have : ∀ (l : List Op) (st : St), B st → (l.foldl applyOp st).status = .ok → B (l.foldl applyOp st) := by
    intro l
    induction l with
    | nil => intro st b _; exact b
    | cons o rest ih =>
      intro st b hfin
      simp only [List.foldl_cons] at hfin ⊢
      have hmid : (applyOp st o).status = .ok := by
        apply Classical.byContradiction
        intro hne
        have : ∀ (l : List Op) (s : St), s.status ≠ .ok → (l.foldl applyOp s).status ≠ .ok := by
          intro l
          induction l with
          | nil => intro s hs; exact hs
          | cons o' r' ih' => intro s hs; exact ih' _ (status_applyOp_of_not_ok s o' hs)
        exact this rest _ hne hfin
      exact ih _ (b_applyOp st o b hmid) hfin
  exact this ops _ (b_build cfg hr) hok

end Tickit.EvLoop
