import Tickit.Proof.EvLoopMH
/-
  C17, "exactly once" across the iterations of a history (continued from Proof/EvLoopOnce.lean): the functions
  that invoke callbacks preserve the bundle `B` — lists well formed, `K` (the table of slots), `Once` (at most one
  invocation, none while allocated), `Listed` (an allocated timer / deferred callback is queued) and `Gone` (one
  that is gone without a cancel request has been invoked) — by the same inductions as the `l_*` family of
  Proof/EvLoopWF.lean.  Result: `b_runOps`.
-/
namespace Tickit.EvLoop

/-! ### a few more facts about `Listed` and `Gone` -/

theorem Gone.of_same {st st' : St} (hh : st'.heap = st.heap) (hs : st'.slots = st.slots) (hc : st'.cancelReq = st.cancelReq)
    (ha : st'.alive = st.alive) (g : Gone st) : Gone st' := by
  intro hal r hr ho hnc hd
  rw [hs] at hr
  rw [getW_of_heap_eq hh] at ho
  rw [hc] at hnc
  rw [live_of_heap_eq hh] at hd
  exact g (by rw [← ha]; exact hal) r hr ho hnc hd

/-- Counting an invocation of `c` — which is live if it is a timer / deferred callback. -/
theorem Gone.bump {st : St} (k : K st) (g : Gone st) (c : Nat) (key : Int) (hc : c < st.heap.length)
    (hs : (st.getW c).slot = key) (hk : key ≥ 0) (hl : isOneShot (st.getW c).type = true → st.live c = true) :
    Gone (Tickit.EvLoop.bump st key) := by
  obtain ⟨rc, hrc, hrck, hrch⟩ := k.s1 c hc (by rw [hs]; exact hk)
  rw [hs] at hrck
  intro hal r' hr' ho hnc hd
  obtain ⟨r, hr, e1, e2, e3⟩ := mem_bump hr'
  have ho' : isOneShot (st.getW r.handle).type = true := by rw [← e2]; exact ho
  have hd' : st.live r.handle = false := by rw [← e2]; exact hd
  rw [e3]
  by_cases hkk : r.k = key
  · have : r = rc := k.rec_unique hr hrc (hkk.trans hrck.symm)
    subst this
    rw [hrch] at ho' hd'
    rw [hl ho'] at hd'; cases hd'
  · rw [if_neg hkk]
    exact g hal r hr ho' (by rw [← e1]; exact hnc) hd'

/-- `free(a)` where every record of `a` (if it is a timer / deferred callback) already says one invocation. -/
theorem Gone.free {st : St} (g : Gone st) (a : Nat)
    (h : ∀ r ∈ st.slots, r.handle = a → isOneShot (st.getW a).type = true → r.fires = 1) : Gone (st.free a) := by
  have hal : (st.free a).alive = st.alive := by unfold St.free; split <;> first | rfl | (unfold St.fail; split <;> rfl)
  have hcr : (st.free a).cancelReq = st.cancelReq := by unfold St.free; split <;> first | rfl | (unfold St.fail; split <;> rfl)
  have hsl : (st.free a).slots = st.slots := by unfold St.free; split <;> first | rfl | (unfold St.fail; split <;> rfl)
  intro hal' r hr ho hnc hd
  rw [hsl] at hr
  by_cases e : r.handle = a
  · have hx : a < st.heap.length ∨ ¬ a < st.heap.length := Classical.em _
    have ho' : isOneShot (st.getW a).type = true := by
      rw [e] at ho
      by_cases hlt : a < st.heap.length
      · rw [← (mh_free st a).oneShot hlt ho]; exact ho
      · -- not allocated: the default watch has no type
        have : (st.free a).getW a = st.getW a := by
          unfold St.free
          split
          · rename_i hl; exact absurd (St.live_lt hl) hlt
          · exact St.getW_fail _ _ _
        rw [this] at ho; exact ho
    exact h r hr e ho'
  · have hne : a ≠ r.handle := fun x => e x.symm
    rw [St.getW_free_ne _ _ _ hne] at ho
    rw [St.live_free_ne _ _ _ hne] at hd
    exact g (by rw [← hal]; exact hal') r hr ho (by rw [← hcr]; exact hnc) hd

theorem Listed.free {D : List Nat} {st : St} (l : Listed D st) (a : Nat) : Listed D (st.free a) := by
  have hm := mh_free st a
  have hal : (st.free a).alive = st.alive := by unfold St.free; split <;> first | rfl | (unfold St.fail; split <;> rfl)
  have hti : (st.free a).timers = st.timers := lists_free st a .timer
  have hla : (st.free a).laters = st.laters := lists_free st a .later
  have hlen : (st.free a).heap.length = st.heap.length := by
    unfold St.free; split
    · exact St.length_setW _ _ _
    · rw [St.heap_fail]
  intro hok hal' x hx hl
  rw [hlen] at hx
  have hl0 := hm.live x hx hl
  obtain ⟨l1, l2⟩ := l (hm.ok hok) (by rw [← hal]; exact hal') x hx hl0
  rw [hti, hla]
  exact ⟨fun ht => l1 (by rw [← hm.oneShot hx (by rw [ht]; rfl)]; exact ht),
         fun ht => l2 (by rw [← hm.oneShot hx (by rw [ht]; rfl)]; exact ht)⟩

/-! ### the bundle that every function of the loop preserves -/

/-- The repaired source. -/
def Rep (cfg : Config) : Prop :=
  cfg.timersPop = true ∧ cfg.invokeTypeSaved = true ∧ cfg.sigSnapshot = true ∧ cfg.procSnapshot = true

/-- `D`: the watches the running iteration has detached from their queue and not yet freed. -/
structure B (D : List Nat) (st : St) : Prop where
  rep : Rep st.cfg
  wf : WF st
  k : K st
  o : Once none st
  li : Listed D st
  g : Gone st

def BStep (D : List Nat) (st st' : St) : Prop := B D st → B D st'

theorem BStep.refl (D : List Nat) (st : St) : BStep D st st := fun b => b
theorem BStep.trans {D : List Nat} {a b c : St} (h1 : BStep D a b) (h2 : BStep D b c) : BStep D a c := fun x => h2 (h1 x)

/-- A step that is a quiet step (`Q`, `R2`) and a list step (`LStep`). -/
theorem BStep.of_q {D : List Nat} {st st' : St} (q : Q st st') (l : LStep st st') (r : R2 [] st st') : BStep D st st' := by
  intro b
  have f := l b.rep.1 b.wf
  exact ⟨by rw [f.cfg]; exact b.rep, f.wf, K.of_q q b.k, Once.none_of_q q b.k b.o, Listed.of_r2 r b.li, Gone.of_r2 r q b.k b.g⟩

theorem BStep.of_q0 {D : List Nat} {st st' : St} (q : Q0 st st') (l : LStep st st') (r : R2 [] st st') : BStep D st st' :=
  BStep.of_q (Q.of_q0 q) l r

/-- Outside defined behaviour nothing is claimed about the queues: any `D` will do. -/
theorem B.of_not_ok {D D' : List Nat} {st : St} (b : B D st) (h : st.isOk = false) : B D' st :=
  ⟨b.rep, b.wf, b.k, b.o, Listed.of_not_ok h, b.g⟩

theorem b_fail (D : List Nat) (st : St) (w : Ub) : BStep D st (st.fail w) := BStep.of_q0 (q0_fail _ _) (g4_fail _ _).lstep (r2_fail _ _ _)
theorem b_emit (D : List Nat) (st : St) (e : Ev) : BStep D st (st.emit e) := BStep.of_q0 (q0_emit _ _) (g4_emit _ _).lstep (r2_emit _ _ _)
theorem b_outOfFuel (D : List Nat) (st : St) : BStep D st (if st.isOk then { st with status := .outOfFuel } else st) := by
  split
  · exact BStep.of_q0 (q0_with_status _ _ (by intro h; cases h)) (g4_with_status _ _).lstep (r2_with_bad_status _ _ _ (by intro h; cases h))
  · exact BStep.refl _ _

/-- … and from a failing state with any other `D`. -/
theorem b_fail' {D D' : List Nat} (st : St) (w : Ub) (b : B D st) : B D' (st.fail w) :=
  (b_fail D st w b).of_not_ok (St.isOk_fail st w)

theorem isOk_of_not_not {st : St} (h : ¬(!st.isOk) = true) : st.isOk = true := by
  cases hh : st.isOk with
  | true => rfl
  | false => rw [hh] at h; exact absurd rfl h

theorem not_of_not_eq_true {b : Bool} (h : ¬(!b) = true) : b = true := by
  cases b with
  | true => rfl
  | false => exact absurd rfl h

theorem eq_false_of_not {b : Bool} (h : (!b) = true) : b = false := by
  cases b with
  | true => cases h
  | false => rfl

/-! ### invoking a callback: the queues and the gone watches -/

theorem fire_more (st : St) (c : Nat) (flags : Nat) (info : Info) (k : K st) (hc : c < st.heap.length)
    (hk : (st.getW c).slot ≥ 0) (hl : isOneShot (st.getW c).type = true → st.live c = true) :
    R2 [] st (fireUser st (st.getW c).slot flags info) ∧ (Gone st → Gone (fireUser st (st.getW c).slot flags info)) := by
  have k1 : K (st.emit (.cb (st.getW c).slot flags info)) := k.emit _
  have k2 : K (bump (st.emit (.cb (st.getW c).slot flags info)) (st.getW c).slot) := k1.bump _
  have r2 : R2 [] st (bump (st.emit (.cb (st.getW c).slot flags info)) (st.getW c).slot) := R2.of_eq rfl rfl rfl rfl rfl rfl
  have g2 : Gone st → Gone (bump (st.emit (.cb (st.getW c).slot flags info)) (st.getW c).slot) := by
    intro g
    have g1 : Gone (st.emit (.cb (st.getW c).slot flags info)) := Gone.of_same rfl rfl rfl rfl g
    exact Gone.bump k1 g1 c _ hc rfl hk hl
  unfold fireUser
  simp only []
  split
  · rename_i hnone
    obtain ⟨rc, hrc, hrck, _⟩ := k.s1 c hc hk
    exact absurd hrck (findSlot_none hnone rc hrc)
  · split
    · exact ⟨r2, g2⟩
    · rename_i b _
      have q := q_runActs b.acts (bump (st.emit (.cb (st.getW c).slot flags info)) (st.getW c).slot)
      have r := r2_runActs b.acts (bump (st.emit (.cb (st.getW c).slot flags info)) (st.getW c).slot) k2
      exact ⟨r2.trans r, fun g => Gone.of_r2 r q k2 (g2 g)⟩

/-- Invoking the harness's callback of a watch that is not a timer / deferred callback. -/
theorem b_fire_other (D : List Nat) (st : St) (c : Nat) (flags : Nat) (info : Info) (hc : c < st.heap.length)
    (ht : isOneShot (st.getW c).type = false) (hk : (st.getW c).slot ≥ 0) (hok : st.isOk = true) :
    BStep D st (fireUser st (st.getW c).slot flags info) := by
  intro b
  have f := fire_spec st c flags info b.k b.o hc hk hok (fun h => by rw [ht] at h; cases h)
  have m := fire_more st c flags info b.k hc hk (fun h => by rw [ht] at h; cases h)
  have l := l_fireUser st (st.getW c).slot flags info b.rep.1 b.wf
  exact ⟨by rw [l.cfg]; exact b.rep, l.wf, f.k, f.o.release_other (f.h.notOneShot hc ht), Listed.of_r2 m.1 b.li, m.2 b.g⟩

theorem b_invokeWatch (D : List Nat) (st : St) (a : Nat) (flags : Nat) (info : Info) (ha : a < st.heap.length)
    (ht : isOneShot (st.getW a).type = false) : BStep D st (invokeWatch st a flags info) := by
  unfold invokeWatch
  split
  · exact BStep.refl _ _
  · rename_i hok
    have hok' := isOk_of_not_not hok
    have hX : BStep D st (if (st.getW a).slot ≥ 0 then fireUser st (st.getW a).slot flags info else st) := by
      split
      · rename_i hk; exact b_fire_other D st a flags info ha ht hk hok'
      · exact BStep.refl _ _
    generalize (if (st.getW a).slot ≥ 0 then fireUser st (st.getW a).slot flags info else st) = X at hX ⊢
    split
    · exact b_fail _ _ _
    · split
      · exact hX
      · split
        · exact hX.trans (BStep.of_q0 (q0_unlinkOneshotSaved _ _ _) (l_unlinkOneshotSaved _ a _) (r2_unlinkOneshotSaved _ _ _ _))
        · exact hX.trans (BStep.of_q0 (q0_unlinkOneshot _ _) (l_unlinkOneshot _ a) (r2_unlinkOneshot _ _ _))

theorem b_procStep (D : List Nat) (st : St) (a : Nat) (ha : a < st.heap.length) (ht : isOneShot (st.getW a).type = false) :
    BStep D st (procStep st a) := by
  unfold procStep
  have q := q0_waitpidV st (st.getW a).pid
  have hw : BStep D st (waitpidV st (st.getW a).pid).st := BStep.of_q0 q (g4_waitpidV _ _).lstep (r2_waitpidV _ _ _)
  split
  · exact hw
  · exact hw.trans (b_invokeWatch D _ a _ _ (Nat.lt_of_lt_of_le ha q.b.h.len) (q.b.h.notOneShot ha ht))

theorem b_procSnapLoop (D : List Nat) (l : List Nat) : ∀ st : St, BStep D st (procSnapLoop st l) := by
  induction l with
  | nil => intro st; exact BStep.refl _ st
  | cons a rest ih =>
    intro st
    unfold procSnapLoop
    split
    · exact BStep.refl _ _
    · split
      · exact b_fail _ _ _
      · split
        · exact ih _
        · rename_i hin
          split
          · exact b_fail _ _ _
          · intro b
            have hmem : a ∈ listOf st .process := by
              have : st.procs.contains a = true := not_of_not_eq_true hin
              show a ∈ st.procs
              simpa using this
            have hty := b.wf.typ .process a hmem
            exact ih _ (b_procStep D st a (b.wf.alloc hmem) (by rw [hty]; rfl) b)

theorem b_onSigchldAny (D : List Nat) (fuel : Nat) (st : St) : BStep D st (onSigchldAny fuel st) := by
  intro b
  unfold onSigchldAny
  rw [if_pos b.rep.2.2.2]
  split
  · exact b_fail _ _ _ b
  · exact b_procSnapLoop _ _ _ b

theorem b_processNotify (D : List Nat) (st : St) (a : Nat) (ha : a < st.heap.length) (hs : (st.getW a).slot = -4) :
    BStep D st (processNotify st a) := by
  intro b
  unfold processNotify
  obtain ⟨h1, h2⟩ := b.k.p2 a ha hs
  split
  · exact b_fail _ _ _ b
  · have q := q0_clearNotify st (st.getW a).puser
    have hc : BStep D st (clearNotify st (st.getW a).puser) :=
      BStep.of_q0 q (g4_clearNotify st _).lstep (r2_clearNotify [] st _)
    exact b_invokeWatch _ _ _ _ _ (Nat.lt_of_lt_of_le h1 q.b.h.len) (q.b.h.notOneShot h1 h2) (hc b)

/-! ### the callback of a detached watch -/

/-- What the callback of the detached timer / deferred callback `a` leaves behind: the bundle with `a` still
    detached, and `Once` with `a` as the running watch (the harness's callback) or outright (an internal one,
    which has no record). -/
structure After (D : List Nat) (st' : St) (a : Nat) : Prop where
  rep : Rep st'.cfg
  wf : WF st'
  k : K st'
  o : Once (some a) st' ∨ (Once none st' ∧ (st'.getW a).slot < 0)
  li : Listed (a :: D) st'
  g : Gone st'

theorem After.of_b {D : List Nat} {st' : St} {a : Nat} (b : B (a :: D) st') (hs : (st'.getW a).slot < 0) : After D st' a :=
  ⟨b.rep, b.wf, b.k, Or.inr ⟨b.o, hs⟩, b.li, b.g⟩

theorem After.once_none {D : List Nat} {st' : St} {a : Nat} (x : After D st' a) (h : st'.isOk = false ∨ st'.live a = false) : Once none st' :=
  x.o.elim (fun o => h.elim (fun h => o.of_not_ok h) (fun h => o.release h)) (fun o => o.1)

/-- … and once the history has left defined behaviour, or the watch is gone, the bundle is back. -/
theorem After.b_of_not_ok {D D' : List Nat} {st' : St} {a : Nat} (x : After D st' a) (h : st'.isOk = false) : B D' st' :=
  ⟨x.rep, x.wf, x.k, x.once_none (Or.inl h), Listed.of_not_ok h, x.g⟩

theorem After.b_of_dead {D : List Nat} {st' : St} {a : Nat} (x : After D st' a) (h : st'.live a = false) : B D st' :=
  ⟨x.rep, x.wf, x.k, x.once_none (Or.inr h), x.li.drop (fun _ => h), x.g⟩

/-- Every record of `a` says one invocation. -/
theorem After.fired {D : List Nat} {st' : St} {a : Nat} (x : After D st' a) :
    ∀ r ∈ st'.slots, r.handle = a → isOneShot (st'.getW a).type = true → r.fires = 1 := by
  intro r hr e ho
  rcases x.o with o | o
  · exact (o r hr (by rw [e]; exact ho)).2.2 (by rw [e])
  · have h1 := (x.k.s3 r hr).2
    have h2 := x.k.s4 r hr
    rw [e] at h1
    have := o.2
    omega

/-- `free(a)` after the callback (`a` is in no list). -/
theorem After.free {D : List Nat} {s1 : St} {a : Nat} (x : After D s1 a) (hl : s1.live a = true) (hun : ∀ t, a ∉ listOf s1 t) :
    B D (s1.free a) := by
  have ha := St.live_lt hl
  have f := lstep_free_unlisted s1 a hun x.rep.1 x.wf
  have q := Q.of_q0 (q0_free s1 a)
  have hdead := St.live_free_self s1 a hl
  refine ⟨by rw [f.cfg]; exact x.rep, f.wf, K.of_q q x.k, ?_, (x.li.free a).drop (fun _ => hdead), x.g.free a x.fired⟩
  rcases x.o with o | o
  · exact (Once.of_q q x.k (fun y hy => by cases hy; exact ha) o).release hdead
  · exact Once.none_of_q q x.k o.1

theorem after_fire (D : List Nat) (st : St) (a : Nat) (flags : Nat) (info : Info) (b : B (a :: D) st) (ha : a < st.heap.length)
    (hk : (st.getW a).slot ≥ 0) (hok : st.isOk = true) (hl : st.live a = true) :
    After D (fireUser st (st.getW a).slot flags info) a := by
  have f := fire_spec st a flags info b.k b.o ha hk hok (fun _ => hl)
  have m := fire_more st a flags info b.k ha hk (fun _ => hl)
  have l := l_fireUser st (st.getW a).slot flags info b.rep.1 b.wf
  exact ⟨by rw [l.cfg]; exact b.rep, l.wf, f.k, Or.inl f.o, Listed.of_r2 m.1 b.li, m.2 b.g⟩

theorem after_laterCb (D : List Nat) (st : St) (a : Nat) (b : B (a :: D) st) (ha : a < st.heap.length) (hok : st.isOk = true)
    (hl : st.live a = true) : After D (laterCb st a) a := by
  have hm := mh_laterCb st a
  unfold laterCb at hm ⊢
  split
  · rename_i hk; exact after_fire D st a _ _ b ha hk hok hl
  · rename_i hk
    split
    · rename_i hs
      rw [if_neg hk, if_pos hs] at hm
      exact After.of_b (b_processNotify _ st a ha hs b) (by rw [hm.slot a ha, hs]; decide)
    · exact After.of_b b (by omega)

theorem b_laterPre (D : List Nat) (st : St) (a : Nat) : BStep D st (laterPre st a) :=
  BStep.of_q0 (q0_laterPre st a) (g4_laterPre st a).lstep (r2_laterPre [] st a)

theorem live_laterPre (st : St) (a x : Nat) (hx : x < st.heap.length) : (laterPre st a).live x = st.live x := by
  unfold laterPre
  split
  · exact live_setW_same st a { st.getW a with flags := (st.getW a).flags - ((st.getW a).flags &&& BIND_UNBIND) } rfl x hx
  · rfl

theorem isOk_laterPre (st : St) (a : Nat) : (laterPre st a).isOk = st.isOk := by
  unfold laterPre; split <;> rfl

/-- The loop over the detached batch of deferred callbacks (its members were deferred callbacks when the batch
    was detached; a cancel may have marked some `WATCH_NONE` since). -/
theorem b_laterLoopT (D : List Nat) (l : List Nat) : ∀ st : St,
    (∀ a ∈ l, a < st.heap.length ∧ (∀ t, a ∉ listOf st t) ∧ ((st.getW a).type = .later ∨ (st.getW a).type = .none)) →
    B (l ++ D) st → B D (laterLoopT st l).1 := by
  induction l with
  | nil => intro st _ b; exact b
  | cons a rest ih =>
    intro st hl b
    have b' : B (a :: (rest ++ D)) st := b
    have ha := hl a List.mem_cons_self
    unfold laterLoopT
    split
    · rename_i hbad; exact b.of_not_ok (eq_false_of_not hbad)
    · rename_i hok
      split
      · exact b_fail' _ _ b
      · rename_i hlive
        have hlive' := not_of_not_eq_true hlive
        split
        · -- cancelled by an earlier callback of this iteration: freed without being invoked
          rename_i hskip
          have hty : (st.getW a).type = .none := ha.2.2.elim (fun h => absurd h hskip.2) id
          have f2 : LFacts st (st.free a) := lstep_free_unlisted st a ha.2.1 b.rep.1 b.wf
          have q := Q.of_q0 (q0_free st a)
          have hdead := St.live_free_self st a hlive'
          have b2 : B (rest ++ D) (st.free a) :=
            ⟨by rw [f2.cfg]; exact b.rep, f2.wf, K.of_q q b.k, Once.none_of_q q b.k b.o, (b'.li.free a).drop (fun _ => hdead),
             b.g.free a (fun r hr e ho => by rw [hty] at ho; cases ho)⟩
          have hm := mh_free st a
          have hrest : ∀ c ∈ rest, c < (st.free a).heap.length ∧ (∀ t, c ∉ listOf (st.free a) t) ∧
              (((st.free a).getW c).type = .later ∨ ((st.free a).getW c).type = .none) := by
            intro c hc
            have hc' := hl c (List.mem_cons_of_mem _ hc)
            refine ⟨Nat.lt_of_lt_of_le hc'.1 f2.len, unlisted_after f2 hc'.1 hc'.2.1, ?_⟩
            rcases hm.typ c hc'.1 with e | e
            · rw [e]; exact hc'.2.2
            · exact Or.inr e
          exact ih _ hrest b2
        · have b0 : B (a :: (rest ++ D)) (laterPre st a) := b_laterPre _ st a b'
          have hlen0 : (laterPre st a).heap.length = st.heap.length := by
            unfold laterPre; split
            · exact St.length_setW _ _ _
            · rfl
          have x := after_laterCb (rest ++ D) (laterPre st a) a b0 (by rw [hlen0]; exact ha.1)
            (by rw [isOk_laterPre]; exact not_of_not_eq_true hok) (by rw [live_laterPre st a a ha.1]; exact hlive')
          have f1 := l_laterPreCb st a b.rep.1 b.wf
          split
          · rename_i hbad; exact x.b_of_not_ok (eq_false_of_not hbad)
          · split
            · rename_i hdead; exact b_fail' _ _ (x.b_of_dead (eq_false_of_not hdead))
            · rename_i hl2
              have hl2' := not_of_not_eq_true hl2
              have hun1 := unlisted_after f1 ha.1 ha.2.1
              have b2 : B (rest ++ D) ((laterCb (laterPre st a) a).free a) := x.free hl2' hun1
              have f12 : LFacts st ((laterCb (laterPre st a) a).free a) :=
                (LStep.trans (fun _ _ => f1) (lstep_free_unlisted (laterCb (laterPre st a) a) a hun1)) b.rep.1 b.wf
              have hm : MH st ((laterCb (laterPre st a) a).free a) :=
                ((q0_laterPre st a).b.h.trans (mh_laterCb _ a)).trans (mh_free _ a)
              have hrest : ∀ c ∈ rest, c < ((laterCb (laterPre st a) a).free a).heap.length ∧
                  (∀ t, c ∉ listOf ((laterCb (laterPre st a) a).free a) t) ∧
                  ((((laterCb (laterPre st a) a).free a).getW c).type = .later ∨ (((laterCb (laterPre st a) a).free a).getW c).type = .none) := by
                intro c hc
                have hc' := hl c (List.mem_cons_of_mem _ hc)
                refine ⟨Nat.lt_of_lt_of_le hc'.1 f12.len, unlisted_after f12 hc'.1 hc'.2.1, ?_⟩
                rcases hm.typ c hc'.1 with e | e
                · rw [e]; exact hc'.2.2
                · exact Or.inr e
              exact ih _ hrest b2

theorem b_timerLoopPopT (D : List Nat) (fuel : Nat) : ∀ (st : St) (now : TV), BStep D st (timerLoopPopT fuel st now).1 := by
  induction fuel with
  | zero => intro st now; unfold timerLoopPopT; exact b_outOfFuel _ st
  | succ n ih =>
    intro st now b
    unfold timerLoopPopT
    split
    · exact b
    · rename_i hok
      split
      · exact b
      · rename_i a rest hq
        split
        · exact b_fail _ _ _ b
        · rename_i hlive
          split
          · exact b
          · have hok' := not_of_not_eq_true hok
            have hlive' := not_of_not_eq_true hlive
            have ha : a ∈ listOf st .timer := by show a ∈ st.timers; rw [hq]; exact List.mem_cons_self
            obtain ⟨fE, hun⟩ := lfacts_erase st a .timer b.wf ha
            rw [← pop_is_erase st a rest hq] at fE hun
            have halt : a < st.heap.length := b.wf.alloc ha
            -- the queue without its head: `a` is detached
            have li0 : Listed (a :: D) ({ st with timers := rest } : St) := by
              intro hok0 hal0 x hx hlx
              obtain ⟨l1, l2⟩ := b.li hok0 hal0 x hx hlx
              refine ⟨fun ht => ?_, fun ht => (l2 ht).imp id (List.mem_cons_of_mem _)⟩
              rcases l1 ht with e | e
              · rw [hq] at e
                simp only [List.mem_cons] at e
                rcases e with e | e
                · exact Or.inr (by simp [e])
                · exact Or.inl e
              · exact Or.inr (List.mem_cons_of_mem _ e)
            have b0 : B (a :: D) ({ st with timers := rest } : St) :=
              ⟨b.rep, fE.wf, K.of_q (Q.of_q0 (q0_with_timers st rest)) b.k, Once.none_of_q (Q.of_q0 (q0_with_timers st rest)) b.k b.o,
               li0, Gone.of_same rfl rfl rfl rfl b.g⟩
            have f1' := l_fireUser { st with timers := rest } (st.getW a).slot (EV_FIRE ||| EV_UNBIND) .none b.rep.1 fE.wf
            have hun1 := unlisted_after f1' (show a < ({ st with timers := rest } : St).heap.length from halt) hun
            -- the callback
            have x : After D (fireUser { st with timers := rest } (st.getW a).slot (EV_FIRE ||| EV_UNBIND) .none) a := by
              by_cases hk : (st.getW a).slot ≥ 0
              · exact after_fire D { st with timers := rest } a _ _ b0 halt hk hok' hlive'
              · rw [fireUser_neg _ _ _ _ b0.k (by omega)]
                exact After.of_b (b_emit _ _ _ b0) (by show (st.getW a).slot < 0; omega)
            simp only []
            split
            · rename_i hbad; exact x.b_of_not_ok (eq_false_of_not hbad)
            · split
              · rename_i hdead; exact b_fail _ _ _ (x.b_of_dead (eq_false_of_not hdead))
              · rename_i hl2
                exact ih _ _ (x.free (not_of_not_eq_true hl2) hun1)

theorem b_timerPhase (D : List Nat) (fuel : Nat) (st : St) : BStep D st (timerPhase fuel st) := by
  intro b
  unfold timerPhase
  split
  · exact b
  · rw [if_pos b.rep.1]
    exact b_timerLoopPopT _ _ _ _ (b_emit _ _ _ b)

theorem b_invokeTimers (D : List Nat) (fuel : Nat) (st : St) : BStep D st (invokeTimers fuel st) := by
  intro b
  unfold invokeTimers
  split
  · exact b
  · have w := b.wf
    have hc := b.rep.1
    -- detaching the later queue (as in `l_invokeTimers`)
    have f0 : LFacts st { st with laters := [] } := by
      have hsub : ∀ t, (listOf ({ st with laters := [] } : St) t).Sublist (listOf st t) := by
        intro t; cases t <;> first | exact List.Sublist.refl _ | exact List.nil_sublist _
      exact ⟨⟨fun t => (w.nodup t).sublist (hsub t), fun t b hb => w.live t b ((hsub t).subset hb),
        fun t b hb => w.typ t b ((hsub t).subset hb)⟩, Nat.le_refl _, fun t x hx => Or.inl ((hsub t).subset hx), rfl⟩
    have hdet : ∀ a ∈ st.laters, a < ({ st with laters := [] } : St).heap.length ∧ ∀ t, a ∉ listOf ({ st with laters := [] } : St) t := by
      intro a ha
      have ha' : a ∈ listOf st .later := ha
      refine ⟨w.alloc ha', ?_⟩
      intro t h
      have hsub : (listOf ({ st with laters := [] } : St) t).Sublist (listOf st t) := by
        cases t <;> first | exact List.Sublist.refl _ | exact List.nil_sublist _
      have h' := hsub.subset h
      by_cases ht : t = .later
      · subst ht; cases h
      · have h1 := w.typ t a h'
        have h2 := w.typ .later a ha'
        exact ht (h1.symm.trans h2)
    have li0 : Listed (st.laters ++ D) ({ st with laters := [] } : St) := by
      intro hok0 hal0 x hx hlx
      obtain ⟨l1, l2⟩ := b.li hok0 hal0 x hx hlx
      exact ⟨fun ht => (l1 ht).imp id (List.mem_append_right _),
             fun ht => Or.inr ((l2 ht).elim (List.mem_append_left _) (List.mem_append_right _))⟩
    have b0 : B (st.laters ++ D) ({ st with laters := [] } : St) :=
      ⟨b.rep, f0.wf, K.of_q (Q.of_q0 (q0_with_laters st [])) b.k, Once.none_of_q (Q.of_q0 (q0_with_laters st [])) b.k b.o,
       li0, Gone.of_same rfl rfl rfl rfl b.g⟩
    have f1' := l_timerPhase fuel { st with laters := [] } hc f0.wf
    have hm := mh_timerPhase fuel ({ st with laters := [] } : St)
    have hdet1 : ∀ a ∈ st.laters, a < (timerPhase fuel { st with laters := [] }).heap.length ∧
        (∀ t, a ∉ listOf (timerPhase fuel { st with laters := [] }) t) ∧
        (((timerPhase fuel { st with laters := [] }).getW a).type = .later ∨ ((timerPhase fuel { st with laters := [] }).getW a).type = .none) := by
      intro a ha
      refine ⟨Nat.lt_of_lt_of_le (hdet a ha).1 f1'.len, unlisted_after f1' (hdet a ha).1 (hdet a ha).2, ?_⟩
      have hty : (st.getW a).type = .later := w.typ .later a ha
      rcases hm.typ a (hdet a ha).1 with e | e
      · left; rw [e]; exact hty
      · exact Or.inr e
    exact b_laterLoopT D st.laters _ hdet1 (b_timerPhase _ _ _ b0)

/-! signals -/

theorem b_sigCb (D : List Nat) (fuel : Nat) (st : St) (a : Nat) (s : Int) (ha : a < st.heap.length) (ht : isOneShot (st.getW a).type = false)
    (hok : st.isOk = true) : BStep D st (sigCb fuel st a s) := by
  unfold sigCb
  split
  · split
    · rename_i hk; exact b_fire_other D st a _ _ ha ht hk hok
    · split
      · exact b_onSigchldAny _ _ _
      · split
        · exact BStep.of_q0 (q0_with_stillRunning _ _) (g4_with_stillRunning _ _).lstep (r2_with_stillRunning _ _ _)
        · exact BStep.refl _ _
  · exact BStep.refl _ _

theorem b_sigSnapLoopT (D : List Nat) (fuel : Nat) (s : Int) (l : List Nat) : ∀ st : St, BStep D st (sigSnapLoopT fuel st s l).1 := by
  induction l with
  | nil => intro st; exact BStep.refl _ st
  | cons a rest ih =>
    intro st
    unfold sigSnapLoopT
    split
    · exact BStep.refl _ _
    · rename_i hok
      split
      · exact b_fail _ _ _
      · split
        · exact ih _
        · rename_i hin
          split
          · exact b_fail _ _ _
          · intro b
            have hmem : a ∈ listOf st .signal := by
              have : st.signals.contains a = true := not_of_not_eq_true hin
              show a ∈ st.signals
              simpa using this
            have hty := b.wf.typ .signal a hmem
            exact ih _ (b_sigCb D fuel st a s (b.wf.alloc hmem) (by rw [hty]; rfl) (not_of_not_eq_true hok) b)

theorem b_sigDispatch (D : List Nat) (fuel : Nat) (st : St) (s : Int) : BStep D st (sigDispatch fuel st s) := by
  intro b
  unfold sigDispatch
  rw [if_pos b.rep.2.2.1]
  split
  · exact b_fail _ _ _ b
  · exact b_sigSnapLoopT _ _ _ _ _ b

theorem b_dispatchLoop (D : List Nat) (fuel : Nat) (pending : List Int) (l : List Int) : ∀ st : St, BStep D st (dispatchLoop fuel st pending l) := by
  induction l with
  | nil => intro st; exact BStep.refl _ st
  | cons s rest ih =>
    intro st
    unfold dispatchLoop
    refine BStep.trans ?_ (ih _)
    split
    · exact b_sigDispatch _ _ _ _
    · exact BStep.refl _ _

theorem b_dispatchSignals (D : List Nat) (fuel : Nat) (st : St) : BStep D st (dispatchSignals fuel st) := by
  unfold dispatchSignals
  exact (BStep.of_q0 (q0_with_pendingSig st []) (g4_with_pendingSig st []).lstep (r2_with_pendingSig _ _ _)).trans (b_dispatchLoop _ _ _ _ _)

/-! descriptors -/

theorem b_ioCb (D : List Nat) (st : St) (s : PollSlot) (hs : s ∈ st.pfd) : BStep D st (ioCb st s) := by
  intro b
  unfold ioCb
  split
  · rename_i a hw
    obtain ⟨h1, h2⟩ := b.k.p1 s hs a hw
    split
    · exact b_fail _ _ _ b
    · exact b_invokeWatch _ _ _ _ _ h1 h2 b
  · exact b

theorem getD_mem_pfd {l : List PollSlot} {i : Nat} (h : i < l.length) : l.getD i default ∈ l := by
  rw [List.getD_eq_getElem?_getD, List.getElem?_eq_getElem h]
  exact List.getElem_mem h

theorem b_ioLoopT (D : List Nat) (fuel : Nat) : ∀ (st : St) (idx : Nat), BStep D st (ioLoopT fuel st idx).1 := by
  induction fuel with
  | zero => intro st idx; unfold ioLoopT; exact b_outOfFuel _ st
  | succ n ih =>
    intro st idx
    unfold ioLoopT
    split
    · exact BStep.refl _ _
    · split
      · exact BStep.refl _ _
      · rename_i hidx
        split
        · exact ih _ _
        · split
          · exact ih _ _
          · exact (b_ioCb _ _ _ (getD_mem_pfd (by omega))).trans (ih _ _)

theorem b_ioLoop (D : List Nat) (fuel : Nat) (st : St) (idx : Nat) : BStep D st (ioLoop fuel st idx) := b_ioLoopT D fuel st idx

/-! the wait -/

theorem q0_foldl_raiseSig (l : List Int) : ∀ st : St, Q0 st (l.foldl raiseSig st) := by
  induction l with
  | nil => intro st; exact Q0.refl st
  | cons s rest ih => intro st; exact (q0_raiseSig st s).trans (ih _)

theorem r2_foldl_raiseSig (l : List Int) : ∀ st : St, R2 [] st (l.foldl raiseSig st) := by
  induction l with
  | nil => intro st; exact R2.refl _ st
  | cons s rest ih => intro st; exact (r2_raiseSig [] st s).trans (ih _)

theorem q0_pollScan (st : St) : Q0 st (pollScan st) :=
  Q0.of_eq rfl rfl rfl (by unfold pollScan; simp [List.map_map, Function.comp_def])
theorem r2_pollScan (st : St) : R2 [] st (pollScan st) := R2.of_eq rfl rfl rfl rfl rfl rfl

theorem q0_pollRaise (st : St) : Q0 st (pollRaise st) := by
  unfold pollRaise
  exact (q0_with_inpoll st []).trans (q0_foldl_raiseSig _ _)
theorem r2_pollRaise (st : St) : R2 [] st (pollRaise st) := by
  unfold pollRaise
  exact (r2_with_inpoll [] st []).trans (r2_foldl_raiseSig _ _)

theorem q0_pollTimeout (st : St) (t : Option Int) : Q0 st (pollTimeout st t) := by
  unfold pollTimeout
  split
  · exact Q0.of_eq rfl rfl rfl rfl
  · exact Q0.refl _
theorem r2_pollTimeout (st : St) (t : Option Int) : R2 [] st (pollTimeout st t) := by
  unfold pollTimeout
  split
  · exact R2.of_eq rfl rfl rfl rfl rfl rfl
  · exact R2.refl _ _

theorem q0_deliverPending (st : St) : Q0 st (deliverPending st) := by
  unfold deliverPending
  split <;> exact Q0.of_eq rfl rfl rfl rfl
theorem r2_deliverPending (st : St) : R2 [] st (deliverPending st) := by
  unfold deliverPending
  split <;> exact R2.of_eq rfl rfl rfl rfl rfl rfl

theorem q0_ppoll (st : St) (t : Option Int) : Q0 st (ppoll st t).1 := by
  unfold ppoll
  split
  · exact (q0_pollScan st).trans (q0_pollRaise _)
  · split
    · exact ((q0_pollScan st).trans (q0_pollRaise _)).trans (q0_emit _ _)
    · split
      · exact ((((q0_pollScan st).trans (q0_pollRaise _)).trans (q0_deliverPending _)).trans (q0_with_errno _ _)).trans (q0_emit _ _)
      · exact (((q0_pollScan st).trans (q0_pollRaise _)).trans (q0_pollTimeout _ _)).trans (q0_emit _ _)
theorem r2_ppoll (st : St) (t : Option Int) : R2 [] st (ppoll st t).1 := by
  unfold ppoll
  split
  · exact (r2_pollScan st).trans (r2_pollRaise _)
  · split
    · exact ((r2_pollScan st).trans (r2_pollRaise _)).trans (r2_emit _ _ _)
    · split
      · exact ((((r2_pollScan st).trans (r2_pollRaise _)).trans (r2_deliverPending _)).trans (r2_with_errno _ _ _)).trans (r2_emit _ _ _)
      · exact (((r2_pollScan st).trans (r2_pollRaise _)).trans (r2_pollTimeout _ _)).trans (r2_emit _ _ _)

theorem q0_nextTimerMsec (st : St) : Q0 st (nextTimerMsec st).1 := by
  unfold nextTimerMsec
  split
  · exact Q0.refl _
  · split
    · exact Q0.refl _
    · split
      · exact (q0_emit _ _).trans (q0_fail _ _)
      · exact q0_emit _ _
theorem r2_nextTimerMsec (st : St) : R2 [] st (nextTimerMsec st).1 := by
  unfold nextTimerMsec
  split
  · exact R2.refl _ _
  · split
    · exact R2.refl _ _
    · split
      · exact (r2_emit _ _ _).trans (r2_fail _ _ _)
      · exact r2_emit _ _ _

theorem b_tickAfterPoll (D : List Nat) (fuel : Nat) (st : St) (ret : Option Nat) : BStep D st (tickAfterPoll fuel st ret) := by
  unfold tickAfterPoll
  split
  · exact b_invokeTimers _ _ _
  · split
    · split
      · exact (b_invokeTimers _ _ _).trans (b_ioLoop _ _ _ _)
      · exact b_invokeTimers _ _ _
    · split
      · exact (b_invokeTimers _ _ _).trans (b_dispatchSignals _ _ _)
      · exact b_invokeTimers _ _ _

theorem b_tick (D : List Nat) (fuel : Nat) (st : St) (nohang : Bool) : BStep D st (tick fuel st nohang) := by
  unfold tick
  split
  · exact BStep.refl _ _
  · split
    · exact BStep.of_q0 (q0_nextTimerMsec _) (g4_nextTimerMsec _).lstep (r2_nextTimerMsec _)
    · split
      · exact BStep.of_q0 ((q0_nextTimerMsec _).trans (q0_ppoll _ _)) ((g4_nextTimerMsec _).trans (g4_ppoll _ _)).lstep
          ((r2_nextTimerMsec _).trans (r2_ppoll _ _))
      · exact (BStep.of_q0 ((q0_nextTimerMsec _).trans (q0_ppoll _ _)) ((g4_nextTimerMsec _).trans (g4_ppoll _ _)).lstep
          ((r2_nextTimerMsec _).trans (r2_ppoll _ _))).trans (b_tickAfterPoll _ _ _ _)

theorem q0_ppollRun (st : St) (t : Option Int) : Q0 st (ppollRun st t).1 := by
  unfold ppollRun
  split
  · exact q0_ppoll _ _
  · split
    · exact ((q0_ppoll st t).trans (Q0.of_eq rfl rfl rfl rfl : Q0 (ppoll st t).1
        { (ppoll st t).1 with runPolls := (ppoll st t).1.runPolls + 1, stillRunning := false })).trans (q0_emit _ _)
    · exact (q0_ppoll st t).trans (Q0.of_eq rfl rfl rfl rfl : Q0 (ppoll st t).1
        { (ppoll st t).1 with runPolls := (ppoll st t).1.runPolls + 1 })
theorem r2_ppollRun (st : St) (t : Option Int) : R2 [] st (ppollRun st t).1 := by
  unfold ppollRun
  split
  · exact r2_ppoll _ _
  · split
    · exact ((r2_ppoll st t).trans (R2.of_eq rfl rfl rfl rfl rfl rfl : R2 [] (ppoll st t).1
        { (ppoll st t).1 with runPolls := (ppoll st t).1.runPolls + 1, stillRunning := false })).trans (r2_emit _ _ _)
    · exact (r2_ppoll st t).trans (R2.of_eq rfl rfl rfl rfl rfl rfl : R2 [] (ppoll st t).1
        { (ppoll st t).1 with runPolls := (ppoll st t).1.runPolls + 1 })

theorem b_runIter (D : List Nat) (fuel : Nat) (st : St) : BStep D st (runIter fuel st) := by
  unfold runIter
  split
  · exact BStep.refl _ _
  · split
    · exact BStep.of_q0 (q0_nextTimerMsec _) (g4_nextTimerMsec _).lstep (r2_nextTimerMsec _)
    · split
      · exact BStep.of_q0 ((q0_nextTimerMsec _).trans (q0_ppollRun _ _)) ((g4_nextTimerMsec _).trans (g4_ppollRun _ _)).lstep
          ((r2_nextTimerMsec _).trans (r2_ppollRun _ _))
      · exact (BStep.of_q0 ((q0_nextTimerMsec _).trans (q0_ppollRun _ _)) ((g4_nextTimerMsec _).trans (g4_ppollRun _ _)).lstep
          ((r2_nextTimerMsec _).trans (r2_ppollRun _ _))).trans (b_tickAfterPoll _ _ _ _)

theorem b_runLoop (D : List Nat) (fuel : Nat) (n : Nat) : ∀ st : St, BStep D st (runLoop fuel n st) := by
  induction n with
  | zero => intro st; unfold runLoop; exact b_outOfFuel _ st
  | succ k ih =>
    intro st
    unfold runLoop
    split
    · exact BStep.refl _ _
    · split
      · exact BStep.refl _ _
      · exact (b_runIter _ _ _).trans (ih _)

theorem q0_with_inRun (st : St) (b : Bool) : Q0 st { st with inRun := b } := Q0.of_eq rfl rfl rfl rfl
theorem b_with_inRun (D : List Nat) (st : St) (b : Bool) : BStep D st { st with inRun := b } :=
  BStep.of_q0 (q0_with_inRun st b) (g4_with_inRun st b).lstep (r2_with_inRun _ _ _)

/-- `tickit_watch_cancel` of a watch that is not a timer / deferred callback (the loop's own signal watches). -/
theorem b_watchCancel_other (D : List Nat) (st : St) (a : Nat) (ht : isOneShot (st.getW a).type = false) : BStep D st (watchCancel st a) := by
  intro b
  by_cases ha : a < st.heap.length
  · exact BStep.of_q0 (q0_watchCancel st a) (l_watchCancel st a) (r2_watchCancel _ st a (Or.inl ht) (b.k.p3 a ha)) b
  · -- not allocated: `tickit_watch_cancel` reads a freed watch
    have hl : st.live a = false := by
      cases h : st.live a with
      | false => rfl
      | true => exact absurd (St.live_lt h) ha
    have hno : (st.getW a).notify = none := by
      unfold St.getW
      rw [List.getD_eq_getElem?_getD, List.getElem?_eq_none (by omega)]
      rfl
    exact BStep.of_q0 (q0_watchCancel st a) (l_watchCancel st a) (r2_watchCancel _ st a (Or.inl ht) (fun l h => by rw [hno] at h; cases h)) b

/-- The watch `tickit_watch_signal` makes is a signal watch. -/
theorem type_watchSignal (st : St) (signum : Int) (flags : Nat) (slot : Int) :
    st.heap.length < (watchSignal st signum flags slot).1.heap.length ∧
    isOneShot ((watchSignal st signum flags slot).1.getW st.heap.length).type = false := by
  have hA := mh_alloc st { type := .signal, flags := flags &&& (BIND_UNBIND ||| BIND_DESTROY), slot := slot, signum := signum }
  have hgw := getW_alloc_new st { type := .signal, flags := flags &&& (BIND_UNBIND ||| BIND_DESTROY), slot := slot, signum := signum }
  have hlen := alloc_len st { type := .signal, flags := flags &&& (BIND_UNBIND ||| BIND_DESTROY), slot := slot, signum := signum }
  have hm : MH (st.alloc { type := .signal, flags := flags &&& (BIND_UNBIND ||| BIND_DESTROY), slot := slot, signum := signum }).1
      (watchSignal st signum flags slot).1 := by
    unfold watchSignal watchSignalPre
    exact (((mh_evloopSignal _ _).trans (mh_setEvi _ _ _)).trans (mh_insertWatch _ _ _ _)).trans (MH.of_heap_eq rfl rfl)
  have hlt : st.heap.length < (st.alloc { type := .signal, flags := flags &&& (BIND_UNBIND ||| BIND_DESTROY), slot := slot, signum := signum }).1.heap.length := by
    rw [hlen]; omega
  exact ⟨Nat.lt_of_lt_of_le hlt hm.len, hm.notOneShot hlt (by rw [hgw]; rfl)⟩

theorem b_run (D : List Nat) (fuel : Nat) (st : St) : BStep D st (run fuel st) := by
  have h0 : BStep D st { (watchSignal st 2 0 (-5)).1 with stillRunning := true, inRun := true, runPolls := 0 } :=
    BStep.of_q0 (((reg_watchSignal st 2 0 (-5) (by decide)).q0 (by decide)).trans (Q0.of_eq rfl rfl rfl rfl))
      ((lstep_watchSignal st 2 0 (-5)).trans (g4_run_flags _).lstep)
      ((r2_watchSignal [] st 2 0 (-5)).trans (R2.of_eq rfl rfl rfl rfl rfl rfl))
  unfold run
  split
  · exact BStep.refl _ _
  · split
    · exact h0.trans (b_runLoop _ _ _ _)
    · intro b
      obtain ⟨hlt, hty⟩ := type_watchSignal st 2 0 (-5)
      have hm := mh_runLoop fuel (maxRunPolls + 2) { (watchSignal st 2 0 (-5)).1 with stillRunning := true, inRun := true, runPolls := 0 }
      have hty' := hm.notOneShot (show st.heap.length < ({ (watchSignal st 2 0 (-5)).1 with stillRunning := true, inRun := true, runPolls := 0 } : St).heap.length from hlt) hty
      exact b_watchCancel_other D _ _ hty' (b_with_inRun _ _ _ (b_runLoop _ _ _ _ (h0 b)))

/-! ### destruction, whole operations, histories -/

theorem q0_destroyNotify (st : St) (a : Nat) : Q0 st (destroyNotify st a) := by
  unfold destroyNotify
  split
  · exact q0_notify _ _ _
  · exact Q0.refl _

theorem q0_destroyList (t : WType) (l : List Nat) : ∀ st : St, Q0 st (destroyList st t l) := by
  induction l with
  | nil => intro st; exact Q0.refl st
  | cons a rest ih =>
    intro st
    unfold destroyList
    split
    · exact Q0.refl _
    · split
      · exact q0_fail _ _
      · exact (((q0_destroyNotify _ _).trans (q0_cancelHook _ _ _)).trans (q0_free _ a)).trans (ih _)

theorem q0_destroyOf (t : WType) (st : St) : Q0 st (destroyOf t st) := q0_destroyList _ _ _

theorem q0_cancelSigchld (st : St) : Q0 st (cancelSigchld st) := by
  unfold cancelSigchld
  split
  · exact q0_watchCancel _ _
  · exact Q0.refl _

theorem q0_destroyFinish (st : St) : Q0 st (destroyFinish st) := by
  unfold destroyFinish
  split
  · exact Q0.of_eq rfl rfl rfl rfl
  · exact Q0.refl _

theorem q0_destroy (st : St) : Q0 st (destroy st) := by
  unfold destroy
  split
  · exact Q0.refl _
  · exact ((((((q0_cancelSigchld st).trans (q0_destroyOf _ _)).trans (q0_destroyOf _ _)).trans (q0_destroyOf _ _)).trans
      (q0_destroyOf _ _)).trans (q0_destroyOf _ _)).trans (q0_destroyFinish _)

/-- A destruction that completes leaves a dead instance. -/
theorem alive_destroy (st : St) (hok : (destroy st).isOk = true) : (destroy st).alive = false := by
  unfold destroy at hok ⊢
  split
  · rename_i h; rw [if_pos h] at hok; rw [hok] at h; cases h
  · rename_i h
    rw [if_neg h] at hok
    unfold destroyFinish at hok ⊢
    split
    · rfl
    · rename_i h2; rw [if_neg h2] at hok; exact absurd hok h2

/-- `K`, `Once`, `Listed`, `Gone` after `tickit_unref` that completes. -/
theorem ko_destroy (s0 : St) (b0 : B [] s0) (hok : (applyOp' s0 .destroy).isOk = true) :
    K (applyOp' s0 .destroy) ∧ Once none (applyOp' s0 .destroy) ∧ Listed [] (applyOp' s0 .destroy) ∧ Gone (applyOp' s0 .destroy) := by
  have bk : ∀ s1, B [] s1 → K s1 ∧ Once none s1 ∧ Listed [] s1 ∧ Gone s1 := fun s1 x => ⟨x.k, x.o, x.li, x.g⟩
  unfold applyOp' at hok ⊢
  split
  · exact bk _ b0
  · rename_i hs
    rw [if_neg hs] at hok
    simp only [] at hok ⊢
    split
    · exact bk _ b0
    · rename_i ha
      rw [if_neg ha] at hok
      have hdead : (destroy s0).alive = false := alive_destroy s0 hok
      have q := Q.of_q0 (q0_destroy s0)
      exact ⟨K.of_q q b0.k, Once.none_of_q q b0.k b0.o, fun _ hal => (by rw [hdead] at hal; cases hal),
             fun hal => (by rw [hdead] at hal; cases hal)⟩

/-- `K`, `Once`, `Listed`, `Gone` after one operation of the harness that ends in an ok state. -/
theorem ko_applyOp (st : St) (op : Op) (b : B [] st) (hok : (applyOp st op).isOk = true) :
    K (applyOp st op) ∧ Once none (applyOp st op) ∧ Listed [] (applyOp st op) ∧ Gone (applyOp st op) := by
  unfold applyOp at hok ⊢
  have b0 : B [] ({ st with log := [] } : St) :=
    BStep.of_q0 (Q0.of_eq rfl rfl rfl rfl : Q0 st { st with log := [] })
      (G4.of_eq rfl rfl rfl rfl rfl rfl rfl : G4 st { st with log := [] }).lstep (R2.of_eq rfl rfl rfl rfl rfl rfl) b
  generalize ({ st with log := [] } : St) = s0 at b0 hok
  by_cases hd : op = .destroy
  · subst hd; exact ko_destroy s0 b0 hok
  have qk : ∀ s1, Q0 s0 s1 → R2 [] s0 s1 → K s1 ∧ Once none s1 ∧ Listed [] s1 ∧ Gone s1 := fun s1 q r =>
    ⟨K.of_q (Q.of_q0 q) b0.k, Once.none_of_q (Q.of_q0 q) b0.k b0.o, Listed.of_r2 r b0.li, Gone.of_r2 r (Q.of_q0 q) b0.k b0.g⟩
  have bk : ∀ s1, B [] s1 → K s1 ∧ Once none s1 ∧ Listed [] s1 ∧ Gone s1 := fun s1 x => ⟨x.k, x.o, x.li, x.g⟩
  unfold applyOp'
  split
  · exact bk _ b0
  · split
    · exact bk _ b0
    · exact bk _ b0
    · exact bk _ b0
    · split
      · exact bk _ b0
      · split
        · exact qk _ (Q0.of_eq rfl rfl rfl rfl) (R2.of_eq rfl rfl rfl rfl rfl rfl)
        · exact bk _ (BStep.of_q (q_runAct s0 _) (l_runAct s0 _) (r2_runAct s0 _ b0.k) b0)
        · exact qk _ (Q0.of_eq rfl rfl rfl rfl) (R2.of_eq rfl rfl rfl rfl rfl rfl)
        · exact qk _ (Q0.of_eq rfl rfl rfl rfl) (R2.of_eq rfl rfl rfl rfl rfl rfl)
        · exact qk _ (Q0.of_eq rfl rfl rfl rfl) (R2.of_eq rfl rfl rfl rfl rfl rfl)
        · exact bk _ (b_tick _ _ _ _ (BStep.of_q0 (q0_with_stillRunning s0 true) (g4_with_stillRunning s0 true).lstep (r2_with_stillRunning _ _ _) b0))
        · exact bk _ (b_tick _ _ _ _ (BStep.of_q0 (q0_with_stillRunning s0 true) (g4_with_stillRunning s0 true).lstep (r2_with_stillRunning _ _ _) b0))
        · exact bk _ (b_run _ _ _ b0)
        · exact absurd rfl hd
        · exact bk _ b0

theorem b_applyOp (st : St) (op : Op) (b : B [] st) (hok : (applyOp st op).status = .ok) : B [] (applyOp st op) := by
  obtain ⟨w, hc⟩ := cfg_applyOp_eq st op b.rep.1 b.wf hok
  obtain ⟨k, o, li, g⟩ := ko_applyOp st op b ((St.isOk_iff _).mpr hok)
  exact ⟨by rw [hc]; exact b.rep, w, k, o, li, g⟩

theorem b_build (cfg : Config) (hr : Rep cfg) : B [] (build cfg) := by
  obtain ⟨w, hc⟩ := wf_build cfg hr.1
  have k0 : K (build0 cfg) :=
    ⟨fun a ha => (by cases ha), List.nodup_nil, fun r hr => (by cases hr), fun s hs => (by cases hs), fun l hl => (by cases hl),
     fun r hr => (by cases hr), fun x hx => (by cases hx)⟩
  have o0 : Once none (build0 cfg) := fun r hr => by cases hr
  have l0 : Listed [] (build0 cfg) := fun _ _ a ha => by cases ha
  have g0 : Gone (build0 cfg) := fun _ r hr => by cases hr
  have q : Q0 (build0 cfg) (build cfg) := by
    unfold build
    exact (((reg_watchIo (build0 cfg) (-1) IO_IN 0 (-1) (by decide)).q0 (by decide)).trans
      ((reg_watchSignal _ SIGWINCH 0 (-2) (by decide)).q0 (by decide))).trans (Q0.of_eq rfl rfl rfl rfl)
  have r : R2 [] (build0 cfg) (build cfg) := by
    unfold build
    exact ((r2_watchIo [] (build0 cfg) (-1) IO_IN 0 (-1)).trans (r2_watchSignal [] _ SIGWINCH 0 (-2))).trans (R2.of_eq rfl rfl rfl rfl rfl rfl)
  exact ⟨by rw [hc]; exact hr, w, K.of_q (Q.of_q0 q) k0, Once.none_of_q (Q.of_q0 q) k0 o0, Listed.of_r2 r l0,
         Gone.of_r2 r (Q.of_q0 q) k0 g0⟩

/-- Every state a history reaches under the repaired source, if its status is ok, has the bundle. -/
theorem b_runOps (cfg : Config) (hr : Rep cfg) (ops : List Op) (hok : (runOps cfg ops).status = .ok) : B [] (runOps cfg ops) := by
  unfold runOps at hok ⊢
  have : ∀ (l : List Op) (st : St), B [] st → (l.foldl applyOp st).status = .ok → B [] (l.foldl applyOp st) := by
    intro l
    induction l with
    | nil => intro st b _; exact b
    | cons o rest ih =>
      intro st b hfin
      simp only [List.foldl_cons] at hfin ⊢
      have hmid : (applyOp st o).status = .ok := by
        apply Classical.byContradiction
        intro hne
        have : ∀ (l : List Op) (s : St), s.status ≠ .ok → (l.foldl applyOp s).status ≠ .ok := by
          intro l
          induction l with
          | nil => intro s hs; exact hs
          | cons o' r' ih' => intro s hs; exact ih' _ (status_applyOp_of_not_ok s o' hs)
        exact this rest _ hne hfin
      exact ih _ (b_applyOp st o b hmid) hfin
  exact this ops _ (b_build cfg hr) hok

end Tickit.EvLoop
