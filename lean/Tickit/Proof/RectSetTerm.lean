import Tickit.Proof.RectSetInv
/-
  Termination of `tickit_rectset_add` / `tickit_rectset_subtract` on arrays that have the invariant (C05).

  The measure of a call `add s cur` is the lexicographic triple
    (number of cells of `cur` already covered by `s`,
     number of unit vertical edges of `cur` with a covered cell on their outer side,
     number of members of `s`);
  every nested call (after a stretch, or on a piece after a split) has a strictly smaller measure.
  All counting is done with lists of cells/rows, so only linear arithmetic is needed.
-/
namespace Tickit
namespace RectSet
open Rect

/-! ### more fuel never hurts -/

theorem add_addMany_mono (fuel : Nat) :
    (∀ s cur s', add fuel s cur = some s' → add (fuel + 1) s cur = some s') ∧
    (∀ s ps s', addMany fuel s ps = some s' → addMany (fuel + 1) s ps = some s') := by
  induction fuel with
  | zero =>
    refine ⟨?_, ?_⟩
    · intro s cur s' h; simp [add] at h
    · intro s ps s' h
      cases ps with
      | nil => simp [addMany] at h ⊢; exact h
      | cons p ps => simp [addMany] at h
  | succ n ih =>
    obtain ⟨ihA, ihM⟩ := ih
    refine ⟨?_, ?_⟩
    · intro s cur s' h
      unfold add at h
      unfold add
      split at h
      · exact h
      · exact h
      · exact ihA _ _ _ h
      · exact ihM _ _ _ h
    · intro s ps s' h
      cases ps with
      | nil => simp [addMany] at h ⊢; exact h
      | cons p ps =>
        unfold addMany at h
        unfold addMany
        split at h
        · cases h
        · rename_i s1 hadd
          rw [ihA _ _ _ hadd]
          exact ihM _ _ _ h

theorem add_mono {fuel fuel' : Nat} {s : List Rect} {cur : Rect} {s' : List Rect}
    (h : add fuel s cur = some s') (hle : fuel ≤ fuel') : add fuel' s cur = some s' := by
  induction hle with
  | refl => exact h
  | step _ ih => exact (add_addMany_mono _).1 _ _ _ ih

theorem addMany_mono {fuel fuel' : Nat} {s ps s' : List Rect}
    (h : addMany fuel s ps = some s') (hle : fuel ≤ fuel') : addMany fuel' s ps = some s' := by
  induction hle with
  | refl => exact h
  | step _ ih => exact (add_addMany_mono _).2 _ _ _ ih

/-! ### counting with lists -/

theorem filter_len_le {α : Type} [DecidableEq α] {L1 L2 : List α} {P Q : α → Bool} (nd : L1.Nodup)
    (h : ∀ x ∈ L1, P x = true → x ∈ L2 ∧ Q x = true) :
    (L1.filter P).length ≤ (L2.filter Q).length := by
  apply List.Nodup.length_le_of_subset (List.Pairwise.filter P nd)
  intro x hx
  rw [List.mem_filter] at hx ⊢
  exact h x hx.1 hx.2

theorem filter_len_lt {α : Type} [DecidableEq α] {L1 L2 : List α} {P Q : α → Bool} (nd : L1.Nodup)
    (h : ∀ x ∈ L1, P x = true → x ∈ L2 ∧ Q x = true)
    (y : α) (hy : y ∈ L2) (hq : Q y = true) (hny : ¬ (y ∈ L1 ∧ P y = true)) :
    (L1.filter P).length < (L2.filter Q).length := by
  have hyf : y ∈ L2.filter Q := List.mem_filter.2 ⟨hy, hq⟩
  have hsub : L1.filter P ⊆ (L2.filter Q).erase y := by
    intro x hx
    rw [List.mem_filter] at hx
    have hxy : x ≠ y := by rintro rfl; exact hny hx
    rw [List.mem_erase_of_ne hxy, List.mem_filter]
    exact h x hx.1 hx.2
  have h1 := List.Nodup.length_le_of_subset (List.Pairwise.filter P nd) hsub
  rw [List.length_erase_of_mem hyf] at h1
  have h2 : 0 < (L2.filter Q).length := List.length_pos_of_mem hyf
  omega

/-- The integers `a, a+1, …, a+n-1`. -/
def rangeI (a : Int) (n : Nat) : List Int := (List.range n).map (fun (k : Nat) => a + (k : Int))

theorem mem_rangeI {a : Int} {n : Nat} {x : Int} : x ∈ rangeI a n ↔ a ≤ x ∧ x < a + n := by
  unfold rangeI
  simp only [List.mem_map, List.mem_range]
  constructor
  · rintro ⟨k, hk, rfl⟩; omega
  · intro h; exact ⟨(x - a).toNat, by omega, by omega⟩

theorem nodup_rangeI (a : Int) (n : Nat) : (rangeI a n).Nodup := by
  unfold rangeI List.Nodup
  rw [List.pairwise_map]
  exact (List.nodup_range (n := n)).imp (fun {x y} h e => h (by omega))

/-- The rows and the cells of a rectangle. -/
def rowsOf (r : Rect) : List Int := rangeI r.top r.lines.toNat
def cells (r : Rect) : List (Int × Int) :=
  (rowsOf r).flatMap (fun l => (rangeI r.left r.cols.toNat).map (fun c => (l, c)))

theorem mem_rowsOf {r : Rect} {l : Int} : l ∈ rowsOf r ↔ r.top ≤ l ∧ l < r.bottom := by
  unfold rowsOf; rw [mem_rangeI]; unfold Rect.bottom; omega

theorem mem_cells {r : Rect} {l c : Int} : (l, c) ∈ cells r ↔ r.Mem l c := by
  unfold cells
  simp only [List.mem_flatMap, List.mem_map, Prod.mk.injEq]
  constructor
  · rintro ⟨l', hl, c', hc, rfl, rfl⟩
    rw [mem_rowsOf] at hl; rw [mem_rangeI] at hc
    rs_omega
  · intro h
    refine ⟨l, mem_rowsOf.2 (by rs_omega), c, mem_rangeI.2 (by rs_omega), rfl, rfl⟩

theorem nodup_cells (r : Rect) : (cells r).Nodup := by
  unfold cells List.Nodup
  rw [List.pairwise_flatMap]
  refine ⟨?_, ?_⟩
  · intro l _
    rw [List.pairwise_map]
    exact (nodup_rangeI _ _).imp (fun {x y} h e => h (by injection e))
  · refine (nodup_rangeI _ _).imp ?_
    intro l1 l2 hne x hx y hy e
    simp only [List.mem_map] at hx hy
    obtain ⟨_, _, rfl⟩ := hx
    obtain ⟨_, _, rfl⟩ := hy
    injection e with e1 _
    exact hne e1

theorem coveredb_iff (s : List Rect) (l c : Int) : coveredb s l c = true ↔ Covered s l c := by
  unfold coveredb Covered
  simp only [List.any_eq_true, memb_iff]

/-! ### the measure -/

/-- Cells of `cur` already covered by `s`. -/
def mA (s : List Rect) (cur : Rect) : Nat :=
  ((cells cur).filter (fun x => coveredb s x.1 x.2)).length
/-- Rows of `cur` whose cell just left of `cur` is covered. -/
def mL (s : List Rect) (cur : Rect) : Nat :=
  ((rowsOf cur).filter (fun l => coveredb s l (cur.left - 1))).length
/-- Rows of `cur` whose cell just right of `cur` is covered. -/
def mR (s : List Rect) (cur : Rect) : Nat :=
  ((rowsOf cur).filter (fun l => coveredb s l cur.right)).length

theorem mA_le {s t : List Rect} {cur p : Rect}
    (h : ∀ l c, p.Mem l c → Covered t l c → cur.Mem l c ∧ Covered s l c) : mA t p ≤ mA s cur := by
  unfold mA
  apply filter_len_le (nodup_cells p)
  rintro ⟨l, c⟩ hx hP
  rw [mem_cells] at hx
  simp only [coveredb_iff] at hP ⊢
  rw [mem_cells]
  exact h l c hx hP

theorem mA_lt {s t : List Rect} {cur p : Rect}
    (h : ∀ l c, p.Mem l c → Covered t l c → cur.Mem l c ∧ Covered s l c)
    (l0 c0 : Int) (h1 : cur.Mem l0 c0) (h2 : Covered s l0 c0) (h3 : ¬ (p.Mem l0 c0 ∧ Covered t l0 c0)) :
    mA t p < mA s cur := by
  unfold mA
  apply filter_len_lt (nodup_cells p) _ (l0, c0) (mem_cells.2 h1)
  · simp only [coveredb_iff]; exact h2
  · simp only [coveredb_iff, mem_cells]; exact h3
  · rintro ⟨l, c⟩ hx hP
    rw [mem_cells] at hx
    simp only [coveredb_iff] at hP ⊢
    rw [mem_cells]
    exact h l c hx hP

theorem mL_le {s t : List Rect} {cur p : Rect}
    (h : ∀ l, p.top ≤ l → l < p.bottom → Covered t l (p.left - 1) →
      cur.top ≤ l ∧ l < cur.bottom ∧ Covered s l (cur.left - 1)) : mL t p ≤ mL s cur := by
  unfold mL
  apply filter_len_le (nodup_rangeI _ _)
  intro l hx hP
  have hx' := mem_rowsOf.1 hx
  simp only [coveredb_iff] at hP ⊢
  obtain ⟨a, b, c⟩ := h l hx'.1 hx'.2 hP
  exact ⟨mem_rowsOf.2 ⟨a, b⟩, c⟩

theorem mL_lt {s t : List Rect} {cur p : Rect}
    (h : ∀ l, p.top ≤ l → l < p.bottom → Covered t l (p.left - 1) →
      cur.top ≤ l ∧ l < cur.bottom ∧ Covered s l (cur.left - 1))
    (l0 : Int) (h1 : cur.top ≤ l0 ∧ l0 < cur.bottom) (h2 : Covered s l0 (cur.left - 1))
    (h3 : ¬ ((p.top ≤ l0 ∧ l0 < p.bottom) ∧ Covered t l0 (p.left - 1))) : mL t p < mL s cur := by
  unfold mL
  apply filter_len_lt (nodup_rangeI _ _) _ l0 (mem_rowsOf.2 h1)
  · simp only [coveredb_iff]; exact h2
  · simp only [coveredb_iff]
    rintro ⟨a, b⟩
    exact h3 ⟨mem_rowsOf.1 a, b⟩
  · intro l hx hP
    have hx' := mem_rowsOf.1 hx
    simp only [coveredb_iff] at hP ⊢
    obtain ⟨a, b, c⟩ := h l hx'.1 hx'.2 hP
    exact ⟨mem_rowsOf.2 ⟨a, b⟩, c⟩

theorem mR_le {s t : List Rect} {cur p : Rect}
    (h : ∀ l, p.top ≤ l → l < p.bottom → Covered t l p.right →
      cur.top ≤ l ∧ l < cur.bottom ∧ Covered s l cur.right) : mR t p ≤ mR s cur := by
  unfold mR
  apply filter_len_le (nodup_rangeI _ _)
  intro l hx hP
  have hx' := mem_rowsOf.1 hx
  simp only [coveredb_iff] at hP ⊢
  obtain ⟨a, b, c⟩ := h l hx'.1 hx'.2 hP
  exact ⟨mem_rowsOf.2 ⟨a, b⟩, c⟩

theorem mR_lt {s t : List Rect} {cur p : Rect}
    (h : ∀ l, p.top ≤ l → l < p.bottom → Covered t l p.right →
      cur.top ≤ l ∧ l < cur.bottom ∧ Covered s l cur.right)
    (l0 : Int) (h1 : cur.top ≤ l0 ∧ l0 < cur.bottom) (h2 : Covered s l0 cur.right)
    (h3 : ¬ ((p.top ≤ l0 ∧ l0 < p.bottom) ∧ Covered t l0 p.right)) : mR t p < mR s cur := by
  unfold mR
  apply filter_len_lt (nodup_rangeI _ _) _ l0 (mem_rowsOf.2 h1)
  · simp only [coveredb_iff]; exact h2
  · simp only [coveredb_iff]
    rintro ⟨a, b⟩
    exact h3 ⟨mem_rowsOf.1 a, b⟩
  · intro l hx hP
    have hx' := mem_rowsOf.1 hx
    simp only [coveredb_iff] at hP ⊢
    obtain ⟨a, b, c⟩ := h l hx'.1 hx'.2 hP
    exact ⟨mem_rowsOf.2 ⟨a, b⟩, c⟩

/-! ### `tickit_rect_add` returns horizontal bands: no two pieces share a row -/

/-- `acc` (newest first) is a stack of bands, all above row `t`. -/
def BandStack (acc : List Rect) (t : Int) : Prop :=
  acc.Pairwise (fun p q => q.bottom ≤ p.top) ∧ ∀ p ∈ acc, p.bottom ≤ t

theorem bandStack_push {acc : List Rect} {t t' L R : Int} (h : BandStack acc t) (hle : t ≤ t') :
    BandStack (pushBand acc t t' L R) t' := by
  obtain ⟨hp, hb⟩ := h
  unfold pushBand
  cases acc with
  | nil =>
    simp only
    refine ⟨by simp, ?_⟩
    intro p hp; simp at hp; subst hp; rs_omega
  | cons last rest =>
    simp only
    rw [List.pairwise_cons] at hp
    split
    · refine ⟨?_, ?_⟩
      · rw [List.pairwise_cons]
        exact ⟨fun q hq => by have := hp.1 q hq; rs_omega, hp.2⟩
      · intro p hp'
        rcases List.mem_cons.1 hp' with rfl | hq
        · rs_omega
        · have := hb p (by simp [hq]); omega
    · refine ⟨?_, ?_⟩
      · rw [List.pairwise_cons]
        refine ⟨?_, List.pairwise_cons.2 hp⟩
        intro q hq
        have := hb q hq
        rs_omega
      · intro p hp'
        rcases List.mem_cons.1 hp' with rfl | hq
        · rs_omega
        · have := hb p hq; omega

theorem bandStack_addBand {a b : Rect} {acc : List Rect} {t t' : Int} (h : BandStack acc t) (hle : t ≤ t') :
    BandStack (addBand a b acc t t') t' := by
  unfold addBand
  split
  · exact ⟨h.1, fun p hp => by have := h.2 p hp; omega⟩
  · exact bandStack_push h hle

/-- The pieces of `tickit_rect_add` of two rectangles that touch or overlap are stacked bands. -/
theorem add_rowsep (a b : Rect) (ha : a.Nonempty) (hb : b.Nonempty)
    (hnear : ¬ (a.left > b.right ∨ b.left > a.right ∨ a.top > b.bottom ∨ b.top > a.bottom)) :
    (Rect.add a b).Pairwise (fun p q => p.bottom ≤ q.top) := by
  unfold Rect.add
  rw [if_neg hnear]
  unfold sortRows
  simp only
  rw [List.pairwise_reverse]
  have h0 : BandStack [] (min a.top b.top) := ⟨List.Pairwise.nil, by simp⟩
  have hbot : a.bottom = a.top + a.lines ∧ b.bottom = b.top + b.lines := ⟨rfl, rfl⟩
  unfold Rect.Nonempty at ha hb
  have h1 := bandStack_addBand (a := a) (b := b)
    (t' := min (max a.top b.top) (min a.bottom b.bottom)) h0 (by omega)
  have h2 := bandStack_addBand (a := a) (b := b)
    (t' := max (max a.top b.top) (min a.bottom b.bottom)) h1 (by omega)
  have h3 := bandStack_addBand (a := a) (b := b) (t' := max a.bottom b.bottom) h2 (by omega)
  exact h3.1

/-! ### what the scan knows when it stretches or splits -/

/-- `cur` and `r` touch or overlap, and `cur` is not already inside `r`. -/
def Near (cur r : Rect) : Prop :=
  r.top ≤ cur.bottom ∧ cur.top ≤ r.bottom ∧ cur.left ≤ r.right ∧ r.left ≤ cur.right ∧
  ¬ (r.top ≤ cur.top ∧ cur.bottom ≤ r.bottom ∧ r.left ≤ cur.left ∧ cur.right ≤ r.right)

theorem scan_stretch_geo {cur : Rect} : ∀ (s : List Rect) (i0 i : Nat) (g : Rect),
    scan cur s i0 = .stretch i g → ∃ r, i0 ≤ i ∧ s[i - i0]? = some r ∧ Near cur r ∧
      ((cur.top = r.top ∧ cur.bottom = r.bottom) ∨ (cur.left = r.left ∧ cur.right = r.right)) ∧
      g = Rect.initBounded (min r.top cur.top) (min r.left cur.left)
            (max r.bottom cur.bottom) (max r.right cur.right) := by
  intro s
  induction s with
  | nil => intro i0 i g h; simp [scan] at h
  | cons x rest ih =>
    intro i0 i g h
    have shift : (∃ r, i0 + 1 ≤ i ∧ rest[i - (i0 + 1)]? = some r ∧ Near cur r ∧
        ((cur.top = r.top ∧ cur.bottom = r.bottom) ∨ (cur.left = r.left ∧ cur.right = r.right)) ∧
        g = Rect.initBounded (min r.top cur.top) (min r.left cur.left)
              (max r.bottom cur.bottom) (max r.right cur.right)) →
        ∃ r, i0 ≤ i ∧ (x :: rest)[i - i0]? = some r ∧ Near cur r ∧
        ((cur.top = r.top ∧ cur.bottom = r.bottom) ∨ (cur.left = r.left ∧ cur.right = r.right)) ∧
        g = Rect.initBounded (min r.top cur.top) (min r.left cur.left)
              (max r.bottom cur.bottom) (max r.right cur.right) := by
      rintro ⟨r, h1, h2, h3⟩
      refine ⟨r, by omega, ?_, h3⟩
      have : i - i0 = (i - (i0 + 1)) + 1 := by omega
      rw [this]; simpa using h2
    unfold scan at h
    split at h
    · cases h
    · split at h
      · exact shift (ih _ _ _ h)
      · split at h
        · cases h
        · split at h
          · rename_i hb hfar hcont hst
            injection h with h1 h2
            subst h1 h2
            refine ⟨x, Nat.le_refl _, by simp, ?_, hst, rfl⟩
            unfold Rect.contains at hcont
            simp only [Bool.and_eq_true, decide_eq_true_eq] at hcont
            unfold Near
            rs_omega
          · split at h
            · exact shift (ih _ _ _ h)
            · cases h

theorem scan_split_geo {cur : Rect} : ∀ (s : List Rect) (i0 i : Nat) (r : Rect),
    scan cur s i0 = .split i r → i0 ≤ i ∧ s[i - i0]? = some r ∧ Near cur r ∧
      cur.top < r.bottom ∧ r.top < cur.bottom := by
  intro s
  induction s with
  | nil => intro i0 i r h; simp [scan] at h
  | cons x rest ih =>
    intro i0 i r h
    have shift : (i0 + 1 ≤ i ∧ rest[i - (i0 + 1)]? = some r ∧ Near cur r ∧
        cur.top < r.bottom ∧ r.top < cur.bottom) →
        i0 ≤ i ∧ (x :: rest)[i - i0]? = some r ∧ Near cur r ∧
        cur.top < r.bottom ∧ r.top < cur.bottom := by
      rintro ⟨h1, h2, h3⟩
      refine ⟨by omega, ?_, h3⟩
      have : i - i0 = (i - (i0 + 1)) + 1 := by omega
      rw [this]; simpa using h2
    unfold scan at h
    split at h
    · cases h
    · split at h
      · exact shift (ih _ _ _ h)
      · split at h
        · cases h
        · split at h
          · cases h
          · split at h
            · exact shift (ih _ _ _ h)
            · rename_i hb hfar hcont hst hadj
              injection h with h1 h2
              subst h1 h2
              refine ⟨Nat.le_refl _, by simp, ?_, ?_, ?_⟩
              · unfold Rect.contains at hcont
                simp only [Bool.and_eq_true, decide_eq_true_eq] at hcont
                unfold Near
                rs_omega
              · rs_omega
              · rs_omega

/-! ### every nested call has a smaller measure -/

/-- A cell covered after member `r` has been deleted is covered by another member, which is `Apart` from `r`. -/
theorem cov0 {s : List Rect} {i : Nat} {r : Rect} (hs : InvS s) (hi : s[i]? = some r) {l c : Int}
    (h : Covered (s.eraseIdx i) l c) : ∃ m ∈ s, Apart m r ∧ m.Nonempty ∧ m.Mem l c := by
  obtain ⟨m, hm, hmem⟩ := h
  obtain ⟨h1, h2⟩ := ne_of_mem_eraseIdx hs hi hm
  exact ⟨m, h1, invS_apart hs h1 (List.mem_of_getElem? hi) h2, hs.1 m h1, hmem⟩

/-- After a stretch: the covered area does not grow, and unless it shrinks the edge contacts do not grow
    either (the array always gets shorter). -/
theorem stretch_decreases {s : List Rect} {i : Nat} {r cur g : Rect} (hs : InvS s) (hc : cur.Nonempty)
    (hi : s[i]? = some r) (hnear : Near cur r)
    (hst : (cur.top = r.top ∧ cur.bottom = r.bottom) ∨ (cur.left = r.left ∧ cur.right = r.right))
    (hg : g = Rect.initBounded (min r.top cur.top) (min r.left cur.left)
            (max r.bottom cur.bottom) (max r.right cur.right)) :
    mA (s.eraseIdx i) g ≤ mA s cur ∧
    (mA (s.eraseIdx i) g < mA s cur ∨
      (mL (s.eraseIdx i) g ≤ mL s cur ∧ mR (s.eraseIdx i) g ≤ mR s cur)) := by
  have hr : r ∈ s := List.mem_of_getElem? hi
  have hrne := hs.1 r hr
  unfold Near at hnear
  have hA : ∀ l c, g.Mem l c → Covered (s.eraseIdx i) l c → cur.Mem l c ∧ Covered s l c := by
    intro l c h1 h2
    obtain ⟨m, hm, hap, hmne, hmem⟩ := cov0 hs hi h2
    refine ⟨?_, m, hm, hmem⟩
    subst hg
    rs_omega
  refine ⟨mA_le hA, ?_⟩
  by_cases hov : cur.left < r.right ∧ r.left < cur.right ∧ cur.top < r.bottom ∧ r.top < cur.bottom
  · left
    refine mA_lt hA (max cur.top r.top) (max cur.left r.left) (by rs_omega)
      ⟨r, hr, by rs_omega⟩ ?_
    rintro ⟨_, h2⟩
    obtain ⟨m, hm, hap, hmne, hmem⟩ := cov0 hs hi h2
    rs_omega
  · right
    refine ⟨mL_le ?_, mR_le ?_⟩
    · intro l h1 h2 h3
      obtain ⟨m, hm, hap, hmne, hmem⟩ := cov0 hs hi h3
      have : cur.top ≤ l ∧ l < cur.bottom ∧ g.left = cur.left := by
        subst hg
        rcases hst with hst | hst <;> rs_omega
      refine ⟨this.1, this.2.1, m, hm, ?_⟩
      rw [← this.2.2]; exact hmem
    · intro l h1 h2 h3
      obtain ⟨m, hm, hap, hmne, hmem⟩ := cov0 hs hi h3
      have : cur.top ≤ l ∧ l < cur.bottom ∧ g.right = cur.right := by
        subst hg
        rcases hst with hst | hst <;> rs_omega
      refine ⟨this.1, this.2.1, m, hm, ?_⟩
      rw [← this.2.2]; exact hmem

/-- A piece of the split of `r` and `cur`, added to an array that covers the rest of the old array plus
    things outside the piece's rows: smaller covered area, or no larger area and fewer edge contacts. -/
theorem split_piece_decreases {s : List Rect} {i : Nat} {r cur p : Rect} {t : List Rect}
    (hs : InvS s) (hc : cur.Nonempty) (hi : s[i]? = some r) (hnear : Near cur r)
    (hrows : cur.top < r.bottom ∧ r.top < cur.bottom) (hp : p.Nonempty)
    (hsub : ∀ l c, p.Mem l c → r.Mem l c ∨ cur.Mem l c)
    (hfull : ∀ l c, p.top ≤ l → l < p.bottom → (r.Mem l c ∨ cur.Mem l c) → p.Mem l c)
    (ht : ∀ l c, Covered t l c → Covered (s.eraseIdx i) l c ∨ ¬ (p.top ≤ l ∧ l < p.bottom)) :
    mA t p < mA s cur ∨ (mA t p ≤ mA s cur ∧ mL t p + mR t p < mL s cur + mR s cur) := by
  have hr : r ∈ s := List.mem_of_getElem? hi
  have hrne := hs.1 r hr
  unfold Near at hnear
  have hA : ∀ l c, p.Mem l c → Covered t l c → cur.Mem l c ∧ Covered s l c := by
    intro l c h1 h2
    rcases ht l c h2 with h3 | h3
    · obtain ⟨m, hm, hap, hmne, hmem⟩ := cov0 hs hi h3
      refine ⟨?_, m, hm, hmem⟩
      have := hsub l c h1
      rs_omega
    · exfalso; rs_omega
  -- the analysis of a covered cell just left / just right of the piece
  have hLeft : ∀ l, p.top ≤ l → l < p.bottom → Covered t l (p.left - 1) →
      cur.top ≤ l ∧ l < cur.bottom ∧ p.left = cur.left ∧ ¬ r.Mem l (cur.left - 1) ∧
        Covered s l (cur.left - 1) := by
    intro l h1 h2 h3
    rcases ht l _ h3 with h4 | h4
    · obtain ⟨m, hm, hap, hmne, hmem⟩ := cov0 hs hi h4
      have h5 := hsub l p.left (by rs_omega)
      have h6 : ¬ (r.Mem l (p.left - 1) ∨ cur.Mem l (p.left - 1)) := by
        intro h; have := hfull l (p.left - 1) h1 h2 h; rs_omega
      have : cur.top ≤ l ∧ l < cur.bottom ∧ p.left = cur.left ∧ ¬ r.Mem l (cur.left - 1) := by
        rs_omega
      refine ⟨this.1, this.2.1, this.2.2.1, this.2.2.2, m, hm, ?_⟩
      rw [← this.2.2.1]; exact hmem
    · exfalso; omega
  have hRight : ∀ l, p.top ≤ l → l < p.bottom → Covered t l p.right →
      cur.top ≤ l ∧ l < cur.bottom ∧ p.right = cur.right ∧ ¬ r.Mem l cur.right ∧
        Covered s l cur.right := by
    intro l h1 h2 h3
    rcases ht l _ h3 with h4 | h4
    · obtain ⟨m, hm, hap, hmne, hmem⟩ := cov0 hs hi h4
      have h5 := hsub l (p.right - 1) (by rs_omega)
      have h6 : ¬ (r.Mem l p.right ∨ cur.Mem l p.right) := by
        intro h; have := hfull l p.right h1 h2 h; rs_omega
      have : cur.top ≤ l ∧ l < cur.bottom ∧ p.right = cur.right ∧ ¬ r.Mem l cur.right := by
        rs_omega
      refine ⟨this.1, this.2.1, this.2.2.1, this.2.2.2, m, hm, ?_⟩
      rw [← this.2.2.1]; exact hmem
    · exfalso; omega
  have hL : mL t p ≤ mL s cur :=
    mL_le (fun l h1 h2 h3 => by obtain ⟨a, b, _, _, e⟩ := hLeft l h1 h2 h3; exact ⟨a, b, e⟩)
  have hR : mR t p ≤ mR s cur :=
    mR_le (fun l h1 h2 h3 => by obtain ⟨a, b, _, _, e⟩ := hRight l h1 h2 h3; exact ⟨a, b, e⟩)
  by_cases hov : cur.left < r.right ∧ r.left < cur.right
  · left
    refine mA_lt hA (max cur.top r.top) (max cur.left r.left) (by rs_omega)
      ⟨r, hr, by rs_omega⟩ ?_
    rintro ⟨h1, h2⟩
    rcases ht _ _ h2 with h3 | h3
    · obtain ⟨m, hm, hap, hmne, hmem⟩ := cov0 hs hi h3
      rs_omega
    · rs_omega
  · right
    refine ⟨mA_le hA, ?_⟩
    by_cases hside : r.right = cur.left
    · -- `r` lies to the left of `cur`: the shared edge is a contact that no piece inherits
      have : mL t p < mL s cur := by
        refine mL_lt (fun l h1 h2 h3 => by obtain ⟨a, b, _, _, e⟩ := hLeft l h1 h2 h3; exact ⟨a, b, e⟩)
          (max cur.top r.top) (by rs_omega) ⟨r, hr, by rs_omega⟩ ?_
        rintro ⟨⟨h1, h2⟩, h3⟩
        obtain ⟨_, _, _, h4, _⟩ := hLeft _ h1 h2 h3
        rs_omega
      omega
    · have hside' : r.left = cur.right := by rs_omega
      have : mR t p < mR s cur := by
        refine mR_lt (fun l h1 h2 h3 => by obtain ⟨a, b, _, _, e⟩ := hRight l h1 h2 h3; exact ⟨a, b, e⟩)
          (max cur.top r.top) (by rs_omega) ⟨r, hr, by rs_omega⟩ ?_
        rintro ⟨⟨h1, h2⟩, h3⟩
        obtain ⟨_, _, _, h4, _⟩ := hRight _ h1 h2 h3
        rs_omega
      omega

/-! ### termination of `add` -/

/-- "The call returns, given enough fuel." -/
def AddTerminates (s : List Rect) (cur : Rect) : Prop :=
  ∃ N, ∀ fuel, N ≤ fuel → ∃ s', add fuel s cur = some s'

/-- The lexicographic order on (covered area, edge contacts, array length). -/
def MeasLt (s2 : List Rect) (cur2 : Rect) (s : List Rect) (cur : Rect) : Prop :=
  mA s2 cur2 < mA s cur ∨
  (mA s2 cur2 = mA s cur ∧ mL s2 cur2 + mR s2 cur2 < mL s cur + mR s cur) ∨
  (mA s2 cur2 = mA s cur ∧ mL s2 cur2 + mR s2 cur2 = mL s cur + mR s cur ∧ s2.length < s.length)

theorem pairwise_sym_of_ne {R : Rect → Rect → Prop} {l : List Rect} (h : l.Pairwise R) {a b : Rect}
    (ha : a ∈ l) (hb : b ∈ l) : a = b ∨ R a b ∨ R b a := by
  have hq : l.Pairwise (fun a b => a = b ∨ R a b ∨ R b a) := h.imp (fun h => Or.inr (Or.inl h))
  exact hq.forall_of_forall_of_flip (l := l) (fun x _ => Or.inl rfl)
    (hq.imp (fun {x y} h => by
      rcases h with h | h | h
      · exact Or.inl h.symm
      · exact Or.inr (Or.inr h)
      · exact Or.inr (Or.inl h))) ha hb

/-- Re-adding the pieces of a split terminates if every call with a smaller measure does. -/
theorem split_pieces_terminate {s : List Rect} {i : Nat} {r cur : Rect}
    (hs : InvS s) (hc : cur.Nonempty) (hi : s[i]? = some r) (hnear : Near cur r)
    (hrows : cur.top < r.bottom ∧ r.top < cur.bottom)
    (ih : ∀ s2 cur2, InvS s2 → cur2.Nonempty → MeasLt s2 cur2 s cur → AddTerminates s2 cur2) :
    ∀ (rest : List Rect),
      (∀ p ∈ rest, p.Nonempty ∧ (∀ l c, p.Mem l c → r.Mem l c ∨ cur.Mem l c) ∧
        (∀ l c, p.top ≤ l → l < p.bottom → (r.Mem l c ∨ cur.Mem l c) → p.Mem l c)) →
      rest.Pairwise (fun p q => p.bottom ≤ q.top) →
      ∀ t, InvS t →
        (∀ p ∈ rest, ∀ l c, Covered t l c → Covered (s.eraseIdx i) l c ∨ ¬ (p.top ≤ l ∧ l < p.bottom)) →
        ∃ N, ∀ fuel, N ≤ fuel → ∃ s', addMany fuel t rest = some s' := by
  intro rest
  induction rest with
  | nil =>
    intro _ _ t _ _
    exact ⟨0, fun fuel _ => ⟨t, by cases fuel <;> simp [addMany]⟩⟩
  | cons p rest ihr =>
    intro hF hsep t ht hcov
    obtain ⟨hp, hsub, hfull⟩ := hF p (by simp)
    rw [List.pairwise_cons] at hsep
    have hdec := split_piece_decreases hs hc hi hnear hrows hp hsub hfull (hcov p (by simp))
    have hlt : MeasLt t p s cur := by
      unfold MeasLt
      rcases hdec with h | ⟨h1, h2⟩
      · exact Or.inl h
      · rcases Nat.lt_or_eq_of_le h1 with h | h
        · exact Or.inl h
        · exact Or.inr (Or.inl ⟨h, h2⟩)
    obtain ⟨N1, hN1⟩ := ih t p ht hp hlt
    obtain ⟨t1, ht1⟩ := hN1 N1 (Nat.le_refl _)
    have hinv1 := add_invS ht1 hp ht
    have hreg1 := (add_region ht1 hp ht.1).2
    obtain ⟨N2, hN2⟩ := ihr (fun q hq => hF q (by simp [hq])) hsep.2 t1 hinv1 (by
      intro q hq l c h
      rcases (hreg1 l c).1 h with h1 | h1
      · exact hcov q (by simp [hq]) l c h1
      · right
        have := hsep.1 q hq
        rs_omega)
    refine ⟨max N1 N2 + 1, ?_⟩
    intro fuel hfuel
    cases fuel with
    | zero => omega
    | succ k =>
      obtain ⟨s', hs'⟩ := hN2 k (by omega)
      refine ⟨s', ?_⟩
      unfold addMany
      rw [add_mono ht1 (by omega : N1 ≤ k)]
      exact hs'

/-- One level of `tickit_rectset_add`: it returns if every nested call (smaller measure) does. -/
theorem add_terminates_step {s : List Rect} {cur : Rect} (hs : InvS s) (hc : cur.Nonempty)
    (ih : ∀ s2 cur2, InvS s2 → cur2.Nonempty → MeasLt s2 cur2 s cur → AddTerminates s2 cur2) :
    AddTerminates s cur := by
  unfold AddTerminates
  cases hscan : scan cur s 0 with
  | insert =>
    refine ⟨1, fun fuel hf => ?_⟩
    cases fuel with
    | zero => omega
    | succ k => exact ⟨_, by unfold add; rw [hscan]⟩
  | covered =>
    refine ⟨1, fun fuel hf => ?_⟩
    cases fuel with
    | zero => omega
    | succ k => exact ⟨_, by unfold add; rw [hscan]⟩
  | stretch i g =>
    obtain ⟨r, _, hri, hnear, hst, hg⟩ := scan_stretch_geo s 0 i g hscan
    simp only [Nat.sub_zero] at hri
    obtain ⟨_, _, _, hgne, _⟩ := scan_stretch hscan hc hs.1
    obtain ⟨h1, h2⟩ := stretch_decreases hs hc hri hnear hst hg
    have hlen : (s.eraseIdx i).length < s.length := by
      have := (List.getElem?_eq_some_iff.1 hri).1
      rw [List.length_eraseIdx_of_lt this]; omega
    have hlt : MeasLt (s.eraseIdx i) g s cur := by
      unfold MeasLt
      rcases Nat.lt_or_eq_of_le h1 with h | h
      · exact Or.inl h
      · rcases h2 with h2 | ⟨h3, h4⟩
        · exact Or.inl h2
        · rcases Nat.lt_or_eq_of_le (Nat.add_le_add h3 h4) with h5 | h5
          · exact Or.inr (Or.inl ⟨h, h5⟩)
          · exact Or.inr (Or.inr ⟨h, h5, hlen⟩)
    obtain ⟨N, hN⟩ := ih _ _ (invS_eraseIdx hs i) hgne hlt
    refine ⟨N + 1, fun fuel hf => ?_⟩
    cases fuel with
    | zero => omega
    | succ k =>
      obtain ⟨s', hs'⟩ := hN k (by omega)
      exact ⟨s', by unfold add; rw [hscan]; exact hs'⟩
  | split i r =>
    obtain ⟨_, hri, hnear, hrows⟩ := scan_split_geo s 0 i r hscan
    simp only [Nat.sub_zero] at hri
    have hrne : r.Nonempty := hs.1 r (List.mem_of_getElem? hri)
    obtain ⟨_, hpne, _, hpc⟩ := Props.C06.add_spec r cur hrne hc
    have hsep : (Rect.add r cur).Pairwise (fun p q => p.bottom ≤ q.top) := by
      apply add_rowsep r cur hrne hc
      unfold Near at hnear
      rs_omega
    have hF : ∀ p ∈ Rect.add r cur, p.Nonempty ∧ (∀ l c, p.Mem l c → r.Mem l c ∨ cur.Mem l c) ∧
        (∀ l c, p.top ≤ l → l < p.bottom → (r.Mem l c ∨ cur.Mem l c) → p.Mem l c) := by
      intro p hp
      refine ⟨hpne p hp, fun l c hm => (hpc l c).1 ⟨p, hp, hm⟩, ?_⟩
      intro l c h1 h2 h3
      obtain ⟨q, hq, hqm⟩ := (hpc l c).2 h3
      rcases pairwise_sym_of_ne hsep hp hq with rfl | h | h
      · exact hqm
      · exfalso; rs_omega
      · exfalso; rs_omega
    obtain ⟨N, hN⟩ := split_pieces_terminate hs hc hri hnear hrows ih _ hF hsep _
      (invS_eraseIdx hs i) (fun p _ l c h => Or.inl h)
    refine ⟨N + 1, fun fuel hf => ?_⟩
    cases fuel with
    | zero => omega
    | succ k =>
      obtain ⟨s', hs'⟩ := hN k (by omega)
      exact ⟨s', by unfold add; rw [hscan]; exact hs'⟩

theorem add_terminates_aux : ∀ (a v n : Nat) (s : List Rect) (cur : Rect),
    mA s cur = a → mL s cur + mR s cur = v → s.length = n → InvS s → cur.Nonempty →
    AddTerminates s cur := by
  intro a
  induction a using Nat.strongRecOn with
  | ind a iha =>
    intro v
    induction v using Nat.strongRecOn with
    | ind v ihv =>
      intro n
      induction n using Nat.strongRecOn with
      | ind n ihn =>
        intro s cur ha hv hn hs hc
        apply add_terminates_step hs hc
        intro s2 cur2 hs2 hc2 hlt
        unfold MeasLt at hlt
        rcases hlt with h | ⟨h1, h⟩ | ⟨h1, h2, h⟩
        · exact iha _ (by omega) _ _ s2 cur2 rfl rfl rfl hs2 hc2
        · exact ihv _ (by omega) _ s2 cur2 (by omega) rfl rfl hs2 hc2
        · exact ihn _ (by omega) s2 cur2 (by omega) (by omega) rfl hs2 hc2

/-- **`tickit_rectset_add` terminates** on every array that has the invariant. -/
theorem add_terminates {s : List Rect} {cur : Rect} (hs : InvS s) (hc : cur.Nonempty) :
    ∃ N, ∀ fuel, N ≤ fuel → ∃ s', add fuel s cur = some s' :=
  add_terminates_aux _ _ _ s cur rfl rfl rfl hs hc

/-! ### termination of `addMany`, `subtract` and of whole histories -/

theorem addMany_terminates : ∀ (ps : List Rect) (t : List Rect), InvS t → (∀ p ∈ ps, p.Nonempty) →
    ∃ N, ∀ fuel, N ≤ fuel → ∃ s', addMany fuel t ps = some s' := by
  intro ps
  induction ps with
  | nil => intro t _ _; exact ⟨0, fun fuel _ => ⟨t, by cases fuel <;> simp [addMany]⟩⟩
  | cons p ps ih =>
    intro t ht hps
    have hp := hps p (by simp)
    obtain ⟨N1, hN1⟩ := add_terminates ht hp
    obtain ⟨t1, ht1⟩ := hN1 N1 (Nat.le_refl _)
    obtain ⟨N2, hN2⟩ := ih t1 (add_invS ht1 hp ht) (fun q hq => hps q (by simp [hq]))
    refine ⟨max N1 N2 + 1, fun fuel hf => ?_⟩
    cases fuel with
    | zero => omega
    | succ k =>
      obtain ⟨s', hs'⟩ := hN2 k (by omega)
      refine ⟨s', ?_⟩
      unfold addMany
      rw [add_mono ht1 (by omega : N1 ≤ k)]
      exact hs'

theorem subtractFrom_mono_succ (fuel : Nat) : ∀ (s : List Rect) (hole : Rect) (i : Nat) (s' : List Rect),
    subtractFrom fuel s hole i = some s' → subtractFrom (fuel + 1) s hole i = some s' := by
  induction fuel with
  | zero => intro s hole i s' h; simp [subtractFrom] at h
  | succ n ih =>
    intro s hole i s' h
    unfold subtractFrom at h
    unfold subtractFrom
    split at h
    · exact h
    · split at h
      · rename_i hcl
        rw [if_pos hcl]
        exact ih _ _ _ _ h
      · rename_i hcl
        rw [if_neg hcl]
        split at h
        · cases h
        · rename_i s1 hadd
          rw [addMany_mono hadd (Nat.le_succ _)]
          exact ih _ _ _ _ h

theorem subtractFrom_mono {fuel fuel' : Nat} {s : List Rect} {hole : Rect} {i : Nat} {s' : List Rect}
    (h : subtractFrom fuel s hole i = some s') (hle : fuel ≤ fuel') :
    subtractFrom fuel' s hole i = some s' := by
  induction hle with
  | refl => exact h
  | step _ ih => exact subtractFrom_mono_succ _ _ _ _ _ ih

/-- Members that meet the hole. -/
def dirtyCount (hole : Rect) (s : List Rect) : Nat := (s.filter (fun m => m.intersects hole)).length

theorem subtractFrom_terminates_aux : ∀ (d k : Nat) (s : List Rect) (hole : Rect) (i : Nat),
    dirtyCount hole s = d → s.length - i = k → InvS s → hole.Nonempty → CleanBefore hole s i →
    ∃ N, ∀ fuel, N ≤ fuel → ∃ s', subtractFrom fuel s hole i = some s' := by
  intro d
  induction d using Nat.strongRecOn with
  | ind d ihd =>
    intro k
    induction k using Nat.strongRecOn with
    | ind k ihk =>
      intro s hole i hd hk hs hh hcb
      cases hri : s[i]? with
      | none =>
        refine ⟨1, fun fuel hf => ?_⟩
        cases fuel with
        | zero => omega
        | succ n => exact ⟨s, by unfold subtractFrom; rw [hri]⟩
      | some r =>
        have hil : i < s.length := (List.getElem?_eq_some_iff.1 hri).1
        have hr : r ∈ s := List.mem_of_getElem? hri
        cases hdirty : r.intersects hole with
        | false =>
          have hcb' : CleanBefore hole s (i + 1) := by
            intro j m hj hm
            rcases Nat.lt_or_ge j i with h1 | h1
            · exact hcb j m h1 hm
            · have : j = i := by omega
              subst this
              rw [hri] at hm; injection hm with hm; subst hm
              have := intersects_iff_not_sep r hole
              rw [hdirty] at this
              simpa using this
          obtain ⟨N, hN⟩ := ihk (s.length - (i + 1)) (by omega) s hole (i + 1) hd rfl hs hh hcb'
          refine ⟨N + 1, fun fuel hf => ?_⟩
          cases fuel with
          | zero => omega
          | succ n =>
            obtain ⟨s', hs'⟩ := hN n (by omega)
            exact ⟨s', by unfold subtractFrom; rw [hri]; simp only [hdirty]; exact hs'⟩
        | true =>
          have hrne := hs.1 r hr
          obtain ⟨_, hpne, _, _⟩ := Props.C06.subtract_spec r hole hrne hh
          obtain ⟨N1, hN1⟩ := addMany_terminates (Rect.subtract r hole) (s.eraseIdx i)
            (invS_eraseIdx hs i) hpne
          obtain ⟨s2, hs2⟩ := hN1 N1 (Nat.le_refl _)
          obtain ⟨hinv2, hcb2⟩ := subtract_step hs hh hri hcb hs2
          -- the new array has one dirty member fewer
          have hTL : s.Pairwise TL := hs.2.imp (fun h => h.1)
          have hlt : dirtyCount hole s2 < dirtyCount hole s := by
            unfold dirtyCount
            refine filter_len_lt (invS_nodup hinv2) ?_ r hr hdirty ?_
            · intro x hx hxd
              have hxs : Sep x hole → False := fun h => (intersects_iff_not_sep x hole).1 hxd h
              by_cases hxm : x ∈ s
              · exact ⟨hxm, hxd⟩
              · exfalso
                -- a member of the new array that is not an old one is built from the remains: clean
                obtain ⟨j, hj⟩ := List.mem_iff_getElem?.1 hx
                have hphi := subtract_step_mem hs hh hri hcb hs2 x hx
                rcases hphi with ⟨h1, _⟩ | h1
                · exact hxm h1
                · exact hxs h1
            · rintro ⟨hr2, _⟩
              rcases subtract_step_mem hs hh hri hcb hs2 r hr2 with ⟨_, h1⟩ | h1
              · exact h1 rfl
              · exact (intersects_iff_not_sep r hole).1 hdirty h1
          obtain ⟨N2, hN2⟩ := ihd _ (by omega) _ s2 hole i rfl rfl hinv2 hh hcb2
          refine ⟨max N1 N2 + 1, fun fuel hf => ?_⟩
          cases fuel with
          | zero => omega
          | succ n =>
            obtain ⟨s', hs'⟩ := hN2 n (by omega)
            refine ⟨s', ?_⟩
            unfold subtractFrom
            rw [hri]
            simp only [hdirty]
            rw [addMany_mono hs2 (by omega : N1 ≤ n)]
            exact hs'

/-- **`tickit_rectset_subtract` terminates** on every array that has the invariant. -/
theorem subtract_terminates {s : List Rect} {hole : Rect} (hs : InvS s) (hh : hole.Nonempty) :
    ∃ N, ∀ fuel, N ≤ fuel → ∃ s', subtract fuel s hole = some s' := by
  obtain ⟨N, hN⟩ := subtractFrom_terminates_aux _ _ s hole 0 rfl rfl hs hh (by intro j m hj; omega)
  exact ⟨N, fun fuel hf => by rw [subtract_of_nonempty fuel s hole hh]; exact hN fuel hf⟩

end RectSet
end Tickit
