import Tickit.Proof.RBCopyLoop
import Tickit.Proof.RectSet
import Tickit.Props.C06
/-
  C13: `moverect` = copy, then `skiprect` over the rectangle set `{src} − {dest}`; and a few well-formed buffers.
-/
namespace Tickit.RBCopy
open Tickit Tickit.RB

/-! ### The vacated area -/

theorem add_empty (fuel : Nat) (r : Rect) : RectSet.add (fuel + 1) [] r = some [r] := by
  unfold RectSet.add RectSet.scan
  simp only [RectSet.insertRect]

theorem subtract_single {fuel : Nat} {sr hole : Rect} {s' : List Rect}
    (h : RectSet.subtract fuel [sr] hole = some s') (hsr : sr.Nonempty) (hh : hole.Nonempty) :
    (∀ r ∈ s', r.Nonempty) ∧ ∀ l c, Covered s' l c ↔ (sr.Mem l c ∧ ¬ hole.Mem l c) := by
  rw [RectSet.subtract_of_nonempty _ _ _ hh] at h
  have hs : ∀ r ∈ [sr], r.Nonempty := by intro r hr; simp at hr; rw [hr]; exact hsr
  have hb := RectSet.subtractFrom_bounds fuel [sr] hole 0 s' h hh hs
  have hcov1 : ∀ l c, Covered [sr] l c ↔ sr.Mem l c := by
    intro l c; unfold Covered; simp
  refine ⟨hb.1, ?_⟩
  intro l c
  constructor
  · intro hc
    refine ⟨(hcov1 l c).1 (hb.2.1 l c hc), ?_⟩
    -- no cell of the hole stays covered: look at how the single member was split
    cases fuel with
    | zero => simp [RectSet.subtractFrom] at h
    | succ n =>
      unfold RectSet.subtractFrom at h
      simp only [List.getElem?_cons_zero] at h
      by_cases hi : sr.intersects hole = true
      · simp only [hi, Bool.not_true, Bool.false_eq_true, if_false, List.eraseIdx_cons_zero] at h
        cases hadd : RectSet.addMany n [] (Rect.subtract sr hole) with
        | none => rw [hadd] at h; cases h
        | some s1 =>
          rw [hadd] at h
          simp only [] at h
          obtain ⟨_, hpne, _, hpc⟩ := Props.C06.subtract_spec sr hole hsr hh
          obtain ⟨a1, a2⟩ := RectSet.addMany_region hadd hpne (by intro r hr; cases hr)
          have hb2 := RectSet.subtractFrom_bounds n s1 hole 0 s' h hh a1
          have := (a2 l c).1 (hb2.2.1 l c hc)
          rcases this with h1 | h1
          · exact absurd h1 (by unfold Covered; simp)
          · exact ((hpc l c).1 h1).2
      · have hi' : sr.intersects hole = false := by simpa using hi
        intro hm
        have := (Props.C06.intersects_iff sr hole hsr hh).2 ⟨l, c, (hcov1 l c).1 (hb.2.1 l c hc), hm⟩
        rw [hi'] at this; cases this
  · intro hc
    exact hb.2.2 l c ((hcov1 l c).2 hc.1) hc.2

/-- Whenever the rectangle-set computation of `moverect` returns, it returns exactly the vacated cells. -/
theorem clearArea_region {dr sr : Rect} {rects : List Rect} (h : clearArea dr sr = some rects) (hsr : sr.Nonempty) :
    (∀ r ∈ rects, r.Nonempty) ∧
    ∀ l c, Covered rects l c ↔ (sr.Mem l c ∧ ¬ (Rect.Mem ⟨dr.top, dr.left, sr.lines, sr.cols⟩ l c)) := by
  unfold clearArea moveFuel at h
  rw [add_empty] at h
  exact subtract_single h hsr hsr

/-! ### `skiprect` -/

/-- One more piece of a constant content (no freshness needed). -/
theorem acc_step_const {B d d' : RB} {done : Int → Int → Bool} {v : Content} (h : Acc B d done (fun _ _ => v))
    {L0 C0 n : Int} (hd : DrawSpec d d' L0 C0 n (fun _ _ => v)) :
    Acc B d' (fun L C => done L C || (decide (L = L0) && decide (C0 ≤ C) && decide (C < C0 + n))) (fun _ _ => v) := by
  have hw : ∀ L C, writable d L C = writable B L C := writable_congr h.aux h.mask
  refine ⟨hd.wf, hd.aux.trans h.aux, ?_, ?_, ⟨hd.flags.1.trans h.flags.1, hd.flags.2.trans h.flags.2⟩⟩
  · intro l c h0 h1 h2 h3
    rw [hd.mask l c h0 (by rw [h.aux.lines]; exact h1) h2 (by rw [h.aux.cols]; exact h3)]
    exact h.mask l c h0 h1 h2 h3
  · intro L C
    rw [hd.content L C, hw L C, h.content L C]
    by_cases hwr : writable B L C = true
    · by_cases hp : L = L0 ∧ C0 ≤ C ∧ C < C0 + n
      · rw [if_pos ⟨hp.1, hp.2.1, hp.2.2, hwr⟩]
        have : (done L C || (decide (L = L0) && decide (C0 ≤ C) && decide (C < C0 + n))) = true := by
          simp [hp.1, hp.2.1, hp.2.2]
        rw [if_pos ⟨this, hwr⟩]
      · rw [if_neg (fun hh => hp ⟨hh.1, hh.2.1, hh.2.2.1⟩)]
        have : (decide (L = L0) && decide (C0 ≤ C) && decide (C < C0 + n)) = false := by
          rw [Bool.eq_false_iff]; intro hh
          simp only [Bool.and_eq_true, decide_eq_true_eq] at hh
          exact hp ⟨hh.1.1, hh.1.2, hh.2⟩
        rw [this, Bool.or_false]
    · rw [if_neg (fun hh => hwr hh.2.2.2), if_neg (fun hh => hwr hh.2), if_neg (fun hh => hwr hh.2)]

theorem forLines_skip_acc {B : RB} (r : Rect) (done : Int → Int → Bool) :
    ∀ (n : Nat) (d : RB) (l : Int), r.top ≤ l →
      Acc B d (fun L C => done L C || doneBand r B.xlLine B.xlCol r.top l L C) (fun _ _ => .skip) →
      Acc B (forLines (fun r' line => skipRun r' line r.left r.cols) d l n)
        (fun L C => done L C || doneBand r B.xlLine B.xlCol r.top (l + n) L C) (fun _ _ => .skip) := by
  intro n
  induction n with
  | zero =>
    intro d l _ hacc
    unfold forLines
    have : l + ((0 : Nat) : Int) = l := by omega
    rw [this]; exact hacc
  | succ n ih =>
    intro d l hl hacc
    unfold forLines
    have e : l + ((n + 1 : Nat) : Int) = l + 1 + (n : Int) := by omega
    rw [e]
    apply ih _ (l + 1) (by omega)
    have hds := skipRun_spec hacc.wf l r.left r.cols
    rw [hacc.aux.xlLine, hacc.aux.xlCol] at hds
    apply (acc_step_const hacc hds).done_congr
    intro L C
    unfold doneBand
    rw [Bool.eq_iff_iff]
    simp only [Bool.or_eq_true, Bool.and_eq_true, decide_eq_true_eq]
    constructor
    · rintro (h | h)
      · rcases h with h | h
        · exact Or.inl h
        · exact Or.inr ⟨⟨⟨h.1.1.1, by omega⟩, h.1.2⟩, h.2⟩
      · exact Or.inr ⟨⟨⟨by omega, by omega⟩, by omega⟩, by omega⟩
    · rintro (h | h)
      · exact Or.inl (Or.inl h)
      · by_cases hl' : L - B.xlLine < l
        · exact Or.inl (Or.inr ⟨⟨⟨h.1.1.1, hl'⟩, h.1.2⟩, h.2⟩)
        · exact Or.inr ⟨⟨by omega, by omega⟩, by omega⟩

/-- The cells of the (translated) rectangles of a list. -/
def doneRects (rects : List Rect) (xl xc : Int) (L C : Int) : Bool :=
  rects.any (fun r => doneBand r xl xc r.top (r.top + (r.bottom - r.top).toNat) L C)

theorem skiprect_acc {B d : RB} (r : Rect) (done : Int → Int → Bool) (hacc : Acc B d done (fun _ _ => .skip)) :
    Acc B (skiprect d r)
      (fun L C => done L C || doneBand r B.xlLine B.xlCol r.top (r.top + (r.bottom - r.top).toNat) L C)
      (fun _ _ => .skip) := by
  unfold skiprect
  apply forLines_skip_acc r done _ d r.top (Int.le_refl _)
  apply hacc.done_congr
  intro L C
  have : doneBand r B.xlLine B.xlCol r.top r.top L C = false := by
    unfold doneBand
    rw [Bool.eq_false_iff]
    simp only [ne_eq, Bool.and_eq_true, decide_eq_true_eq]
    omega
  rw [this, Bool.or_false]

theorem foldl_skiprect_acc {B : RB} : ∀ (rects : List Rect) (d : RB) (done : Int → Int → Bool),
    Acc B d done (fun _ _ => .skip) →
    Acc B (rects.foldl skiprect d) (fun L C => done L C || doneRects rects B.xlLine B.xlCol L C) (fun _ _ => .skip) := by
  intro rects
  induction rects with
  | nil =>
    intro d done hacc
    apply hacc.done_congr
    intro L C; unfold doneRects; simp
  | cons r rs ih =>
    intro d done hacc
    have := ih (skiprect d r) _ (skiprect_acc r done hacc)
    apply this.done_congr
    intro L C
    unfold doneRects
    simp only [List.any_cons, Bool.or_assoc]

/-- With no translation, the cells of non-empty rectangles. -/
theorem doneRects_iff (rects : List Rect) (hne : ∀ r ∈ rects, r.Nonempty) (L C : Int) :
    doneRects rects 0 0 L C = true ↔ Covered rects L C := by
  unfold doneRects Covered
  rw [List.any_eq_true]
  constructor
  · rintro ⟨r, hr, h⟩
    refine ⟨r, hr, ?_⟩
    have hn := hne r hr
    unfold Rect.Nonempty at hn
    unfold doneBand Rect.bottom at h
    simp only [Bool.and_eq_true, decide_eq_true_eq] at h
    unfold Rect.Mem Rect.bottom Rect.right
    omega
  · rintro ⟨r, hr, h⟩
    refine ⟨r, hr, ?_⟩
    have hn := hne r hr
    unfold Rect.Nonempty at hn
    unfold Rect.Mem Rect.bottom Rect.right at h
    unfold doneBand Rect.bottom
    simp only [Bool.and_eq_true, decide_eq_true_eq]
    omega

/-! ### The three operations on a well-formed buffer -/

/-- What an operation leaves behind: a well-formed buffer with the same auxiliary state and mask depths whose
    cells show `E`. -/
structure Result (B rb' : RB) (E : Int → Int → Content) : Prop where
  wf : WF rb'
  aux : SameAux rb' B
  mask : ∀ l c, 0 ≤ l → l < B.lines → 0 ≤ c → c < B.cols → ((rb'.cells l).get c).maskdepth = ((B.cells l).get c).maskdepth
  content : ∀ L C, absContent rb' L C = E L C
  flags : rb'.aborted = B.aborted ∧ rb'.fuelOut = B.fuelOut

theorem copy_result (B : RB) (dr sr : Rect) (hwf : WF B) (hxl : B.xlLine = 0) (hxc : B.xlCol = 0)
    (ht0 : 0 ≤ sr.top) (hb1 : sr.top + sr.lines ≤ B.lines) (hc0 : 0 ≤ sr.left) (hc1 : sr.left + sr.cols ≤ B.cols)
    (hne : sr.Nonempty) : Result B (copy Variant.repaired B dr sr) (selfCopyExpect B dr sr) := by
  unfold Rect.Nonempty at hne
  by_cases hid : dr.top = sr.top ∧ dr.left = sr.left
  · have : copy Variant.repaired B dr sr = B := by
      unfold copy copyrect
      have h0 : ¬ (sr.lines = 0 ∨ sr.cols = 0) := by omega
      rw [if_neg h0]
      dsimp only
      have h1 : true = true ∧ dr.top - sr.top = 0 ∧ dr.left - sr.left = 0 := ⟨rfl, by omega, by omega⟩
      rw [if_pos h1]
    rw [this]
    refine ⟨hwf, SameAux.refl, fun _ _ _ _ _ _ => rfl, fun L C => ?_, ⟨rfl, rfl⟩⟩
    unfold selfCopyExpect; rw [if_pos hid]
  · have hacc := copyrect_same_acc true B dr sr hwf hxl hxc ht0 hb1 hc0 hc1 hne.1 hne.2 (by omega)
    refine ⟨hacc.wf, hacc.aux, hacc.mask, fun L C => ?_, hacc.flags⟩
    unfold selfCopyExpect; rw [if_neg hid]
    exact acc_final hacc L C

theorem move_result (B : RB) (dr sr : Rect) (hwf : WF B) (hxl : B.xlLine = 0) (hxc : B.xlCol = 0)
    (ht0 : 0 ≤ sr.top) (hb1 : sr.top + sr.lines ≤ B.lines) (hc0 : 0 ≤ sr.left) (hc1 : sr.left + sr.cols ≤ B.cols)
    (hne : sr.Nonempty) {rects : List Rect} (hca : clearArea dr sr = some rects) :
    Result B (move Variant.repaired B dr sr) (moveExpect B dr sr) := by
  have hcopy := copy_result B dr sr hwf hxl hxc ht0 hb1 hc0 hc1 hne
  have hreg := clearArea_region hca hne
  unfold move
  simp only [hca]
  have hacc := foldl_skiprect_acc rects (copy Variant.repaired B dr sr) (fun _ _ => false)
    (acc_init hcopy.wf (fun _ _ => Content.skip))
  have hw : ∀ L C, writable (copy Variant.repaired B dr sr) L C = writable B L C := writable_congr hcopy.aux hcopy.mask
  refine ⟨hacc.wf, hacc.aux.trans hcopy.aux, ?_, ?_,
    ⟨hacc.flags.1.trans hcopy.flags.1, hacc.flags.2.trans hcopy.flags.2⟩⟩
  · intro l c h0 h1 h2 h3
    rw [hacc.mask l c h0 (by rw [hcopy.aux.lines]; exact h1) h2 (by rw [hcopy.aux.cols]; exact h3)]
    exact hcopy.mask l c h0 h1 h2 h3
  · intro L C
    rw [hacc.content L C, hw L C, hcopy.content L C, hcopy.aux.xlLine, hcopy.aux.xlCol, hxl, hxc]
    simp only [Bool.false_or]
    unfold moveExpect
    have hiff : doneRects rects 0 0 L C = true ↔ (sr.memb L C && !(Rect.memb ⟨dr.top, dr.left, sr.lines, sr.cols⟩ L C)) = true := by
      rw [doneRects_iff rects hreg.1 L C, hreg.2 L C, Bool.and_eq_true, Bool.not_eq_true', Rect.memb_iff,
        ← Bool.not_eq_true, Rect.memb_iff]
    by_cases hd : doneRects rects 0 0 L C = true
    · have hm := hiff.1 hd
      by_cases hwr : writable B L C = true
      · rw [if_pos ⟨hd, hwr⟩, hm, hwr]; rfl
      · rw [if_neg (fun hh => hwr hh.2)]
        have : writable B L C = false := by simpa using hwr
        rw [this, Bool.and_false]; rfl
    · rw [if_neg (fun hh => hd hh.1)]
      have : (sr.memb L C && !(Rect.memb ⟨dr.top, dr.left, sr.lines, sr.cols⟩ L C)) = false := by
        rw [Bool.eq_false_iff]; exact fun hh => hd (hiff.2 hh)
      rw [this, Bool.false_and]; rfl

theorem blit_result (dst src : RB) (hwf : WF dst) (hsrc : WF src) (hl : 0 ≤ src.lines) (hc : 0 ≤ src.cols) :
    Result dst (blit Variant.repaired false dst src) (blitExpect dst src) := by
  unfold blit
  simp only [Bool.false_eq_true, if_false]
  by_cases hz : src.lines = 0 ∨ src.cols = 0
  · have : copyrect Variant.repaired false false dst src ⟨0, 0, src.lines, src.cols⟩ ⟨0, 0, src.lines, src.cols⟩ = dst := by
      unfold copyrect; rw [if_pos hz]
    rw [this]
    refine ⟨hwf, SameAux.refl, fun _ _ _ _ _ _ => rfl, fun L C => ?_, ⟨rfl, rfl⟩⟩
    unfold blitExpect
    rw [copyExpect_eq]
    have : ¬ ((Rect.memb ⟨0, 0, src.lines, src.cols⟩ (L - dst.xlLine) (C - dst.xlCol) && writable dst L C) = true) := by
      intro hh
      rw [Bool.and_eq_true, memb_iff] at hh
      have := hh.1
      simp only [] at this
      omega
    rw [if_neg this]
  · have hacc := copyrect_other_acc false dst src ⟨0, 0, src.lines, src.cols⟩ ⟨0, 0, src.lines, src.cols⟩ hwf hsrc
      (Int.le_refl _) (by simp) (Int.le_refl _) (by simp) (by simp only []; omega) (by simp only []; omega)
    refine ⟨hacc.wf, hacc.aux, hacc.mask, fun L C => ?_, hacc.flags⟩
    unfold blitExpect
    have h := acc_final hacc L C
    simp only [Int.sub_self, Int.zero_add] at h
    exact h

/-! ### Some well-formed buffers -/

theorem wf_new (lines cols g1 g2 : Int) (hl : 0 ≤ lines) (hc : 0 < cols) : WF (RB.new lines cols g1 g2) := by
  refine ⟨?_, ?_, ?_⟩
  · intro l _ _
    refine ⟨?_, ?_, ?_⟩
    · intro k h0 h1 hst
      have hcols : (RB.new lines cols g1 g2).cols = cols := rfl
      rw [hcols] at h1
      show 0 ≤ (if k = 0 then ({ state := .skip, maskdepth := -1, cols := cols } : Cell) else { state := .cont, maskdepth := -1, cols := 0 }).cols ∧ _
      have hk : ¬ k = 0 := by
        intro hk; rw [hk] at hst; exact absurd hst (by simp [RB.new])
      simp only [RB.new, hk, if_false, if_true]
      exact ⟨Int.le_refl _, by omega, by simp, by show k < 0 + cols; omega⟩
    · intro k h0 h1 hst
      have hk : k = 0 := by
        by_cases hk : k = 0
        · exact hk
        · exact absurd (by simp [RB.new, hk]) hst
      subst hk
      simp only [RB.new, if_true]
      refine ⟨by omega, by show 0 + cols ≤ cols; omega, fun j hj1 hj2 => ?_⟩
      have : ¬ j = 0 := by omega
      simp [this]
    · intro k h0 h1 hst
      by_cases hk : k = 0
      · subst hk; simp [RB.new] at hst
      · simp [RB.new, hk] at hst
  · intro l c _ _ _ _
    by_cases hk : c = 0
    · subst hk; simp [RB.new]
    · simp [RB.new, hk]
  · by_cases h : lines = 0
    · exact Or.inl h
    · exact Or.inr ⟨Int.le_refl _, by show 0 + lines ≤ lines; omega, Int.le_refl _, by show 0 + cols ≤ cols; omega⟩

end Tickit.RBCopy
