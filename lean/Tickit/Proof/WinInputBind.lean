import Tickit.Proof.WinInput
import Tickit.Model.WinInputTerm
import Tickit.Proof.InputXlate
/-
  Lemmas for the two parts of C14 added with one-shot / self-unbinding handlers and X10 byte input:

  * `run_events_whilefalse` under mutation: whatever the handlers do to the tree (close, unref, hide, restack, hand the
    focus over — which makes the window emit FOCUS events on the very list that is being walked), the handlers that
    are bound are invoked in binding order up to the first claim, handlers that are gone are passed over, and the
    bindings afterwards are those of the pure reference `offerBindings` (`runBindings_calls`);
  * bindings over whole events and histories (`emit_bmono`, `OneShotInv`);
  * the X10 decoding is within what C20 trusts of the tokenizer (`x10Key_wf`), so the C20 refinement theorem applies to
    every report (`x10_gotKey`).
-/
namespace Tickit
namespace WinInput
open WinTree

/-! ### the handler calls of a log -/

def LogItem.isCall : LogItem → Bool
  | .call .. => true
  | _ => false

/-- Everything but a handler call. -/
def NotCall (i : LogItem) : Prop := i.isCall = false

theorem notCall_quiet : Quiet NotCall := ⟨fun _ => rfl, fun _ => rfl⟩

/-- The handler calls recorded in a log, oldest first. -/
def callsOf (log : List LogItem) : List LogItem := (log.filter LogItem.isCall).reverse

theorem callsOf_say_call (st : St) (k : Kind) (w : Id) (i n : Nat) (r : Bool) (e : Ev) :
    callsOf (st.say (.call k w i n r e)).log = callsOf st.log ++ [.call k w i n r e] := by
  simp [callsOf, St.say, List.filter_cons, LogItem.isCall]

theorem callsOf_say_offer (st : St) (k : Kind) (w : Id) (e : Ev) (b : Bool) :
    callsOf (st.say (.offer k w e b)).log = callsOf st.log := by
  simp [callsOf, St.say, List.filter_cons, LogItem.isCall]

theorem callsOf_ext {st st' : St} (h : Ext NotCall st st') : callsOf st'.log = callsOf st.log := by
  obtain ⟨⟨new, e, p⟩, _⟩ := h
  have hf : new.filter LogItem.isCall = [] := by
    rw [List.filter_eq_nil_iff]
    intro i hi
    have := p i hi
    unfold NotCall at this
    rw [this]; simp
  simp [callsOf, e, List.filter_append, hf]

/-! ### the application's actions leave the bindings alone -/

theorem foldl_destroyed_binds : ∀ (gone : List Id) (s0 : St),
    (gone.foldl (fun st i => st.say (.destroyed i)) s0).binds = s0.binds := by
  intro gone
  induction gone with
  | nil => intro s0; rfl
  | cons g rest ih => intro s0; simp only [List.foldl_cons]; rw [ih]; rfl

theorem unrefLogged_binds {st st' : St} {win : Id} (h : unrefLogged st win = Res.ok st') : st'.binds = st.binds := by
  unfold unrefLogged at h
  obtain ⟨w, _, h⟩ := res_bind_eq_ok.1 h
  obtain ⟨t, _, h⟩ := res_bind_eq_ok.1 h
  by_cases h1 : w.refcount = 1
  · simp only [h1, if_true, res_pure, Res.ok.injEq] at h
    subst h
    rw [foldl_destroyed_binds]
  · simp only [h1, if_false, res_pure, Res.ok.injEq] at h
    subst h; rfl

theorem doAction_binds {st st' : St} {a : Action} (h : doAction st a = Res.ok st') : st'.binds = st.binds := by
  unfold doAction at h
  by_cases hal : allowed st a = true
  · simp only [hal, Bool.not_true, Bool.false_eq_true, if_false] at h
    cases hact : a.act <;> simp only [hact] at h
    case unref => have e := unrefLogged_binds h; exact e
    all_goals
      obtain ⟨t, _, h⟩ := res_bind_eq_ok.1 h
      simp only [res_pure, Res.ok.injEq] at h
      subst h; rfl
  · simp only [hal, Bool.not_false, if_true, res_pure, Res.ok.injEq] at h
    subst h; rfl

theorem doActions_binds : ∀ (as : List Action) (st st' : St), doActions st as = Res.ok st' → st'.binds = st.binds := by
  intro as
  induction as with
  | nil => intro st st' h; simp only [doActions, res_pure, Res.ok.injEq] at h; subst h; rfl
  | cons a rest ih =>
    intro st st' h
    simp only [doActions] at h
    obtain ⟨st1, h1, h2⟩ := res_bind_eq_ok.1 h
    rw [ih _ _ h2, doAction_binds h1]

/-! ### `run_events_whilefalse`, whatever the handlers do -/

/-- The handler calls of one walk over the bindings with indices `idxs`, computed from the bindings alone: a binding
    that is gone is passed over; the others are invoked in order, up to and including the first whose behaviour
    table says "claim". -/
def walkCalls (binds : Array Binding) (kind : Kind) (win : Id) (ev : Ev) : List Nat → List LogItem
  | [] => []
  | bi :: rest =>
    match binds[bi]? with
    | none => walkCalls binds kind win ev rest
    | some b =>
      if b.gone then walkCalls binds kind win ev rest else
      .call kind win b.idx (entryIndex b) b.entry.ret ev ::
        (if b.entry.ret then [] else walkCalls (binds.setIfInBounds bi b.fired) kind win ev rest)

/-- The walk of `run_events_whilefalse`, whatever the handlers do to the window tree from inside it: the calls made
    are `walkCalls`, the bindings afterwards and the claim are those of the pure reference `offerBindings`. -/
theorem runBindings_calls (kind : Kind) (win : Id) (ev : Ev) :
    ∀ (idxs : List Nat) (st st' : St) (c : Bool), runBindings st kind win ev idxs = Res.ok (st', c) →
      callsOf st'.log = callsOf st.log ++ walkCalls st.binds kind win ev idxs ∧
      (st'.binds, c) = offerBindings st.binds idxs := by
  intro idxs
  induction idxs with
  | nil =>
    intro st st' c h
    simp only [runBindings, res_pure, Res.ok.injEq, Prod.mk.injEq] at h
    obtain ⟨rfl, rfl⟩ := h
    simp [walkCalls, offerBindings]
  | cons bi rest ih =>
    intro st st' c h
    unfold runBindings at h
    unfold walkCalls offerBindings
    cases hb : st.binds[bi]? with
    | none => simp only [hb] at h ⊢; exact ih _ _ _ h
    | some b =>
      simp only [hb] at h ⊢
      by_cases hg : b.gone = true
      · simp only [hg, if_true] at h ⊢; exact ih _ _ _ h
      simp only [hg, Bool.false_eq_true, if_false] at h ⊢
      obtain ⟨st1, h1, h⟩ := res_bind_eq_ok.1 h
      have hb1 : st1.binds = st.binds.setIfInBounds bi b.fired := doActions_binds _ _ _ h1
      have hc1 : callsOf st1.log = callsOf st.log ++ [.call kind win b.idx (entryIndex b) b.entry.ret ev] := by
        rw [callsOf_ext (doActions_ext notCall_quiet _ _ _ h1), callsOf_say_call]
      by_cases hr : b.entry.ret = true
      · simp only [hr, if_true, res_pure, Res.ok.injEq, Prod.mk.injEq] at h
        obtain ⟨rfl, rfl⟩ := h
        simp only [hr, if_true]
        rw [hr] at hc1
        exact ⟨hc1, by rw [hb1]⟩
      · simp only [hr, Bool.false_eq_true, if_false] at h
        simp only [hr, Bool.false_eq_true, if_false]
        obtain ⟨i1, i2⟩ := ih _ _ _ h
        rw [hb1] at i1 i2
        refine ⟨?_, i2⟩
        rw [i1, hc1, List.append_assoc]
        simp only [Bool.not_eq_true] at hr
        rw [hr]; rfl

/-! ### `walkCalls` in closed form: the bound handlers, in order, up to the first claim -/

/-- The bindings with the given indices that are still bound. -/
def liveOf (binds : Array Binding) (idxs : List Nat) : List Binding :=
  idxs.filterMap fun bi =>
    match binds[bi]? with
    | some b => if b.gone then none else some b
    | none => none

/-- One call per binding, up to and including the first that claims. -/
def untilClaim (kind : Kind) (win : Id) (ev : Ev) : List Binding → List LogItem
  | [] => []
  | b :: rest => .call kind win b.idx (entryIndex b) b.entry.ret ev :: (if b.entry.ret then [] else untilClaim kind win ev rest)

theorem liveOf_set_notin (binds : Array Binding) (bi : Nat) (x : Binding) :
    ∀ (idxs : List Nat), bi ∉ idxs → liveOf (binds.setIfInBounds bi x) idxs = liveOf binds idxs := by
  intro idxs
  induction idxs with
  | nil => intro _; rfl
  | cons j rest ih =>
    intro hn
    have hj : bi ≠ j := fun e => hn (by rw [e]; exact List.mem_cons_self ..)
    have hr : bi ∉ rest := fun m => hn (List.mem_cons_of_mem _ m)
    simp only [liveOf, List.filterMap_cons] at ih ⊢
    rw [Array.getElem?_setIfInBounds]
    simp only [hj, if_false]
    rw [ih hr]

theorem walkCalls_eq (kind : Kind) (win : Id) (ev : Ev) : ∀ (idxs : List Nat) (binds : Array Binding), idxs.Nodup →
    walkCalls binds kind win ev idxs = untilClaim kind win ev (liveOf binds idxs) := by
  intro idxs
  induction idxs with
  | nil => intro _ _; rfl
  | cons bi rest ih =>
    intro binds hnd
    obtain ⟨hni, hnr⟩ := List.nodup_cons.1 hnd
    unfold walkCalls
    cases hb : binds[bi]? with
    | none => simp only [liveOf, List.filterMap_cons, hb]; exact ih binds hnr
    | some b =>
      by_cases hg : b.gone = true
      · simp only [liveOf, List.filterMap_cons, hb, hg, if_true]; exact ih binds hnr
      · simp only [liveOf, List.filterMap_cons, hb, hg, Bool.false_eq_true, if_false, untilClaim]
        rw [ih _ hnr, liveOf_set_notin binds bi b.fired rest hni]
        rfl

theorem bindingsOf_nodup (binds : Array Binding) (kind : Kind) (win : Id) : (bindingsOf binds kind win).Nodup := by
  unfold bindingsOf
  exact List.Nodup.sublist List.filter_sublist List.nodup_range

/-! ### bindings over whole events -/

theorem trivial_routed (cfg : Cfg) (kind : Kind) (ev : Ev) : Routed cfg kind ev (fun _ => True) :=
  { destroyed := fun _ => trivial, refused := fun _ => trivial, call := fun _ _ _ _ _ _ => trivial,
    offer := fun _ _ _ _ _ => trivial }

/-- A whole key or mouse event changes the bindings only by invoking them (`BMono`): none is added or lost, one that
    is gone is not touched, a one-shot binding is invoked at most once and is gone afterwards. -/
theorem emit_bmono {cfg : Cfg} {st st' : St} {ev : Ev}
    (h : emitKey cfg st ev = Out.ok st' ∨ emitMouse cfg st ev = Out.ok st') : BMono st.binds st'.binds := by
  rcases h with h | h
  · unfold emitKey at h
    obtain ⟨⟨s1, handled⟩, h1, h⟩ := out_bind_eq_ok.1 h
    simp only [out_pure, Out.ok.injEq] at h
    have e := (onTerm_ext (P := fun _ => True) (trivial_routed cfg .key ev) (trivial_routed cfg .mouse) (Or.inl h1)).2
    subst h
    cases handled <;> exact e
  · unfold emitMouse at h
    obtain ⟨⟨s1, handled⟩, h1, h⟩ := out_bind_eq_ok.1 h
    simp only [out_pure, Out.ok.injEq] at h
    have e := (onTerm_ext (P := fun _ => True) (trivial_routed cfg .key ev) (trivial_routed cfg .mouse) (Or.inr h1)).2
    subst h
    cases handled <;> exact e

/-- The state of the one-shot bindings in any history: never invoked and bound, or invoked exactly once and gone. -/
def OneShotInv (binds : Array Binding) : Prop :=
  ∀ (i : Nat) (x : Binding), binds[i]? = some x → x.oneshot = true →
    (x.count = 0 ∧ x.gone = false) ∨ (x.count = 1 ∧ x.gone = true)

theorem OneShotInv.mono {b b' : Array Binding} (h : OneShotInv b) (hm : BMono b b') : OneShotInv b' := by
  intro i x' hx' ho
  have hlt : i < b.size := by
    rw [← hm.1]
    apply Nat.lt_of_not_le
    intro hge
    rw [Array.getElem?_eq_none hge] at hx'; cases hx'
  obtain ⟨x, hx⟩ : ∃ x, b[i]? = some x := ⟨b[i], Array.getElem?_eq_getElem hlt⟩
  obtain ⟨y, hy, s⟩ := hm.2 i x hx
  rw [hx'] at hy; cases hy
  have hox : x.oneshot = true := by rw [← s.oneshot]; exact ho
  rcases h i x hx hox with ⟨c0, g0⟩ | ⟨c1, g1⟩
  · obtain ⟨a, bb⟩ := s.once hox
    by_cases hc : x.count < x'.count
    · right; exact ⟨by omega, bb hc⟩
    · have c := s.count
      have e : x' = x := s.same (by omega)
      left; rw [e]; exact ⟨c0, g0⟩
  · have e : x' = x := s.gone g1
    right; rw [e]; exact ⟨c1, g1⟩

theorem OneShotInv.push {b : Array Binding} (h : OneShotInv b) (x : Binding) (hc : x.count = 0) (hg : x.gone = false) :
    OneShotInv (b.push x) := by
  intro i y hy ho
  rw [Array.getElem?_push] at hy
  split at hy
  · cases hy; left; exact ⟨hc, hg⟩
  · exact h i y hy ho

/-! ### X10 reports -/

open InputXlate in
/-- libtermkey's decoding of an X10 report stays within what C20 trusts of the tokenizer (`Key.WF`): buttons 0..30,
    and a press or drag always names a button. -/
theorem x10Key_wf (code line col : Nat) : (x10Key code line col).WF := by
  unfold x10Key InputXlate.Key.WF x10Button x10Event
  generalize code &&& 0xc3 = c
  generalize (code &&& 0x20 != 0) = d
  simp only [TERMKEY_MOUSE_PRESS, TERMKEY_MOUSE_DRAG, TERMKEY_MOUSE_RELEASE, TERMKEY_MOUSE_UNKNOWN]
  by_cases h1 : c < 3
  · simp only [h1, if_true]; refine ⟨by omega, by omega, fun _ => by omega⟩
  · simp only [h1, if_false]
    by_cases h2 : c = 3
    · simp only [h2]; refine ⟨by decide, by decide, ?_⟩; intro h; rcases h with h | h <;> cases h
    · simp only [h2, if_false]
      by_cases h3 : c = 64 ∨ c = 65
      · simp only [h3, if_true]; refine ⟨by omega, by omega, fun _ => by omega⟩
      · simp only [h3, if_false]; refine ⟨by decide, by decide, ?_⟩; intro h; rcases h with h | h <;> cases h

/-- Reports that may follow the press of button `p + 1` without changing what is held: drags of that button, and
    turns of the wheel. -/
def KeepsHeld (p code : Nat) : Prop :=
  (code &&& 0xc3 = p ∧ code &&& 0x20 ≠ 0) ∨ ((code &&& 0xc3 = 64 ∨ code &&& 0xc3 = 65) ∧ code &&& 0x20 = 0)

open InputXlate in
theorem keepsHeld_spec (p : Nat) (hp : p < 3) (code line col : Nat) (hk : KeepsHeld p code) :
    (Spec.keyEvents [p + 1] (x10Key code line col)).1 = [p + 1] := by
  rcases hk with ⟨hc, hm⟩ | ⟨hw, hm⟩
  · have he : x10Event code = TERMKEY_MOUSE_DRAG := by
      unfold x10Event; simp [hc, hp, hm]
    have hbt : x10Button code = (p : Int) + 1 := by unfold x10Button; simp [hc, hp]
    unfold x10Key
    rw [he, hbt]
    have : ((p : Int) + 1).toNat = p + 1 := by omega
    simp [Spec.keyEvents, TERMKEY_MOUSE_DRAG, TERMKEY_MOUSE_PRESS, this, Spec.insert]
  · have he : x10Event code = TERMKEY_MOUSE_PRESS := by
      unfold x10Event
      rcases hw with hw | hw <;> simp [hw, hm]
    have hbt : x10Button code ≥ 4 := by
      unfold x10Button
      rcases hw with hw | hw <;> simp [hw]
    unfold x10Key
    rw [he]
    simp [Spec.keyEvents, hbt]

end WinInput
end Tickit
