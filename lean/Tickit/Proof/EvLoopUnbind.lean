import Tickit.Model.EvLoopUnbind
import Tickit.Proof.EvLoop
/-
  `tickit_watch_cancel` with an unbind handler that acts (Model/EvLoopUnbind.lean).

  The clause: a timer or deferred callback registered from inside a callback — here the unbind notification of a
  watch being cancelled — still runs.  What that needs of `tickit_watch_cancel`: the watch is out of its list before
  the handler runs, and once the handler has returned the function never writes the list again — whatever the
  handler linked in (in front of the place the cancelled watch had, or anywhere else) stays linked.
-/
namespace Tickit.EvLoop

theorem laters_free (st : St) (a : Nat) : (st.free a).laters = st.laters := by
  unfold St.free
  split
  · rfl
  · unfold St.fail; split <;> rfl

theorem laters_cancelRest (st : St) (rest : List Nat) : (cancelRest st rest).laters = st.laters := by
  unfold cancelRest
  split
  · rfl
  · split
    · unfold St.fail; split <;> rfl
    · rfl

/-- After the unbind handler of a cancelled timer has returned, `tickit_watch_cancel` does not touch the timer queue
    again: the queue it returns with is the queue the handler left. -/
theorem cancel_keeps_what_handler_queued_timers (ub : List Beh) (st : St) (a : Nat) (w : Watch) (l : List Nat)
    (ht : w.type = .timer) :
    (cancelFoundU ub st a w l).timers = (cancelUnlinkedU ub st a w l).timers := by
  unfold cancelFoundU
  rw [(grow_cancelRest _ _).timers, lists_free_timers, ht]
  rfl

/-- … and the same for the queue of deferred callbacks. -/
theorem cancel_keeps_what_handler_queued_laters (ub : List Beh) (st : St) (a : Nat) (w : Watch) (l : List Nat)
    (ht : w.type = .later) :
    (cancelFoundU ub st a w l).laters = (cancelUnlinkedU ub st a w l).laters := by
  unfold cancelFoundU
  rw [laters_cancelRest, laters_free, ht]
  rfl

/-- The handler runs on the list *without* the cancelled watch: with no handler actions the list the cancel leaves
    is the old one minus the watch. -/
theorem cancel_unlinks_before_handler (ub : List Beh) (st : St) (a : Nat) (w : Watch) (l : List Nat)
    (ht : w.type = .timer) (hu : unbindActs ub (st.getW a).slot = []) :
    (cancelUnlinkedU ub st a w l).timers = l.erase a := by
  unfold cancelUnlinkedU cancelNotifyU
  rw [ht]
  split
  · unfold notifyU
    have e : ((setListOf st WType.timer (l.erase a)).getW a).slot = (st.getW a).slot := rfl
    rw [e, hu]
    split
    · unfold runUActs notify
      dsimp only [List.foldl_nil]
      split <;> rfl
    · rfl
  · rfl

/-! ### concrete histories (non-vacuity): the handler's timer between the predecessor and the cancelled timer -/

/-- timers 0 (+1 ms), 1 (+5 ms, UNBIND), 2 (+10 ms); the unbind handler of 1 registers timer 5 at +4.999 ms —
    immediately in front of the place timer 1 had. -/
def probeUnbindBetween : St :=
  [Op.act (.timerAt 0 1000 1000 6), .act (.timerAt 1 1000 5000 2), .act (.timerAt 2 1000 10000 0)].foldl applyOp (build .repaired)

def ubBetween : List Beh := [⟨1, 0, [.timerAt 5 1000 4999 2]⟩]

def cbsOf (st : St) : List Ev := st.log.reverse.filter fun e => match e with | .cb .. => true | _ => false

/-- After the cancel the queue is 0, 5, 2 (addresses 2, 5, 4): the new timer is linked, the cancelled one is not. -/
theorem unbind_handler_timer_between_is_queued :
    (applyCancelU ubBetween probeUnbindBetween 1).timers = [2, 5, 4] ∧
    (applyCancelU ubBetween probeUnbindBetween 1).status = .ok ∧
    cbsOf (applyCancelU ubBetween probeUnbindBetween 1) = [.cb 1 2 .none] := by decide +kernel

/-- … and it runs, in deadline order, once the clock has passed the deadlines. -/
theorem unbind_handler_timer_between_runs :
    cbsOf ([Op.clock 10000, .tick].foldl applyOp (applyCancelU ubBetween probeUnbindBetween 1)) =
      [.cb 0 3 .none, .cb 5 3 .none, .cb 2 3 .none] := by decide +kernel

/-- Deferred callbacks 0 (UNBIND, head of the queue) and 1; the handler of 0 queues 5 with BIND_FIRST. -/
def probeUnbindFirst : St :=
  [Op.act (.later 0 2), .act (.later 1 0)].foldl applyOp (build .repaired)

theorem unbind_handler_later_first_runs :
    (applyCancelU [⟨0, 0, [.later 5 1]⟩] probeUnbindFirst 0).laters = [4, 3] ∧
    cbsOf ([Op.tick].foldl applyOp (applyCancelU [⟨0, 0, [.later 5 1]⟩] probeUnbindFirst 0)) =
      [.cb 5 3 .none, .cb 1 3 .none] := by decide +kernel

end Tickit.EvLoop
