import Tickit.Proof.RBCopyPiece
/-
  C13: the loops of the repaired `copyrect`.  `Acc B d done E`: the buffer `d` reached so far from the original
  buffer `B`: the cells in `done` (that clip and mask allow) show `E`, all others what they showed in `B`; run
  structure, auxiliary state and mask depths are as in `B`.
-/
namespace Tickit.RBCopy
open Tickit Tickit.RB

structure Acc (B d : RB) (done : Int → Int → Bool) (E : Int → Int → Content) : Prop where
  wf : WF d
  aux : SameAux d B
  mask : ∀ l c, 0 ≤ l → l < B.lines → 0 ≤ c → c < B.cols → ((d.cells l).get c).maskdepth = ((B.cells l).get c).maskdepth
  content : ∀ L C, absContent d L C = if done L C = true ∧ writable B L C = true then E L C else absContent B L C
  flags : d.aborted = B.aborted ∧ d.fuelOut = B.fuelOut

theorem acc_init {B : RB} (hwf : WF B) (E : Int → Int → Content) : Acc B B (fun _ _ => false) E := by
  refine ⟨hwf, SameAux.refl, fun _ _ _ _ _ _ => rfl, fun L C => ?_, ⟨rfl, rfl⟩⟩
  simp

/-- Clip, size and mask depths decide what is writable. -/
theorem writable_congr {a b : RB} (ha : SameAux a b)
    (hm : ∀ l c, 0 ≤ l → l < b.lines → 0 ≤ c → c < b.cols → ((a.cells l).get c).maskdepth = ((b.cells l).get c).maskdepth)
    (L C : Int) : writable a L C = writable b L C := by
  unfold writable absClip absMasked RB.cell
  rw [ha.lines, ha.cols, ha.clip]
  by_cases hg : 0 ≤ L ∧ L < b.lines ∧ 0 ≤ C ∧ C < b.cols
  · rw [hm L C hg.1 hg.2.1 hg.2.2.1 hg.2.2.2]
  · simp [hg]

theorem Acc.done_congr {B d : RB} {done done' : Int → Int → Bool} {E : Int → Int → Content}
    (h : Acc B d done E) (he : ∀ L C, done L C = done' L C) : Acc B d done' E := by
  have : done = done' := by funext L C; exact he L C
  rw [← this]; exact h

/-- One more piece. -/
theorem acc_step {B d d' : RB} {done : Int → Int → Bool} {E : Int → Int → Content} (h : Acc B d done E)
    {L0 C0 n : Int} {newc : Int → Content → Content} (hd : DrawSpec d d' L0 C0 n newc)
    (hfresh : ∀ C, C0 ≤ C → C < C0 + n → done L0 C = false)
    (hE : ∀ C, C0 ≤ C → C < C0 + n → writable B L0 C = true → newc C (absContent B L0 C) = E L0 C) :
    Acc B d' (fun L C => done L C || (decide (L = L0) && decide (C0 ≤ C) && decide (C < C0 + n))) E := by
  have hw : ∀ L C, writable d L C = writable B L C := writable_congr h.aux h.mask
  refine ⟨hd.wf, hd.aux.trans h.aux, ?_, ?_, ⟨hd.flags.1.trans h.flags.1, hd.flags.2.trans h.flags.2⟩⟩
  · intro l c h0 h1 h2 h3
    rw [hd.mask l c h0 (by rw [h.aux.lines]; exact h1) h2 (by rw [h.aux.cols]; exact h3)]
    exact h.mask l c h0 h1 h2 h3
  · intro L C
    rw [hd.content L C, hw L C, h.content L C]
    by_cases hp : L = L0 ∧ C0 ≤ C ∧ C < C0 + n
    · have hf := hfresh C hp.2.1 hp.2.2
      rw [hp.1]
      by_cases hwr : writable B L0 C = true
      · rw [if_pos ⟨rfl, hp.2.1, hp.2.2, hwr⟩, hf]
        simp only [Bool.false_eq_true, false_and, if_false, Bool.false_or, hp.2.1, hp.2.2, decide_true, Bool.and_self,
          true_and, hwr, if_true]
        exact hE C hp.2.1 hp.2.2 hwr
      · rw [if_neg (fun hh => hwr hh.2.2.2), if_neg (fun hh => hwr hh.2), if_neg (fun hh => hwr hh.2)]
    · rw [if_neg (fun hh => hp ⟨hh.1, hh.2.1, hh.2.2.1⟩)]
      have : (decide (L = L0) && decide (C0 ≤ C) && decide (C < C0 + n)) = false := by
        rw [Bool.eq_false_iff]; intro hh
        simp only [Bool.and_eq_true, decide_eq_true_eq] at hh
        exact hp ⟨hh.1.1, hh.1.2, hh.2⟩
      rw [this, Bool.or_false]

/-! ### Decoding the run under the scan position -/

/-- What the `if(cell->state == CONT)` block finds in a well-formed line. -/
structure LookFacts (S : RB) (sr : Rect) (leftwards : Bool) (line col : Int) (lk : Look) : Prop where
  head : ((S.cells line).get lk.hcol).state ≠ .cont
  hcol0 : 0 ≤ lk.hcol
  hcol_le : lk.hcol ≤ lk.col
  col_le : lk.col ≤ col
  left_le : sr.left ≤ lk.col
  right : leftwards = false → lk.col = col
  leftw : leftwards = true → (lk.col = lk.hcol ∨ lk.col = sr.left)
  offset : lk.offset = lk.col - lk.hcol
  endgt : col < lk.hcol + ((S.cells line).get lk.hcol).cols
  endle : lk.hcol + ((S.cells line).get lk.hcol).cols ≤ S.cols
  content : ∀ j, 0 ≤ j → lk.col + j < lk.hcol + ((S.cells line).get lk.hcol).cols →
    absContent S line (lk.col + j) = cellContent ((S.cells line).get lk.hcol) (lk.offset + j)
  conts : ∀ k, lk.hcol < k → k < lk.hcol + ((S.cells line).get lk.hcol).cols → ((S.cells line).get k).state = .cont
  one : (((S.cells line).get lk.hcol).state = .line ∨ ((S.cells line).get lk.hcol).state = .char) →
    ((S.cells line).get lk.hcol).cols = 1 ∧ lk.hcol = col ∧ lk.col = col ∧ lk.offset = 0

theorem look_facts {S : RB} (hwf : WF S) (sr : Rect) (leftwards : Bool) (line col : Int)
    (hl0 : 0 ≤ line) (hl1 : line < S.lines) (hc0 : 0 ≤ col) (hc1 : col < S.cols) (hleft : sr.left ≤ col) :
    LookFacts S sr leftwards line col (look S sr leftwards line col) := by
  have hrow := hwf.rows line hl0 hl1
  unfold look RB.cell
  by_cases hc : ((S.cells line).get col).state = .cont
  · simp only [hc, if_true]
    have hrun := hrow.run_of_cont hc0 hc1 hc
    have hcontent : ∀ c, ((S.cells line).get col).cols ≤ c →
        c < ((S.cells line).get col).cols + ((S.cells line).get ((S.cells line).get col).cols).cols →
        absContent S line c = cellContent ((S.cells line).get ((S.cells line).get col).cols) (c - ((S.cells line).get col).cols) := by
      intro c h1 h2
      rw [absContent_eq, if_pos ⟨hl0, hl1, by omega, by omega⟩]
      by_cases he : c = ((S.cells line).get col).cols
      · rw [he, rowContent_head hrun.2.2.1, Int.sub_self]
      · have hj := hrun.2.2.2.2.2 c (by omega) h2
        rw [rowContent_cont hj.1, hj.2]
    cases leftwards with
    | false =>
      simp only [Bool.false_eq_true, if_false]
      refine ⟨hrun.2.2.1, hrun.1, ?_, Int.le_refl _, hleft, fun _ => rfl, fun h => by simp at h, rfl,
        hrun.2.2.2.1, hrun.2.2.2.2.1, ?_, ?_, ?_⟩
      · first | rfl | (dsimp only; omega)
      · intro j hj0 hj1
        dsimp only at hj1 ⊢
        rw [hcontent (col + j) (by omega) hj1]
        congr 1; omega
      · intro k h1 h2; exact (hrun.2.2.2.2.2 k h1 h2).1
      · intro hk
        have := hrow.one ((S.cells line).get col).cols hrun.1 (by omega) hk
        dsimp only at this ⊢
        omega
    | true =>
      simp only [if_true]
      by_cases hlt : ((S.cells line).get col).cols < sr.left
      · simp only [hlt, if_true]
        refine ⟨hrun.2.2.1, hrun.1, ?_, hleft, Int.le_refl _, fun h => by simp at h, fun _ => Or.inr rfl, rfl,
          hrun.2.2.2.1, hrun.2.2.2.2.1, ?_, ?_, ?_⟩
        · first | rfl | (dsimp only; omega)
        · intro j hj0 hj1
          dsimp only at hj1 ⊢
          rw [hcontent (sr.left + j) (by omega) hj1]
          congr 1; omega
        · intro k h1 h2; exact (hrun.2.2.2.2.2 k h1 h2).1
        · intro hk
          have := hrow.one ((S.cells line).get col).cols hrun.1 (by omega) hk
          dsimp only at this ⊢
          omega
      · simp only [hlt, if_false]
        refine ⟨hrun.2.2.1, hrun.1, Int.le_refl _, ?_, ?_, fun h => by simp at h,
          fun _ => Or.inl rfl, ?_, hrun.2.2.2.1, hrun.2.2.2.2.1, ?_, ?_, ?_⟩
        · first | rfl | (dsimp only; omega)
        · first | rfl | (dsimp only; omega)
        · first | rfl | (dsimp only; omega)
        · intro j hj0 hj1
          dsimp only at hj1 ⊢
          rw [hcontent (((S.cells line).get col).cols + j) (by omega) hj1]
          congr 1; omega
        · intro k h1 h2; exact (hrun.2.2.2.2.2 k h1 h2).1
        · intro hk
          have := hrow.one ((S.cells line).get col).cols hrun.1 (by omega) hk
          dsimp only at this ⊢
          omega
  · simp only [hc, if_false]
    have hh := hrow.head col hc0 hc1 hc
    refine ⟨hc, hc0, Int.le_refl _, Int.le_refl _, hleft, fun _ => rfl, fun _ => Or.inl rfl, ?_, ?_, hh.2.1, ?_, ?_, ?_⟩
    · first | rfl | (dsimp only; omega)
    · first | rfl | (dsimp only; omega)
    · intro j hj0 hj1
      dsimp only at hj1 ⊢
      rw [absContent_eq, if_pos ⟨hl0, hl1, by omega, by omega⟩]
      by_cases he : j = 0
      · rw [he, Int.add_zero, rowContent_head hc]; rfl
      · have hj := hh.2.2 (col + j) (by omega) hj1
        rw [rowContent_cont hj.1, hj.2]
        congr 1; omega
    · intro k h1 h2; exact (hh.2.2 k h1 h2).1
    · intro hk
      exact ⟨hrow.one col hc0 hc1 hk, rfl, rfl, rfl⟩

/-! ### The specification, unfolded -/

theorem copyExpect_eq (copySkip : Bool) (dst src : RB) (sr : Rect) (lo co L C : Int) :
    copyExpect copySkip dst src sr lo co L C =
      if (sr.memb (L - lo) (C - co) && writable dst L C) = true
      then pieceNew copySkip dst.pen (absContent src (L - lo) (C - co)) (absContent dst L C)
      else absContent dst L C := rfl

theorem memb_iff (r : Rect) (l c : Int) :
    r.memb l c = true ↔ r.top ≤ l ∧ l < r.top + r.lines ∧ r.left ≤ c ∧ c < r.left + r.cols := by
  unfold Rect.memb Rect.bottom Rect.right
  simp only [Bool.and_eq_true, decide_eq_true_eq]
  constructor
  · rintro ⟨⟨⟨h1, h2⟩, h3⟩, h4⟩; exact ⟨h1, h2, h3, h4⟩
  · rintro ⟨h1, h2, h3, h4⟩; exact ⟨⟨⟨h1, h2⟩, h3⟩, h4⟩

/-! ### The column loop, scanning rightwards -/

/-- The destination cells finished while scanning line `line` rightwards up to (not including) column `c`. -/
def doneR (done0 : Int → Int → Bool) (sr : Rect) (L0 co' c : Int) (L C : Int) : Bool :=
  done0 L C || (decide (L = L0) && decide (sr.left + co' ≤ C) && decide (C < c + co') && decide (C < sr.left + sr.cols + co'))

theorem colLoop_right (same copySkip : Bool) (src B : RB) (sr : Rect) (lo co line : Int)
    (done0 : Int → Int → Bool)
    (hsrc : same = false → WF src)
    (hl0 : 0 ≤ line) (hl1 : line < (if same then B else src).lines) (hc0 : 0 ≤ sr.left)
    (hc1 : sr.left + sr.cols ≤ (if same then B else src).cols) (ht : sr.top ≤ line) (hb : line < sr.top + sr.lines)
    (hdir : same = true → (lo + B.xlLine ≠ 0 ∨ co + B.xlCol < 0))
    (hA : ∀ C, done0 (line + (lo + B.xlLine)) C = false)
    (hB : same = true → ∀ C, sr.left ≤ C → C < sr.left + sr.cols → done0 line C = false) :
    ∀ (fuel : Nat) (d : RB) (c : Int), sr.left ≤ c →
      Acc B d (doneR done0 sr (line + (lo + B.xlLine)) (co + B.xlCol) c)
        (copyExpect copySkip B (if same then B else src) sr (lo + B.xlLine) (co + B.xlCol)) →
      sr.left + sr.cols - c < fuel →
      Acc B (colLoop Variant.repaired same copySkip src sr lo co false line fuel d c)
        (doneR done0 sr (line + (lo + B.xlLine)) (co + B.xlCol) (sr.left + sr.cols))
        (copyExpect copySkip B (if same then B else src) sr (lo + B.xlLine) (co + B.xlCol)) := by
  intro fuel
  induction fuel with
  | zero =>
    intro d c hc hacc hf
    have hm : more false sr c = false := by unfold more Rect.right; simp; omega
    unfold colLoop; rw [hm]; simp only [Bool.false_eq_true, if_false]
    apply hacc.done_congr
    intro L C
    unfold doneR
    have : (decide (C < c + (co + B.xlCol)) && decide (C < sr.left + sr.cols + (co + B.xlCol))) =
        (decide (C < sr.left + sr.cols + (co + B.xlCol)) && decide (C < sr.left + sr.cols + (co + B.xlCol))) := by
      by_cases h : C < sr.left + sr.cols + (co + B.xlCol)
      · have : C < c + (co + B.xlCol) := by omega
        simp [h, this]
      · simp [h]
    simp only [Bool.and_assoc, this]
  | succ n ih =>
    intro d c hc hacc hf
    unfold colLoop
    by_cases hm : more false sr c = true
    · rw [if_pos hm]
      have hlt : c < sr.left + sr.cols := by unfold more Rect.right at hm; simpa using hm
      rw [body_captured Variant.repaired rfl]
      -- the source buffer read by this iteration
      have hS : WF (if same then d else src) ∧ (if same then d else src).lines = (if same then B else src).lines ∧
          (if same then d else src).cols = (if same then B else src).cols := by
        cases same with
        | true => exact ⟨hacc.wf, hacc.aux.lines, hacc.aux.cols⟩
        | false => exact ⟨hsrc rfl, rfl, rfl⟩
      have hlk := look_facts hS.1 sr false line c hl0 (by rw [hS.2.1]; exact hl1) (by omega) (by rw [hS.2.2]; omega) hc
      dsimp only
      simp only [Bool.false_eq_true, if_false]
      unfold RB.cell
      generalize hlkdef : look (if same then d else src) sr false line c = lk at hlk ⊢
      have hcol : lk.col = c := hlk.right rfl
      have f_head := hlk.head
      have f_off := hlk.offset
      have f_endgt := hlk.endgt
      have f_hcol_le := hlk.hcol_le
      have f_content := hlk.content
      have f_one := hlk.one
      generalize hcelldef : ((if same then d else src).cells line).get lk.hcol = cell at f_head f_endgt f_content f_one ⊢
      rw [hcol] at f_off f_hcol_le f_content ⊢
      have hrun1 : 1 ≤ cell.cols - lk.offset := by omega
      have hcols : 1 ≤ pieceCols sr lk (cell.cols - lk.offset) ∧ pieceCols sr lk (cell.cols - lk.offset) ≤ cell.cols - lk.offset ∧
          c + pieceCols sr lk (cell.cols - lk.offset) ≤ sr.left + sr.cols ∧
          (pieceCols sr lk (cell.cols - lk.offset) = cell.cols - lk.offset ∨
            c + pieceCols sr lk (cell.cols - lk.offset) = sr.left + sr.cols) := by
        unfold pieceCols Rect.right
        rw [hcol]
        by_cases hh : c + (cell.cols - lk.offset) > sr.left + sr.cols
        · rw [if_pos hh]; omega
        · rw [if_neg hh]; omega
      generalize hpc : pieceCols sr lk (cell.cols - lk.offset) = cols at hcols ⊢
      have hone : (cell.state = .line ∨ cell.state = .char) → cols = 1 := by
        intro hk; have := f_one hk; omega
      have hds := copyPiece_spec hacc.wf copySkip cell lk.offset cols (line + lo) (c + co) f_head hone
      rw [hacc.aux.xlLine, hacc.aux.xlCol, hacc.aux.pen] at hds
      have hL : line + lo + B.xlLine = line + (lo + B.xlLine) := by omega
      have hC : c + co + B.xlCol = c + (co + B.xlCol) := by omega
      rw [hL, hC] at hds
      have hstep := acc_step hacc hds
        (by
          intro C h1 h2
          unfold doneR
          rw [hA C]
          have : ¬ C < c + (co + B.xlCol) := by omega
          simp [this])
        (by
          intro C h1 h2 hw
          rw [copyExpect_eq]
          have hmem : sr.memb (line + (lo + B.xlLine) - (lo + B.xlLine)) (C - (co + B.xlCol)) = true := by
            rw [memb_iff]; omega
          rw [hmem, hw]
          simp only [Bool.and_self, if_true]
          have e1 : line + (lo + B.xlLine) - (lo + B.xlLine) = line := by omega
          rw [e1]
          -- the source cell still shows what it showed originally
          have hj0 : 0 ≤ C - (c + (co + B.xlCol)) := by omega
          have hsc := f_content (C - (c + (co + B.xlCol))) hj0 (by omega)
          have e2 : c + (C - (c + (co + B.xlCol))) = C - (co + B.xlCol) := by omega
          rw [e2] at hsc
          rw [← hsc]
          congr 1
          cases same with
          | false => rfl
          | true =>
            simp only [if_true]
            rw [hacc.content]
            have hd : doneR done0 sr (line + (lo + B.xlLine)) (co + B.xlCol) c line (C - (co + B.xlCol)) = false := by
              unfold doneR
              rw [hB rfl (C - (co + B.xlCol)) (by omega) (by omega)]
              rcases hdir rfl with hh | hh
              · have : ¬ line = line + (lo + B.xlLine) := by omega
                simp [this]
              · have : ¬ C - (co + B.xlCol) < c + (co + B.xlCol) := by omega
                simp [this]
            rw [hd]; simp)
      have hnext := ih _ (c + (cell.cols - lk.offset)) (by omega)
        (hstep.done_congr (by
          intro L C
          unfold doneR
          by_cases hLL : L = line + (lo + B.xlLine)
          · by_cases h1 : sr.left + (co + B.xlCol) ≤ C
            · by_cases h2 : C < sr.left + sr.cols + (co + B.xlCol)
              · by_cases h3 : C < c + (co + B.xlCol)
                · have : C < c + (cell.cols - lk.offset) + (co + B.xlCol) := by omega
                  simp [hLL, h1, h2, h3, this]
                · by_cases h4 : C < c + (co + B.xlCol) + cols
                  · have : C < c + (cell.cols - lk.offset) + (co + B.xlCol) := by omega
                    have h5 : c + (co + B.xlCol) ≤ C := by omega
                    simp [hLL, h1, h2, h3, h4, h5, this]
                  · have : ¬ C < c + (cell.cols - lk.offset) + (co + B.xlCol) := by omega
                    simp [hLL, h1, h2, h3, h4, this]
              · have h3 : ¬ (c + (co + B.xlCol) ≤ C ∧ C < c + (co + B.xlCol) + cols) := by omega
                by_cases h5 : c + (co + B.xlCol) ≤ C
                · have : ¬ C < c + (co + B.xlCol) + cols := by omega
                  simp [hLL, h2, this]
                · simp [hLL, h2, h5]
            · have h5 : ¬ c + (co + B.xlCol) ≤ C := by omega
              simp [hLL, h1, h5]
          · simp [hLL]))
        (by omega)
      exact hnext
    · have hm' : more false sr c = false := by simpa using hm
      rw [hm']; simp only [Bool.false_eq_true, if_false]
      have hge : sr.left + sr.cols ≤ c := by unfold more Rect.right at hm'; simpa using hm'
      apply hacc.done_congr
      intro L C
      unfold doneR
      by_cases h : C < sr.left + sr.cols + (co + B.xlCol)
      · have : C < c + (co + B.xlCol) := by omega
        simp [h, this]
      · simp [h]

/-! ### The column loop, scanning leftwards (copy to the right within one line) -/

/-- The destination cells finished while scanning line `line` leftwards down to (not including) column `c`. -/
def doneL (done0 : Int → Int → Bool) (sr : Rect) (L0 co' c : Int) (L C : Int) : Bool :=
  done0 L C || (decide (L = L0) && decide (c + co' < C) && decide (C < sr.left + sr.cols + co'))

theorem colLoop_left (copySkip : Bool) (src B : RB) (sr : Rect) (co line : Int)
    (done0 : Int → Int → Bool)
    (hxl : B.xlLine = 0) (hco : 0 < co + B.xlCol)
    (hl0 : 0 ≤ line) (hl1 : line < B.lines) (hc0 : 0 ≤ sr.left)
    (hc1 : sr.left + sr.cols ≤ B.cols) (ht : sr.top ≤ line) (hb : line < sr.top + sr.lines)
    (hA : ∀ C, done0 line C = false) :
    ∀ (fuel : Nat) (d : RB) (c : Int), sr.left - 1 ≤ c → c < sr.left + sr.cols →
      Acc B d (doneL done0 sr line (co + B.xlCol) c) (copyExpect copySkip B B sr 0 (co + B.xlCol)) →
      (c + 1 = sr.left + sr.cols ∨ c < sr.left ∨ ((d.cells line).get (c + 1)).state ≠ .cont) →
      c - sr.left + 1 < fuel →
      Acc B (colLoop Variant.repaired true copySkip src sr 0 co true line fuel d c)
        (doneL done0 sr line (co + B.xlCol) (sr.left - 1)) (copyExpect copySkip B B sr 0 (co + B.xlCol)) := by
  intro fuel
  induction fuel with
  | zero => intro d c h1 h2 _ _ hf; omega
  | succ n ih =>
    intro d c hlo hhi hacc hbnd hf
    unfold colLoop
    by_cases hm : more true sr c = true
    · rw [if_pos hm]
      have hge : sr.left ≤ c := by unfold more at hm; simpa using hm
      rw [body_captured Variant.repaired rfl]
      have hlk := look_facts hacc.wf sr true line c hl0 (by rw [hacc.aux.lines]; exact hl1) (by omega)
        (by rw [hacc.aux.cols]; omega) hge
      dsimp only
      simp only [if_true]
      unfold RB.cell
      generalize hlkdef : look d sr true line c = lk at hlk ⊢
      have f_head := hlk.head
      have f_off := hlk.offset
      have f_endgt := hlk.endgt
      have f_hcol_le := hlk.hcol_le
      have f_col_le := hlk.col_le
      have f_left_le := hlk.left_le
      have f_leftw := hlk.leftw rfl
      have f_content := hlk.content
      have f_conts := hlk.conts
      have f_one := hlk.one
      have f_hcol0 := hlk.hcol0
      generalize hcelldef : (d.cells line).get lk.hcol = cell at f_head f_endgt f_content f_one f_conts ⊢
      -- the run of `c` ends at `c + 1` (or the rectangle does)
      have hend : lk.hcol + cell.cols = c + 1 ∨ c + 1 = sr.left + sr.cols := by
        rcases hbnd with h | h | h
        · exact Or.inr h
        · omega
        · by_cases he : lk.hcol + cell.cols = c + 1
          · exact Or.inl he
          · exact absurd (f_conts (c + 1) (by omega) (by omega)) h
      have hcols : pieceCols sr lk (cell.cols - lk.offset) = c + 1 - lk.col := by
        unfold pieceCols Rect.right
        by_cases hh : lk.col + (cell.cols - lk.offset) > sr.left + sr.cols
        · rw [if_pos hh]; omega
        · rw [if_neg hh]; omega
      rw [hcols]
      have hone : (cell.state = .line ∨ cell.state = .char) → c + 1 - lk.col = 1 := by
        intro hk; have := f_one hk; omega
      have hds := copyPiece_spec hacc.wf copySkip cell lk.offset (c + 1 - lk.col) (line + 0) (lk.col + co) f_head hone
      rw [hacc.aux.xlLine, hacc.aux.xlCol, hacc.aux.pen, hxl] at hds
      have hL : line + 0 + 0 = line := by omega
      have hC : lk.col + co + B.xlCol = lk.col + (co + B.xlCol) := by omega
      rw [hL, hC] at hds
      have hstep := acc_step hacc hds
        (by
          intro C h1 h2
          unfold doneL
          rw [hA C]
          have : ¬ c + (co + B.xlCol) < C := by omega
          simp [this])
        (by
          intro C h1 h2 hw
          rw [copyExpect_eq]
          have hmem : sr.memb (line - 0) (C - (co + B.xlCol)) = true := by
            rw [memb_iff]; omega
          rw [hmem, hw]
          simp only [Bool.and_self, if_true]
          have e1 : line - 0 = line := by omega
          rw [e1]
          have hj0 : 0 ≤ C - (lk.col + (co + B.xlCol)) := by omega
          have hsc := f_content (C - (lk.col + (co + B.xlCol))) hj0 (by omega)
          have e2 : lk.col + (C - (lk.col + (co + B.xlCol))) = C - (co + B.xlCol) := by omega
          rw [e2] at hsc
          rw [← hsc]
          congr 1
          rw [hacc.content]
          have hd : doneL done0 sr line (co + B.xlCol) c line (C - (co + B.xlCol)) = false := by
            unfold doneL
            rw [hA]
            have : ¬ c + (co + B.xlCol) < C - (co + B.xlCol) := by omega
            simp [this]
          rw [hd]; simp)
      have hnext := ih _ (lk.col - 1) (by omega) (by omega)
        (hstep.done_congr (by
          intro L C
          unfold doneL
          by_cases hLL : L = line
          · by_cases h2 : C < sr.left + sr.cols + (co + B.xlCol)
            · by_cases h3 : c + (co + B.xlCol) < C
              · have : lk.col - 1 + (co + B.xlCol) < C := by omega
                simp [hLL, h2, h3, this]
              · by_cases h4 : lk.col + (co + B.xlCol) ≤ C
                · have : lk.col - 1 + (co + B.xlCol) < C := by omega
                  have h5 : C < lk.col + (co + B.xlCol) + (c + 1 - lk.col) := by omega
                  simp [hLL, h2, h3, h4, h5, this]
                · have : ¬ lk.col - 1 + (co + B.xlCol) < C := by omega
                  simp [hLL, h2, h3, h4, this]
            · have : ¬ (lk.col + (co + B.xlCol) ≤ C ∧ C < lk.col + (co + B.xlCol) + (c + 1 - lk.col)) := by omega
              by_cases h4 : lk.col + (co + B.xlCol) ≤ C
              · have h5 : ¬ C < lk.col + (co + B.xlCol) + (c + 1 - lk.col) := by omega
                simp [hLL, h2, h5]
              · simp [hLL, h2, h4]
          · simp [hLL]))
        (by
          -- the column right of the next scan position is still a run start (or the scan is over)
          rcases f_leftw with h | h
          · by_cases hlt : lk.col - 1 < sr.left
            · exact Or.inr (Or.inl hlt)
            · refine Or.inr (Or.inr ?_)
              have e : lk.col - 1 + 1 = lk.hcol := by omega
              rw [e]
              apply hds.heads line lk.hcol hl0 (by rw [hacc.aux.lines]; exact hl1) f_hcol0 (by rw [hacc.aux.cols]; omega)
                (by omega)
              rw [hcelldef]; exact f_head
          · exact Or.inr (Or.inl (by omega)))
        (by omega)
      exact hnext
    · have hm' : more true sr c = false := by simpa using hm
      rw [hm']; simp only [Bool.false_eq_true, if_false]
      have hlt : c < sr.left := by unfold more at hm'; simpa using hm'
      have : c = sr.left - 1 := by omega
      rw [this] at hacc; exact hacc

/-! ### The line loop -/

/-- Equality of two Boolean combinations of linear conditions. -/
macro "bool_omega" : tactic => `(tactic| (
  rw [Bool.eq_iff_iff]
  simp only [Bool.or_eq_true, Bool.and_eq_true, decide_eq_true_eq, Bool.false_eq_true, false_or, or_false]
  omega))

/-- The destination cells of the source lines `[a, b)`. -/
def doneBand (sr : Rect) (lo' co' a b : Int) (L C : Int) : Bool :=
  decide (a ≤ L - lo') && decide (L - lo' < b) && decide (sr.left + co' ≤ C) && decide (C < sr.left + sr.cols + co')

theorem colFuel_enough (sr : Rect) (c : Int) (h : sr.left ≤ c) : sr.left + sr.cols - c < (colFuel sr : Nat) := by
  unfold colFuel; omega

/-- Lines top to bottom, columns left to right (different buffers; or the same buffer when copying upwards, or
    leftwards within the lines). -/
theorem lineLoop_down (same copySkip : Bool) (src B : RB) (sr : Rect) (lo co : Int)
    (hsrc : same = false → WF src)
    (ht0 : 0 ≤ sr.top) (hb1 : sr.top + sr.lines ≤ (if same then B else src).lines) (hc0 : 0 ≤ sr.left)
    (hc1 : sr.left + sr.cols ≤ (if same then B else src).cols)
    (hdir : same = true → (lo + B.xlLine < 0 ∨ (lo + B.xlLine = 0 ∧ co + B.xlCol < 0))) :
    ∀ (m : Nat) (l : Int) (d : RB), sr.top ≤ l → l + m = sr.top + sr.lines →
      Acc B d (doneBand sr (lo + B.xlLine) (co + B.xlCol) sr.top l)
        (copyExpect copySkip B (if same then B else src) sr (lo + B.xlLine) (co + B.xlCol)) →
      Acc B (lineLoop (fun d line => colLoop Variant.repaired same copySkip src sr lo co false line (colFuel sr) d sr.left)
              1 m d l)
        (doneBand sr (lo + B.xlLine) (co + B.xlCol) sr.top (sr.top + sr.lines))
        (copyExpect copySkip B (if same then B else src) sr (lo + B.xlLine) (co + B.xlCol)) := by
  intro m
  induction m with
  | zero =>
    intro l d h1 h2 hacc
    unfold lineLoop
    have : l = sr.top + sr.lines := by omega
    rw [this] at hacc; exact hacc
  | succ m ih =>
    intro l d h1 h2 hacc
    unfold lineLoop
    apply ih (l + 1) _ (by omega) (by omega)
    have hcol := colLoop_right same copySkip src B sr lo co l
      (doneBand sr (lo + B.xlLine) (co + B.xlCol) sr.top l) hsrc (by omega) (by omega) hc0 hc1 h1 (by omega)
      (by
        intro hs
        rcases hdir hs with h | h
        · exact Or.inl (by omega)
        · exact Or.inr h.2)
      (by
        intro C; unfold doneBand
        rw [Bool.eq_false_iff]
        simp only [ne_eq, Bool.and_eq_true, decide_eq_true_eq]
        omega)
      (by
        intro hs C _ _; unfold doneBand
        have := hdir hs
        rw [Bool.eq_false_iff]
        simp only [ne_eq, Bool.and_eq_true, decide_eq_true_eq]
        omega)
      (colFuel sr) d sr.left (Int.le_refl _)
      (hacc.done_congr (by
        intro L C; unfold doneR doneBand
        bool_omega))
      (colFuel_enough sr sr.left (Int.le_refl _))
    apply hcol.done_congr
    intro L C
    unfold doneR doneBand
    bool_omega

/-- Lines bottom to top, columns left to right (the same buffer, copying downwards). -/
theorem lineLoop_up (copySkip : Bool) (src B : RB) (sr : Rect) (lo co : Int)
    (ht0 : 0 ≤ sr.top) (hb1 : sr.top + sr.lines ≤ B.lines) (hc0 : 0 ≤ sr.left) (hc1 : sr.left + sr.cols ≤ B.cols)
    (hdir : 0 < lo + B.xlLine) :
    ∀ (m : Nat) (l : Int) (d : RB), l < sr.top + sr.lines → l + 1 = sr.top + m →
      Acc B d (doneBand sr (lo + B.xlLine) (co + B.xlCol) (l + 1) (sr.top + sr.lines))
        (copyExpect copySkip B B sr (lo + B.xlLine) (co + B.xlCol)) →
      Acc B (lineLoop (fun d line => colLoop Variant.repaired true copySkip src sr lo co false line (colFuel sr) d sr.left)
              (-1) m d l)
        (doneBand sr (lo + B.xlLine) (co + B.xlCol) sr.top (sr.top + sr.lines))
        (copyExpect copySkip B B sr (lo + B.xlLine) (co + B.xlCol)) := by
  intro m
  induction m with
  | zero =>
    intro l d h1 h2 hacc
    unfold lineLoop
    have : l + 1 = sr.top := by omega
    rw [this] at hacc; exact hacc
  | succ m ih =>
    intro l d h1 h2 hacc
    unfold lineLoop
    have e : l + -1 + 1 = l := by omega
    apply ih (l + -1) _ (by omega) (by omega)
    rw [e]
    have hcol := colLoop_right true copySkip src B sr lo co l
      (doneBand sr (lo + B.xlLine) (co + B.xlCol) (l + 1) (sr.top + sr.lines)) (fun h => by simp at h)
      (by omega) (by simp only [if_true]; omega) hc0 (by simp only [if_true]; exact hc1) (by omega) h1
      (fun _ => Or.inl (by omega))
      (by
        intro C; unfold doneBand
        rw [Bool.eq_false_iff]
        simp only [ne_eq, Bool.and_eq_true, decide_eq_true_eq]
        omega)
      (by
        intro _ C _ _; unfold doneBand
        rw [Bool.eq_false_iff]
        simp only [ne_eq, Bool.and_eq_true, decide_eq_true_eq]
        omega)
      (colFuel sr) d sr.left (Int.le_refl _)
      (by
        simp only [if_true]
        exact hacc.done_congr (by
          intro L C; unfold doneR doneBand
          bool_omega))
      (colFuel_enough sr sr.left (Int.le_refl _))
    simp only [if_true] at hcol
    apply hcol.done_congr
    intro L C
    unfold doneR doneBand
    bool_omega

/-- Lines top to bottom, columns right to left (the same buffer, copying rightwards within the lines). -/
theorem lineLoop_leftwards (copySkip : Bool) (src B : RB) (sr : Rect) (co : Int)
    (hxl : B.xlLine = 0) (hco : 0 < co + B.xlCol)
    (ht0 : 0 ≤ sr.top) (hb1 : sr.top + sr.lines ≤ B.lines) (hc0 : 0 ≤ sr.left) (hc1 : sr.left + sr.cols ≤ B.cols)
    (hcols : 0 < sr.cols) :
    ∀ (m : Nat) (l : Int) (d : RB), sr.top ≤ l → l + m = sr.top + sr.lines →
      Acc B d (doneBand sr 0 (co + B.xlCol) sr.top l) (copyExpect copySkip B B sr 0 (co + B.xlCol)) →
      Acc B (lineLoop (fun d line => colLoop Variant.repaired true copySkip src sr 0 co true line (colFuel sr) d (sr.right - 1))
              1 m d l)
        (doneBand sr 0 (co + B.xlCol) sr.top (sr.top + sr.lines)) (copyExpect copySkip B B sr 0 (co + B.xlCol)) := by
  intro m
  induction m with
  | zero =>
    intro l d h1 h2 hacc
    unfold lineLoop
    have : l = sr.top + sr.lines := by omega
    rw [this] at hacc; exact hacc
  | succ m ih =>
    intro l d h1 h2 hacc
    unfold lineLoop
    apply ih (l + 1) _ (by omega) (by omega)
    have hr : sr.right - 1 = sr.left + sr.cols - 1 := rfl
    rw [hr]
    have hcol := colLoop_left copySkip src B sr co l (doneBand sr 0 (co + B.xlCol) sr.top l) hxl hco
      (by omega) (by omega) hc0 hc1 h1 (by omega)
      (by
        intro C; unfold doneBand
        rw [Bool.eq_false_iff]
        simp only [ne_eq, Bool.and_eq_true, decide_eq_true_eq]
        omega)
      (colFuel sr) d (sr.left + sr.cols - 1) (by omega) (by omega)
      (hacc.done_congr (by
        intro L C; unfold doneL doneBand
        bool_omega))
      (Or.inl (by omega))
      (by unfold colFuel; omega)
    apply hcol.done_congr
    intro L C
    unfold doneL doneBand
    bool_omega

/-- After all lines: every cell shows what the specification says. -/
theorem acc_final {B d S0 : RB} {copySkip : Bool} {sr : Rect} {lo co : Int}
    (h : Acc B d (doneBand sr lo co sr.top (sr.top + sr.lines)) (copyExpect copySkip B S0 sr lo co)) (L C : Int) :
    absContent d L C = copyExpect copySkip B S0 sr lo co L C := by
  rw [h.content L C]
  by_cases hc : doneBand sr lo co sr.top (sr.top + sr.lines) L C = true ∧ writable B L C = true
  · rw [if_pos hc]
  · rw [if_neg hc, copyExpect_eq]
    have : ¬ ((sr.memb (L - lo) (C - co) && writable B L C) = true) := by
      intro hh
      apply hc
      rw [Bool.and_eq_true, memb_iff] at hh
      refine ⟨?_, hh.2⟩
      unfold doneBand
      simp only [Bool.and_eq_true, decide_eq_true_eq]
      omega
    rw [if_neg this]

theorem acc_empty {B : RB} (hwf : WF B) (E : Int → Int → Content) (sr : Rect) (lo co a : Int) :
    Acc B B (doneBand sr lo co a a) E :=
  (acc_init hwf E).done_congr (by
    intro L C; unfold doneBand
    symm; rw [Bool.eq_false_iff]
    simp only [ne_eq, Bool.and_eq_true, decide_eq_true_eq]
    omega)

/-! ### `copyrect` -/

/-- Within one buffer, no translation in force, source rectangle inside the buffer, a genuine displacement. -/
theorem copyrect_same_acc (copySkip : Bool) (B : RB) (dr sr : Rect) (hwf : WF B)
    (hxl : B.xlLine = 0) (hxc : B.xlCol = 0)
    (ht0 : 0 ≤ sr.top) (hb1 : sr.top + sr.lines ≤ B.lines) (hc0 : 0 ≤ sr.left) (hc1 : sr.left + sr.cols ≤ B.cols)
    (hlines : 0 < sr.lines) (hcols : 0 < sr.cols) (hmove : ¬ (dr.top - sr.top = 0 ∧ dr.left - sr.left = 0)) :
    Acc B (copyrect Variant.repaired true copySkip B B dr sr)
      (doneBand sr (dr.top - sr.top) (dr.left - sr.left) sr.top (sr.top + sr.lines))
      (copyExpect copySkip B B sr (dr.top - sr.top) (dr.left - sr.left)) := by
  unfold copyrect
  have h0 : ¬ (sr.lines = 0 ∨ sr.cols = 0) := by omega
  rw [if_neg h0]
  dsimp only
  have h1 : ¬ (true = true ∧ dr.top - sr.top = 0 ∧ dr.left - sr.left = 0) := fun h => hmove h.2
  rw [if_neg h1]
  have hn : (sr.lines.toNat : Int) = sr.lines := by omega
  have elo : dr.top - sr.top + B.xlLine = dr.top - sr.top := by omega
  have eco : dr.left - sr.left + B.xlCol = dr.left - sr.left := by omega
  by_cases hup : dr.top - sr.top > 0
  · -- copying downwards: bottom line first
    have hu : (true && decide (dr.top - sr.top > 0)) = true := by rw [Bool.true_and, decide_eq_true_eq]; exact hup
    have hl : (true && decide (dr.top - sr.top = 0) && decide (dr.left - sr.left > 0)) = false := by
      have : ¬ dr.top - sr.top = 0 := by omega
      rw [Bool.true_and, Bool.and_eq_false_iff, decide_eq_false_iff_not]; exact Or.inl this
    simp only [hu, hl, if_true, Bool.false_eq_true, if_false]
    have := lineLoop_up copySkip B B sr (dr.top - sr.top) (dr.left - sr.left) ht0 hb1 hc0 hc1 (by omega)
      sr.lines.toNat (sr.bottom - 1) B (by unfold Rect.bottom; omega) (by unfold Rect.bottom; omega)
      (by
        have e : sr.bottom - 1 + 1 = sr.top + sr.lines := by unfold Rect.bottom; omega
        rw [e]; exact acc_empty hwf _ sr _ _ _)
    rw [elo, eco] at this
    exact this
  · have hu : (true && decide (dr.top - sr.top > 0)) = false := by rw [Bool.true_and, decide_eq_false_iff_not]; exact hup
    by_cases hlw : dr.top - sr.top = 0 ∧ dr.left - sr.left > 0
    · -- copying rightwards within the lines: rightmost column first
      have hl : (true && decide (dr.top - sr.top = 0) && decide (dr.left - sr.left > 0)) = true := by
        rw [Bool.true_and, Bool.and_eq_true, decide_eq_true_eq, decide_eq_true_eq]; exact hlw
      simp only [hu, hl, if_true, Bool.false_eq_true, if_false]
      have := lineLoop_leftwards copySkip B B sr (dr.left - sr.left) hxl (by omega) ht0 hb1 hc0 hc1 hcols
        sr.lines.toNat sr.top B (Int.le_refl _) (by omega) (by rw [eco]; exact acc_empty hwf _ sr _ _ _)
      rw [eco] at this
      rw [hlw.1]
      exact this
    · have hl : (true && decide (dr.top - sr.top = 0) && decide (dr.left - sr.left > 0)) = false := by
        rw [Bool.true_and, Bool.and_eq_false_iff, decide_eq_false_iff_not, decide_eq_false_iff_not]
        by_cases h : dr.top - sr.top = 0
        · exact Or.inr (fun hh => hlw ⟨h, hh⟩)
        · exact Or.inl h
      simp only [hu, hl, if_true, Bool.false_eq_true, if_false]
      have := lineLoop_down true copySkip B B sr (dr.top - sr.top) (dr.left - sr.left) (fun h => by simp at h)
        ht0 (by simp only [if_true]; exact hb1) hc0 (by simp only [if_true]; exact hc1)
        (by intro _; rw [elo, eco]; omega)
        sr.lines.toNat sr.top B (Int.le_refl _) (by omega)
        (by simp only [if_true]; exact acc_empty hwf _ sr _ _ _)
      simp only [if_true] at this
      rw [elo, eco] at this
      exact this

/-- Between two different buffers (`blit`): any translation on the destination. -/
theorem copyrect_other_acc (copySkip : Bool) (dst src : RB) (dr sr : Rect) (hwf : WF dst) (hsrc : WF src)
    (ht0 : 0 ≤ sr.top) (hb1 : sr.top + sr.lines ≤ src.lines) (hc0 : 0 ≤ sr.left) (hc1 : sr.left + sr.cols ≤ src.cols)
    (hlines : 0 < sr.lines) (hcols : 0 < sr.cols) :
    Acc dst (copyrect Variant.repaired false copySkip dst src dr sr)
      (doneBand sr (dr.top - sr.top + dst.xlLine) (dr.left - sr.left + dst.xlCol) sr.top (sr.top + sr.lines))
      (copyExpect copySkip dst src sr (dr.top - sr.top + dst.xlLine) (dr.left - sr.left + dst.xlCol)) := by
  unfold copyrect
  have h0 : ¬ (sr.lines = 0 ∨ sr.cols = 0) := by omega
  rw [if_neg h0]
  dsimp only
  have h1 : ¬ (false = true ∧ dr.top - sr.top = 0 ∧ dr.left - sr.left = 0) := fun h => by simp at h
  rw [if_neg h1]
  simp only [Bool.false_and, Bool.false_eq_true, if_false]
  have := lineLoop_down false copySkip src dst sr (dr.top - sr.top) (dr.left - sr.left) (fun _ => hsrc)
    ht0 (by simp only [Bool.false_eq_true, if_false]; exact hb1) hc0 (by simp only [Bool.false_eq_true, if_false]; exact hc1)
    (fun h => by simp at h)
    sr.lines.toNat sr.top dst (Int.le_refl _) (by omega)
    (by simp only [Bool.false_eq_true, if_false]; exact acc_empty hwf _ sr _ _ _)
  simp only [Bool.false_eq_true, if_false] at this
  exact this

end Tickit.RBCopy
