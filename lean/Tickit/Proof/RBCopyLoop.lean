import Tickit.Proof.RBCopyPiece
/-
  C13: the loops of the repaired `copyrect`.  `Acc B d done E`: the buffer `d` reached so far from the original
  buffer `B`: the cells in `done` (that clip and mask allow) show `E`, all others what they showed in `B`; run
  structure, auxiliary state and mask depths are as in `B`.
-/
namespace Tickit.RBCopy
open Tickit Tickit.RB

structure Acc (B d : RB) (done : Int → Int → Bool) (E : Int → Int → Content) : Prop where
  wf : WF d
  aux : SameAux d B
  mask : ∀ l c, 0 ≤ l → l < B.lines → 0 ≤ c → c < B.cols → ((d.cells l).get c).maskdepth = ((B.cells l).get c).maskdepth
  content : ∀ L C, absContent d L C = if done L C = true ∧ writable B L C = true then E L C else absContent B L C

theorem acc_init {B : RB} (hwf : WF B) (E : Int → Int → Content) : Acc B B (fun _ _ => false) E := by
  refine ⟨hwf, SameAux.refl, fun _ _ _ _ _ _ => rfl, fun L C => ?_⟩
  simp

/-- Clip, size and mask depths decide what is writable. -/
theorem writable_congr {a b : RB} (ha : SameAux a b)
    (hm : ∀ l c, 0 ≤ l → l < b.lines → 0 ≤ c → c < b.cols → ((a.cells l).get c).maskdepth = ((b.cells l).get c).maskdepth)
    (L C : Int) : writable a L C = writable b L C := by
  unfold writable absClip absMasked RB.cell
  rw [ha.lines, ha.cols, ha.clip]
  by_cases hg : 0 ≤ L ∧ L < b.lines ∧ 0 ≤ C ∧ C < b.cols
  · rw [hm L C hg.1 hg.2.1 hg.2.2.1 hg.2.2.2]
  · simp [hg]

theorem Acc.done_congr {B d : RB} {done done' : Int → Int → Bool} {E : Int → Int → Content}
    (h : Acc B d done E) (he : ∀ L C, done L C = done' L C) : Acc B d done' E := by
  have : done = done' := by funext L C; exact he L C
  rw [← this]; exact h

/-- One more piece. -/
theorem acc_step {B d d' : RB} {done : Int → Int → Bool} {E : Int → Int → Content} (h : Acc B d done E)
    {L0 C0 n : Int} {newc : Int → Content → Content} (hd : DrawSpec d d' L0 C0 n newc)
    (hfresh : ∀ C, C0 ≤ C → C < C0 + n → done L0 C = false)
    (hE : ∀ C, C0 ≤ C → C < C0 + n → writable B L0 C = true → newc C (absContent B L0 C) = E L0 C) :
    Acc B d' (fun L C => done L C || (decide (L = L0) && decide (C0 ≤ C) && decide (C < C0 + n))) E := by
  have hw : ∀ L C, writable d L C = writable B L C := writable_congr h.aux h.mask
  refine ⟨hd.wf, hd.aux.trans h.aux, ?_, ?_⟩
  · intro l c h0 h1 h2 h3
    rw [hd.mask l c h0 (by rw [h.aux.lines]; exact h1) h2 (by rw [h.aux.cols]; exact h3)]
    exact h.mask l c h0 h1 h2 h3
  · intro L C
    rw [hd.content L C, hw L C, h.content L C]
    by_cases hp : L = L0 ∧ C0 ≤ C ∧ C < C0 + n
    · have hf := hfresh C hp.2.1 hp.2.2
      rw [hp.1]
      by_cases hwr : writable B L0 C = true
      · rw [if_pos ⟨rfl, hp.2.1, hp.2.2, hwr⟩, hf]
        simp only [Bool.false_eq_true, false_and, if_false, Bool.false_or, hp.2.1, hp.2.2, decide_true, Bool.and_self,
          true_and, hwr, if_true]
        exact hE C hp.2.1 hp.2.2 hwr
      · rw [if_neg (fun hh => hwr hh.2.2.2), if_neg (fun hh => hwr hh.2), if_neg (fun hh => hwr hh.2)]
    · rw [if_neg (fun hh => hp ⟨hh.1, hh.2.1, hh.2.2.1⟩)]
      have : (decide (L = L0) && decide (C0 ≤ C) && decide (C < C0 + n)) = false := by
        rw [Bool.eq_false_iff]; intro hh
        simp only [Bool.and_eq_true, decide_eq_true_eq] at hh
        exact hp ⟨hh.1.1, hh.1.2, hh.2⟩
      rw [this, Bool.or_false]

/-! ### Decoding the run under the scan position -/

/-- What the `if(cell->state == CONT)` block finds in a well-formed line. -/
structure LookFacts (S : RB) (sr : Rect) (leftwards : Bool) (line col : Int) (lk : Look) : Prop where
  head : ((S.cells line).get lk.hcol).state ≠ .cont
  hcol0 : 0 ≤ lk.hcol
  hcol_le : lk.hcol ≤ lk.col
  col_le : lk.col ≤ col
  left_le : sr.left ≤ lk.col
  right : leftwards = false → lk.col = col
  leftw : leftwards = true → (lk.col = lk.hcol ∨ lk.col = sr.left)
  offset : lk.offset = lk.col - lk.hcol
  endgt : col < lk.hcol + ((S.cells line).get lk.hcol).cols
  endle : lk.hcol + ((S.cells line).get lk.hcol).cols ≤ S.cols
  content : ∀ j, 0 ≤ j → lk.col + j < lk.hcol + ((S.cells line).get lk.hcol).cols →
    absContent S line (lk.col + j) = cellContent ((S.cells line).get lk.hcol) (lk.offset + j)
  conts : ∀ k, lk.hcol < k → k < lk.hcol + ((S.cells line).get lk.hcol).cols → ((S.cells line).get k).state = .cont
  one : (((S.cells line).get lk.hcol).state = .line ∨ ((S.cells line).get lk.hcol).state = .char) →
    ((S.cells line).get lk.hcol).cols = 1 ∧ lk.hcol = col ∧ lk.col = col ∧ lk.offset = 0

theorem look_facts {S : RB} (hwf : WF S) (sr : Rect) (leftwards : Bool) (line col : Int)
    (hl0 : 0 ≤ line) (hl1 : line < S.lines) (hc0 : 0 ≤ col) (hc1 : col < S.cols) (hleft : sr.left ≤ col) :
    LookFacts S sr leftwards line col (look S sr leftwards line col) := by
  have hrow := hwf.rows line hl0 hl1
  unfold look RB.cell
  by_cases hc : ((S.cells line).get col).state = .cont
  · simp only [hc, if_true]
    have hrun := hrow.run_of_cont hc0 hc1 hc
    have hcontent : ∀ c, ((S.cells line).get col).cols ≤ c →
        c < ((S.cells line).get col).cols + ((S.cells line).get ((S.cells line).get col).cols).cols →
        absContent S line c = cellContent ((S.cells line).get ((S.cells line).get col).cols) (c - ((S.cells line).get col).cols) := by
      intro c h1 h2
      rw [absContent_eq, if_pos ⟨hl0, hl1, by omega, by omega⟩]
      by_cases he : c = ((S.cells line).get col).cols
      · rw [he, rowContent_head hrun.2.2.1, Int.sub_self]
      · have hj := hrun.2.2.2.2.2 c (by omega) h2
        rw [rowContent_cont hj.1, hj.2]
    cases leftwards with
    | false =>
      simp only [Bool.false_eq_true, if_false]
      refine ⟨hrun.2.2.1, hrun.1, ?_, Int.le_refl _, hleft, fun _ => rfl, fun h => by simp at h, rfl,
        hrun.2.2.2.1, hrun.2.2.2.2.1, ?_, ?_, ?_⟩
      · first | rfl | (dsimp only; omega)
      · intro j hj0 hj1
        dsimp only at hj1 ⊢
        rw [hcontent (col + j) (by omega) hj1]
        congr 1; omega
      · intro k h1 h2; exact (hrun.2.2.2.2.2 k h1 h2).1
      · intro hk
        have := hrow.one ((S.cells line).get col).cols hrun.1 (by omega) hk
        dsimp only at this ⊢
        omega
    | true =>
      simp only [if_true]
      by_cases hlt : ((S.cells line).get col).cols < sr.left
      · simp only [hlt, if_true]
        refine ⟨hrun.2.2.1, hrun.1, ?_, hleft, Int.le_refl _, fun h => by simp at h, fun _ => Or.inr rfl, rfl,
          hrun.2.2.2.1, hrun.2.2.2.2.1, ?_, ?_, ?_⟩
        · first | rfl | (dsimp only; omega)
        · intro j hj0 hj1
          dsimp only at hj1 ⊢
          rw [hcontent (sr.left + j) (by omega) hj1]
          congr 1; omega
        · intro k h1 h2; exact (hrun.2.2.2.2.2 k h1 h2).1
        · intro hk
          have := hrow.one ((S.cells line).get col).cols hrun.1 (by omega) hk
          dsimp only at this ⊢
          omega
      · simp only [hlt, if_false]
        refine ⟨hrun.2.2.1, hrun.1, Int.le_refl _, ?_, ?_, fun h => by simp at h,
          fun _ => Or.inl rfl, ?_, hrun.2.2.2.1, hrun.2.2.2.2.1, ?_, ?_, ?_⟩
        · first | rfl | (dsimp only; omega)
        · first | rfl | (dsimp only; omega)
        · first | rfl | (dsimp only; omega)
        · intro j hj0 hj1
          dsimp only at hj1 ⊢
          rw [hcontent (((S.cells line).get col).cols + j) (by omega) hj1]
          congr 1; omega
        · intro k h1 h2; exact (hrun.2.2.2.2.2 k h1 h2).1
        · intro hk
          have := hrow.one ((S.cells line).get col).cols hrun.1 (by omega) hk
          dsimp only at this ⊢
          omega
  · simp only [hc, if_false]
    have hh := hrow.head col hc0 hc1 hc
    refine ⟨hc, hc0, Int.le_refl _, Int.le_refl _, hleft, fun _ => rfl, fun _ => Or.inl rfl, ?_, ?_, hh.2.1, ?_, ?_, ?_⟩
    · first | rfl | (dsimp only; omega)
    · first | rfl | (dsimp only; omega)
    · intro j hj0 hj1
      dsimp only at hj1 ⊢
      rw [absContent_eq, if_pos ⟨hl0, hl1, by omega, by omega⟩]
      by_cases he : j = 0
      · rw [he, Int.add_zero, rowContent_head hc]; rfl
      · have hj := hh.2.2 (col + j) (by omega) hj1
        rw [rowContent_cont hj.1, hj.2]
        congr 1; omega
    · intro k h1 h2; exact (hh.2.2 k h1 h2).1
    · intro hk
      exact ⟨hrow.one col hc0 hc1 hk, rfl, rfl, rfl⟩

/-! ### The specification, unfolded -/

theorem copyExpect_eq (copySkip : Bool) (dst src : RB) (sr : Rect) (lo co L C : Int) :
    copyExpect copySkip dst src sr lo co L C =
      if (sr.memb (L - lo) (C - co) && writable dst L C) = true
      then pieceNew copySkip dst.pen (absContent src (L - lo) (C - co)) (absContent dst L C)
      else absContent dst L C := rfl

theorem memb_iff (r : Rect) (l c : Int) :
    r.memb l c = true ↔ r.top ≤ l ∧ l < r.top + r.lines ∧ r.left ≤ c ∧ c < r.left + r.cols := by
  unfold Rect.memb Rect.bottom Rect.right
  simp only [Bool.and_eq_true, decide_eq_true_eq]
  constructor
  · rintro ⟨⟨⟨h1, h2⟩, h3⟩, h4⟩; exact ⟨h1, h2, h3, h4⟩
  · rintro ⟨h1, h2, h3, h4⟩; exact ⟨⟨⟨h1, h2⟩, h3⟩, h4⟩

/-! ### The column loop, scanning rightwards -/

/-- The destination cells finished while scanning line `line` rightwards up to (not including) column `c`. -/
def doneR (done0 : Int → Int → Bool) (sr : Rect) (L0 co' c : Int) (L C : Int) : Bool :=
  done0 L C || (decide (L = L0) && decide (sr.left + co' ≤ C) && decide (C < c + co') && decide (C < sr.left + sr.cols + co'))

theorem colLoop_right (same copySkip : Bool) (src B : RB) (sr : Rect) (lo co line : Int)
    (done0 : Int → Int → Bool)
    (hsrc : same = false → WF src)
    (hl0 : 0 ≤ line) (hl1 : line < (if same then B else src).lines) (hc0 : 0 ≤ sr.left)
    (hc1 : sr.left + sr.cols ≤ (if same then B else src).cols) (ht : sr.top ≤ line) (hb : line < sr.top + sr.lines)
    (hdir : same = true → (lo + B.xlLine ≠ 0 ∨ co + B.xlCol < 0))
    (hA : ∀ C, done0 (line + (lo + B.xlLine)) C = false)
    (hB : same = true → ∀ C, sr.left ≤ C → C < sr.left + sr.cols → done0 line C = false) :
    ∀ (fuel : Nat) (d : RB) (c : Int), sr.left ≤ c →
      Acc B d (doneR done0 sr (line + (lo + B.xlLine)) (co + B.xlCol) c)
        (copyExpect copySkip B (if same then B else src) sr (lo + B.xlLine) (co + B.xlCol)) →
      sr.left + sr.cols - c < fuel →
      Acc B (colLoop Variant.repaired same copySkip src sr lo co false line fuel d c)
        (doneR done0 sr (line + (lo + B.xlLine)) (co + B.xlCol) (sr.left + sr.cols))
        (copyExpect copySkip B (if same then B else src) sr (lo + B.xlLine) (co + B.xlCol)) := by
  intro fuel
  induction fuel with
  | zero =>
    intro d c hc hacc hf
    have hm : more false sr c = false := by unfold more Rect.right; simp; omega
    unfold colLoop; rw [hm]; simp only [Bool.false_eq_true, if_false]
    apply hacc.done_congr
    intro L C
    unfold doneR
    have : (decide (C < c + (co + B.xlCol)) && decide (C < sr.left + sr.cols + (co + B.xlCol))) =
        (decide (C < sr.left + sr.cols + (co + B.xlCol)) && decide (C < sr.left + sr.cols + (co + B.xlCol))) := by
      by_cases h : C < sr.left + sr.cols + (co + B.xlCol)
      · have : C < c + (co + B.xlCol) := by omega
        simp [h, this]
      · simp [h]
    simp only [Bool.and_assoc, this]
  | succ n ih =>
    intro d c hc hacc hf
    unfold colLoop
    by_cases hm : more false sr c = true
    · rw [if_pos hm]
      have hlt : c < sr.left + sr.cols := by unfold more Rect.right at hm; simpa using hm
      rw [body_captured Variant.repaired rfl]
      -- the source buffer read by this iteration
      have hS : WF (if same then d else src) ∧ (if same then d else src).lines = (if same then B else src).lines ∧
          (if same then d else src).cols = (if same then B else src).cols := by
        cases same with
        | true => exact ⟨hacc.wf, hacc.aux.lines, hacc.aux.cols⟩
        | false => exact ⟨hsrc rfl, rfl, rfl⟩
      have hlk := look_facts hS.1 sr false line c hl0 (by rw [hS.2.1]; exact hl1) (by omega) (by rw [hS.2.2]; omega) hc
      dsimp only
      simp only [Bool.false_eq_true, if_false]
      unfold RB.cell
      generalize hlkdef : look (if same then d else src) sr false line c = lk at hlk ⊢
      have hcol : lk.col = c := hlk.right rfl
      have f_head := hlk.head
      have f_off := hlk.offset
      have f_endgt := hlk.endgt
      have f_hcol_le := hlk.hcol_le
      have f_content := hlk.content
      have f_one := hlk.one
      generalize hcelldef : ((if same then d else src).cells line).get lk.hcol = cell at f_head f_endgt f_content f_one ⊢
      rw [hcol] at f_off f_hcol_le f_content ⊢
      have hrun1 : 1 ≤ cell.cols - lk.offset := by omega
      have hcols : 1 ≤ pieceCols sr lk (cell.cols - lk.offset) ∧ pieceCols sr lk (cell.cols - lk.offset) ≤ cell.cols - lk.offset ∧
          c + pieceCols sr lk (cell.cols - lk.offset) ≤ sr.left + sr.cols ∧
          (pieceCols sr lk (cell.cols - lk.offset) = cell.cols - lk.offset ∨
            c + pieceCols sr lk (cell.cols - lk.offset) = sr.left + sr.cols) := by
        unfold pieceCols Rect.right
        rw [hcol]
        by_cases hh : c + (cell.cols - lk.offset) > sr.left + sr.cols
        · rw [if_pos hh]; omega
        · rw [if_neg hh]; omega
      generalize hpc : pieceCols sr lk (cell.cols - lk.offset) = cols at hcols ⊢
      have hone : (cell.state = .line ∨ cell.state = .char) → cols = 1 := by
        intro hk; have := f_one hk; omega
      have hds := copyPiece_spec hacc.wf copySkip cell lk.offset cols (line + lo) (c + co) f_head hone
      rw [hacc.aux.xlLine, hacc.aux.xlCol, hacc.aux.pen] at hds
      have hL : line + lo + B.xlLine = line + (lo + B.xlLine) := by omega
      have hC : c + co + B.xlCol = c + (co + B.xlCol) := by omega
      rw [hL, hC] at hds
      have hstep := acc_step hacc hds
        (by
          intro C h1 h2
          unfold doneR
          rw [hA C]
          have : ¬ C < c + (co + B.xlCol) := by omega
          simp [this])
        (by
          intro C h1 h2 hw
          rw [copyExpect_eq]
          have hmem : sr.memb (line + (lo + B.xlLine) - (lo + B.xlLine)) (C - (co + B.xlCol)) = true := by
            rw [memb_iff]; omega
          rw [hmem, hw]
          simp only [Bool.and_self, if_true]
          have e1 : line + (lo + B.xlLine) - (lo + B.xlLine) = line := by omega
          rw [e1]
          -- the source cell still shows what it showed originally
          have hj0 : 0 ≤ C - (c + (co + B.xlCol)) := by omega
          have hsc := f_content (C - (c + (co + B.xlCol))) hj0 (by omega)
          have e2 : c + (C - (c + (co + B.xlCol))) = C - (co + B.xlCol) := by omega
          rw [e2] at hsc
          rw [← hsc]
          congr 1
          cases same with
          | false => rfl
          | true =>
            simp only [if_true]
            rw [hacc.content]
            have hd : doneR done0 sr (line + (lo + B.xlLine)) (co + B.xlCol) c line (C - (co + B.xlCol)) = false := by
              unfold doneR
              rw [hB rfl (C - (co + B.xlCol)) (by omega) (by omega)]
              rcases hdir rfl with hh | hh
              · have : ¬ line = line + (lo + B.xlLine) := by omega
                simp [this]
              · have : ¬ C - (co + B.xlCol) < c + (co + B.xlCol) := by omega
                simp [this]
            rw [hd]; simp)
      have hnext := ih _ (c + (cell.cols - lk.offset)) (by omega)
        (hstep.done_congr (by
          intro L C
          unfold doneR
          by_cases hLL : L = line + (lo + B.xlLine)
          · by_cases h1 : sr.left + (co + B.xlCol) ≤ C
            · by_cases h2 : C < sr.left + sr.cols + (co + B.xlCol)
              · by_cases h3 : C < c + (co + B.xlCol)
                · have : C < c + (cell.cols - lk.offset) + (co + B.xlCol) := by omega
                  simp [hLL, h1, h2, h3, this]
                · by_cases h4 : C < c + (co + B.xlCol) + cols
                  · have : C < c + (cell.cols - lk.offset) + (co + B.xlCol) := by omega
                    have h5 : c + (co + B.xlCol) ≤ C := by omega
                    simp [hLL, h1, h2, h3, h4, h5, this]
                  · have : ¬ C < c + (cell.cols - lk.offset) + (co + B.xlCol) := by omega
                    simp [hLL, h1, h2, h3, h4, this]
              · have h3 : ¬ (c + (co + B.xlCol) ≤ C ∧ C < c + (co + B.xlCol) + cols) := by omega
                by_cases h5 : c + (co + B.xlCol) ≤ C
                · have : ¬ C < c + (co + B.xlCol) + cols := by omega
                  simp [hLL, h2, this]
                · simp [hLL, h2, h5]
            · have h5 : ¬ c + (co + B.xlCol) ≤ C := by omega
              simp [hLL, h1, h5]
          · simp [hLL]))
        (by omega)
      exact hnext
    · have hm' : more false sr c = false := by simpa using hm
      rw [hm']; simp only [Bool.false_eq_true, if_false]
      have hge : sr.left + sr.cols ≤ c := by unfold more Rect.right at hm'; simpa using hm'
      apply hacc.done_congr
      intro L C
      unfold doneR
      by_cases h : C < sr.left + sr.cols + (co + B.xlCol)
      · have : C < c + (co + B.xlCol) := by omega
        simp [h, this]
      · simp [h]

end Tickit.RBCopy
