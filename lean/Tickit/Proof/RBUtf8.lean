import Tickit.Proof.RBSpec
import Tickit.Proof.Utf8
import Tickit.Props.C07
/-
  The render buffer's private text-width code (`Tickit.RB.Utf8` in Model/RB.lean) is the C07 model
  (`Tickit.Utf8`, `Tickit.Width`): same tables, same width function, same decoder, same counting loop.
  So `stringColumns`, `text_cellwise`, `cursor_advances_text` and `get_cell_text` speak about the columns,
  graphemes and errors that the theorems of `Props/C07.lean` (`count_spec`, `count_consistent`,
  `wcwidth_eq_spec`, …) are about.
-/
namespace Tickit.RB.Utf8
open Tickit

/-! ### tables and widths -/

/-- The tables extracted for the render buffer are the tables extracted for C07 (both regenerated from the
    source on every run). -/
theorem tables_eq : Gen.RBWidth.combining = Gen.Width.combining ∧ Gen.RBWidth.fullwidth = Gen.Width.fullwidth := by
  decide +kernel

theorem bisearchLoop_eq (t : Array (Nat × Nat)) (u : Nat) : ∀ (fuel : Nat) (a b : Int),
    bisearchLoop t u fuel a b = (Width.bisearchLoop t u fuel a b).getD false := by
  intro fuel
  induction fuel with
  | zero => intro a b; rfl
  | succ n ih =>
    intro a b
    unfold bisearchLoop Width.bisearchLoop Width.Table.at
    simp only
    split
    · split
      · exact ih _ _
      · split
        · exact ih _ _
        · rfl
    · rfl

theorem bisearch_eq (t : Array (Nat × Nat)) (u : Nat) : bisearch t u = Width.bisearch t u := by
  unfold bisearch Width.bisearch Width.Table.at
  simp only
  by_cases h0 : t.size = 0
  · rw [if_pos h0]
    have e : t = #[] := Array.eq_empty_of_size_eq_zero h0
    subst e
    first | rfl | simp [bisearchLoop]
  · rw [if_neg h0, bisearchLoop_eq]
    simp only [Int.toNat_zero, Bool.or_eq_true, decide_eq_true_eq]

theorem wideExpr_eq (u : Nat) : Gen.RBWidth.wideExpr u = Width.isWideRange u := by
  unfold Gen.RBWidth.wideExpr Width.isWideRange
  rw [Bool.eq_iff_iff]
  all_goals
    (simp only [Bool.and_eq_true, Bool.or_eq_true, decide_eq_true_eq]
     omega)

theorem ctrlExpr_iff (u : Nat) : Gen.RBWidth.ctrlExpr u = true ↔ (u < 32 ∨ (u ≥ 0x7f ∧ u < 0xa0)) := by
  unfold Gen.RBWidth.ctrlExpr
  simp only [Bool.and_eq_true, Bool.or_eq_true, decide_eq_true_eq]

/-- **The width function of the render-buffer model is C07's** (`Width.wcwidth`, for which
    `Props.C07.wcwidth_eq_spec` gives the search-free reading of the tables). -/
theorem wcwidth_eq (cp : Nat) : wcwidth cp = Width.wcwidth cp := by
  unfold wcwidth Width.wcwidth mkWcwidth Width.mkWcwidth
  rw [tables_eq.1, tables_eq.2, bisearch_eq, bisearch_eq, wideExpr_eq]
  by_cases h : Gen.RBWidth.ctrlExpr cp = true
  · rw [if_pos h, if_pos ((ctrlExpr_iff cp).1 h)]
  · rw [if_neg h, if_neg (fun x => h ((ctrlExpr_iff cp).2 x))]

/-! ### the decoder -/

/-- The bytes of a `TickitString` as C07's memory: the bytes, then NUL. -/
def memOf (s : List UInt8) : Tickit.Utf8.Mem := fun i => s.getD i 0

theorem contBytes_eq (s : List UInt8) : ∀ (k i cp : Nat),
    contBytes s k i cp = (Tickit.Utf8.contLoop (memOf s) k i cp).1 := by
  intro k
  induction k with
  | zero => intro i cp; rfl
  | succ k ih =>
    intro i cp
    unfold contBytes Tickit.Utf8.contLoop byteAt memOf
    simp only
    split
    · rfl
    · rw [Tickit.Utf8.contAcc_eq]; exact ih _ _

/-- C07's `next_utf8` result in the render-buffer model's shape. -/
def decOf : Tickit.Utf8.Dec → Option Dec
  | .err _ => none
  | .ok n cp _ => some ⟨n, cp⟩

theorem nextUtf8_eq (s : List UInt8) (i : Nat) (len : Option Nat) :
    nextUtf8 s i len = decOf (Tickit.Utf8.nextUtf8 (memOf s) i len) := by
  unfold nextUtf8 Tickit.Utf8.nextUtf8 byteAt
  simp only
  show _ = decOf (if len = some 0 then _ else if ((memOf s) i).toNat = 0 then _ else _)
  have hm : ((memOf s) i).toNat = (s.getD i 0).toNat := rfl
  rw [hm]
  generalize (s.getD i 0).toNat = b0
  by_cases h1 : len = some 0
  · rw [if_pos h1, if_pos h1]; rfl
  · rw [if_neg h1, if_neg h1]
    by_cases h2 : b0 = 0
    · rw [if_pos h2, if_pos h2]; rfl
    · rw [if_neg h2, if_neg h2]
      by_cases h3 : b0 < 0x80
      · rw [if_pos h3, if_pos h3]; rfl
      · rw [if_neg h3, if_neg h3]
        by_cases h4 : b0 < 0xc0
        · rw [if_pos h4, if_pos (by unfold Tickit.Utf8.leadLen; rw [if_pos h4])]; rfl
        · rw [if_neg h4]
          by_cases h5 : b0 < 0xf8
          · rw [if_pos h5]
            have hl : Tickit.Utf8.leadLen b0 = (if b0 < 0xe0 then 2 else if b0 < 0xf0 then 3 else 4) := by
              unfold Tickit.Utf8.leadLen; rw [if_neg h4]
              split
              · rfl
              · split
                · rfl
                · first | rfl | rw [if_pos h5]
            have hl0 : Tickit.Utf8.leadLen b0 ≠ 0 := by rw [hl]; split <;> (try split) <;> omega
            rw [if_neg hl0, hl, Tickit.Utf8.leadBits_eq]
            generalize (if b0 < 0xe0 then 2 else if b0 < 0xf0 then 3 else 4 : Nat) = nb
            generalize (if b0 < 0xe0 then b0 % 32 else if b0 < 0xf0 then b0 % 16 else b0 % 8 : Nat) = cp0
            rw [contBytes_eq]
            unfold Tickit.Utf8.lenLt
            cases len with
            | none =>
              simp only [Bool.false_eq_true, if_false]
              generalize Tickit.Utf8.contLoop (memOf s) (nb - 1) (i + 1) cp0 = r
              obtain ⟨a, b⟩ := r
              cases a <;> rfl
            | some l =>
              simp only
              by_cases h6 : decide (l < nb) = true
              · rw [if_pos h6, if_pos h6]; rfl
              · rw [if_neg h6, if_neg h6]
                generalize Tickit.Utf8.contLoop (memOf s) (nb - 1) (i + 1) cp0 = r
                obtain ⟨a, b⟩ := r
                cases a <;> rfl
          · rw [if_neg h5, if_pos (by unfold Tickit.Utf8.leadLen; rw [if_neg h4]; split <;> (try split) <;> (try split) <;> omega)]; rfl

/-! ### the counting loop -/

def toPos (p : StrPos) : Tickit.Utf8.Pos := ⟨p.bytes.toNat, p.codepoints, p.graphemes, p.columns⟩
def ofPos (p : Tickit.Utf8.Pos) : StrPos := ⟨p.bytes, p.codepoints, p.graphemes, p.columns⟩
/-- A limit: `bytes = -1` is `(size_t)-1`. -/
def toLimit (l : StrPos) : Tickit.Utf8.Limit :=
  ⟨if l.bytes = -1 then none else some l.bytes.toNat, l.codepoints, l.graphemes, l.columns⟩

theorem ofPos_toPos (p : StrPos) (h : 0 ≤ p.bytes) : ofPos (toPos p) = p := by
  unfold ofPos toPos
  cases p with
  | mk b c g k => simp only at h ⊢; congr 1; omega

/-- What it means for the render-buffer model's result to be C07's outcome. -/
def Agree (start : Nat) (o : Tickit.Utf8.Outcome) (r : CountRes) : Prop :=
  match o with
  | .outOfFuel => r.status = .fuel
  | .ret x p _ => r.pos = ofPos p ∧
      ((x = -1 ∧ r.status = .err) ∨ (x = (p.bytes : Int) - start ∧ x ≠ -1 ∧ r.status = .ok))

theorem exceeds_some (l : StrPos) (hl' : -1 ≤ l.bytes) (here : StrPos) (hb : 0 ≤ here.bytes) (n : Nat) (w : Int) :
    ((decide (l.bytes ≠ -1) && decide (here.bytes + n > l.bytes)) ||
     (decide (l.codepoints ≠ -1) && decide (here.codepoints + 1 > l.codepoints)) ||
     (decide (l.graphemes ≠ -1) && decide (here.graphemes + (if w > 0 then 1 else 0 : Int) > l.graphemes)) ||
     (decide (l.columns ≠ -1) && decide (here.columns + w > l.columns))) =
    Tickit.Utf8.exceeds (some (toLimit l)) (toPos here) n w := by
  unfold Tickit.Utf8.exceeds toLimit toPos
  simp only
  rw [Bool.eq_iff_iff]
  by_cases hm : l.bytes = -1
  · simp only [hm, if_true, Bool.or_eq_true, Bool.and_eq_true, decide_eq_true_eq, ne_eq, not_true_eq_false,
      false_and, false_or, Bool.false_eq_true, decide_false]
  · simp only [hm, if_false, Bool.or_eq_true, Bool.and_eq_true, decide_eq_true_eq, ne_eq, not_false_eq_true,
      true_and, decide_true]
    constructor
    · rintro (((h | h) | h) | h)
      · left; left; left; omega
      · left; left; right; exact h
      · left; right; exact h
      · right; exact h
    · rintro (((h | h) | h) | h)
      · left; left; left; omega
      · left; left; right; exact h
      · left; right; exact h
      · right; exact h

theorem countLoop_agree (s : List UInt8) (limit : Option StrPos) (hl : ∀ l, limit = some l → -1 ≤ l.bytes) (start : Nat) :
    ∀ (fuel off : Nat) (len : Option Nat) (pos here : StrPos) (hi : Nat),
      0 ≤ pos.bytes → (start : Int) ≤ pos.bytes → pos.bytes ≤ here.bytes →
      Agree start (Tickit.Utf8.loop (memOf s) (limit.map toLimit) start fuel off len (toPos here) (toPos pos) hi)
        (countLoop s limit fuel off len pos here) := by
  intro fuel
  induction fuel with
  | zero => intro off len pos here hi _ _ _; rfl
  | succ fuel ih =>
    intro off len pos here hi hp hs hh
    have hhb : 0 ≤ here.bytes := by omega
    unfold Tickit.Utf8.loop Tickit.Utf8.stepAt countLoop
    have hm : ((memOf s) off).toNat = byteAt s off := rfl
    rw [hm]
    have okHere : Agree start (.ret (((toPos here).bytes : Int) - start) (toPos here) (max hi 0)) ⟨.ok, here⟩ ∧
        ∀ h, Agree start (.ret (((toPos here).bytes : Int) - start) (toPos here) h) ⟨.ok, here⟩ := by
      have : ∀ h, Agree start (.ret (((toPos here).bytes : Int) - start) (toPos here) h) ⟨.ok, here⟩ := by
        intro h
        refine ⟨(ofPos_toPos here hhb).symm, Or.inr ⟨rfl, ?_, rfl⟩⟩
        show ((here.bytes.toNat : Nat) : Int) - start ≠ -1
        omega
      exact ⟨this _, this⟩
    by_cases h1 : len = some 0
    · simp only [h1, if_true, Bool.true_or, decide_true]
      exact okHere.2 _
    · by_cases h2 : byteAt s off = 0
      · simp only [h1, h2, if_false, if_true, decide_true, Bool.or_true, decide_false, Bool.false_or]
        exact okHere.2 _
      · simp only [h1, h2, if_false, decide_false, Bool.or_self, Bool.false_eq_true]
        rw [nextUtf8_eq]
        cases hd : Tickit.Utf8.nextUtf8 (memOf s) off len with
        | err h =>
          simp only [decOf]
          exact ⟨(ofPos_toPos pos hp).symm, Or.inl ⟨rfl, rfl⟩⟩
        | ok n cp h =>
          simp only [decOf]
          have hctrl : ((decide (cp < 0x20) || (decide (cp ≥ 0x80) && decide (cp < 0xa0))) = true) ↔
              (cp < 0x20 ∨ (cp ≥ 0x80 ∧ cp < 0xa0)) := by
            simp only [Bool.or_eq_true, Bool.and_eq_true, decide_eq_true_eq]
          rw [wcwidth_eq]
          by_cases h3 : cp < 0x20 ∨ (cp ≥ 0x80 ∧ cp < 0xa0)
          · simp only [if_pos h3, if_pos (hctrl.2 h3)]
            exact ⟨(ofPos_toPos pos hp).symm, Or.inl ⟨rfl, rfl⟩⟩
          · simp only [if_neg h3, if_neg (fun x => h3 (hctrl.1 x))]
            by_cases h4 : Width.wcwidth cp = -1
            · simp only [if_pos h4]
              exact ⟨(ofPos_toPos pos hp).symm, Or.inl ⟨rfl, rfl⟩⟩
            · simp only [if_neg h4]
              have key : ∀ (b : Bool), b = Tickit.Utf8.exceeds (limit.map toLimit) (toPos here) n (Width.wcwidth cp) →
                  Agree start
                    (if Tickit.Utf8.exceeds (limit.map toLimit) (toPos here) n (Width.wcwidth cp) = true then
                      .ret (((if Width.wcwidth cp > 0 then toPos here else toPos pos).bytes : Int) - start)
                        (if Width.wcwidth cp > 0 then toPos here else toPos pos) (max hi h)
                    else Tickit.Utf8.loop (memOf s) (limit.map toLimit) start fuel (off + n) (Tickit.Utf8.lenDec len n)
                        ((toPos here).adv n (Width.wcwidth cp)) (if Width.wcwidth cp > 0 then toPos here else toPos pos) (max hi h))
                    (if b = true then ⟨.ok, if Width.wcwidth cp > 0 then here else pos⟩
                     else countLoop s limit fuel (off + n) (len.map (· - n)) (if Width.wcwidth cp > 0 then here else pos)
                        (StrPos.mk (here.bytes + n) (here.codepoints + 1) (here.graphemes + (if Width.wcwidth cp > 0 then 1 else 0)) (here.columns + Width.wcwidth cp))) := by
                intro b hb
                rw [hb]
                have hpos' : toPos (if Width.wcwidth cp > 0 then here else pos) =
                    (if Width.wcwidth cp > 0 then toPos here else toPos pos) := by split <;> rfl
                by_cases h5 : Tickit.Utf8.exceeds (limit.map toLimit) (toPos here) n (Width.wcwidth cp) = true
                · rw [if_pos h5, if_pos h5, ← hpos']
                  have hq : 0 ≤ (if Width.wcwidth cp > 0 then here else pos).bytes ∧
                      (start : Int) ≤ (if Width.wcwidth cp > 0 then here else pos).bytes := by split <;> omega
                  generalize (if Width.wcwidth cp > 0 then here else pos) = q at hq ⊢
                  refine ⟨(ofPos_toPos _ hq.1).symm, Or.inr ⟨rfl, ?_, rfl⟩⟩
                  show ((q.bytes.toNat : Nat) : Int) - start ≠ -1
                  omega
                · rw [if_neg h5, if_neg h5, ← hpos']
                  have hadv : (toPos here).adv n (Width.wcwidth cp) =
                      toPos (StrPos.mk (here.bytes + n) (here.codepoints + 1) (here.graphemes + (if Width.wcwidth cp > 0 then 1 else 0)) (here.columns + Width.wcwidth cp)) := by
                    unfold Tickit.Utf8.Pos.adv toPos
                    simp only
                    congr 1
                    omega
                  rw [hadv]
                  exact ih (off + n) (Tickit.Utf8.lenDec len n) (if Width.wcwidth cp > 0 then here else pos)
                    (StrPos.mk (here.bytes + n) (here.codepoints + 1) (here.graphemes + (if Width.wcwidth cp > 0 then 1 else 0)) (here.columns + Width.wcwidth cp)) (max hi h)
                    (by split <;> omega) (by split <;> omega) (by show _ ≤ here.bytes + n; split <;> omega)
              refine key _ ?_
              cases limit with
              | none => rfl
              | some l => exact exceeds_some l (hl l rfl) here hhb n (Width.wcwidth cp)

/-! ### whole calls, in the vocabulary of `Props/C07.lean` -/

/-- A NUL at `e ≥ str` yields the first NUL from `str`. -/
theorem exists_firstNul (mem : Tickit.Utf8.Mem) : ∀ (d str e : Nat), e - str ≤ d → str ≤ e → (mem e).toNat = 0 →
    ∃ nul, Tickit.Utf8.FirstNul mem str nul ∧ nul ≤ e := by
  intro d
  induction d with
  | zero =>
    intro str e hd hle hz
    have : e = str := by omega
    subst this
    exact ⟨e, ⟨Nat.le_refl _, hz, fun i a b => by omega⟩, Nat.le_refl _⟩
  | succ d ih =>
    intro str e hd hle hz
    by_cases h0 : (mem str).toNat = 0
    · exact ⟨str, ⟨Nat.le_refl _, h0, fun i a b => by omega⟩, hle⟩
    · have hne : str ≠ e := by intro x; rw [x] at h0; exact h0 hz
      obtain ⟨nul, ⟨a, b, c⟩, hn⟩ := ih (str + 1) e (by omega) (by omega) hz
      refine ⟨nul, ⟨by omega, b, fun i x y => ?_⟩, hn⟩
      by_cases hi : i = str
      · rw [hi]; exact h0
      · exact c i (by omega) y

theorem memOf_zero (s : List UInt8) (i : Nat) (h : s.length ≤ i) : ((memOf s) i).toNat = 0 := by
  unfold memOf
  rw [List.getD_eq_getElem?_getD, List.getElem?_eq_none h]; rfl

open Tickit.Utf8 (specRun) in
open Tickit.Props.C07 (Scans graphemes) in
/-- **A counting call of the render-buffer model, by C07's specification.**  For the two ways the render
    buffer calls the counter — NUL-terminated from any committed position, or with the explicit string length
    from the start — the characters can be scanned (`Scans`), and the call returns what `specRun` computes over
    their graphemes: the position, and the error exactly if the specification reports one. -/
theorem ncountmore_c07 (s : List UInt8) (len : Option Nat) (pos : StrPos) (limit : Option StrPos)
    (hp : 0 ≤ pos.bytes) (hlen : len = none ∨ (len = some s.length ∧ pos.bytes = 0))
    (hl : ∀ l, limit = some l → -1 ≤ l.bytes) :
    ∃ cs t, Scans (memOf s) (s.length + 1) len (toPos pos) cs t ∧
      (ncountmore s len pos limit).pos = ofPos (specRun (limit.map toLimit) (graphemes cs) t (toPos pos)).pos ∧
      (ncountmore s len pos limit).status =
        (if (specRun (limit.map toLimit) (graphemes cs) t (toPos pos)).err then .err else .ok) := by
  -- the input can be scanned with the fuel the model uses
  have hscan : ∃ cs t, Scans (memOf s) (s.length + 1) len (toPos pos) cs t := by
    unfold Scans
    rcases hlen with h | ⟨h, h0⟩
    · subst h
      show ∃ cs t, Tickit.Utf8.scan (memOf s) (s.length + 1) pos.bytes.toNat none = some (cs, t)
      obtain ⟨nul, hn, hle⟩ := exists_firstNul (memOf s) (max pos.bytes.toNat s.length - pos.bytes.toNat) pos.bytes.toNat
        (max pos.bytes.toNat s.length) (Nat.le_refl _) (Nat.le_max_left _ _) (memOf_zero s _ (Nat.le_max_right _ _))
      obtain ⟨cs, t, h⟩ := Props.C07.scan_terminates_nul (memOf s) nul (nul - pos.bytes.toNat) pos.bytes.toNat hn (Nat.le_refl _)
      refine ⟨cs, t, Tickit.Utf8.scan_mono_le _ _ _ _ _ _ ?_ h⟩
      have := hn.1
      omega
    · subst h
      have e : (toPos pos).bytes = 0 := by show pos.bytes.toNat = 0; omega
      rw [e]
      exact Props.C07.scan_terminates_len (memOf s) s.length 0
  obtain ⟨cs, t, hs⟩ := hscan
  refine ⟨cs, t, hs, ?_⟩
  obtain ⟨hi, hc⟩ := Props.C07.count_spec (memOf s) (s.length + 1) len (toPos pos) (limit.map toLimit) cs t hs
  have hA := countLoop_agree s limit hl pos.bytes.toNat (s.length + 1) pos.bytes.toNat (len.map (· - pos.bytes.toNat)) pos pos 0
    hp (by omega) (Int.le_refl _)
  have hlen' : Tickit.Utf8.lenSub len (toPos pos).bytes = len.map (· - pos.bytes.toNat) := by
    rcases hlen with h | ⟨h, h0⟩
    · subst h; rfl
    · subst h
      have e : pos.bytes.toNat = 0 := by omega
      show Tickit.Utf8.lenSub (some s.length) pos.bytes.toNat = _
      rw [e]; simp [Tickit.Utf8.lenSub]
  have hc' : Tickit.Utf8.loop (memOf s) (limit.map toLimit) pos.bytes.toNat (s.length + 1) pos.bytes.toNat
      (len.map (· - pos.bytes.toNat)) (toPos pos) (toPos pos) 0 =
      .ret ((specRun (limit.map toLimit) (graphemes cs) t (toPos pos)).ret (toPos pos).bytes)
        (specRun (limit.map toLimit) (graphemes cs) t (toPos pos)).pos hi := by
    rw [← hlen']; exact hc
  rw [hc'] at hA
  unfold Agree at hA
  simp only at hA
  refine ⟨hA.1, ?_⟩
  unfold Tickit.Utf8.Res.ret at hA
  by_cases he : (specRun (limit.map toLimit) (graphemes cs) t (toPos pos)).err = true
  · rw [if_pos he] at hA ⊢
    rcases hA.2 with h | h
    · exact h.2
    · exact absurd rfl h.2.1
  · rw [if_neg he] at hA ⊢
    rcases hA.2 with h | h
    · exfalso
      have := h.1
      have hb := Tickit.Utf8.specRun_bytes_ge (limit.map toLimit) t (graphemes cs) (toPos pos)
      omega
    · exact h.2.2

theorem allFit_none : ∀ (gs : List (List Tickit.Utf8.Ch)) (here : Tickit.Utf8.Pos), Tickit.Utf8.AllFit none here gs := by
  intro gs
  induction gs with
  | nil => intro here; trivial
  | cons g gs ih => intro here; exact ⟨trivial, ih _⟩

theorem specRun_none_eof : ∀ (gs : List (List Tickit.Utf8.Ch)) (here : Tickit.Utf8.Pos),
    Tickit.Utf8.specRun none gs .eof here = ⟨false, Tickit.Utf8.sumPos here gs.flatten⟩ := by
  intro gs
  induction gs with
  | nil => intro here; rfl
  | cons g gs ih =>
    intro here
    unfold Tickit.Utf8.specRun
    rw [if_pos (by trivial : Tickit.Utf8.Within none _), if_neg (by simp), ih, List.flatten_cons, Tickit.Utf8.sumPos_append]

open Tickit.Props.C07 (Scans graphemes) in
/-- **The columns of a text, in C07's terms**: the string handed to `put_string` can be scanned into
    characters `cs` (each with its C07 width `c.w = wcwidth c.cp`, see `Props.C07.scans_sound`); the text is
    accepted exactly if the scan ends at the end of the string (no control character, no truncated or NUL-cut
    sequence), and then it occupies the sum of the widths. -/
theorem stringColumns_c07 (s : List UInt8) :
    ∃ cs t, Scans (memOf s) (s.length + 1) (some s.length) Tickit.Utf8.Pos.zero cs t ∧
      stringColumns s = (if t = .eof then some ((cs.map (·.w)).sum) else none) := by
  obtain ⟨cs, t, hs, hp, hst⟩ := ncountmore_c07 s (some s.length) {} none (Int.le_refl _) (Or.inr ⟨rfl, rfl⟩) (fun l h => by cases h)
  refine ⟨cs, t, hs, ?_⟩
  unfold stringColumns
  simp only [Option.map_none] at hp hst
  have hz : toPos {} = Tickit.Utf8.Pos.zero := rfl
  rw [hz] at hp hst
  cases t with
  | eof =>
    simp only [specRun_none_eof, Bool.false_eq_true, if_false] at hp hst
    simp only [hst, hp, if_true]
    simp only [ofPos]
    unfold graphemes
    rw [Tickit.Utf8.clusters_flatten, Tickit.Utf8.sumPos_columns]
    simp [Tickit.Utf8.Pos.zero]
  | err =>
    have he : (Tickit.Utf8.specRun none (graphemes cs) .err Tickit.Utf8.Pos.zero).err = true :=
      (Tickit.Utf8.specRun_err_iff none .err _ _).2 ⟨rfl, allFit_none _ _⟩
    simp only [he, if_true] at hst
    simp [hst]

end Tickit.RB.Utf8

namespace Tickit.RB
open Tickit.RBAbs

/-! ## `get_cell_text` -/

/-- A one-column start cell showing the given content. -/
def contentCell : Content → Cell
  | .skip => { state := .skip, cols := 1 }
  | .text p s k => { state := .text, cols := 1, pen := p, text := s, offs := k }
  | .erase p => { state := .erase, cols := 1, pen := p }
  | .line p m => { state := .line, cols := 1, pen := p, lmask := m }
  | .char p cp => { state := .char, cols := 1, pen := p, cp := cp }

/-- What `tickit_renderbuffer_get_cell_text` answers for a cell with the given abstract content (buffer of
    `len` bytes): nothing for skip and erase, the UTF-8 of the glyph / code point for line and char, and for text
    the grapheme of the string at the cell's column. -/
def contentText (ct : Content) (len : Nat) : Int × List UInt8 := getSpanText1 ⟨contentCell ct, 0⟩ len

theorem getSpanText1_content (start : Cell) (off : Int) (len : Nat) (h : start.state ≠ .cont) :
    getSpanText1 ⟨start, off⟩ len = contentText (cellContent start off) len := by
  unfold contentText cellContent getSpanText1
  cases hs : start.state <;> simp [contentCell, hs] at h ⊢ <;> rfl

/-- **`get_cell_text`, by the abstract content.**  On a well-formed buffer the query for user coordinates
    `(l, c)` is answered from the abstract content of the cell `(l + xlLine, c + xlCol)` alone — whatever run the
    cell belongs to and wherever that run was cut — and with `-1` exactly for cells outside the clipping region. -/
theorem getCellText_abs {rb : RB} (wf : WF rb) (l c : Int) (len : Nat) :
    getCellText rb l c len =
      if absClipRect rb.clip (l + rb.xlLine) (c + rb.xlCol) = true
      then contentText (absContent rb (l + rb.xlLine) (c + rb.xlCol)) len else (-1, []) := by
  unfold getCellText getSpan
  cases hx : xlateAndClip rb l c 1 with
  | none =>
    simp only
    rw [if_neg]
    intro x
    exact xlateAndClip_none hx (c + rb.xlCol) ⟨by omega, by omega, x⟩
  | some r =>
    simp only
    obtain ⟨r1, r2, r3, r4, r5, r6, r7, r8⟩ := xlateAndClip_one wf.clip hx
    rw [← r1, ← r2, if_pos r8]
    have hb : inBuf rb.lines rb.cols r.line r.col = true := (inBuf_iff _ _ _ _).2 ⟨r4, r5, r6, r7⟩
    rw [absContent_eq, if_pos hb]
    unfold rowContent
    have hrow := wf.rows r.line r4 r5
    unfold RB.cell
    by_cases hc : ((rb.cells r.line).get r.col).state = .cont
    · rw [if_pos hc, if_pos hc]
      have hst := hrow.cont_start r.col r6 r7 hc
      simp only
      rw [if_neg hst]
      exact getSpanText1_content _ _ _ hst
    · rw [if_neg hc, if_neg hc]
      simp only
      rw [if_neg hc]
      exact getSpanText1_content _ _ _ hc

theorem toPos_ofPos (p : Tickit.Utf8.Pos) : Utf8.toPos (Utf8.ofPos p) = p := by
  unfold Utf8.toPos Utf8.ofPos
  cases p; simp

open Tickit.Utf8 (specRun) in
open Tickit.Props.C07 (Scans graphemes) in
/-- **The text of a text cell, in C07's terms.**  For a cell showing column `k` of the string `s`: count whole
    graphemes from the start of `s` while the columns stay `≤ k` — that is the position `st`; count one more
    grapheme from there — that is `en`; `get_cell_text` returns the bytes `s[st.bytes, en.bytes)`, i.e. the
    grapheme that occupies column `k` (for the second column of a double-width character: the grapheme *after*
    it, because the wide one does not fit into `k` columns — what the code does), or `-1` if the buffer is too
    short.  Both counts are `Props.C07`'s `specRun` over the scanned characters. -/
theorem cellText_text_c07 (p : Pen) (s : List UInt8) (k : Int) (len : Nat) :
    ∃ cs1 t1 cs2 t2 st en,
      Scans (Utf8.memOf s) (s.length + 1) none Tickit.Utf8.Pos.zero cs1 t1 ∧
      st = (specRun (some ⟨none, -1, -1, k⟩) (graphemes cs1) t1 Tickit.Utf8.Pos.zero).pos ∧
      Scans (Utf8.memOf s) (s.length + 1) none st cs2 t2 ∧
      en = (specRun (some ⟨none, -1, st.graphemes + 1, -1⟩) (graphemes cs2) t2 st).pos ∧
      contentText (.text p s k) len =
        (if (len : Int) < (en.bytes : Int) - st.bytes then (-1, [])
         else ((en.bytes : Int) - st.bytes, (s.drop st.bytes).take (en.bytes - st.bytes))) := by
  obtain ⟨cs1, t1, hs1, hp1, _⟩ := Utf8.ncountmore_c07 s none {} (some (Utf8.limitColumns k)) (Int.le_refl _) (Or.inl rfl)
    (fun l h => by cases h; simp [Utf8.limitColumns])
  have hz : Utf8.toPos {} = Tickit.Utf8.Pos.zero := rfl
  have hl1 : (some (Utf8.limitColumns k)).map Utf8.toLimit = some (⟨none, -1, -1, k⟩ : Tickit.Utf8.Limit) := by
    simp [Utf8.limitColumns, Utf8.toLimit]
  rw [hz] at hs1
  rw [hz, hl1] at hp1
  generalize hst : (specRun (some ⟨none, -1, -1, k⟩) (graphemes cs1) t1 Tickit.Utf8.Pos.zero).pos = st at hp1
  obtain ⟨cs2, t2, hs2, hp2, _⟩ := Utf8.ncountmore_c07 s none (Utf8.ofPos st) (some (Utf8.limitGraphemes (st.graphemes + 1)))
    (by show (0 : Int) ≤ (st.bytes : Int); omega) (Or.inl rfl) (fun l h => by cases h; simp [Utf8.limitGraphemes])
  have hl2 : (some (Utf8.limitGraphemes (st.graphemes + 1))).map Utf8.toLimit =
      some (⟨none, -1, st.graphemes + 1, -1⟩ : Tickit.Utf8.Limit) := by
    simp [Utf8.limitGraphemes, Utf8.toLimit]
  rw [toPos_ofPos] at hs2
  rw [toPos_ofPos, hl2] at hp2
  generalize hen : (specRun (some ⟨none, -1, st.graphemes + 1, -1⟩) (graphemes cs2) t2 st).pos = en at hp2
  refine ⟨cs1, t1, cs2, t2, st, en, hs1, hst.symm, hs2, hen.symm, ?_⟩
  unfold contentText getSpanText1 contentCell
  simp only [Int.add_zero]
  rw [hp1]
  have hg : (Utf8.ofPos st).graphemes = st.graphemes := rfl
  rw [hg, hp2]
  show (if (len : Int) < ((en.bytes : Nat) : Int) - ((st.bytes : Nat) : Int) then _ else _) = _
  have e1 : (((st.bytes : Nat) : Int)).toNat = st.bytes := by omega
  have e2 : (((en.bytes : Nat) : Int) - ((st.bytes : Nat) : Int)).toNat = en.bytes - st.bytes := by omega
  split
  · rfl
  · show (_, (s.drop (((st.bytes : Nat) : Int)).toNat).take (((en.bytes : Nat) : Int) - ((st.bytes : Nat) : Int)).toNat) = _
    rw [e1, e2]
    rfl

end Tickit.RB
