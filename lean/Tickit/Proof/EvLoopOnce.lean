import Tickit.Proof.EvLoopWF
/-
  C17, "exactly once" across the iterations of a history.

  The harness's table of watch slots (`St.slots`) carries, for every watch it registered, the number of FIRE
  invocations of its callback so far (`SlotRec.fires`; `fireUser` is the only place that logs a FIRE entry and
  the only place that counts one).  This file proves, for the repaired source and every history:

    * the record of slot `k` counts the invocations of exactly one watch, its `handle` (`K`: every watch with a
      slot number has its record, slot numbers are not shared);
    * `Once`: a timer or deferred callback has been invoked at most once — and not at all while it is still
      allocated — whatever was registered, cancelled or invoked in between.

  Structure: `MH` (what any step does to allocated watches), `Q0` (a step that neither counts nor registers
  a slot), `Reg` (a constructor), `Q` (everything a callback can do: `runActs`); then, for the functions that
  invoke callbacks, preservation of the bundle `B` (lists well formed, `K`, `Once`) by the same inductions as
  the `l_*` family of Proof/EvLoopWF.lean.
-/
namespace Tickit.EvLoop

def isOneShot (t : WType) : Bool := t == .timer || t == .later

theorem isOneShot_none : isOneShot .none = false := rfl

/-! ### what a step does to the watches that exist -/

structure MH (st st' : St) : Prop where
  len : st.heap.length ≤ st'.heap.length
  slot : ∀ x, x < st.heap.length → (st'.getW x).slot = (st.getW x).slot
  puser : ∀ x, x < st.heap.length → (st'.getW x).puser = (st.getW x).puser
  typ : ∀ x, x < st.heap.length → (st'.getW x).type = (st.getW x).type ∨ (st'.getW x).type = .none
  live : ∀ x, x < st.heap.length → st'.live x = true → st.live x = true
  /-- a history that has left defined behaviour (or was killed) stays there -/
  ok : st'.isOk = true → st.isOk = true

theorem MH.refl (st : St) : MH st st := ⟨Nat.le_refl _, fun _ _ => rfl, fun _ _ => rfl, fun _ _ => Or.inl rfl, fun _ _ h => h, fun h => h⟩

theorem MH.trans {a b c : St} (h1 : MH a b) (h2 : MH b c) : MH a c := by
  refine ⟨Nat.le_trans h1.len h2.len, ?_, ?_, ?_, ?_, fun h => h1.ok (h2.ok h)⟩
  · intro x hx; rw [h2.slot x (Nat.lt_of_lt_of_le hx h1.len), h1.slot x hx]
  · intro x hx; rw [h2.puser x (Nat.lt_of_lt_of_le hx h1.len), h1.puser x hx]
  · intro x hx
    cases h2.typ x (Nat.lt_of_lt_of_le hx h1.len) with
    | inl e => rw [e]; exact h1.typ x hx
    | inr e => exact Or.inr e
  · intro x hx hl; exact h1.live x hx (h2.live x (Nat.lt_of_lt_of_le hx h1.len) hl)

theorem MH.of_heap_eq {st st' : St} (h : st'.heap = st.heap) (hs : st'.status = st.status) : MH st st' :=
  ⟨by rw [h]; exact Nat.le_refl _, fun x _ => by rw [getW_of_heap_eq h], fun x _ => by rw [getW_of_heap_eq h],
   fun x _ => by rw [getW_of_heap_eq h]; exact Or.inl rfl, fun x _ hl => by rw [live_of_heap_eq h] at hl; exact hl,
   fun hok => by unfold St.isOk at *; rw [← hs]; exact hok⟩

/-- … when the step moves the status away from `ok` (or leaves a status that is not `ok`). -/
theorem MH.of_heap_eq_bad {st st' : St} (h : st'.heap = st.heap) (hs : st'.isOk = false) : MH st st' :=
  ⟨by rw [h]; exact Nat.le_refl _, fun x _ => by rw [getW_of_heap_eq h], fun x _ => by rw [getW_of_heap_eq h],
   fun x _ => by rw [getW_of_heap_eq h]; exact Or.inl rfl, fun x _ hl => by rw [live_of_heap_eq h] at hl; exact hl,
   fun hok => by rw [hs] at hok; cases hok⟩

/-- A one-shot type survives only unchanged. -/
theorem MH.oneShot {st st' : St} (h : MH st st') {x : Nat} (hx : x < st.heap.length)
    (ho : isOneShot (st'.getW x).type = true) : (st'.getW x).type = (st.getW x).type := by
  cases h.typ x hx with
  | inl e => exact e
  | inr e => rw [e] at ho; cases ho

theorem MH.notOneShot {st st' : St} (h : MH st st') {x : Nat} (hx : x < st.heap.length)
    (ho : isOneShot (st.getW x).type = false) : isOneShot (st'.getW x).type = false := by
  cases h.typ x hx with
  | inl e => rw [e]; exact ho
  | inr e => rw [e]; rfl

theorem mh_alloc (st : St) (w : Watch) : MH st (st.alloc w).1 :=
  ⟨by rw [alloc_len]; omega, fun x hx => by rw [getW_alloc_old st w x hx], fun x hx => by rw [getW_alloc_old st w x hx],
   fun x hx => by rw [getW_alloc_old st w x hx]; exact Or.inl rfl, fun x hx hl => by rw [live_alloc_old st w x hx] at hl; exact hl,
   fun h => h⟩

/-- Overwriting a watch: slot and puser kept, type kept or cleared, not resurrected. -/
theorem mh_setW (st : St) (a : Nat) (w : Watch) (h1 : w.slot = (st.getW a).slot) (h2 : w.puser = (st.getW a).puser)
    (h3 : w.type = (st.getW a).type ∨ w.type = .none) (h4 : w.freed = false → (st.getW a).freed = false) : MH st (st.setW a w) := by
  refine ⟨by rw [St.length_setW]; exact Nat.le_refl _, ?_, ?_, ?_, ?_, fun h => h⟩
  · intro x hx
    by_cases hax : a = x
    · subst hax; rw [St.getW_setW_self st a w hx, h1]
    · rw [St.getW_setW_ne st a x w hax]
  · intro x hx
    by_cases hax : a = x
    · subst hax; rw [St.getW_setW_self st a w hx, h2]
    · rw [St.getW_setW_ne st a x w hax]
  · intro x hx
    by_cases hax : a = x
    · subst hax; rw [St.getW_setW_self st a w hx]; exact h3
    · rw [St.getW_setW_ne st a x w hax]; exact Or.inl rfl
  · intro x hx hl
    by_cases hax : a = x
    · subst hax
      have hx' : a < (st.setW a w).heap.length := by rw [St.length_setW]; exact hx
      rw [live_eq_not_freed _ _ hx', St.getW_setW_self st a w hx] at hl
      rw [live_eq_not_freed _ _ hx, h4 (by simpa using hl)]; rfl
    · rw [St.live_setW_ne _ _ _ _ hax] at hl; exact hl

theorem mh_fail (st : St) (w : Ub) : MH st (st.fail w) := MH.of_heap_eq_bad (St.heap_fail st w) (St.isOk_fail st w)

theorem mh_free (st : St) (a : Nat) : MH st (st.free a) := by
  unfold St.free
  split
  · exact mh_setW st a _ rfl rfl (Or.inl rfl) (fun h => by cases h)
  · exact mh_fail _ _

/-! ### `QB`: watches, and the pointers the loop keeps to watches it will invoke through `invoke_watch` -/

/-- Besides `MH`: a watch a poll slot points at, and the process watch an internal deferred callback (slot -4,
    `process_notify`) carries, are old ones or new ones that are not timers / deferred callbacks. -/
structure QB (st st' : St) : Prop where
  h : MH st st'
  pfd : ∀ s ∈ st'.pfd, ∀ a, s.watch = some a →
    (∃ s0 ∈ st.pfd, s0.watch = some a) ∨ (a < st'.heap.length ∧ isOneShot (st'.getW a).type = false)
  pus : ∀ l, st.heap.length ≤ l → l < st'.heap.length → (st'.getW l).slot = -4 →
    (st'.getW l).puser < st'.heap.length ∧ isOneShot (st'.getW (st'.getW l).puser).type = false
  /-- `process.notify` of a watch is what it was, or points at an internal watch (negative slot number) -/
  pno : ∀ x, x < st'.heap.length → ∀ l, (st'.getW x).notify = some l →
    (x < st.heap.length ∧ (st.getW x).notify = some l) ∨ (l < st'.heap.length ∧ (st'.getW l).slot < 0)

theorem QB.refl (st : St) : QB st st :=
  ⟨MH.refl st, fun s hs a ha => Or.inl ⟨s, hs, ha⟩, fun l h1 h2 => by omega, fun x hx l hl => Or.inl ⟨hx, hl⟩⟩

theorem QB.trans {a b c : St} (h1 : QB a b) (h2 : QB b c) : QB a c := by
  refine ⟨h1.h.trans h2.h, ?_, ?_, ?_⟩
  rotate_right
  · intro x hx l hl
    rcases h2.pno x hx l hl with e | e
    · rcases h1.pno x e.1 l e.2 with e1 | e1
      · exact Or.inl e1
      · exact Or.inr ⟨Nat.lt_of_lt_of_le e1.1 h2.h.len, by rw [h2.h.slot l e1.1]; exact e1.2⟩
    · exact Or.inr e
  · intro s hs x hx
    cases h2.pfd s hs x hx with
    | inl e =>
      obtain ⟨s0, hs0, hx0⟩ := e
      cases h1.pfd s0 hs0 x hx0 with
      | inl e1 => exact Or.inl e1
      | inr e1 => exact Or.inr ⟨Nat.lt_of_lt_of_le e1.1 h2.h.len, h2.h.notOneShot e1.1 e1.2⟩
    | inr e => exact Or.inr e
  · intro l hl1 hl2 hs
    by_cases hb : l < b.heap.length
    · have hsb : (b.getW l).slot = -4 := by rw [← h2.h.slot l hb]; exact hs
      obtain ⟨p1, p2⟩ := h1.pus l hl1 hb hsb
      rw [h2.h.puser l hb]
      exact ⟨Nat.lt_of_lt_of_le p1 h2.h.len, h2.h.notOneShot p1 p2⟩
    · exact h2.pus l (by omega) hl2 hs

theorem QB.of_eq {st st' : St} (hh : st'.heap = st.heap) (hst : st'.status = st.status)
    (hp : st'.pfd.map (·.watch) = st.pfd.map (·.watch)) : QB st st' := by
  refine ⟨MH.of_heap_eq hh hst, ?_, ?_, ?_⟩
  rotate_right
  · intro x hx l hl
    rw [hh] at hx
    rw [getW_of_heap_eq hh] at hl
    exact Or.inl ⟨hx, hl⟩
  · intro s hs a ha
    left
    have : some a ∈ st'.pfd.map (·.watch) := List.mem_map.mpr ⟨s, hs, ha⟩
    rw [hp] at this
    obtain ⟨s0, hs0, h0⟩ := List.mem_map.mp this
    exact ⟨s0, hs0, h0⟩
  · intro l h1 h2; rw [hh] at h2; omega

/-! ### `Q0`: a step that neither counts an invocation nor gives a watch a slot number of the harness -/

structure Q0 (st st' : St) : Prop where
  b : QB st st'
  slots : st'.slots = st.slots
  neg : ∀ x, st.heap.length ≤ x → x < st'.heap.length → (st'.getW x).slot < 0

theorem Q0.refl (st : St) : Q0 st st := ⟨QB.refl st, rfl, fun x h1 h2 => by omega⟩

theorem Q0.trans {a b c : St} (h1 : Q0 a b) (h2 : Q0 b c) : Q0 a c := by
  refine ⟨h1.b.trans h2.b, by rw [h2.slots, h1.slots], ?_⟩
  intro x hx1 hx2
  by_cases hb : x < b.heap.length
  · rw [h2.b.h.slot x hb]; exact h1.neg x hx1 hb
  · exact h2.neg x (by omega) hx2

theorem Q0.of_eq {st st' : St} (hh : st'.heap = st.heap) (hst : st'.status = st.status) (hs : st'.slots = st.slots)
    (hp : st'.pfd.map (·.watch) = st.pfd.map (·.watch)) : Q0 st st' :=
  ⟨QB.of_eq hh hst hp, hs, fun x h1 h2 => by rw [hh] at h2; omega⟩

/-- From a heap relation alone, when nothing else the relation speaks of moved and no watch was allocated. -/
theorem Q0.of_mh {st st' : St} (h : MH st st') (hl : st'.heap.length = st.heap.length) (hs : st'.slots = st.slots)
    (hp : st'.pfd = st.pfd)
    (hn : ∀ x, x < st.heap.length → ∀ l, (st'.getW x).notify = some l →
      (st.getW x).notify = some l ∨ (l < st'.heap.length ∧ (st'.getW l).slot < 0)) : Q0 st st' :=
  ⟨⟨h, fun s hs' a ha => Or.inl ⟨s, by rw [← hp]; exact hs', ha⟩, fun l h1 h2 => by omega,
    fun x hx l hnl => (by
      rw [hl] at hx
      exact (hn x hx l hnl).imp (fun e => ⟨hx, e⟩) id)⟩, hs, fun x h1 h2 => by omega⟩

/-- … and when the heap is literally the same (only the status moved). -/
theorem Q0.of_heap {st st' : St} (h : MH st st') (hh : st'.heap = st.heap) (hs : st'.slots = st.slots) (hp : st'.pfd = st.pfd) : Q0 st st' :=
  Q0.of_mh h (by rw [hh]) hs hp (fun x _ l hl => Or.inl (by rw [getW_of_heap_eq hh] at hl; exact hl))

/-! primitives -/

theorem q0_emit (st : St) (e : Ev) : Q0 st (st.emit e) := Q0.of_eq rfl rfl rfl rfl
theorem q0_fail (st : St) (w : Ub) : Q0 st (st.fail w) :=
  Q0.of_heap (mh_fail st w) (St.heap_fail st w) (by unfold St.fail; split <;> rfl) (by unfold St.fail; split <;> rfl)
theorem q0_setW (st : St) (a : Nat) (w : Watch) (h1 : w.slot = (st.getW a).slot) (h2 : w.puser = (st.getW a).puser)
    (h3 : w.type = (st.getW a).type ∨ w.type = .none) (h4 : w.freed = false → (st.getW a).freed = false)
    (h5 : ∀ l, w.notify = some l → (st.getW a).notify = some l ∨ (l < st.heap.length ∧ (st.getW l).slot < 0)) : Q0 st (st.setW a w) := by
  have hm := mh_setW st a w h1 h2 h3 h4
  refine Q0.of_mh hm (St.length_setW _ _ _) rfl rfl ?_
  intro x hx l hl
  by_cases hax : a = x
  · subst hax
    rw [St.getW_setW_self st a w hx] at hl
    rcases h5 l hl with e | e
    · exact Or.inl e
    · exact Or.inr ⟨by rw [St.length_setW]; exact e.1, by rw [hm.slot l e.1]; exact e.2⟩
  · rw [St.getW_setW_ne st a x w hax] at hl
    exact Or.inl hl
theorem q0_setEvi (st : St) (a idx : Nat) : Q0 st (st.setW a { st.getW a with evi := idx }) :=
  q0_setW st a _ rfl rfl (Or.inl rfl) (fun h => h) (fun l h => Or.inl h)
theorem q0_setWstatus (st : St) (a : Nat) (ws : Int) : Q0 st (st.setW a { st.getW a with wstatus := ws }) :=
  q0_setW st a _ rfl rfl (Or.inl rfl) (fun h => h) (fun l h => Or.inl h)
theorem q0_free (st : St) (a : Nat) : Q0 st (st.free a) := by
  unfold St.free
  split
  · exact q0_setW st a _ rfl rfl (Or.inl rfl) (fun h => by cases h) (fun l h => Or.inl h)
  · exact q0_fail _ _
theorem q0_setListOf (st : St) (t : WType) (l : List Nat) : Q0 st (setListOf st t l) := by
  cases t <;> exact Q0.of_eq rfl rfl rfl rfl
theorem q0_with_timers (st : St) (l : List Nat) : Q0 st { st with timers := l } := Q0.of_eq rfl rfl rfl rfl
theorem q0_with_laters (st : St) (l : List Nat) : Q0 st { st with laters := l } := Q0.of_eq rfl rfl rfl rfl
theorem q0_with_iow (st : St) (l : List Nat) : Q0 st { st with iow := l } := Q0.of_eq rfl rfl rfl rfl
theorem q0_with_signals (st : St) (l : List Nat) : Q0 st { st with signals := l } := Q0.of_eq rfl rfl rfl rfl
theorem q0_with_procs (st : St) (l : List Nat) : Q0 st { st with procs := l } := Q0.of_eq rfl rfl rfl rfl
theorem q0_with_errno (st : St) (v : Int) : Q0 st { st with errno := v } := Q0.of_eq rfl rfl rfl rfl
theorem q0_with_children (st : St) (l : List Proc) : Q0 st { st with children := l } := Q0.of_eq rfl rfl rfl rfl
theorem q0_with_stillRunning (st : St) (b : Bool) : Q0 st { st with stillRunning := b } := Q0.of_eq rfl rfl rfl rfl
theorem q0_with_status (st : St) (x : Status) (hx : x ≠ .ok) : Q0 st { st with status := x } :=
  Q0.of_heap (MH.of_heap_eq_bad rfl (by
    show (x == Status.ok) = false
    cases x <;> first | exact absurd rfl hx | rfl)) rfl rfl rfl
theorem q0_with_pendingSig (st : St) (l : List Int) : Q0 st { st with pendingSig := l } := Q0.of_eq rfl rfl rfl rfl
theorem q0_with_inpoll (st : St) (l : List Int) : Q0 st { st with inpoll := l } := Q0.of_eq rfl rfl rfl rfl

theorem q0_raiseSig (st : St) (s : Int) : Q0 st (raiseSig st s) := by
  unfold raiseSig
  split
  · exact Q0.refl st
  · split
    · exact Q0.of_eq rfl rfl rfl rfl
    · split
      · unfold sigRecord; split <;> first | exact Q0.of_eq rfl rfl rfl rfl | exact Q0.refl _
      · split
        · exact q0_with_status st _ (by intro h; cases h)
        · exact Q0.refl st

theorem q0_evloopSignal (st : St) (s : Int) : Q0 st (evloopSignal st s).1 := by
  unfold evloopSignal
  simp only []
  split <;> exact Q0.of_eq rfl rfl rfl rfl

theorem q0_evloopCancelSignal (st : St) (idx : Nat) : Q0 st (evloopCancelSignal st idx) := by
  unfold evloopCancelSignal
  simp only []
  split
  · exact Q0.of_eq rfl rfl rfl rfl
  · split
    · split
      · exact Q0.of_heap (MH.of_heap_eq_bad rfl rfl) rfl rfl rfl
      · exact Q0.of_eq rfl rfl rfl rfl
    · exact Q0.of_eq rfl rfl rfl rfl

theorem q0_insertWatch (st : St) (l : List Nat) (flags new : Nat) : Q0 st (insertWatch st l flags new).1 := by
  unfold insertWatch
  split
  · exact Q0.refl st
  · split
    · exact Q0.refl st
    · exact q0_fail st _

theorem q0_notify (st : St) (a flags : Nat) : Q0 st (notify st a flags) := by
  unfold notify
  simp only []
  split
  · exact q0_emit st _
  · exact Q0.refl st

theorem q0_waitpid (st : St) (pid : Int) : Q0 st (waitpid st pid).st := by
  unfold waitpid
  split
  · split
    · exact Q0.of_eq rfl rfl rfl rfl
    · split <;> exact Q0.of_eq rfl rfl rfl rfl
  · exact Q0.refl st

theorem q0_waitpidV (st : St) (pid : Int) : Q0 st (waitpidV st pid).st := by
  unfold waitpidV
  split
  · exact q0_waitpid _ _
  · exact Q0.refl _

/-- `evloop_cancel_io`: the entry stops pointing at a watch. -/
theorem q0_evloopCancelIo (st : St) (idx : Nat) : Q0 st (evloopCancelIo st idx) := by
  refine ⟨⟨MH.of_heap_eq rfl rfl, ?_, fun l h1 h2 => by have : (evloopCancelIo st idx).heap = st.heap := rfl; rw [this] at h2; omega,
      fun x hx l hl => Or.inl ⟨hx, hl⟩⟩,
    rfl, fun x h1 h2 => by have : (evloopCancelIo st idx).heap = st.heap := rfl; rw [this] at h2; omega⟩
  intro s hs a ha
  left
  have hs' : s ∈ st.pfd.set idx { st.pfd.getD idx default with fd := -1, watch := none } := hs
  rcases List.mem_or_eq_of_mem_set hs' with h | h
  · exact ⟨s, h, ha⟩
  · rw [h] at ha; cases ha

/-- `evloop_io` handing a slot to watch `w`, which is not a timer / deferred callback. -/
theorem q0_evloopIo (st : St) (fd : Int) (cond : Nat) (w : Nat) (hw : w < st.heap.length)
    (ht : isOneShot (st.getW w).type = false) : Q0 st (evloopIo st fd cond w).1 := by
  have hheap : (evloopIo st fd cond w).1.heap = st.heap := by unfold evloopIo; split <;> rfl
  have hslots : (evloopIo st fd cond w).1.slots = st.slots := by unfold evloopIo; split <;> rfl
  have hstat : (evloopIo st fd cond w).1.status = st.status := by unfold evloopIo; split <;> rfl
  refine ⟨⟨MH.of_heap_eq hheap hstat, ?_, fun l h1 h2 => by rw [hheap] at h2; omega,
    fun x hx l hl => Or.inl ⟨by rw [hheap] at hx; exact hx, by rw [getW_of_heap_eq hheap] at hl; exact hl⟩⟩, hslots, fun x h1 h2 => by rw [hheap] at h2; omega⟩
  intro s hs a ha
  -- every entry of the new table is an old entry or the one handed out, which points at `w`
  have key : s ∈ st.pfd ∨ s.watch = some w := by
    unfold evloopIo at hs
    split at hs
    · rcases List.mem_or_eq_of_mem_set hs with h | h
      · exact Or.inl h
      · rw [h]; exact Or.inr rfl
    · simp only [List.mem_append, List.mem_singleton] at hs
      rcases hs with h | h
      · exact Or.inl h
      · rw [h]; exact Or.inr rfl
  cases key with
  | inl h => exact Or.inl ⟨s, h, ha⟩
  | inr h =>
    rw [h] at ha
    cases ha
    exact Or.inr ⟨by rw [hheap]; exact hw, by rw [getW_of_heap_eq hheap]; exact ht⟩

/-! cancel, unlink -/

theorem q0_cancelHook (st : St) (t : WType) (evi : Nat) : Q0 st (cancelHook st t evi) := by
  unfold cancelHook
  split
  · exact q0_evloopCancelIo _ _
  · exact q0_evloopCancelSignal _ _
  · exact Q0.refl _

theorem q0_cancelNotify (st : St) (a : Nat) (w : Watch) : Q0 st (cancelNotify st a w) := by
  unfold cancelNotify
  split
  · exact q0_notify _ _ _
  · exact Q0.refl _

theorem q0_cancelRest (st : St) (rest : List Nat) : Q0 st (cancelRest st rest) := by
  unfold cancelRest
  split
  · exact Q0.refl _
  · split
    · exact q0_fail _ _
    · exact Q0.refl _

theorem q0_cancelFound (st : St) (a : Nat) (w : Watch) (l : List Nat) : Q0 st (cancelFound st a w l) := by
  unfold cancelFound
  exact ((((q0_setListOf st _ _).trans (q0_cancelNotify _ _ _)).trans (q0_cancelHook _ _ _)).trans (q0_free _ _)).trans
    (q0_cancelRest _ _)

theorem q0_cancelDetached (st : St) (a : Nat) : Q0 st (cancelDetached st a) := by
  unfold cancelDetached
  exact (q0_cancelNotify st a _).trans (q0_setW _ a _ rfl rfl (Or.inr rfl) (fun h => h) (fun l h => Or.inl h))

theorem q0_laterPre (st : St) (a : Nat) : Q0 st (laterPre st a) := by
  unfold laterPre
  split
  · exact q0_setW _ a _ rfl rfl (Or.inl rfl) (fun h => h) (fun l h => Or.inl h)
  · exact Q0.refl _

theorem q0_watchCancel0 (st : St) (a : Nat) : Q0 st (watchCancel0 st a) := by
  unfold watchCancel0
  split
  · exact Q0.refl st
  · split
    · exact q0_fail _ _
    · split
      · exact Q0.refl st
      · split
        · exact q0_fail _ _
        · split
          · split
            · exact q0_cancelDetached st a
            · exact Q0.refl st
          · exact q0_cancelFound _ _ _ _

theorem q0_watchCancel (st : St) (a : Nat) : Q0 st (watchCancel st a) := by
  unfold watchCancel
  split
  · split
    · exact (q0_watchCancel0 st a).trans (q0_watchCancel0 _ _)
    · exact q0_watchCancel0 st a
  · exact q0_watchCancel0 st a

/-- `watch->type = WATCH_NONE; free(watch);` -/
theorem q0_setNoneFree (st : St) (a : Nat) : Q0 st ((st.setW a { st.getW a with type := .none }).free a) :=
  (q0_setW st a { st.getW a with type := .none } rfl rfl (Or.inr rfl) (fun h => h) (fun l h => Or.inl h)).trans (q0_free _ _)

theorem q0_unlinkOneshot (st : St) (a : Nat) : Q0 st (unlinkOneshot st a) := by
  unfold unlinkOneshot
  split
  · exact q0_fail _ _
  · split
    · exact Q0.refl _
    · split
      · exact q0_fail _ _
      · split
        · exact Q0.refl _
        · have h1 := q0_setListOf st (st.getW a).type ((listOf st (st.getW a).type).erase a)
          have h2 := q0_setNoneFree (setListOf st (st.getW a).type ((listOf st (st.getW a).type).erase a)) a
          rw [getW_setListOf] at h2
          exact h1.trans h2

theorem q0_unlinkOneshotSaved (st : St) (a : Nat) (t : WType) : Q0 st (unlinkOneshotSaved st a t) := by
  unfold unlinkOneshotSaved
  split
  · exact Q0.refl _
  · split
    · exact q0_fail _ _
    · split
      · exact Q0.refl _
      · have h1 := q0_setListOf st t ((listOf st t).erase a)
        have h2 := q0_setNoneFree (setListOf st t ((listOf st t).erase a)) a
        rw [getW_setListOf] at h2
        exact h1.trans h2

/-! ### `Reg`: a constructor — the first watch it allocates carries the slot number it was given, every other
    watch it allocates is internal (negative slot number) -/

structure Reg (st st' : St) (k : Int) : Prop where
  b : QB st st'
  slots : st'.slots = st.slots
  lt : st.heap.length < st'.heap.length
  first : (st'.getW st.heap.length).slot = k
  rest : ∀ x, st.heap.length < x → x < st'.heap.length → (st'.getW x).slot < 0

theorem Reg.andThen {a b c : St} {k : Int} (h1 : Reg a b k) (h2 : Q0 b c) : Reg a c k := by
  refine ⟨h1.b.trans h2.b, by rw [h2.slots, h1.slots], Nat.lt_of_lt_of_le h1.lt h2.b.h.len, ?_, ?_⟩
  · rw [h2.b.h.slot _ h1.lt]; exact h1.first
  · intro x hx1 hx2
    by_cases hb : x < b.heap.length
    · rw [h2.b.h.slot x hb]; exact h1.rest x hx1 hb
    · exact h2.neg x (by omega) hx2

theorem Reg.after {a b c : St} {k : Int} (h1 : Q0 a b) (hl : b.heap.length = a.heap.length) (h2 : Reg b c k) : Reg a c k := by
  refine ⟨h1.b.trans h2.b, by rw [h2.slots, h1.slots], by rw [← hl]; exact h2.lt, by rw [← hl]; exact h2.first, ?_⟩
  intro x hx1 hx2
  exact h2.rest x (by rw [hl]; exact hx1) hx2

theorem Reg.q0 {a b : St} {k : Int} (h : Reg a b k) (hk : k < 0) : Q0 a b := by
  refine ⟨h.b, h.slots, ?_⟩
  intro x hx1 hx2
  by_cases e : x = a.heap.length
  · subst e; rw [h.first]; exact hk
  · exact h.rest x (by omega) hx2

theorem reg_alloc (st : St) (w : Watch)
    (hp : w.slot = -4 → w.puser < st.heap.length ∧ isOneShot (st.getW w.puser).type = false) (hn : w.notify = none := by rfl) :
    Reg st (st.alloc w).1 w.slot := by
  have hlen := alloc_len st w
  have hpno : ∀ x, x < (st.alloc w).1.heap.length → ∀ l, ((st.alloc w).1.getW x).notify = some l →
      (x < st.heap.length ∧ (st.getW x).notify = some l) ∨ (l < (st.alloc w).1.heap.length ∧ ((st.alloc w).1.getW l).slot < 0) := by
    intro x hx l hl
    rw [hlen] at hx
    by_cases e : x < st.heap.length
    · rw [getW_alloc_old st w x e] at hl; exact Or.inl ⟨e, hl⟩
    · have : x = st.heap.length := by omega
      subst this
      rw [getW_alloc_new, hn] at hl; cases hl
  refine ⟨⟨mh_alloc st w, fun s hs a ha => Or.inl ⟨s, hs, ha⟩, ?_, hpno⟩, rfl, by rw [hlen]; omega, by rw [getW_alloc_new], ?_⟩
  · intro l h1 h2 hs
    rw [hlen] at h2
    have : l = st.heap.length := by omega
    subst this
    rw [getW_alloc_new] at hs ⊢
    obtain ⟨p1, p2⟩ := hp hs
    exact ⟨by rw [hlen]; omega, by rw [getW_alloc_old st w _ p1]; exact p2⟩
  · intro x h1 h2; rw [hlen] at h2; omega

theorem reg_watchTimerAt (st : St) (due : TV) (flags : Nat) (slot : Int) (hs : slot ≠ -4) :
    Reg st (watchTimerAt st due flags slot).1 slot := by
  unfold watchTimerAt
  simp only []
  have hA := reg_alloc st { type := .timer, flags := flags &&& (BIND_UNBIND ||| BIND_DESTROY), slot := slot, due := due }
    (fun h => absurd h hs)
  split
  · exact hA.andThen (q0_with_timers _ _)
  · exact hA.andThen (q0_fail _ _)

theorem reg_watchTimerAfterMsec (st : St) (msec : Int) (flags : Nat) (slot : Int) (hs : slot ≠ -4) :
    Reg st (watchTimerAfterMsec st msec flags slot).1 slot := by
  unfold watchTimerAfterMsec
  exact Reg.after (q0_emit st _) rfl (reg_watchTimerAt _ _ _ _ hs)

theorem reg_watchLater (st : St) (flags : Nat) (slot : Int) (puser : Nat)
    (hp : slot = -4 → puser < st.heap.length ∧ isOneShot (st.getW puser).type = false) :
    Reg st (watchLater st flags slot puser).1 slot := by
  unfold watchLater
  simp only []
  have hA := reg_alloc st { type := .later, flags := flags &&& (BIND_UNBIND ||| BIND_DESTROY), slot := slot, puser := puser } hp
  exact (hA.andThen (q0_insertWatch _ _ _ _)).andThen (q0_with_laters _ _)

theorem reg_watchIo (st : St) (fd : Int) (cond flags : Nat) (slot : Int) (hs : slot ≠ -4) :
    Reg st (watchIo st fd cond flags slot).1 slot := by
  unfold watchIo
  simp only []
  have hA := reg_alloc st { type := .io, flags := flags &&& st.cfg.ioFlagMask, slot := slot, fd := fd, cond := cond } (fun h => absurd h hs)
  have hgw := getW_alloc_new st { type := .io, flags := flags &&& st.cfg.ioFlagMask, slot := slot, fd := fd, cond := cond }
  have hlt := hA.lt
  generalize (st.alloc { type := .io, flags := flags &&& st.cfg.ioFlagMask, slot := slot, fd := fd, cond := cond }).1 = s1 at *
  have hB := q0_evloopIo s1 fd cond st.heap.length hlt (by rw [hgw]; rfl)
  exact (((hA.andThen hB).andThen (q0_setEvi _ _ _)).andThen (q0_insertWatch _ _ _ _)).andThen (q0_with_iow _ _)

theorem reg_watchSignalPre (st : St) (signum : Int) (flags : Nat) (slot : Int) (hs : slot ≠ -4) :
    Reg st (watchSignalPre st signum flags slot) slot := by
  unfold watchSignalPre
  exact ((reg_alloc st { type := .signal, flags := flags &&& (BIND_UNBIND ||| BIND_DESTROY), slot := slot, signum := signum }
    (fun h => absurd h hs)).andThen (q0_evloopSignal _ _)).andThen (q0_setEvi _ _ _)

theorem reg_watchSignal (st : St) (signum : Int) (flags : Nat) (slot : Int) (hs : slot ≠ -4) :
    Reg st (watchSignal st signum flags slot).1 slot := by
  unfold watchSignal
  exact ((reg_watchSignalPre st signum flags slot hs).andThen (q0_insertWatch _ _ _ _)).andThen (q0_with_signals _ _)

theorem q0_ensureSigchld (st : St) : Q0 st (ensureSigchld st) := by
  unfold ensureSigchld
  split
  · exact Q0.refl _
  · exact ((reg_watchSignal st SIGCHLD 0 (-3) (by decide)).q0 (by decide)).trans
      (Q0.of_eq rfl rfl rfl rfl : Q0 (watchSignal st SIGCHLD 0 (-3)).1
        { (watchSignal st SIGCHLD 0 (-3)).1 with sigchldwatch := some (watchSignal st SIGCHLD 0 (-3)).2 })

/-- `watch->process.notify = n` where `n` is nothing or an internal watch. -/
theorem q0_setNotify (st : St) (a : Nat) (n : Option Nat)
    (hn : ∀ l, n = some l → l < st.heap.length ∧ (st.getW l).slot < 0) : Q0 st (setNotify st a n) := by
  unfold setNotify
  exact q0_setW st a { st.getW a with notify := n } rfl rfl (Or.inl rfl) (fun h => h) (fun l hl => Or.inr (hn l hl))

theorem q0_linkNotified (r : St × Nat) (a : Nat) (flags : Nat) (hn : r.2 < r.1.heap.length ∧ (r.1.getW r.2).slot < 0) :
    Q0 r.1 (linkNotified r a flags) := by
  unfold linkNotified
  exact ((q0_setNotify r.1 a (some r.2) (fun l hl => by cases hl; exact hn)).trans (q0_insertWatch _ _ _ _)).trans (q0_with_procs _ _)

theorem q0_clearNotify (st : St) (a : Nat) : Q0 st (clearNotify st a) := by
  unfold clearNotify
  split
  · exact q0_setNotify st a none (fun l hl => by cases hl)
  · exact Q0.refl _

/-- The tail of `tickit_watch_process` for a process watch `a` (not a timer / deferred callback). -/
theorem q0_linkProcess (st : St) (a : Nat) (pid : Int) (flags : Nat) (ha : a < st.heap.length)
    (ht : isOneShot (st.getW a).type = false) : Q0 st (linkProcess st a pid flags) := by
  unfold linkProcess
  simp only []
  have gW := q0_waitpid st pid
  split
  · have gS := gW.trans (q0_setWstatus (waitpid st pid).st a (waitpid st pid).wstatus)
    have hp : a < ((waitpid st pid).st.setW a { (waitpid st pid).st.getW a with wstatus := (waitpid st pid).wstatus }).heap.length ∧
        isOneShot ((((waitpid st pid).st.setW a { (waitpid st pid).st.getW a with wstatus := (waitpid st pid).wstatus })).getW a).type = false :=
      ⟨Nat.lt_of_lt_of_le ha gS.b.h.len, gS.b.h.notOneShot ha ht⟩
    generalize ((waitpid st pid).st.setW a { (waitpid st pid).st.getW a with wstatus := (waitpid st pid).wstatus }) = sS at *
    have hR := reg_watchLater sS 0 (-4) a (fun _ => hp)
    have hL : Q0 sS (watchLater sS 0 (-4) a).1 := hR.q0 (by decide)
    split
    · have h2 : (watchLater sS 0 (-4) a).2 = sS.heap.length := rfl
      exact gS.trans (hL.trans (q0_linkNotified (watchLater sS 0 (-4) a) a flags ⟨by rw [h2]; exact hR.lt, by rw [h2, hR.first]; decide⟩))
    · exact gS.trans hL
  · exact (gW.trans (q0_insertWatch _ _ _ _)).trans (q0_with_procs _ _)

theorem reg_watchProcess (st : St) (pid : Int) (flags : Nat) (slot : Int) (hs : slot ≠ -4) :
    Reg st (watchProcess st pid flags slot).1 slot := by
  unfold watchProcess
  have hA := reg_alloc st { type := .process, flags := flags &&& (BIND_UNBIND ||| BIND_DESTROY), slot := slot, pid := pid } (fun h => absurd h hs)
  have hgw := getW_alloc_new st { type := .process, flags := flags &&& (BIND_UNBIND ||| BIND_DESTROY), slot := slot, pid := pid }
  have hlt := hA.lt
  generalize (st.alloc { type := .process, flags := flags &&& (BIND_UNBIND ||| BIND_DESTROY), slot := slot, pid := pid }).1 = s1 at *
  have hB := q0_ensureSigchld s1
  have hlt2 : st.heap.length < (ensureSigchld s1).heap.length := Nat.lt_of_lt_of_le hlt hB.b.h.len
  have ht2 : isOneShot ((ensureSigchld s1).getW st.heap.length).type = false := hB.b.h.notOneShot hlt (by rw [hgw]; rfl)
  exact (hA.andThen hB).andThen (q0_linkProcess _ _ _ _ hlt2 ht2)

/-! ### `Q`: everything a callback can do -/

structure Q (st st' : St) : Prop where
  b : QB st st'
  slots : ∃ ns, st'.slots = st.slots ++ ns ∧
    ∀ r ∈ ns, r.fires = 0 ∧ st.heap.length ≤ r.handle ∧ r.handle < st'.heap.length ∧ (st'.getW r.handle).slot = r.k ∧ 0 ≤ r.k
  keys : (st.slots.map (·.k)).Nodup → (st'.slots.map (·.k)).Nodup
  newc : ∀ x, st.heap.length ≤ x → x < st'.heap.length → (st'.getW x).slot ≥ 0 →
    ∃ r ∈ st'.slots, r.k = (st'.getW x).slot ∧ r.handle = x

theorem Q.refl (st : St) : Q st st :=
  ⟨QB.refl st, ⟨[], by simp, fun r hr => by cases hr⟩, fun h => h, fun x h1 h2 => by omega⟩

theorem Q.of_q0 {st st' : St} (h : Q0 st st') : Q st st' :=
  ⟨h.b, ⟨[], by rw [h.slots]; simp, fun r hr => by cases hr⟩, fun hn => by rw [h.slots]; exact hn,
   fun x h1 h2 h3 => by have := h.neg x h1 h2; omega⟩

theorem Q.trans {a b c : St} (h1 : Q a b) (h2 : Q b c) : Q a c := by
  obtain ⟨ns1, e1, f1⟩ := h1.slots
  obtain ⟨ns2, e2, f2⟩ := h2.slots
  refine ⟨h1.b.trans h2.b, ⟨ns1 ++ ns2, by rw [e2, e1, List.append_assoc], ?_⟩, fun hn => h2.keys (h1.keys hn), ?_⟩
  · intro r hr
    simp only [List.mem_append] at hr
    cases hr with
    | inl hr =>
      obtain ⟨p1, p2, p3, p4, p5⟩ := f1 r hr
      exact ⟨p1, p2, Nat.lt_of_lt_of_le p3 h2.b.h.len, by rw [h2.b.h.slot _ p3]; exact p4, p5⟩
    | inr hr =>
      obtain ⟨p1, p2, p3, p4, p5⟩ := f2 r hr
      exact ⟨p1, Nat.le_trans h1.b.h.len p2, p3, p4, p5⟩
  · intro x hx1 hx2 hs
    by_cases hb : x < b.heap.length
    · have hsb : (b.getW x).slot ≥ 0 := by rw [← h2.b.h.slot x hb]; exact hs
      obtain ⟨r, hr, hk, hh⟩ := h1.newc x hx1 hb hsb
      exact ⟨r, by rw [e2]; exact List.mem_append_left _ hr, by rw [h2.b.h.slot x hb]; exact hk, hh⟩
    · exact h2.newc x (by omega) hx2 hs

theorem findSlot_none {st : St} {k : Int} (h : findSlot st k = none) : ∀ r ∈ st.slots, r.k ≠ k := by
  intro r hr
  unfold findSlot at h
  have := List.find?_eq_none.mp h r hr
  simpa using this

theorem findSlot_some {st : St} {k : Int} {r : SlotRec} (h : findSlot st k = some r) : r ∈ st.slots ∧ r.k = k := by
  unfold findSlot at h
  exact ⟨List.mem_of_find?_eq_some h, by simpa using List.find?_some h⟩

/-- Registration through the harness's table: the constructor runs, then the slot gets its record. -/
theorem q_doRegister (st : St) (k : Int) (reg : St → St × Nat)
    (hreg : k ≠ -4 → ∀ s, Reg s (reg s).1 k ∧ (reg s).2 = s.heap.length) : Q st (doRegister st k reg) := by
  unfold doRegister
  split
  · exact Q.of_q0 (q0_emit _ _)
  · rename_i hk
    have hk0 : 0 ≤ k := by
      simp only [Bool.or_eq_true, decide_eq_true_eq, not_or, Int.not_lt] at hk
      exact hk.1
    split
    · exact Q.of_q0 (q0_emit _ _)
    · rename_i hnone
      obtain ⟨hr, h2⟩ := hreg (by omega) st
      simp only []
      have hkeys := findSlot_none hnone
      refine ⟨hr.b.trans (QB.of_eq rfl rfl rfl), ⟨[{ k := k, handle := (reg st).2, fires := 0 }], ?_, ?_⟩, ?_, ?_⟩
      · show (reg st).1.slots ++ _ = _; rw [hr.slots]
      · intro r hrr
        simp only [List.mem_singleton] at hrr
        subst hrr
        refine ⟨rfl, ?_, ?_, ?_, hk0⟩
        · show st.heap.length ≤ (reg st).2; rw [h2]; exact Nat.le_refl _
        · show (reg st).2 < (reg st).1.heap.length; rw [h2]; exact hr.lt
        · show ((reg st).1.getW (reg st).2).slot = k; rw [h2]; exact hr.first
      · intro hn
        show (((reg st).1.slots ++ [({ k := k, handle := (reg st).2, fires := 0 } : SlotRec)]).map (·.k)).Nodup
        rw [hr.slots, List.map_append, List.nodup_append]
        refine ⟨hn, by simp, ?_⟩
        intro x hx y hy
        simp only [List.map_cons, List.map_nil, List.mem_singleton] at hy
        subst hy
        obtain ⟨r, hrm, hrk⟩ := List.mem_map.mp hx
        intro e
        exact hkeys r hrm (hrk.trans e)
      · intro x hx1 hx2 hs
        have hx2' : x < (reg st).1.heap.length := hx2
        have hs' : ((reg st).1.getW x).slot ≥ 0 := hs
        by_cases e : x = st.heap.length
        · subst e
          refine ⟨{ k := k, handle := (reg st).2, fires := 0 }, ?_, ?_, ?_⟩
          · show _ ∈ (reg st).1.slots ++ _; exact List.mem_append_right _ List.mem_cons_self
          · show k = ((reg st).1.getW st.heap.length).slot; rw [hr.first]
          · exact h2
        · have := hr.rest x (by omega) hx2'
          omega

theorem snd_watchTimerAt (st : St) (due : TV) (flags : Nat) (slot : Int) : (watchTimerAt st due flags slot).2 = st.heap.length := by
  unfold watchTimerAt
  simp only []
  split <;> rfl

theorem snd_watchTimerAfterMsec (st : St) (msec : Int) (flags : Nat) (slot : Int) :
    (watchTimerAfterMsec st msec flags slot).2 = st.heap.length := by
  unfold watchTimerAfterMsec
  simp only []
  rw [snd_watchTimerAt]; rfl

theorem q0_with_cancelReq (st : St) (l : List Int) : Q0 st { st with cancelReq := l } := Q0.of_eq rfl rfl rfl rfl

theorem q0_doCancel (st : St) (k : Int) : Q0 st (doCancel st k) := by
  unfold doCancel
  split
  · exact q0_emit _ _
  · exact (q0_with_cancelReq _ _).trans (q0_watchCancel _ _)

theorem q_runAct (st : St) (act : Act) : Q st (runAct st act) := by
  unfold runAct
  split
  · exact Q.refl _
  · cases act with
    | timer k ms flags =>
      simp only []
      split
      · exact q_doRegister st k _ (fun hk s => ⟨reg_watchTimerAfterMsec s ms flags k hk, snd_watchTimerAfterMsec _ _ _ _⟩)
      · exact Q.refl _
    | timerAt k sec usec flags =>
      simp only []
      split
      · exact q_doRegister st k _ (fun hk s => ⟨reg_watchTimerAt s ⟨sec, usec⟩ flags k hk, snd_watchTimerAt _ _ _ _⟩)
      · exact Q.refl _
    | later k flags => exact q_doRegister st k _ (fun hk s => ⟨reg_watchLater s flags k 0 (fun h => absurd h hk), rfl⟩)
    | io k fd cond flags => exact q_doRegister st k _ (fun hk s => ⟨reg_watchIo s fd cond flags k hk, rfl⟩)
    | signal k sig flags =>
      simp only []
      split
      · exact q_doRegister st k _ (fun hk s => ⟨reg_watchSignal s sig flags k hk, rfl⟩)
      · exact Q.refl _
    | process k pid flags =>
      simp only []
      split
      · exact q_doRegister st k _ (fun hk s => ⟨reg_watchProcess s pid flags k hk, rfl⟩)
      · exact Q.refl _
    | cancel k => exact Q.of_q0 (q0_doCancel st k)
    | errno v => exact Q.of_q0 (q0_with_errno st v)
    | raise s =>
      simp only []
      split
      · exact Q.of_q0 (q0_raiseSig st s)
      · exact Q.refl _
    | exit pid status =>
      simp only []
      split
      · split
        · exact Q.refl _
        · exact Q.of_q0 (q0_with_children st _)
      · exact Q.refl _
    | stop => exact Q.of_q0 (q0_with_stillRunning st false)
    | nop => exact Q.refl _

/-- The body of a callback: `a`-marker, action, `a`-marker, action, … -/
theorem q_runActs (acts : List Act) : ∀ st : St,
    Q st (acts.foldl (fun st act => if st.isOk then runAct (st.emit .a) act else st) st) := by
  induction acts with
  | nil => intro st; exact Q.refl st
  | cons a rest ih =>
    intro st
    simp only [List.foldl_cons]
    refine Q.trans ?_ (ih _)
    split
    · exact (Q.of_q0 (q0_emit st _)).trans (q_runAct _ _)
    · exact Q.refl _

/-! ### `R2`: what a step does to the two queues, to liveness and to the cancel requests

    `E`: watches that are, for the moment, allowed to be allocated without being queued (a watch between its
    allocation and its insertion, or between its removal from the queue and `free`). -/

structure R2 (E : List Nat) (st st' : St) : Prop where
  h : MH st st'
  alive : st'.alive = st.alive
  creq : ∀ k ∈ st.cancelReq, k ∈ st'.cancelReq
  stayT : st'.isOk = true → ∀ x ∈ st.timers, x < st.heap.length → x ∈ st'.timers ∨ st'.live x = false ∨ x ∈ E
  stayL : st'.isOk = true → ∀ x ∈ st.laters, x < st.heap.length → x ∈ st'.laters ∨ st'.live x = false ∨ x ∈ E
  newl : st'.isOk = true → ∀ x, st.heap.length ≤ x → x < st'.heap.length → st'.live x = true →
    ((st'.getW x).type = .timer → x ∈ st'.timers ∨ x ∈ E) ∧ ((st'.getW x).type = .later → x ∈ st'.laters ∨ x ∈ E)
  gone : ∀ x, x < st'.heap.length → (x < st.heap.length → st.live x = true) → st'.live x = false →
    isOneShot (st'.getW x).type = false ∨ (st'.getW x).slot ∈ st'.cancelReq ∨ (st'.getW x).slot < 0

theorem R2.refl (E : List Nat) (st : St) : R2 E st st :=
  ⟨MH.refl st, rfl, fun _ h => h, fun _ x hx _ => Or.inl hx, fun _ x hx _ => Or.inl hx, fun _ x h1 h2 => by omega,
   fun x hx hl hd => by rw [hl hx] at hd; cases hd⟩

theorem R2.trans {E : List Nat} {a b c : St} (h1 : R2 E a b) (h2 : R2 E b c) : R2 E a c := by
  refine ⟨h1.h.trans h2.h, by rw [h2.alive, h1.alive], fun k hk => h2.creq k (h1.creq k hk), ?_, ?_, ?_, ?_⟩
  · intro hok x hx hlt
    have hltb := Nat.lt_of_lt_of_le hlt h1.h.len
    rcases h1.stayT (h2.h.ok hok) x hx hlt with h | h | h
    · exact h2.stayT hok x h hltb
    · right; left
      cases hc : c.live x with
      | false => rfl
      | true => rw [h2.h.live x hltb hc] at h; cases h
    · exact Or.inr (Or.inr h)
  · intro hok x hx hlt
    have hltb := Nat.lt_of_lt_of_le hlt h1.h.len
    rcases h1.stayL (h2.h.ok hok) x hx hlt with h | h | h
    · exact h2.stayL hok x h hltb
    · right; left
      cases hc : c.live x with
      | false => rfl
      | true => rw [h2.h.live x hltb hc] at h; cases h
    · exact Or.inr (Or.inr h)
  · intro hok x hx1 hx2 hl
    by_cases hb : x < b.heap.length
    · have hlb := h2.h.live x hb hl
      obtain ⟨n1, n2⟩ := h1.newl (h2.h.ok hok) x hx1 hb hlb
      constructor
      · intro ht
        have htb : (b.getW x).type = .timer := by
          rw [← h2.h.oneShot hb (by rw [ht]; rfl)]; exact ht
        rcases n1 htb with h | h
        · rcases h2.stayT hok x h hb with h' | h' | h'
          · exact Or.inl h'
          · rw [hl] at h'; cases h'
          · exact Or.inr h'
        · exact Or.inr h
      · intro ht
        have htb : (b.getW x).type = .later := by
          rw [← h2.h.oneShot hb (by rw [ht]; rfl)]; exact ht
        rcases n2 htb with h | h
        · rcases h2.stayL hok x h hb with h' | h' | h'
          · exact Or.inl h'
          · rw [hl] at h'; cases h'
          · exact Or.inr h'
        · exact Or.inr h
    · exact h2.newl hok x (by omega) hx2 hl
  · intro x hx hl hd
    by_cases hb : x < b.heap.length
    · cases hlb : b.live x with
      | false =>
        rcases h1.gone x hb hl hlb with h | h | h
        · exact Or.inl (h2.h.notOneShot hb h)
        · right; left; rw [h2.h.slot x hb]; exact h2.creq _ h
        · right; right; rw [h2.h.slot x hb]; exact h
      | true => exact h2.gone x hx (fun _ => hlb) hd
    · exact h2.gone x hx (fun h => absurd h hb) hd

theorem R2.mono {E E' : List Nat} {st st' : St} (h : R2 E st st') (hs : ∀ x ∈ E, x ∈ E') : R2 E' st st' :=
  ⟨h.h, h.alive, h.creq,
   fun hok x hx hl => (h.stayT hok x hx hl).imp id (Or.imp id (hs x)),
   fun hok x hx hl => (h.stayL hok x hx hl).imp id (Or.imp id (hs x)),
   fun hok x h1 h2 h3 => ⟨fun ht => ((h.newl hok x h1 h2 h3).1 ht).imp id (hs x), fun ht => ((h.newl hok x h1 h2 h3).2 ht).imp id (hs x)⟩,
   h.gone⟩

/-- The excepted watches are, at the end, freed or queued where they belong (or the history is not ok):
    nothing is excepted. -/
theorem R2.drop {E : List Nat} {st st' : St} (h : R2 E st st')
    (hE : st'.isOk = true → ∀ x ∈ E, st'.live x = false ∨
      (((st'.getW x).type = .timer → x ∈ st'.timers) ∧ ((st'.getW x).type = .later → x ∈ st'.laters) ∧
       (x ∈ st.timers → x ∈ st'.timers) ∧ (x ∈ st.laters → x ∈ st'.laters))) : R2 [] st st' := by
  refine ⟨h.h, h.alive, h.creq, ?_, ?_, ?_, h.gone⟩
  · intro hok x hx hl
    rcases h.stayT hok x hx hl with h' | h' | h'
    · exact Or.inl h'
    · exact Or.inr (Or.inl h')
    · rcases hE hok x h' with e | e
      · exact Or.inr (Or.inl e)
      · exact Or.inl (e.2.2.1 hx)
  · intro hok x hx hl
    rcases h.stayL hok x hx hl with h' | h' | h'
    · exact Or.inl h'
    · exact Or.inr (Or.inl h')
    · rcases hE hok x h' with e | e
      · exact Or.inr (Or.inl e)
      · exact Or.inl (e.2.2.2 hx)
  · intro hok x h1 h2 h3
    obtain ⟨n1, n2⟩ := h.newl hok x h1 h2 h3
    constructor
    · intro ht
      rcases n1 ht with h' | h'
      · exact Or.inl h'
      · rcases hE hok x h' with e | e
        · rw [h3] at e; cases e
        · exact Or.inl (e.1 ht)
    · intro ht
      rcases n2 ht with h' | h'
      · exact Or.inl h'
      · rcases hE hok x h' with e | e
        · rw [h3] at e; cases e
        · exact Or.inl (e.2.1 ht)

theorem R2.of_eq {E : List Nat} {st st' : St} (hh : st'.heap = st.heap) (hst : st'.status = st.status) (ha : st'.alive = st.alive)
    (hc : st'.cancelReq = st.cancelReq) (ht : st'.timers = st.timers) (hl : st'.laters = st.laters) : R2 E st st' :=
  ⟨MH.of_heap_eq hh hst, ha, fun k hk => by rw [hc]; exact hk, fun _ x hx _ => Or.inl (by rw [ht]; exact hx),
   fun _ x hx _ => Or.inl (by rw [hl]; exact hx), fun _ x h1 h2 => by rw [hh] at h2; omega,
   fun x hx hlv hd => (by
     rw [hh] at hx
     rw [live_of_heap_eq hh, hlv hx] at hd; cases hd)⟩

/-- Heap changed without allocating and without changing who is live; queues untouched. -/
theorem R2.of_mh {E : List Nat} {st st' : St} (h : MH st st') (hlen : st'.heap.length = st.heap.length)
    (hlive : ∀ x, x < st.heap.length → st.live x = true → st'.live x = true) (ha : st'.alive = st.alive)
    (hc : st'.cancelReq = st.cancelReq) (ht : st'.timers = st.timers) (hl : st'.laters = st.laters) : R2 E st st' :=
  ⟨h, ha, fun k hk => by rw [hc]; exact hk, fun _ x hx _ => Or.inl (by rw [ht]; exact hx),
   fun _ x hx _ => Or.inl (by rw [hl]; exact hx), fun _ x h1 h2 => by omega,
   fun x hx hlv hd => (by
     rw [hlen] at hx
     rw [hlive x hx (hlv hx)] at hd; cases hd)⟩

/-- A step that ends outside defined behaviour and touches neither heap nor the rest. -/
theorem R2.of_bad {E : List Nat} {st st' : St} (hh : st'.heap = st.heap) (hbad : st'.isOk = false) (ha : st'.alive = st.alive)
    (hc : st'.cancelReq = st.cancelReq) : R2 E st st' :=
  ⟨MH.of_heap_eq_bad hh hbad, ha, fun k hk => (by rw [hc]; exact hk), fun hok => (by rw [hbad] at hok; cases hok),
   fun hok => (by rw [hbad] at hok; cases hok), fun hok => (by rw [hbad] at hok; cases hok),
   fun x hx hlv hd => (by
     rw [hh] at hx
     rw [live_of_heap_eq hh, hlv hx] at hd; cases hd)⟩

/-! primitives -/

theorem r2_emit (E : List Nat) (st : St) (e : Ev) : R2 E st (st.emit e) := R2.of_eq rfl rfl rfl rfl rfl rfl
theorem r2_fail (E : List Nat) (st : St) (w : Ub) : R2 E st (st.fail w) :=
  R2.of_bad (St.heap_fail st w) (St.isOk_fail st w) (by unfold St.fail; split <;> rfl) (by unfold St.fail; split <;> rfl)

theorem live_setW_same (st : St) (a : Nat) (w : Watch) (hf : w.freed = (st.getW a).freed) (x : Nat) (hx : x < st.heap.length) :
    (st.setW a w).live x = st.live x := by
  by_cases hax : a = x
  · subst hax
    have hx' : a < (st.setW a w).heap.length := by rw [St.length_setW]; exact hx
    rw [live_eq_not_freed _ _ hx', live_eq_not_freed _ _ hx, St.getW_setW_self st a w hx, hf]
  · exact St.live_setW_ne _ _ _ _ hax

theorem r2_setEvi (E : List Nat) (st : St) (a idx : Nat) : R2 E st (st.setW a { st.getW a with evi := idx }) :=
  R2.of_mh (mh_setW st a _ rfl rfl (Or.inl rfl) (fun h => h)) (St.length_setW _ _ _)
    (fun x hx hl => by rw [live_setW_same st a { st.getW a with evi := idx } rfl x hx]; exact hl) rfl rfl rfl rfl
theorem r2_setWstatus (E : List Nat) (st : St) (a : Nat) (ws : Int) : R2 E st (st.setW a { st.getW a with wstatus := ws }) :=
  R2.of_mh (mh_setW st a _ rfl rfl (Or.inl rfl) (fun h => h)) (St.length_setW _ _ _)
    (fun x hx hl => by rw [live_setW_same st a { st.getW a with wstatus := ws } rfl x hx]; exact hl) rfl rfl rfl rfl

/-- `free(a)` of a watch that is not a timer / deferred callback, or whose cancellation was asked for. -/
theorem r2_free (E : List Nat) (st : St) (a : Nat)
    (ha : isOneShot (st.getW a).type = false ∨ (st.getW a).slot ∈ st.cancelReq ∨ (st.getW a).slot < 0) : R2 E st (st.free a) := by
  have hm := mh_free st a
  have hlen : (st.free a).heap.length = st.heap.length := by
    unfold St.free; split
    · exact St.length_setW _ _ _
    · rw [St.heap_fail]
  have hal : (st.free a).alive = st.alive := by unfold St.free; split <;> first | rfl | (unfold St.fail; split <;> rfl)
  have hcr : (st.free a).cancelReq = st.cancelReq := by unfold St.free; split <;> first | rfl | (unfold St.fail; split <;> rfl)
  have hti : (st.free a).timers = st.timers := lists_free st a .timer
  have hla : (st.free a).laters = st.laters := lists_free st a .later
  refine ⟨hm, hal, fun k hk => by rw [hcr]; exact hk, fun _ x hx _ => Or.inl (by rw [hti]; exact hx),
    fun _ x hx _ => Or.inl (by rw [hla]; exact hx), fun _ x h1 h2 => by omega, ?_⟩
  intro x hx hlv hd
  rw [hlen] at hx
  by_cases hax : a = x
  · subst hax
    rcases ha with h | h | h
    · exact Or.inl (hm.notOneShot hx h)
    · right; left; rw [hm.slot a hx, hcr]; exact h
    · right; right; rw [hm.slot a hx]; exact h
  · rw [St.live_free_ne _ _ _ hax, hlv hx] at hd; cases hd

theorem r2_with_iow (E : List Nat) (st : St) (l : List Nat) : R2 E st { st with iow := l } := R2.of_eq rfl rfl rfl rfl rfl rfl
theorem r2_with_signals (E : List Nat) (st : St) (l : List Nat) : R2 E st { st with signals := l } := R2.of_eq rfl rfl rfl rfl rfl rfl
theorem r2_with_procs (E : List Nat) (st : St) (l : List Nat) : R2 E st { st with procs := l } := R2.of_eq rfl rfl rfl rfl rfl rfl
theorem r2_with_errno (E : List Nat) (st : St) (v : Int) : R2 E st { st with errno := v } := R2.of_eq rfl rfl rfl rfl rfl rfl
theorem r2_with_children (E : List Nat) (st : St) (l : List Proc) : R2 E st { st with children := l } := R2.of_eq rfl rfl rfl rfl rfl rfl
theorem r2_with_stillRunning (E : List Nat) (st : St) (b : Bool) : R2 E st { st with stillRunning := b } := R2.of_eq rfl rfl rfl rfl rfl rfl
theorem r2_with_pendingSig (E : List Nat) (st : St) (l : List Int) : R2 E st { st with pendingSig := l } := R2.of_eq rfl rfl rfl rfl rfl rfl
theorem r2_with_inpoll (E : List Nat) (st : St) (l : List Int) : R2 E st { st with inpoll := l } := R2.of_eq rfl rfl rfl rfl rfl rfl
theorem r2_with_inRun (E : List Nat) (st : St) (b : Bool) : R2 E st { st with inRun := b } := R2.of_eq rfl rfl rfl rfl rfl rfl
theorem r2_with_bad_status (E : List Nat) (st : St) (x : Status) (hx : x ≠ .ok) : R2 E st { st with status := x } :=
  R2.of_bad rfl (by show (x == Status.ok) = false; cases x <;> first | exact absurd rfl hx | rfl) rfl rfl

/-- Replacing a queue by one that keeps every member (or only drops excepted ones). -/
theorem r2_with_timers (E : List Nat) (st : St) (l : List Nat) (hs : ∀ x ∈ st.timers, x ∈ l ∨ x ∈ E) : R2 E st { st with timers := l } :=
  ⟨MH.of_heap_eq rfl rfl, rfl, fun _ h => h, fun _ x hx _ => (hs x hx).imp id Or.inr, fun _ x hx _ => Or.inl hx,
   fun _ x h1 h2 => by have : ({ st with timers := l } : St).heap.length = st.heap.length := rfl; omega,
   fun x hx hlv hd => (by
     have e : ({ st with timers := l } : St).live x = st.live x := rfl
     rw [e, hlv hx] at hd; cases hd)⟩
theorem r2_with_laters (E : List Nat) (st : St) (l : List Nat) (hs : ∀ x ∈ st.laters, x ∈ l ∨ x ∈ E) : R2 E st { st with laters := l } :=
  ⟨MH.of_heap_eq rfl rfl, rfl, fun _ h => h, fun _ x hx _ => Or.inl hx, fun _ x hx _ => (hs x hx).imp id Or.inr,
   fun _ x h1 h2 => by have : ({ st with laters := l } : St).heap.length = st.heap.length := rfl; omega,
   fun x hx hlv hd => (by
     have e : ({ st with laters := l } : St).live x = st.live x := rfl
     rw [e, hlv hx] at hd; cases hd)⟩

/-- `setListOf` with `a` erased from its list: `a` is excepted. -/
theorem r2_setListOf_erase (st : St) (t : WType) (a : Nat) : R2 [a] st (setListOf st t ((listOf st t).erase a)) := by
  have hmem : ∀ (l : List Nat) x, x ∈ l → x ∈ l.erase a ∨ x ∈ [a] := by
    intro l x hx
    by_cases e : x = a
    · exact Or.inr (by simp [e])
    · exact Or.inl ((List.mem_erase_of_ne e).mpr hx)
  cases t with
  | timer => exact r2_with_timers [a] st _ (hmem st.timers)
  | later => exact r2_with_laters [a] st _ (hmem st.laters)
  | io => exact R2.of_eq rfl rfl rfl rfl rfl rfl
  | signal => exact R2.of_eq rfl rfl rfl rfl rfl rfl
  | process => exact R2.of_eq rfl rfl rfl rfl rfl rfl
  | none => exact R2.refl _ _

theorem r2_raiseSig (E : List Nat) (st : St) (s : Int) : R2 E st (raiseSig st s) := by
  unfold raiseSig
  split
  · exact R2.refl _ st
  · split
    · exact R2.of_eq rfl rfl rfl rfl rfl rfl
    · split
      · unfold sigRecord; split <;> first | exact R2.of_eq rfl rfl rfl rfl rfl rfl | exact R2.refl _ _
      · split
        · exact r2_with_bad_status E st _ (by intro h; cases h)
        · exact R2.refl _ st

theorem r2_evloopSignal (E : List Nat) (st : St) (s : Int) : R2 E st (evloopSignal st s).1 := by
  unfold evloopSignal
  simp only []
  split <;> exact R2.of_eq rfl rfl rfl rfl rfl rfl

theorem r2_evloopCancelSignal (E : List Nat) (st : St) (idx : Nat) : R2 E st (evloopCancelSignal st idx) := by
  unfold evloopCancelSignal
  simp only []
  split
  · exact R2.of_eq rfl rfl rfl rfl rfl rfl
  · split
    · split
      · exact R2.of_bad rfl rfl rfl rfl
      · exact R2.of_eq rfl rfl rfl rfl rfl rfl
    · exact R2.of_eq rfl rfl rfl rfl rfl rfl

theorem r2_insertWatch (E : List Nat) (st : St) (l : List Nat) (flags new : Nat) : R2 E st (insertWatch st l flags new).1 := by
  unfold insertWatch
  split
  · exact R2.refl _ st
  · split
    · exact R2.refl _ st
    · exact r2_fail E st _

theorem r2_notify (E : List Nat) (st : St) (a flags : Nat) : R2 E st (notify st a flags) := by
  unfold notify
  simp only []
  split
  · exact r2_emit E st _
  · exact R2.refl _ st

theorem r2_waitpid (E : List Nat) (st : St) (pid : Int) : R2 E st (waitpid st pid).st := by
  unfold waitpid
  split
  · split
    · exact R2.of_eq rfl rfl rfl rfl rfl rfl
    · split <;> exact R2.of_eq rfl rfl rfl rfl rfl rfl
  · exact R2.refl _ st

theorem r2_waitpidV (E : List Nat) (st : St) (pid : Int) : R2 E st (waitpidV st pid).st := by
  unfold waitpidV
  split
  · exact r2_waitpid _ _ _
  · exact R2.refl _ _

theorem r2_evloopCancelIo (E : List Nat) (st : St) (idx : Nat) : R2 E st (evloopCancelIo st idx) := R2.of_eq rfl rfl rfl rfl rfl rfl

theorem r2_evloopIo (E : List Nat) (st : St) (fd : Int) (cond : Nat) (w : Nat) : R2 E st (evloopIo st fd cond w).1 := by
  unfold evloopIo
  split <;> exact R2.of_eq rfl rfl rfl rfl rfl rfl

theorem r2_cancelHook (E : List Nat) (st : St) (t : WType) (evi : Nat) : R2 E st (cancelHook st t evi) := by
  unfold cancelHook
  split
  · exact r2_evloopCancelIo _ _ _
  · exact r2_evloopCancelSignal _ _ _
  · exact R2.refl _ _

theorem r2_cancelNotify (E : List Nat) (st : St) (a : Nat) (w : Watch) : R2 E st (cancelNotify st a w) := by
  unfold cancelNotify
  split
  · exact r2_notify _ _ _ _
  · exact R2.refl _ _

theorem r2_cancelRest (E : List Nat) (st : St) (rest : List Nat) : R2 E st (cancelRest st rest) := by
  unfold cancelRest
  split
  · exact R2.refl _ _
  · split
    · exact r2_fail _ _ _
    · exact R2.refl _ _

theorem cancelReq_notify (st : St) (a flags : Nat) : (notify st a flags).cancelReq = st.cancelReq := by
  unfold notify; simp only []; split <;> rfl
theorem cancelReq_cancelNotify (st : St) (a : Nat) (w : Watch) : (cancelNotify st a w).cancelReq = st.cancelReq := by
  unfold cancelNotify; split
  · exact cancelReq_notify _ _ _
  · rfl
theorem cancelReq_cancelHook (st : St) (t : WType) (evi : Nat) : (cancelHook st t evi).cancelReq = st.cancelReq := by
  unfold cancelHook
  split
  · rfl
  · unfold evloopCancelSignal
    simp only []
    split
    · rfl
    · split
      · split <;> rfl
      · rfl
  · rfl
theorem cancelReq_setListOf (st : St) (t : WType) (l : List Nat) : (setListOf st t l).cancelReq = st.cancelReq := by cases t <;> rfl
theorem heap_cancelNotify (st : St) (a : Nat) (w : Watch) : (cancelNotify st a w).heap = st.heap := by
  unfold cancelNotify; split
  · exact heap_notify _ _ _
  · rfl

/-- After `free(a)` in a history that is still ok, `a` is not live. -/
theorem dead_after_free (st : St) (a : Nat) (h : (st.free a).isOk = true) : (st.free a).live a = false := by
  cases hl : st.live a with
  | true => exact St.live_free_self st a hl
  | false =>
    unfold St.free at h
    rw [if_neg (by rw [hl]; simp)] at h
    rw [St.isOk_fail] at h; cases h

theorem live_cancelRest (st : St) (rest : List Nat) (x : Nat) : (cancelRest st rest).live x = st.live x := by
  unfold cancelRest
  split
  · rfl
  · split
    · exact St.live_fail _ _ _
    · rfl

theorem isOk_cancelRest (st : St) (rest : List Nat) (h : (cancelRest st rest).isOk = true) : st.isOk = true :=
  (r2_cancelRest [] st rest).h.ok h

/-- `tickit_watch_cancel` once the watch has been found (`w`, `l` as `watchCancel` passes them). -/
theorem r2_cancelFound (st : St) (a : Nat)
    (ha : isOneShot (st.getW a).type = false ∨ (st.getW a).slot ∈ st.cancelReq ∨ (st.getW a).slot < 0) :
    R2 [] st (cancelFound st a (st.getW a) (listOf st (st.getW a).type)) := by
  unfold cancelFound
  have h1 := r2_setListOf_erase st (st.getW a).type a
  have h2 := r2_cancelNotify [a] (setListOf st (st.getW a).type ((listOf st (st.getW a).type).erase a)) a (st.getW a)
  have h3 := r2_cancelHook [a] (cancelNotify (setListOf st (st.getW a).type ((listOf st (st.getW a).type).erase a)) a (st.getW a))
    (st.getW a).type (st.getW a).evi
  have hheap : (cancelHook (cancelNotify (setListOf st (st.getW a).type ((listOf st (st.getW a).type).erase a)) a (st.getW a))
      (st.getW a).type (st.getW a).evi).heap = st.heap := by
    rw [heap_cancelHook, heap_cancelNotify, heap_setListOf]
  have hcr : (cancelHook (cancelNotify (setListOf st (st.getW a).type ((listOf st (st.getW a).type).erase a)) a (st.getW a))
      (st.getW a).type (st.getW a).evi).cancelReq = st.cancelReq := by
    rw [cancelReq_cancelHook, cancelReq_cancelNotify, cancelReq_setListOf]
  generalize (cancelHook (cancelNotify (setListOf st (st.getW a).type ((listOf st (st.getW a).type).erase a)) a (st.getW a))
      (st.getW a).type (st.getW a).evi) = s3 at *
  have h4 := r2_free [a] s3 a (by rw [getW_of_heap_eq hheap, hcr]; exact ha)
  have h5 := r2_cancelRest [a] (s3.free a) (((listOf st (st.getW a).type).dropWhile (· ≠ a)).drop 1)
  refine ((((h1.trans h2).trans h3).trans h4).trans h5).drop ?_
  intro hok x hx
  simp only [List.mem_singleton] at hx
  subst hx
  left
  rw [live_cancelRest]
  exact dead_after_free s3 x (isOk_cancelRest _ _ hok)

/-- Overwriting a watch without touching `freed`: nobody becomes live or dead. -/
theorem r2_setW_keep (E : List Nat) (st : St) (a : Nat) (w : Watch) (h1 : w.slot = (st.getW a).slot) (h2 : w.puser = (st.getW a).puser)
    (h3 : w.type = (st.getW a).type ∨ w.type = .none) (h4 : w.freed = (st.getW a).freed) : R2 E st (st.setW a w) :=
  R2.of_mh (mh_setW st a w h1 h2 h3 (fun h => by rw [← h4]; exact h)) (St.length_setW _ _ _)
    (fun x hx hl => by rw [live_setW_same st a w h4 x hx]; exact hl) rfl rfl rfl rfl

theorem r2_cancelDetached (E : List Nat) (st : St) (a : Nat) : R2 E st (cancelDetached st a) := by
  unfold cancelDetached
  exact (r2_cancelNotify E st a _).trans (r2_setW_keep E _ a _ rfl rfl (Or.inr rfl) rfl)

theorem r2_laterPre (E : List Nat) (st : St) (a : Nat) : R2 E st (laterPre st a) := by
  unfold laterPre
  split
  · exact r2_setW_keep E _ a _ rfl rfl (Or.inl rfl) rfl
  · exact R2.refl _ _

theorem r2_watchCancel0 (E : List Nat) (st : St) (a : Nat)
    (ha : isOneShot (st.getW a).type = false ∨ (st.getW a).slot ∈ st.cancelReq ∨ (st.getW a).slot < 0) : R2 E st (watchCancel0 st a) := by
  unfold watchCancel0
  split
  · exact R2.refl _ st
  · split
    · exact r2_fail _ _ _
    · split
      · exact R2.refl _ st
      · split
        · exact r2_fail _ _ _
        · split
          · split
            · exact r2_cancelDetached E st a
            · exact R2.refl _ st
          · exact (r2_cancelFound st a ha).mono (fun x hx => by cases hx)

/-- `tickit_watch_cancel`: the watch itself, and — repaired, for a process watch whose child had already exited —
    the internal deferred callback `process.notify` points at. -/
theorem r2_watchCancel (E : List Nat) (st : St) (a : Nat)
    (ha : isOneShot (st.getW a).type = false ∨ (st.getW a).slot ∈ st.cancelReq ∨ (st.getW a).slot < 0)
    (hn : ∀ l, (st.getW a).notify = some l → l < st.heap.length ∧ (st.getW l).slot < 0) : R2 E st (watchCancel st a) := by
  unfold watchCancel
  split
  · split
    · rename_i l hl
      have h1 := r2_watchCancel0 E st a ha
      obtain ⟨n1, n2⟩ := hn l hl
      exact h1.trans (r2_watchCancel0 E _ l (Or.inr (Or.inr (by rw [h1.h.slot l n1]; exact n2))))
    · exact r2_watchCancel0 E st a ha
  · exact r2_watchCancel0 E st a ha

/-- `watch->type = WATCH_NONE; free(watch);` — the freed watch has no type any more. -/
theorem r2_setNoneFree (E : List Nat) (st : St) (a : Nat) : R2 E st ((st.setW a { st.getW a with type := .none }).free a) := by
  have q := q0_setNoneFree st a
  have hlen : ((st.setW a { st.getW a with type := .none }).free a).heap.length = st.heap.length := by
    unfold St.free; split
    · rw [St.length_setW, St.length_setW]
    · rw [St.heap_fail, St.length_setW]
  have hal : ((st.setW a { st.getW a with type := .none }).free a).alive = st.alive := by
    unfold St.free; split <;> first | rfl | (unfold St.fail; split <;> rfl)
  have hcr : ((st.setW a { st.getW a with type := .none }).free a).cancelReq = st.cancelReq := by
    unfold St.free; split <;> first | rfl | (unfold St.fail; split <;> rfl)
  have hti : ((st.setW a { st.getW a with type := .none }).free a).timers = st.timers := by rw [lists_free_timers]; rfl
  have hla : ((st.setW a { st.getW a with type := .none }).free a).laters = st.laters := by
    have := lists_free (st.setW a { st.getW a with type := .none }) a .later
    exact this
  refine ⟨q.b.h, hal, fun k hk => by rw [hcr]; exact hk, fun _ x hx _ => Or.inl (by rw [hti]; exact hx),
    fun _ x hx _ => Or.inl (by rw [hla]; exact hx), fun _ x h1 h2 => by omega, ?_⟩
  intro x hx hlv hd
  rw [hlen] at hx
  by_cases hax : a = x
  · subst hax
    left
    have : (((st.setW a { st.getW a with type := .none }).free a).getW a).type = .none := by
      have hs : ((st.setW a { st.getW a with type := .none }).getW a).type = .none := by
        rw [St.getW_setW_self st a _ hx]
      have hm := (mh_free (st.setW a { st.getW a with type := .none }) a).typ a (by rw [St.length_setW]; exact hx)
      rcases hm with e | e
      · rw [e, hs]
      · exact e
    rw [this]; rfl
  · rw [St.live_free_ne _ _ _ hax, St.live_setW_ne _ _ _ _ hax, hlv hx] at hd; cases hd

theorem r2_unlinkOneshot (E : List Nat) (st : St) (a : Nat) : R2 E st (unlinkOneshot st a) := by
  unfold unlinkOneshot
  split
  · exact r2_fail _ _ _
  · split
    · exact R2.refl _ _
    · split
      · exact r2_fail _ _ _
      · split
        · exact R2.refl _ _
        · have h1 := r2_setListOf_erase st (st.getW a).type a
          have h2 := r2_setNoneFree [a] (setListOf st (st.getW a).type ((listOf st (st.getW a).type).erase a)) a
          rw [getW_setListOf] at h2
          refine ((h1.trans h2).drop ?_).mono (fun x hx => by cases hx)
          intro hok x hx
          simp only [List.mem_singleton] at hx
          subst hx
          exact Or.inl (dead_after_free _ x hok)

theorem r2_unlinkOneshotSaved (E : List Nat) (st : St) (a : Nat) (t : WType) : R2 E st (unlinkOneshotSaved st a t) := by
  unfold unlinkOneshotSaved
  split
  · exact R2.refl _ _
  · split
    · exact r2_fail _ _ _
    · split
      · exact R2.refl _ _
      · have h1 := r2_setListOf_erase st t a
        have h2 := r2_setNoneFree [a] (setListOf st t ((listOf st t).erase a)) a
        rw [getW_setListOf] at h2
        refine ((h1.trans h2).drop ?_).mono (fun x hx => by cases hx)
        intro hok x hx
        simp only [List.mem_singleton] at hx
        subst hx
        exact Or.inl (dead_after_free _ x hok)

/-! constructors: the new watch is excepted until it is linked -/

theorem r2_alloc (st : St) (w : Watch) (hw : w.freed = false) : R2 [st.heap.length] st (st.alloc w).1 := by
  have hlen := alloc_len st w
  refine ⟨mh_alloc st w, rfl, fun _ h => h, fun _ x hx _ => Or.inl hx, fun _ x hx _ => Or.inl hx, ?_, ?_⟩
  · intro _ x h1 h2 _
    rw [hlen] at h2
    have : x = st.heap.length := by omega
    subst this
    exact ⟨fun _ => Or.inr (by simp), fun _ => Or.inr (by simp)⟩
  · intro x hx hlv hd
    rw [hlen] at hx
    by_cases e : x < st.heap.length
    · rw [live_alloc_old st w x e, hlv e] at hd; cases hd
    · have : x = st.heap.length := by omega
      subst this
      rw [live_alloc_new st w hw] at hd; cases hd

/-- An allocated watch that is not a timer / deferred callback needs no exception. -/
theorem R2.drop_other {st st' : St} {a : Nat} (h : R2 [a] st st') (ha : a < st'.heap.length)
    (ht : isOneShot (st'.getW a).type = false) (hn1 : a ∉ st.timers) (hn2 : a ∉ st.laters) : R2 [] st st' := by
  refine h.drop ?_
  intro _ x hx
  simp only [List.mem_singleton] at hx
  subst hx
  right
  refine ⟨fun e => ?_, fun e => ?_, fun e => absurd e hn1, fun e => absurd e hn2⟩
  · rw [e] at ht; cases ht
  · rw [e] at ht; cases ht

theorem r2_watchTimerAt (st : St) (due : TV) (flags : Nat) (slot : Int) : R2 [] st (watchTimerAt st due flags slot).1 := by
  unfold watchTimerAt
  simp only []
  have hA := r2_alloc st { type := .timer, flags := flags &&& (BIND_UNBIND ||| BIND_DESTROY), slot := slot, due := due } rfl
  have hgw := getW_alloc_new st { type := .timer, flags := flags &&& (BIND_UNBIND ||| BIND_DESTROY), slot := slot, due := due }
  have hlat : (st.alloc { type := .timer, flags := flags &&& (BIND_UNBIND ||| BIND_DESTROY), slot := slot, due := due }).1.laters = st.laters := rfl
  generalize (st.alloc { type := .timer, flags := flags &&& (BIND_UNBIND ||| BIND_DESTROY), slot := slot, due := due }).1 = s1 at *
  split
  · rename_i l hl
    have hmem := insTimer_mem s1 _ due _ l hl
    refine (hA.trans (r2_with_timers _ s1 l (fun x hx => Or.inl ((hmem x).mpr (Or.inr hx))))).drop ?_
    intro _ x hx
    simp only [List.mem_singleton] at hx
    subst hx
    right
    refine ⟨fun _ => (hmem _).mpr (Or.inl rfl), fun e => ?_, fun _ => (hmem _).mpr (Or.inl rfl), fun e => ?_⟩
    · have : (({ s1 with timers := l } : St).getW st.heap.length).type = .timer := by
        show (s1.getW st.heap.length).type = .timer; rw [hgw]
      rw [this] at e; cases e
    · show st.heap.length ∈ s1.laters; rw [hlat]; exact e
  · refine (hA.trans (r2_fail _ _ _)).drop ?_
    intro hok; rw [St.isOk_fail] at hok; cases hok

theorem r2_watchTimerAfterMsec (st : St) (msec : Int) (flags : Nat) (slot : Int) : R2 [] st (watchTimerAfterMsec st msec flags slot).1 := by
  unfold watchTimerAfterMsec
  exact (r2_emit [] st _).trans (r2_watchTimerAt _ _ _ _)

theorem r2_watchLater (st : St) (flags : Nat) (slot : Int) (puser : Nat) : R2 [] st (watchLater st flags slot puser).1 := by
  unfold watchLater
  simp only []
  have hA := r2_alloc st { type := .later, flags := flags &&& (BIND_UNBIND ||| BIND_DESTROY), slot := slot, puser := puser } rfl
  have hgw := getW_alloc_new st { type := .later, flags := flags &&& (BIND_UNBIND ||| BIND_DESTROY), slot := slot, puser := puser }
  have htim : (st.alloc { type := .later, flags := flags &&& (BIND_UNBIND ||| BIND_DESTROY), slot := slot, puser := puser }).1.timers = st.timers := rfl
  generalize (st.alloc { type := .later, flags := flags &&& (BIND_UNBIND ||| BIND_DESTROY), slot := slot, puser := puser }).1 = s1 at *
  have hI := r2_insertWatch [st.heap.length] s1 s1.laters flags st.heap.length
  have hheap := heap_insertWatch s1 s1.laters flags st.heap.length
  have hsub : ∀ x ∈ (insertWatch s1 s1.laters flags st.heap.length).1.laters, x ∈ (insertWatch s1 s1.laters flags st.heap.length).2 ∨ x ∈ [st.heap.length] := by
    intro x hx
    have hx' : x ∈ s1.laters := by
      have : (insertWatch s1 s1.laters flags st.heap.length).1.laters = s1.laters := by
        unfold insertWatch; split
        · rfl
        · split
          · rfl
          · unfold St.fail; split <;> rfl
      rw [this] at hx; exact hx
    rcases snd_insertWatch s1 s1.laters flags st.heap.length with e | e | e <;> rw [e]
    · exact Or.inl (List.mem_cons_of_mem _ hx')
    · exact Or.inl (List.mem_append_left _ hx')
    · exact Or.inl hx'
  refine ((hA.trans hI).trans (r2_with_laters _ _ _ hsub)).drop ?_
  intro hok x hx
  simp only [List.mem_singleton] at hx
  subst hx
  right
  -- in an ok history the new watch has been linked
  have hin : st.heap.length ∈ (insertWatch s1 s1.laters flags st.heap.length).2 := by
    unfold insertWatch at hok ⊢
    split
    · exact List.mem_cons_self
    · split
      · simp
      · rename_i h1 h2
        rw [if_neg h1, if_neg h2] at hok
        have : (({ s1.fail Ub.insertWalk with laters := s1.laters } : St)).isOk = (s1.fail Ub.insertWalk).isOk := rfl
        rw [this, St.isOk_fail] at hok; cases hok
  refine ⟨fun e => ?_, fun _ => hin, fun e => ?_, fun _ => hin⟩
  · have : (({ (insertWatch s1 s1.laters flags st.heap.length).1 with laters := (insertWatch s1 s1.laters flags st.heap.length).2 } : St).getW st.heap.length).type = .later := by
      show ((insertWatch s1 s1.laters flags st.heap.length).1.getW st.heap.length).type = .later
      rw [getW_of_heap_eq hheap, hgw]
    rw [this] at e; cases e
  · -- the new address is not in the old timer queue … but if it were, the queue is untouched
    have : (({ (insertWatch s1 s1.laters flags st.heap.length).1 with laters := (insertWatch s1 s1.laters flags st.heap.length).2 } : St)).timers = st.timers := by
      show (insertWatch s1 s1.laters flags st.heap.length).1.timers = st.timers
      have h1 : (insertWatch s1 s1.laters flags st.heap.length).1.timers = s1.timers := by
        unfold insertWatch; split
        · rfl
        · split
          · rfl
          · exact St.timers_fail _ _
      rw [h1, htim]
    rw [this]; exact e

theorem r2_alloc_other (E : List Nat) (st : St) (w : Watch) (hw : w.freed = false) (ht : isOneShot w.type = false) :
    R2 E st (st.alloc w).1 := by
  have hlen := alloc_len st w
  refine ⟨mh_alloc st w, rfl, fun _ h => h, fun _ x hx _ => Or.inl hx, fun _ x hx _ => Or.inl hx, ?_, ?_⟩
  · intro _ x h1 h2 _
    rw [hlen] at h2
    have : x = st.heap.length := by omega
    subst this
    rw [getW_alloc_new]
    exact ⟨fun e => (by rw [e] at ht; cases ht), fun e => (by rw [e] at ht; cases ht)⟩
  · intro x hx hlv hd
    rw [hlen] at hx
    by_cases e : x < st.heap.length
    · rw [live_alloc_old st w x e, hlv e] at hd; cases hd
    · have : x = st.heap.length := by omega
      subst this
      rw [live_alloc_new st w hw] at hd; cases hd

theorem r2_watchIo (E : List Nat) (st : St) (fd : Int) (cond flags : Nat) (slot : Int) : R2 E st (watchIo st fd cond flags slot).1 := by
  unfold watchIo
  simp only []
  exact ((((r2_alloc_other E st _ rfl rfl).trans (r2_evloopIo _ _ _ _ _)).trans (r2_setEvi _ _ _ _)).trans (r2_insertWatch _ _ _ _ _)).trans
    (r2_with_iow _ _ _)

theorem r2_watchSignalPre (E : List Nat) (st : St) (signum : Int) (flags : Nat) (slot : Int) :
    R2 E st (watchSignalPre st signum flags slot) := by
  unfold watchSignalPre
  exact ((r2_alloc_other E st { type := .signal, flags := flags &&& (BIND_UNBIND ||| BIND_DESTROY), slot := slot, signum := signum } rfl rfl).trans
    (r2_evloopSignal _ _ _)).trans (r2_setEvi _ _ _ _)

theorem r2_watchSignal (E : List Nat) (st : St) (signum : Int) (flags : Nat) (slot : Int) :
    R2 E st (watchSignal st signum flags slot).1 := by
  unfold watchSignal
  exact ((r2_watchSignalPre E st signum flags slot).trans (r2_insertWatch _ _ _ _ _)).trans (r2_with_signals _ _ _)

theorem r2_ensureSigchld (E : List Nat) (st : St) : R2 E st (ensureSigchld st) := by
  unfold ensureSigchld
  split
  · exact R2.refl _ _
  · exact (r2_watchSignal E st SIGCHLD 0 (-3)).trans
      (R2.of_eq rfl rfl rfl rfl rfl rfl : R2 E (watchSignal st SIGCHLD 0 (-3)).1
        { (watchSignal st SIGCHLD 0 (-3)).1 with sigchldwatch := some (watchSignal st SIGCHLD 0 (-3)).2 })

theorem r2_setNotify (E : List Nat) (st : St) (a : Nat) (n : Option Nat) : R2 E st (setNotify st a n) := by
  unfold setNotify
  exact r2_setW_keep E st a { st.getW a with notify := n } rfl rfl (Or.inl rfl) rfl

theorem r2_linkNotified (E : List Nat) (r : St × Nat) (a : Nat) (flags : Nat) : R2 E r.1 (linkNotified r a flags) := by
  unfold linkNotified
  exact ((r2_setNotify E r.1 a (some r.2)).trans (r2_insertWatch _ _ _ _ _)).trans (r2_with_procs _ _ _)

theorem r2_clearNotify (E : List Nat) (st : St) (a : Nat) : R2 E st (clearNotify st a) := by
  unfold clearNotify
  split
  · exact r2_setNotify E st a none
  · exact R2.refl _ _

theorem r2_linkProcess (st : St) (a : Nat) (pid : Int) (flags : Nat) : R2 [] st (linkProcess st a pid flags) := by
  unfold linkProcess
  simp only []
  split
  · split
    · exact (((r2_waitpid [] st pid).trans (r2_setWstatus [] (waitpid st pid).st a (waitpid st pid).wstatus)).trans
        (r2_watchLater _ 0 (-4) a)).trans (r2_linkNotified [] _ a flags)
    · exact ((r2_waitpid [] st pid).trans (r2_setWstatus _ _ _ _)).trans (r2_watchLater _ _ _ _)
  · exact ((r2_waitpid [] st pid).trans (r2_insertWatch _ _ _ _ _)).trans (r2_with_procs _ _ _)

theorem r2_watchProcess (st : St) (pid : Int) (flags : Nat) (slot : Int) : R2 [] st (watchProcess st pid flags slot).1 := by
  unfold watchProcess
  exact ((r2_alloc_other [] st { type := .process, flags := flags &&& (BIND_UNBIND ||| BIND_DESTROY), slot := slot, pid := pid } rfl rfl).trans
    (r2_ensureSigchld _ _)).trans (r2_linkProcess _ _ _ _)

theorem r2_doRegister (st : St) (k : Int) (reg : St → St × Nat) (hreg : ∀ s, R2 [] s (reg s).1) : R2 [] st (doRegister st k reg) := by
  unfold doRegister
  split
  · exact r2_emit _ _ _
  · split
    · exact r2_emit _ _ _
    · exact (hreg st).trans (R2.of_eq rfl rfl rfl rfl rfl rfl)

/-! ### the invariants -/

/-- The harness's table and the watches: every watch with a slot number has its record, slot numbers are not
    shared, a record's handle is the watch with its number; and the watches the loop keeps pointers to for
    `invoke_watch` (poll slots, the process watch of `process_notify`) are not timers / deferred callbacks. -/
structure K (st : St) : Prop where
  s1 : ∀ a, a < st.heap.length → (st.getW a).slot ≥ 0 → ∃ r ∈ st.slots, r.k = (st.getW a).slot ∧ r.handle = a
  s2 : (st.slots.map (·.k)).Nodup
  s3 : ∀ r ∈ st.slots, r.handle < st.heap.length ∧ (st.getW r.handle).slot = r.k
  p1 : ∀ s ∈ st.pfd, ∀ a, s.watch = some a → a < st.heap.length ∧ isOneShot (st.getW a).type = false
  p2 : ∀ l, l < st.heap.length → (st.getW l).slot = -4 →
    (st.getW l).puser < st.heap.length ∧ isOneShot (st.getW (st.getW l).puser).type = false
  s4 : ∀ r ∈ st.slots, 0 ≤ r.k
  /-- `process.notify` points at an internal watch -/
  p3 : ∀ x, x < st.heap.length → ∀ l, (st.getW x).notify = some l → l < st.heap.length ∧ (st.getW l).slot < 0

/-- Exactly once, as a count: the record of a timer / deferred callback says at most one invocation, none
    while the watch is allocated — except for the watch `c` whose callback is running, which says one. -/
def Once (c : Option Nat) (st : St) : Prop :=
  ∀ r ∈ st.slots, isOneShot (st.getW r.handle).type = true →
    r.fires ≤ 1 ∧ (st.isOk = true → st.live r.handle = true → some r.handle ≠ c → r.fires = 0) ∧ (some r.handle = c → r.fires = 1)

theorem K.of_q {st st' : St} (q : Q st st') (k : K st) : K st' := by
  obtain ⟨ns, e, f⟩ := q.slots
  refine { s1 := ?_, s2 := q.keys k.s2, s3 := ?_, p1 := ?_, p2 := ?_, s4 := ?_, p3 := ?_ }
  · intro a ha hs
    by_cases hold : a < st.heap.length
    · rw [q.b.h.slot a hold] at hs ⊢
      obtain ⟨r, hr, h1, h2⟩ := k.s1 a hold hs
      exact ⟨r, by rw [e]; exact List.mem_append_left _ hr, h1, h2⟩
    · exact q.newc a (by omega) ha hs
  · intro r hr
    rw [e] at hr
    simp only [List.mem_append] at hr
    cases hr with
    | inl hr =>
      obtain ⟨h1, h2⟩ := k.s3 r hr
      exact ⟨Nat.lt_of_lt_of_le h1 q.b.h.len, by rw [q.b.h.slot _ h1]; exact h2⟩
    | inr hr => exact ⟨(f r hr).2.2.1, (f r hr).2.2.2.1⟩
  · intro s hs a ha
    cases q.b.pfd s hs a ha with
    | inl h =>
      obtain ⟨s0, hs0, h0⟩ := h
      obtain ⟨h1, h2⟩ := k.p1 s0 hs0 a h0
      exact ⟨Nat.lt_of_lt_of_le h1 q.b.h.len, q.b.h.notOneShot h1 h2⟩
    | inr h => exact h
  · intro l hl hs
    by_cases hold : l < st.heap.length
    · rw [q.b.h.slot l hold] at hs
      obtain ⟨h1, h2⟩ := k.p2 l hold hs
      rw [q.b.h.puser l hold]
      exact ⟨Nat.lt_of_lt_of_le h1 q.b.h.len, q.b.h.notOneShot h1 h2⟩
    · exact q.b.pus l (by omega) hl hs
  · intro r hr
    rw [e] at hr
    simp only [List.mem_append] at hr
    cases hr with
    | inl hr => exact k.s4 r hr
    | inr hr => exact (f r hr).2.2.2.2
  · intro x hx l hl
    rcases q.b.pno x hx l hl with e' | e'
    · obtain ⟨h1, h2⟩ := k.p3 x e'.1 l e'.2
      exact ⟨Nat.lt_of_lt_of_le h1 q.b.h.len, by rw [q.b.h.slot l h1]; exact h2⟩
    · exact e'

theorem Once.of_q {st st' : St} {c : Option Nat} (q : Q st st') (k : K st) (hc : ∀ x, c = some x → x < st.heap.length)
    (o : Once c st) : Once c st' := by
  obtain ⟨ns, e, f⟩ := q.slots
  intro r hr ho
  rw [e] at hr
  simp only [List.mem_append] at hr
  cases hr with
  | inl hr =>
    obtain ⟨h1, _⟩ := k.s3 r hr
    have hty := q.b.h.oneShot h1 ho
    obtain ⟨o1, o2, o3⟩ := o r hr (by rw [← hty]; exact ho)
    exact ⟨o1, fun hok hl hc => o2 (q.b.h.ok hok) (q.b.h.live _ h1 hl) hc, o3⟩
  | inr hr =>
    obtain ⟨h1, h2, _, _, _⟩ := f r hr
    refine ⟨by omega, fun _ _ _ => h1, fun hcc => ?_⟩
    have := hc r.handle hcc.symm
    omega

theorem Once.none_of_q {st st' : St} (q : Q st st') (k : K st) (o : Once none st) : Once none st' :=
  Once.of_q q k (fun _ h => by cases h) o

/-- The running watch has been freed: its record says one invocation, for good. -/
theorem Once.release {st : St} {c : Nat} (o : Once (some c) st) (h : st.live c = false) : Once none st := by
  intro r hr ho
  obtain ⟨o1, o2, o3⟩ := o r hr ho
  refine ⟨o1, fun hok hl _ => ?_, fun e => by cases e⟩
  by_cases e : r.handle = c
  · rw [e, h] at hl; cases hl
  · exact o2 hok hl (fun hh => e (Option.some.inj hh))

/-- The history has left defined behaviour: only the count itself is still claimed. -/
theorem Once.of_not_ok {st : St} {c : Option Nat} (o : Once c st) (h : st.isOk = false) : Once none st := by
  intro r hr ho
  obtain ⟨o1, _, _⟩ := o r hr ho
  exact ⟨o1, fun hok _ _ => (by rw [h] at hok; cases hok), fun e => (by cases e)⟩

/-- The running watch is not a timer / deferred callback: nothing was excepted. -/
theorem Once.release_other {st : St} {c : Nat} (o : Once (some c) st) (h : isOneShot (st.getW c).type = false) : Once none st := by
  intro r hr ho
  obtain ⟨o1, o2, o3⟩ := o r hr ho
  refine ⟨o1, fun hok hl _ => ?_, fun e => by cases e⟩
  by_cases e : r.handle = c
  · rw [e, h] at ho; cases ho
  · exact o2 hok hl (fun hh => e (Option.some.inj hh))

/-- `tickit_watch_cancel` through the harness's table: the request is noted first. -/
theorem r2_doCancel (st : St) (k : Int) (hk : K st) : R2 [] st (doCancel st k) := by
  unfold doCancel
  split
  · exact r2_emit _ _ _
  · rename_i r hsome
    obtain ⟨hr, hrk⟩ := findSlot_some hsome
    have h1 : R2 [] st { st with cancelReq := k :: st.cancelReq } :=
      ⟨MH.of_heap_eq rfl rfl, rfl, fun x hx => List.mem_cons_of_mem _ hx, fun _ x hx _ => Or.inl hx, fun _ x hx _ => Or.inl hx,
       fun _ x h1 h2 => (by have : ({ st with cancelReq := k :: st.cancelReq } : St).heap.length = st.heap.length := rfl; omega),
       fun x hx hlv hd => (by
         have e : ({ st with cancelReq := k :: st.cancelReq } : St).live x = st.live x := rfl
         rw [e, hlv hx] at hd; cases hd)⟩
    refine h1.trans (r2_watchCancel [] _ r.handle (Or.inr (Or.inl ?_)) (fun l hl => hk.p3 r.handle (hk.s3 r hr).1 l hl))
    show (st.getW r.handle).slot ∈ k :: st.cancelReq
    rw [(hk.s3 r hr).2, hrk]
    exact List.mem_cons_self

theorem r2_runAct (st : St) (act : Act) (hk : K st) : R2 [] st (runAct st act) := by
  unfold runAct
  split
  · exact R2.refl _ _
  · cases act with
    | timer k ms flags =>
      simp only []
      split
      · exact r2_doRegister st k _ (fun s => r2_watchTimerAfterMsec s ms flags k)
      · exact R2.refl _ _
    | timerAt k sec usec flags =>
      simp only []
      split
      · exact r2_doRegister st k _ (fun s => r2_watchTimerAt s ⟨sec, usec⟩ flags k)
      · exact R2.refl _ _
    | later k flags => exact r2_doRegister st k _ (fun s => r2_watchLater s flags k 0)
    | io k fd cond flags => exact r2_doRegister st k _ (fun s => r2_watchIo [] s fd cond flags k)
    | signal k sig flags =>
      simp only []
      split
      · exact r2_doRegister st k _ (fun s => r2_watchSignal [] s sig flags k)
      · exact R2.refl _ _
    | process k pid flags =>
      simp only []
      split
      · exact r2_doRegister st k _ (fun s => r2_watchProcess s pid flags k)
      · exact R2.refl _ _
    | cancel k => exact r2_doCancel st k hk
    | errno v => exact r2_with_errno [] st v
    | raise s =>
      simp only []
      split
      · exact r2_raiseSig [] st s
      · exact R2.refl _ _
    | exit pid status =>
      simp only []
      split
      · split
        · exact R2.refl _ _
        · exact r2_with_children [] st _
      · exact R2.refl _ _
    | stop => exact r2_with_stillRunning [] st false
    | nop => exact R2.refl _ _

theorem r2_runActs (acts : List Act) : ∀ st : St, K st →
    R2 [] st (acts.foldl (fun st act => if st.isOk then runAct (st.emit .a) act else st) st) := by
  induction acts with
  | nil => intro st _; exact R2.refl _ st
  | cons a rest ih =>
    intro st hk
    simp only [List.foldl_cons]
    by_cases hok : st.isOk = true
    · rw [if_pos hok]
      have k1 : K (st.emit .a) := K.of_q (Q.of_q0 (q0_emit st _)) hk
      exact ((r2_emit [] st _).trans (r2_runAct _ a k1)).trans (ih _ (K.of_q (q_runAct _ a) k1))
    · rw [if_neg hok]
      exact ih _ hk

/-! ### nothing is lost, nothing vanishes uninvoked -/

/-- An allocated timer / deferred callback is queued (or is one of `D`: detached by the running iteration). -/
def Listed (D : List Nat) (st : St) : Prop :=
  st.isOk = true → st.alive = true → ∀ a, a < st.heap.length → st.live a = true →
    ((st.getW a).type = .timer → a ∈ st.timers ∨ a ∈ D) ∧ ((st.getW a).type = .later → a ∈ st.laters ∨ a ∈ D)

/-- A timer / deferred callback that is gone, in a live instance, without a cancel having been asked for,
    has been invoked. -/
def Gone (st : St) : Prop :=
  st.alive = true → ∀ r ∈ st.slots, isOneShot (st.getW r.handle).type = true → r.k ∉ st.cancelReq →
    st.live r.handle = false → r.fires = 1

theorem Listed.of_r2 {D : List Nat} {st st' : St} (r : R2 [] st st') (l : Listed D st) : Listed D st' := by
  intro hok hal a ha hl
  have hok0 := r.h.ok hok
  have hal0 : st.alive = true := by rw [← r.alive]; exact hal
  by_cases hold : a < st.heap.length
  · have hl0 := r.h.live a hold hl
    obtain ⟨l1, l2⟩ := l hok0 hal0 a hold hl0
    constructor
    · intro ht
      have ht0 : (st.getW a).type = .timer := by rw [← r.h.oneShot hold (by rw [ht]; rfl)]; exact ht
      rcases l1 ht0 with h | h
      · rcases r.stayT hok a h hold with h' | h' | h'
        · exact Or.inl h'
        · rw [hl] at h'; cases h'
        · cases h'
      · exact Or.inr h
    · intro ht
      have ht0 : (st.getW a).type = .later := by rw [← r.h.oneShot hold (by rw [ht]; rfl)]; exact ht
      rcases l2 ht0 with h | h
      · rcases r.stayL hok a h hold with h' | h' | h'
        · exact Or.inl h'
        · rw [hl] at h'; cases h'
        · cases h'
      · exact Or.inr h
  · obtain ⟨n1, n2⟩ := r.newl hok a (by omega) ha hl
    exact ⟨fun ht => (n1 ht).elim Or.inl (fun h => by cases h), fun ht => (n2 ht).elim Or.inl (fun h => by cases h)⟩

theorem Listed.drop {D : List Nat} {st : St} {a : Nat} (l : Listed (a :: D) st) (h : st.isOk = true → st.live a = false) : Listed D st := by
  intro hok hal x hx hl
  obtain ⟨l1, l2⟩ := l hok hal x hx hl
  have hne : x ≠ a := by intro e; subst e; rw [h hok] at hl; cases hl
  constructor
  · intro ht
    rcases l1 ht with e | e
    · exact Or.inl e
    · simp only [List.mem_cons] at e
      rcases e with e | e
      · exact absurd e hne
      · exact Or.inr e
  · intro ht
    rcases l2 ht with e | e
    · exact Or.inl e
    · simp only [List.mem_cons] at e
      rcases e with e | e
      · exact absurd e hne
      · exact Or.inr e

theorem Listed.mono {D D' : List Nat} {st : St} (l : Listed D st) (h : ∀ x ∈ D, x ∈ D') : Listed D' st :=
  fun hok hal a ha hl => ⟨fun ht => ((l hok hal a ha hl).1 ht).imp id (h a), fun ht => ((l hok hal a ha hl).2 ht).imp id (h a)⟩

theorem Listed.of_not_ok {D : List Nat} {st : St} (h : st.isOk = false) : Listed D st :=
  fun hok => by rw [h] at hok; cases hok

theorem Gone.of_r2 {st st' : St} (r : R2 [] st st') (q : Q st st') (k : K st) (g : Gone st) : Gone st' := by
  obtain ⟨ns, e, f⟩ := q.slots
  intro hal r' hr' ho hnc hd
  have hal0 : st.alive = true := by rw [← r.alive]; exact hal
  rw [e] at hr'
  simp only [List.mem_append] at hr'
  have key : ∀ x, x < st'.heap.length → (x < st.heap.length → st.live x = true) → st'.live x = false →
      isOneShot (st'.getW x).type = true → (st'.getW x).slot ∉ st'.cancelReq → 0 ≤ (st'.getW x).slot → False := by
    intro x h1 h2 h3 h4 h5 h6
    rcases r.gone x h1 h2 h3 with h | h | h
    · rw [h] at h4; cases h4
    · exact h5 h
    · omega
  rcases hr' with hr | hr
  · obtain ⟨h1, h2⟩ := k.s3 r' hr
    have hslot' : (st'.getW r'.handle).slot = r'.k := by rw [r.h.slot _ h1]; exact h2
    cases hl0 : st.live r'.handle with
    | false =>
      exact g hal0 r' hr (by rw [← r.h.oneShot h1 ho]; exact ho) (fun hc => hnc (r.creq _ hc)) hl0
    | true =>
      exact False.elim (key r'.handle (Nat.lt_of_lt_of_le h1 r.h.len) (fun _ => hl0) hd ho (by rw [hslot']; exact hnc)
        (by rw [hslot']; exact k.s4 r' hr))
  · obtain ⟨_, p2, p3, p4, p5⟩ := f r' hr
    exact False.elim (key r'.handle p3 (fun hlt => by omega) hd ho (by rw [p4]; exact hnc) (by rw [p4]; exact p5))

/-! ### counting an invocation -/

/-- `W[k].fires++` -/
def bump (st : St) (k : Int) : St :=
  { st with slots := st.slots.map fun (s : SlotRec) => if s.k = k then { s with fires := s.fires + 1 } else s }

theorem bump_keys (st : St) (k : Int) : (bump st k).slots.map (·.k) = st.slots.map (·.k) := by
  unfold bump
  simp only [List.map_map]
  apply List.map_congr_left
  intro s _
  simp only [Function.comp]
  split <;> rfl

theorem mem_bump {st : St} {k : Int} {r' : SlotRec} (h : r' ∈ (bump st k).slots) :
    ∃ r ∈ st.slots, r'.k = r.k ∧ r'.handle = r.handle ∧ r'.fires = if r.k = k then r.fires + 1 else r.fires := by
  unfold bump at h
  obtain ⟨r, hr, e⟩ := List.mem_map.mp h
  refine ⟨r, hr, ?_⟩
  subst e
  split <;> simp_all

theorem K.bump {st : St} (k : K st) (key : Int) : K (bump st key) := by
  refine ⟨?_, by rw [bump_keys]; exact k.s2, ?_, k.p1, k.p2, ?_, k.p3⟩
  rotate_right
  · intro r' hr'
    obtain ⟨r, hr, e1, _, _⟩ := mem_bump hr'
    rw [e1]; exact k.s4 r hr
  · intro a ha hs
    obtain ⟨r, hr, h1, h2⟩ := k.s1 a ha hs
    refine ⟨if r.k = key then { r with fires := r.fires + 1 } else r, ?_, ?_, ?_⟩
    · unfold Tickit.EvLoop.bump; exact List.mem_map.mpr ⟨r, hr, rfl⟩
    · split <;> exact h1
    · split <;> exact h2
  · intro r' hr'
    obtain ⟨r, hr, e1, e2, _⟩ := mem_bump hr'
    rw [e1, e2]
    exact k.s3 r hr

/-- Two records with the same slot number are the same record. -/
theorem K.rec_unique {st : St} (k : K st) {r1 r2 : SlotRec} (h1 : r1 ∈ st.slots) (h2 : r2 ∈ st.slots) (e : r1.k = r2.k) : r1 = r2 := by
  have hn := k.s2
  generalize st.slots = l at *
  induction l with
  | nil => cases h1
  | cons x xs ih =>
    simp only [List.map_cons, List.nodup_cons] at hn
    simp only [List.mem_cons] at h1 h2
    rcases h1 with h1 | h1 <;> rcases h2 with h2 | h2
    · rw [h1, h2]
    · subst h1; exact absurd (List.mem_map.mpr ⟨r2, h2, e.symm⟩) hn.1
    · subst h2; exact absurd (List.mem_map.mpr ⟨r1, h1, e⟩) hn.1
    · exact ih h1 h2 hn.2

/-- Counting one invocation of watch `c` (allocated, with slot number `key`): afterwards `Once` holds with `c`
    as the running watch.  When `c` is a timer / deferred callback it must be live, i.e. not yet invoked. -/
theorem Once.bump {st : St} (k : K st) (o : Once none st) (c : Nat) (key : Int) (hc : c < st.heap.length)
    (hs : (st.getW c).slot = key) (hk : key ≥ 0) (hok : st.isOk = true)
    (hl : isOneShot (st.getW c).type = true → st.live c = true) :
    Once (some c) (Tickit.EvLoop.bump st key) := by
  obtain ⟨rc, hrc, hrck, hrch⟩ := k.s1 c hc (by rw [hs]; exact hk)
  rw [hs] at hrck
  intro r' hr' ho
  obtain ⟨r, hr, e1, e2, e3⟩ := mem_bump hr'
  have ho' : isOneShot (st.getW r.handle).type = true := by rw [← e2]; exact ho
  obtain ⟨o1, o2, _⟩ := o r hr ho'
  rw [e2, e3]
  by_cases hkk : r.k = key
  · have : r = rc := k.rec_unique hr hrc (hkk.trans hrck.symm)
    subst this
    rw [if_pos hkk]
    have hz : r.fires = 0 := o2 hok (by rw [hrch]; exact hl (by rw [← hrch]; exact ho')) (fun h => by cases h)
    rw [hz]
    exact ⟨by omega, fun _ _ hne => absurd (by rw [hrch]) hne, fun _ => rfl⟩
  · rw [if_neg hkk]
    refine ⟨o1, fun hok' hl' _ => o2 hok' hl' (fun h => by cases h), fun e => ?_⟩
    have : r.handle = c := Option.some.inj e
    have := (k.s3 r hr).2
    rw [‹r.handle = c›, hs] at this
    exact absurd this.symm hkk

/-! ### invoking a callback -/

/-- What invoking the harness's callback of watch `c` leaves behind. -/
structure Fire (st st' : St) (c : Nat) : Prop where
  h : MH st st'
  k : K st'
  o : Once (some c) st'

theorem K.emit {st : St} (k : K st) (e : Ev) : K (st.emit e) := K.of_q (Q.of_q0 (q0_emit st e)) k

theorem fire_spec (st : St) (c : Nat) (flags : Nat) (info : Info) (k : K st) (o : Once none st)
    (hc : c < st.heap.length) (hk : (st.getW c).slot ≥ 0) (hok : st.isOk = true)
    (hl : isOneShot (st.getW c).type = true → st.live c = true) :
    Fire st (fireUser st (st.getW c).slot flags info) c := by
  have k1 : K (st.emit (.cb (st.getW c).slot flags info)) := k.emit _
  have o1 : Once none (st.emit (.cb (st.getW c).slot flags info)) := Once.none_of_q (Q.of_q0 (q0_emit st _)) k o
  have k2 : K (bump (st.emit (.cb (st.getW c).slot flags info)) (st.getW c).slot) := k1.bump _
  have o2 : Once (some c) (bump (st.emit (.cb (st.getW c).slot flags info)) (st.getW c).slot) :=
    Once.bump k1 o1 c _ hc rfl hk hok hl
  have m2 : MH st (bump (st.emit (.cb (st.getW c).slot flags info)) (st.getW c).slot) := MH.of_heap_eq rfl rfl
  unfold fireUser
  simp only []
  split
  · rename_i hnone
    obtain ⟨rc, hrc, hrck, _⟩ := k.s1 c hc hk
    exact absurd hrck (findSlot_none hnone rc hrc)
  · split
    · exact ⟨m2, k2, o2⟩
    · rename_i b _
      have q := q_runActs b.acts (bump (st.emit (.cb (st.getW c).slot flags info)) (st.getW c).slot)
      exact ⟨m2.trans q.b.h, K.of_q q k2, Once.of_q q k2 (fun x hx => by cases hx; exact hc) o2⟩

/-- A callback that is not the harness's (negative slot number): nothing is counted, nothing runs. -/
theorem fireUser_neg (st : St) (key : Int) (flags : Nat) (info : Info) (k : K st) (hk : key < 0) :
    fireUser st key flags info = st.emit (.cb key flags info) := by
  unfold fireUser
  simp only []
  split
  · rfl
  · rename_i r hsome
    obtain ⟨hr, hrk⟩ := findSlot_some hsome
    have := k.s4 r hr
    omega

end Tickit.EvLoop
