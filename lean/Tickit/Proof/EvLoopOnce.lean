import Tickit.Proof.EvLoopWF
/-
  C17, "exactly once" across the iterations of a history.

  The harness's table of watch slots (`St.slots`) carries, for every watch it registered, the number of FIRE
  invocations of its callback so far (`SlotRec.fires`; `fireUser` is the only place that logs a FIRE entry and
  the only place that counts one).  This file proves, for the repaired source and every history:

    * the record of slot `k` counts the invocations of exactly one watch, its `handle` (`K`: every watch with a
      slot number has its record, slot numbers are not shared);
    * `Once`: a timer or deferred callback has been invoked at most once — and not at all while it is still
      allocated — whatever was registered, cancelled or invoked in between.

  Structure: `MH` (what any step does to allocated watches), `Q0` (a step that neither counts nor registers
  a slot), `Reg` (a constructor), `Q` (everything a callback can do: `runActs`); then, for the functions that
  invoke callbacks, preservation of the bundle `B` (lists well formed, `K`, `Once`) by the same inductions as
  the `l_*` family of Proof/EvLoopWF.lean.
-/
namespace Tickit.EvLoop

def isOneShot (t : WType) : Bool := t == .timer || t == .later

theorem isOneShot_none : isOneShot .none = false := rfl

/-! ### what a step does to the watches that exist -/

structure MH (st st' : St) : Prop where
  len : st.heap.length ≤ st'.heap.length
  slot : ∀ x, x < st.heap.length → (st'.getW x).slot = (st.getW x).slot
  puser : ∀ x, x < st.heap.length → (st'.getW x).puser = (st.getW x).puser
  typ : ∀ x, x < st.heap.length → (st'.getW x).type = (st.getW x).type ∨ (st'.getW x).type = .none
  live : ∀ x, x < st.heap.length → st'.live x = true → st.live x = true
  /-- a history that has left defined behaviour (or was killed) stays there -/
  ok : st'.isOk = true → st.isOk = true

theorem MH.refl (st : St) : MH st st := ⟨Nat.le_refl _, fun _ _ => rfl, fun _ _ => rfl, fun _ _ => Or.inl rfl, fun _ _ h => h, fun h => h⟩

theorem MH.trans {a b c : St} (h1 : MH a b) (h2 : MH b c) : MH a c := by
  refine ⟨Nat.le_trans h1.len h2.len, ?_, ?_, ?_, ?_, fun h => h1.ok (h2.ok h)⟩
  · intro x hx; rw [h2.slot x (Nat.lt_of_lt_of_le hx h1.len), h1.slot x hx]
  · intro x hx; rw [h2.puser x (Nat.lt_of_lt_of_le hx h1.len), h1.puser x hx]
  · intro x hx
    cases h2.typ x (Nat.lt_of_lt_of_le hx h1.len) with
    | inl e => rw [e]; exact h1.typ x hx
    | inr e => exact Or.inr e
  · intro x hx hl; exact h1.live x hx (h2.live x (Nat.lt_of_lt_of_le hx h1.len) hl)

theorem MH.of_heap_eq {st st' : St} (h : st'.heap = st.heap) (hs : st'.status = st.status) : MH st st' :=
  ⟨by rw [h]; exact Nat.le_refl _, fun x _ => by rw [getW_of_heap_eq h], fun x _ => by rw [getW_of_heap_eq h],
   fun x _ => by rw [getW_of_heap_eq h]; exact Or.inl rfl, fun x _ hl => by rw [live_of_heap_eq h] at hl; exact hl,
   fun hok => by unfold St.isOk at *; rw [← hs]; exact hok⟩

/-- … when the step moves the status away from `ok` (or leaves a status that is not `ok`). -/
theorem MH.of_heap_eq_bad {st st' : St} (h : st'.heap = st.heap) (hs : st'.isOk = false) : MH st st' :=
  ⟨by rw [h]; exact Nat.le_refl _, fun x _ => by rw [getW_of_heap_eq h], fun x _ => by rw [getW_of_heap_eq h],
   fun x _ => by rw [getW_of_heap_eq h]; exact Or.inl rfl, fun x _ hl => by rw [live_of_heap_eq h] at hl; exact hl,
   fun hok => by rw [hs] at hok; cases hok⟩

/-- A one-shot type survives only unchanged. -/
theorem MH.oneShot {st st' : St} (h : MH st st') {x : Nat} (hx : x < st.heap.length)
    (ho : isOneShot (st'.getW x).type = true) : (st'.getW x).type = (st.getW x).type := by
  cases h.typ x hx with
  | inl e => exact e
  | inr e => rw [e] at ho; cases ho

theorem MH.notOneShot {st st' : St} (h : MH st st') {x : Nat} (hx : x < st.heap.length)
    (ho : isOneShot (st.getW x).type = false) : isOneShot (st'.getW x).type = false := by
  cases h.typ x hx with
  | inl e => rw [e]; exact ho
  | inr e => rw [e]; rfl

theorem mh_alloc (st : St) (w : Watch) : MH st (st.alloc w).1 :=
  ⟨by rw [alloc_len]; omega, fun x hx => by rw [getW_alloc_old st w x hx], fun x hx => by rw [getW_alloc_old st w x hx],
   fun x hx => by rw [getW_alloc_old st w x hx]; exact Or.inl rfl, fun x hx hl => by rw [live_alloc_old st w x hx] at hl; exact hl,
   fun h => h⟩

/-- Overwriting a watch: slot and puser kept, type kept or cleared, not resurrected. -/
theorem mh_setW (st : St) (a : Nat) (w : Watch) (h1 : w.slot = (st.getW a).slot) (h2 : w.puser = (st.getW a).puser)
    (h3 : w.type = (st.getW a).type ∨ w.type = .none) (h4 : w.freed = false → (st.getW a).freed = false) : MH st (st.setW a w) := by
  refine ⟨by rw [St.length_setW]; exact Nat.le_refl _, ?_, ?_, ?_, ?_, fun h => h⟩
  · intro x hx
    by_cases hax : a = x
    · subst hax; rw [St.getW_setW_self st a w hx, h1]
    · rw [St.getW_setW_ne st a x w hax]
  · intro x hx
    by_cases hax : a = x
    · subst hax; rw [St.getW_setW_self st a w hx, h2]
    · rw [St.getW_setW_ne st a x w hax]
  · intro x hx
    by_cases hax : a = x
    · subst hax; rw [St.getW_setW_self st a w hx]; exact h3
    · rw [St.getW_setW_ne st a x w hax]; exact Or.inl rfl
  · intro x hx hl
    by_cases hax : a = x
    · subst hax
      have hx' : a < (st.setW a w).heap.length := by rw [St.length_setW]; exact hx
      rw [live_eq_not_freed _ _ hx', St.getW_setW_self st a w hx] at hl
      rw [live_eq_not_freed _ _ hx, h4 (by simpa using hl)]; rfl
    · rw [St.live_setW_ne _ _ _ _ hax] at hl; exact hl

theorem mh_fail (st : St) (w : Ub) : MH st (st.fail w) := MH.of_heap_eq_bad (St.heap_fail st w) (St.isOk_fail st w)

theorem mh_free (st : St) (a : Nat) : MH st (st.free a) := by
  unfold St.free
  split
  · exact mh_setW st a _ rfl rfl (Or.inl rfl) (fun h => by cases h)
  · exact mh_fail _ _

/-! ### `QB`: watches, and the pointers the loop keeps to watches it will invoke through `invoke_watch` -/

/-- Besides `MH`: a watch a poll slot points at, and the process watch an internal deferred callback (slot -4,
    `process_notify`) carries, are old ones or new ones that are not timers / deferred callbacks. -/
structure QB (st st' : St) : Prop where
  h : MH st st'
  pfd : ∀ s ∈ st'.pfd, ∀ a, s.watch = some a →
    (∃ s0 ∈ st.pfd, s0.watch = some a) ∨ (a < st'.heap.length ∧ isOneShot (st'.getW a).type = false)
  pus : ∀ l, st.heap.length ≤ l → l < st'.heap.length → (st'.getW l).slot = -4 →
    (st'.getW l).puser < st'.heap.length ∧ isOneShot (st'.getW (st'.getW l).puser).type = false

theorem QB.refl (st : St) : QB st st :=
  ⟨MH.refl st, fun s hs a ha => Or.inl ⟨s, hs, ha⟩, fun l h1 h2 => by omega⟩

theorem QB.trans {a b c : St} (h1 : QB a b) (h2 : QB b c) : QB a c := by
  refine ⟨h1.h.trans h2.h, ?_, ?_⟩
  · intro s hs x hx
    cases h2.pfd s hs x hx with
    | inl e =>
      obtain ⟨s0, hs0, hx0⟩ := e
      cases h1.pfd s0 hs0 x hx0 with
      | inl e1 => exact Or.inl e1
      | inr e1 => exact Or.inr ⟨Nat.lt_of_lt_of_le e1.1 h2.h.len, h2.h.notOneShot e1.1 e1.2⟩
    | inr e => exact Or.inr e
  · intro l hl1 hl2 hs
    by_cases hb : l < b.heap.length
    · have hsb : (b.getW l).slot = -4 := by rw [← h2.h.slot l hb]; exact hs
      obtain ⟨p1, p2⟩ := h1.pus l hl1 hb hsb
      rw [h2.h.puser l hb]
      exact ⟨Nat.lt_of_lt_of_le p1 h2.h.len, h2.h.notOneShot p1 p2⟩
    · exact h2.pus l (by omega) hl2 hs

theorem QB.of_eq {st st' : St} (hh : st'.heap = st.heap) (hst : st'.status = st.status)
    (hp : st'.pfd.map (·.watch) = st.pfd.map (·.watch)) : QB st st' := by
  refine ⟨MH.of_heap_eq hh hst, ?_, ?_⟩
  · intro s hs a ha
    left
    have : some a ∈ st'.pfd.map (·.watch) := List.mem_map.mpr ⟨s, hs, ha⟩
    rw [hp] at this
    obtain ⟨s0, hs0, h0⟩ := List.mem_map.mp this
    exact ⟨s0, hs0, h0⟩
  · intro l h1 h2; rw [hh] at h2; omega

/-! ### `Q0`: a step that neither counts an invocation nor gives a watch a slot number of the harness -/

structure Q0 (st st' : St) : Prop where
  b : QB st st'
  slots : st'.slots = st.slots
  neg : ∀ x, st.heap.length ≤ x → x < st'.heap.length → (st'.getW x).slot < 0

theorem Q0.refl (st : St) : Q0 st st := ⟨QB.refl st, rfl, fun x h1 h2 => by omega⟩

theorem Q0.trans {a b c : St} (h1 : Q0 a b) (h2 : Q0 b c) : Q0 a c := by
  refine ⟨h1.b.trans h2.b, by rw [h2.slots, h1.slots], ?_⟩
  intro x hx1 hx2
  by_cases hb : x < b.heap.length
  · rw [h2.b.h.slot x hb]; exact h1.neg x hx1 hb
  · exact h2.neg x (by omega) hx2

theorem Q0.of_eq {st st' : St} (hh : st'.heap = st.heap) (hst : st'.status = st.status) (hs : st'.slots = st.slots)
    (hp : st'.pfd.map (·.watch) = st.pfd.map (·.watch)) : Q0 st st' :=
  ⟨QB.of_eq hh hst hp, hs, fun x h1 h2 => by rw [hh] at h2; omega⟩

/-- From a heap relation alone, when nothing else the relation speaks of moved and no watch was allocated. -/
theorem Q0.of_mh {st st' : St} (h : MH st st') (hl : st'.heap.length = st.heap.length) (hs : st'.slots = st.slots)
    (hp : st'.pfd = st.pfd) : Q0 st st' :=
  ⟨⟨h, fun s hs' a ha => Or.inl ⟨s, by rw [← hp]; exact hs', ha⟩, fun l h1 h2 => by omega⟩, hs, fun x h1 h2 => by omega⟩

/-! primitives -/

theorem q0_emit (st : St) (e : Ev) : Q0 st (st.emit e) := Q0.of_eq rfl rfl rfl rfl
theorem q0_fail (st : St) (w : Ub) : Q0 st (st.fail w) :=
  Q0.of_mh (mh_fail st w) (by rw [St.heap_fail]) (by unfold St.fail; split <;> rfl) (by unfold St.fail; split <;> rfl)
theorem q0_setW (st : St) (a : Nat) (w : Watch) (h1 : w.slot = (st.getW a).slot) (h2 : w.puser = (st.getW a).puser)
    (h3 : w.type = (st.getW a).type ∨ w.type = .none) (h4 : w.freed = false → (st.getW a).freed = false) : Q0 st (st.setW a w) :=
  Q0.of_mh (mh_setW st a w h1 h2 h3 h4) (St.length_setW _ _ _) rfl rfl
theorem q0_setEvi (st : St) (a idx : Nat) : Q0 st (st.setW a { st.getW a with evi := idx }) :=
  q0_setW st a _ rfl rfl (Or.inl rfl) (fun h => h)
theorem q0_setWstatus (st : St) (a : Nat) (ws : Int) : Q0 st (st.setW a { st.getW a with wstatus := ws }) :=
  q0_setW st a _ rfl rfl (Or.inl rfl) (fun h => h)
theorem q0_free (st : St) (a : Nat) : Q0 st (st.free a) := by
  unfold St.free
  split
  · exact q0_setW st a _ rfl rfl (Or.inl rfl) (fun h => by cases h)
  · exact q0_fail _ _
theorem q0_setListOf (st : St) (t : WType) (l : List Nat) : Q0 st (setListOf st t l) := by
  cases t <;> exact Q0.of_eq rfl rfl rfl rfl
theorem q0_with_timers (st : St) (l : List Nat) : Q0 st { st with timers := l } := Q0.of_eq rfl rfl rfl rfl
theorem q0_with_laters (st : St) (l : List Nat) : Q0 st { st with laters := l } := Q0.of_eq rfl rfl rfl rfl
theorem q0_with_iow (st : St) (l : List Nat) : Q0 st { st with iow := l } := Q0.of_eq rfl rfl rfl rfl
theorem q0_with_signals (st : St) (l : List Nat) : Q0 st { st with signals := l } := Q0.of_eq rfl rfl rfl rfl
theorem q0_with_procs (st : St) (l : List Nat) : Q0 st { st with procs := l } := Q0.of_eq rfl rfl rfl rfl
theorem q0_with_errno (st : St) (v : Int) : Q0 st { st with errno := v } := Q0.of_eq rfl rfl rfl rfl
theorem q0_with_children (st : St) (l : List Proc) : Q0 st { st with children := l } := Q0.of_eq rfl rfl rfl rfl
theorem q0_with_stillRunning (st : St) (b : Bool) : Q0 st { st with stillRunning := b } := Q0.of_eq rfl rfl rfl rfl
theorem q0_with_status (st : St) (x : Status) (hx : x ≠ .ok) : Q0 st { st with status := x } :=
  Q0.of_mh (MH.of_heap_eq_bad rfl (by
    show (x == Status.ok) = false
    cases x <;> first | exact absurd rfl hx | rfl)) rfl rfl rfl
theorem q0_with_pendingSig (st : St) (l : List Int) : Q0 st { st with pendingSig := l } := Q0.of_eq rfl rfl rfl rfl
theorem q0_with_inpoll (st : St) (l : List Int) : Q0 st { st with inpoll := l } := Q0.of_eq rfl rfl rfl rfl

theorem q0_raiseSig (st : St) (s : Int) : Q0 st (raiseSig st s) := by
  unfold raiseSig
  split
  · exact Q0.refl st
  · split
    · exact Q0.of_eq rfl rfl rfl rfl
    · split
      · unfold sigRecord; split <;> first | exact Q0.of_eq rfl rfl rfl rfl | exact Q0.refl _
      · split
        · exact q0_with_status st _ (by intro h; cases h)
        · exact Q0.refl st

theorem q0_evloopSignal (st : St) (s : Int) : Q0 st (evloopSignal st s).1 := by
  unfold evloopSignal
  simp only []
  split <;> exact Q0.of_eq rfl rfl rfl rfl

theorem q0_evloopCancelSignal (st : St) (idx : Nat) : Q0 st (evloopCancelSignal st idx) := by
  unfold evloopCancelSignal
  simp only []
  split
  · exact Q0.of_eq rfl rfl rfl rfl
  · split
    · split
      · exact Q0.of_mh (MH.of_heap_eq_bad rfl rfl) rfl rfl rfl
      · exact Q0.of_eq rfl rfl rfl rfl
    · exact Q0.of_eq rfl rfl rfl rfl

theorem q0_insertWatch (st : St) (l : List Nat) (flags new : Nat) : Q0 st (insertWatch st l flags new).1 := by
  unfold insertWatch
  split
  · exact Q0.refl st
  · split
    · exact Q0.refl st
    · exact q0_fail st _

theorem q0_notify (st : St) (a flags : Nat) : Q0 st (notify st a flags) := by
  unfold notify
  simp only []
  split
  · exact q0_emit st _
  · exact Q0.refl st

theorem q0_waitpid (st : St) (pid : Int) : Q0 st (waitpid st pid).st := by
  unfold waitpid
  split
  · split
    · exact Q0.of_eq rfl rfl rfl rfl
    · split <;> exact Q0.of_eq rfl rfl rfl rfl
  · exact Q0.refl st

theorem q0_waitpidV (st : St) (pid : Int) : Q0 st (waitpidV st pid).st := by
  unfold waitpidV
  split
  · exact q0_waitpid _ _
  · exact Q0.refl _

/-- `evloop_cancel_io`: the entry stops pointing at a watch. -/
theorem q0_evloopCancelIo (st : St) (idx : Nat) : Q0 st (evloopCancelIo st idx) := by
  refine ⟨⟨MH.of_heap_eq rfl rfl, ?_, fun l h1 h2 => by have : (evloopCancelIo st idx).heap = st.heap := rfl; rw [this] at h2; omega⟩,
    rfl, fun x h1 h2 => by have : (evloopCancelIo st idx).heap = st.heap := rfl; rw [this] at h2; omega⟩
  intro s hs a ha
  left
  have hs' : s ∈ st.pfd.set idx { st.pfd.getD idx default with fd := -1, watch := none } := hs
  rcases List.mem_or_eq_of_mem_set hs' with h | h
  · exact ⟨s, h, ha⟩
  · rw [h] at ha; cases ha

/-- `evloop_io` handing a slot to watch `w`, which is not a timer / deferred callback. -/
theorem q0_evloopIo (st : St) (fd : Int) (cond : Nat) (w : Nat) (hw : w < st.heap.length)
    (ht : isOneShot (st.getW w).type = false) : Q0 st (evloopIo st fd cond w).1 := by
  have hheap : (evloopIo st fd cond w).1.heap = st.heap := by unfold evloopIo; split <;> rfl
  have hslots : (evloopIo st fd cond w).1.slots = st.slots := by unfold evloopIo; split <;> rfl
  have hstat : (evloopIo st fd cond w).1.status = st.status := by unfold evloopIo; split <;> rfl
  refine ⟨⟨MH.of_heap_eq hheap hstat, ?_, fun l h1 h2 => by rw [hheap] at h2; omega⟩, hslots, fun x h1 h2 => by rw [hheap] at h2; omega⟩
  intro s hs a ha
  -- every entry of the new table is an old entry or the one handed out, which points at `w`
  have key : s ∈ st.pfd ∨ s.watch = some w := by
    unfold evloopIo at hs
    split at hs
    · rcases List.mem_or_eq_of_mem_set hs with h | h
      · exact Or.inl h
      · rw [h]; exact Or.inr rfl
    · simp only [List.mem_append, List.mem_singleton] at hs
      rcases hs with h | h
      · exact Or.inl h
      · rw [h]; exact Or.inr rfl
  cases key with
  | inl h => exact Or.inl ⟨s, h, ha⟩
  | inr h =>
    rw [h] at ha
    cases ha
    exact Or.inr ⟨by rw [hheap]; exact hw, by rw [getW_of_heap_eq hheap]; exact ht⟩

/-! cancel, unlink -/

theorem q0_cancelHook (st : St) (t : WType) (evi : Nat) : Q0 st (cancelHook st t evi) := by
  unfold cancelHook
  split
  · exact q0_evloopCancelIo _ _
  · exact q0_evloopCancelSignal _ _
  · exact Q0.refl _

theorem q0_cancelNotify (st : St) (a : Nat) (w : Watch) : Q0 st (cancelNotify st a w) := by
  unfold cancelNotify
  split
  · exact q0_notify _ _ _
  · exact Q0.refl _

theorem q0_cancelRest (st : St) (rest : List Nat) : Q0 st (cancelRest st rest) := by
  unfold cancelRest
  split
  · exact Q0.refl _
  · split
    · exact q0_fail _ _
    · exact Q0.refl _

theorem q0_cancelFound (st : St) (a : Nat) (w : Watch) (l : List Nat) : Q0 st (cancelFound st a w l) := by
  unfold cancelFound
  exact ((((q0_setListOf st _ _).trans (q0_cancelNotify _ _ _)).trans (q0_cancelHook _ _ _)).trans (q0_free _ _)).trans
    (q0_cancelRest _ _)

theorem q0_watchCancel (st : St) (a : Nat) : Q0 st (watchCancel st a) := by
  unfold watchCancel
  split
  · exact Q0.refl st
  · split
    · exact q0_fail _ _
    · split
      · exact Q0.refl st
      · split
        · exact q0_fail _ _
        · split
          · exact Q0.refl st
          · exact q0_cancelFound _ _ _ _

/-- `watch->type = WATCH_NONE; free(watch);` -/
theorem q0_setNoneFree (st : St) (a : Nat) : Q0 st ((st.setW a { st.getW a with type := .none }).free a) :=
  (q0_setW st a { st.getW a with type := .none } rfl rfl (Or.inr rfl) (fun h => h)).trans (q0_free _ _)

theorem q0_unlinkOneshot (st : St) (a : Nat) : Q0 st (unlinkOneshot st a) := by
  unfold unlinkOneshot
  split
  · exact q0_fail _ _
  · split
    · exact Q0.refl _
    · split
      · exact q0_fail _ _
      · split
        · exact Q0.refl _
        · have h1 := q0_setListOf st (st.getW a).type ((listOf st (st.getW a).type).erase a)
          have h2 := q0_setNoneFree (setListOf st (st.getW a).type ((listOf st (st.getW a).type).erase a)) a
          rw [getW_setListOf] at h2
          exact h1.trans h2

theorem q0_unlinkOneshotSaved (st : St) (a : Nat) (t : WType) : Q0 st (unlinkOneshotSaved st a t) := by
  unfold unlinkOneshotSaved
  split
  · exact Q0.refl _
  · split
    · exact q0_fail _ _
    · split
      · exact Q0.refl _
      · have h1 := q0_setListOf st t ((listOf st t).erase a)
        have h2 := q0_setNoneFree (setListOf st t ((listOf st t).erase a)) a
        rw [getW_setListOf] at h2
        exact h1.trans h2

/-! ### `Reg`: a constructor — the first watch it allocates carries the slot number it was given, every other
    watch it allocates is internal (negative slot number) -/

structure Reg (st st' : St) (k : Int) : Prop where
  b : QB st st'
  slots : st'.slots = st.slots
  lt : st.heap.length < st'.heap.length
  first : (st'.getW st.heap.length).slot = k
  rest : ∀ x, st.heap.length < x → x < st'.heap.length → (st'.getW x).slot < 0

theorem Reg.andThen {a b c : St} {k : Int} (h1 : Reg a b k) (h2 : Q0 b c) : Reg a c k := by
  refine ⟨h1.b.trans h2.b, by rw [h2.slots, h1.slots], Nat.lt_of_lt_of_le h1.lt h2.b.h.len, ?_, ?_⟩
  · rw [h2.b.h.slot _ h1.lt]; exact h1.first
  · intro x hx1 hx2
    by_cases hb : x < b.heap.length
    · rw [h2.b.h.slot x hb]; exact h1.rest x hx1 hb
    · exact h2.neg x (by omega) hx2

theorem Reg.after {a b c : St} {k : Int} (h1 : Q0 a b) (hl : b.heap.length = a.heap.length) (h2 : Reg b c k) : Reg a c k := by
  refine ⟨h1.b.trans h2.b, by rw [h2.slots, h1.slots], by rw [← hl]; exact h2.lt, by rw [← hl]; exact h2.first, ?_⟩
  intro x hx1 hx2
  exact h2.rest x (by rw [hl]; exact hx1) hx2

theorem Reg.q0 {a b : St} {k : Int} (h : Reg a b k) (hk : k < 0) : Q0 a b := by
  refine ⟨h.b, h.slots, ?_⟩
  intro x hx1 hx2
  by_cases e : x = a.heap.length
  · subst e; rw [h.first]; exact hk
  · exact h.rest x (by omega) hx2

theorem reg_alloc (st : St) (w : Watch)
    (hp : w.slot = -4 → w.puser < st.heap.length ∧ isOneShot (st.getW w.puser).type = false) : Reg st (st.alloc w).1 w.slot := by
  have hlen := alloc_len st w
  refine ⟨⟨mh_alloc st w, fun s hs a ha => Or.inl ⟨s, hs, ha⟩, ?_⟩, rfl, by rw [hlen]; omega, by rw [getW_alloc_new], ?_⟩
  · intro l h1 h2 hs
    rw [hlen] at h2
    have : l = st.heap.length := by omega
    subst this
    rw [getW_alloc_new] at hs ⊢
    obtain ⟨p1, p2⟩ := hp hs
    exact ⟨by rw [hlen]; omega, by rw [getW_alloc_old st w _ p1]; exact p2⟩
  · intro x h1 h2; rw [hlen] at h2; omega

theorem reg_watchTimerAt (st : St) (due : TV) (flags : Nat) (slot : Int) (hs : slot ≠ -4) :
    Reg st (watchTimerAt st due flags slot).1 slot := by
  unfold watchTimerAt
  simp only []
  have hA := reg_alloc st { type := .timer, flags := flags &&& (BIND_UNBIND ||| BIND_DESTROY), slot := slot, due := due }
    (fun h => absurd h hs)
  split
  · exact hA.andThen (q0_with_timers _ _)
  · exact hA.andThen (q0_fail _ _)

theorem reg_watchTimerAfterMsec (st : St) (msec : Int) (flags : Nat) (slot : Int) (hs : slot ≠ -4) :
    Reg st (watchTimerAfterMsec st msec flags slot).1 slot := by
  unfold watchTimerAfterMsec
  exact Reg.after (q0_emit st _) rfl (reg_watchTimerAt _ _ _ _ hs)

theorem reg_watchLater (st : St) (flags : Nat) (slot : Int) (puser : Nat)
    (hp : slot = -4 → puser < st.heap.length ∧ isOneShot (st.getW puser).type = false) :
    Reg st (watchLater st flags slot puser).1 slot := by
  unfold watchLater
  simp only []
  have hA := reg_alloc st { type := .later, flags := flags &&& (BIND_UNBIND ||| BIND_DESTROY), slot := slot, puser := puser } hp
  exact (hA.andThen (q0_insertWatch _ _ _ _)).andThen (q0_with_laters _ _)

theorem reg_watchIo (st : St) (fd : Int) (cond flags : Nat) (slot : Int) (hs : slot ≠ -4) :
    Reg st (watchIo st fd cond flags slot).1 slot := by
  unfold watchIo
  simp only []
  have hA := reg_alloc st { type := .io, flags := flags &&& st.cfg.ioFlagMask, slot := slot, fd := fd, cond := cond } (fun h => absurd h hs)
  have hgw := getW_alloc_new st { type := .io, flags := flags &&& st.cfg.ioFlagMask, slot := slot, fd := fd, cond := cond }
  have hlt := hA.lt
  generalize (st.alloc { type := .io, flags := flags &&& st.cfg.ioFlagMask, slot := slot, fd := fd, cond := cond }).1 = s1 at *
  have hB := q0_evloopIo s1 fd cond st.heap.length hlt (by rw [hgw]; rfl)
  exact (((hA.andThen hB).andThen (q0_setEvi _ _ _)).andThen (q0_insertWatch _ _ _ _)).andThen (q0_with_iow _ _)

theorem reg_watchSignalPre (st : St) (signum : Int) (flags : Nat) (slot : Int) (hs : slot ≠ -4) :
    Reg st (watchSignalPre st signum flags slot) slot := by
  unfold watchSignalPre
  exact ((reg_alloc st { type := .signal, flags := flags &&& (BIND_UNBIND ||| BIND_DESTROY), slot := slot, signum := signum }
    (fun h => absurd h hs)).andThen (q0_evloopSignal _ _)).andThen (q0_setEvi _ _ _)

theorem reg_watchSignal (st : St) (signum : Int) (flags : Nat) (slot : Int) (hs : slot ≠ -4) :
    Reg st (watchSignal st signum flags slot).1 slot := by
  unfold watchSignal
  exact ((reg_watchSignalPre st signum flags slot hs).andThen (q0_insertWatch _ _ _ _)).andThen (q0_with_signals _ _)

theorem q0_ensureSigchld (st : St) : Q0 st (ensureSigchld st) := by
  unfold ensureSigchld
  split
  · exact Q0.refl _
  · exact ((reg_watchSignal st SIGCHLD 0 (-3) (by decide)).q0 (by decide)).trans
      (Q0.of_eq rfl rfl rfl rfl : Q0 (watchSignal st SIGCHLD 0 (-3)).1
        { (watchSignal st SIGCHLD 0 (-3)).1 with sigchldwatch := some (watchSignal st SIGCHLD 0 (-3)).2 })

/-- The tail of `tickit_watch_process` for a process watch `a` (not a timer / deferred callback). -/
theorem q0_linkProcess (st : St) (a : Nat) (pid : Int) (flags : Nat) (ha : a < st.heap.length)
    (ht : isOneShot (st.getW a).type = false) : Q0 st (linkProcess st a pid flags) := by
  unfold linkProcess
  simp only []
  have gW := q0_waitpid st pid
  split
  · have gS := gW.trans (q0_setWstatus (waitpid st pid).st a (waitpid st pid).wstatus)
    refine gS.trans ((reg_watchLater _ 0 (-4) a (fun _ => ?_)).q0 (by decide))
    exact ⟨Nat.lt_of_lt_of_le ha gS.b.h.len, gS.b.h.notOneShot ha ht⟩
  · exact (gW.trans (q0_insertWatch _ _ _ _)).trans (q0_with_procs _ _)

theorem reg_watchProcess (st : St) (pid : Int) (flags : Nat) (slot : Int) (hs : slot ≠ -4) :
    Reg st (watchProcess st pid flags slot).1 slot := by
  unfold watchProcess
  have hA := reg_alloc st { type := .process, flags := flags &&& (BIND_UNBIND ||| BIND_DESTROY), slot := slot, pid := pid } (fun h => absurd h hs)
  have hgw := getW_alloc_new st { type := .process, flags := flags &&& (BIND_UNBIND ||| BIND_DESTROY), slot := slot, pid := pid }
  have hlt := hA.lt
  generalize (st.alloc { type := .process, flags := flags &&& (BIND_UNBIND ||| BIND_DESTROY), slot := slot, pid := pid }).1 = s1 at *
  have hB := q0_ensureSigchld s1
  have hlt2 : st.heap.length < (ensureSigchld s1).heap.length := Nat.lt_of_lt_of_le hlt hB.b.h.len
  have ht2 : isOneShot ((ensureSigchld s1).getW st.heap.length).type = false := hB.b.h.notOneShot hlt (by rw [hgw]; rfl)
  exact (hA.andThen hB).andThen (q0_linkProcess _ _ _ _ hlt2 ht2)

/-! ### `Q`: everything a callback can do -/

structure Q (st st' : St) : Prop where
  b : QB st st'
  slots : ∃ ns, st'.slots = st.slots ++ ns ∧
    ∀ r ∈ ns, r.fires = 0 ∧ st.heap.length ≤ r.handle ∧ r.handle < st'.heap.length ∧ (st'.getW r.handle).slot = r.k ∧ 0 ≤ r.k
  keys : (st.slots.map (·.k)).Nodup → (st'.slots.map (·.k)).Nodup
  newc : ∀ x, st.heap.length ≤ x → x < st'.heap.length → (st'.getW x).slot ≥ 0 →
    ∃ r ∈ st'.slots, r.k = (st'.getW x).slot ∧ r.handle = x

theorem Q.refl (st : St) : Q st st :=
  ⟨QB.refl st, ⟨[], by simp, fun r hr => by cases hr⟩, fun h => h, fun x h1 h2 => by omega⟩

theorem Q.of_q0 {st st' : St} (h : Q0 st st') : Q st st' :=
  ⟨h.b, ⟨[], by rw [h.slots]; simp, fun r hr => by cases hr⟩, fun hn => by rw [h.slots]; exact hn,
   fun x h1 h2 h3 => by have := h.neg x h1 h2; omega⟩

theorem Q.trans {a b c : St} (h1 : Q a b) (h2 : Q b c) : Q a c := by
  obtain ⟨ns1, e1, f1⟩ := h1.slots
  obtain ⟨ns2, e2, f2⟩ := h2.slots
  refine ⟨h1.b.trans h2.b, ⟨ns1 ++ ns2, by rw [e2, e1, List.append_assoc], ?_⟩, fun hn => h2.keys (h1.keys hn), ?_⟩
  · intro r hr
    simp only [List.mem_append] at hr
    cases hr with
    | inl hr =>
      obtain ⟨p1, p2, p3, p4, p5⟩ := f1 r hr
      exact ⟨p1, p2, Nat.lt_of_lt_of_le p3 h2.b.h.len, by rw [h2.b.h.slot _ p3]; exact p4, p5⟩
    | inr hr =>
      obtain ⟨p1, p2, p3, p4, p5⟩ := f2 r hr
      exact ⟨p1, Nat.le_trans h1.b.h.len p2, p3, p4, p5⟩
  · intro x hx1 hx2 hs
    by_cases hb : x < b.heap.length
    · have hsb : (b.getW x).slot ≥ 0 := by rw [← h2.b.h.slot x hb]; exact hs
      obtain ⟨r, hr, hk, hh⟩ := h1.newc x hx1 hb hsb
      exact ⟨r, by rw [e2]; exact List.mem_append_left _ hr, by rw [h2.b.h.slot x hb]; exact hk, hh⟩
    · exact h2.newc x (by omega) hx2 hs

theorem findSlot_none {st : St} {k : Int} (h : findSlot st k = none) : ∀ r ∈ st.slots, r.k ≠ k := by
  intro r hr
  unfold findSlot at h
  have := List.find?_eq_none.mp h r hr
  simpa using this

theorem findSlot_some {st : St} {k : Int} {r : SlotRec} (h : findSlot st k = some r) : r ∈ st.slots ∧ r.k = k := by
  unfold findSlot at h
  exact ⟨List.mem_of_find?_eq_some h, by simpa using List.find?_some h⟩

/-- Registration through the harness's table: the constructor runs, then the slot gets its record. -/
theorem q_doRegister (st : St) (k : Int) (reg : St → St × Nat)
    (hreg : k ≠ -4 → ∀ s, Reg s (reg s).1 k ∧ (reg s).2 = s.heap.length) : Q st (doRegister st k reg) := by
  unfold doRegister
  split
  · exact Q.of_q0 (q0_emit _ _)
  · rename_i hk
    have hk0 : 0 ≤ k := by
      simp only [Bool.or_eq_true, decide_eq_true_eq, not_or, Int.not_lt] at hk
      exact hk.1
    split
    · exact Q.of_q0 (q0_emit _ _)
    · rename_i hnone
      obtain ⟨hr, h2⟩ := hreg (by omega) st
      simp only []
      have hkeys := findSlot_none hnone
      refine ⟨hr.b.trans (QB.of_eq rfl rfl rfl), ⟨[{ k := k, handle := (reg st).2, fires := 0 }], ?_, ?_⟩, ?_, ?_⟩
      · show (reg st).1.slots ++ _ = _; rw [hr.slots]
      · intro r hrr
        simp only [List.mem_singleton] at hrr
        subst hrr
        refine ⟨rfl, ?_, ?_, ?_, hk0⟩
        · show st.heap.length ≤ (reg st).2; rw [h2]; exact Nat.le_refl _
        · show (reg st).2 < (reg st).1.heap.length; rw [h2]; exact hr.lt
        · show ((reg st).1.getW (reg st).2).slot = k; rw [h2]; exact hr.first
      · intro hn
        show (((reg st).1.slots ++ [({ k := k, handle := (reg st).2, fires := 0 } : SlotRec)]).map (·.k)).Nodup
        rw [hr.slots, List.map_append, List.nodup_append]
        refine ⟨hn, by simp, ?_⟩
        intro x hx y hy
        simp only [List.map_cons, List.map_nil, List.mem_singleton] at hy
        subst hy
        obtain ⟨r, hrm, hrk⟩ := List.mem_map.mp hx
        intro e
        exact hkeys r hrm (hrk.trans e)
      · intro x hx1 hx2 hs
        have hx2' : x < (reg st).1.heap.length := hx2
        have hs' : ((reg st).1.getW x).slot ≥ 0 := hs
        by_cases e : x = st.heap.length
        · subst e
          refine ⟨{ k := k, handle := (reg st).2, fires := 0 }, ?_, ?_, ?_⟩
          · show _ ∈ (reg st).1.slots ++ _; exact List.mem_append_right _ List.mem_cons_self
          · show k = ((reg st).1.getW st.heap.length).slot; rw [hr.first]
          · exact h2
        · have := hr.rest x (by omega) hx2'
          omega

theorem snd_watchTimerAt (st : St) (due : TV) (flags : Nat) (slot : Int) : (watchTimerAt st due flags slot).2 = st.heap.length := by
  unfold watchTimerAt
  simp only []
  split <;> rfl

theorem snd_watchTimerAfterMsec (st : St) (msec : Int) (flags : Nat) (slot : Int) :
    (watchTimerAfterMsec st msec flags slot).2 = st.heap.length := by
  unfold watchTimerAfterMsec
  simp only []
  rw [snd_watchTimerAt]; rfl

theorem q0_doCancel (st : St) (k : Int) : Q0 st (doCancel st k) := by
  unfold doCancel
  split
  · exact q0_emit _ _
  · exact q0_watchCancel _ _

theorem q_runAct (st : St) (act : Act) : Q st (runAct st act) := by
  unfold runAct
  split
  · exact Q.refl _
  · cases act with
    | timer k ms flags =>
      simp only []
      split
      · exact q_doRegister st k _ (fun hk s => ⟨reg_watchTimerAfterMsec s ms flags k hk, snd_watchTimerAfterMsec _ _ _ _⟩)
      · exact Q.refl _
    | timerAt k sec usec flags =>
      simp only []
      split
      · exact q_doRegister st k _ (fun hk s => ⟨reg_watchTimerAt s ⟨sec, usec⟩ flags k hk, snd_watchTimerAt _ _ _ _⟩)
      · exact Q.refl _
    | later k flags => exact q_doRegister st k _ (fun hk s => ⟨reg_watchLater s flags k 0 (fun h => absurd h hk), rfl⟩)
    | io k fd cond flags => exact q_doRegister st k _ (fun hk s => ⟨reg_watchIo s fd cond flags k hk, rfl⟩)
    | signal k sig flags =>
      simp only []
      split
      · exact q_doRegister st k _ (fun hk s => ⟨reg_watchSignal s sig flags k hk, rfl⟩)
      · exact Q.refl _
    | process k pid flags =>
      simp only []
      split
      · exact q_doRegister st k _ (fun hk s => ⟨reg_watchProcess s pid flags k hk, rfl⟩)
      · exact Q.refl _
    | cancel k => exact Q.of_q0 (q0_doCancel st k)
    | errno v => exact Q.of_q0 (q0_with_errno st v)
    | raise s =>
      simp only []
      split
      · exact Q.of_q0 (q0_raiseSig st s)
      · exact Q.refl _
    | exit pid status =>
      simp only []
      split
      · split
        · exact Q.refl _
        · exact Q.of_q0 (q0_with_children st _)
      · exact Q.refl _
    | stop => exact Q.of_q0 (q0_with_stillRunning st false)
    | nop => exact Q.refl _

/-- The body of a callback: `a`-marker, action, `a`-marker, action, … -/
theorem q_runActs (acts : List Act) : ∀ st : St,
    Q st (acts.foldl (fun st act => if st.isOk then runAct (st.emit .a) act else st) st) := by
  induction acts with
  | nil => intro st; exact Q.refl st
  | cons a rest ih =>
    intro st
    simp only [List.foldl_cons]
    refine Q.trans ?_ (ih _)
    split
    · exact (Q.of_q0 (q0_emit st _)).trans (q_runAct _ _)
    · exact Q.refl _

/-! ### the invariants -/

/-- The harness's table and the watches: every watch with a slot number has its record, slot numbers are not
    shared, a record's handle is the watch with its number; and the watches the loop keeps pointers to for
    `invoke_watch` (poll slots, the process watch of `process_notify`) are not timers / deferred callbacks. -/
structure K (st : St) : Prop where
  s1 : ∀ a, a < st.heap.length → (st.getW a).slot ≥ 0 → ∃ r ∈ st.slots, r.k = (st.getW a).slot ∧ r.handle = a
  s2 : (st.slots.map (·.k)).Nodup
  s3 : ∀ r ∈ st.slots, r.handle < st.heap.length ∧ (st.getW r.handle).slot = r.k
  p1 : ∀ s ∈ st.pfd, ∀ a, s.watch = some a → a < st.heap.length ∧ isOneShot (st.getW a).type = false
  p2 : ∀ l, l < st.heap.length → (st.getW l).slot = -4 →
    (st.getW l).puser < st.heap.length ∧ isOneShot (st.getW (st.getW l).puser).type = false
  s4 : ∀ r ∈ st.slots, 0 ≤ r.k

/-- Exactly once, as a count: the record of a timer / deferred callback says at most one invocation, none
    while the watch is allocated — except for the watch `c` whose callback is running, which says one. -/
def Once (c : Option Nat) (st : St) : Prop :=
  ∀ r ∈ st.slots, isOneShot (st.getW r.handle).type = true →
    r.fires ≤ 1 ∧ (st.isOk = true → st.live r.handle = true → some r.handle ≠ c → r.fires = 0) ∧ (some r.handle = c → r.fires = 1)

theorem K.of_q {st st' : St} (q : Q st st') (k : K st) : K st' := by
  obtain ⟨ns, e, f⟩ := q.slots
  refine ⟨?_, q.keys k.s2, ?_, ?_, ?_, ?_⟩
  rotate_right
  · intro r hr
    rw [e] at hr
    simp only [List.mem_append] at hr
    cases hr with
    | inl hr => exact k.s4 r hr
    | inr hr => exact (f r hr).2.2.2.2
  · intro a ha hs
    by_cases hold : a < st.heap.length
    · rw [q.b.h.slot a hold] at hs ⊢
      obtain ⟨r, hr, h1, h2⟩ := k.s1 a hold hs
      exact ⟨r, by rw [e]; exact List.mem_append_left _ hr, h1, h2⟩
    · exact q.newc a (by omega) ha hs
  · intro r hr
    rw [e] at hr
    simp only [List.mem_append] at hr
    cases hr with
    | inl hr =>
      obtain ⟨h1, h2⟩ := k.s3 r hr
      exact ⟨Nat.lt_of_lt_of_le h1 q.b.h.len, by rw [q.b.h.slot _ h1]; exact h2⟩
    | inr hr => exact ⟨(f r hr).2.2.1, (f r hr).2.2.2.1⟩
  · intro s hs a ha
    cases q.b.pfd s hs a ha with
    | inl h =>
      obtain ⟨s0, hs0, h0⟩ := h
      obtain ⟨h1, h2⟩ := k.p1 s0 hs0 a h0
      exact ⟨Nat.lt_of_lt_of_le h1 q.b.h.len, q.b.h.notOneShot h1 h2⟩
    | inr h => exact h
  · intro l hl hs
    by_cases hold : l < st.heap.length
    · rw [q.b.h.slot l hold] at hs
      obtain ⟨h1, h2⟩ := k.p2 l hold hs
      rw [q.b.h.puser l hold]
      exact ⟨Nat.lt_of_lt_of_le h1 q.b.h.len, q.b.h.notOneShot h1 h2⟩
    · exact q.b.pus l (by omega) hl hs

theorem Once.of_q {st st' : St} {c : Option Nat} (q : Q st st') (k : K st) (hc : ∀ x, c = some x → x < st.heap.length)
    (o : Once c st) : Once c st' := by
  obtain ⟨ns, e, f⟩ := q.slots
  intro r hr ho
  rw [e] at hr
  simp only [List.mem_append] at hr
  cases hr with
  | inl hr =>
    obtain ⟨h1, _⟩ := k.s3 r hr
    have hty := q.b.h.oneShot h1 ho
    obtain ⟨o1, o2, o3⟩ := o r hr (by rw [← hty]; exact ho)
    exact ⟨o1, fun hok hl hc => o2 (q.b.h.ok hok) (q.b.h.live _ h1 hl) hc, o3⟩
  | inr hr =>
    obtain ⟨h1, h2, _, _, _⟩ := f r hr
    refine ⟨by omega, fun _ _ _ => h1, fun hcc => ?_⟩
    have := hc r.handle hcc.symm
    omega

theorem Once.none_of_q {st st' : St} (q : Q st st') (k : K st) (o : Once none st) : Once none st' :=
  Once.of_q q k (fun _ h => by cases h) o

/-- The running watch has been freed: its record says one invocation, for good. -/
theorem Once.release {st : St} {c : Nat} (o : Once (some c) st) (h : st.live c = false) : Once none st := by
  intro r hr ho
  obtain ⟨o1, o2, o3⟩ := o r hr ho
  refine ⟨o1, fun hok hl _ => ?_, fun e => by cases e⟩
  by_cases e : r.handle = c
  · rw [e, h] at hl; cases hl
  · exact o2 hok hl (fun hh => e (Option.some.inj hh))

/-- The history has left defined behaviour: only the count itself is still claimed. -/
theorem Once.of_not_ok {st : St} {c : Option Nat} (o : Once c st) (h : st.isOk = false) : Once none st := by
  intro r hr ho
  obtain ⟨o1, _, _⟩ := o r hr ho
  exact ⟨o1, fun hok _ _ => (by rw [h] at hok; cases hok), fun e => (by cases e)⟩

/-- The running watch is not a timer / deferred callback: nothing was excepted. -/
theorem Once.release_other {st : St} {c : Nat} (o : Once (some c) st) (h : isOneShot (st.getW c).type = false) : Once none st := by
  intro r hr ho
  obtain ⟨o1, o2, o3⟩ := o r hr ho
  refine ⟨o1, fun hok hl _ => ?_, fun e => by cases e⟩
  by_cases e : r.handle = c
  · rw [e, h] at ho; cases ho
  · exact o2 hok hl (fun hh => e (Option.some.inj hh))

/-! ### counting an invocation -/

/-- `W[k].fires++` -/
def bump (st : St) (k : Int) : St :=
  { st with slots := st.slots.map fun (s : SlotRec) => if s.k = k then { s with fires := s.fires + 1 } else s }

theorem bump_keys (st : St) (k : Int) : (bump st k).slots.map (·.k) = st.slots.map (·.k) := by
  unfold bump
  simp only [List.map_map]
  apply List.map_congr_left
  intro s _
  simp only [Function.comp]
  split <;> rfl

theorem mem_bump {st : St} {k : Int} {r' : SlotRec} (h : r' ∈ (bump st k).slots) :
    ∃ r ∈ st.slots, r'.k = r.k ∧ r'.handle = r.handle ∧ r'.fires = if r.k = k then r.fires + 1 else r.fires := by
  unfold bump at h
  obtain ⟨r, hr, e⟩ := List.mem_map.mp h
  refine ⟨r, hr, ?_⟩
  subst e
  split <;> simp_all

theorem K.bump {st : St} (k : K st) (key : Int) : K (bump st key) := by
  refine ⟨?_, by rw [bump_keys]; exact k.s2, ?_, k.p1, k.p2, ?_⟩
  rotate_right
  · intro r' hr'
    obtain ⟨r, hr, e1, _, _⟩ := mem_bump hr'
    rw [e1]; exact k.s4 r hr
  · intro a ha hs
    obtain ⟨r, hr, h1, h2⟩ := k.s1 a ha hs
    refine ⟨if r.k = key then { r with fires := r.fires + 1 } else r, ?_, ?_, ?_⟩
    · unfold Tickit.EvLoop.bump; exact List.mem_map.mpr ⟨r, hr, rfl⟩
    · split <;> exact h1
    · split <;> exact h2
  · intro r' hr'
    obtain ⟨r, hr, e1, e2, _⟩ := mem_bump hr'
    rw [e1, e2]
    exact k.s3 r hr

/-- Two records with the same slot number are the same record. -/
theorem K.rec_unique {st : St} (k : K st) {r1 r2 : SlotRec} (h1 : r1 ∈ st.slots) (h2 : r2 ∈ st.slots) (e : r1.k = r2.k) : r1 = r2 := by
  have hn := k.s2
  generalize st.slots = l at *
  induction l with
  | nil => cases h1
  | cons x xs ih =>
    simp only [List.map_cons, List.nodup_cons] at hn
    simp only [List.mem_cons] at h1 h2
    rcases h1 with h1 | h1 <;> rcases h2 with h2 | h2
    · rw [h1, h2]
    · subst h1; exact absurd (List.mem_map.mpr ⟨r2, h2, e.symm⟩) hn.1
    · subst h2; exact absurd (List.mem_map.mpr ⟨r1, h1, e⟩) hn.1
    · exact ih h1 h2 hn.2

/-- Counting one invocation of watch `c` (allocated, with slot number `key`): afterwards `Once` holds with `c`
    as the running watch.  When `c` is a timer / deferred callback it must be live, i.e. not yet invoked. -/
theorem Once.bump {st : St} (k : K st) (o : Once none st) (c : Nat) (key : Int) (hc : c < st.heap.length)
    (hs : (st.getW c).slot = key) (hk : key ≥ 0) (hok : st.isOk = true)
    (hl : isOneShot (st.getW c).type = true → st.live c = true) :
    Once (some c) (Tickit.EvLoop.bump st key) := by
  obtain ⟨rc, hrc, hrck, hrch⟩ := k.s1 c hc (by rw [hs]; exact hk)
  rw [hs] at hrck
  intro r' hr' ho
  obtain ⟨r, hr, e1, e2, e3⟩ := mem_bump hr'
  have ho' : isOneShot (st.getW r.handle).type = true := by rw [← e2]; exact ho
  obtain ⟨o1, o2, _⟩ := o r hr ho'
  rw [e2, e3]
  by_cases hkk : r.k = key
  · have : r = rc := k.rec_unique hr hrc (hkk.trans hrck.symm)
    subst this
    rw [if_pos hkk]
    have hz : r.fires = 0 := o2 hok (by rw [hrch]; exact hl (by rw [← hrch]; exact ho')) (fun h => by cases h)
    rw [hz]
    exact ⟨by omega, fun _ _ hne => absurd (by rw [hrch]) hne, fun _ => rfl⟩
  · rw [if_neg hkk]
    refine ⟨o1, fun hok' hl' _ => o2 hok' hl' (fun h => by cases h), fun e => ?_⟩
    have : r.handle = c := Option.some.inj e
    have := (k.s3 r hr).2
    rw [‹r.handle = c›, hs] at this
    exact absurd this.symm hkk

/-! ### invoking a callback -/

/-- What invoking the harness's callback of watch `c` leaves behind. -/
structure Fire (st st' : St) (c : Nat) : Prop where
  h : MH st st'
  k : K st'
  o : Once (some c) st'

theorem K.emit {st : St} (k : K st) (e : Ev) : K (st.emit e) := K.of_q (Q.of_q0 (q0_emit st e)) k

theorem fire_spec (st : St) (c : Nat) (flags : Nat) (info : Info) (k : K st) (o : Once none st)
    (hc : c < st.heap.length) (hk : (st.getW c).slot ≥ 0) (hok : st.isOk = true)
    (hl : isOneShot (st.getW c).type = true → st.live c = true) :
    Fire st (fireUser st (st.getW c).slot flags info) c := by
  have k1 : K (st.emit (.cb (st.getW c).slot flags info)) := k.emit _
  have o1 : Once none (st.emit (.cb (st.getW c).slot flags info)) := Once.none_of_q (Q.of_q0 (q0_emit st _)) k o
  have k2 : K (bump (st.emit (.cb (st.getW c).slot flags info)) (st.getW c).slot) := k1.bump _
  have o2 : Once (some c) (bump (st.emit (.cb (st.getW c).slot flags info)) (st.getW c).slot) :=
    Once.bump k1 o1 c _ hc rfl hk hok hl
  have m2 : MH st (bump (st.emit (.cb (st.getW c).slot flags info)) (st.getW c).slot) := MH.of_heap_eq rfl rfl
  unfold fireUser
  simp only []
  split
  · rename_i hnone
    obtain ⟨rc, hrc, hrck, _⟩ := k.s1 c hc hk
    exact absurd hrck (findSlot_none hnone rc hrc)
  · split
    · exact ⟨m2, k2, o2⟩
    · rename_i b _
      have q := q_runActs b.acts (bump (st.emit (.cb (st.getW c).slot flags info)) (st.getW c).slot)
      exact ⟨m2.trans q.b.h, K.of_q q k2, Once.of_q q k2 (fun x hx => by cases hx; exact hc) o2⟩

/-- A callback that is not the harness's (negative slot number): nothing is counted, nothing runs. -/
theorem fireUser_neg (st : St) (key : Int) (flags : Nat) (info : Info) (k : K st) (hk : key < 0) :
    fireUser st key flags info = st.emit (.cb key flags info) := by
  unfold fireUser
  simp only []
  split
  · rfl
  · rename_i r hsome
    obtain ⟨hr, hrk⟩ := findSlot_some hsome
    have := k.s4 r hr
    omega

/-! ### the bundle that every function of the loop preserves -/

/-- The repaired source. -/
def Rep (cfg : Config) : Prop :=
  cfg.timersPop = true ∧ cfg.invokeTypeSaved = true ∧ cfg.sigSnapshot = true ∧ cfg.procSnapshot = true

structure B (st : St) : Prop where
  rep : Rep st.cfg
  wf : WF st
  k : K st
  o : Once none st

def BStep (st st' : St) : Prop := B st → B st'

theorem BStep.refl (st : St) : BStep st st := fun b => b
theorem BStep.trans {a b c : St} (h1 : BStep a b) (h2 : BStep b c) : BStep a c := fun x => h2 (h1 x)

/-- A step that is both a quiet step (`Q`) and a list step (`LStep`). -/
theorem BStep.of_q {st st' : St} (q : Q st st') (l : LStep st st') : BStep st st' := by
  intro b
  have f := l b.rep.1 b.wf
  exact ⟨by rw [f.cfg]; exact b.rep, f.wf, K.of_q q b.k, Once.none_of_q q b.k b.o⟩

theorem BStep.of_q0 {st st' : St} (q : Q0 st st') (l : LStep st st') : BStep st st' := BStep.of_q (Q.of_q0 q) l

theorem b_fail (st : St) (w : Ub) : BStep st (st.fail w) := BStep.of_q0 (q0_fail _ _) (g4_fail _ _).lstep
theorem b_emit (st : St) (e : Ev) : BStep st (st.emit e) := BStep.of_q0 (q0_emit _ _) (g4_emit _ _).lstep
theorem b_outOfFuel (st : St) : BStep st (if st.isOk then { st with status := .outOfFuel } else st) := by
  split
  · exact BStep.of_q0 (q0_with_status _ _ (by intro h; cases h)) (g4_with_status _ _).lstep
  · exact BStep.refl _

theorem isOk_of_not_not {st : St} (h : ¬(!st.isOk) = true) : st.isOk = true := by
  cases hh : st.isOk with
  | true => rfl
  | false => rw [hh] at h; exact absurd rfl h

/-- Invoking the harness's callback of a watch that is not a timer / deferred callback. -/
theorem b_fire_other (st : St) (c : Nat) (flags : Nat) (info : Info) (hc : c < st.heap.length)
    (ht : isOneShot (st.getW c).type = false) (hk : (st.getW c).slot ≥ 0) (hok : st.isOk = true) :
    BStep st (fireUser st (st.getW c).slot flags info) := by
  intro b
  have f := fire_spec st c flags info b.k b.o hc hk hok (fun h => by rw [ht] at h; cases h)
  have l := l_fireUser st (st.getW c).slot flags info b.rep.1 b.wf
  exact ⟨by rw [l.cfg]; exact b.rep, l.wf, f.k, f.o.release_other (f.h.notOneShot hc ht)⟩

theorem b_invokeWatch (st : St) (a : Nat) (flags : Nat) (info : Info) (ha : a < st.heap.length)
    (ht : isOneShot (st.getW a).type = false) : BStep st (invokeWatch st a flags info) := by
  unfold invokeWatch
  split
  · exact BStep.refl _
  · rename_i hok
    have hok' := isOk_of_not_not hok
    have hX : BStep st (if (st.getW a).slot ≥ 0 then fireUser st (st.getW a).slot flags info else st) := by
      split
      · rename_i hk; exact b_fire_other st a flags info ha ht hk hok'
      · exact BStep.refl _
    generalize (if (st.getW a).slot ≥ 0 then fireUser st (st.getW a).slot flags info else st) = X at hX ⊢
    split
    · exact b_fail _ _
    · split
      · exact hX
      · split
        · exact hX.trans (BStep.of_q0 (q0_unlinkOneshotSaved _ _ _) (l_unlinkOneshotSaved _ a _))
        · exact hX.trans (BStep.of_q0 (q0_unlinkOneshot _ _) (l_unlinkOneshot _ a))

theorem b_procStep (st : St) (a : Nat) (ha : a < st.heap.length) (ht : isOneShot (st.getW a).type = false) :
    BStep st (procStep st a) := by
  unfold procStep
  have q := q0_waitpidV st (st.getW a).pid
  have hw : BStep st (waitpidV st (st.getW a).pid).st := BStep.of_q0 q (g4_waitpidV _ _).lstep
  split
  · exact hw
  · exact hw.trans (b_invokeWatch _ a _ _ (Nat.lt_of_lt_of_le ha q.b.h.len) (q.b.h.notOneShot ha ht))

theorem b_procSnapLoop (l : List Nat) : ∀ st : St, BStep st (procSnapLoop st l) := by
  induction l with
  | nil => intro st; exact BStep.refl st
  | cons a rest ih =>
    intro st
    unfold procSnapLoop
    split
    · exact BStep.refl _
    · split
      · exact b_fail _ _
      · split
        · exact ih _
        · rename_i hin
          split
          · exact b_fail _ _
          · intro b
            have hmem : a ∈ listOf st .process := by
              have : st.procs.contains a = true := by
                cases hh : st.procs.contains a with
                | true => rfl
                | false => rw [hh] at hin; exact absurd rfl hin
              show a ∈ st.procs
              simpa using this
            have hty := b.wf.typ .process a hmem
            exact ih _ (b_procStep st a (b.wf.alloc hmem) (by rw [hty]; rfl) b)

theorem b_onSigchldAny (fuel : Nat) (st : St) : BStep st (onSigchldAny fuel st) := by
  intro b
  unfold onSigchldAny
  rw [if_pos b.rep.2.2.2]
  split
  · exact b_fail _ _ b
  · exact b_procSnapLoop _ _ b

theorem b_processNotify (st : St) (a : Nat) (ha : a < st.heap.length) (hs : (st.getW a).slot = -4) :
    BStep st (processNotify st a) := by
  intro b
  unfold processNotify
  obtain ⟨h1, h2⟩ := b.k.p2 a ha hs
  split
  · exact b_fail _ _ b
  · exact b_invokeWatch _ _ _ _ h1 h2 b

/-- What the callback of a deferred callback `a` leaves behind: everything but `Once`, which holds with `a`
    as the running watch (the harness's callback) or outright (an internal one). -/
structure After (st' : St) (a : Nat) : Prop where
  rep : Rep st'.cfg
  wf : WF st'
  k : K st'
  o : Once (some a) st' ∨ Once none st'

theorem After.of_b {st' : St} {a : Nat} (b : B st') : After st' a := ⟨b.rep, b.wf, b.k, Or.inr b.o⟩

/-- … and once the watch is gone — freed, or the history has left defined behaviour — the bundle is back. -/
theorem After.b_of_not_ok {st' : St} {a : Nat} (x : After st' a) (h : st'.isOk = false) : B st' :=
  ⟨x.rep, x.wf, x.k, x.o.elim (fun o => o.of_not_ok h) (fun o => o)⟩

theorem After.b_of_dead {st' : St} {a : Nat} (x : After st' a) (h : st'.live a = false) : B st' :=
  ⟨x.rep, x.wf, x.k, x.o.elim (fun o => o.release h) (fun o => o)⟩

/-- A quiet step after the callback. -/
theorem After.step {s1 s2 : St} {a : Nat} (x : After s1 a) (ha : a < s1.heap.length) (q : Q0 s1 s2) (l : LStep s1 s2) : After s2 a := by
  have f := l x.rep.1 x.wf
  exact ⟨by rw [f.cfg]; exact x.rep, f.wf, K.of_q (Q.of_q0 q) x.k,
    x.o.elim (fun o => Or.inl (Once.of_q (Q.of_q0 q) x.k (fun y hy => by cases hy; exact ha) o))
             (fun o => Or.inr (Once.none_of_q (Q.of_q0 q) x.k o))⟩

theorem after_fire (st : St) (a : Nat) (flags : Nat) (info : Info) (b : B st) (ha : a < st.heap.length)
    (hk : (st.getW a).slot ≥ 0) (hok : st.isOk = true) (hl : st.live a = true) :
    After (fireUser st (st.getW a).slot flags info) a := by
  have f := fire_spec st a flags info b.k b.o ha hk hok (fun _ => hl)
  have l := l_fireUser st (st.getW a).slot flags info b.rep.1 b.wf
  exact ⟨by rw [l.cfg]; exact b.rep, l.wf, f.k, Or.inl f.o⟩

theorem after_laterCb (st : St) (a : Nat) (b : B st) (ha : a < st.heap.length) (hok : st.isOk = true) (hl : st.live a = true) :
    After (laterCb st a) a := by
  unfold laterCb
  split
  · rename_i hk; exact after_fire st a _ _ b ha hk hok hl
  · split
    · rename_i hs; exact After.of_b (b_processNotify st a ha hs b)
    · exact After.of_b b

theorem not_of_not_eq_true {b : Bool} (h : ¬(!b) = true) : b = true := by
  cases b with
  | true => rfl
  | false => exact absurd rfl h

theorem eq_false_of_not {b : Bool} (h : (!b) = true) : b = false := by
  cases b with
  | true => cases h
  | false => rfl

/-- The loop over the detached batch of deferred callbacks. -/
theorem b_laterLoopT (l : List Nat) : ∀ st : St, (∀ a ∈ l, a < st.heap.length ∧ ∀ t, a ∉ listOf st t) →
    BStep st (laterLoopT st l).1 := by
  induction l with
  | nil => intro st _; exact BStep.refl st
  | cons a rest ih =>
    intro st hl b
    unfold laterLoopT
    split
    · exact b
    · rename_i hok
      split
      · exact b_fail _ _ b
      · rename_i hlive
        have ha := hl a List.mem_cons_self
        have x := after_laterCb st a b ha.1 (not_of_not_eq_true hok) (not_of_not_eq_true hlive)
        have f1 := l_laterCb st a b.rep.1 b.wf
        split
        · rename_i hbad; exact x.b_of_not_ok (eq_false_of_not hbad)
        · split
          · rename_i hdead; exact b_fail _ _ (x.b_of_dead (eq_false_of_not hdead))
          · rename_i hl2
            have hl2' := not_of_not_eq_true hl2
            have hun1 := unlisted_after f1 ha.1 ha.2
            have x2 := x.step (St.live_lt hl2') (q0_free _ a) (lstep_free_unlisted (laterCb st a) a hun1)
            have b2 : B ((laterCb st a).free a) := x2.b_of_dead (St.live_free_self _ _ hl2')
            have f12 : LFacts st ((laterCb st a).free a) :=
              (LStep.trans (fun _ _ => f1) (lstep_free_unlisted (laterCb st a) a hun1)) b.rep.1 b.wf
            have hrest : ∀ c ∈ rest, c < ((laterCb st a).free a).heap.length ∧ ∀ t, c ∉ listOf ((laterCb st a).free a) t := by
              intro c hc
              have hc' := hl c (List.mem_cons_of_mem _ hc)
              exact ⟨Nat.lt_of_lt_of_le hc'.1 f12.len, unlisted_after f12 hc'.1 hc'.2⟩
            exact ih _ hrest b2

theorem b_timerLoopPopT (fuel : Nat) : ∀ (st : St) (now : TV), BStep st (timerLoopPopT fuel st now).1 := by
  induction fuel with
  | zero => intro st now; unfold timerLoopPopT; exact b_outOfFuel st
  | succ n ih =>
    intro st now b
    unfold timerLoopPopT
    split
    · exact b
    · rename_i hok
      split
      · exact b
      · rename_i a rest hq
        split
        · exact b_fail _ _ b
        · rename_i hlive
          split
          · exact b
          · have hok' := not_of_not_eq_true hok
            have hlive' := not_of_not_eq_true hlive
            have ha : a ∈ listOf st .timer := by show a ∈ st.timers; rw [hq]; exact List.mem_cons_self
            obtain ⟨fE, hun⟩ := lfacts_erase st a .timer b.wf ha
            rw [← pop_is_erase st a rest hq] at fE hun
            have halt : a < st.heap.length := b.wf.alloc ha
            -- the queue without its head
            have b0 : B ({ st with timers := rest } : St) :=
              ⟨b.rep, fE.wf, K.of_q (Q.of_q0 (q0_with_timers st rest)) b.k, Once.none_of_q (Q.of_q0 (q0_with_timers st rest)) b.k b.o⟩
            have f1' := l_fireUser { st with timers := rest } (st.getW a).slot (EV_FIRE ||| EV_UNBIND) .none b.rep.1 fE.wf
            have hun1 := unlisted_after f1' (show a < ({ st with timers := rest } : St).heap.length from halt) hun
            -- the callback
            have x : After (fireUser { st with timers := rest } (st.getW a).slot (EV_FIRE ||| EV_UNBIND) .none) a := by
              by_cases hk : (st.getW a).slot ≥ 0
              · exact after_fire { st with timers := rest } a _ _ b0 halt hk hok' hlive'
              · rw [fireUser_neg _ _ _ _ b0.k (by omega)]
                exact After.of_b (b_emit _ _ b0)
            simp only []
            split
            · rename_i hbad; exact x.b_of_not_ok (eq_false_of_not hbad)
            · split
              · rename_i hdead; exact b_fail _ _ (x.b_of_dead (eq_false_of_not hdead))
              · rename_i hl2
                have hl2' := not_of_not_eq_true hl2
                have x2 := x.step (St.live_lt hl2') (q0_free _ a) (lstep_free_unlisted _ a hun1)
                exact ih _ _ (x2.b_of_dead (St.live_free_self _ _ hl2'))

theorem b_timerPhase (fuel : Nat) (st : St) : BStep st (timerPhase fuel st) := by
  intro b
  unfold timerPhase
  split
  · exact b
  · rw [if_pos b.rep.1]
    exact b_timerLoopPopT _ _ _ (b_emit _ _ b)

theorem b_invokeTimers (fuel : Nat) (st : St) : BStep st (invokeTimers fuel st) := by
  intro b
  unfold invokeTimers
  split
  · exact b
  · have w := b.wf
    have hc := b.rep.1
    -- detaching the later queue (as in `l_invokeTimers`)
    have f0 : LFacts st { st with laters := [] } := by
      have hsub : ∀ t, (listOf ({ st with laters := [] } : St) t).Sublist (listOf st t) := by
        intro t; cases t <;> first | exact List.Sublist.refl _ | exact List.nil_sublist _
      exact ⟨⟨fun t => (w.nodup t).sublist (hsub t), fun t b hb => w.live t b ((hsub t).subset hb),
        fun t b hb => w.typ t b ((hsub t).subset hb)⟩, Nat.le_refl _, fun t x hx => Or.inl ((hsub t).subset hx), rfl⟩
    have hdet : ∀ a ∈ st.laters, a < ({ st with laters := [] } : St).heap.length ∧ ∀ t, a ∉ listOf ({ st with laters := [] } : St) t := by
      intro a ha
      have ha' : a ∈ listOf st .later := ha
      refine ⟨w.alloc ha', ?_⟩
      intro t h
      have hsub : (listOf ({ st with laters := [] } : St) t).Sublist (listOf st t) := by
        cases t <;> first | exact List.Sublist.refl _ | exact List.nil_sublist _
      have h' := hsub.subset h
      by_cases ht : t = .later
      · subst ht; cases h
      · have h1 := w.typ t a h'
        have h2 := w.typ .later a ha'
        exact ht (h1.symm.trans h2)
    have b0 : B ({ st with laters := [] } : St) :=
      ⟨b.rep, f0.wf, K.of_q (Q.of_q0 (q0_with_laters st [])) b.k, Once.none_of_q (Q.of_q0 (q0_with_laters st [])) b.k b.o⟩
    have f1' := l_timerPhase fuel { st with laters := [] } hc f0.wf
    have hdet1 : ∀ a ∈ st.laters, a < (timerPhase fuel { st with laters := [] }).heap.length ∧
        ∀ t, a ∉ listOf (timerPhase fuel { st with laters := [] }) t :=
      fun a ha => ⟨Nat.lt_of_lt_of_le (hdet a ha).1 f1'.len, unlisted_after f1' (hdet a ha).1 (hdet a ha).2⟩
    exact b_laterLoopT st.laters _ hdet1 (b_timerPhase _ _ b0)

/-! signals -/

theorem b_sigCb (fuel : Nat) (st : St) (a : Nat) (s : Int) (ha : a < st.heap.length) (ht : isOneShot (st.getW a).type = false)
    (hok : st.isOk = true) : BStep st (sigCb fuel st a s) := by
  unfold sigCb
  split
  · split
    · rename_i hk; exact b_fire_other st a _ _ ha ht hk hok
    · split
      · exact b_onSigchldAny _ _
      · split
        · exact BStep.of_q0 (q0_with_stillRunning _ _) (g4_with_stillRunning _ _).lstep
        · exact BStep.refl _
  · exact BStep.refl _

theorem b_sigSnapLoopT (fuel : Nat) (s : Int) (l : List Nat) : ∀ st : St, BStep st (sigSnapLoopT fuel st s l).1 := by
  induction l with
  | nil => intro st; exact BStep.refl st
  | cons a rest ih =>
    intro st
    unfold sigSnapLoopT
    split
    · exact BStep.refl _
    · rename_i hok
      split
      · exact b_fail _ _
      · split
        · exact ih _
        · rename_i hin
          split
          · exact b_fail _ _
          · intro b
            have hmem : a ∈ listOf st .signal := by
              have : st.signals.contains a = true := not_of_not_eq_true hin
              show a ∈ st.signals
              simpa using this
            have hty := b.wf.typ .signal a hmem
            exact ih _ (b_sigCb fuel st a s (b.wf.alloc hmem) (by rw [hty]; rfl) (not_of_not_eq_true hok) b)

theorem b_sigDispatch (fuel : Nat) (st : St) (s : Int) : BStep st (sigDispatch fuel st s) := by
  intro b
  unfold sigDispatch
  rw [if_pos b.rep.2.2.1]
  split
  · exact b_fail _ _ b
  · exact b_sigSnapLoopT _ _ _ _ b

theorem b_dispatchLoop (fuel : Nat) (pending : List Int) (l : List Int) : ∀ st : St, BStep st (dispatchLoop fuel st pending l) := by
  induction l with
  | nil => intro st; exact BStep.refl st
  | cons s rest ih =>
    intro st
    unfold dispatchLoop
    refine BStep.trans ?_ (ih _)
    split
    · exact b_sigDispatch _ _ _
    · exact BStep.refl _

theorem b_dispatchSignals (fuel : Nat) (st : St) : BStep st (dispatchSignals fuel st) := by
  unfold dispatchSignals
  exact (BStep.of_q0 (q0_with_pendingSig st []) (g4_with_pendingSig st []).lstep).trans (b_dispatchLoop _ _ _ _)

/-! descriptors -/

theorem b_ioCb (st : St) (s : PollSlot) (hs : s ∈ st.pfd) : BStep st (ioCb st s) := by
  intro b
  unfold ioCb
  split
  · rename_i a hw
    obtain ⟨h1, h2⟩ := b.k.p1 s hs a hw
    split
    · exact b_fail _ _ b
    · exact b_invokeWatch _ _ _ _ h1 h2 b
  · exact b

theorem getD_mem_pfd {l : List PollSlot} {i : Nat} (h : i < l.length) : l.getD i default ∈ l := by
  rw [List.getD_eq_getElem?_getD, List.getElem?_eq_getElem h]
  exact List.getElem_mem h

theorem b_ioLoopT (fuel : Nat) : ∀ (st : St) (idx : Nat), BStep st (ioLoopT fuel st idx).1 := by
  induction fuel with
  | zero => intro st idx; unfold ioLoopT; exact b_outOfFuel st
  | succ n ih =>
    intro st idx
    unfold ioLoopT
    split
    · exact BStep.refl _
    · split
      · exact BStep.refl _
      · rename_i hidx
        split
        · exact ih _ _
        · split
          · exact ih _ _
          · exact (b_ioCb _ _ (getD_mem_pfd (by omega))).trans (ih _ _)

theorem b_ioLoop (fuel : Nat) (st : St) (idx : Nat) : BStep st (ioLoop fuel st idx) := b_ioLoopT fuel st idx

/-! the wait -/

theorem q0_foldl_raiseSig (l : List Int) : ∀ st : St, Q0 st (l.foldl raiseSig st) := by
  induction l with
  | nil => intro st; exact Q0.refl st
  | cons s rest ih => intro st; exact (q0_raiseSig st s).trans (ih _)

theorem q0_pollScan (st : St) : Q0 st (pollScan st) :=
  Q0.of_eq rfl rfl rfl (by unfold pollScan; simp [List.map_map, Function.comp_def])

theorem q0_pollRaise (st : St) : Q0 st (pollRaise st) := by
  unfold pollRaise
  exact (q0_with_inpoll st []).trans (q0_foldl_raiseSig _ _)

theorem q0_pollTimeout (st : St) (t : Option Int) : Q0 st (pollTimeout st t) := by
  unfold pollTimeout
  split
  · exact Q0.of_eq rfl rfl rfl rfl
  · exact Q0.refl _

theorem q0_deliverPending (st : St) : Q0 st (deliverPending st) := by
  unfold deliverPending
  split <;> exact Q0.of_eq rfl rfl rfl rfl

theorem q0_ppoll (st : St) (t : Option Int) : Q0 st (ppoll st t).1 := by
  unfold ppoll
  split
  · exact (q0_pollScan st).trans (q0_pollRaise _)
  · split
    · exact ((q0_pollScan st).trans (q0_pollRaise _)).trans (q0_emit _ _)
    · split
      · exact ((((q0_pollScan st).trans (q0_pollRaise _)).trans (q0_deliverPending _)).trans (q0_with_errno _ _)).trans (q0_emit _ _)
      · exact (((q0_pollScan st).trans (q0_pollRaise _)).trans (q0_pollTimeout _ _)).trans (q0_emit _ _)

theorem q0_nextTimerMsec (st : St) : Q0 st (nextTimerMsec st).1 := by
  unfold nextTimerMsec
  split
  · exact Q0.refl _
  · split
    · exact Q0.refl _
    · split
      · exact (q0_emit _ _).trans (q0_fail _ _)
      · exact q0_emit _ _

theorem b_tickAfterPoll (fuel : Nat) (st : St) (ret : Option Nat) : BStep st (tickAfterPoll fuel st ret) := by
  unfold tickAfterPoll
  split
  · exact b_invokeTimers _ _
  · split
    · split
      · exact (b_invokeTimers _ _).trans (b_ioLoop _ _ _)
      · exact b_invokeTimers _ _
    · split
      · exact (b_invokeTimers _ _).trans (b_dispatchSignals _ _)
      · exact b_invokeTimers _ _

theorem b_tick (fuel : Nat) (st : St) (nohang : Bool) : BStep st (tick fuel st nohang) := by
  unfold tick
  split
  · exact BStep.refl _
  · split
    · exact BStep.of_q0 (q0_nextTimerMsec _) (g4_nextTimerMsec _).lstep
    · split
      · exact BStep.of_q0 ((q0_nextTimerMsec _).trans (q0_ppoll _ _)) ((g4_nextTimerMsec _).trans (g4_ppoll _ _)).lstep
      · exact (BStep.of_q0 ((q0_nextTimerMsec _).trans (q0_ppoll _ _)) ((g4_nextTimerMsec _).trans (g4_ppoll _ _)).lstep).trans
          (b_tickAfterPoll _ _ _)

theorem q0_ppollRun (st : St) (t : Option Int) : Q0 st (ppollRun st t).1 := by
  unfold ppollRun
  split
  · exact q0_ppoll _ _
  · split
    · exact ((q0_ppoll st t).trans (Q0.of_eq rfl rfl rfl rfl : Q0 (ppoll st t).1
        { (ppoll st t).1 with runPolls := (ppoll st t).1.runPolls + 1, stillRunning := false })).trans (q0_emit _ _)
    · exact (q0_ppoll st t).trans (Q0.of_eq rfl rfl rfl rfl : Q0 (ppoll st t).1
        { (ppoll st t).1 with runPolls := (ppoll st t).1.runPolls + 1 })

theorem b_runIter (fuel : Nat) (st : St) : BStep st (runIter fuel st) := by
  unfold runIter
  split
  · exact BStep.refl _
  · split
    · exact BStep.of_q0 (q0_nextTimerMsec _) (g4_nextTimerMsec _).lstep
    · split
      · exact BStep.of_q0 ((q0_nextTimerMsec _).trans (q0_ppollRun _ _)) ((g4_nextTimerMsec _).trans (g4_ppollRun _ _)).lstep
      · exact (BStep.of_q0 ((q0_nextTimerMsec _).trans (q0_ppollRun _ _)) ((g4_nextTimerMsec _).trans (g4_ppollRun _ _)).lstep).trans
          (b_tickAfterPoll _ _ _)

theorem b_runLoop (fuel : Nat) (n : Nat) : ∀ st : St, BStep st (runLoop fuel n st) := by
  induction n with
  | zero => intro st; unfold runLoop; exact b_outOfFuel st
  | succ k ih =>
    intro st
    unfold runLoop
    split
    · exact BStep.refl _
    · split
      · exact BStep.refl _
      · exact (b_runIter _ _).trans (ih _)

theorem q0_with_inRun (st : St) (b : Bool) : Q0 st { st with inRun := b } := Q0.of_eq rfl rfl rfl rfl
theorem b_with_inRun (st : St) (b : Bool) : BStep st { st with inRun := b } := BStep.of_q0 (q0_with_inRun st b) (g4_with_inRun st b).lstep
theorem b_watchCancel (st : St) (a : Nat) : BStep st (watchCancel st a) := BStep.of_q0 (q0_watchCancel st a) (l_watchCancel st a)

theorem b_run (fuel : Nat) (st : St) : BStep st (run fuel st) := by
  have h0 : BStep st { (watchSignal st 2 0 (-5)).1 with stillRunning := true, inRun := true, runPolls := 0 } :=
    BStep.of_q0 (((reg_watchSignal st 2 0 (-5) (by decide)).q0 (by decide)).trans (Q0.of_eq rfl rfl rfl rfl))
      ((lstep_watchSignal st 2 0 (-5)).trans (g4_run_flags _).lstep)
  unfold run
  split
  · exact BStep.refl _
  · split
    · exact h0.trans (b_runLoop _ _ _)
    · intro b
      exact b_watchCancel _ _ (b_with_inRun _ _ (b_runLoop _ _ _ (h0 b)))

/-! ### destruction, whole operations, histories -/

theorem q0_destroyNotify (st : St) (a : Nat) : Q0 st (destroyNotify st a) := by
  unfold destroyNotify
  split
  · exact q0_notify _ _ _
  · exact Q0.refl _

theorem q0_destroyList (t : WType) (l : List Nat) : ∀ st : St, Q0 st (destroyList st t l) := by
  induction l with
  | nil => intro st; exact Q0.refl st
  | cons a rest ih =>
    intro st
    unfold destroyList
    split
    · exact Q0.refl _
    · split
      · exact q0_fail _ _
      · exact (((q0_destroyNotify _ _).trans (q0_cancelHook _ _ _)).trans (q0_free _ a)).trans (ih _)

theorem q0_destroyOf (t : WType) (st : St) : Q0 st (destroyOf t st) := q0_destroyList _ _ _

theorem q0_cancelSigchld (st : St) : Q0 st (cancelSigchld st) := by
  unfold cancelSigchld
  split
  · exact q0_watchCancel _ _
  · exact Q0.refl _

theorem q0_destroyFinish (st : St) : Q0 st (destroyFinish st) := by
  unfold destroyFinish
  split
  · exact Q0.of_eq rfl rfl rfl rfl
  · exact Q0.refl _

theorem q0_destroy (st : St) : Q0 st (destroy st) := by
  unfold destroy
  split
  · exact Q0.refl _
  · exact ((((((q0_cancelSigchld st).trans (q0_destroyOf _ _)).trans (q0_destroyOf _ _)).trans (q0_destroyOf _ _)).trans
      (q0_destroyOf _ _)).trans (q0_destroyOf _ _)).trans (q0_destroyFinish _)

/-- `K` and `Once` after one operation of the harness. -/
theorem ko_applyOp (st : St) (op : Op) (b : B st) : K (applyOp st op) ∧ Once none (applyOp st op) := by
  unfold applyOp
  have b0 : B ({ st with log := [] } : St) :=
    BStep.of_q0 (Q0.of_eq rfl rfl rfl rfl : Q0 st { st with log := [] }) (G4.of_eq rfl rfl rfl rfl rfl rfl rfl : G4 st { st with log := [] }).lstep b
  generalize ({ st with log := [] } : St) = s0 at b0
  have qk : ∀ s1, Q0 s0 s1 → K s1 ∧ Once none s1 := fun s1 q => ⟨K.of_q (Q.of_q0 q) b0.k, Once.none_of_q (Q.of_q0 q) b0.k b0.o⟩
  have bk : ∀ s1, B s1 → K s1 ∧ Once none s1 := fun s1 x => ⟨x.k, x.o⟩
  unfold applyOp'
  split
  · exact bk _ b0
  · split
    · exact bk _ b0
    · exact bk _ b0
    · exact bk _ b0
    · split
      · exact bk _ b0
      · split
        · exact qk _ (Q0.of_eq rfl rfl rfl rfl)
        · exact bk _ (BStep.of_q (q_runAct s0 _) (l_runAct s0 _) b0)
        · exact qk _ (Q0.of_eq rfl rfl rfl rfl)
        · exact qk _ (Q0.of_eq rfl rfl rfl rfl)
        · exact qk _ (Q0.of_eq rfl rfl rfl rfl)
        · exact bk _ (b_tick _ _ _ (BStep.of_q0 (q0_with_stillRunning s0 true) (g4_with_stillRunning s0 true).lstep b0))
        · exact bk _ (b_tick _ _ _ (BStep.of_q0 (q0_with_stillRunning s0 true) (g4_with_stillRunning s0 true).lstep b0))
        · exact bk _ (b_run _ _ b0)
        · exact qk _ (q0_destroy _)
        · exact bk _ b0

theorem b_applyOp (st : St) (op : Op) (b : B st) (hok : (applyOp st op).status = .ok) : B (applyOp st op) := by
  obtain ⟨w, hc⟩ := cfg_applyOp_eq st op b.rep.1 b.wf hok
  obtain ⟨k, o⟩ := ko_applyOp st op b
  exact ⟨by rw [hc]; exact b.rep, w, k, o⟩

theorem b_build (cfg : Config) (hr : Rep cfg) : B (build cfg) := by
  obtain ⟨w, hc⟩ := wf_build cfg hr.1
  have k0 : K (build0 cfg) :=
    ⟨fun a ha => (by cases ha), List.nodup_nil, fun r hr => (by cases hr), fun s hs => (by cases hs), fun l hl => (by cases hl),
     fun r hr => (by cases hr)⟩
  have o0 : Once none (build0 cfg) := fun r hr => by cases hr
  have q : Q0 (build0 cfg) (build cfg) := by
    unfold build
    exact (((reg_watchIo (build0 cfg) (-1) IO_IN 0 (-1) (by decide)).q0 (by decide)).trans
      ((reg_watchSignal _ SIGWINCH 0 (-2) (by decide)).q0 (by decide))).trans (Q0.of_eq rfl rfl rfl rfl)
  exact ⟨by rw [hc]; exact hr, w, K.of_q (Q.of_q0 q) k0, Once.none_of_q (Q.of_q0 q) k0 o0⟩

/-- Every state a history reaches under the repaired source, if its status is ok, has the bundle. -/
theorem b_runOps (cfg : Config) (hr : Rep cfg) (ops : List Op) (hok : (runOps cfg ops).status = .ok) : B (runOps cfg ops) := by
  unfold runOps at hok ⊢
  have : ∀ (l : List Op) (st : St), B st → (l.foldl applyOp st).status = .ok → B (l.foldl applyOp st) := by
    intro l
    induction l with
    | nil => intro st b _; exact b
    | cons o rest ih =>
      intro st b hfin
      simp only [List.foldl_cons] at hfin ⊢
      have hmid : (applyOp st o).status = .ok := by
        apply Classical.byContradiction
        intro hne
        have : ∀ (l : List Op) (s : St), s.status ≠ .ok → (l.foldl applyOp s).status ≠ .ok := by
          intro l
          induction l with
          | nil => intro s hs; exact hs
          | cons o' r' ih' => intro s hs; exact ih' _ (status_applyOp_of_not_ok s o' hs)
        exact this rest _ hne hfin
      exact ih _ (b_applyOp st o b hmid) hfin
  exact this ops _ (b_build cfg hr) hok

end Tickit.EvLoop
