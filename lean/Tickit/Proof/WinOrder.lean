import Tickit.Proof.WinClose
/-
  Window ids are handed out in creation order and a window's parent exists when it is created, so in every reachable
  store a child has a larger id than the window that lists it (`Ordered`).  With that the painter's-model owner does
  not depend on the fuel once the fuel reaches the size of the store (`ownerLoc_fuel_succ`, `ownerAt_fuel`): this is
  what the invariant step of `tickit_window_new` needs (the store grows by one slot, and so does the fuel `ownerAt` uses).
-/
namespace Tickit
namespace WinFlush
open WinTree WinRB WinSpec

/-- Children have larger ids than the window that lists them. -/
def Ordered (t : Tree) : Prop := ∀ (x : Nat) (w : Win), t.wins[x]? = some w → ∀ ch ∈ w.children, @LT.lt Nat _ x ch

theorem ownerLoc_unfold (t : Tree) (n : Nat) (id : Id) (l c : Int) :
    ownerLoc t (n + 1) id l c =
      match t.wins[id]? with
      | none => none
      | some w =>
        if !w.isVisible || w.freed then none
        else if !(w.rect.memb l c) then none
        else
          match w.children.findSome? (fun ch => ownerLoc t n ch (l - w.rect.top) (c - w.rect.left)) with
          | some o => some o
          | none => some (id, l - w.rect.top, c - w.rect.left) := rfl

/-- **Fuel independence**: in an ordered store, one more unit of fuel changes nothing once `id + fuel` reaches the size
    of the store. -/
theorem ownerLoc_fuel_succ (t : Tree) (ho : Ordered t) : ∀ (n : Nat) (id : Id) (l c : Int), t.wins.size ≤ id + n →
    ownerLoc t (n + 1) id l c = ownerLoc t n id l c := by
  intro n
  induction n with
  | zero =>
    intro id l c h
    have hnone : t.wins[id]? = none := Array.getElem?_eq_none (by omega)
    rw [ownerLoc_unfold, hnone]
    rfl
  | succ m ih =>
    intro id l c h
    rw [ownerLoc_unfold t (m + 1), ownerLoc_unfold t m]
    cases hw : t.wins[id]? with
    | none => rfl
    | some w =>
      simp only
      have hall : ∀ ch ∈ w.children, ownerLoc t (m + 1) ch (l - w.rect.top) (c - w.rect.left) =
          ownerLoc t m ch (l - w.rect.top) (c - w.rect.left) := by
        intro ch hch
        have hlt : @LT.lt Nat _ id ch := ho id w hw ch hch
        have hsz : t.wins.size ≤ ch + m := by omega
        exact ih ch _ _ hsz
      rw [findSome?_congr_mem _ _ _ hall]

theorem ownerLoc_fuel_add (t : Tree) (ho : Ordered t) (n : Nat) (id : Id) (l c : Int) (h : t.wins.size ≤ id + n) :
    ∀ k, ownerLoc t (n + k) id l c = ownerLoc t n id l c := by
  intro k
  induction k with
  | zero => rfl
  | succ j ih =>
    rw [← ih]
    exact ownerLoc_fuel_succ t ho (n + j) id l c (by omega)

/-- The owner of a terminal cell, computed with any fuel from the size of the store on. -/
theorem ownerAt_fuel (t : Tree) (ho : Ordered t) (n : Nat) (h : t.wins.size ≤ n) (L C : Int) :
    ownerLoc t n 0 L C = ownerAt t L C := by
  unfold ownerAt
  by_cases hle : n ≤ t.wins.size + 1
  · obtain ⟨k, hk⟩ : ∃ k, t.wins.size + 1 = n + k := ⟨t.wins.size + 1 - n, by omega⟩
    rw [hk]
    exact (ownerLoc_fuel_add t ho n 0 L C (by omega) k).symm
  · obtain ⟨k, hk⟩ : ∃ k, n = t.wins.size + 1 + k := ⟨n - (t.wins.size + 1), by omega⟩
    rw [hk]
    exact ownerLoc_fuel_add t ho (t.wins.size + 1) 0 L C (by omega) k

/-- `Ordered` only depends on the child lists, and is inherited by sub-lists. -/
theorem ordered_of_children {t t' : Tree}
    (h : ∀ (x : Id) (w' : Win), t'.wins[x]? = some w' → ∃ w, t.wins[x]? = some w ∧ ∀ ch ∈ w'.children, ch ∈ w.children)
    (ho : Ordered t) : Ordered t' := by
  intro x w' hw' ch hch
  obtain ⟨w, hw, hsub⟩ := h x w' hw'
  exact ho x w hw ch (hsub ch hch)

theorem ordered_congr {t t' : Tree} (h : t'.wins = t.wins) (ho : Ordered t) : Ordered t' := by
  intro x w hw; rw [h] at hw; exact ho x w hw

theorem ordered_core {t t' : Tree} (h : ∀ x : Id, (t'.wins[x]?).map core = (t.wins[x]?).map core) (ho : Ordered t) :
    Ordered t' := by
  apply ordered_of_children _ ho
  intro x w' hw'
  have hx := h x
  rw [hw'] at hx
  cases hw : t.wins[x]? with
  | none => rw [hw] at hx; simp at hx
  | some w =>
    rw [hw] at hx
    simp only [Option.map_some, Option.some.injEq, core, Prod.mk.injEq] at hx
    exact ⟨w, rfl, fun ch hch => by rw [← hx.2.2.2.1]; exact hch⟩

theorem ordered_sameBut {t t' : Tree} {id : Id} (h : SameBut t t' id) (ho : Ordered t) : Ordered t' := by
  apply ordered_of_children _ ho
  intro x w' hw'
  have hx := sameBut_noVis h x
  rw [hw'] at hx
  cases hw : t.wins[x]? with
  | none => rw [hw] at hx; simp at hx
  | some w =>
    rw [hw] at hx
    simp only [Option.map_some, Option.some.injEq, coreNoVis, Prod.mk.injEq] at hx
    exact ⟨w, rfl, fun ch hch => by rw [← hx.2.2.1]; exact hch⟩

theorem ordered_sameButG {t t' : Tree} {id : Id} (h : SameButG t t' id) (ho : Ordered t) : Ordered t' := by
  apply ordered_of_children _ ho
  intro x w' hw'
  obtain ⟨w, hw, hcs, _⟩ := sameButG_struct (sameButG_symm h) x hw'
  simp only [coreSelf, Prod.mk.injEq] at hcs
  exact ⟨w, hw, fun ch hch => by rw [hcs.2.1]; exact hch⟩

end WinFlush
end Tickit
