import Tickit.Proof.LifeClose
/-
  C08 proofs, part 3: `tickit_window_unref` / `tickit_window_destroy` after the repairs.
  The cascade closes every child before dropping its reference, so that when a window is finally freed nothing in
  the tree, in the queue of requests or in the drag context points at it.
-/
namespace Tickit.Life
open WinTree (Id Win Req Change Tree)

/-! ## how a window may change during a cascade -/

/-- Evolution of a window other than the one being destroyed: it may die; if it lives on, its reference count is
    unchanged or it has just been closed by its dying parent and lost the one reference that parent takes. -/
def WEv (w w' : Win) : Prop :=
  (w.freed = true → w'.freed = true) ∧
  (w'.freed = false → 1 ≤ w.refcount → 1 ≤ w'.refcount) ∧
  (w'.freed = false →
    (w'.refcount = w.refcount ∨ (w'.refcount + 1 = w.refcount ∧ w.isClosed = false ∧ w'.isClosed = true))) ∧
  (w.isClosed = true → w'.isClosed = true)

theorem WEv.refl (w : Win) : WEv w w := ⟨id, fun _ h => h, fun _ => .inl rfl, id⟩

theorem WEv.trans {a b c : Win} (h1 : WEv a b) (h2 : WEv b c) : WEv a c := by
  obtain ⟨f1, r1, e1, c1⟩ := h1
  obtain ⟨f2, r2, e2, c2⟩ := h2
  have bl : c.freed = false → b.freed = false := by
    intro hc
    cases hb : b.freed with
    | false => rfl
    | true => rw [f2 hb] at hc; cases hc
  refine ⟨fun h => f2 (f1 h), fun hc ha => r2 hc (r1 (bl hc) ha), ?_, fun h => c2 (c1 h)⟩
  intro hc
  rcases e2 hc with h | ⟨h, hb, hcc⟩
  · rcases e1 (bl hc) with h' | ⟨h', ha, hbb⟩
    · exact .inl (h.trans h')
    · exact .inr ⟨by omega, ha, c2 hbb⟩
  · rcases e1 (bl hc) with h' | ⟨_, _, hbb⟩
    · refine .inr ⟨by omega, ?_, hcc⟩
      cases ha : a.isClosed with
      | false => rfl
      | true => rw [c1 ha] at hb; cases hb
    · rw [hbb] at hb; cases hb

/-- Evolution of a tree, window by window. -/
def TEv (t t' : Tree) : Prop :=
  t'.wins.size = t.wins.size ∧ ∀ (i : Nat) (w : Win), t.wins[i]? = some w → ∃ w', t'.wins[i]? = some w' ∧ WEv w w'

theorem TEv.refl (t : Tree) : TEv t t := ⟨rfl, fun _ w h => ⟨w, h, WEv.refl w⟩⟩

theorem TEv.trans {a b c : Tree} (h1 : TEv a b) (h2 : TEv b c) : TEv a c := by
  refine ⟨h2.1.trans h1.1, ?_⟩
  intro i w hw
  obtain ⟨w', hw', e1⟩ := h1.2 i w hw
  obtain ⟨w'', hw'', e2⟩ := h2.2 i w' hw'
  exact ⟨w'', hw'', e1.trans e2⟩

/-- A relation that keeps `freed`, `refcount` and `isClosed` (up to closing an unlinked window with no change of
    count) is an evolution. -/
theorem TRel.toEv {t t' : Tree} (h : TRel t t')
    (hrc : ∀ (i : Nat) (w w' : Win), t.wins[i]? = some w → t'.wins[i]? = some w' → w'.refcount = w.refcount ∧ (w.isClosed = true → w'.isClosed = true)) :
    TEv t t' := by
  refine ⟨h.1, ?_⟩
  intro i w hw
  obtain ⟨w', hw', hrel⟩ := h.2 i w hw
  obtain ⟨hr, hc⟩ := hrc i w w' hw hw'
  exact ⟨w', hw', ⟨fun hf => by rw [hrel.2.2.1]; exact hf, fun _ h1 => by rw [hr]; exact h1, fun _ => .inl hr, hc⟩⟩

/-! ## the list of windows a cascade has freed -/

def DeadOk (t t' : Tree) (dead : List Nat) : Prop :=
  dead.Nodup ∧ ∀ (i : Nat), i ∈ dead ↔ ((∃ w, LiveW t i w) ∧ ∃ w', t'.wins[i]? = some w' ∧ w'.freed = true)

theorem DeadOk.nil {t t' : Tree} (h : TEv t t') (hlive : ∀ (i : Nat) (w : Win), LiveW t i w → ∃ w', LiveW t' i w') :
    DeadOk t t' [] := by
  refine ⟨List.nodup_nil, ?_⟩
  intro i
  constructor
  · intro h; simp at h
  · rintro ⟨⟨w, hl⟩, w', hw', hf⟩
    obtain ⟨w'', hl''⟩ := hlive i w hl
    rw [hl''.1] at hw'; cases hw'
    rw [hl''.2] at hf; cases hf

theorem DeadOk.append {a b c : Tree} {d1 d2 : List Nat} (e1 : TEv a b) (e2 : TEv b c)
    (h1 : DeadOk a b d1) (h2 : DeadOk b c d2) : DeadOk a c (d1 ++ d2) := by
  refine ⟨?_, ?_⟩
  · rw [List.nodup_append]
    refine ⟨h1.1, h2.1, ?_⟩
    intro x hx y hy hxy
    subst hxy
    obtain ⟨_, w', hw', hf⟩ := (h1.2 x).1 hx
    obtain ⟨⟨w, hl⟩, _⟩ := (h2.2 x).1 hy
    rw [hl.1] at hw'; cases hw'
    rw [hl.2] at hf; cases hf
  · intro i
    rw [List.mem_append, h1.2, h2.2]
    constructor
    · rintro (⟨hl, w', hw', hf⟩ | ⟨⟨w, hl⟩, hfr⟩)
      · obtain ⟨w'', hw'', ev⟩ := e2.2 i w' hw'
        exact ⟨hl, w'', hw'', ev.1 hf⟩
      · refine ⟨?_, hfr⟩
        cases ha : a.wins[i]? with
        | none =>
          have hlt : ¬ i < a.wins.size := by
            intro hlt
            have := Array.getElem?_eq_getElem (xs := a.wins) hlt
            rw [ha] at this; cases this
          have : b.wins[i]? = none := Array.getElem?_eq_none (by rw [e1.1]; exact Nat.le_of_not_lt hlt)
          rw [hl.1] at this; cases this
        | some wa =>
          obtain ⟨wb, hwb, ev⟩ := e1.2 i wa ha
          rw [hl.1] at hwb; cases hwb
          refine ⟨wa, ha, ?_⟩
          cases hfa : wa.freed with
          | false => rfl
          | true => have := hl.2; rw [ev.1 hfa] at this; cases this
    · rintro ⟨⟨w, hl⟩, w'', hw'', hf⟩
      obtain ⟨wb, hwb, _⟩ := e1.2 i w hl.1
      cases hfb : wb.freed with
      | true => exact .inl ⟨⟨w, hl⟩, wb, hwb, hfb⟩
      | false => exact .inr ⟨⟨wb, hwb, hfb⟩, w'', hw'', hf⟩

/-! ## the children whose reference a dying parent has dropped -/

/-- Every dropped child was live and not yet closed; if it lives on it has lost exactly one reference and is closed. -/
def DropOk (t t' : Tree) (x : Nat) (dropped : List Nat) : Prop :=
  dropped.Nodup ∧ ∀ i ∈ dropped, x < i ∧ (∃ w, LiveW t i w ∧ w.isClosed = false) ∧
    ∀ (w w' : Win), t.wins[i]? = some w → t'.wins[i]? = some w' → w'.freed = false →
      (w'.refcount + 1 = w.refcount ∧ w'.isClosed = true)

theorem DropOk.nil (t t' : Tree) (x : Nat) : DropOk t t' x [] :=
  ⟨List.nodup_nil, by intro i hi; simp at hi⟩

theorem TEv.win_back {a b : Tree} (e : TEv a b) {i : Nat} {wb : Win} (h : b.wins[i]? = some wb) :
    ∃ wa, a.wins[i]? = some wa ∧ WEv wa wb := by
  cases ha : a.wins[i]? with
  | none =>
    have hlt : ¬ i < a.wins.size := by
      intro hlt
      have := Array.getElem?_eq_getElem (xs := a.wins) hlt
      rw [ha] at this; cases this
    have : b.wins[i]? = none := Array.getElem?_eq_none (by rw [e.1]; exact Nat.le_of_not_lt hlt)
    rw [h] at this; cases this
  | some wa =>
    obtain ⟨wb', hb', ev⟩ := e.2 i wa ha
    rw [h] at hb'; cases hb'
    exact ⟨wa, rfl, ev⟩

theorem DropOk.append {a b c : Tree} {x : Nat} {d1 d2 : List Nat} (e1 : TEv a b) (e2 : TEv b c)
    (h1 : DropOk a b x d1) (h2 : DropOk b c x d2) : DropOk a c x (d1 ++ d2) := by
  refine ⟨?_, ?_⟩
  · rw [List.nodup_append]
    refine ⟨h1.1, h2.1, ?_⟩
    intro i hi j hj hij
    subst hij
    obtain ⟨_, ⟨wa, hla, _⟩, hc1⟩ := h1.2 i hi
    obtain ⟨_, ⟨wb, hlb, hnb⟩, _⟩ := h2.2 i hj
    have := (hc1 wa wb hla.1 hlb.1 hlb.2).2
    rw [hnb] at this; cases this
  · intro i hi
    rw [List.mem_append] at hi
    rcases hi with hi | hi
    · obtain ⟨hx, hex, hc1⟩ := h1.2 i hi
      refine ⟨hx, hex, ?_⟩
      intro w w'' hw hw'' hf''
      obtain ⟨w', hw', ev2⟩ := e2.win_back hw''
      have hf' : w'.freed = false := by
        cases hf' : w'.freed with
        | false => rfl
        | true => rw [ev2.1 hf'] at hf''; cases hf''
      obtain ⟨hr, hcl⟩ := hc1 w w' hw hw' hf'
      rcases ev2.2.2.1 hf'' with h | ⟨_, hncl, _⟩
      · exact ⟨by omega, ev2.2.2.2 hcl⟩
      · rw [hcl] at hncl; cases hncl
    · obtain ⟨hx, ⟨wb, hlb, hnb⟩, hc2⟩ := h2.2 i hi
      obtain ⟨wa, hwa, ev1⟩ := e1.win_back hlb.1
      have hfa : wa.freed = false := by
        cases hfa : wa.freed with
        | false => rfl
        | true => have := ev1.1 hfa; rw [hlb.2] at this; cases this
      have hna : wa.isClosed = false := by
        cases hna : wa.isClosed with
        | false => rfl
        | true => have := ev1.2.2.2 hna; rw [hnb] at this; cases this
      refine ⟨hx, ⟨wa, ⟨hwa, hfa⟩, hna⟩, ?_⟩
      intro w w'' hw hw'' hf''
      rw [hwa] at hw; cases hw
      obtain ⟨hr, hcl⟩ := hc2 wb w'' hlb.1 hw'' hf''
      rcases ev1.2.2.1 hlb.2 with h | ⟨_, _, hclb⟩
      · exact ⟨by omega, hcl⟩
      · rw [hnb] at hclb; cases hclb

end Tickit.Life

namespace Tickit.Life
open WinTree (Id Win Req Change Tree)

/-! ## closing a child and dropping its reference -/

/-- The converse of `DropOk`: a window other than `x` that survives a cascade and is not among the dropped children
    keeps its count. -/
def ConvOk (t t' : Tree) (x : Nat) (dropped : List Nat) : Prop :=
  ∀ (i : Nat) (w w' : Win), i ≠ x → t.wins[i]? = some w → t'.wins[i]? = some w' → w'.freed = false → i ∉ dropped →
    w'.refcount = w.refcount

theorem ConvOk.nil_of_same {t t' : Tree} {x : Nat} (h : ∀ (i : Nat) (w w' : Win), i ≠ x → t.wins[i]? = some w → t'.wins[i]? = some w' →
    w'.refcount = w.refcount) : ConvOk t t' x [] := fun i w w' hix hw hw' _ _ => h i w w' hix hw hw'

theorem ConvOk.append {a b c : Tree} {x : Nat} {d1 d2 : List Nat} (e1 : TEv a b) (e2 : TEv b c)
    (h1 : ConvOk a b x d1) (h2 : ConvOk b c x d2) : ConvOk a c x (d1 ++ d2) := by
  intro i wa wc hix ha hc hf hni
  obtain ⟨wb, hb, ev1⟩ := e1.2 i wa ha
  obtain ⟨wc', hc', ev2⟩ := e2.2 i wb hb
  rw [hc] at hc'; cases hc'
  have hfb : wb.freed = false := by
    cases hfb : wb.freed with
    | false => rfl
    | true => rw [ev2.1 hfb] at hf; cases hf
  simp only [List.mem_append, not_or] at hni
  rw [h2 i wb wc hix hb hc hf hni.2, h1 i wa wb hix ha hb hfb hni.1]

/-- Every parent link of `t'` is one of `t`: a cascade only unlinks. -/
def PSub (t t' : Tree) : Prop :=
  ∀ (i : Nat) (w' : Win) (p : Nat), t'.wins[i]? = some w' → w'.parent = some p → ∃ w, t.wins[i]? = some w ∧ w.parent = some p

theorem PSub.refl (t : Tree) : PSub t t := fun _ w p hw hp => ⟨w, hw, hp⟩

theorem PSub.trans {a b c : Tree} (h1 : PSub a b) (h2 : PSub b c) : PSub a c := by
  intro i w p hw hp
  obtain ⟨wb, hwb, hpb⟩ := h2 i w p hw hp
  exact h1 i wb p hwb hpb

theorem PSub.of_wins {t t' : Tree} (h : t'.wins = t.wins) : PSub t t' := fun i w p hw hp => ⟨w, by rw [← h]; exact hw, hp⟩

/-- A chain of parents in the later tree is one in the earlier tree. -/
theorem PSub.reach {t t' : Tree} (h : PSub t t') {i a : Nat} (hr : Reach t' i a) : Reach t i a :=
  Reach.mono (fun i w p hw hp => h i w p hw hp) hr

theorem wev_of_fields {w w' : Win} (hf : w'.freed = w.freed) (hr : w'.refcount = w.refcount)
    (hc : w.isClosed = true → w'.isClosed = true) : WEv w w' :=
  ⟨fun h => by rw [hf]; exact h, fun _ h => by rw [hr]; exact h, fun _ => .inl hr, hc⟩

theorem Closed.ev {t t' : Tree} {c : Nat} {cw : Win} (hl : LiveW t c cw) (h : Closed t t' c cw) : TEv t t' := by
  refine ⟨h.size_eq, ?_⟩
  intro i w hw
  by_cases hic : i = c
  · subst hic
    have : w = cw := by rw [hl.1] at hw; exact (Option.some.inj hw).symm
    subst this
    exact ⟨_, h.win_now.1, wev_of_fields rfl rfl (fun _ => rfl)⟩
  · rcases h.others i w hic hw with ⟨_, h'⟩ | ⟨_, h'⟩
    · exact ⟨w, h', WEv.refl w⟩
    · exact ⟨_, h', wev_of_fields rfl rfl id⟩

/-- Changing only the reference count of a live window keeps the invariant. -/
theorem TInv.set_refcount {t : Tree} (inv : TInv t) {c : Nat} {cw : Win} (hl : LiveW t c cw) (r : Int) :
    TInv (WinTree.set t c { cw with refcount := r }) ∧ TRel t (WinTree.set t c { cw with refcount := r }) := by
  have hrel : TRel t (WinTree.set t c { cw with refcount := r }) :=
    trel_set hl.1 ⟨rfl, List.Perm.refl _, rfl, rfl, .inl rfl, .inl rfl⟩
  exact ⟨inv.of_rel hrel (fun r hr => hr) (fun s hs => hs), hrel⟩

/-- The window `c` after its dying parent has closed it and dropped the reference. -/
def droppedChild (cw : Win) : Win := { cw with parent := none, isClosed := true, refcount := cw.refcount - 1 }

/-- `tickit_window_close(child); tickit_window_unref(child)` up to the decrement. -/
theorem closeDec_ok {cfg : Cfg} (h1 : cfg.closePurges = true) (h2 : cfg.dragForgottenOnClose = true)
    {t : Tree} (inv : TInv t) {c x : Nat} {cw : Win} (hl : LiveW t c cw) (hp : cw.parent = some x)
    (hr : 1 ≤ cw.refcount) :
    ∃ t1, closeT cfg t c = .ok t1 ∧ LiveW t1 c { cw with parent := none, isClosed := true } ∧
      TInv (WinTree.set t1 c (droppedChild cw)) ∧ LiveW (WinTree.set t1 c (droppedChild cw)) c (droppedChild cw) ∧
      (WinTree.set t1 c (droppedChild cw)).wins.size = t.wins.size ∧ cw.isClosed = false ∧
      (∀ (i : Nat) (w : Win), i ≠ c → t.wins[i]? = some w →
        (x ≠ i ∧ (WinTree.set t1 c (droppedChild cw)).wins[i]? = some w) ∨
        (x = i ∧ (WinTree.set t1 c (droppedChild cw)).wins[i]? = some (unlinkedParent w c))) ∧
      (∀ r ∈ (WinTree.set t1 c (droppedChild cw)).root.changes, r ∈ t.root.changes) ∧
      (∀ (s : Nat), (WinTree.set t1 c (droppedChild cw)).root.dragSource = some s → t.root.dragSource = some s) := by
  obtain ⟨t1, hclose, C⟩ := closeT_ok h1 h2 inv hl
  have hnc : cw.isClosed = false := by
    cases hcl : cw.isClosed with
    | false => rfl
    | true => have := inv.closed_ok c cw hl hcl; rw [hp] at this; cases this
  obtain ⟨inv1', _⟩ := C.inv.set_refcount C.win_now (cw.refcount - 1)
  refine ⟨t1, hclose, C.win_now, inv1', ⟨set_get_self _ C.win_now.lt, hl.2⟩, by rw [set_size]; exact C.size_eq, hnc, ?_, C.req_sub, C.drag_sub⟩
  · intro i w hic hw
    rw [set_get_ne _ (Ne.symm hic)]
    rcases C.others i w hic hw with ⟨ha, hb⟩ | ⟨ha, hb⟩
    · exact .inl ⟨fun h => ha (by rw [hp, h]), hb⟩
    · exact .inr ⟨by rw [hp] at ha; exact Option.some.inj ha, hb⟩

/-- Freeing a window that is unlinked and has no children keeps the invariant. -/
theorem TInv.free {t : Tree} (inv : TInv t) {x : Nat} {xw : Win} (hl : LiveW t x xw)
    (hp : xw.parent = none) (hc : xw.children = []) (hroot : xw.isRoot = true → t.root.dragSource = none ∧ t.root.changes = []) :
    TInv (WinTree.set t x { xw with freed := true }) := by
  have G : ∀ (i : Nat), (WinTree.set t x { xw with freed := true }).wins[i]? =
      if x = i then some { xw with freed := true } else t.wins[i]? := by
    intro i; rw [set_get]; simp [hl.lt]
  have back : ∀ (i : Nat) (w : Win), LiveW (WinTree.set t x { xw with freed := true }) i w → i ≠ x ∧ LiveW t i w := by
    intro i w hl'
    have h := hl'.1
    rw [G] at h
    by_cases hxi : x = i
    · subst hxi
      simp only [if_true, Option.some.injEq] at h
      subst h
      exact absurd hl'.2 (by simp)
    · simp only [hxi, if_false] at h
      exact ⟨fun h' => hxi h'.symm, h, hl'.2⟩
  have fwd : ∀ (i : Nat) (w : Win), i ≠ x → LiveW t i w → LiveW (WinTree.set t x { xw with freed := true }) i w := by
    intro i w hix hl'
    exact ⟨by rw [G]; simp [Ne.symm hix]; exact hl'.1, hl'.2⟩
  have reach : ∀ {i a : Nat}, Reach t i a → Reach (WinTree.set t x { xw with freed := true }) i a := by
    intro i a hr
    refine Reach.mono ?_ hr
    intro j w p hw hpp
    by_cases hxj : x = j
    · subst hxj
      have : w = xw := by rw [hl.1] at hw; exact (Option.some.inj hw).symm
      subst this
      rw [hp] at hpp; cases hpp
    · exact ⟨w, by rw [G]; simp [hxj]; exact hw, hpp⟩
  refine ⟨?_, ?_, ?_, ?_, ?_, ?_, ?_, ?_, ?_⟩
  · obtain ⟨r, h0, hr, hpr⟩ := inv.root_ex
    by_cases hx0 : x = 0
    · subst hx0
      have : r = xw := by rw [hl.1] at h0; exact (Option.some.inj h0).symm
      subst this
      exact ⟨{ r with freed := true }, by rw [G]; simp, hr, hpr⟩
    · exact ⟨r, by rw [G]; simp [hx0]; exact h0, hr, hpr⟩
  · intro i w h hr
    rw [G] at h
    by_cases hxi : x = i
    · subst hxi
      simp only [if_true, Option.some.injEq] at h; subst h
      exact inv.only_root _ xw hl.1 hr
    · simp only [hxi, if_false] at h
      exact inv.only_root i w h hr
  · intro c cw hcl p hcp
    obtain ⟨hcx, hcl0⟩ := back c cw hcl
    obtain ⟨hlt, pw, hpl, hmem⟩ := inv.parent_ok c cw hcl0 p hcp
    have hpx : p ≠ x := by
      intro h; subst h
      have := LiveW.unique hpl hl; subst this
      rw [hc] at hmem; simp at hmem
    exact ⟨hlt, pw, fwd p pw hpx hpl, hmem⟩
  · intro p pw hpl c hcm
    obtain ⟨hpx, hpl0⟩ := back p pw hpl
    obtain ⟨cw, hcl, hcp⟩ := inv.child_ok p pw hpl0 c hcm
    have hcx : c ≠ x := by
      intro h; subst h
      have := LiveW.unique hcl hl; subst this
      rw [hp] at hcp; cases hcp
    exact ⟨cw, fwd c cw hcx hcl, hcp⟩
  · intro p pw hpl
    exact inv.nodup p pw (back p pw hpl).2
  · intro i w hl' hcl
    exact inv.closed_ok i w (back i w hl').2 hcl
  · intro r hr
    obtain ⟨hk, w, hlw, hpr, hreach⟩ := inv.req_ok r hr
    have hrx : r.win ≠ x := by
      intro h
      rw [h] at hlw
      have := LiveW.unique hlw hl; subst this
      rw [hp] at hpr; cases hpr
    exact ⟨hk, w, fwd r.win w hrx hlw, hpr, reach hreach⟩
  · intro p pw hpl c hf
    exact inv.focus_ok p pw (back p pw hpl).2 c hf
  · intro s hs
    obtain ⟨w, hlw, hreach⟩ := inv.drag_ok s hs
    have hsx : s ≠ x := by
      intro h; subst h
      have := LiveW.unique hlw hl; subst this
      -- a drag source is below the root; an unlinked window is below the root only if it is the root
      have h0 := hreach.eq_of_no_parent hl.1 hp
      subst h0
      obtain ⟨r, h0', hr, _⟩ := inv.root_ex
      have : r = w := by rw [hl.1] at h0'; exact (Option.some.inj h0').symm
      subst this
      have hs' : t.root.dragSource = some 0 := hs
      rw [(hroot hr).1] at hs'; cases hs'
    exact ⟨w, fwd s w hsx hlw, reach hreach⟩

end Tickit.Life

namespace Tickit.Life
open WinTree (Id Win Req Change Tree)

/-! ## the cascade -/

/-- Every live window above `x` holds at least one reference. -/
def RCabove (t : Tree) (x : Nat) : Prop := ∀ (i : Nat) (w : Win), x < i → LiveW t i w → 1 ≤ w.refcount

/-- What a cascade started at `x` leaves behind. -/
structure Casc (t t' : Tree) (x : Nat) (xw : Win) (dead dropped : List Nat) : Prop where
  inv : TInv t'
  ev : TEv t t'
  freed : ∃ w', t'.wins[x]? = some w' ∧ w'.freed = true
  below : ∀ (i : Nat) (w : Win), i < x → t.wins[i]? = some w →
    (xw.parent ≠ some i ∧ t'.wins[i]? = some w) ∨ (xw.parent = some i ∧ t'.wins[i]? = some (unlinkedParent w x))
  psub : PSub t t'
  /-- whatever dies or loses a reference lies below `x` -/
  reach : ∀ (i : Nat), i ∈ dead ∨ i ∈ dropped → Reach t i x
  dead : DeadOk t t' dead
  drop : DropOk t t' x dropped
  conv : ConvOk t t' x dropped
  req_sub : ∀ r ∈ t'.root.changes, r ∈ t.root.changes
  drag_sub : ∀ (s : Nat), t'.root.dragSource = some s → t.root.dragSource = some s

/-- The induction hypothesis of the cascade: `tickit_window_destroy` with budget `fuel`. -/
def DestroyIH (cfg : Cfg) (fuel : Nat) : Prop :=
  ∀ (t : Tree) (c : Nat) (cw : Win), TInv t → LiveW t c cw → t.wins.size + 1 ≤ fuel + c → RCabove t c →
    ∃ t' dead dropped, destroyT cfg fuel t c = .ok (t', dead, dropped) ∧ Casc t t' c cw dead dropped

/-- One child of a dying window: closed, its reference dropped, destroyed if that was the last one. -/
theorem destroy_child_step {cfg : Cfg} (h1 : cfg.closePurges = true) (h2 : cfg.dragForgottenOnClose = true)
    (h3 : cfg.destroyClosesChildren = true) {fuel : Nat} (IH : DestroyIH cfg fuel)
    {tk : Tree} (inv : TInv tk) {x c : Nat} {xk : Win} (hx : LiveW tk x xk) (hc : c ∈ xk.children)
    (hrc : RCabove tk x) (hsize : tk.wins.size + 1 ≤ fuel + 1 + x) (deadk dropk : List Nat) :
    ∃ t2 dc dr, destroyStep cfg (unrefTWith (destroyT cfg fuel)) (tk, deadk, dropk) c = .ok (t2, deadk ++ dc, dropk ++ dr) ∧
      TInv t2 ∧ TEv tk t2 ∧ DeadOk tk t2 dc ∧ DropOk tk t2 x dr ∧ ConvOk tk t2 x dr ∧
      (PSub tk t2 ∧ ∀ (i : Nat), i ∈ dc ∨ i ∈ dr → Reach tk i x) ∧ RCabove t2 x ∧
      t2.wins[x]? = some (unlinkedParent xk c) ∧
      (∀ (i : Nat) (w : Win), i < x → tk.wins[i]? = some w → t2.wins[i]? = some w) ∧
      (∀ r ∈ t2.root.changes, r ∈ tk.root.changes) ∧
      (∀ (s : Nat), t2.root.dragSource = some s → tk.root.dragSource = some s) := by
  obtain ⟨cw, hcl, hcp⟩ := inv.child_ok x xk hx c hc
  obtain ⟨hxc, _⟩ := inv.parent_ok c cw hcl x hcp
  have hr1 : 1 ≤ cw.refcount := hrc c cw hxc hcl
  obtain ⟨t1, hclose, hl1, inv1', hl1', hsz1, hnc, hothers, hreq1, hdrag1⟩ := closeDec_ok h1 h2 inv hcl hcp hr1
  -- the computation up to the decrement
  have hcomp : destroyStep cfg (unrefTWith (destroyT cfg fuel)) (tk, deadk, dropk) c =
      (do let r ← (if cw.refcount - 1 = 0 then destroyT cfg fuel (WinTree.set t1 c (droppedChild cw)) c
                   else pure (WinTree.set t1 c (droppedChild cw), [], []))
          pure (r.1, deadk ++ r.2.1, dropk ++ (c :: r.2.2))) := by
    unfold destroyStep
    simp only [get_live hcl, bind_ok, h3, if_true, hclose]
    unfold unrefTWith
    simp only [get_live hl1, bind_ok]
    have : ¬ (cw.refcount < 1) := by omega
    simp only [this, if_false]
    rfl
  -- windows other than `c` in the intermediate tree
  have hx1' : (WinTree.set t1 c (droppedChild cw)).wins[x]? = some (unlinkedParent xk c) := by
    rcases hothers x xk (by omega) hx.1 with ⟨h, _⟩ | ⟨_, h⟩
    · exact absurd rfl h
    · exact h
  have hsame : ∀ (i : Nat) (w : Win), i ≠ c → tk.wins[i]? = some w →
      ∃ w1, (WinTree.set t1 c (droppedChild cw)).wins[i]? = some w1 ∧ w1.freed = w.freed ∧ w1.refcount = w.refcount ∧
        w1.isClosed = w.isClosed ∧ (i ≠ x → w1 = w) := by
    intro i w hic hw
    rcases hothers i w hic hw with ⟨hxi, h⟩ | ⟨hxi, h⟩
    · exact ⟨w, h, rfl, rfl, rfl, fun _ => rfl⟩
    · exact ⟨_, h, rfl, rfl, rfl, fun hne => absurd hxi.symm hne⟩
  have psubI : PSub tk (WinTree.set t1 c (droppedChild cw)) := by
    intro i w' p hw' hp'
    by_cases hic : i = c
    · subst hic
      rw [hl1'.1] at hw'; cases hw'
      cases hp'
    · cases htk : tk.wins[i]? with
      | none =>
        have hlt : ¬ i < tk.wins.size := by
          intro hlt
          have := Array.getElem?_eq_getElem (xs := tk.wins) hlt
          rw [htk] at this; cases this
        have : (WinTree.set t1 c (droppedChild cw)).wins[i]? = none := Array.getElem?_eq_none (by rw [hsz1]; omega)
        rw [hw'] at this; cases this
      | some w0 =>
        rcases hothers i w0 hic htk with ⟨_, h⟩ | ⟨_, h⟩
        · rw [hw'] at h; cases h; exact ⟨w', rfl, hp'⟩
        · rw [hw'] at h; cases h; exact ⟨w0, rfl, hp'⟩
  have hreachc : Reach tk c x := .step hcl.1 hcp (.refl x)
  by_cases hz : cw.refcount - 1 = 0
  · -- last reference: the child is destroyed
    have hrc1 : RCabove (WinTree.set t1 c (droppedChild cw)) c := by
      intro i w hci hl
      -- `i` is neither `c` nor `x`, so the window is the one of `tk`
      cases htk : tk.wins[i]? with
      | none =>
        have hlt : ¬ i < tk.wins.size := by
          intro hlt
          have := Array.getElem?_eq_getElem (xs := tk.wins) hlt
          rw [htk] at this; cases this
        have := hl.lt
        omega
      | some w0 =>
        obtain ⟨w1, hw1, hf, hr, _, _⟩ := hsame i w0 (by omega) htk
        have : w1 = w := by rw [hl.1] at hw1; exact (Option.some.inj hw1).symm
        subst this
        rw [hr]
        exact hrc i w0 (by omega) ⟨htk, by rw [← hf]; exact hl.2⟩
    obtain ⟨t2, dc, dr, hd, C⟩ := IH _ c _ inv1' hl1' (by rw [hsz1]; omega) hrc1
    have hpn : (droppedChild cw).parent = none := rfl
    have hdrop : DropOk tk t2 x (c :: dr) := by
      refine ⟨List.nodup_cons.2 ⟨fun hm => by have := (C.drop.2 c hm).1; omega, C.drop.1⟩, ?_⟩
      intro i hi
      simp only [List.mem_cons] at hi
      rcases hi with rfl | hi
      · refine ⟨hxc, ⟨cw, hcl, hnc⟩, ?_⟩
        intro w w' _ hw' hf'
        obtain ⟨w'', hw'', hf''⟩ := C.freed
        rw [hw'] at hw''; cases hw''
        rw [hf'] at hf''; cases hf''
      · obtain ⟨hci, ⟨w1, hl1i, hn1⟩, hcond⟩ := C.drop.2 i hi
        have hic : i ≠ c := by omega
        cases htk : tk.wins[i]? with
        | none =>
          have hlt : ¬ i < tk.wins.size := by
            intro hlt
            have := Array.getElem?_eq_getElem (xs := tk.wins) hlt
            rw [htk] at this; cases this
          have := hl1i.lt
          omega
        | some w0 =>
          obtain ⟨w1', hw1', hf, hr, hcl', _⟩ := hsame i w0 hic htk
          have : w1' = w1 := by rw [hl1i.1] at hw1'; exact (Option.some.inj hw1').symm
          subst this
          refine ⟨by omega, ⟨w0, ⟨htk, by rw [← hf]; exact hl1i.2⟩, by rw [← hcl']; exact hn1⟩, ?_⟩
          intro w w' hw hw' hf'
          cases hw
          obtain ⟨h1', h2'⟩ := hcond w1' w' hw1' hw' hf'
          exact ⟨by omega, h2'⟩
    have hconv : ConvOk tk t2 x (c :: dr) := by
      intro i w w' hix hw hw' hf hni
      simp only [List.mem_cons, not_or] at hni
      obtain ⟨w1, hw1, _, hr, _, _⟩ := hsame i w hni.1 hw
      rw [C.conv i w1 w' hni.1 hw1 hw' hf hni.2, hr]
    have hpr : PSub tk t2 ∧ ∀ (i : Nat), i ∈ dc ∨ i ∈ c :: dr → Reach tk i x := by
      refine ⟨psubI.trans C.psub, ?_⟩
      intro i hi
      by_cases hic : i = c
      · subst hic; exact hreachc
      · have : i ∈ dc ∨ i ∈ dr := by
          rcases hi with h | h
          · exact .inl h
          · simp only [List.mem_cons] at h
            rcases h with h | h
            · exact absurd h hic
            · exact .inr h
        exact (psubI.reach (C.reach i this)).trans hreachc
    refine ⟨t2, dc, c :: dr, by rw [hcomp]; simp only [hz, if_true, hd, bind_ok, pure_ok], C.inv, ?_, ?_, hdrop, hconv, hpr, ?_, ?_, ?_, ?_, ?_⟩
    · -- TEv tk t2
      refine ⟨C.ev.1.trans hsz1, ?_⟩
      intro i w hw
      by_cases hic : i = c
      · subst hic
        obtain ⟨w', hw', hf'⟩ := C.freed
        have : w = cw := by rw [hcl.1] at hw; exact (Option.some.inj hw).symm
        subst this
        refine ⟨w', hw', ⟨fun _ => hf', fun h => (by rw [hf'] at h; cases h), fun h => (by rw [hf'] at h; cases h), fun h => (by rw [hnc] at h; cases h)⟩⟩
      · obtain ⟨w1, hw1, hf, hr, hcl', _⟩ := hsame i w hic hw
        obtain ⟨w2, hw2, ev⟩ := C.ev.2 i w1 hw1
        exact ⟨w2, hw2, (wev_of_fields hf hr (fun h => by rw [hcl']; exact h)).trans ev⟩
    · -- DeadOk tk t2 dc
      refine ⟨C.dead.1, ?_⟩
      intro i
      rw [C.dead.2 i]
      constructor
      · rintro ⟨⟨w1, hl⟩, hfr⟩
        refine ⟨?_, hfr⟩
        by_cases hic : i = c
        · subst hic; exact ⟨cw, hcl⟩
        · cases htk : tk.wins[i]? with
          | none =>
            have hlt : ¬ i < tk.wins.size := by
              intro hlt
              have := Array.getElem?_eq_getElem (xs := tk.wins) hlt
              rw [htk] at this; cases this
            have := hl.lt
            omega
          | some w0 =>
            obtain ⟨w1', hw1', hf, _, _, _⟩ := hsame i w0 hic htk
            have : w1' = w1 := by rw [hl.1] at hw1'; exact (Option.some.inj hw1').symm
            subst this
            exact ⟨w0, htk, by rw [← hf]; exact hl.2⟩
      · rintro ⟨⟨w0, hl⟩, hfr⟩
        refine ⟨?_, hfr⟩
        by_cases hic : i = c
        · subst hic; exact ⟨_, hl1'⟩
        · obtain ⟨w1, hw1, hf, _, _, _⟩ := hsame i w0 hic hl.1
          exact ⟨w1, hw1, by rw [hf]; exact hl.2⟩
    · -- RCabove t2 x
      intro i w hxi hl
      by_cases hic : i = c
      · subst hic
        obtain ⟨w', hw', hf'⟩ := C.freed
        rw [hl.1] at hw'; cases hw'
        rw [hl.2] at hf'; cases hf'
      · by_cases hlt : i < c
        · -- below `c`: untouched by the cascade at `c`
          cases h1i : (WinTree.set t1 c (droppedChild cw)).wins[i]? with
          | none =>
            have hlt' : ¬ i < (WinTree.set t1 c (droppedChild cw)).wins.size := by
              intro hlt'
              have := Array.getElem?_eq_getElem (xs := (WinTree.set t1 c (droppedChild cw)).wins) hlt'
              rw [h1i] at this; cases this
            have := hl.lt
            rw [C.ev.1] at this
            omega
          | some w1 =>
            rcases C.below i w1 hlt h1i with ⟨_, h⟩ | ⟨h, _⟩
            · have : w1 = w := by rw [hl.1] at h; exact (Option.some.inj h).symm
              subst this
              cases htk : tk.wins[i]? with
              | none =>
                have hlt' : ¬ i < tk.wins.size := by
                  intro hlt'
                  have := Array.getElem?_eq_getElem (xs := tk.wins) hlt'
                  rw [htk] at this; cases this
                have := hl.lt
                rw [C.ev.1, hsz1] at this
                omega
              | some w0 =>
                obtain ⟨w1', hw1', hf, hr, _, _⟩ := hsame i w0 hic htk
                have : w1' = w1 := by rw [h1i] at hw1'; exact (Option.some.inj hw1').symm
                subst this
                rw [hr]
                exact hrc i w0 hxi ⟨htk, by rw [← hf]; exact hl.2⟩
            · rw [hpn] at h; cases h
        · -- above `c`
          cases htk : tk.wins[i]? with
          | none =>
            have hlt' : ¬ i < tk.wins.size := by
              intro hlt'
              have := Array.getElem?_eq_getElem (xs := tk.wins) hlt'
              rw [htk] at this; cases this
            have := hl.lt
            rw [C.ev.1, hsz1] at this
            omega
          | some w0 =>
            obtain ⟨w1, hw1, hf, hr, _, _⟩ := hsame i w0 hic htk
            obtain ⟨w2, hw2, ev⟩ := C.ev.2 i w1 hw1
            have : w2 = w := by rw [hl.1] at hw2; exact (Option.some.inj hw2).symm
            subst this
            have hf0 : w0.freed = false := by
              cases hf0 : w0.freed with
              | false => rfl
              | true =>
                have := ev.1 (by rw [hf]; exact hf0)
                rw [hl.2] at this; cases this
            exact ev.2.1 hl.2 (by rw [hr]; exact hrc i w0 hxi ⟨htk, hf0⟩)
    · -- the dying parent has lost `c`
      rcases C.below x _ hxc hx1' with ⟨_, h⟩ | ⟨h, _⟩
      · exact h
      · rw [hpn] at h; cases h
    · intro i w hix hw
      obtain ⟨w1, hw1, _, _, _, heq⟩ := hsame i w (by omega) hw
      have := heq (by omega); subst this
      rcases C.below i w1 (by omega) hw1 with ⟨_, h⟩ | ⟨h, _⟩
      · exact h
      · rw [hpn] at h; cases h
    · intro r hr; exact hreq1 r (C.req_sub r hr)
    · intro s hs; exact hdrag1 s (C.drag_sub s hs)
  · -- the child survives: somebody else holds a reference
    have hge : 1 ≤ cw.refcount - 1 := by omega
    have hdrop : DropOk tk (WinTree.set t1 c (droppedChild cw)) x [c] := by
      refine ⟨by simp, ?_⟩
      intro i hi
      simp only [List.mem_singleton] at hi
      subst hi
      refine ⟨hxc, ⟨cw, hcl, hnc⟩, ?_⟩
      intro w w' hw hw' _
      have : w = cw := by rw [hcl.1] at hw; exact (Option.some.inj hw).symm
      subst this
      rw [hl1'.1] at hw'; cases hw'
      exact ⟨by simp only [droppedChild]; omega, rfl⟩
    have hconv : ConvOk tk (WinTree.set t1 c (droppedChild cw)) x [c] := by
      intro i w w' hix hw hw' hf hni
      simp only [List.mem_singleton] at hni
      obtain ⟨w1, hw1, _, hr, _, _⟩ := hsame i w hni hw
      rw [hw'] at hw1; cases hw1
      exact hr
    have hpr : PSub tk (WinTree.set t1 c (droppedChild cw)) ∧ ∀ (i : Nat), i ∈ ([] : List Nat) ∨ i ∈ [c] → Reach tk i x := by
      refine ⟨psubI, ?_⟩
      intro i hi
      rcases hi with h | h
      · cases h
      · simp only [List.mem_singleton] at h; subst h; exact hreachc
    refine ⟨WinTree.set t1 c (droppedChild cw), [], [c], by rw [hcomp]; simp only [hz, if_false, pure_ok, bind_ok], inv1', ?_, ?_, hdrop, hconv, hpr, ?_, hx1', ?_, hreq1, hdrag1⟩
    · refine ⟨hsz1, ?_⟩
      intro i w hw
      by_cases hic : i = c
      · subst hic
        have : w = cw := by rw [hcl.1] at hw; exact (Option.some.inj hw).symm
        subst this
        exact ⟨droppedChild w, hl1'.1, ⟨fun h => h, fun _ _ => hge, fun _ => .inr ⟨by simp only [droppedChild]; omega, hnc, rfl⟩, fun _ => rfl⟩⟩
      · obtain ⟨w1, hw1, hf, hr, hcl', _⟩ := hsame i w hic hw
        exact ⟨w1, hw1, wev_of_fields hf hr (fun h => by rw [hcl']; exact h)⟩
    · refine ⟨List.nodup_nil, ?_⟩
      intro i
      constructor
      · intro h; simp at h
      · rintro ⟨⟨w0, hl⟩, w', hw', hf'⟩
        by_cases hic : i = c
        · subst hic
          rw [hl1'.1] at hw'; cases hw'
          rw [hl1'.2] at hf'; cases hf'
        · obtain ⟨w1, hw1, hf, _, _, _⟩ := hsame i w0 hic hl.1
          rw [hw1] at hw'; cases hw'
          rw [hf, hl.2] at hf'; cases hf'
    · intro i w hxi hl
      by_cases hic : i = c
      · subst hic
        have := LiveW.unique hl hl1'; subst this
        exact hge
      · cases htk : tk.wins[i]? with
        | none =>
          have hlt' : ¬ i < tk.wins.size := by
            intro hlt'
            have := Array.getElem?_eq_getElem (xs := tk.wins) hlt'
            rw [htk] at this; cases this
          have := hl.lt
          rw [hsz1] at this
          omega
        | some w0 =>
          obtain ⟨w1, hw1, hf, hr, _, _⟩ := hsame i w0 hic htk
          have : w1 = w := by rw [hl.1] at hw1; exact (Option.some.inj hw1).symm
          subst this
          rw [hr]
          exact hrc i w0 hxi ⟨htk, by rw [← hf]; exact hl.2⟩
    · intro i w hix hw
      obtain ⟨w1, hw1, _, _, _, heq⟩ := hsame i w (by omega) hw
      have := heq (by omega); subst this
      exact hw1

end Tickit.Life

namespace Tickit.Life
open WinTree (Id Win Req Change Tree)

/-- The children loop of `tickit_window_destroy`. -/
theorem destroy_loop {cfg : Cfg} (h1 : cfg.closePurges = true) (h2 : cfg.dragForgottenOnClose = true)
    (h3 : cfg.destroyClosesChildren = true) {fuel : Nat} (IH : DestroyIH cfg fuel) (x : Nat) :
    ∀ (cs : List Nat) (tk : Tree) (deadk dropk : List Nat) (xk : Win),
      TInv tk → LiveW tk x xk → xk.children = cs → RCabove tk x → tk.wins.size + 1 ≤ fuel + 1 + x →
      ∃ t' dead' drop', cs.foldlM (destroyStep cfg (unrefTWith (destroyT cfg fuel))) (tk, deadk, dropk) =
          .ok (t', deadk ++ dead', dropk ++ drop') ∧
        TInv t' ∧ TEv tk t' ∧ DeadOk tk t' dead' ∧ DropOk tk t' x drop' ∧ ConvOk tk t' x drop' ∧
        (PSub tk t' ∧ ∀ (i : Nat), i ∈ dead' ∨ i ∈ drop' → Reach tk i x) ∧ RCabove t' x ∧
        (∃ xk', LiveW t' x xk' ∧ xk'.children = [] ∧ xk'.parent = xk.parent ∧ xk'.isClosed = xk.isClosed ∧
          xk'.isRoot = xk.isRoot) ∧
        (∀ (i : Nat) (w : Win), i < x → tk.wins[i]? = some w → t'.wins[i]? = some w) ∧
        (∀ r ∈ t'.root.changes, r ∈ tk.root.changes) ∧
        (∀ (s : Nat), t'.root.dragSource = some s → tk.root.dragSource = some s) := by
  intro cs
  induction cs with
  | nil =>
    intro tk deadk dropk xk inv hx hcs hrc _
    refine ⟨tk, [], [], by simp [List.foldlM], inv, TEv.refl tk, DeadOk.nil (TEv.refl tk) (fun i w h => ⟨w, h⟩),
      DropOk.nil _ _ _, ConvOk.nil_of_same (fun i w w' _ hw hw' => by rw [hw] at hw'; cases hw'; rfl),
      ⟨PSub.refl tk, fun i hi => by rcases hi with h | h <;> cases h⟩, hrc,
      ⟨xk, hx, hcs, rfl, rfl, rfl⟩, fun _ _ _ h => h, fun _ h => h, fun _ h => h⟩
  | cons c rest ih =>
    intro tk deadk dropk xk inv hx hcs hrc hsize
    have hc : c ∈ xk.children := by rw [hcs]; simp
    obtain ⟨t2, dc, dr, hstep, inv2, ev2, dead2, drop2, conv2, ⟨psub2, reach2⟩, hrc2, hx2, hbelow2, hreq2, hdrag2⟩ :=
      destroy_child_step h1 h2 h3 IH inv hx hc hrc hsize deadk dropk
    have hx2l : LiveW t2 x (unlinkedParent xk c) := ⟨hx2, hx.2⟩
    have hnd := inv.nodup x xk hx
    have hrest : (unlinkedParent xk c).children = rest := by
      simp only [unlinkedParent, hcs]
      exact List.erase_cons_head c rest
    obtain ⟨t', dead', drop', hfold, inv', ev', deadok', dropok', convok', ⟨psub', reach'⟩, hrc', ⟨xk', hxl', hch', hp', hcl', hr'⟩, hbelow', hreq', hdrag'⟩ :=
      ih t2 (deadk ++ dc) (dropk ++ dr) (unlinkedParent xk c) inv2 hx2l hrest hrc2 (by rw [ev2.1]; exact hsize)
    refine ⟨t', dc ++ dead', dr ++ drop', ?_, inv', ev2.trans ev', DeadOk.append ev2 ev' dead2 deadok',
      DropOk.append ev2 ev' drop2 dropok', ConvOk.append ev2 ev' conv2 convok',
      ⟨psub2.trans psub', fun i hi => by
        simp only [List.mem_append] at hi
        rcases hi with (h | h) | (h | h)
        · exact reach2 i (.inl h)
        · exact psub2.reach (reach' i (.inl h))
        · exact reach2 i (.inr h)
        · exact psub2.reach (reach' i (.inr h))⟩, hrc',
      ⟨xk', hxl', hch', hp', hcl', hr'⟩, ?_, fun r hr => hreq2 r (hreq' r hr), fun s hs => hdrag2 s (hdrag' s hs)⟩
    · rw [List.foldlM_cons, hstep]
      simp only [bind_ok]
      rw [hfold, List.append_assoc, List.append_assoc]
    · intro i w hix hw
      exact hbelow' i w hix (hbelow2 i w hix hw)

theorem DeadOk.single {t t' : Tree} {x : Nat} {xw : Win} (hl : LiveW t x xw) (hsz : t'.wins.size = t.wins.size)
    (hx : ∃ w', t'.wins[x]? = some w' ∧ w'.freed = true)
    (hother : ∀ (i : Nat) (w : Win), i ≠ x → t.wins[i]? = some w → ∃ w', t'.wins[i]? = some w' ∧ w'.freed = w.freed) :
    DeadOk t t' [x] := by
  refine ⟨by simp, ?_⟩
  intro i
  simp only [List.mem_singleton]
  constructor
  · intro h; subst h; exact ⟨⟨xw, hl⟩, hx⟩
  · rintro ⟨⟨w, hlw⟩, w', hw', hf'⟩
    by_cases hix : i = x
    · exact hix
    · obtain ⟨w'', hw'', hf⟩ := hother i w hix hlw.1
      rw [hw''] at hw'; cases hw'
      rw [hf, hlw.2] at hf'; cases hf'

/-- `tickit_window_destroy` after the repairs: it always completes, and leaves a consistent tree. -/
theorem destroyT_ok {cfg : Cfg} (h1 : cfg.closePurges = true) (h2 : cfg.dragForgottenOnClose = true)
    (h3 : cfg.destroyClosesChildren = true) : ∀ (fuel : Nat), DestroyIH cfg fuel := by
  intro fuel
  induction fuel with
  | zero =>
    intro t x xw _ hl hsz _
    have := hl.lt; omega
  | succ fuel IH =>
    intro t x xw inv hl hsz hrc
    obtain ⟨tL, deadL, dropL, hfold, invL, evL, deadokL, dropokL, convokL, ⟨psubL, reachL⟩, _, ⟨xL, hxL, hchL, hpL, hclL, hrL⟩, hbelowL, hreqL, hdragL⟩ :=
      destroy_loop h1 h2 h3 IH x xw.children t [] [] xw inv hl rfl hrc (by omega)
    -- purge (only when still linked), then close (only when not yet closed)
    have stepP : ∃ tP, purgeIfLinked cfg tL x xL = .ok tP ∧ tP.wins = tL.wins ∧ TInv tP ∧
        (∀ r ∈ tP.root.changes, r ∈ tL.root.changes) ∧ (∀ (s : Nat), tP.root.dragSource = some s → tL.root.dragSource = some s) := by
      unfold purgeIfLinked
      split
      · obtain ⟨tP, hp, P⟩ := purge_ok h1 h2 invL hxL
        exact ⟨tP, hp, P.wins_eq, P.inv, fun r hr => (P.req_sub r hr).1, fun s hs => (P.drag_sub s hs).1⟩
      · exact ⟨tL, rfl, rfl, invL, fun _ h => h, fun _ h => h⟩
    obtain ⟨tP, hP, hPw, invP, hreqP, hdragP⟩ := stepP
    have hxP : LiveW tP x xL := (live_of_wins hPw).1 hxL
    have stepC : ∃ tC, closeIfOpen cfg tP x xL = .ok tC ∧ TInv tC ∧
        tC.wins.size = tP.wins.size ∧
        (∃ xC, LiveW tC x xC ∧ xC.parent = none ∧ xC.children = [] ∧ xC.isRoot = xL.isRoot ∧ xC.isClosed = true) ∧
        (∀ (i : Nat) (w : Win), i ≠ x → tP.wins[i]? = some w →
          (xL.parent ≠ some i ∧ tC.wins[i]? = some w) ∨ (xL.parent = some i ∧ tC.wins[i]? = some (unlinkedParent w x))) ∧
        (∀ r ∈ tC.root.changes, r ∈ tP.root.changes) ∧ (∀ (s : Nat), tC.root.dragSource = some s → tP.root.dragSource = some s) := by
      unfold closeIfOpen
      cases hcl : xL.isClosed with
      | false =>
        simp only [Bool.not_false, if_true]
        obtain ⟨tC, hc, C⟩ := closeT_ok h1 h2 invP hxP
        exact ⟨tC, hc, C.inv, C.size_eq, ⟨_, C.win_now, rfl, hchL, rfl, rfl⟩, C.others, C.req_sub, C.drag_sub⟩
      | true =>
        simp only [Bool.not_true, Bool.false_eq_true, if_false]
        have hpn := invP.closed_ok x xL hxP hcl
        refine ⟨tP, rfl, invP, rfl, ⟨xL, hxP, hpn, hchL, rfl, hcl⟩, ?_, fun _ h => h, fun _ h => h⟩
        intro i w _ hw
        exact .inl ⟨by rw [hpn]; simp, hw⟩
    obtain ⟨tC, hC, invC, hCsz, ⟨xC, hxC, hpC, hchC, hrC, hclC⟩, hothersC, hreqC, hdragC⟩ := stepC
    -- root cleanup and free
    have invR : TInv (rootCleanupIf cfg tC xC) ∧
        (rootCleanupIf cfg tC xC).wins = tC.wins ∧
        (xC.isRoot = true → (rootCleanupIf cfg tC xC).root.dragSource = none ∧
          (rootCleanupIf cfg tC xC).root.changes = []) ∧
        (∀ r ∈ (rootCleanupIf cfg tC xC).root.changes, r ∈ tC.root.changes) ∧
        (∀ (s : Nat), (rootCleanupIf cfg tC xC).root.dragSource = some s → tC.root.dragSource = some s) := by
      unfold rootCleanupIf
      by_cases hr : xC.isRoot = true
      · simp only [hr, if_true, rootCleanup, h1]
        refine ⟨?_, rfl, fun _ => ⟨rfl, rfl⟩, ?_, ?_⟩
        · exact invC.of_rel (t' := clearDrag (setChanges tC [])) (trel_of_wins rfl) (by intro r hr'; simp at hr') (by intro s hs; simp at hs)
        · intro r hr'; simp at hr'
        · intro s hs; simp at hs
      · have e : (if xC.isRoot = true then rootCleanup cfg tC else tC) = tC := if_neg hr
        rw [e]
        exact ⟨invC, rfl, fun h => absurd h hr, fun _ h => h, fun _ h => h⟩
    obtain ⟨invR, hRw, hRroot, hreqR, hdragR⟩ := invR
    have hxR : LiveW (rootCleanupIf cfg tC xC) x xC := (live_of_wins hRw).1 hxC
    have invF := invR.free hxR hpC hchC hRroot
    have evF0 : TEv tL (WinTree.set (rootCleanupIf cfg tC xC) x { xC with freed := true }) := by
      refine ⟨by rw [set_size]; rw [show (rootCleanupIf cfg tC xC).wins.size = tC.wins.size from by rw [hRw], hCsz, hPw], ?_⟩
      intro i w hw
      by_cases hix : i = x
      · subst hix
        have : w = xL := by rw [hxL.1] at hw; exact (Option.some.inj hw).symm
        subst this
        refine ⟨{ xC with freed := true }, set_get_self _ hxR.lt, ⟨fun _ => rfl, fun h => (by simp at h), fun h => (by simp at h), fun _ => hclC⟩⟩
      · rw [set_get_ne _ (Ne.symm hix), hRw]
        rcases hothersC i w hix (by rw [hPw]; exact hw) with ⟨_, h⟩ | ⟨_, h⟩
        · exact ⟨w, h, WEv.refl w⟩
        · exact ⟨_, h, wev_of_fields rfl rfl id⟩
    have convF : ConvOk tL (WinTree.set (rootCleanupIf cfg tC xC) x { xC with freed := true }) x [] := by
      refine ConvOk.nil_of_same ?_
      intro i w w' hix hw hw'
      rw [set_get_ne _ (Ne.symm hix), hRw] at hw'
      rcases hothersC i w hix (by rw [hPw]; exact hw) with ⟨_, h⟩ | ⟨_, h⟩
      · rw [hw'] at h; cases h; rfl
      · rw [hw'] at h; cases h; rfl
    have psubF : PSub tL (WinTree.set (rootCleanupIf cfg tC xC) x { xC with freed := true }) := by
      intro i w' p hw' hp'
      by_cases hix : i = x
      · subst hix
        rw [set_get_self _ hxR.lt] at hw'; cases hw'
        have : xC.parent = some p := hp'
        rw [hpC] at this; cases this
      · rw [set_get_ne _ (Ne.symm hix), hRw] at hw'
        cases htl : tL.wins[i]? with
        | none =>
          have hlt : ¬ i < tL.wins.size := by
            intro hlt
            have := Array.getElem?_eq_getElem (xs := tL.wins) hlt
            rw [htl] at this; cases this
          have : tC.wins[i]? = none := Array.getElem?_eq_none (by rw [hCsz, hPw]; omega)
          rw [hw'] at this; cases this
        | some w0 =>
          rcases hothersC i w0 hix (by rw [hPw]; exact htl) with ⟨_, h⟩ | ⟨_, h⟩
          · rw [hw'] at h; cases h; exact ⟨w', rfl, hp'⟩
          · rw [hw'] at h; cases h; exact ⟨w0, rfl, hp'⟩
    have reachF : ∀ (i : Nat), i ∈ deadL ++ [x] ∨ i ∈ dropL → Reach t i x := by
      intro i hi
      simp only [List.mem_append, List.mem_singleton] at hi
      rcases hi with (h | h) | h
      · exact reachL i (.inl h)
      · subst h; exact .refl _
      · exact reachL i (.inr h)
    refine ⟨_, deadL ++ [x], dropL, ?_, invF, ?_, ?_, ?_, psubL.trans psubF, reachF, ?_, ?_, ?_, ?_, ?_⟩
    · unfold destroyT destroyTWith
      simp only [get_live hl, bind_ok, hfold, List.nil_append, get_live hxL, hP, get_live hxP, hC, get_live hxC, pure_ok]
    · -- TEv
      have evF : TEv tL (WinTree.set (rootCleanupIf cfg tC xC) x { xC with freed := true }) := by
        refine ⟨by rw [set_size]; rw [show (rootCleanupIf cfg tC xC).wins.size = tC.wins.size from by rw [hRw], hCsz, hPw], ?_⟩
        intro i w hw
        by_cases hix : i = x
        · subst hix
          have : w = xL := by rw [hxL.1] at hw; exact (Option.some.inj hw).symm
          subst this
          refine ⟨{ xC with freed := true }, set_get_self _ hxR.lt, ⟨fun _ => rfl, fun h => (by simp at h), fun h => (by simp at h), fun _ => hclC⟩⟩
        · rw [set_get_ne _ (Ne.symm hix), hRw]
          rcases hothersC i w hix (by rw [hPw]; exact hw) with ⟨_, h⟩ | ⟨_, h⟩
          · exact ⟨w, h, WEv.refl w⟩
          · exact ⟨_, h, wev_of_fields rfl rfl id⟩
      exact evL.trans evF
    · exact ⟨_, set_get_self _ hxR.lt, rfl⟩
    · intro i w hix hw
      have hw' := hbelowL i w hix hw
      rw [set_get_ne _ (by omega), hRw]
      rcases hothersC i w (by omega) (by rw [hPw]; exact hw') with ⟨h, h'⟩ | ⟨h, h'⟩
      · exact .inl ⟨by rw [← hpL]; exact h, h'⟩
      · exact .inr ⟨by rw [← hpL]; exact h, h'⟩
    · -- DeadOk
      have evF : TEv tL (WinTree.set (rootCleanupIf cfg tC xC) x { xC with freed := true }) := by
        refine ⟨by rw [set_size]; rw [show (rootCleanupIf cfg tC xC).wins.size = tC.wins.size from by rw [hRw], hCsz, hPw], ?_⟩
        intro i w hw
        by_cases hix : i = x
        · subst hix
          have : w = xL := by rw [hxL.1] at hw; exact (Option.some.inj hw).symm
          subst this
          refine ⟨{ xC with freed := true }, set_get_self _ hxR.lt, ⟨fun _ => rfl, fun h => (by simp at h), fun h => (by simp at h), fun _ => hclC⟩⟩
        · rw [set_get_ne _ (Ne.symm hix), hRw]
          rcases hothersC i w hix (by rw [hPw]; exact hw) with ⟨_, h⟩ | ⟨_, h⟩
          · exact ⟨w, h, WEv.refl w⟩
          · exact ⟨_, h, wev_of_fields rfl rfl id⟩
      refine DeadOk.append evL evF deadokL (DeadOk.single hxL evF.1 ⟨_, set_get_self _ hxR.lt, rfl⟩ ?_)
      intro i w hix hw
      rw [set_get_ne _ (Ne.symm hix), hRw]
      rcases hothersC i w hix (by rw [hPw]; exact hw) with ⟨_, h⟩ | ⟨_, h⟩
      · exact ⟨w, h, rfl⟩
      · exact ⟨_, h, rfl⟩
    · have := DropOk.append evL evF0 dropokL (DropOk.nil _ _ x)
      simpa using this
    · have := ConvOk.append evL evF0 convokL convF
      simpa using this
    · intro r hr
      exact hreqL r (hreqP r (hreqC r (hreqR r hr)))
    · intro s hs
      exact hdragL s (hdragP s (hdragC s (hdragR s hs)))

end Tickit.Life
