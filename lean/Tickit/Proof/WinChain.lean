import Tickit.Proof.WinFull
/-
  The painter's model along the parent chain of one window, for the scrolling proof.

  * `own`: `ownerLoc` with the uniform fuel `size + 1` (legitimate in an `Ordered` store), and its unfolding;
  * `Anc`: "is an ancestor of, or is" through parent pointers; whatever `ownerLoc … ch` returns lies below `ch`
    (`ownerLoc_anc`), and two children of one window cannot both be above the same window (`anc_unique`);
  * `owner_exposedAt`: the owner of a terminal cell is exposed there (inside itself and every ancestor, all visible).
-/
namespace Tickit
namespace WinFlush
open WinTree WinRB WinSpec

/-- The owner below `id` of the cell `(x, y)` of `id`'s parent, with the fuel `ownerAt` uses. -/
def own (t : Tree) (id : Id) (x y : Int) : Option (Id × Int × Int) := ownerLoc t (t.wins.size + 1) id x y

theorem own_unfold (t : Tree) (ho : Ordered t) (id : Id) (x y : Int) :
    own t id x y =
      match t.wins[id]? with
      | none => none
      | some w =>
        if !w.isVisible || w.freed then none
        else if !(w.rect.memb x y) then none
        else
          match w.children.findSome? (fun ch => own t ch (x - w.rect.top) (y - w.rect.left)) with
          | some o => some o
          | none => some (id, x - w.rect.top, y - w.rect.left) := by
  unfold own
  rw [ownerLoc_unfold]
  cases hw : t.wins[id]? with
  | none => rfl
  | some w =>
    simp only
    have hall : ∀ ch ∈ w.children, ownerLoc t t.wins.size ch (x - w.rect.top) (y - w.rect.left) =
        ownerLoc t (t.wins.size + 1) ch (x - w.rect.top) (y - w.rect.left) :=
      fun ch _ => (ownerLoc_fuel_succ t ho t.wins.size ch _ _ (by omega)).symm
    rw [findSome?_congr_mem _ _ _ hall]
    rfl

theorem ownerAt_own (t : Tree) (L C : Int) : ownerAt t L C = own t 0 L C := rfl

/-- The owner within `a`'s subtree of the cell `(x, y)` of `a` (own coordinates). -/
def subOwn (t : Tree) (a : Id) (cs : List Id) (x y : Int) : Id × Int × Int :=
  match cs.findSome? (fun ch => own t ch x y) with
  | some o => o
  | none => (a, x, y)

theorem own_eq_sub (t : Tree) (ho : Ordered t) (id : Id) (w : Win) (hw : t.wins[id]? = some w) (x y : Int) :
    own t id x y = if w.isVisible = true ∧ w.freed = false ∧ w.rect.memb x y = true
      then some (subOwn t id w.children (x - w.rect.top) (y - w.rect.left)) else none := by
  rw [own_unfold t ho, hw]
  simp only [subOwn]
  cases hv : w.isVisible <;> cases hf : w.freed <;> cases hm : w.rect.memb x y <;> simp
  split <;> simp_all

theorem own_none_of_not_cin (t : Tree) (ho : Ordered t) (id : Id) (x y : Int) (h : ¬ Cin t id x y) : own t id x y = none := by
  cases hw : t.wins[id]? with
  | none => rw [own_unfold t ho, hw]
  | some w =>
    rw [own_eq_sub t ho id w hw]
    rw [if_neg]
    intro ⟨h1, h2, h3⟩
    exact h ⟨w, hw, h1, h2, h3⟩

theorem cin_of_own_some (t : Tree) (id : Id) (x y : Int) (o : Id × Int × Int) (h : own t id x y = some o) : Cin t id x y :=
  ownerLoc_some_cin t _ id x y (by unfold own at h; rw [h]; simp)

/-! ### ancestors through parent pointers -/

/-- `Anc t a w`: `a` is `w` or an ancestor of `w`. -/
inductive Anc (t : Tree) : Id → Id → Prop where
  | refl (w : Id) : Anc t w w
  | step {a w p : Id} {ww : Win} : t.wins[w]? = some ww → ww.parent = some p → Anc t a p → Anc t a w

theorem Anc.parent_up {t : Tree} {c w a : Id} {cw : Win} (h : Anc t c w) (hc : t.wins[c]? = some cw) (hp : cw.parent = some a) :
    Anc t a w := by
  induction h with
  | refl => exact Anc.step hc hp (Anc.refl a)
  | step hw hpar _ ih => exact Anc.step hw hpar ih

/-- Whatever the composition finds below `ch` lies below `ch`. -/
theorem ownerLoc_anc (t : Tree) (hwf : WFp t) : ∀ (n : Nat) (ch : Id) (x y : Int) (w : Id) (l c : Int),
    ownerLoc t n ch x y = some (w, l, c) → Anc t ch w := by
  intro n
  induction n with
  | zero => intro ch x y w l c h; simp [ownerLoc] at h
  | succ m ih =>
    intro ch x y w l c h
    rw [ownerLoc_unfold] at h
    cases hw : t.wins[ch]? with
    | none => rw [hw] at h; cases h
    | some cw =>
      rw [hw] at h
      simp only at h
      split at h
      · cases h
      · split at h
        · cases h
        · cases hfs : cw.children.findSome? (fun c' => ownerLoc t m c' (x - cw.rect.top) (y - cw.rect.left)) with
          | none =>
            rw [hfs] at h
            simp only [Option.some.injEq, Prod.mk.injEq] at h
            rw [← h.1]
            exact Anc.refl ch
          | some o =>
            rw [hfs] at h
            simp only [Option.some.injEq] at h
            subst h
            obtain ⟨c', hc', hown⟩ := List.exists_of_findSome?_eq_some hfs
            obtain ⟨ccw, hccw, hcp, _⟩ := hwf.child ch cw hw c' hc'
            exact (ih c' _ _ w l c hown).parent_up hccw hcp

/-- Parents have smaller ids (from `Ordered` through `ParentListed`). -/
theorem parent_lt (t : Tree) (ho : Ordered t) (hpl : ParentListed t) (x : Nat) (w : Win) (p : Id)
    (hw : t.wins[x]? = some w) (hp : w.parent = some p) : @LT.lt Nat _ p x := by
  obtain ⟨pw, hpw, hm⟩ := hpl x w p hw hp
  exact ho p pw hpw x hm

theorem anc_le (t : Tree) (ho : Ordered t) (hpl : ParentListed t) {a w : Id} (h : Anc t a w) : @LE.le Nat _ a w := by
  induction h with
  | refl => exact Nat.le_refl _
  | step hw hp _ ih =>
    have := parent_lt t ho hpl _ _ _ hw hp
    omega

/-- Two windows with the same parent that are both above (or equal to) `w` are the same window. -/
theorem anc_unique (t : Tree) (ho : Ordered t) (hpl : ParentListed t) {c a w p : Id} {cw aw : Win}
    (hc : Anc t c w) (ha : Anc t a w) (hcw : t.wins[c]? = some cw) (haw : t.wins[a]? = some aw)
    (hcp : cw.parent = some p) (hap : aw.parent = some p) : c = a := by
  induction hc generalizing a aw with
  | refl =>
    cases ha with
    | refl => rfl
    | step hw hpar hrest =>
      -- `w = c`, its parent is `p`, and `a` is above `p` while `p` is `a`'s parent
      rw [hcw] at hw; cases hw
      rw [hcp] at hpar; cases hpar
      have h1 := anc_le t ho hpl hrest
      have h2 := parent_lt t ho hpl a aw p haw hap
      omega
  | step hw hpar hrest ih =>
    cases ha with
    | refl =>
      rw [haw] at hw; cases hw
      rw [hap] at hpar; cases hpar
      have h1 := anc_le t ho hpl hrest
      have h2 := parent_lt t ho hpl c cw p hcw hcp
      omega
    | step hw' hpar' hrest' =>
      rw [hw] at hw'; cases hw'
      rw [hpar] at hpar'; cases hpar'
      exact ih hrest' haw hap

/-! ### the owner of a cell is exposed there -/

theorem ownerLoc_exposedAt (t : Tree) (hwf : WFp t) : ∀ (n : Nat) (cur : Id) (x y : Int) (k : Nat) (L C : Int) (cw : Win)
    (w : Id) (l c : Int),
    t.wins[cur]? = some cw → cw.isRoot = cw.parent.isNone → (cw.parent = none → cw.rect.top = 0 ∧ cw.rect.left = 0) →
    Ctx t k cw.parent x y L C → ownerLoc t n cur x y = some (w, l, c) → ExposedAt t (k + n) w l c L C := by
  intro n
  induction n with
  | zero => intro cur x y k L C cw w l c _ _ _ _ h; simp [ownerLoc] at h
  | succ m ih =>
    intro cur x y k L C cw w l c hcw hroot hz hctx h
    rw [ownerLoc_unfold, hcw] at h
    simp only at h
    split at h
    · cases h
    · rename_i hvf
      split at h
      · cases h
      · rename_i hmm
        have hv : cw.isVisible = true := by
          cases hv : cw.isVisible with
          | true => rfl
          | false => simp [hv] at hvf
        have hf : cw.freed = false := by
          cases hf : cw.freed with
          | false => rfl
          | true => simp [hf] at hvf
        have hm : cw.rect.Mem x y := by
          apply (memb_true_iff _ _ _).1
          cases hm : cw.rect.memb x y with
          | true => rfl
          | false => simp [hm] at hmm
        simp only [Rect.Mem, Rect.bottom, Rect.right] at hm
        -- `cur` itself is exposed at the cell
        have hself : ExposedAt t (k + 1) cur (x - cw.rect.top) (y - cw.rect.left) L C := by
          simp only [ExposedAt]
          refine ⟨cw, hcw, hf, by omega, by omega, by omega, by omega, hv, ?_⟩
          cases hp : cw.parent with
          | none =>
            rw [hp] at hroot hctx
            simp only [Ctx] at hctx
            have := hz hp
            exact Or.inl ⟨by simpa using hroot, by omega, by omega⟩
          | some p =>
            rw [hp] at hroot hctx
            simp only [Ctx] at hctx
            refine Or.inr ⟨by simpa using hroot, p, rfl, ?_⟩
            have e1 : x - cw.rect.top + cw.rect.top = x := by omega
            have e2 : y - cw.rect.left + cw.rect.left = y := by omega
            rw [e1, e2]
            exact hctx
        cases hfs : cw.children.findSome? (fun c' => ownerLoc t m c' (x - cw.rect.top) (y - cw.rect.left)) with
        | none =>
          rw [hfs] at h
          simp only [Option.some.injEq, Prod.mk.injEq] at h
          obtain ⟨h1, h2, h3⟩ := h
          subst h1 h2 h3
          exact exposedAt_mono_le t (by omega) hself
        | some o =>
          rw [hfs] at h
          simp only [Option.some.injEq] at h
          subst h
          obtain ⟨c', hc', hown⟩ := List.exists_of_findSome?_eq_some hfs
          obtain ⟨ccw, hccw, hcp, hcr⟩ := hwf.child cur cw hcw c' hc'
          have := ih c' _ _ (k + 1) L C ccw w l c hccw (by rw [hcr, hcp]; rfl) (by intro hx; rw [hcp] at hx; cases hx)
            (by rw [hcp]; exact hself) hown
          have e : k + 1 + m = k + (m + 1) := by omega
          rw [e] at this
          exact this

/-- **The owner of a terminal cell is exposed there**: it is inside the owning window and every ancestor of it, all of
    them visible, up to the root. -/
theorem owner_exposedAt (t : Tree) (hok : TreeOk t) (L C : Int) (w : Id) (l c : Int) (h : ownerAt t L C = some (w, l, c)) :
    ExposedAt t (t.wins.size + 1) w l c L C := by
  obtain ⟨rw0, hrw0, _, hrr, hrp, hrt, hrl⟩ := hok.rootWin.ex
  have := ownerLoc_exposedAt t hok.wf (t.wins.size + 1) 0 L C 0 L C rw0 w l c hrw0 (by rw [hrr, hrp]; rfl)
    (fun _ => ⟨hrt, hrl⟩) (by rw [hrp]; exact ⟨rfl, rfl⟩) h
  simpa using this

/-- `l1 ++ a :: l2` determines `l1` when `a` occurs once. -/
theorem prefix_unique {α : Type} (a : α) : ∀ (l1 m1 l2 m2 : List α), l1 ++ a :: l2 = m1 ++ a :: m2 → a ∉ l1 → a ∉ m1 → l1 = m1 := by
  intro l1
  induction l1 with
  | nil =>
    intro m1 l2 m2 h _ hm
    cases m1 with
    | nil => rfl
    | cons b m =>
      simp only [List.nil_append, List.cons_append, List.cons.injEq] at h
      exact absurd (by rw [← h.1]; exact List.mem_cons_self) hm
  | cons x l ih =>
    intro m1 l2 m2 h hl hm
    cases m1 with
    | nil =>
      simp only [List.nil_append, List.cons_append, List.cons.injEq] at h
      exact absurd (by rw [h.1]; exact List.mem_cons_self) hl
    | cons b m =>
      simp only [List.cons_append, List.cons.injEq] at h
      rw [h.1, ih m l2 m2 h.2 (fun hx => hl (List.mem_cons_of_mem _ hx)) (fun hx => hm (List.mem_cons_of_mem _ hx))]

end WinFlush
end Tickit
