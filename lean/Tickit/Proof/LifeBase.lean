import Tickit.Model.LifeOps
/-
  C08 proofs, foundations: the outcome monad, access to the window store, the ancestor relation `Reach`, and the
  structural invariant `TInv` of the window tree.
-/
namespace Tickit.Life
open WinTree (Id Win Req Change Tree)

/-! ## the outcome monad -/

@[simp] theorem bind_ok {α β : Type} (a : α) (f : α → Out β) : (Out.ok a >>= f) = f a := rfl
@[simp] theorem bind_ub {α β : Type} (k : UB) (w : String) (f : α → Out β) : (Out.ub k w >>= f) = Out.ub k w := rfl
@[simp] theorem bind_fuel {α β : Type} (f : α → Out β) : ((Out.fuel : Out α) >>= f) = Out.fuel := rfl
@[simp] theorem pure_ok {α : Type} (a : α) : (pure a : Out α) = Out.ok a := rfl

@[simp] theorem ofRes_ok {α : Type} (a : α) : ofRes (WinTree.Res.ok a) = Out.ok a := rfl

theorem bind_eq_ok {α β : Type} {x : Out α} {f : α → Out β} {b : β} :
    (x >>= f) = .ok b ↔ ∃ a, x = .ok a ∧ f a = .ok b := by
  cases x <;> simp

/-! ## the window store -/

/-- Window `i` exists, is `w`, and has not been freed. -/
def LiveW (t : Tree) (i : Nat) (w : Win) : Prop := t.wins[i]? = some w ∧ w.freed = false

theorem get_live {t : Tree} {i : Nat} {w : Win} (h : LiveW t i w) : ofRes (WinTree.get t i) = .ok w := by
  unfold WinTree.get ofRes
  simp [h.1, h.2]

theorem get_ok {t : Tree} {i : Nat} {w : Win} (h : ofRes (WinTree.get t i) = .ok w) : LiveW t i w := by
  unfold WinTree.get at h
  cases hw : t.wins[i]? with
  | none => simp [hw, ofRes] at h
  | some x =>
    simp only [hw] at h
    by_cases hf : x.freed = true
    · simp [hf, ofRes] at h
    · simp only [hf, ofRes, Bool.false_eq_true, if_false, Out.ok.injEq] at h
      subst h
      exact ⟨hw, by simpa using hf⟩

theorem LiveW.unique {t : Tree} {i : Nat} {a b : Win} (h1 : LiveW t i a) (h2 : LiveW t i b) : a = b := by
  have := h1.1; rw [h2.1] at this; exact (Option.some.inj this).symm

theorem LiveW.lt {t : Tree} {i : Nat} {w : Win} (h : LiveW t i w) : i < t.wins.size := by
  by_cases hlt : i < t.wins.size
  · exact hlt
  · have := Array.getElem?_eq_none (xs := t.wins) (Nat.le_of_not_lt hlt)
    rw [h.1] at this; cases this

@[simp] theorem set_root (t : Tree) (i : Nat) (w : Win) : (WinTree.set t i w).root = t.root := rfl

@[simp] theorem set_size (t : Tree) (i : Nat) (w : Win) : (WinTree.set t i w).wins.size = t.wins.size := by
  simp [WinTree.set]

theorem set_get (t : Tree) (i j : Nat) (w : Win) :
    (WinTree.set t i w).wins[j]? = if i = j then (if i < t.wins.size then some w else none) else t.wins[j]? := by
  simp [WinTree.set, Array.getElem?_setIfInBounds]

theorem set_get_self {t : Tree} {i : Nat} (w : Win) (h : i < t.wins.size) : (WinTree.set t i w).wins[i]? = some w := by
  rw [set_get]; simp [h]

theorem set_get_ne {t : Tree} {i j : Nat} (w : Win) (h : i ≠ j) : (WinTree.set t i w).wins[j]? = t.wins[j]? := by
  rw [set_get]; simp [h]

theorem get_set_ne {t : Tree} {i j : Nat} (w : Win) (h : i ≠ j) : WinTree.get (WinTree.set t i w) j = WinTree.get t j := by
  unfold WinTree.get; rw [set_get_ne w h]

@[simp] theorem chainFuel_set (t : Tree) (i : Nat) (w : Win) : chainFuel (WinTree.set t i w) = chainFuel t := by
  simp [chainFuel]

/-! ## ancestors -/

/-- `Reach t i a`: `a` is `i` or one of its ancestors (following `parent`). -/
inductive Reach (t : Tree) : Nat → Nat → Prop
  | refl (i : Nat) : Reach t i i
  | step {i p a : Nat} {w : Win} : t.wins[i]? = some w → w.parent = some p → Reach t p a → Reach t i a

theorem Reach.trans {t : Tree} {i a b : Nat} (h1 : Reach t i a) (h2 : Reach t a b) : Reach t i b := by
  induction h1 with
  | refl => exact h2
  | step hw hp _ ih => exact .step hw hp (ih h2)

/-- With a parent, reaching something else means the parent reaches it. -/
theorem Reach.of_ne {t : Tree} {i a p : Nat} {w : Win} (h : Reach t i a) (hne : i ≠ a)
    (hw : t.wins[i]? = some w) (hp : w.parent = some p) : Reach t p a := by
  cases h with
  | refl => exact absurd rfl hne
  | step hw' hp' hr =>
    rw [hw] at hw'; cases hw'
    rw [hp] at hp'; cases hp'
    exact hr

theorem Reach.eq_of_no_parent {t : Tree} {i a : Nat} {w : Win} (h : Reach t i a)
    (hw : t.wins[i]? = some w) (hp : w.parent = none) : i = a := by
  cases h with
  | refl => rfl
  | step hw' hp' _ =>
    rw [hw] at hw'; cases hw'
    rw [hp] at hp'; cases hp'

/-- Chains survive any change that keeps every parent link. -/
theorem Reach.mono {t t' : Tree}
    (h : ∀ (i : Nat) (w : Win) (p : Nat), t.wins[i]? = some w → w.parent = some p → ∃ w', t'.wins[i]? = some w' ∧ w'.parent = some p)
    {i a : Nat} (hr : Reach t i a) : Reach t' i a := by
  induction hr with
  | refl => exact .refl _
  | step hw hp _ ih =>
    obtain ⟨w', hw', hp'⟩ := h _ _ _ hw hp
    exact .step hw' hp' ih

/-! ## the structural invariant of the window tree -/

structure TInv (t : Tree) : Prop where
  /-- window 0 is the root window (possibly already freed) -/
  root_ex : ∃ r, t.wins[0]? = some r ∧ r.isRoot = true ∧ r.parent = none
  only_root : ∀ (i : Nat) w, t.wins[i]? = some w → w.isRoot = true → i = 0
  /-- a live window's parent is a live, older window that lists it -/
  parent_ok : ∀ (c : Nat) cw, LiveW t c cw → ∀ (p : Nat), cw.parent = some p → p < c ∧ ∃ pw, LiveW t p pw ∧ c ∈ pw.children
  /-- a live window's children are live and point back -/
  child_ok : ∀ (p : Nat) pw, LiveW t p pw → ∀ (c : Nat), c ∈ pw.children → ∃ cw, LiveW t c cw ∧ cw.parent = some p
  nodup : ∀ (p : Nat) pw, LiveW t p pw → pw.children.Nodup
  /-- a closed window has been unlinked -/
  closed_ok : ∀ (i : Nat) w, LiveW t i w → w.isClosed = true → w.parent = none
  /-- every queued request names a live window that is still below its recorded parent and below the root -/
  req_ok : ∀ r ∈ t.root.changes, isRestack r.change = true ∧ ∃ w, LiveW t r.win w ∧ w.parent = some r.parent ∧ Reach t r.win 0
  focus_ok : ∀ (p : Nat) pw, LiveW t p pw → ∀ (c : Nat), pw.focusedChild = some c → c ∈ pw.children
  /-- the (uncounted) drag source is a live window below the root -/
  drag_ok : ∀ (s : Nat), t.root.dragSource = some s → ∃ w, LiveW t s w ∧ Reach t s 0

/-- Relation between a window before and after an operation that does not restructure the tree: same parent,
    same children up to order, same liveness; the focused child stays, is cleared, or becomes one of the children. -/
def WRel (w w' : Win) : Prop :=
  w'.parent = w.parent ∧ w'.children.Perm w.children ∧ w'.freed = w.freed ∧ w'.isRoot = w.isRoot ∧
  (w'.isClosed = w.isClosed ∨ w.parent = none) ∧
  (w'.focusedChild = w.focusedChild ∨ w'.focusedChild = none ∨ ∃ (c : Nat), w'.focusedChild = some c ∧ c ∈ w.children)

theorem WRel.refl (w : Win) : WRel w w := ⟨rfl, List.Perm.refl _, rfl, rfl, .inl rfl, .inl rfl⟩

theorem WRel.trans {a b c : Win} (h1 : WRel a b) (h2 : WRel b c) : WRel a c := by
  refine ⟨h2.1.trans h1.1, h2.2.1.trans h1.2.1, h2.2.2.1.trans h1.2.2.1, h2.2.2.2.1.trans h1.2.2.2.1, ?_, ?_⟩
  · rcases h2.2.2.2.2.1 with h | h
    · rcases h1.2.2.2.2.1 with h' | h'
      · exact .inl (h.trans h')
      · exact .inr h'
    · exact .inr (by rw [← h1.1]; exact h)
  · rcases h2.2.2.2.2.2 with h | h | ⟨x, hx, hm⟩
    · rcases h1.2.2.2.2.2 with h' | h' | ⟨x, hx, hm⟩
      · exact .inl (h.trans h')
      · exact .inr (.inl (h.trans h'))
      · exact .inr (.inr ⟨x, h.trans hx, hm⟩)
    · exact .inr (.inl h)
    · exact .inr (.inr ⟨x, hx, (h1.2.1.mem_iff).1 hm⟩)

/-- Trees related window by window. -/
def TRel (t t' : Tree) : Prop :=
  t'.wins.size = t.wins.size ∧ ∀ (i : Nat) (w : Win), t.wins[i]? = some w → ∃ w', t'.wins[i]? = some w' ∧ WRel w w'

theorem TRel.refl (t : Tree) : TRel t t := ⟨rfl, fun _ w h => ⟨w, h, WRel.refl w⟩⟩

theorem TRel.trans {a b c : Tree} (h1 : TRel a b) (h2 : TRel b c) : TRel a c := by
  refine ⟨h2.1.trans h1.1, ?_⟩
  intro i w hw
  obtain ⟨w', hw', r1⟩ := h1.2 i w hw
  obtain ⟨w'', hw'', r2⟩ := h2.2 i w' hw'
  exact ⟨w'', hw'', r1.trans r2⟩

theorem TRel.back {t t' : Tree} (h : TRel t t') {i : Nat} {w' : Win} (hw' : t'.wins[i]? = some w') :
    ∃ w, t.wins[i]? = some w ∧ WRel w w' := by
  cases hw : t.wins[i]? with
  | none =>
    have hlt : ¬ i < t.wins.size := by
      intro hlt
      have := Array.getElem?_eq_getElem (xs := t.wins) hlt
      rw [hw] at this; cases this
    have : t'.wins[i]? = none := Array.getElem?_eq_none (by rw [h.1]; exact Nat.le_of_not_lt hlt)
    rw [hw'] at this; cases this
  | some w =>
    obtain ⟨w'', h1, h2⟩ := h.2 i w hw
    rw [hw'] at h1; cases h1
    exact ⟨w, rfl, h2⟩

theorem TRel.live {t t' : Tree} (h : TRel t t') {i : Nat} {w : Win} (hl : LiveW t i w) :
    ∃ w', LiveW t' i w' ∧ WRel w w' := by
  obtain ⟨w', h1, h2⟩ := h.2 i w hl.1
  exact ⟨w', ⟨h1, by rw [h2.2.2.1]; exact hl.2⟩, h2⟩

theorem TRel.live_back {t t' : Tree} (h : TRel t t') {i : Nat} {w' : Win} (hl : LiveW t' i w') :
    ∃ w, LiveW t i w ∧ WRel w w' := by
  obtain ⟨w, h1, h2⟩ := h.back hl.1
  exact ⟨w, ⟨h1, by rw [← h2.2.2.1]; exact hl.2⟩, h2⟩

theorem TRel.reach {t t' : Tree} (h : TRel t t') {i a : Nat} (hr : Reach t i a) : Reach t' i a := by
  induction hr with
  | refl => exact .refl _
  | step hw hp _ ih =>
    obtain ⟨w', h1, h2⟩ := h.2 _ _ hw
    exact .step h1 (by rw [h2.1]; exact hp) ih

/-- No reference count changes. -/
def SameRC (t t' : Tree) : Prop :=
  ∀ (i : Nat) (w w' : Win), t.wins[i]? = some w → t'.wins[i]? = some w' → w'.refcount = w.refcount

theorem SameRC.refl (t : Tree) : SameRC t t := by
  intro i w w' h h'; rw [h] at h'; cases h'; rfl

theorem SameRC.trans {a b c : Tree} (hab : TRel a b) (h1 : SameRC a b) (h2 : SameRC b c) : SameRC a c := by
  intro i w w'' h h''
  obtain ⟨w', hw', _⟩ := hab.2 i w h
  exact (h2 i w' w'' hw' h'').trans (h1 i w w' h hw')

theorem SameRC.of_wins {t t' : Tree} (h : t'.wins = t.wins) : SameRC t t' := by
  intro i w w' hw hw'; rw [h, hw] at hw'; cases hw'; rfl

theorem SameRC.set {t : Tree} {p : Nat} {pw pw' : Win} (hl : t.wins[p]? = some pw) (hr : pw'.refcount = pw.refcount) :
    SameRC t (WinTree.set t p pw') := by
  intro i w w' hw hw'
  rw [set_get] at hw'
  by_cases hip : p = i
  · subst hip
    rw [hl] at hw; cases hw
    simp only [if_true] at hw'
    split at hw'
    · cases hw'; exact hr
    · cases hw'
  · simp only [hip, if_false] at hw'
    rw [hw] at hw'; cases hw'; rfl

/-- An operation that relates the trees window by window keeps `TInv`, provided the new queue and drag source
    are fine in the old tree. -/
theorem TInv.of_rel_gen {t t' : Tree} (inv : TInv t) (h : TRel t t')
    (hc : ∀ r ∈ t'.root.changes, isRestack r.change = true ∧ ∃ w, LiveW t r.win w ∧ w.parent = some r.parent ∧ Reach t r.win 0)
    (hd : ∀ (s : Nat), t'.root.dragSource = some s → ∃ w, LiveW t s w ∧ Reach t s 0) : TInv t' where
  root_ex := by
    obtain ⟨r, h0, hr, hp⟩ := inv.root_ex
    obtain ⟨r', h1, h2⟩ := h.2 0 r h0
    exact ⟨r', h1, by rw [h2.2.2.2.1]; exact hr, by rw [h2.1]; exact hp⟩
  only_root := by
    intro i w' hw' hr
    obtain ⟨w, h1, h2⟩ := h.back hw'
    exact inv.only_root i w h1 (by rw [← h2.2.2.2.1]; exact hr)
  parent_ok := by
    intro c cw' hl p hp
    obtain ⟨cw, hl0, hr⟩ := h.live_back hl
    obtain ⟨hlt, pw, hpl, hmem⟩ := inv.parent_ok c cw hl0 p (by rw [← hr.1]; exact hp)
    obtain ⟨pw', hpl', hr'⟩ := h.live hpl
    exact ⟨hlt, pw', hpl', (hr'.2.1.mem_iff).2 hmem⟩
  child_ok := by
    intro p pw' hl c hc'
    obtain ⟨pw, hl0, hr⟩ := h.live_back hl
    obtain ⟨cw, hcl, hcp⟩ := inv.child_ok p pw hl0 c ((hr.2.1.mem_iff).1 hc')
    obtain ⟨cw', hcl', hr'⟩ := h.live hcl
    exact ⟨cw', hcl', by rw [hr'.1]; exact hcp⟩
  nodup := by
    intro p pw' hl
    obtain ⟨pw, hl0, hr⟩ := h.live_back hl
    exact (hr.2.1.nodup_iff).2 (inv.nodup p pw hl0)
  closed_ok := by
    intro i w' hl hcl
    obtain ⟨w, hl0, hr⟩ := h.live_back hl
    rw [hr.1]
    rcases hr.2.2.2.2.1 with h1 | h1
    · exact inv.closed_ok i w hl0 (by rw [← h1]; exact hcl)
    · exact h1
  req_ok := by
    intro r hr
    obtain ⟨hk, w, hl, hp, hreach⟩ := hc r hr
    obtain ⟨w', hl', hrel⟩ := h.live hl
    exact ⟨hk, w', hl', by rw [hrel.1]; exact hp, h.reach hreach⟩
  focus_ok := by
    intro p pw' hl c hf
    obtain ⟨pw, hl0, hr⟩ := h.live_back hl
    rcases hr.2.2.2.2.2 with h1 | h1 | ⟨c', h1, h2⟩
    · exact (hr.2.1.mem_iff).2 (inv.focus_ok p pw hl0 c (by rw [← h1]; exact hf))
    · rw [h1] at hf; cases hf
    · rw [h1] at hf; cases hf
      exact (hr.2.1.mem_iff).2 h2
  drag_ok := by
    intro s hs
    obtain ⟨w, hl, hreach⟩ := hd s hs
    obtain ⟨w', hl', _⟩ := h.live hl
    exact ⟨w', hl', h.reach hreach⟩

/-- An operation that relates the trees window by window and only drops queued requests / the drag source. -/
theorem TInv.of_rel {t t' : Tree} (inv : TInv t) (h : TRel t t')
    (hc : ∀ r ∈ t'.root.changes, r ∈ t.root.changes)
    (hd : ∀ (s : Nat), t'.root.dragSource = some s → t.root.dragSource = some s) : TInv t' :=
  inv.of_rel_gen h (fun r hr => inv.req_ok r (hc r hr)) (fun s hs => inv.drag_ok s (hd s hs))

end Tickit.Life
