import Tickit.Model.Pen
/-
  Helper lemmas for C19 (pen).
-/
namespace Tickit
end Tickit
