import Tickit.Model.Pen
/-
  Helper lemmas for C19 (pen): bit-field storage, the well-formedness invariant, the abstraction
  `Pen.abs : Pen → PenDict` and the refinement lemmas `abs (op p) = specOp (abs p)`.
-/
namespace Tickit

/-! ### Bit-field storage -/

namespace Bitfield

theorem two_pow_pos (w : Nat) : (0 : Int) < (2 : Int) ^ w := Int.pow_pos (by decide)

theorem two_pow_pred (w : Nat) (hw : 1 ≤ w) : (2 : Int) ^ w = 2 * (2 : Int) ^ (w - 1) := by
  obtain ⟨k, rfl⟩ : ∃ k, w = k + 1 := ⟨w - 1, by omega⟩
  simp [Int.pow_succ, Int.mul_comm]

theorem wrapUnsigned_range (w : Nat) (v : Int) : 0 ≤ wrapUnsigned w v ∧ wrapUnsigned w v < (2 : Int) ^ w := by
  unfold wrapUnsigned
  have h := two_pow_pos w
  exact ⟨Int.emod_nonneg _ (by omega), Int.emod_lt_of_pos _ h⟩

theorem wrapUnsigned_of_range (w : Nat) (v : Int) (h0 : 0 ≤ v) (h1 : v < (2 : Int) ^ w) : wrapUnsigned w v = v := by
  unfold wrapUnsigned
  exact Int.emod_eq_of_lt h0 h1

theorem wrapSigned_range (w : Nat) (hw : 1 ≤ w) (v : Int) :
    -((2 : Int) ^ (w - 1)) ≤ wrapSigned w v ∧ wrapSigned w v < (2 : Int) ^ (w - 1) := by
  unfold wrapSigned
  have h := two_pow_pos w
  have h2 := two_pow_pred w hw
  have a := Int.emod_nonneg (v + (2 : Int) ^ (w - 1)) (show (2 : Int) ^ w ≠ 0 by omega)
  have b := Int.emod_lt_of_pos (v + (2 : Int) ^ (w - 1)) h
  omega

theorem wrapSigned_of_range (w : Nat) (hw : 1 ≤ w) (v : Int)
    (h0 : -((2 : Int) ^ (w - 1)) ≤ v) (h1 : v < (2 : Int) ^ (w - 1)) : wrapSigned w v = v := by
  unfold wrapSigned
  have h2 := two_pow_pred w hw
  rw [Int.emod_eq_of_lt (by omega) (by omega)]
  omega

/-- Storing a representable value is exact. -/
theorem store_of_representable (w : Nat) (s : Bool) (v : Int) (hw : 1 ≤ w) (h : Representable w s v) :
    store w s v = v := by
  unfold store
  unfold Representable at h
  cases s
  · simp at h ⊢; exact wrapUnsigned_of_range w v h.1 h.2
  · simp at h ⊢; exact wrapSigned_of_range w hw v h.1 h.2

/-- Whatever is stored, what is read back is representable. -/
theorem store_representable (w : Nat) (s : Bool) (v : Int) (hw : 1 ≤ w) : Representable w s (store w s v) := by
  unfold store Representable
  cases s
  · simp; exact wrapUnsigned_range w v
  · simp; exact wrapSigned_range w hw v

/-- A value survives a store exactly when it is representable. -/
theorem store_eq_iff (w : Nat) (s : Bool) (v : Int) (hw : 1 ≤ w) : store w s v = v ↔ Representable w s v :=
  ⟨fun h => h ▸ store_representable w s v hw, store_of_representable w s v hw⟩

theorem store_idem (w : Nat) (s : Bool) (v : Int) (hw : 1 ≤ w) : store w s (store w s v) = store w s v :=
  store_of_representable w s _ hw (store_representable w s v hw)

end Bitfield
open Bitfield

/-! ### The attribute enum and the generated tables -/

namespace PenAttr
open Gen.PenLayout

theorem width_pos (a : PenAttr) : 1 ≤ a.width := by cases a <;> decide
theorem all_nodup : all.Nodup := by decide
theorem mem_all (a : PenAttr) : a ∈ all := by cases a <;> decide
theorem ofCode_code (a : PenAttr) : ofCode? a.code = some a := by cases a <;> decide

/-- `all` is the loop `for(attr = 1; attr < TICKIT_N_PEN_ATTRS; attr++)`. -/
theorem all_codes : all.map code = (List.range (TICKIT_N_PEN_ATTRS.toNat - 1)).map (fun (k : Nat) => (k : Int) + 1) := by decide

/-- No enumerator of `TickitPenAttr` is unknown to the model. -/
theorem enum_complete : pen_attrs.map (·.2) = all.map code := by decide

/-- The hand-written `type` is the generated `tickit_penattr_type` table … -/
theorem type_table (a : PenAttr) : penattr_type.lookup a.code = some a.type.code := by cases a <;> decide

/-- … on every code the table lists (0 … `TICKIT_N_PEN_ATTRS`). -/
theorem type_table_all : penattr_type.all (fun e => e.2 == penattrTypeC e.1) = true := by decide

theorem type_table_domain : penattr_type.map (·.1) = (List.range (TICKIT_N_PEN_ATTRS.toNat + 1)).map (fun (k : Nat) => (k : Int)) := by
  decide

/-- The model knows every bit-field of the struct. -/
theorem no_unknown_fields : unknown_fields = [] := by decide

end PenAttr

/-! ### The pen value: abstraction to the dictionary -/

open Gen.PenLayout in
/-- Unfold the per-attribute switches of the pen model and of the dictionary. -/
macro "pen_unfold" : tactic => `(tactic|
  simp [Pen.abs, Pen.setIntAttr, Pen.setBoolAttr, Pen.setColourAttr, Pen.setColourAttrRgb8, Pen.clearAttr,
    PenDict.setInt, PenDict.setBool, PenDict.setColour, PenDict.setRgb8, PenDict.set, PenDict.erase,
    Pen.hasAttr, Pen.getBoolAttr, Pen.getIntAttr, Pen.getColourAttr, Pen.hasColourAttrRgb8, Pen.getColourAttrRgb8,
    PenAttr.type, PenAttr.width, PenAttr.signed] at *)

namespace Pen
open Gen.PenLayout

theorem abs_of_not_has (p : Pen) (a : PenAttr) (h : p.hasAttr a = false) : p.abs a = none := by
  simp [Pen.abs, h]

theorem abs_isSome (p : Pen) (a : PenAttr) : (p.abs a).isSome = p.hasAttr a := by
  unfold Pen.abs; split <;> simp_all

theorem abs_clearAttr (p : Pen) (a : PenAttr) : (p.clearAttr a).abs = p.abs.erase a := by
  funext x
  cases a <;> cases x <;> pen_unfold

theorem abs_setBoolAttr (p : Pen) (a : PenAttr) (v : Bool) :
    (p.setBoolAttr a v).abs = p.abs.setBool a v := by
  funext x
  cases a <;> cases x <;> cases v <;> pen_unfold <;> decide

theorem abs_setIntAttr (p : Pen) (a : PenAttr) (v : Int) (h : a.Representable v) :
    (p.setIntAttr a v).abs = p.abs.setInt a v := by
  have hs := store_of_representable a.width a.signed v a.width_pos h
  funext x
  cases a <;> cases x <;> pen_unfold <;> simp [hs]

theorem abs_setColourAttr (p : Pen) (a : PenAttr) (v : Int) (h : a.Representable v) :
    (p.setColourAttr a v).abs = p.abs.setColour a v := by
  have hs := store_of_representable a.width a.signed v a.width_pos h
  funext x
  cases a <;> cases x <;> pen_unfold <;> simp [hs]

theorem abs_setColourAttrRgb8 (p : Pen) (a : PenAttr) (v : RGB8) :
    (p.setColourAttrRgb8 a v).abs = p.abs.setRgb8 a v := by
  funext x
  cases h : p.hasAttr a <;> cases a <;> cases x <;>
    simp_all [Pen.abs, Pen.setColourAttrRgb8, PenDict.setRgb8, PenDict.set,
      Pen.hasAttr, Pen.getBoolAttr, Pen.getIntAttr, Pen.getColourAttr, Pen.hasColourAttrRgb8, Pen.getColourAttrRgb8,
      PenAttr.type]

/-- Setters for another type leave the pen alone (the `default: return` arms). -/
theorem setIntAttr_wrong_type (p : Pen) (a : PenAttr) (v : Int) (h : a.type ≠ .int) : p.setIntAttr a v = p := by
  cases a <;> simp_all [Pen.setIntAttr, PenAttr.type]

theorem setColourAttr_wrong_type (p : Pen) (a : PenAttr) (v : Int) (h : a.type ≠ .colour) : p.setColourAttr a v = p := by
  cases a <;> simp_all [Pen.setColourAttr, PenAttr.type]

theorem setBoolAttr_wrong_type (p : Pen) (a : PenAttr) (v : Bool) (h : a.type = .colour ∨ a = .altfont ∨ a = .sizepos) :
    p.setBoolAttr a v = p := by
  cases a <;> simp_all [Pen.setBoolAttr, PenAttr.type]

/-! #### `clear`, `new` -/

theorem clear_hasAttr (p : Pen) (a : PenAttr) : p.clear.hasAttr a = false := by
  cases a <;> simp [Pen.clear, PenAttr.all, List.foldl, Pen.clearAttr, Pen.hasAttr]

theorem abs_clear (p : Pen) : p.clear.abs = PenDict.empty := by
  funext x
  simp [Pen.abs, clear_hasAttr, PenDict.empty]

theorem abs_newFrom (g : Pen) : (newFrom g).abs = PenDict.empty := abs_clear g
theorem abs_new : Pen.new.abs = PenDict.empty := abs_clear _

/-! #### The invariant `WF` -/

theorem wf_new : Pen.new.WF := by
  intro a; cases a <;> decide

theorem wf_clearAttr (p : Pen) (a : PenAttr) (h : p.WF) : (p.clearAttr a).WF := by
  intro x; have := h x
  cases a <;> cases x <;> simpa [Pen.clearAttr, Pen.rawField] using this

theorem wf_clear (p : Pen) (h : p.WF) : p.clear.WF := by
  unfold Pen.clear
  generalize PenAttr.all = l
  induction l generalizing p with
  | nil => simpa using h
  | cons a l ih => simp only [List.foldl_cons]; exact ih _ (wf_clearAttr p a h)

theorem wf_setIntAttr (p : Pen) (a : PenAttr) (v : Int) (h : p.WF) : (p.setIntAttr a v).WF := by
  intro x; have hx := h x
  have hs := store_representable a.width a.signed v a.width_pos
  cases a <;> cases x <;>
    simp_all [Pen.setIntAttr, Pen.rawField, PenAttr.Representable, PenAttr.width, PenAttr.signed]

theorem wf_setColourAttr (p : Pen) (a : PenAttr) (v : Int) (h : p.WF) : (p.setColourAttr a v).WF := by
  intro x; have hx := h x
  have hs := store_representable a.width a.signed v a.width_pos
  cases a <;> cases x <;>
    simp_all [Pen.setColourAttr, Pen.rawField, PenAttr.Representable, PenAttr.width, PenAttr.signed]

theorem wf_setBoolAttr (p : Pen) (a : PenAttr) (v : Bool) (h : p.WF) : (p.setBoolAttr a v).WF := by
  intro x; have hx := h x
  have hs := fun w => store_representable a.width a.signed w a.width_pos
  cases a <;> cases x <;>
    simp_all [Pen.setBoolAttr, Pen.rawField, PenAttr.Representable, PenAttr.width, PenAttr.signed]

theorem wf_setColourAttrRgb8 (p : Pen) (a : PenAttr) (v : RGB8) (h : p.WF) : (p.setColourAttrRgb8 a v).WF := by
  intro x; have hx := h x
  unfold Pen.setColourAttrRgb8
  split
  · exact hx
  · cases a <;> cases x <;> simpa [Pen.rawField] using hx

/-! #### equivalence, copy, clone -/

theorem rgb8_eq_iff (x y : RGB8) : x = y ↔ (x.r = y.r ∧ x.g = y.g ∧ x.b = y.b) := by
  cases x; cases y; simp

/-- Reading the dictionary with defaulting is reading the pen through its getters. -/
theorem abs_read (p : Pen) (x : PenAttr) : p.abs.read x = p.typedRead x := by
  cases h : p.hasAttr x <;> cases x <;>
    simp_all [PenDict.read, PenDict.default, Pen.abs, typedRead, PenAttr.type,
      Pen.hasAttr, Pen.getBoolAttr, Pen.getIntAttr, Pen.getColourAttr, Pen.hasColourAttrRgb8, Pen.getColourAttrRgb8]

/-- What `tickit_pen_equiv_attr` compares is what the two pens read as. -/
theorem equivAttr_iff (a b : Pen) (x : PenAttr) : a.equivAttr b x = true ↔ a.typedRead x = b.typedRead x := by
  unfold Pen.equivAttr typedRead
  cases hx : x.type
  · simp
  · simp
  · cases ha : a.hasColourAttrRgb8 x <;> cases hb : b.hasColourAttrRgb8 x <;> simp [rgb8_eq_iff, and_assoc]

theorem equiv_eq_dict (a b : Pen) : a.equiv b = PenDict.equiv a.abs b.abs := by
  unfold Pen.equiv PenDict.equiv
  congr 1
  funext x
  rw [Bool.eq_iff_iff, equivAttr_iff, abs_read, abs_read]
  simp

/-! #### copy -/

theorem getIntAttr_representable (p : Pen) (a : PenAttr) (h : p.WF) : a.Representable (p.getIntAttr a) := by
  have ha := h a
  cases hh : p.hasAttr a <;> cases a <;>
    simp_all [Pen.getIntAttr, Pen.rawField, Pen.hasAttr] <;> decide

theorem getColourAttr_representable (p : Pen) (a : PenAttr) (h : p.WF) (ht : a.type = .colour) :
    a.Representable (p.getColourAttr a) := by
  have ha := h a
  cases hh : p.hasAttr a <;> cases a <;>
    simp_all [Pen.getColourAttr, Pen.rawField, Pen.hasAttr, PenAttr.type] <;> decide

theorem abs_copyAttr (dst src : Pen) (a : PenAttr) (hs : src.WF) :
    (dst.copyAttr src a).abs = PenDict.copyAttr dst.abs src.abs a := by
  unfold Pen.copyAttr PenDict.copyAttr
  rw [abs_read]
  unfold typedRead
  cases ht : a.type
  · simp only [abs_setBoolAttr]
    cases a <;> simp_all [PenDict.setBool, PenAttr.type]
  · simp only [abs_setIntAttr _ _ _ (getIntAttr_representable src a hs)]
    simp [PenDict.setInt, ht]
  · simp only
    split
    · rw [abs_setColourAttrRgb8, abs_setColourAttr _ _ _ (getColourAttr_representable src a hs ht)]
      funext x
      simp [PenDict.setRgb8, PenDict.setColour, ht, PenDict.set]
      split <;> simp_all
    · rw [abs_setColourAttr _ _ _ (getColourAttr_representable src a hs ht)]
      simp [PenDict.setColour, ht]


/-- `PenDict.copy` at `x` looks only at the two entries at `x`. -/
theorem dict_copy_congr (d1 d2 s : PenDict) (ow : Bool) (x : PenAttr) (h : d1 x = d2 x) :
    PenDict.copy d1 s ow x = PenDict.copy d2 s ow x := by
  simp [PenDict.copy, h]

theorem copyStep_abs_other (src : Pen) (ow : Bool) (d : Pen) (a x : PenAttr) (hs : src.WF) (hx : x ≠ a) :
    (copyStep src ow d a).abs x = d.abs x := by
  unfold copyStep
  split
  · rfl
  · split
    · rfl
    · rw [abs_copyAttr _ _ _ hs]; simp [PenDict.copyAttr, PenDict.set, hx]

theorem copyStep_abs_same (src : Pen) (ow : Bool) (d : Pen) (a : PenAttr) (hs : src.WF) :
    (copyStep src ow d a).abs a = PenDict.copy d.abs src.abs ow a := by
  unfold copyStep
  cases hsa : src.hasAttr a
  · simp [PenDict.copy, abs_of_not_has _ _ hsa]
  · have hsome : src.abs a = some (src.typedRead a) := by
      have := abs_read src a
      have h2 := abs_isSome src a
      rw [hsa] at h2
      cases hv : src.abs a with
      | none => simp [hv] at h2
      | some v => simp [PenDict.read, hv] at this; simp [this]
    cases hda : d.hasAttr a
    · simp [abs_copyAttr _ _ _ hs, PenDict.copyAttr, PenDict.set, PenDict.copy, abs_read, hsome,
        abs_of_not_has _ _ hda]
    · have hd : (d.abs a).isSome = true := by rw [abs_isSome, hda]
      cases ow
      · simp [PenDict.copy, hsome, hd]
      · cases he : src.equivAttr d a
        · simp [abs_copyAttr _ _ _ hs, PenDict.copyAttr, PenDict.set, PenDict.copy, abs_read, hsome, hd]
        · simp [PenDict.copy, hsome, hd]
          have := (equivAttr_iff src d a).1 he
          have hr := abs_read d a
          cases hv : d.abs a with
          | none => simp [hv] at hd
          | some v => simp [PenDict.read, hv] at hr; rw [hr, this]

theorem foldl_copyStep_abs (src : Pen) (ow : Bool) (hs : src.WF) (l : List PenAttr) (hl : l.Nodup) (d : Pen) (x : PenAttr) :
    (l.foldl (copyStep src ow) d).abs x = if x ∈ l then PenDict.copy d.abs src.abs ow x else d.abs x := by
  induction l generalizing d with
  | nil => simp
  | cons a l ih =>
    simp only [List.foldl_cons]
    rw [ih (List.nodup_cons.1 hl).2]
    by_cases hxa : x = a
    · subst hxa
      have : x ∉ l := (List.nodup_cons.1 hl).1
      simp [this, copyStep_abs_same _ _ _ _ hs]
    · simp only [List.mem_cons, hxa, false_or]
      rw [copyStep_abs_other _ _ _ _ _ hs hxa]
      split
      · exact dict_copy_congr _ _ _ _ _ (copyStep_abs_other _ _ _ _ _ hs hxa)
      · rfl

/-- `tickit_pen_copy` refines the dictionary copy. -/
theorem abs_copy (dst src : Pen) (ow : Bool) (hs : src.WF) : (dst.copy src ow).abs = PenDict.copy dst.abs src.abs ow := by
  funext x
  unfold Pen.copy
  rw [foldl_copyStep_abs src ow hs _ PenAttr.all_nodup]
  simp [PenAttr.mem_all]

theorem dict_copy_empty (s : PenDict) (ow : Bool) : PenDict.copy PenDict.empty s ow = s := by
  funext x
  simp [PenDict.copy, PenDict.empty]
  cases s x <;> simp

theorem abs_clone (orig : Pen) (h : orig.WF) : orig.clone.abs = orig.abs := by
  unfold Pen.clone
  rw [abs_copy _ _ _ h, abs_new, dict_copy_empty]


/-! #### colour descriptions -/

theorem descParseRgb8_cases (sc : Scanf) (p : Pen) (a : PenAttr) (desc : List UInt8) (hashp : Option Nat) :
    descParseRgb8 sc p a desc hashp = (true, p) ∨ ∃ rgb, descParseRgb8 sc p a desc hashp = (true, p.setColourAttrRgb8 a rgb) := by
  unfold descParseRgb8
  split
  · split
    · exact Or.inr ⟨_, rfl⟩
    · exact Or.inl rfl
  · exact Or.inl rfl

theorem descCore_structural (sc : Scanf) (p : Pen) (a : PenAttr) (s : List UInt8) (hi : Int) :
    descCore sc p a s hi = (false, p) ∨
    ∃ idx, descCore sc p a s hi = (true, p.setColourAttr a idx) ∨
      ∃ rgb, descCore sc p a s hi = (true, (p.setColourAttr a idx).setColourAttrRgb8 a rgb) := by
  unfold descCore
  simp only
  split
  · split
    · exact Or.inl rfl
    · exact Or.inr ⟨_, descParseRgb8_cases _ _ _ _ _⟩
  · split
    · exact Or.inr ⟨_, descParseRgb8_cases _ _ _ _ _⟩
    · exact Or.inl rfl

theorem desc_structural (sc : Scanf) (p : Pen) (a : PenAttr) (s : List UInt8) :
    setColourAttrDesc sc p a s = (false, p) ∨
    ∃ idx, setColourAttrDesc sc p a s = (true, p.setColourAttr a idx) ∨
      ∃ rgb, setColourAttrDesc sc p a s = (true, (p.setColourAttr a idx).setColourAttrRgb8 a rgb) := by
  unfold setColourAttrDesc
  split <;> exact descCore_structural _ _ _ _ _



theorem descCore_eq_parse (sc : Scanf) (p : Pen) (a : PenAttr) (s : List UInt8) (hi : Int) :
    descCore sc p a s hi = applyParsed p a (descParseCore sc s hi) := by
  unfold descCore descParseCore descParseRgb8
  simp only
  split
  · split
    · rfl
    · split
      · split <;> simp_all [applyParsed]
      · simp [applyParsed]
  · split
    · split
      · split <;> simp_all [applyParsed]
      · simp [applyParsed]
    · rfl

/-- The description parser is: parse the string (independently of pen and attribute), then make the direct calls. -/
theorem setColourAttrDesc_eq_parse (sc : Scanf) (p : Pen) (a : PenAttr) (s : List UInt8) :
    setColourAttrDesc sc p a s = applyParsed p a (descParse sc s) := by
  unfold setColourAttrDesc descParse
  split <;> exact descCore_eq_parse _ _ _ _ _

/-! general (unconditional) forms of the setter refinements: what is stored is `store width signed v` -/

theorem abs_setIntAttr' (p : Pen) (a : PenAttr) (v : Int) :
    (p.setIntAttr a v).abs = p.abs.setInt a (store a.width a.signed v) := by
  funext x
  cases a <;> cases x <;> pen_unfold

theorem abs_setColourAttr' (p : Pen) (a : PenAttr) (v : Int) :
    (p.setColourAttr a v).abs = p.abs.setColour a (store a.width a.signed v) := by
  funext x
  cases a <;> cases x <;> pen_unfold

/-! WF is preserved by the remaining operations -/

theorem wf_copyAttr (dst src : Pen) (a : PenAttr) (h : dst.WF) : (dst.copyAttr src a).WF := by
  unfold Pen.copyAttr
  split
  · exact wf_setBoolAttr _ _ _ h
  · exact wf_setIntAttr _ _ _ h
  · simp only
    split
    · exact wf_setColourAttrRgb8 _ _ _ (wf_setColourAttr _ _ _ h)
    · exact wf_setColourAttr _ _ _ h

theorem wf_copyStep (src : Pen) (ow : Bool) (d : Pen) (a : PenAttr) (h : d.WF) : (copyStep src ow d a).WF := by
  unfold copyStep
  split
  · exact h
  · split
    · exact h
    · exact wf_copyAttr _ _ _ h

theorem wf_copy (dst src : Pen) (ow : Bool) (h : dst.WF) : (dst.copy src ow).WF := by
  unfold Pen.copy
  generalize PenAttr.all = l
  induction l generalizing dst with
  | nil => simpa using h
  | cons a l ih => simp only [List.foldl_cons]; exact ih _ (wf_copyStep _ _ _ _ h)

theorem wf_clone (orig : Pen) : orig.clone.WF := wf_copy _ _ _ wf_new

theorem wf_applyParsed (p : Pen) (a : PenAttr) (r : Option (Int × Option RGB8)) (h : p.WF) : (applyParsed p a r).2.WF := by
  unfold applyParsed
  split
  · exact h
  · exact wf_setColourAttr _ _ _ h
  · exact wf_setColourAttrRgb8 _ _ _ (wf_setColourAttr _ _ _ h)

theorem wf_setColourAttrDesc (sc : Scanf) (p : Pen) (a : PenAttr) (s : List UInt8) (h : p.WF) :
    (setColourAttrDesc sc p a s).2.WF := by
  rw [setColourAttrDesc_eq_parse]; exact wf_applyParsed _ _ _ h

end Pen

/-! ### The pen object: the event layer does not change the value semantics -/
namespace PenObj

@[simp] theorem runEvents_pen (o : PenObj) : o.runEvents.pen = o.pen := rfl
@[simp] theorem markChanged_pen (o : PenObj) : o.markChanged.pen = o.pen := by unfold markChanged; split <;> rfl
@[simp] theorem freeze_pen (o : PenObj) : o.freeze.pen = o.pen := rfl
@[simp] theorem thaw_pen (o : PenObj) : o.thaw.pen = o.pen := by unfold thaw; simp only; split <;> rfl

theorem setBoolAttr_pen (o : PenObj) (a : PenAttr) (v : Bool) : (o.setBoolAttr a v).pen = o.pen.setBoolAttr a v := by
  cases a <;> simp [setBoolAttr, Pen.setBoolAttr]

theorem setIntAttr_pen (o : PenObj) (a : PenAttr) (v : Int) : (o.setIntAttr a v).pen = o.pen.setIntAttr a v := by
  cases a <;> simp [setIntAttr, Pen.setIntAttr]

theorem setColourAttr_pen (o : PenObj) (a : PenAttr) (v : Int) : (o.setColourAttr a v).pen = o.pen.setColourAttr a v := by
  cases a <;> simp [setColourAttr, Pen.setColourAttr]

theorem setColourAttrRgb8_pen (o : PenObj) (a : PenAttr) (v : RGB8) :
    (o.setColourAttrRgb8 a v).pen = o.pen.setColourAttrRgb8 a v := by
  unfold setColourAttrRgb8 Pen.setColourAttrRgb8
  split
  · rfl
  · cases a <;> simp

theorem clearAttr_pen (o : PenObj) (a : PenAttr) : (o.clearAttr a).pen = o.pen.clearAttr a := by
  simp [clearAttr]

theorem clear_pen (o : PenObj) : o.clear.pen = o.pen.clear := by
  unfold clear Pen.clear
  generalize PenAttr.all = l
  induction l generalizing o with
  | nil => rfl
  | cons a l ih => simp only [List.foldl_cons]; rw [ih, clearAttr_pen]

theorem copyAttr_pen (dst : PenObj) (src : Pen) (a : PenAttr) : (dst.copyAttr src a).pen = dst.pen.copyAttr src a := by
  unfold copyAttr Pen.copyAttr
  split
  · exact setBoolAttr_pen _ _ _
  · exact setIntAttr_pen _ _ _
  · simp only [thaw_pen]
    split
    · rw [setColourAttrRgb8_pen, setColourAttr_pen, freeze_pen]
    · rw [setColourAttr_pen, freeze_pen]

theorem copyStep_pen (src : Pen) (ow : Bool) (d : PenObj) (a : PenAttr) :
    (copyStep src ow d a).pen = Pen.copyStep src ow d.pen a := by
  unfold copyStep Pen.copyStep
  split
  · rfl
  · split
    · rfl
    · exact copyAttr_pen _ _ _

theorem copy_pen (dst : PenObj) (src : Pen) (ow : Bool) : (dst.copy src ow).pen = dst.pen.copy src ow := by
  unfold copy Pen.copy
  rw [thaw_pen]
  have : dst.freeze.pen = dst.pen := rfl
  rw [← this]
  generalize dst.freeze = d
  generalize PenAttr.all = l
  induction l generalizing d with
  | nil => rfl
  | cons a l ih => simp only [List.foldl_cons]; rw [ih, copyStep_pen]

theorem copyAttrSelf_pen (p : PenObj) (a : PenAttr) : (p.copyAttrSelf a).pen = p.pen.copyAttrSelf a := by
  unfold copyAttrSelf Pen.copyAttrSelf
  exact copyAttr_pen _ _ _

theorem descCore_pen (sc : Pen.Scanf) (o : PenObj) (a : PenAttr) (s : List UInt8) (hi : Int) :
    ((o.descCore sc a s hi).1, (o.descCore sc a s hi).2.pen) = Pen.descCore sc o.pen a s hi := by
  unfold descCore Pen.descCore descParseRgb8 Pen.descParseRgb8
  simp only
  split
  · split
    · rfl
    · split
      · split <;> simp [setColourAttrRgb8_pen, setColourAttr_pen]
      · simp [setColourAttr_pen]
  · split
    · split
      · split <;> simp [setColourAttrRgb8_pen, setColourAttr_pen]
      · simp [setColourAttr_pen]
    · rfl

theorem setColourAttrDesc_pen (sc : Pen.Scanf) (o : PenObj) (a : PenAttr) (s : List UInt8) :
    ((o.setColourAttrDesc sc a s).1, (o.setColourAttrDesc sc a s).2.pen) = Pen.setColourAttrDesc sc o.pen a s := by
  unfold setColourAttrDesc Pen.setColourAttrDesc
  split <;> exact descCore_pen _ _ _ _ _

end PenObj
/-! ### The recorded libc behaviour on the documented grammar -/

namespace PenScan
open Pen

theorem uint8_forall (P : UInt8 → Bool) (h : (List.range 256).all (fun n => P (UInt8.ofNat n)) = true) (c : UInt8) :
    P c = true := by
  have := List.all_eq_true.1 h c.toNat (List.mem_range.2 c.toNat_lt)
  simpa using this

theorem digit_facts (c : UInt8) (h : isDigit c = true) :
    isSpace c = false ∧ (c == 45) = false ∧ (c == 43) = false ∧ (c == 35) = false ∧ (c == 104) = false := by
  have := uint8_forall (fun c => !isDigit c || (!isSpace c && !(c == 45) && !(c == 43) && !(c == 35) && !(c == 104)))
    (by decide +kernel) c
  simp [h] at this
  simp [this]

theorem takeWhile_all {α} (p : α → Bool) (l : List α) (h : ∀ x ∈ l, p x = true) : l.takeWhile p = l := by
  induction l with
  | nil => rfl
  | cons a l ih =>
    simp only [List.takeWhile_cons, h a (List.mem_cons_self ..)]
    simp [ih (fun x hx => h x (List.mem_cons_of_mem _ hx))]

/-- The decimal value of a digit string (what `strtol` computes). -/
def decVal (ds : List UInt8) : Nat := ds.foldl (fun acc d => acc * 10 + (d.toNat - 48)) 0

/-- `sscanf("%d")` on a non-empty string of decimal digits whose value fits an `int`. -/
theorem scanD_digits (ds : List UInt8) (hne : ds ≠ []) (hd : ∀ d ∈ ds, isDigit d = true) (hv : decVal ds < 2 ^ 31) :
    scanD ds = some (decVal ds : Int) := by
  cases ds with
  | nil => exact absurd rfl hne
  | cons c rest =>
    have hc := digit_facts c (hd c (List.mem_cons_self ..))
    have htw : (c :: rest).takeWhile isDigit = c :: rest := takeWhile_all _ _ hd
    unfold scanD skipSpace
    simp only [List.dropWhile_cons, hc.1, Bool.false_eq_true, if_false]
    simp only [hc.2.1, hc.2.2.1, Bool.or_self, Bool.false_eq_true, if_false, htw]
    simp only [List.isEmpty_cons, Bool.false_eq_true, if_false]
    have hv' : ((List.foldl (fun acc d => acc * 10 + (d.toNat - 48)) 0 (c :: rest) : Nat) : Int) < 2 ^ 31 := by
      have : (List.foldl (fun acc d => acc * 10 + (d.toNat - 48)) 0 (c :: rest)) = decVal (c :: rest) := rfl
      rw [this]; exact_mod_cast hv
    generalize hn : (List.foldl (fun acc d => acc * 10 + (d.toNat - 48)) 0 (c :: rest) : Nat) = n at hv'
    have hdv : decVal (c :: rest) = n := hn
    rw [hdv]
    congr 1
    have h1 : min (n : Int) (2 ^ 63 - 1) = n := by omega
    have h2 : max (-(2 : Int) ^ 63) (n : Int) = n := by omega
    rw [h1, h2]
    exact wrapSigned_of_range 32 (by decide) _ (by first | omega | simp) (by first | omega | simp)


theorem digits_no_hash (ds : List UInt8) (hd : ∀ d ∈ ds, isDigit d = true) : ds.findIdx? (· == 35) = none := by
  rw [List.findIdx?_eq_none_iff]
  intro x hx; exact (digit_facts x (hd x hx)).2.2.2.1

theorem digits_not_hi (ds : List UInt8) (hd : ∀ d ∈ ds, isDigit d = true) : (ds.take 3 == hiPrefix) = false := by
  cases ds with
  | nil => decide
  | cons c rest =>
    have hc := (digit_facts c (hd c (List.mem_cons_self ..))).2.2.2.2
    have hc' : c ≠ 104 := by simpa using hc
    rw [Bool.eq_false_iff]
    intro h
    have h2 : List.take 3 (c :: rest) = hiPrefix := by simpa using h
    have h3 := congrArg List.head? h2
    simp [hiPrefix] at h3
    exact hc' h3

/-- Under the recorded libc behaviour: a decimal number is accepted as that colour index. -/
theorem desc_number (ds : List UInt8) (hne : ds ≠ []) (hd : ∀ d ∈ ds, isDigit d = true) (hv : decVal ds < 2 ^ 31) :
    descParse glibcScanf ds = some ((decVal ds : Int), none) := by
  unfold descParse
  rw [digits_not_hi ds hd]
  simp only [Bool.false_eq_true, if_false]
  unfold descParseCore
  simp only [digits_no_hash ds hd, glibcScanf, scanD_digits ds hne hd hv]
  simp

/-- … and after `hi-`, a number 0…7 gives 8…15, a larger one is rejected. -/
theorem desc_hi_number (ds : List UInt8) (hne : ds ≠ []) (hd : ∀ d ∈ ds, isDigit d = true) (hv : decVal ds < 2 ^ 31) :
    descParse glibcScanf (hiPrefix ++ ds) = if decVal ds ≤ 7 then some ((decVal ds : Int) + 8, none) else none := by
  unfold descParse
  have : ((hiPrefix ++ ds).take 3 == hiPrefix) = true := by simp [hiPrefix]
  rw [this]
  simp only [if_true]
  have hdrop : (hiPrefix ++ ds).drop 3 = ds := by simp [hiPrefix]
  rw [hdrop]
  unfold descParseCore
  simp only [digits_no_hash ds hd, glibcScanf, scanD_digits ds hne hd hv]
  split <;> split <;> simp_all <;> omega

/-! #### the `#rrggbb` tail -/

theorem xdigit_facts (c : UInt8) (h : isXDigit c = true) :
    isSpace c = false ∧ (c == 45) = false ∧ (c == 43) = false ∧ (c == 120) = false ∧ (c == 88) = false ∧ xval c < 16 := by
  have := uint8_forall (fun c => !isXDigit c || (!isSpace c && !(c == 45) && !(c == 43) && !(c == 120) && !(c == 88) && decide (xval c < 16)))
    (by decide +kernel) c
  simp [h] at this
  simp [this]

/-- `%2hhx` on two hexadecimal digits reads exactly those two. -/
theorem scanHexW2_two (a b : UInt8) (rest : List UInt8) (ha : isXDigit a = true) (hb : isXDigit b = true) :
    scanHexW 2 (a :: b :: rest) = some (UInt8.ofNat (xval a * 16 + xval b), rest) := by
  have fa := xdigit_facts a ha
  have fb := xdigit_facts b hb
  generalize hr : UInt8.ofNat (xval a * 16 + xval b) = r
  unfold scanHexW skipSpace
  simp only [List.dropWhile_cons, fa.1, Bool.false_eq_true, if_false]
  simp only [fa.2.1, fa.2.2.1, Bool.or_self, Bool.false_eq_true, if_false, List.head?_cons]
  have hxa := fa.2.2.2.2.2
  have hxb := fb.2.2.2.2.2
  by_cases h0 : a = 48
  · subst h0
    have hx0 : xval 48 = 0 := by decide
    simp [hb, fb.2.2.2.1, fb.2.2.2.2.1]
    rw [← hr, hx0]
    congr 1
    omega
  · have : (some a == some (48 : UInt8)) = false := by simp [h0]
    simp [this, ha, hb]
    rw [← hr]
    congr 1
    omega

theorem scanRgb_hex6 (a b c d e f : UInt8) (rest : List UInt8)
    (ha : isXDigit a = true) (hb : isXDigit b = true) (hc : isXDigit c = true) (hd : isXDigit d = true)
    (he : isXDigit e = true) (hf : isXDigit f = true) :
    scanRgb (a :: b :: c :: d :: e :: f :: rest) =
      some ⟨UInt8.ofNat (xval a * 16 + xval b), UInt8.ofNat (xval c * 16 + xval d), UInt8.ofNat (xval e * 16 + xval f)⟩ := by
  unfold scanRgb
  rw [scanHexW2_two a b _ ha hb]; simp only
  rw [scanHexW2_two c d _ hc hd]; simp only
  rw [scanHexW2_two e f _ he hf]


theorem takeWhile_append_stop {α} (p : α → Bool) (x t : List α) (h : ∀ c, t.head? = some c → p c = false) :
    (x ++ t).takeWhile p = x.takeWhile p := by
  induction x with
  | nil =>
    cases t with
    | nil => rfl
    | cons c t => simp [h c rfl]
  | cons a x ih => simp only [List.cons_append, List.takeWhile_cons]; split <;> simp [ih]

theorem dropWhile_append_cons {α} (p : α → Bool) (x t : List α) (c : α) (r : List α) (h : x.dropWhile p = c :: r) :
    (x ++ t).dropWhile p = c :: r ++ t := by
  induction x with
  | nil => simp at h
  | cons a x ih =>
    simp only [List.cons_append, List.dropWhile_cons] at h ⊢
    split
    · next hp => simp only [hp, if_true] at h; exact ih h
    · next hp => simp only [hp] at h; simp at h; obtain ⟨rfl, rfl⟩ := h; rfl

theorem dropWhile_append_nil {α} (p : α → Bool) (x t : List α) (h : x.dropWhile p = []) :
    (x ++ t).dropWhile p = t.dropWhile p := by
  induction x with
  | nil => rfl
  | cons a x ih =>
    simp only [List.cons_append, List.dropWhile_cons] at h ⊢
    split
    · next hp => simp only [hp, if_true] at h; exact ih h
    · next hp => simp [hp] at h

/-- The tail `spaces # …` of a description. -/
def hashTail (n : Nat) (rest : List UInt8) : List UInt8 := List.replicate n 32 ++ 35 :: rest

theorem hashTail_head (n : Nat) (rest : List UInt8) : ∀ c, (hashTail n rest).head? = some c → isDigit c = false := by
  intro c h
  cases n with
  | zero => simp [hashTail] at h; subst h; decide
  | succ n => simp [hashTail, List.replicate_succ] at h; subst h; decide

theorem hashTail_skip (n : Nat) (rest : List UInt8) : skipSpace (hashTail n rest) = 35 :: rest := by
  unfold skipSpace hashTail
  induction n with
  | zero =>
    have : isSpace 35 = false := by decide
    simp [List.dropWhile_cons, this]
  | succ n ih =>
    have : isSpace 32 = true := by decide
    simp only [List.replicate_succ, List.cons_append, List.dropWhile_cons, this, if_true]; exact ih

/-- `sscanf("%d")` does not see the `#…` tail. -/
theorem scanD_hashTail (base : List UInt8) (n : Nat) (rest : List UInt8) :
    scanD (base ++ hashTail n rest) = scanD base := by
  unfold scanD
  cases hb : skipSpace base with
  | nil =>
    have : skipSpace (base ++ hashTail n rest) = 35 :: rest := by
      unfold skipSpace at hb ⊢
      rw [dropWhile_append_nil _ _ _ hb]; exact hashTail_skip n rest
    rw [this]
    simp [isDigit]
  | cons c b' =>
    have : skipSpace (base ++ hashTail n rest) = c :: b' ++ hashTail n rest := by
      unfold skipSpace at hb ⊢
      exact dropWhile_append_cons _ _ _ _ _ hb
    rw [this]
    simp only [List.cons_append]
    have h1 : (if (c == 45 || c == 43) = true then b' ++ hashTail n rest else c :: (b' ++ hashTail n rest)) =
        (if (c == 45 || c == 43) = true then b' else c :: b') ++ hashTail n rest := by split <;> rfl
    simp only [h1, takeWhile_append_stop isDigit _ _ (hashTail_head n rest)]


theorem findIdx_hashTail (n : Nat) (rest : List UInt8) : (hashTail n rest).findIdx? (· == 35) = some n := by
  unfold hashTail
  induction n with
  | zero => simp [List.findIdx?_cons]
  | succ n ih =>
    simp only [List.replicate_succ, List.cons_append, List.findIdx?_cons]
    have : ((32 : UInt8) == 35) = false := by decide
    simp [this, ih]

theorem findIdx_base_tail (base : List UInt8) (n : Nat) (rest : List UInt8) (h1 : ∀ c ∈ base, (c == 35) = false) :
    (base ++ hashTail n rest).findIdx? (· == 35) = some (base.length + n) := by
  induction base with
  | nil => simpa using findIdx_hashTail n rest
  | cons a base ih =>
    simp only [List.cons_append, List.findIdx?_cons, h1 a (List.mem_cons_self ..)]
    simp [ih (fun c hc => h1 c (List.mem_cons_of_mem _ hc))]
    omega

theorem findIdx_base (base : List UInt8) (h1 : ∀ c ∈ base, (c == 35) = false) : base.findIdx? (· == 35) = none := by
  rw [List.findIdx?_eq_none_iff]; exact h1

theorem hashTail_getElem (n : Nat) (rest : List UInt8) (k : Nat) (h : k < n) : (hashTail n rest)[k]? = some 32 := by
  unfold hashTail
  rw [List.getElem?_append_left (by simpa using h)]
  simp [h]

theorem trimLen_tail (base : List UInt8) (n : Nat) (rest : List UInt8) (h2 : base.getLast? ≠ some 32) :
    trimLen (base ++ hashTail n rest) (base.length + n) = base.length := by
  induction n with
  | zero =>
    simp only [Nat.add_zero]
    cases hb : base.length with
    | zero => rfl
    | succ k =>
      unfold trimLen
      have : (base ++ hashTail 0 rest)[k]? = base.getLast? := by
        rw [List.getElem?_append_left (by omega), List.getLast?_eq_getElem?]
        congr 1; omega
      rw [this]
      simp [h2]
  | succ n ih =>
    have : base.length + (n + 1) = (base.length + n) + 1 := by omega
    rw [this]
    unfold trimLen
    have hk : (base ++ hashTail (n + 1) rest)[base.length + n]? = some 32 := by
      rw [List.getElem?_append_right (by omega)]
      exact hashTail_getElem _ _ _ (by omega)
    rw [hk]
    rw [if_pos (by decide)]
    -- the array one space shorter has the same prefix
    have : ∀ m, m ≤ base.length + n → trimLen (base ++ hashTail (n + 1) rest) m = trimLen (base ++ hashTail n rest) m := by
      intro m hm
      induction m with
      | zero => rfl
      | succ m ihm =>
        unfold trimLen
        have e : (base ++ hashTail (n + 1) rest)[m]? = (base ++ hashTail n rest)[m]? := by
          by_cases hmb : m < base.length
          · rw [List.getElem?_append_left hmb, List.getElem?_append_left hmb]
          · rw [List.getElem?_append_right (by omega), List.getElem?_append_right (by omega)]
            have hlt : m - base.length < n := by omega
            rw [hashTail_getElem _ _ _ hlt, hashTail_getElem _ _ _ (by omega)]
        rw [e, ihm (by omega)]
    rw [this _ (Nat.le_refl _)]
    exact ih


theorem drop_tail (base : List UInt8) (n : Nat) (rest : List UInt8) :
    (base ++ hashTail n rest).drop (base.length + n + 1) = rest := by
  have : base.length + n + 1 = base.length + (n + 1) := by omega
  rw [this, List.drop_append]
  simp [hashTail, List.drop_append]

theorem namePrefixMatch_tail (base name : List UInt8) (t : List UInt8) :
    namePrefixMatch (base ++ t) name base.length = namePrefixMatch base name base.length := by
  unfold namePrefixMatch
  simp [List.take_append]

/-- A description `base spaces # tail`, where `base` has no `#` and does not end in a space: the index is that
    of `base` alone and the RGB8 is whatever `sscanf` makes of the tail (for any `sscanf` that does not let the
    tail influence `"%d"`). -/
theorem descParseCore_tail (sc : Scanf) (base : List UInt8) (n : Nat) (rest : List UInt8) (hi : Int)
    (h1 : ∀ c ∈ base, (c == 35) = false) (h2 : base.getLast? ≠ some 32)
    (hscan : sc.scanD (base ++ hashTail n rest) = sc.scanD base) :
    descParseCore sc (base ++ hashTail n rest) hi =
      (descParseCore sc base hi).map (fun r => (r.1, sc.scanRgb rest)) := by
  unfold descParseCore
  simp only [findIdx_base_tail base n rest h1, findIdx_base base h1, trimLen_tail base n rest h2, drop_tail, hscan,
    namePrefixMatch_tail]
  cases sc.scanD base with
  | some v => simp only; split <;> simp
  | none =>
    simp only
    cases colourNames.find? (fun e => namePrefixMatch base e.1 base.length) <;> simp


theorem hashTail_cases (n : Nat) (rest : List UInt8) :
    ∃ c t, hashTail n rest = c :: t ∧ (c = 32 ∨ c = 35) := by
  cases n with
  | zero => exact ⟨35, rest, rfl, Or.inr rfl⟩
  | succ n => exact ⟨32, List.replicate n 32 ++ 35 :: rest, by simp [hashTail, List.replicate_succ], Or.inl rfl⟩

theorem take3_tail (base : List UInt8) (n : Nat) (rest : List UInt8) :
    ((base ++ hashTail n rest).take 3 == hiPrefix) = (base.take 3 == hiPrefix) := by
  obtain ⟨c, t, ht, hc⟩ := hashTail_cases n rest
  rw [ht]
  match base with
  | [] => rcases hc with rfl | rfl <;> simp [hiPrefix]
  | [x] => rcases hc with rfl | rfl <;> simp [hiPrefix]
  | [x, y] => rcases hc with rfl | rfl <;> simp [hiPrefix]
  | x :: y :: z :: r => simp

theorem descParse_tail (sc : Scanf) (base : List UInt8) (n : Nat) (rest : List UInt8)
    (h1 : ∀ c ∈ base, (c == 35) = false) (h2 : base.getLast? ≠ some 32)
    (hscan : ∀ b : List UInt8, sc.scanD (b ++ hashTail n rest) = sc.scanD b) :
    descParse sc (base ++ hashTail n rest) = (descParse sc base).map (fun r => (r.1, sc.scanRgb rest)) := by
  unfold descParse
  rw [take3_tail]
  split
  · next hhi =>
    have hlen : 3 ≤ base.length := by
      match base, hhi with
      | [], h => simp [hiPrefix] at h
      | [_], h => simp [hiPrefix] at h
      | [_, _], h => simp [hiPrefix] at h
      | _ :: _ :: _ :: _, _ => simp
    have hd : (base ++ hashTail n rest).drop 3 = base.drop 3 ++ hashTail n rest := by
      rw [List.drop_append]; simp [Nat.sub_eq_zero_of_le hlen]
    rw [hd]
    apply descParseCore_tail _ _ _ _ _ (fun c hc => h1 c (List.mem_of_mem_drop hc)) _ (hscan _)
    intro hl
    apply h2
    cases hdr : base.drop 3 with
    | nil => simp [hdr] at hl
    | cons a r =>
      have : base = base.take 3 ++ base.drop 3 := (List.take_append_drop 3 base).symm
      rw [this, hdr, List.getLast?_append]
      rw [hdr] at hl
      simp [hl]
  · exact descParseCore_tail _ _ _ _ _ h1 h2 (hscan _)

end PenScan

namespace PenHistory
open Pen

/-! ### Histories -/

/-- The operations of a history over pens numbered by `Nat`. -/
inductive PenOp
  | setBool (i : Nat) (a : PenAttr) (v : Bool)
  | setInt (i : Nat) (a : PenAttr) (v : Int)
  | setColour (i : Nat) (a : PenAttr) (v : Int)
  | setRgb8 (i : Nat) (a : PenAttr) (v : RGB8)
  | clearAttr (i : Nat) (a : PenAttr)
  | clear (i : Nat)
  | copy (dst src : Nat) (overwrite : Bool)
  | copyAttr (dst src : Nat) (a : PenAttr)
  | clone (dst src : Nat)
  | desc (i : Nat) (a : PenAttr) (s : List UInt8)

def upd {α} (f : Nat → α) (i : Nat) (v : α) : Nat → α := fun k => if k = i then v else f k

/-- The model: the functions of pen.c, with the aliased forms when source and destination coincide. -/
def PenOp.run (sc : Scanf) (st : Nat → Pen) : PenOp → (Nat → Pen)
  | .setBool i a v => upd st i ((st i).setBoolAttr a v)
  | .setInt i a v => upd st i ((st i).setIntAttr a v)
  | .setColour i a v => upd st i ((st i).setColourAttr a v)
  | .setRgb8 i a v => upd st i ((st i).setColourAttrRgb8 a v)
  | .clearAttr i a => upd st i ((st i).clearAttr a)
  | .clear i => upd st i (st i).clear
  | .copy d s ow => if d = s then st else upd st d ((st d).copy (st s) ow)
  | .copyAttr d s a => upd st d (if d = s then (st d).copyAttrSelf a else (st d).copyAttr (st s) a)
  | .clone d s => upd st d (st s).clone
  | .desc i a s => upd st i (setColourAttrDesc sc (st i) a s).2

/-- The specification: the same history on dictionaries.  A stored value is the value reduced into the
    attribute's bit-field (the value itself when representable); a description is what `descParse` extracts. -/
def PenOp.spec (sc : Scanf) (st : Nat → PenDict) : PenOp → (Nat → PenDict)
  | .setBool i a v => upd st i ((st i).setBool a v)
  | .setInt i a v => upd st i ((st i).setInt a (store a.width a.signed v))
  | .setColour i a v => upd st i ((st i).setColour a (store a.width a.signed v))
  | .setRgb8 i a v => upd st i ((st i).setRgb8 a v)
  | .clearAttr i a => upd st i ((st i).erase a)
  | .clear i => upd st i PenDict.empty
  | .copy d s ow => upd st d (PenDict.copy (st d) (st s) ow)
  | .copyAttr d s a => upd st d (PenDict.copyAttr (st d) (st s) a)
  | .clone d s => upd st d (st s)
  | .desc i a s =>
    match descParse sc s with
    | none => st
    | some (idx, none) => upd st i ((st i).setColour a (store a.width a.signed idx))
    | some (idx, some rgb) => upd st i (((st i).setColour a (store a.width a.signed idx)).setRgb8 a rgb)

theorem dict_copy_self (d : PenDict) (ow : Bool) : PenDict.copy d d ow = d := by
  funext x; unfold PenDict.copy; cases h : d x <;> simp

/-- Aliased `copy_attr` is the dictionary `copyAttr` of a pen onto itself (the source is read first). -/
theorem abs_copyAttrSelf (p : Pen) (a : PenAttr) (hp : p.WF) :
    (p.copyAttrSelf a).abs = PenDict.copyAttr p.abs p.abs a := abs_copyAttr p p a hp

theorem wf_copyAttrSelf (p : Pen) (a : PenAttr) (h : p.WF) : (p.copyAttrSelf a).WF := wf_copyAttr p p a h

theorem upd_wf (st : Nat → Pen) (i : Nat) (p : Pen) (h : ∀ i, (st i).WF) (hp : p.WF) : ∀ k, (upd st i p k).WF := by
  intro k; unfold upd; split
  · exact hp
  · exact h k

theorem PenOp.run_wf (sc : Scanf) (st : Nat → Pen) (op : PenOp) (h : ∀ i, (st i).WF) : ∀ i, (op.run sc st i).WF := by
  cases op with
  | setBool i a v => exact upd_wf _ _ _ h (wf_setBoolAttr _ _ _ (h _))
  | setInt i a v => exact upd_wf _ _ _ h (wf_setIntAttr _ _ _ (h _))
  | setColour i a v => exact upd_wf _ _ _ h (wf_setColourAttr _ _ _ (h _))
  | setRgb8 i a v => exact upd_wf _ _ _ h (wf_setColourAttrRgb8 _ _ _ (h _))
  | clearAttr i a => exact upd_wf _ _ _ h (wf_clearAttr _ _ (h _))
  | clear i => exact upd_wf _ _ _ h (wf_clear _ (h _))
  | copy d s ow =>
    simp only [PenOp.run]; split
    · exact h
    · exact upd_wf _ _ _ h (wf_copy _ _ _ (h _))
  | copyAttr d s a =>
    simp only [PenOp.run]
    refine upd_wf _ _ _ h ?_
    split
    · exact wf_copyAttrSelf _ _ (h _)
    · exact wf_copyAttr _ _ _ (h _)
  | clone d s => exact upd_wf _ _ _ h (wf_clone _)
  | desc i a s => exact upd_wf _ _ _ h (wf_setColourAttrDesc _ _ _ _ (h _))

/-- One operation refines its dictionary meaning. -/
theorem PenOp.run_refines (sc : Scanf) (st : Nat → Pen) (op : PenOp) (h : ∀ i, (st i).WF) :
    (fun i => (op.run sc st i).abs) = op.spec sc (fun i => (st i).abs) := by
  funext k
  cases op with
  | setBool i a v => simp only [PenOp.run, PenOp.spec, upd]; split <;> simp [abs_setBoolAttr]
  | setInt i a v => simp only [PenOp.run, PenOp.spec, upd]; split <;> simp [abs_setIntAttr']
  | setColour i a v => simp only [PenOp.run, PenOp.spec, upd]; split <;> simp [abs_setColourAttr']
  | setRgb8 i a v => simp only [PenOp.run, PenOp.spec, upd]; split <;> simp [abs_setColourAttrRgb8]
  | clearAttr i a => simp only [PenOp.run, PenOp.spec, upd]; split <;> simp [abs_clearAttr]
  | clear i => simp only [PenOp.run, PenOp.spec, upd]; split <;> simp [abs_clear]
  | copy d s ow =>
    simp only [PenOp.run, PenOp.spec, upd]
    by_cases hds : d = s
    · subst hds; simp only [if_true]; split
      · next hk => subst hk; rw [dict_copy_self]
      · rfl
    · simp only [hds, if_false, upd]; split <;> simp [abs_copy _ _ _ (h s)]
  | copyAttr d s a =>
    simp only [PenOp.run, PenOp.spec, upd]
    split
    · next hk =>
      by_cases hds : d = s
      · subst hds
        simp [abs_copyAttrSelf _ _ (h d)]
      · simp [hds, abs_copyAttr _ _ _ (h s)]
    · rfl
  | clone d s => simp only [PenOp.run, PenOp.spec, upd]; split <;> simp [abs_clone _ (h s)]
  | desc i a s =>
    simp only [PenOp.run, PenOp.spec]
    rw [setColourAttrDesc_eq_parse]
    cases hp : descParse sc s with
    | none => simp only [applyParsed, upd]; split <;> simp_all
    | some r =>
      obtain ⟨idx, rgb⟩ := r
      cases rgb with
      | none => simp only [applyParsed, upd]; split <;> simp [abs_setColourAttr']
      | some rgb => simp only [applyParsed, upd]; split <;> simp [abs_setColourAttr', abs_setColourAttrRgb8]

def runOps (sc : Scanf) (st : Nat → Pen) : List PenOp → (Nat → Pen)
  | [] => st
  | op :: ops => runOps sc (op.run sc st) ops

def specOps (sc : Scanf) (st : Nat → PenDict) : List PenOp → (Nat → PenDict)
  | [] => st
  | op :: ops => specOps sc (op.spec sc st) ops

theorem runOps_wf (sc : Scanf) (ops : List PenOp) (st : Nat → Pen) (h : ∀ i, (st i).WF) : ∀ i, (runOps sc st ops i).WF := by
  induction ops generalizing st with
  | nil => exact h
  | cons op ops ih => exact ih _ (PenOp.run_wf sc st op h)

theorem runOps_refines (sc : Scanf) (ops : List PenOp) (st : Nat → Pen) (h : ∀ i, (st i).WF) :
    (fun i => (runOps sc st ops i).abs) = specOps sc (fun i => (st i).abs) ops := by
  induction ops generalizing st with
  | nil => rfl
  | cons op ops ih =>
    simp only [runOps, specOps]
    rw [ih _ (PenOp.run_wf sc st op h), PenOp.run_refines sc st op h]

end PenHistory

end Tickit
