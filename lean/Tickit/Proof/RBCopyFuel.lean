import Tickit.Proof.RBCopyMove
/-
  C13: the rectangle-set computation of `moverect` (`{src} − {dest}` with the model's fuel) always returns.
  The pieces of `tickit_rect_subtract` are added to an empty set; no two of them trigger the stretch / split /
  covered arms of `tickit_rectset_add` (they are "quiet" for one another), so every `add` is one scan and an insert.
-/
namespace Tickit.RBCopy
open Tickit Tickit.RB

/-- `cur` passes the member `r` in the scan of `tickit_rectset_add` without merging or splitting. -/
def Quiet (cur r : Rect) : Prop :=
  cur.bottom < r.top ∨ (cur.top > r.bottom ∨ cur.left > r.right ∨ cur.right < r.left) ∨
  (r.contains cur = false ∧
   ¬ ((cur.top = r.top ∧ cur.bottom = r.bottom) ∨ (cur.left = r.left ∧ cur.right = r.right)) ∧
   (cur.top = r.bottom ∨ cur.bottom = r.top))

theorem scan_quiet (cur : Rect) : ∀ (s : List Rect) (i : Nat), (∀ r ∈ s, Quiet cur r) → RectSet.scan cur s i = .insert := by
  intro s
  induction s with
  | nil => intro i _; rfl
  | cons r rest ih =>
    intro i h
    have hq := h r (List.mem_cons_self ..)
    have hrest := ih (i + 1) (fun x hx => h x (List.mem_cons_of_mem _ hx))
    unfold RectSet.scan
    by_cases h1 : cur.bottom < r.top
    · rw [if_pos h1]
    · rw [if_neg h1]
      by_cases h2 : cur.top > r.bottom ∨ cur.left > r.right ∨ cur.right < r.left
      · rw [if_pos h2]; exact hrest
      · rw [if_neg h2]
        rcases hq with hq | hq | hq
        · exact absurd hq h1
        · exact absurd hq h2
        · have hc : ¬ (r.contains cur = true) := by rw [hq.1]; simp
          rw [if_neg hc, if_neg hq.2.1, if_pos hq.2.2]
          exact hrest

theorem add_quiet (fuel : Nat) (s : List Rect) (cur : Rect) (h : ∀ r ∈ s, Quiet cur r) :
    RectSet.add (fuel + 1) s cur = some (RectSet.insertRect s cur) := by
  unfold RectSet.add
  rw [scan_quiet cur s 0 h]

theorem length_insertRect (s : List Rect) (r : Rect) : (RectSet.insertRect s r).length = s.length + 1 := by
  induction s with
  | nil => simp [RectSet.insertRect]
  | cons y ys ih =>
    unfold RectSet.insertRect
    split
    · simp
    · simp [ih]

theorem addMany_quiet : ∀ (ps s : List Rect) (fuel : Nat), ps.length + 1 < fuel →
    (∀ p ∈ ps, ∀ r ∈ s, Quiet p r) → ps.Pairwise (fun a b => Quiet b a) →
    ∃ s', RectSet.addMany fuel s ps = some s' ∧ (∀ x ∈ s', x ∈ s ∨ x ∈ ps) ∧ s'.length = s.length + ps.length := by
  intro ps
  induction ps with
  | nil =>
    intro s fuel _ _ _
    exact ⟨s, by unfold RectSet.addMany; rfl, fun x hx => Or.inl hx, by simp⟩
  | cons p ps ih =>
    intro s fuel hf hs hp
    cases fuel with
    | zero => simp at hf
    | succ f =>
      cases f with
      | zero => simp at hf
      | succ g =>
        unfold RectSet.addMany
        rw [add_quiet g s p (hs p (List.mem_cons_self ..))]
        simp only []
        rw [List.pairwise_cons] at hp
        obtain ⟨s', h1, h2, h3⟩ := ih (RectSet.insertRect s p) (g + 1) (by simp at hf ⊢; omega)
          (by
            intro q hq r hr
            rcases (RectSet.mem_insertRect s p r).1 hr with h | h
            · rw [h]; exact hp.1 q hq
            · exact hs q (List.mem_cons_of_mem _ hq) r h)
          hp.2
        refine ⟨s', h1, ?_, ?_⟩
        · intro x hx
          rcases h2 x hx with h | h
          · rcases (RectSet.mem_insertRect s p x).1 h with h' | h'
            · exact Or.inr (by rw [h']; exact List.mem_cons_self ..)
            · exact Or.inl h'
          · exact Or.inr (List.mem_cons_of_mem _ h)
        · rw [h3, length_insertRect]; simp; omega

theorem subtractFrom_noint : ∀ (fuel : Nat) (s : List Rect) (rect : Rect) (i : Nat),
    (∀ r ∈ s, r.intersects rect = false) → 0 < fuel → s.length < fuel + i →
    RectSet.subtractFrom fuel s rect i = some s := by
  intro fuel
  induction fuel with
  | zero => intro s rect i _ h0 _; omega
  | succ n ih =>
    intro s rect i hs _ hl
    unfold RectSet.subtractFrom
    cases hsi : s[i]? with
    | none => rfl
    | some r =>
      simp only []
      have hr : r ∈ s := List.mem_of_getElem? hsi
      have hi : i < s.length := by
        rcases List.getElem?_eq_some_iff.1 hsi with ⟨h, _⟩; exact h
      rw [hs r hr]
      simp only [Bool.not_false, if_true]
      exact ih s rect (i + 1) hs (by omega) (by omega)

/-! ### The pieces of `tickit_rect_subtract` -/

theorem pairwise_opt4 {α : Type} (R : α → α → Prop) (c1 c2 c3 c4 : Prop) [Decidable c1] [Decidable c2] [Decidable c3]
    [Decidable c4] (a b c d : α)
    (h12 : c1 → c2 → R a b) (h13 : c1 → c3 → R a c) (h14 : c1 → c4 → R a d)
    (h23 : c2 → c3 → R b c) (h24 : c2 → c4 → R b d) (h34 : c3 → c4 → R c d) :
    List.Pairwise R ((if c1 then [a] else []) ++ (if c2 then [b] else []) ++ (if c3 then [c] else []) ++
      (if c4 then [d] else [])) := by
  by_cases g1 : c1 <;> by_cases g2 : c2 <;> by_cases g3 : c3 <;> by_cases g4 : c4 <;>
    simp [g1, g2, g3, g4] <;> simp_all

theorem forall_opt4 {α : Type} (P : α → Prop) (c1 c2 c3 c4 : Prop) [Decidable c1] [Decidable c2] [Decidable c3]
    [Decidable c4] (a b c d : α) (h1 : c1 → P a) (h2 : c2 → P b) (h3 : c3 → P c) (h4 : c4 → P d) :
    ∀ x ∈ ((if c1 then [a] else []) ++ (if c2 then [b] else []) ++ (if c3 then [c] else []) ++ (if c4 then [d] else [])),
      P x := by
  intro x hx
  simp only [List.mem_append] at hx
  rcases hx with ((hx | hx) | hx) | hx
  · by_cases g : c1
    · rw [if_pos g] at hx; simp at hx; rw [hx]; exact h1 g
    · rw [if_neg g] at hx; simp at hx
  · by_cases g : c2
    · rw [if_pos g] at hx; simp at hx; rw [hx]; exact h2 g
    · rw [if_neg g] at hx; simp at hx
  · by_cases g : c3
    · rw [if_pos g] at hx; simp at hx; rw [hx]; exact h3 g
    · rw [if_neg g] at hx; simp at hx
  · by_cases g : c4
    · rw [if_pos g] at hx; simp at hx; rw [hx]; exact h4 g
    · rw [if_neg g] at hx; simp at hx

theorem length_opt4 {α : Type} (c1 c2 c3 c4 : Prop) [Decidable c1] [Decidable c2] [Decidable c3] [Decidable c4]
    (a b c d : α) :
    ((if c1 then [a] else []) ++ (if c2 then [b] else []) ++ (if c3 then [c] else []) ++ (if c4 then [d] else [])).length ≤ 4 := by
  by_cases g1 : c1 <;> by_cases g2 : c2 <;> by_cases g3 : c3 <;> by_cases g4 : c4 <;> simp [g1, g2, g3, g4]

/-- Linear arithmetic about two rectangles: unfold everything down to the four fields. -/
macro "rect_arith" : tactic => `(tactic| (
  simp only [Quiet, Rect.contains, Rect.intersects, Rect.Nonempty,
    Bool.and_eq_false_iff, Bool.and_eq_true, decide_eq_false_iff_not, decide_eq_true_eq] at *
  simp only [Rect.initBounded, Rect.bottom, Rect.right] at *
  omega))

/-- The pieces `sr − hole` (when the two intersect and `hole` does not swallow `sr`): pairwise quiet, none meets
    the hole, at most four. -/
theorem subtract_pieces_quiet (sr hole : Rect) (hs : sr.Nonempty) (hh : hole.Nonempty)
    (hi : hole.intersects sr = true) :
    (Rect.subtract sr hole).Pairwise (fun a b => Quiet b a) ∧
    (∀ p ∈ Rect.subtract sr hole, p.intersects hole = false) ∧ (Rect.subtract sr hole).length ≤ 4 := by
  unfold Rect.subtract
  by_cases hc : hole.contains sr = true
  · rw [if_pos hc]; simp
  · rw [if_neg hc]
    have hni : ¬ ((!hole.intersects sr) = true) := by rw [hi]; simp
    rw [if_neg hni]
    dsimp only
    refine ⟨?_, ?_, length_opt4 _ _ _ _ _ _ _ _⟩
    · apply pairwise_opt4
      · intro c1 c2; rect_arith
      · intro c1 c3; rect_arith
      · intro c1 c4; rect_arith
      · intro c2 c3; rect_arith
      · intro c2 c4; rect_arith
      · intro c3 c4; rect_arith
    · apply forall_opt4
      · intro c1; rw [Bool.eq_false_iff]; intro h; rect_arith
      · intro c2; rw [Bool.eq_false_iff]; intro h; rect_arith
      · intro c3; rw [Bool.eq_false_iff]; intro h; rect_arith
      · intro c4; rw [Bool.eq_false_iff]; intro h; rect_arith

theorem intersects_comm (a b : Rect) : a.intersects b = b.intersects a := by
  unfold Rect.intersects
  rw [Bool.eq_iff_iff]
  simp only [Bool.and_eq_true, decide_eq_true_eq]
  constructor <;> (rintro ⟨⟨⟨h1, h2⟩, h3⟩, h4⟩; exact ⟨⟨⟨h2, h1⟩, h4⟩, h3⟩)

/-- The vacated-area computation of `moverect` never runs out of the model's fuel. -/
theorem clearArea_returns (dr sr : Rect) (hsr : sr.Nonempty) : ∃ rects, clearArea dr sr = some rects := by
  have hh : (Rect.mk dr.top dr.left sr.lines sr.cols).Nonempty := hsr
  unfold clearArea moveFuel
  generalize (Rect.mk dr.top dr.left sr.lines sr.cols) = hole at hh ⊢
  rw [add_empty]
  simp only []
  rw [RectSet.subtract_of_nonempty _ _ _ hh]
  unfold RectSet.subtractFrom
  simp only [List.getElem?_cons_zero]
  by_cases hi : sr.intersects hole = true
  · rw [hi]
    simp only [Bool.not_true, Bool.false_eq_true, if_false, List.eraseIdx_cons_zero]
    have hp := subtract_pieces_quiet sr hole hsr hh (by rw [intersects_comm]; exact hi)
    obtain ⟨s', h1, h2, h3⟩ := addMany_quiet (Rect.subtract sr hole) [] 63 (by omega)
      (fun _ _ r hr => by cases hr) hp.1
    rw [h1]
    simp only []
    refine ⟨s', subtractFrom_noint 63 s' hole 0 ?_ (by omega) (by simp at h3; omega)⟩
    intro r hr
    rcases h2 r hr with h | h
    · cases h
    · exact hp.2.1 r h
  · have hi' : sr.intersects hole = false := by simpa using hi
    rw [hi']
    simp only [Bool.not_false, if_true]
    exact ⟨[sr], subtractFrom_noint 62 [sr] hole 1 (by intro r hr; simp at hr; rw [hr]; exact hi') (by omega) (by simp)⟩

end Tickit.RBCopy
