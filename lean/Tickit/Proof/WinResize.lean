import Tickit.Proof.WinNew
/-
  The invariant step of a terminal resize (`on_term_resize`: the root window takes the terminal's new size; the strips
  that are new are exposed).  A cell inside both the old and the new root area keeps its owner (`ownerLoc_root_rect`) and
  the grid driver keeps what it showed; a cell inside the new area only lies in one of the two exposed strips.
-/
namespace Tickit
namespace WinFlush
open WinTree WinRB WinSpec

/-- The root window has the size of the terminal. -/
def TermRoot (st : St) : Prop :=
  ∃ w : Win, st.tree.wins[0]? = some w ∧ w.rect.lines = st.tlines ∧ w.rect.cols = st.tcols

def optExpose (b : Bool) (t : Tree) (fuel : Nat) (r : Rect) : Res Tree :=
  if b then expose t fuel 0 (some r) else .ok t

/-- The window-tree half of `on_term_resize`. -/
def termResizeTree (t : Tree) (lines cols : Int) : Res Tree := do
  let root ← WinTree.get t 0
  let g ← setGeometry t 0 { root.rect with lines := lines, cols := cols }
  let t2 ← optExpose (decide (lines > root.rect.lines)) g.1 (t.wins.size + 1) ⟨root.rect.lines, 0, lines - root.rect.lines, cols⟩
  optExpose (decide (cols > root.rect.cols)) t2 (t.wins.size + 1) ⟨0, root.rect.cols, root.rect.lines, cols - root.rect.cols⟩

/-- The grid after the driver's resize: what was shown is kept inside the common area. -/
def resizedScreen (st : St) (lines cols : Int) : Int → Int → Cell :=
  fun l c => if 0 ≤ l ∧ l < min st.tlines lines ∧ 0 ≤ c ∧ c < min st.tcols cols then st.screen l c else Cell.never

theorem termResize_cases (st st' : St) (lines cols : Int) (h : termResize st lines cols = .ok st') :
    (st.tlines = lines ∧ st.tcols = cols ∧ st' = { st with screen := resizedScreen st lines cols }) ∨
    (¬ (st.tlines = lines ∧ st.tcols = cols) ∧ ∃ t', termResizeTree st.tree lines cols = .ok t' ∧
      st' = { st with screen := resizedScreen st lines cols, tlines := lines, tcols := cols, tree := t' }) := by
  unfold termResize at h
  simp only [bind, Bind.bind, pure, Pure.pure] at h
  split at h
  · rename_i hs
    cases h
    exact Or.inl ⟨hs.1, hs.2, rfl⟩
  · rename_i hs
    refine Or.inr ⟨hs, ?_⟩
    unfold termResizeTree optExpose
    simp only [bind, Bind.bind]
    cases hg : WinTree.get st.tree 0 with
    | ub e => rw [hg] at h; cases h
    | ok root =>
      rw [hg] at h
      simp only at h ⊢
      cases hsg : setGeometry st.tree 0 { top := root.rect.top, left := root.rect.left, lines := lines, cols := cols } with
      | ub e => rw [hsg] at h; cases h
      | ok g =>
        rw [hsg] at h
        simp only [St.fuel] at h ⊢
        by_cases h1 : lines > root.rect.lines
        · simp only [h1, if_true, decide_true] at h ⊢
          cases he1 : expose g.fst (st.tree.wins.size + 1) 0
              (some { top := root.rect.lines, left := 0, lines := lines - root.rect.lines, cols := cols }) with
          | ub e => rw [he1] at h; cases h
          | ok t2 =>
            rw [he1] at h
            simp only at h ⊢
            by_cases h2 : cols > root.rect.cols
            · simp only [h2, if_true, decide_true] at h ⊢
              cases he2 : expose t2 (st.tree.wins.size + 1) 0
                  (some { top := 0, left := root.rect.cols, lines := root.rect.lines, cols := cols - root.rect.cols }) with
              | ub e => rw [he2] at h; cases h
              | ok t3 =>
                rw [he2] at h
                simp only [Res.ok.injEq] at h
                exact ⟨t3, rfl, h.symm⟩
            · simp only [h2, if_false, decide_false, Bool.false_eq_true] at h ⊢
              simp only [Res.ok.injEq] at h
              exact ⟨t2, rfl, h.symm⟩
        · simp only [h1, if_false, decide_false, Bool.false_eq_true] at h ⊢
          by_cases h2 : cols > root.rect.cols
          · simp only [h2, if_true, decide_true] at h ⊢
            cases he2 : expose g.fst (st.tree.wins.size + 1) 0
                (some { top := 0, left := root.rect.cols, lines := root.rect.lines, cols := cols - root.rect.cols }) with
            | ub e => rw [he2] at h; cases h
            | ok t3 =>
              rw [he2] at h
              simp only [Res.ok.injEq] at h
              exact ⟨t3, rfl, h.symm⟩
          · simp only [h2, if_false, decide_false, Bool.false_eq_true] at h ⊢
            simp only [Res.ok.injEq] at h
            exact ⟨g.fst, rfl, h.symm⟩

/-! ### the owner of a cell inside both the old and the new root area -/

theorem ownerLoc_above (t t1 : Tree) (ho : Ordered t) (hw : ∀ x : Nat, 0 < x → t1.wins[x]? = t.wins[x]?) :
    ∀ (n : Nat) (id : Nat) (l c : Int), 0 < id → ownerLoc t1 n id l c = ownerLoc t n id l c := by
  intro n
  induction n with
  | zero => intro id l c _; rfl
  | succ m ih =>
    intro id l c hid
    rw [ownerLoc_unfold, ownerLoc_unfold, hw id hid]
    cases hx : t.wins[id]? with
    | none => rfl
    | some w =>
      simp only
      have hall : ∀ ch ∈ w.children, ownerLoc t1 m ch (l - w.rect.top) (c - w.rect.left) =
          ownerLoc t m ch (l - w.rect.top) (c - w.rect.left) := by
        intro ch hch
        have hlt : @LT.lt Nat _ id ch := ho id w hx ch hch
        exact ih ch _ _ (by omega)
      rw [findSome?_congr_mem _ _ _ hall]

theorem ownerLoc_root_rect (t t1 : Tree) (ho : Ordered t) (hw : ∀ x : Nat, 0 < x → t1.wins[x]? = t.wins[x]?)
    (w w1 : Win) (h0 : t.wins[0]? = some w) (h1 : t1.wins[0]? = some w1) (hv : w1.isVisible = w.isVisible)
    (hf : w1.freed = w.freed) (hc : w1.children = w.children) (ht : w1.rect.top = w.rect.top) (hl : w1.rect.left = w.rect.left)
    (n : Nat) (L C : Int) (hm : w.rect.memb L C = true) (hm1 : w1.rect.memb L C = true) :
    ownerLoc t1 (n + 1) 0 L C = ownerLoc t (n + 1) 0 L C := by
  rw [ownerLoc_unfold, ownerLoc_unfold, h0, h1]
  simp only [hv, hf, hc, ht, hl, hm, hm1]
  have hall : ∀ ch ∈ w.children, ownerLoc t1 n ch (L - w.rect.top) (C - w.rect.left) =
      ownerLoc t n ch (L - w.rect.top) (C - w.rect.left) := by
    intro ch hch
    have hlt : @LT.lt Nat _ 0 ch := ho 0 w h0 ch hch
    exact ownerLoc_above t t1 ho hw n ch _ _ hlt
  rw [findSome?_congr_mem _ _ _ hall]

theorem optExpose_spec (b : Bool) (t t' : Tree) (fuel : Nat) (r : Rect) (h : optExpose b t fuel r = .ok t')
    (hne : ∀ x ∈ t.root.damage, x.Nonempty) (hpos : RootsPositive t) :
    t'.wins = t.wins ∧ (∀ x ∈ t'.root.damage, x.Nonempty) ∧ (RectSet.Inv t.root.damage → RectSet.Inv t'.root.damage) ∧
    RootStep t t' ∧
    ∀ L C, Covered t'.root.damage L C ↔ (Covered t.root.damage L C ∨ (b = true ∧ ExposedRegion t fuel 0 (some r) L C)) := by
  unfold optExpose at h
  cases b with
  | false =>
    simp only [Bool.false_eq_true, if_false, Res.ok.injEq] at h
    subst h
    exact ⟨rfl, hne, fun hi => hi, RootStep.refl _, fun L C => ⟨Or.inl, fun hx => by
      rcases hx with hx | ⟨hx, _⟩
      · exact hx
      · cases hx⟩⟩
  | true =>
    simp only [if_true] at h
    obtain ⟨h1, h2, h3, h4, h5⟩ := expose_spec fuel t 0 _ t' h hne hpos
    refine ⟨h1, h2, h3, ?_, fun L C => ?_⟩
    · rcases h4 with rfl | h4
      · exact RootStep.refl _
      · exact Or.inr h4
    · rw [h5 L C]
      constructor
      · rintro (hx | hx)
        · exact Or.inl hx
        · exact Or.inr ⟨rfl, hx⟩
      · rintro (hx | ⟨_, hx⟩)
        · exact Or.inl hx
        · exact Or.inr hx

/-- A cell of a visible root window is exposed at itself. -/
theorem exposedRegion_root (t : Tree) (n : Nat) (w : Win) (hw : t.wins[0]? = some w) (hf : w.freed = false)
    (hv : w.isVisible = true) (hr : w.isRoot = true) (r : Rect) (L C : Int) (hm : r.Mem L C)
    (h0 : 0 ≤ L) (h1 : L < w.rect.lines) (h2 : 0 ≤ C) (h3 : C < w.rect.cols) :
    ExposedRegion t (n + 1) 0 (some r) L C :=
  ⟨L, C, fun r' hr' => by cases hr'; exact hm, w, hw, hf, h0, h1, h2, h3, hv, Or.inl ⟨hr, rfl, rfl⟩⟩

theorem ownerAt_some_memb (t : Tree) (hro : RootOk t) (L C : Int) (o : Id × Int × Int) (h : ownerAt t L C = some o) :
    ∃ w, t.wins[0]? = some w ∧ 0 ≤ L ∧ L < w.rect.lines ∧ 0 ≤ C ∧ C < w.rect.cols := by
  obtain ⟨w, hw, hf, hv, htop, hleft⟩ := hro.ex
  rw [ownerAt_eq t w hw hf hv htop hleft L C] at h
  split at h
  · rename_i hm
    have := (memb_true_iff _ _ _).1 hm
    simp only [Rect.Mem, Rect.bottom, Rect.right] at this
    exact ⟨w, hw, by omega, by omega, by omega, by omega⟩
  · cases h

/-- **`on_term_resize`** (window-tree half) keeps the invariants and "damaged or already right", for any new grid that
    kept what the old one showed inside the common area. -/
theorem termResizeTree_step (content : Id → Int → Int → Cell) (screen screen' : Int → Int → Cell) (t t' : Tree)
    (lines cols : Int) (hI : TInv content screen t) (hl : 0 < lines) (hc : 0 < cols)
    (root : Win) (hroot : t.wins[0]? = some root)
    (hkeep : ∀ L C, 0 ≤ L → L < min root.rect.lines lines → 0 ≤ C → C < min root.rect.cols cols → screen' L C = screen L C)
    (h : termResizeTree t lines cols = .ok t') :
    TInv content screen' t' ∧ RootStep t t' ∧ t'.wins.size = t.wins.size ∧
      (∃ w', t'.wins[0]? = some w' ∧ w'.rect.lines = lines ∧ w'.rect.cols = cols) ∧
      (ParentListed t → ParentListed t') := by
  have hok := hI.ok
  obtain ⟨rw0, hrw0, hrf, hrr, hrp, hrt, hrl⟩ := hok.rootWin.ex
  rw [hroot] at hrw0; cases hrw0
  unfold termResizeTree at h
  simp only [bind, Bind.bind] at h
  have hg : WinTree.get t 0 = .ok root := by unfold WinTree.get; rw [hroot]; simp [hrf]
  rw [hg] at h
  simp only at h
  generalize hgeom : ({ top := root.rect.top, left := root.rect.left, lines := lines, cols := cols } : Rect) = geom at h
  have hgeomf : geom.top = 0 ∧ geom.left = 0 ∧ geom.lines = lines ∧ geom.cols = cols := by
    rw [← hgeom]; exact ⟨hrt, hrl, rfl, rfl⟩
  -- the tree after `setGeometry`
  obtain ⟨t1, w1, hsg, h1_0, h1_other, h1_size, h1_root, hw1⟩ : ∃ (t1 : Tree) (w1 : Win),
      (∃ b, WinTree.setGeometry t 0 geom = .ok (t1, b)) ∧ t1.wins[0]? = some w1 ∧
      (∀ x : Nat, 0 < x → t1.wins[x]? = t.wins[x]?) ∧ t1.wins.size = t.wins.size ∧ t1.root = t.root ∧
      (w1.rect = geom ∧ w1.isVisible = root.isVisible ∧ w1.freed = root.freed ∧ w1.children = root.children ∧
        w1.parent = root.parent ∧ w1.isRoot = root.isRoot) := by
    unfold WinTree.setGeometry
    rw [hg]
    simp only [bind, Bind.bind]
    by_cases hrr' : root.rect = geom
    · exact ⟨t, root, ⟨false, by simp [hrr', pure, Pure.pure]⟩, hroot, fun _ _ => rfl, rfl, rfl, hrr', rfl, rfl, rfl, rfl, rfl⟩
    · refine ⟨WinTree.set t 0 { root with rect := geom }, { root with rect := geom },
        ⟨true, by simp [hrr', pure, Pure.pure]⟩, set_wins_self t 0 root _ hroot, ?_, set_size _ _ _, rfl, rfl, rfl, rfl, rfl, rfl, rfl⟩
      intro x hx
      exact set_wins_other t 0 x _ (Nat.ne_of_gt hx)
  obtain ⟨b, hsg⟩ := hsg
  rw [hsg] at h
  simp only at h
  obtain ⟨hw1r, hw1v, hw1f, hw1c, hw1p, hw1i⟩ := hw1
  -- every window of `t1` against the window of `t`
  have hrel : ∀ (x : Nat) (wb : Win), t1.wins[x]? = some wb → ∃ w, t.wins[x]? = some w ∧ wb.isRoot = w.isRoot ∧
      wb.parent = w.parent ∧ wb.freed = w.freed ∧ wb.isVisible = w.isVisible ∧ wb.children = w.children ∧
      (0 < x → wb = w) ∧ (x = 0 → wb = w1 ∧ w = root) := by
    intro x wb hwb
    by_cases hx : x = 0
    · subst hx
      rw [h1_0] at hwb; cases hwb
      exact ⟨root, hroot, hw1i, hw1p, hw1f, hw1v, hw1c, fun hx => by omega, fun _ => ⟨rfl, rfl⟩⟩
    · rw [h1_other x (by omega)] at hwb
      exact ⟨wb, hwb, rfl, rfl, rfl, rfl, rfl, fun _ => rfl, fun hx' => absurd hx' hx⟩
  have hrel' : ∀ (x : Nat) (w : Win), t.wins[x]? = some w → ∃ wb, t1.wins[x]? = some wb := by
    intro x w hw
    by_cases hx : x = 0
    · exact ⟨w1, by rw [hx]; exact h1_0⟩
    · exact ⟨w, by rw [h1_other x (by omega)]; exact hw⟩
  have hok1 : TreeOk t1 := by
    refine ⟨⟨?_⟩, ?_, ?_, ?_, ?_⟩
    · intro cur wb hwb ch hch
      obtain ⟨w, hw, _, _, _, _, hcs, _⟩ := hrel cur wb hwb
      obtain ⟨cw, hcw, hcpar, hcr⟩ := hok.wf.child cur w hw ch (by rw [← hcs]; exact hch)
      obtain ⟨cwb, hcwb⟩ := hrel' ch cw hcw
      obtain ⟨cw2, hcw2, hr2, hp2, _⟩ := hrel ch cwb hcwb
      rw [hcw] at hcw2; cases hcw2
      exact ⟨cwb, hcwb, by rw [hp2]; exact hcpar, by rw [hr2]; exact hcr⟩
    · intro cur wb hwb
      obtain ⟨w, hw, _, _, _, _, hcs, _⟩ := hrel cur wb hwb
      rw [hcs]; exact hok.nodup cur w hw
    · intro x wb hwb
      obtain ⟨w, hw, _, hp1, _⟩ := hrel x wb hwb
      rw [hp1]; exact hok.noSelf x w hw
    · intro x wb hwb hr
      obtain ⟨w, hw, hr1, _⟩ := hrel x wb hwb
      exact hok.onlyRoot x w hw (by rw [← hr1]; exact hr)
    · exact ⟨⟨w1, h1_0, by rw [hw1f]; exact hrf, by rw [hw1i]; exact hrr, by rw [hw1p]; exact hrp,
        by rw [hw1r]; exact hgeomf.1, by rw [hw1r]; exact hgeomf.2.1⟩⟩
  have hord1 : Ordered t1 := by
    intro x wb hwb ch hch
    obtain ⟨w, hw, _, _, _, _, hcs, _⟩ := hrel x wb hwb
    exact hI.ord x w hw ch (by rw [← hcs]; exact hch)
  have hpos1 : RootsPositive t1 := by
    intro x wb hwb hr
    obtain ⟨w, hw, hr1, _, _, _, _, _, hx0⟩ := hrel x wb hwb
    have hx : x = 0 := hok.onlyRoot x w hw (by rw [← hr1]; exact hr)
    obtain ⟨hwb1, _⟩ := hx0 hx
    rw [hwb1, hw1r, hgeomf.2.2.1, hgeomf.2.2.2]
    exact ⟨hl, hc⟩
  -- the two exposes
  cases he1 : optExpose (decide (lines > root.rect.lines)) t1 (t.wins.size + 1)
      { top := root.rect.lines, left := 0, lines := lines - root.rect.lines, cols := cols } with
  | ub e => rw [he1] at h; cases h
  | ok t2 =>
    rw [he1] at h
    simp only at h
    obtain ⟨a1, a2, a3, a4, a5⟩ := optExpose_spec _ t1 t2 _ _ he1 (by rw [h1_root]; exact hI.nonempty) hpos1
    have hpos2 : RootsPositive t2 := by intro x w hx hxr; rw [a1] at hx; exact hpos1 x w hx hxr
    obtain ⟨b1, b2, b3, b4, b5⟩ := optExpose_spec _ t2 t' _ _ h a2 hpos2
    have hwins : t'.wins = t1.wins := by rw [b1, a1]
    have hcore : ∀ x : Id, (t'.wins[x]?).map core = (t1.wins[x]?).map core := by intro x; rw [hwins]
    have hstep1 : RootStep t t1 := Or.inl h1_root
    refine ⟨⟨treeOk_congr_core hcore hok1, ordered_congr hwins hord1,
      rootsPositive_congr_core hcore hpos1, b2, b3 (a3 (by rw [h1_root]; exact hI.dinv)), ?_⟩,
      (hstep1.trans a4).trans b4, by rw [hwins, h1_size],
      ⟨w1, by rw [hwins]; exact h1_0, by rw [hw1r]; exact hgeomf.2.2.1, by rw [hw1r]; exact hgeomf.2.2.2⟩,
      fun hpl => parentListed_congr hwins (by
        intro x wb q hwb hq
        obtain ⟨w, hw, _, hp2, _⟩ := hrel x wb hwb
        obtain ⟨qw, hqw, hm⟩ := hpl x w q hw (by rw [← hp2]; exact hq)
        obtain ⟨qwb, hqwb⟩ := hrel' q qw hqw
        obtain ⟨qw2, hqw2, _, _, _, _, hcs, _⟩ := hrel q qwb hqwb
        rw [hqw] at hqw2; cases hqw2
        exact ⟨qwb, hqwb, by rw [hcs]; exact hm⟩)⟩
    intro L C w l c ho
    rw [ownerAt_congr t' t1 hwins] at ho
    -- under a hidden root nothing is owned
    cases hrv : root.isVisible with
    | false => rw [ownerAt_none_of_hidden t1 w1 h1_0 (by rw [hw1v]; exact hrv)] at ho; cases ho
    | true =>
    have hro1 : RootOk t1 :=
      ⟨⟨w1, h1_0, by rw [hw1f]; exact hrf, by rw [hw1v]; exact hrv, by rw [hw1r]; exact hgeomf.1, by rw [hw1r]; exact hgeomf.2.1⟩⟩
    obtain ⟨wr, hwr, hL0, hL1, hC0, hC1⟩ := ownerAt_some_memb t1 hro1 L C _ ho
    rw [h1_0] at hwr; cases hwr
    rw [hw1r, hgeomf.2.2.1] at hL1
    rw [hw1r, hgeomf.2.2.2] at hC1
    by_cases hin : L < root.rect.lines ∧ C < root.rect.cols
    · -- inside the old area too: same owner, and the grid kept the cell
      have hm : root.rect.memb L C = true := by
        apply (memb_true_iff _ _ _).2
        simp only [Rect.Mem, Rect.bottom, Rect.right]
        omega
      have hm1 : w1.rect.memb L C = true := by
        apply (memb_true_iff _ _ _).2
        rw [hw1r]
        simp only [Rect.Mem, Rect.bottom, Rect.right]
        omega
      have hsame : ownerAt t1 L C = ownerAt t L C := by
        unfold ownerAt
        rw [h1_size]
        exact ownerLoc_root_rect t t1 hI.ord h1_other root w1 hroot h1_0 hw1v hw1f hw1c (by rw [hw1r, hgeomf.1, hrt])
          (by rw [hw1r, hgeomf.2.1, hrl]) _ L C hm hm1
      rw [hsame] at ho
      rcases hI.inv L C w l c ho with hcov | hright
      · exact Or.inl ((b5 L C).2 (Or.inl ((a5 L C).2 (Or.inl (by rw [h1_root]; exact hcov)))))
      · right
        rw [hkeep L C hL0 (by omega) hC0 (by omega)]
        exact hright
    · -- a new cell: inside one of the two strips
      left
      by_cases hLo : L < root.rect.lines
      · have hCo : root.rect.cols ≤ C := by omega
        apply (b5 L C).2
        right
        refine ⟨by simp; omega, ?_⟩
        have h2_0 : t2.wins[0]? = some w1 := by rw [a1]; exact h1_0
        refine exposedRegion_root t2 _ w1 h2_0 (by rw [hw1f]; exact hrf) (by rw [hw1v]; exact hrv) (by rw [hw1i]; exact hrr)
          _ L C ?_ hL0 (by rw [hw1r, hgeomf.2.2.1]; exact hL1) hC0 (by rw [hw1r, hgeomf.2.2.2]; exact hC1)
        simp only [Rect.Mem, Rect.bottom, Rect.right]
        omega
      · apply (b5 L C).2
        left
        apply (a5 L C).2
        right
        refine ⟨by simp; omega, ?_⟩
        refine exposedRegion_root t1 _ w1 h1_0 (by rw [hw1f]; exact hrf) (by rw [hw1v]; exact hrv) (by rw [hw1i]; exact hrr)
          _ L C ?_ hL0 (by rw [hw1r, hgeomf.2.2.1]; exact hL1) hC0 (by rw [hw1r, hgeomf.2.2.2]; exact hC1)
        simp only [Rect.Mem, Rect.bottom, Rect.right]
        omega

end WinFlush
end Tickit
